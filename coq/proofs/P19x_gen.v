(* C19x - the symbolic exploration evaluated on the generated check_database programs (gen/G19x_upgrade.v), and
   the statements of props/C19x.v assembled from it and the soundness theorem. *)
From Coq Require Import ZArith List Bool Lia.
From IPV8V Require Import lib.PyErr lib.Bytes model.M19_sqltx gen.G19x_upgrade spec.S19x_legacy proofs.P19x_sound.
Import ListNotations.
Open Scope Z_scope.

Definition identity_final : xstate content := identity_v2 (version_is 2).
Definition wallet_final : xstate content := wallet_v2 (version_is 2).
Definition identity_reach : list (xstate content) := reach identity_sources identity_ucfg identity_v1.
Definition wallet_reach : list (xstate content) := reach wallet_sources wallet_ucfg wallet_v1.

(* computed on the generated programs, under the transaction rules of model/M19_sqltx.v *)
Lemma identity_closed : closed_check identity_sources identity_ucfg identity_v1 identity_reach = true.
Proof. vm_compute. reflexivity. Qed.
Lemma identity_class : class_check identity_sources identity_ucfg identity_allowed identity_final identity_reach = true.
Proof. vm_compute. reflexivity. Qed.
Lemma wallet_closed : closed_check wallet_sources wallet_ucfg wallet_v1 wallet_reach = true.
Proof. vm_compute. reflexivity. Qed.
Lemma wallet_class : class_check wallet_sources wallet_ucfg wallet_allowed wallet_final wallet_reach = true.
Proof. vm_compute. reflexivity. Qed.

Definition identity_history (env : Z -> list xrow) (ks : list nat) :=
  xhistory apply_c version_c identity_ucfg (fresh_conn (conc env identity_v1)) (kills ks).
Definition wallet_history (env : Z -> list xrow) (ks : list nat) :=
  xhistory apply_c version_c wallet_ucfg (fresh_conn (conc env wallet_v1)) (kills ks).

Lemma identity_all_or_nothing_l : forall env ks,
  wf_env identity_sources env ->
  let c := identity_history env ks in
  c_intx c = false /\ c_view c = c_dur c /\
  (exists t, In t identity_allowed /\ forall id, find_tab (c_dur c) id = find_tab (conc env t) id) /\
  exists tr cf, xopen apply_c version_c identity_ucfg c = (tr, cf, ODone) /\ c_intx cf = false /\
                forall id, find_tab (c_dur cf) id = find_tab (conc env identity_final) id.
Proof.
  intros env ks WF.
  exact (upgrade_kill_safe identity_sources identity_ucfg identity_v1 identity_allowed identity_final identity_reach
           identity_closed identity_class env WF ks).
Qed.

Lemma wallet_all_or_nothing_l : forall env ks,
  wf_env wallet_sources env ->
  let c := wallet_history env ks in
  c_intx c = false /\ c_view c = c_dur c /\
  (exists t, In t wallet_allowed /\ forall id, find_tab (c_dur c) id = find_tab (conc env t) id) /\
  exists tr cf, xopen apply_c version_c wallet_ucfg c = (tr, cf, ODone) /\ c_intx cf = false /\
                forall id, find_tab (c_dur cf) id = find_tab (conc env wallet_final) id.
Proof.
  intros env ks WF.
  exact (upgrade_kill_safe wallet_sources wallet_ucfg wallet_v1 wallet_allowed wallet_final wallet_reach
           wallet_closed wallet_class env WF ks).
Qed.

Lemma version_of_find (a b : xstate (list xrow)) :
  find_tab a X_OPTION = find_tab b X_OPTION -> version_c a = version_c b.
Proof. unfold version_c. intros H. rewrite H. reflexivity. Qed.

Lemma map_app_nil_id (l : list xrow) : map (fun r : list Z => r ++ []) l = l.
Proof. induction l as [|x l IH]; cbn; [reflexivity|]. rewrite app_nil_r, IH. reflexivity. Qed.

(* consequences, table by table *)
Lemma identity_tables_l : forall env ks,
  wf_env identity_sources env ->
  let d := c_dur (identity_history env ks) in
  find_tab d TID_Tokens = Some (mkXT TID_Tokens [0; 1; 3]%nat 5 (env TID_Tokens)) /\
  find_tab d TID_Metadata = Some (mkXT TID_Metadata [0; 1]%nat 4 (env TID_Metadata)) /\
  find_tab d TID_Attestations_v1 = None /\
  (exists pk, find_tab d TID_Attestations = Some (mkXT TID_Attestations pk 4 (env TID_Attestations))) /\
  (version_c d = Some 2 ->
   find_tab d TID_Attestations = Some (mkXT TID_Attestations [0; 1; 2]%nat 4 (env TID_Attestations))) /\
  (version_c d = Some 1 ->
   find_tab d TID_Attestations = Some (mkXT TID_Attestations [0; 2]%nat 4 (env TID_Attestations))) /\
  (version_c d = Some 0 \/ version_c d = Some 1 \/ version_c d = Some 2).
Proof.
  intros env ks WF d. destruct (identity_all_or_nothing_l env ks WF) as [_ [_ [[t [Ht F]] _]]].
  fold d in F. pose proof (version_of_find _ _ (F X_OPTION)) as V.
  rewrite !F, V. cbn in Ht.
  destruct Ht as [E|[E|[E|[]]]]; subst t; cbn; rewrite ?map_app_nil_id;
    repeat split; eauto; try discriminate.
Qed.

Lemma wallet_tables_l : forall env ks,
  wf_env wallet_sources env ->
  let d := c_dur (wallet_history env ks) in
  (version_c d = Some 1 -> find_tab d TID_wallet = Some (mkXT TID_wallet [O] 3 (env TID_wallet))) /\
  (version_c d <> Some 1 ->
   find_tab d TID_wallet = Some (mkXT TID_wallet [O] 4 (map (fun r => r ++ [LIT_id_metadata]) (env TID_wallet)))) /\
  (version_c d = Some 0 \/ version_c d = Some 1 \/ version_c d = Some 2).
Proof.
  intros env ks WF d. destruct (wallet_all_or_nothing_l env ks WF) as [_ [_ [[t [Ht F]] _]]].
  fold d in F. pose proof (version_of_find _ _ (F X_OPTION)) as V.
  rewrite !F, V. cbn in Ht.
  destruct Ht as [E|[E|[E|[]]]]; subst t; cbn; rewrite ?map_app_nil_id;
    repeat split; eauto; try discriminate; intros H; try reflexivity; try (exfalso; apply H; reflexivity).
Qed.

(* ---------------------------------------------------------------- first open of a brand-new file *)
Definition identity_fresh_reach : list (xstate content) := reach [] identity_ucfg [].
Definition wallet_fresh_reach : list (xstate content) := reach [] wallet_ucfg [].

Lemma identity_fresh_closed : closed_check [] identity_ucfg [] identity_fresh_reach = true.
Proof. vm_compute. reflexivity. Qed.
Lemma identity_fresh_class : class_check [] identity_ucfg identity_fresh_reach identity_new identity_fresh_reach = true.
Proof. vm_compute. reflexivity. Qed.
Lemma wallet_fresh_closed : closed_check [] wallet_ucfg [] wallet_fresh_reach = true.
Proof. vm_compute. reflexivity. Qed.
Lemma wallet_fresh_class : class_check [] wallet_ucfg wallet_fresh_reach wallet_new wallet_fresh_reach = true.
Proof. vm_compute. reflexivity. Qed.

Lemma wf_no_sources env : wf_env [] env.
Proof. constructor. Qed.

Definition identity_creation (ks : list nat) :=
  xhistory apply_c version_c identity_ucfg (fresh_conn []) (kills ks).
Definition wallet_creation (ks : list nat) :=
  xhistory apply_c version_c wallet_ucfg (fresh_conn []) (kills ks).

Lemma identity_creation_l : forall ks,
  let c := identity_creation ks in
  c_intx c = false /\ c_view c = c_dur c /\
  exists tr cf, xopen apply_c version_c identity_ucfg c = (tr, cf, ODone) /\ c_intx cf = false /\
                forall id, find_tab (c_dur cf) id = find_tab (conc no_rows identity_new) id.
Proof.
  intros ks.
  destruct (upgrade_kill_safe [] identity_ucfg [] identity_fresh_reach identity_new identity_fresh_reach
              identity_fresh_closed identity_fresh_class no_rows (wf_no_sources no_rows) ks) as [A [B [_ C]]].
  exact (conj A (conj B C)).
Qed.

Lemma wallet_creation_l : forall ks,
  let c := wallet_creation ks in
  c_intx c = false /\ c_view c = c_dur c /\
  exists tr cf, xopen apply_c version_c wallet_ucfg c = (tr, cf, ODone) /\ c_intx cf = false /\
                forall id, find_tab (c_dur cf) id = find_tab (conc no_rows wallet_new) id.
Proof.
  intros ks.
  destruct (upgrade_kill_safe [] wallet_ucfg [] wallet_fresh_reach wallet_new wallet_fresh_reach
              wallet_fresh_closed wallet_fresh_class no_rows (wf_no_sources no_rows) ks) as [A [B [_ C]]].
  exact (conj A (conj B C)).
Qed.
