(* C09 - most of what a node does only extends its state harmlessly (P09_inv.ext): refreshing or
   adding entries, queueing tasks, putting cells on the wire. *)
From Coq Require Import ZArith List Bool Lia ZifyBool.
From IPV8V Require Import gen.G09_rules model.M09_reclaim spec.S09_reclaim proofs.P09_alist proofs.P09_inv.
Import ListNotations.
Open Scope Z_scope.

Section Ext.
Variable st : settings.
Hypothesis Hst : settings_ok st.

Lemma side_inv_ext s s' : side_inv s -> ext s s' -> side_inv s'.
Proof.
  intros [H1 H2] X. split; [rewrite (x_sweep _ _ X), (x_now _ _ X); exact H1|].
  intros cid c' H. destruct (x_circuits _ _ X _ _ H) as (c & Hc0 & G & Hh & K & C & L & M).
  destruct (H2 _ _ Hc0). rewrite Hh, (x_now _ _ X). split; lia.
Qed.

(* ---------------------------------------------------------------- single-component updates *)
Lemma ext_set_circuit s cid c c1 :
  side_inv s -> aget cid (circuits s) = Some c ->
  c_goal c1 = c_goal c -> c_hops c1 = c_hops c -> c_closing c1 = c_closing c ->
  creation (c_ro c1) = creation (c_ro c) -> la (c_ro c) <= la (c_ro c1) -> la (c_ro c1) <= now s ->
  ext s (set_circuits (aset cid c1 (circuits s)) s).
Proof.
  intros Hs Hc G Hh K C L M. pose proof (ext_refl s Hs) as R. destruct R.
  constructor; simpl; auto.
  intros cid' c' H. rewrite aget_aset in H. destruct (cid' =? cid) eqn:E.
  - apply Z.eqb_eq in E; subst cid'. inversion H; subst c'. exists c. repeat split; auto.
  - apply x_circuits; exact H.
Qed.

Lemma ext_del_circuit s cid : side_inv s -> ext s (set_circuits (adel cid (circuits s)) s).
Proof.
  intros Hs. pose proof (ext_refl s Hs) as R. destruct R. constructor; simpl; auto.
  intros cid' c' H. rewrite aget_adel in H. destruct (cid' =? cid); [discriminate|]. apply x_circuits; exact H.
Qed.

Lemma ext_set_relay s cid r1 :
  side_inv s ->
  ((exists r, aget cid (relays s) = Some r /\ la (r_ro r) <= la (r_ro r1)) \/ now s <= la (r_ro r1)) ->
  ext s (set_relays (aset cid r1 (relays s)) s).
Proof.
  intros Hs Hr. pose proof (ext_refl s Hs) as R. destruct R. constructor; simpl; auto.
  intros cid' r' H. rewrite aget_aset in H. destruct (cid' =? cid) eqn:E.
  - apply Z.eqb_eq in E; subst cid'. inversion H; subst r'. exact Hr.
  - apply x_relays; exact H.
Qed.

Lemma ext_del_relay s cid : side_inv s -> ext s (set_relays (adel cid (relays s)) s).
Proof.
  intros Hs. pose proof (ext_refl s Hs) as R. destruct R. constructor; simpl; auto.
  intros cid' c' H. rewrite aget_adel in H. destruct (cid' =? cid); [discriminate|]. apply x_relays; exact H.
Qed.

Lemma ext_set_exit s cid e1 :
  side_inv s ->
  ((exists e, aget cid (exits s) = Some e /\ la (e_ro e) <= la (e_ro e1)) \/ now s <= la (e_ro e1)) ->
  ext s (set_exits (aset cid e1 (exits s)) s).
Proof.
  intros Hs Hr. pose proof (ext_refl s Hs) as R. destruct R. constructor; simpl; auto.
  intros cid' r' H. rewrite aget_aset in H. destruct (cid' =? cid) eqn:E.
  - apply Z.eqb_eq in E; subst cid'. inversion H; subst r'. exact Hr.
  - apply x_exits; exact H.
Qed.

Lemma ext_del_exit s cid : side_inv s -> ext s (set_exits (adel cid (exits s)) s).
Proof.
  intros Hs. pose proof (ext_refl s Hs) as R. destruct R. constructor; simpl; auto.
  intros cid' c' H. rewrite aget_adel in H. destruct (cid' =? cid); [discriminate|]. apply x_exits; exact H.
Qed.

Definition not_dretry (d : deferred) : Prop := match d with DRetry _ _ _ => False | _ => True end.

Lemma ext_defer s d : side_inv s -> not_dretry d -> ext s (defer d s).
Proof.
  intros Hs Hd. pose proof (ext_refl s Hs) as R. destruct R. unfold defer. constructor; simpl; auto.
  - intros x H. apply in_or_app; left; exact H.
  - intros cid tries ini H. apply in_app_or in H. destruct H as [H|[H|[]]]; [exact H|].
    subst d. destruct Hd.
Qed.

Lemma ext_set_createds s x : side_inv s -> ext s (set_createds x s).
Proof. intros Hs. pose proof (ext_refl s Hs) as R. destruct R. constructor; simpl; auto. Qed.

Lemma ext_set_creates s x : side_inv s -> ext s (set_creates x s).
Proof. intros Hs. pose proof (ext_refl s Hs) as R. destruct R. constructor; simpl; auto. Qed.

(* chaining: the side invariant travels along *)
Lemma ext_step s s1 s2 : side_inv s -> ext s s1 -> (side_inv s1 -> ext s1 s2) -> ext s s2.
Proof. intros Hs X1 X2. eapply ext_trans; [exact X1|]. apply X2. eapply side_inv_ext; eauto. Qed.

(* ---------------------------------------------------------------- send_cell *)
Lemma send_cell_ext s dst cid mid ls :
  side_inv s -> ext s (fst (fst (send_cell st s dst cid mid ls))).
Proof.
  intros Hs. unfold send_cell. destruct (take ls) as [n ls'].
  destruct (aget cid (circuits s)) as [c|] eqn:Ec; simpl.
  - destruct Hs as [H1 H2]. destruct (H2 _ _ Ec).
    eapply ext_set_circuit; eauto; simpl; try reflexivity; try lia. split; assumption.
  - destruct (aget cid (relays s)) as [r|] eqn:Er; simpl.
    + apply ext_set_relay; [exact Hs|]. left. exists r. split; [exact Er|]. simpl. lia.
    + apply ext_refl; exact Hs.
Qed.

(* ---------------------------------------------------------------- exit socket emission *)
Lemma exit_sendto_la cid e len tnow :
  let e' := fst (exit_sendto cid e len tnow) in
  la (e_ro e') = la (e_ro e) \/ la (e_ro e') = tnow.
Proof. unfold exit_sendto. destruct (e_open e); simpl; auto. Qed.

Lemma drain_la cid q : forall e tnow,
  let e' := fst (drain cid e q tnow) in la (e_ro e') = la (e_ro e) \/ la (e_ro e') = tnow.
Proof.
  induction q as [|len tl IH]; intros e tnow; simpl; [left; reflexivity|].
  destruct (exit_sendto cid e len tnow) as [e1 o1] eqn:E1.
  destruct (drain cid e1 tl tnow) as [e2 o2] eqn:E2. simpl.
  pose proof (exit_sendto_la cid e len tnow) as H1. rewrite E1 in H1. simpl in H1.
  pose proof (IH e1 tnow) as H2. rewrite E2 in H2. simpl in H2.
  destruct H2 as [H2|H2]; [rewrite H2; exact H1 | right; exact H2].
Qed.

Lemma handle_data_ext s src cid a b c len :
  side_inv s -> ext s (fst (handle_data s src cid a b c len)).
Proof.
  intros Hs. unfold handle_data.
  destruct (aget cid (circuits s)) as [ci|] eqn:Ec.
  - destruct (a && (src =? c_first ci)); simpl.
    + destruct Hs as [H1 H2]. destruct (H2 _ _ Ec).
      eapply ext_set_circuit; eauto; simpl; try reflexivity; try lia. split; assumption.
    + destruct b; simpl; [apply ext_refl; exact Hs|].
      destruct (aget cid (exits s)) as [e|] eqn:Ee; simpl; [|apply ext_refl; exact Hs].
      destruct (negb (e_enabled e) && negb (src =? e_peer e)); simpl; [apply ext_refl; exact Hs|].
      destruct c.
      * destruct (exit_sendto cid (mkExit (e_ro e) (e_peer e) true (e_open e) (e_queue e)) len (now s)) as [e2 o] eqn:E2.
        pose proof (exit_sendto_la cid (mkExit (e_ro e) (e_peer e) true (e_open e) (e_queue e)) len (now s)) as Hl.
        rewrite E2 in Hl; simpl in Hl.
        assert (X : ext s (set_exits (aset cid e2 (exits s)) s)).
        { apply ext_set_exit; [exact Hs|]. destruct Hl as [Hl|Hl]; [left; exists e; split; [exact Ee|lia] | right; lia]. }
        destruct (negb (e_enabled e)); simpl; [|exact X].
        eapply ext_step; [exact Hs | exact X|]. intro Hs1. apply ext_defer; [exact Hs1 | exact I].
      * assert (X : ext s (set_exits (aset cid (mkExit (e_ro e) (e_peer e) true (e_open e) (e_queue e)) (exits s)) s)).
        { apply ext_set_exit; [exact Hs|]. left; exists e; split; [exact Ee|simpl; lia]. }
        destruct (negb (e_enabled e)); simpl; [|exact X].
        eapply ext_step; [exact Hs | exact X|]. intro Hs1. apply ext_defer; [exact Hs1 | exact I].
  - simpl. destruct b; simpl; [apply ext_refl; exact Hs|].
    destruct (aget cid (exits s)) as [e|] eqn:Ee; simpl; [|apply ext_refl; exact Hs].
    destruct (negb (e_enabled e) && negb (src =? e_peer e)); simpl; [apply ext_refl; exact Hs|].
    destruct c.
    + destruct (exit_sendto cid (mkExit (e_ro e) (e_peer e) true (e_open e) (e_queue e)) len (now s)) as [e2 o] eqn:E2.
      pose proof (exit_sendto_la cid (mkExit (e_ro e) (e_peer e) true (e_open e) (e_queue e)) len (now s)) as Hl.
      rewrite E2 in Hl; simpl in Hl.
      assert (X : ext s (set_exits (aset cid e2 (exits s)) s)).
      { apply ext_set_exit; [exact Hs|]. destruct Hl as [Hl|Hl]; [left; exists e; split; [exact Ee|lia] | right; lia]. }
      destruct (negb (e_enabled e)); simpl; [|exact X].
      eapply ext_step; [exact Hs | exact X|]. intro Hs1. apply ext_defer; [exact Hs1 | exact I].
    + assert (X : ext s (set_exits (aset cid (mkExit (e_ro e) (e_peer e) true (e_open e) (e_queue e)) (exits s)) s)).
      { apply ext_set_exit; [exact Hs|]. left; exists e; split; [exact Ee|simpl; lia]. }
      destruct (negb (e_enabled e)); simpl; [|exact X].
      eapply ext_step; [exact Hs | exact X|]. intro Hs1. apply ext_defer; [exact Hs1 | exact I].
Qed.

(* ---------------------------------------------------------------- on_destroy, do_ping *)
Lemma recv_destroy_ext s src cid reason : side_inv s -> ext s (recv_destroy s src cid reason).
Proof.
  intros Hs. unfold recv_destroy.
  assert (D : forall k c dd rn, side_inv s -> ext s (defer (DRemove k c dd rn) s)).
  { intros. apply ext_defer; [assumption | exact I]. }
  assert (T : ext s match aget cid (circuits s) with
                    | Some c => if src =? c_first c then defer (DRemove KCirc cid 0 false) s else s
                    | None => s end).
  { destruct (aget cid (circuits s)) as [c|]; [|apply ext_refl; exact Hs].
    destruct (src =? c_first c); [apply D; exact Hs | apply ext_refl; exact Hs]. }
  match goal with |- ext s (match ?x with _ => _ end) => destruct x as [nxt|] end.
  - eapply ext_step; [exact Hs | apply D; exact Hs|]. intro Hs1. apply ext_defer; [exact Hs1 | exact I].
  - destruct (aget cid (exits s)) as [e|]; [|exact T].
    destruct (src =? e_peer e); [apply D; exact Hs | exact T].
Qed.

Lemma ping_all_ext cs : forall s ls, side_inv s -> ext s (fst (ping_all st s cs ls)).
Proof.
  induction cs as [|[cid c0] tl IH]; intros s ls Hs; simpl; [apply ext_refl; exact Hs|].
  destruct (aget cid (circuits s)) as [c|] eqn:Ec; [|apply IH; exact Hs].
  destruct (negb (c_closing c) && (0 <? c_hops c)); [|apply IH; exact Hs].
  destruct (send_cell st s (c_first c) cid MSG_PING ls) as [[s1 o1] ls1] eqn:E1.
  destruct (ping_all st s1 tl ls1) as [s2 o2] eqn:E2. simpl.
  pose proof (send_cell_ext s (c_first c) cid MSG_PING ls Hs) as X1. rewrite E1 in X1; simpl in X1.
  eapply ext_step; [exact Hs | exact X1|]. intro Hs1.
  pose proof (IH s1 ls1 Hs1) as X2. rewrite E2 in X2. exact X2.
Qed.

End Ext.
