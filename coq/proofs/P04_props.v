(* C04: end-to-end statements over an honest path of any length, and the fault statements. *)
From Coq Require Import ZArith List Bool Lia ZifyBool Arith.
From IPV8V Require Import lib.PyErr lib.Bytes lib.BE model.M02_wire model.M03_recv model.M04_onion
  spec.S04_onion_spec proofs.P02_prims proofs.P02_roundtrip proofs.P04_base proofs.P04_node
  proofs.P04_endpoint proofs.P04_chain.
Import ListNotations.
Open Scope Z_scope.

Lemma skipn_app_le {A} (l1 l2 : list A) i : (i <= length l1)%nat -> skipn i (l1 ++ l2) = skipn i l1 ++ l2.
Proof. intros H. rewrite skipn_app. replace (i - length l1)%nat with 0%nat by lia. reflexivity. Qed.

Lemma snoc_inv {A} (l : list A) m : length l = S m -> exists l' x, l = l' ++ [x] /\ length l' = m.
Proof.
  intros H. destruct (exists_last (l := l)) as (l' & x & E). { intro; subst; discriminate. }
  exists l', x. split; [exact E|]. subst l. rewrite app_length in H. simpl in H. lia.
Qed.

Lemma ip_eqb_refl a : ip_eqb a a = true.
Proof. destruct a; simpl; apply bytes_eqb_refl. Qed.

Section Props.
Variables key nonce : Type.
Variable enc : key -> dir -> nonce -> bytes -> bytes.
Variable dec : key -> dir -> bytes -> option bytes.
Notation path := (path key).
Notation relay_spec := (relay_spec key).
Notation enc_layers := (enc_layers enc).

Lemma fwd_pkts_last pfx early last_addr last_cid bx : forall (rs : list relay_spec) cid nl,
  fwd_chain pfx early rs cid last_addr last_cid -> length nl = length rs ->
  nth (length rs) (fwd_pkts key nonce enc pfx early rs cid nl bx) [] = cell_to_bin pfx (mkCell last_cid bx false early).
Proof.
  induction rs as [|r rtl IH]; intros cid nl Hch Hl.
  - destruct nl; [|discriminate]. cbn in Hch. subst. reflexivity.
  - destruct nl as [|n nl]; [discriminate|]. cbn [fwd_chain] in Hch. destruct Hch as (_ & _ & Hch).
    cbn [length fwd_pkts nth]. apply IH; [exact Hch | simpl in Hl; lia].
Qed.

Lemma bwd_pkts_last pfx early last_addr last_cid : forall (rs : list relay_spec) cid nss b,
  bwd_chain pfx early rs cid last_addr last_cid ->
  nth (length rs) (bwd_pkts key nonce enc pfx early rs cid nss b) []
  = cell_to_bin pfx (mkCell last_cid (wrap_bwd key nonce enc rs nss b) false early).
Proof.
  induction rs as [|r rtl IH]; intros cid nss b Hch.
  - cbn in Hch. subst. reflexivity.
  - cbn [bwd_chain] in Hch. destruct Hch as (_ & _ & Hch). cbn [length bwd_pkts nth wrap_bwd]. apply IH. exact Hch.
Qed.

(* ------------------------------------------------------------------ forward *)
Lemma forward_transport_l (p : path) m0 rest e0 ns rnd nss nsx :
  aead_correct enc dec -> forward_ready (origin_early p m0) p -> c_hs (p_circ p) = None ->
  let msg := m0 :: rest in
  let a1 := first_addr (p_relays p) (p_xaddr p) in
  let prev := last_sender (p_relays p) (p_oaddr p) in
  exists o' (links : list bytes) nl,
    ep_send_cell enc (p_origin p) a1 (mkCell (p_cid p) msg false e0) ns = Ok (o', [Send a1 (hd [] links)])
    /\ through enc dec (p_relays p) (p_oaddr p) a1 (hd [] links) rnd nss
       = Some (prev, p_xaddr p, nth (length (p_relays p)) links [], List.tl links)
    /\ length links = path_len p /\ length nl = path_len p
    /\ (forall i, (i < path_len p)%nat ->
          cell_body (nth i links []) = enc_layers FORWARD (skipn i (path_keys p)) (skipn i nl) msg)
    /\ on_packet enc dec (p_exit p) prev (nth (length (p_relays p)) links []) rnd nsx
       = community_on_cell_packet enc (p_exit p) prev
           (cell_to_bin (p_pfx p) (mkCell (p_xcid p) msg false (origin_early p m0))) rnd nsx.
Proof.
  intros C (Ho & Hx & Hch) Hhs msg a1 prev.
  destruct Ho as (Hp & Hop & Hcid & Hoa & Hok & _ & Hor & Hoe & Hom).
  destruct Hx as (Hxp & Hxcid & Hxr & Hxc & Hxe & Hxi & Hxk & Hxa & Hxm).
  set (rk := map rs_key (p_relays p)) in *.
  assert (Lk : length (path_keys p) = S (length (p_relays p))) by (unfold path_keys; rewrite app_length, map_length; simpl; lia).
  destruct (snoc_inv (drawn ns (length (path_keys p))) (length (p_relays p))) as (nlr & nx & Ed & Lr).
  { rewrite drawn_length. exact Lk. }
  set (early := origin_early p m0) in *.
  set (bx := enc (p_xkey p) FORWARD nx msg).
  exists (set_circuits (p_origin p) (upd (p_cid p) (if early then bump key (p_circ p) else p_circ p) (n_circuits (p_origin p)))),
         (fwd_pkts key nonce enc (p_pfx p) early (p_relays p) (p_cid p) nlr bx), (nlr ++ [nx]).
  assert (Hhd : hd [] (fwd_pkts key nonce enc (p_pfx p) early (p_relays p) (p_cid p) nlr bx)
                = cell_to_bin (p_pfx p) (mkCell (p_cid p) (enc_layers FORWARD (path_keys p) (drawn ns (length (path_keys p))) msg) false early)).
  { rewrite fwd_pkts_hd, Ed. unfold path_keys. fold rk.
    rewrite (enc_layers_app key nonce enc) by (unfold rk; rewrite map_length; lia). reflexivity. }
  split; [|split; [|split; [|split; [|split]]]].
  - rewrite Hhd, <- Hop. apply (origin_send key nonce enc (p_origin p) a1 (p_cid p) (p_circ p) (path_keys p) m0 rest e0 ns Hoa Hhs Hok).
  - rewrite (fwd_pkts_last (p_pfx p) early (p_xaddr p) (p_xcid p) bx (p_relays p) (p_cid p) nlr Hch ltac:(lia)).
    apply (fwd_through key nonce enc dec (p_pfx p) early (p_xaddr p) (p_xcid p) bx rnd (p_relays p) (p_cid p) (p_oaddr p) nlr nss C Hp Hcid Hch).
    lia.
  - rewrite fwd_pkts_length by lia. reflexivity.
  - rewrite app_length. simpl. unfold path_len. lia.
  - intros i Hi. unfold path_len in Hi.
    rewrite (fwd_pkts_nth key nonce enc (p_pfx p) early bx (p_relays p) (p_cid p) nlr i Hp ltac:(lia) ltac:(lia)).
    unfold path_keys. fold rk.
    rewrite (skipn_app_le rk [p_xkey p] i) by (unfold rk; rewrite map_length; lia).
    rewrite (skipn_app_le nlr [nx] i) by lia.
    rewrite (enc_layers_app key nonce enc) by (rewrite !skipn_length; unfold rk; rewrite map_length; lia).
    reflexivity.
  - rewrite (fwd_pkts_last (p_pfx p) early (p_xaddr p) (p_xcid p) bx (p_relays p) (p_cid p) nlr Hch ltac:(lia)).
    rewrite <- Hxp.
    apply (exit_incoming key nonce enc dec (p_exit p) prev (p_xcid p) (p_xsock p) (p_xkey p) m0 rest early nx rnd nsx C);
      try assumption; try (rewrite Hxp; assumption).
    intros He. unfold early, origin_early in He. lia.
Qed.

(* data: what went in at the originator is what the exit hands to its socket, with the destination given *)
Lemma forward_intact_l (p : path) dest org data ns rnd nss nsx :
  aead_correct enc dec -> forward_ready (origin_early p 1) p -> c_hs (p_circ p) = None ->
  addr_ok false dest = true -> addr_ok false org = true -> bytes_okb data = true -> is_null dest = false ->
  existsb (Z.eqb 1) (n_handlers (p_exit p)) = true ->
  let a1 := first_addr (p_relays p) (p_xaddr p) in
  let prev := last_sender (p_relays p) (p_oaddr p) in
  exists o' (links : list bytes),
    send_data enc (p_origin p) a1 (p_cid p) dest org data ns = Ok (o', [Send a1 (hd [] links)])
    /\ through enc dec (p_relays p) (p_oaddr p) a1 (hd [] links) rnd nss
       = Some (prev, p_xaddr p, nth (length (p_relays p)) links [], List.tl links)
    /\ length links = path_len p
    /\ on_packet enc dec (p_exit p) prev (nth (length (p_relays p)) links []) rnd nsx
       = Ok (enabled_node (p_exit p) (p_xcid p) (p_xsock p), [ExitSendto (p_xcid p) data dest]).
Proof.
  intros C Hr Hhs Hd Ho Hb Hn Hh a1 prev.
  destruct (data_packable dest org data Hd Ho Hb) as [rest Hpk].
  destruct (forward_transport_l p 1 rest false ns rnd nss nsx C Hr Hhs) as (o' & links & nl & Hs & Ht & Hl & _ & _ & Hx).
  exists o', links. split; [|split; [|split]]; try assumption.
  - unfold send_data. rewrite fmt_data_eq.
    destruct Hr as ((_ & _ & Hcid & _) & _).
    rewrite (send_cell_eq key nonce enc (p_origin p) a1 (p_cid p) 1 tail_data _ rest ns Hcid Hpk) by lia.
    exact Hs.
  - fold prev in Hx. rewrite Hx. clear Hx Hs Ht.
    destruct Hr as ((Hp & _) & (Hxp & Hxcid & Hxr & Hxc & Hxe & Hxi & Hxk & Hxa & Hxm) & _).
    rewrite <- Hxp in *.
    rewrite (community_cell key nonce enc (p_exit p) prev (p_xcid p) 1 rest _ rnd nsx Hp Hxcid).
    rewrite (pfc_dispatch key nonce enc (p_exit p) prev (p_xcid p) 1 (be_encode 4 (p_xcid p) ++ rest) rnd nsx Hp Hh).
    cbn [Z.eqb Pos.eqb].
    rewrite (on_data_exit key (p_exit p) prev (p_xcid p) dest org data rest (p_xsock p)); try assumption.
    + reflexivity.
    + right. rewrite Hxa. apply ip_eqb_refl.
Qed.

(* ------------------------------------------------------------------ backward *)
Lemma last_sender_rev (rs : list relay_spec) x : last_sender (rev rs) x = first_addr rs x.
Proof. unfold last_sender, first_addr. rewrite rev_involutive. reflexivity. Qed.

Lemma backward_transport_l (p : path) m0 rest nsx rnd nss nso :
  aead_correct enc dec -> backward_ready p -> c_hs (p_circ p) = None -> m0 <> 4 ->
  let msg := m0 :: rest in
  let a1 := first_addr (p_relays p) (p_xaddr p) in
  let prev := last_sender (p_relays p) (p_oaddr p) in
  exists (links : list bytes) nl,
    ep_send_cell enc (p_exit p) prev (mkCell (p_xcid p) msg false false) nsx = Ok (p_exit p, [Send prev (hd [] links)])
    /\ through enc dec (rev (p_relays p)) (p_xaddr p) prev (hd [] links) rnd nss
       = Some (a1, p_oaddr p, nth (length (p_relays p)) links [], List.tl links)
    /\ length links = path_len p /\ length nl = path_len p
    /\ (forall i, (i < path_len p)%nat ->
          cell_body (nth i (rev links) []) = enc_layers BACKWARD (skipn i (path_keys p)) (skipn i nl) msg)
    /\ on_packet enc dec (p_origin p) a1 (nth (length (p_relays p)) links []) rnd nso
       = community_on_cell_packet enc (p_origin p) a1
           (cell_to_bin (p_pfx p) (mkCell (p_cid p) msg false false)) rnd nso.
Proof.
  intros C (Ho & Hx & Hch) Hhs H4 msg a1 prev.
  destruct Ho as (Hp & Hop & Hcid & Hoa & Hok & _ & Hor & Hoe & Hom).
  destruct Hx as (Hxp & Hxcid & Hxr & Hxc & Hxe & Hxi & Hxk & Hxa & Hxm).
  set (R := p_relays p) in *. set (rk := map rs_key R).
  set (bx := enc (p_xkey p) BACKWARD (nsx O) msg).
  set (nlr := rev (bwd_nonces key nonce (rev R) nss)).
  assert (Lr : length nlr = length R) by (unfold nlr; rewrite rev_length, bwd_nonces_length, rev_length; reflexivity).
  assert (Lrk : length rk = length R) by (unfold rk; apply map_length).
  assert (Hw : wrap_bwd key nonce enc (rev R) nss bx = enc_layers BACKWARD (path_keys p) (nlr ++ [nsx O]) msg).
  { rewrite wrap_bwd_layers, map_rev, rev_involutive. fold rk. fold nlr. unfold path_keys. fold R. fold rk.
    rewrite (enc_layers_app key nonce enc) by lia. reflexivity. }
  exists (bwd_pkts key nonce enc (p_pfx p) false (rev R) (p_xcid p) nss bx), (nlr ++ [nsx O]).
  assert (Hlast : nth (length R) (bwd_pkts key nonce enc (p_pfx p) false (rev R) (p_xcid p) nss bx) []
                  = cell_to_bin (p_pfx p) (mkCell (p_cid p) (enc_layers BACKWARD (path_keys p) (nlr ++ [nsx O]) msg) false false)).
  { rewrite <- Hw. rewrite <- (rev_length R) at 1.
    apply (bwd_pkts_last (p_pfx p) false (p_oaddr p) (p_cid p) (rev R) (p_xcid p) nss bx Hch). }
  split; [|split; [|split; [|split; [|split]]]].
  - rewrite bwd_pkts_hd, <- Hxp.
    apply (exit_send key nonce enc (p_exit p) prev (p_xcid p) (p_xsock p) (p_xkey p) msg false nsx Hxc Hxe Hxk).
  - rewrite Hlast, <- Hw.
    pose proof (bwd_through key nonce enc dec (p_pfx p) false (p_oaddr p) (p_cid p) rnd (rev R) (p_xcid p) (p_xaddr p) nss bx Hp Hxcid Hch) as T.
    rewrite last_sender_rev in T. exact T.
  - rewrite bwd_pkts_length, rev_length. reflexivity.
  - rewrite app_length. simpl. unfold path_len. fold R. lia.
  - intros i Hi. unfold path_len in Hi. fold R in Hi.
    rewrite rev_nth by (rewrite bwd_pkts_length, rev_length; lia).
    rewrite bwd_pkts_length, rev_length.
    replace (S (length R) - S i)%nat with (length R - i)%nat by lia.
    rewrite (bwd_pkts_nth key nonce enc (p_pfx p) false (rev R) (p_xcid p) nss bx (length R - i) Hp) by (rewrite rev_length; lia).
    rewrite wrap_bwd_layers, bwd_nonces_firstn, <- firstn_map, map_rev. fold rk.
    replace (bwd_nonces key nonce (rev R) nss) with (rev nlr) by (unfold nlr; apply rev_involutive).
    rewrite !firstn_rev, !rev_involutive, Lrk, Lr.
    replace (length R - (length R - i))%nat with i by lia.
    unfold path_keys. fold R. fold rk.
    rewrite (skipn_app_le rk [p_xkey p] i) by lia. rewrite (skipn_app_le nlr [nsx O] i) by lia.
    rewrite (enc_layers_app key nonce enc) by (rewrite !skipn_length; lia). reflexivity.
  - rewrite Hlast, <- Hop.
    apply (origin_incoming key nonce enc dec (p_origin p) a1 (p_cid p) (p_circ p) (path_keys p) (nlr ++ [nsx O]) m0 rest false rnd nso C);
      try assumption; try (rewrite Hop; assumption).
    + rewrite app_length. unfold path_keys. rewrite app_length, map_length. fold R. simpl. lia.
    + intros _. exact H4.
Qed.

(* returned data reaches the originator's consumer unchanged, attributed to the outside source the exit saw,
   under this circuit's id *)
Lemma backward_intact_l (p : path) source data nsx rnd nss nso :
  aead_correct enc dec -> backward_ready p -> c_hs (p_circ p) = None ->
  addr_ok false source = true -> bytes_okb data = true ->
  existsb (Z.eqb 1) (n_handlers (p_origin p)) = true ->
  let a1 := first_addr (p_relays p) (p_xaddr p) in
  let prev := last_sender (p_relays p) (p_oaddr p) in
  exists (links : list bytes),
    tunnel_data enc (p_exit p) (p_xsock p) source data nsx = Ok (p_exit p, [Send prev (hd [] links)])
    /\ through enc dec (rev (p_relays p)) (p_xaddr p) prev (hd [] links) rnd nss
       = Some (a1, p_oaddr p, nth (length (p_relays p)) links [], List.tl links)
    /\ length links = path_len p
    /\ on_packet enc dec (p_origin p) a1 (nth (length (p_relays p)) links []) rnd nso
       = Ok (p_origin p,
             if could_be_ipv8 data && negb (is_e2e (c_ctype (p_circ p))) then
               if bytes_eqb (p_pfx p) (slice data None (Some 22)) then
                 match idx data 22 with
                 | Ok m => if existsb (Z.eqb m) (n_data_ids (p_origin p)) then [Reinject source data (p_cid p)] else []
                 | Raise _ => []
                 end
               else if n_tunnel_ep (p_origin p) then [NotifyOther source data] else []
             else [RawData (p_cid p) source data]).
Proof.
  intros C Hr Hhs Hs Hb Hh a1 prev.
  assert (Hnull : addr_ok false null_addr = true) by reflexivity.
  destruct (data_packable null_addr source data Hnull Hs Hb) as [rest Hpk].
  destruct (backward_transport_l p 1 rest nsx rnd nss nso C Hr Hhs ltac:(lia)) as (links & nl & Hsd & Ht & Hl & _ & _ & Hx).
  exists links. split; [|split; [|split]]; try assumption.
  - destruct Hr as (_ & (_ & Hxcid & _ & _ & _ & Hxi & _ & Hxa & _) & _).
    unfold tunnel_data, send_data. rewrite fmt_data_eq, Hxi, Hxa. fold prev.
    rewrite (send_cell_eq key nonce enc (p_exit p) prev (p_xcid p) 1 tail_data _ rest nsx Hxcid Hpk) by lia.
    exact Hsd.
  - fold a1 in Hx. rewrite Hx. clear Hx Hsd Ht.
    destruct Hr as ((Hp & Hop & Hcid & Hoa & Hok & (h0 & Hh0 & Ha0) & Hor & Hoe & Hom) & _ & _).
    rewrite <- Hop in *.
    rewrite (community_cell key nonce enc (p_origin p) a1 (p_cid p) 1 rest _ rnd nso Hp Hcid).
    rewrite (pfc_dispatch key nonce enc (p_origin p) a1 (p_cid p) 1 (be_encode 4 (p_cid p) ++ rest) rnd nso Hp Hh).
    cbn [Z.eqb Pos.eqb].
    rewrite (on_data_origin key (p_origin p) a1 (p_cid p) null_addr source data rest (p_circ p) h0); try assumption.
    reflexivity.
Qed.

(* a node that registered no message as acceptable from a data message (the plain TunnelCommunity) executes nothing
   of what the outside world returns in the shape of its own overlay's messages: dropped, state unchanged *)
Lemma outside_control_message_dropped_l (p : path) source data nsx rnd nss nso :
  aead_correct enc dec -> backward_ready p -> c_hs (p_circ p) = None ->
  addr_ok false source = true -> bytes_okb data = true ->
  existsb (Z.eqb 1) (n_handlers (p_origin p)) = true ->
  could_be_ipv8 data = true -> is_e2e (c_ctype (p_circ p)) = false ->
  bytes_eqb (p_pfx p) (slice data None (Some 22)) = true -> n_data_ids (p_origin p) = [] ->
  let a1 := first_addr (p_relays p) (p_xaddr p) in
  let prev := last_sender (p_relays p) (p_oaddr p) in
  exists (links : list bytes),
    tunnel_data enc (p_exit p) (p_xsock p) source data nsx = Ok (p_exit p, [Send prev (hd [] links)])
    /\ through enc dec (rev (p_relays p)) (p_xaddr p) prev (hd [] links) rnd nss
       = Some (a1, p_oaddr p, nth (length (p_relays p)) links [], List.tl links)
    /\ on_packet enc dec (p_origin p) a1 (nth (length (p_relays p)) links []) rnd nso = Ok (p_origin p, []).
Proof.
  intros C Hr Hhs Hs Hb Hh Hcb He Hpf Hw a1 prev.
  destruct (backward_intact_l p source data nsx rnd nss nso C Hr Hhs Hs Hb Hh) as (links & H1 & H2 & _ & H4).
  exists links. split; [exact H1|]. split; [exact H2|]. fold a1 in H4. rewrite H4, Hcb, He, Hpf, Hw. cbn [negb andb].
  destruct (idx data 22); reflexivity.
Qed.

(* ------------------------------------------------------------------ what is visible on the links *)
Lemma layers_distinct_l ovh d (ks : list key) nl m i j :
  aead_grows enc ovh -> length nl = length ks -> (i < j <= length ks)%nat ->
  enc_layers d (skipn i ks) (skipn i nl) m <> enc_layers d (skipn j ks) (skipn j nl) m.
Proof.
  intros G Hl Hij E. apply (f_equal (@length Z)) in E.
  rewrite !(enc_layers_length key nonce enc ovh) in E by (try exact G; rewrite !skipn_length; lia).
  rewrite !skipn_length in E. destruct G as [Gp _]. nia.
Qed.

Lemma layers_not_plain_l ovh d (ks : list key) nl m i :
  aead_grows enc ovh -> length nl = length ks -> (i < length ks)%nat ->
  enc_layers d (skipn i ks) (skipn i nl) m <> m.
Proof.
  intros G Hl Hi E.
  apply (layers_distinct_l ovh d ks nl m i (length ks) G Hl ltac:(lia)).
  rewrite E. rewrite !skipn_all2 by lia. reflexivity.
Qed.

(* ------------------------------------------------------------------ faults *)
Lemma not_enc_no_dec k d c :
  aead_authentic enc dec -> (forall n m, c <> enc k d n m) -> dec k d c = None.
Proof.
  intros A H. destruct (dec k d c) as [m|] eqn:E; [|reflexivity].
  destruct (A k d c m E) as [n Hn]. exfalso. exact (H n m Hn).
Qed.

Lemma wrong_key_no_dec k d k' d' n m :
  aead_key_sep enc dec -> (k', d') <> (k, d) -> dec k d (enc k' d' n m) = None.
Proof.
  intros S H. destruct (dec k d (enc k' d' n m)) as [m'|] eqn:E; [|reflexivity].
  destruct (S k' d' n m k d m' E) as [-> ->]. exfalso. apply H. reflexivity.
Qed.

(* a forward relay neither forwards nor changes state for a body not made with its layer key *)
Lemma tamper_relay_dropped_l (nd : node key) src cid r k body early rnd ns :
  aead_authentic enc dec -> length (n_prefix nd) = 22%nat -> cid_ok cid ->
  assoc cid (n_relays nd) = Some r -> rr_rdv r = false -> rr_dir r = FORWARD -> h_keys (rr_hop r) = Some k ->
  (forall n m, body <> enc k FORWARD n m) ->
  on_packet enc dec nd src (cell_to_bin (n_prefix nd) (mkCell cid body false early)) rnd ns = Ok (nd, []).
Proof.
  intros A Hp Hc Ha Hr Hd Hk Hne.
  apply (relay_forward_drop key nonce enc dec nd src cid r k body early rnd ns Hp Hc Ha Hr Hd Hk).
  apply not_enc_no_dec; assumption.
Qed.

Lemma tamper_exit_dropped_l (nd : node key) src cid es k body early rnd ns :
  aead_authentic enc dec -> length (n_prefix nd) = 22%nat -> cid_ok cid ->
  assoc cid (n_relays nd) = None -> assoc cid (n_exits nd) = Some es -> h_keys (es_hop es) = Some k ->
  (forall n m, body <> enc k FORWARD n m) ->
  on_packet enc dec nd src (cell_to_bin (n_prefix nd) (mkCell cid body false early)) rnd ns = Ok (nd, []).
Proof.
  intros A Hp Hc Hr He Hk Hne.
  apply (exit_incoming_drop key nonce enc dec nd src cid es k body early rnd ns Hp Hc Hr He Hk).
  apply not_enc_no_dec; assumption.
Qed.

(* the originator: whatever was altered on the link below hop i+1 (the relays above it only add their layers),
   the cell does not open and nothing is delivered *)
Lemma tamper_origin_dropped_l (nd : node key) src cid ci ks1 k ks2 nl1 body' early rnd ns :
  aead_correct enc dec -> aead_authentic enc dec -> length (n_prefix nd) = 22%nat -> cid_ok cid ->
  assoc cid (n_relays nd) = None -> assoc cid (n_exits nd) = None ->
  assoc cid (n_circuits nd) = Some ci ->
  map h_keys (c_hops ci) = map Some (ks1 ++ k :: ks2) -> length nl1 = length ks1 ->
  (forall n m, body' <> enc k BACKWARD n m) ->
  on_packet enc dec nd src (cell_to_bin (n_prefix nd) (mkCell cid (enc_layers BACKWARD ks1 nl1 body') false early)) rnd ns
  = Ok (nd, []).
Proof.
  intros C A Hp Hc Hr He Ha Hk Hl Hne.
  apply (origin_incoming_drop key nonce enc dec nd src cid ci _ early rnd ns Hp Hc Hr He Ha).
  rewrite map_app in Hk. apply map_eq_app in Hk as (h1 & h2 & Eh & E1 & E2).
  cbn [map] in E2. apply map_eq_cons in E2 as (h & ht & Eh2 & Ehk & _).
  rewrite Eh, Eh2.
  rewrite (decrypt_hops_prefix key nonce enc dec BACKWARD h1 ks1 nl1 body' C E1 Hl).
  cbn [decrypt_hops]. rewrite Ehk. rewrite (not_enc_no_dec k BACKWARD body' A Hne). reflexivity.
Qed.

(* cells made under another key or for the other direction (cross-circuit splice, reflection, outsider) *)
Lemma foreign_key_relay_dropped_l (nd : node key) src cid r k k' d' n m early rnd ns :
  aead_key_sep enc dec -> length (n_prefix nd) = 22%nat -> cid_ok cid ->
  assoc cid (n_relays nd) = Some r -> rr_rdv r = false -> rr_dir r = FORWARD -> h_keys (rr_hop r) = Some k ->
  (k', d') <> (k, FORWARD) ->
  on_packet enc dec nd src (cell_to_bin (n_prefix nd) (mkCell cid (enc k' d' n m) false early)) rnd ns = Ok (nd, []).
Proof.
  intros S Hp Hc Ha Hr Hd Hk Hne.
  apply (relay_forward_drop key nonce enc dec nd src cid r k _ early rnd ns Hp Hc Ha Hr Hd Hk).
  apply wrong_key_no_dec; assumption.
Qed.

Lemma foreign_key_exit_dropped_l (nd : node key) src cid es k k' d' n m early rnd ns :
  aead_key_sep enc dec -> length (n_prefix nd) = 22%nat -> cid_ok cid ->
  assoc cid (n_relays nd) = None -> assoc cid (n_exits nd) = Some es -> h_keys (es_hop es) = Some k ->
  (k', d') <> (k, FORWARD) ->
  on_packet enc dec nd src (cell_to_bin (n_prefix nd) (mkCell cid (enc k' d' n m) false early)) rnd ns = Ok (nd, []).
Proof.
  intros S Hp Hc Hr He Hk Hne.
  apply (exit_incoming_drop key nonce enc dec nd src cid es k _ early rnd ns Hp Hc Hr He Hk).
  apply wrong_key_no_dec; assumption.
Qed.

Lemma foreign_key_origin_dropped_l (nd : node key) src cid ci h0 htl k k' d' n m early rnd ns :
  aead_key_sep enc dec -> length (n_prefix nd) = 22%nat -> cid_ok cid ->
  assoc cid (n_relays nd) = None -> assoc cid (n_exits nd) = None ->
  assoc cid (n_circuits nd) = Some ci -> c_hops ci = h0 :: htl -> h_keys h0 = Some k ->
  (k', d') <> (k, BACKWARD) ->
  on_packet enc dec nd src (cell_to_bin (n_prefix nd) (mkCell cid (enc k' d' n m) false early)) rnd ns = Ok (nd, []).
Proof.
  intros S Hp Hc Hr He Ha Hh Hk Hne.
  apply (origin_incoming_drop key nonce enc dec nd src cid ci _ early rnd ns Hp Hc Hr He Ha).
  rewrite Hh. cbn [decrypt_hops]. rewrite Hk, (wrong_key_no_dec k BACKWARD k' d' n m S Hne). reflexivity.
Qed.

(* the relay_early flag is not covered by the layers - and does not influence what an end point delivers *)
Lemma early_flag_irrelevant_exit_l (nd : node key) src cid es k m0 rest e1 e2 n rnd ns :
  aead_correct enc dec -> length (n_prefix nd) = 22%nat -> cid_ok cid ->
  assoc cid (n_relays nd) = None -> assoc cid (n_exits nd) = Some es -> h_keys (es_hop es) = Some k ->
  0 < n_max_early nd -> m0 <> 4 ->
  on_packet enc dec nd src (cell_to_bin (n_prefix nd) (mkCell cid (enc k FORWARD n (m0 :: rest)) false e1)) rnd ns
  = on_packet enc dec nd src (cell_to_bin (n_prefix nd) (mkCell cid (enc k FORWARD n (m0 :: rest)) false e2)) rnd ns.
Proof.
  intros C Hp Hc Hr He Hk Hm H4.
  rewrite !(exit_incoming key nonce enc dec nd src cid es k m0 rest _ n rnd ns C Hp Hc Hr He Hk Hm) by (intros _; exact H4).
  rewrite !(community_cell key nonce enc nd src cid m0 rest _ rnd ns Hp Hc). reflexivity.
Qed.

Lemma early_flag_irrelevant_origin_l (nd : node key) src cid ci ks nl m0 rest e1 e2 rnd ns :
  aead_correct enc dec -> length (n_prefix nd) = 22%nat -> cid_ok cid ->
  assoc cid (n_relays nd) = None -> assoc cid (n_exits nd) = None ->
  assoc cid (n_circuits nd) = Some ci -> c_hs ci = None ->
  map h_keys (c_hops ci) = map Some ks -> length nl = length ks ->
  0 < n_max_early nd -> m0 <> 4 ->
  on_packet enc dec nd src (cell_to_bin (n_prefix nd) (mkCell cid (enc_layers BACKWARD ks nl (m0 :: rest)) false e1)) rnd ns
  = on_packet enc dec nd src (cell_to_bin (n_prefix nd) (mkCell cid (enc_layers BACKWARD ks nl (m0 :: rest)) false e2)) rnd ns.
Proof.
  intros C Hp Hc Hr He Ha Hh Hk Hl Hm H4.
  rewrite !(origin_incoming key nonce enc dec nd src cid ci ks nl m0 rest _ rnd ns C Hp Hc Hr He Ha Hh Hk Hl Hm) by (intros _; exact H4).
  rewrite !(community_cell key nonce enc nd src cid m0 rest _ rnd ns Hp Hc). reflexivity.
Qed.

End Props.
