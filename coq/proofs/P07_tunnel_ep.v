From Coq Require Import ZArith List Bool Lia ZifyBool Arith.
From IPV8V Require Import lib.PyErr lib.Bytes gen.G07_consts model.M07_tunnel_ep spec.S07_anon_spec.
Import ListNotations.
Open Scope Z_scope.

(* ------------------------------------------------------------------ small facts *)
Lemma maxlen_pos : 0 < SEND_QUEUE_MAXLEN.
Proof. reflexivity. Qed.

Lemma bytes_eqb_sym a b : bytes_eqb a b = bytes_eqb b a.
Proof.
  destruct (bytes_eqb a b) eqn:E1, (bytes_eqb b a) eqn:E2; try reflexivity.
  - apply bytes_eqb_eq in E1. subst. rewrite bytes_eqb_refl in E2. discriminate.
  - apply bytes_eqb_eq in E2. subst. rewrite bytes_eqb_refl in E1. discriminate.
Qed.

Lemma bytes_eqb_neq a b : bytes_eqb a b = false <-> a <> b.
Proof.
  split.
  - intros H E. subst. rewrite bytes_eqb_refl in H. discriminate.
  - intros H. destruct (bytes_eqb a b) eqn:E; [|reflexivity]. apply bytes_eqb_eq in E. contradiction.
Qed.

Lemma dict_get_set_same d k v : dict_get (dict_set d k v) k = Some v.
Proof.
  induction d as [|[k' v'] d IH]; cbn [dict_set dict_get].
  - rewrite bytes_eqb_refl. reflexivity.
  - destruct (bytes_eqb k' k) eqn:E; cbn [dict_get]; rewrite E; [reflexivity|exact IH].
Qed.

Lemma dict_get_set_other d k v k2 : k <> k2 -> dict_get (dict_set d k v) k2 = dict_get d k2.
Proof.
  intros Hne. induction d as [|[k' v'] d IH]; cbn [dict_set dict_get].
  - apply bytes_eqb_neq in Hne. rewrite Hne. reflexivity.
  - destruct (bytes_eqb k' k) eqn:E; cbn [dict_get].
    + apply bytes_eqb_eq in E. subst k'. apply bytes_eqb_neq in Hne. rewrite Hne. reflexivity.
    + destruct (bytes_eqb k' k2); [reflexivity|exact IH].
Qed.

Lemma zmem_In x l : zmem x l = true -> In x l.
Proof.
  induction l as [|y l IH]; cbn [zmem]; [discriminate|].
  intros H. apply orb_true_iff in H as [H|H].
  - left. apply Z.eqb_eq in H. symmetry. exact H.
  - right. apply IH. exact H.
Qed.

Lemma last_hop_some l h : last_hop l = Some h -> exists hs, l = hs ++ [h].
Proof.
  induction l as [|x l IH]; cbn [last_hop]; [discriminate|].
  destruct l as [|y l'].
  - intros H. inversion H; subst. exists []. reflexivity.
  - intros H. destruct (IH H) as [hs Hs]. exists (x :: hs). rewrite Hs. reflexivity.
Qed.

(* ------------------------------------------------------------------ the selected circuit *)
Lemma matches_ready_usable cfg c :
  matches cfg c = true -> is_ready c = true -> usable cfg c /\ enters_at c (first_hop_addr c).
Proof.
  unfold matches, is_ready, state_of, exit_flags. intros Hm Hr.
  apply andb_true_iff in Hm as [Hm Hg]. apply andb_true_iff in Hm as [Hc Hf].
  destruct (c_closing c) eqn:Ecl; [discriminate|].
  destruct (Z.of_nat (length (c_hops c)) <? c_goal c) eqn:Elen; [discriminate|].
  destruct (last_hop (c_hops c)) as [h|] eqn:El; [|cbn in Hf; discriminate].
  destruct (last_hop_some _ _ El) as [hs Hs].
  split.
  - unfold usable. split; [exact Ecl|]. split; [unfold CTYPE_DATA in *; lia|]. split; [lia|]. split; [lia|].
    exists hs, h. split; [exact Hs|]. apply zmem_In. exact Hf.
  - unfold enters_at, first_hop_addr. destruct (c_hops c) as [|h0 tl] eqn:Eh.
    + destruct hs; discriminate.
    + exists h0, tl. split; reflexivity.
Qed.

Lemma filter_head {A} (f : A -> bool) l c tl : filter f l = c :: tl -> In c l /\ f c = true.
Proof.
  intros H. apply filter_In. rewrite H. left. reflexivity.
Qed.

(* ------------------------------------------------------------------ enqueue *)
Lemma enqueue_len q x : Z.of_nat (length q) <= SEND_QUEUE_MAXLEN ->
  Z.of_nat (length (fst (enqueue q x))) <= SEND_QUEUE_MAXLEN.
Proof.
  pose proof maxlen_pos as Hp. intros H. unfold enqueue.
  destruct (Z.of_nat (length q) <? SEND_QUEUE_MAXLEN) eqn:E.
  - cbn [fst]. rewrite app_length. cbn [length]. lia.
  - destruct q as [|[ea ep] tl]; cbn [fst].
    + cbn [length] in *. lia.
    + rewrite app_length. cbn [length] in *. lia.
Qed.

Lemma enqueue_tail q x : exists q', fst (enqueue q x) = q' ++ [x].
Proof.
  unfold enqueue. destruct (Z.of_nat (length q) <? SEND_QUEUE_MAXLEN).
  - exists q. reflexivity.
  - destruct q as [|[ea ep] tl]; [exists []|exists tl]; reflexivity.
Qed.

Lemma enqueue_outs q x :
  Forall (fun o => is_raw o = false /\ is_tunnel o = false) (snd (enqueue q x))
  /\ In (Queued (fst x) (snd x)) (snd (enqueue q x)).
Proof.
  unfold enqueue. destruct (Z.of_nat (length q) <? SEND_QUEUE_MAXLEN).
  - cbn [snd]. split; [repeat constructor|left; reflexivity].
  - destruct q as [|[ea ep] tl]; cbn [snd].
    + split; [repeat constructor|left; reflexivity].
    + split; [repeat constructor|right; left; reflexivity].
Qed.

Lemma enqueue_keeps q x e : In e q ->
  In e (fst (enqueue q x)) \/ In (Evicted (fst e) (snd e)) (snd (enqueue q x)).
Proof.
  intros Hin. unfold enqueue. destruct (Z.of_nat (length q) <? SEND_QUEUE_MAXLEN).
  - left. cbn [fst]. apply in_or_app. left. exact Hin.
  - destruct q as [|[ea ep] tl]; [contradiction|]. destruct Hin as [He|Hin].
    + right. subst e. cbn [fst snd]. left. reflexivity.
    + left. cbn [fst]. apply in_or_app. left. exact Hin.
Qed.

Lemma enqueue_evicted_full q x a p :
  In (Evicted a p) (snd (enqueue q x)) -> SEND_QUEUE_MAXLEN <= Z.of_nat (length q) /\ exists tl, q = (a, p) :: tl.
Proof.
  unfold enqueue. destruct (Z.of_nat (length q) <? SEND_QUEUE_MAXLEN) eqn:E.
  - cbn [snd]. intros [H|[]]. discriminate.
  - destruct q as [|[ea ep] tl]; cbn [snd].
    + intros [H|[]]. discriminate.
    + intros [H|[H|[]]]; [|discriminate]. inversion H; subst. split; [lia|]. exists tl. reflexivity.
Qed.

(* ------------------------------------------------------------------ send *)
Lemma send_plain s a p nh : anon_on s p = false -> send s a p nh = (s, [Raw a p]).
Proof. intros H. unfold send. rewrite H. reflexivity. Qed.

(* the shape of send() when the prefix is switched on *)
Lemma send_anon_fate s a p nh : anon_on s p = true ->
  fate s a p (snd (send s a p nh)) (fst (send s a p nh)).
Proof.
  intros Hon. unfold send. rewrite Hon. cbn [negb].
  destruct (attached s) eqn:Eat; cbn [negb].
  2:{ apply Lost; [exact Eat|reflexivity|reflexivity]. }
  destruct (filter (matches (hops_cfg s)) (circuits s)) as [|c tl] eqn:Ef.
  - (* no candidate: ask for a circuit, queue *)
    set (s1 := match nh with Some h => add_circuit s (hops_cfg s) CTYPE_DATA h | None => s end).
    destruct (enqueue (queue s1) (a, p)) as [q o] eqn:Eq. cbn [fst snd].
    pose proof (enqueue_outs (queue s1) (a, p)) as [Ho Hq]. rewrite Eq in Ho, Hq. cbn [snd fst] in Ho, Hq.
    apply Held.
    + exact Eat.
    + constructor; [split; reflexivity|exact Ho].
    + right. exact Hq.
    + destruct (enqueue_tail (queue s1) (a, p)) as [q' Hq']. rewrite Eq in Hq'. cbn [fst] in Hq'.
      exists q'. exact Hq'.
  - destruct (filter_head _ _ _ _ Ef) as [Hin Hm].
    destruct (is_ready c) eqn:Er.
    + destruct (matches_ready_usable _ _ Hm Er) as [Hu _]. cbn [fst snd].
      apply Carried with (c := c); [exact Hin|exact Hu|exact Eat|reflexivity|reflexivity].
    + destruct (enqueue (queue s) (a, p)) as [q o] eqn:Eq. cbn [fst snd].
      pose proof (enqueue_outs (queue s) (a, p)) as [Ho Hq]. rewrite Eq in Ho, Hq. cbn [snd fst] in Ho, Hq.
      apply Held.
      * exact Eat.
      * exact Ho.
      * exact Hq.
      * destruct (enqueue_tail (queue s) (a, p)) as [q' Hq']. rewrite Eq in Hq'. cbn [fst] in Hq'.
        exists q'. exact Hq'.
Qed.

Lemma fate_no_raw s a p outs s' : fate s a p outs s' -> forall b q, ~ In (Raw b q) outs.
Proof.
  intros [c Hin Hu Hat Ho Hq | Hat Hf Hq Hs | Hat Ho Hs] b q Hr.
  - rewrite Ho in Hr. destruct Hr as [Hr|Hr]; [discriminate|].
    apply in_map_iff in Hr as [x [Hx _]]. discriminate.
  - rewrite Forall_forall in Hf. destruct (Hf _ Hr) as [H1 _]. discriminate.
  - rewrite Ho in Hr. destruct Hr as [Hr|[]]. discriminate.
Qed.

Lemma send_raw_only_plain s a p nh b q :
  In (Raw b q) (snd (send s a p nh)) -> anon_on s p = false /\ b = a /\ q = p.
Proof.
  intros H. destruct (anon_on s p) eqn:E.
  - exfalso. exact (fate_no_raw _ _ _ _ _ (send_anon_fate s a p nh E) b q H).
  - rewrite send_plain in H by exact E. destruct H as [H|[]]. inversion H; subst. auto.
Qed.

Lemma send_tunnel_ok s a p nh : Forall (tunnel_ok s) (snd (send s a p nh)).
Proof.
  destruct (anon_on s p) eqn:E.
  2:{ rewrite send_plain by exact E. cbn [snd]. constructor; [exact I|constructor]. }
  unfold send. rewrite E. cbn [negb].
  destruct (attached s) eqn:Eat; cbn [negb].
  2:{ cbn [snd]. constructor; [exact I|constructor]. }
  destruct (filter (matches (hops_cfg s)) (circuits s)) as [|c tl] eqn:Ef.
  - set (s1 := match nh with Some h => add_circuit s (hops_cfg s) CTYPE_DATA h | None => s end).
    destruct (enqueue (queue s1) (a, p)) as [q o] eqn:Eq. cbn [snd].
    pose proof (enqueue_outs (queue s1) (a, p)) as [Ho _]. rewrite Eq in Ho. cbn [snd] in Ho.
    constructor; [exact I|]. rewrite Forall_forall in *. intros x Hx. destruct (Ho x Hx) as [_ Ht].
    destruct x; try exact I. discriminate.
  - destruct (filter_head _ _ _ _ Ef) as [Hin Hm].
    destruct (is_ready c) eqn:Er.
    + destruct (matches_ready_usable _ _ Hm Er) as [Hu He]. cbn [snd].
      assert (Hone : forall x, tunnel_ok s (tunnel_out c x)).
      { intros x. unfold tunnel_out, tunnel_ok. split; [exact Eat|]. split; [reflexivity|].
        exists c. split; [exact Hin|]. split; [reflexivity|]. split; [exact Hu|exact He]. }
      constructor; [apply Hone|]. rewrite Forall_forall. intros x Hx.
      apply in_map_iff in Hx as [y [Hy _]]. subst x. apply Hone.
    + destruct (enqueue (queue s) (a, p)) as [q o] eqn:Eq. cbn [snd].
      pose proof (enqueue_outs (queue s) (a, p)) as [Ho _]. rewrite Eq in Ho. cbn [snd] in Ho.
      rewrite Forall_forall in *. intros x Hx. destruct (Ho x Hx) as [_ Ht].
      destruct x; try exact I. discriminate.
Qed.

Lemma send_settings s a p nh : settings (fst (send s a p nh)) = settings s.
Proof.
  unfold send. destruct (negb (anon_on s p)); [reflexivity|].
  destruct (negb (attached s)); [reflexivity|].
  destruct (filter (matches (hops_cfg s)) (circuits s)) as [|c tl].
  - destruct nh as [h|]; destruct (enqueue _ _) as [q o]; reflexivity.
  - destruct (is_ready c); [reflexivity|]. destruct (enqueue _ _) as [q o]; reflexivity.
Qed.

Lemma send_queue_len s a p nh : Z.of_nat (length (queue s)) <= SEND_QUEUE_MAXLEN ->
  Z.of_nat (length (queue (fst (send s a p nh)))) <= SEND_QUEUE_MAXLEN.
Proof.
  pose proof maxlen_pos as Hp. intros H. unfold send.
  destruct (negb (anon_on s p)); [exact H|]. destruct (negb (attached s)); [exact H|].
  destruct (filter (matches (hops_cfg s)) (circuits s)) as [|c tl].
  - set (s1 := match nh with Some h => add_circuit s (hops_cfg s) CTYPE_DATA h | None => s end).
    assert (Hq : queue s1 = queue s) by (destruct nh; reflexivity).
    pose proof (enqueue_len (queue s1) (a, p)) as Hl. rewrite Hq in *.
    destruct (enqueue (queue s) (a, p)) as [q o]. cbn [fst queue set_queue] in *. apply Hl. exact H.
  - destruct (is_ready c).
    + cbn [fst queue set_queue length]. lia.
    + pose proof (enqueue_len (queue s) (a, p)) as Hl.
      destruct (enqueue (queue s) (a, p)) as [q o]. cbn [fst queue set_queue] in *. apply Hl. exact H.
Qed.

(* a waiting packet leaves the queue only as tunnel data over the selected circuit, or by overflow *)
Lemma send_queue_exit s a p nh e : In e (queue s) ->
  In e (queue (fst (send s a p nh)))
  \/ (exists t cid, In (Tunnel t cid (fst e) NULL_ADDR (snd e)) (snd (send s a p nh)))
  \/ In (Evicted (fst e) (snd e)) (snd (send s a p nh)).
Proof.
  intros Hin. unfold send.
  destruct (negb (anon_on s p)); [left; exact Hin|]. destruct (negb (attached s)); [left; exact Hin|].
  destruct (filter (matches (hops_cfg s)) (circuits s)) as [|c tl].
  - set (s1 := match nh with Some h => add_circuit s (hops_cfg s) CTYPE_DATA h | None => s end).
    assert (Hq : queue s1 = queue s) by (destruct nh; reflexivity).
    pose proof (enqueue_keeps (queue s1) (a, p) e) as Hk. rewrite Hq in *.
    destruct (enqueue (queue s) (a, p)) as [q o]. cbn [fst snd queue set_queue] in *.
    destruct (Hk Hin) as [H|H]; [left; exact H|right; right; right; exact H].
  - destruct (is_ready c).
    + right. left. exists (first_hop_addr c), (c_id c). cbn [snd]. right.
      apply in_map_iff. exists e. split; [reflexivity|exact Hin].
    + pose proof (enqueue_keeps (queue s) (a, p) e) as Hk.
      destruct (enqueue (queue s) (a, p)) as [q o]. cbn [fst snd queue set_queue] in *.
      destruct (Hk Hin) as [H|H]; [left; exact H|right; right; exact H].
Qed.

Lemma send_evicted_full s a p nh b q : In (Evicted b q) (snd (send s a p nh)) ->
  SEND_QUEUE_MAXLEN <= Z.of_nat (length (queue s)) /\ exists tl, queue s = (b, q) :: tl.
Proof.
  unfold send.
  destruct (negb (anon_on s p)); [intros [H|[]]; discriminate|].
  destruct (negb (attached s)); [intros [H|[]]; discriminate|].
  destruct (filter (matches (hops_cfg s)) (circuits s)) as [|c tl].
  - set (s1 := match nh with Some h => add_circuit s (hops_cfg s) CTYPE_DATA h | None => s end).
    assert (Hq : queue s1 = queue s) by (destruct nh; reflexivity).
    pose proof (enqueue_evicted_full (queue s1) (a, p) b q) as Hk. rewrite Hq in *.
    destruct (enqueue (queue s) (a, p)) as [q' o]. cbn [snd] in *.
    intros [H|H]; [discriminate|]. apply Hk. exact H.
  - destruct (is_ready c).
    + cbn [snd]. intros [H|H]; [discriminate|]. apply in_map_iff in H as [x [Hx _]]. discriminate.
    + pose proof (enqueue_evicted_full (queue s) (a, p) b q) as Hk.
      destruct (enqueue (queue s) (a, p)) as [q' o]. cbn [snd] in *. exact Hk.
Qed.

(* ------------------------------------------------------------------ step *)
Definition is_send (o : op) : bool := match o with Send _ _ _ => true | _ => false end.

Lemma step_nonsend_silent s o : is_send o = false ->
  snd (step s o) = [] /\ queue (fst (step s o)) = queue s.
Proof.
  destruct o; cbn [is_send step]; intros H; try discriminate; try (split; reflexivity).
  destruct anonymize; split; reflexivity.
Qed.

Lemma is_send_true o : is_send o = true -> exists a p nh, o = Send a p nh.
Proof. destruct o; cbn [is_send]; intros H; try discriminate. eauto. Qed.

Lemma step_raw s o a p : In (Raw a p) (snd (step s o)) ->
  anon_on s p = false /\ exists nh, o = Send a p nh.
Proof.
  destruct (is_send o) eqn:E.
  - apply is_send_true in E as [a0 [p0 [nh E]]]. subst o. cbn [step]. intros H.
    apply send_raw_only_plain in H as [H1 [H2 H3]]. subst. split; [exact H1|]. exists nh. reflexivity.
  - destruct (step_nonsend_silent s o E) as [Hs _]. rewrite Hs. intros [].
Qed.

Lemma step_tunnel_ok s o : Forall (tunnel_ok s) (snd (step s o)).
Proof.
  destruct (is_send o) eqn:E.
  - apply is_send_true in E as [a0 [p0 [nh E]]]. subst o. cbn [step]. apply send_tunnel_ok.
  - destruct (step_nonsend_silent s o E) as [Hs _]. rewrite Hs. constructor.
Qed.

Lemma step_queue_len s o : Z.of_nat (length (queue s)) <= SEND_QUEUE_MAXLEN ->
  Z.of_nat (length (queue (fst (step s o)))) <= SEND_QUEUE_MAXLEN.
Proof.
  intros H. destruct (is_send o) eqn:E.
  - apply is_send_true in E as [a0 [p0 [nh E]]]. subst o. cbn [step]. apply send_queue_len. exact H.
  - destruct (step_nonsend_silent s o E) as [_ Hq]. rewrite Hq. exact H.
Qed.

Lemma step_queue_exit s o e : In e (queue s) ->
  In e (queue (fst (step s o)))
  \/ (exists t cid, In (Tunnel t cid (fst e) NULL_ADDR (snd e)) (snd (step s o)))
  \/ In (Evicted (fst e) (snd e)) (snd (step s o)).
Proof.
  intros H. destruct (is_send o) eqn:E.
  - apply is_send_true in E as [a0 [p0 [nh E]]]. subst o. cbn [step]. apply send_queue_exit. exact H.
  - destruct (step_nonsend_silent s o E) as [_ Hq]. rewrite Hq. left. exact H.
Qed.

Lemma step_evicted_full s o b q : In (Evicted b q) (snd (step s o)) ->
  SEND_QUEUE_MAXLEN <= Z.of_nat (length (queue s)) /\ exists tl, queue s = (b, q) :: tl.
Proof.
  destruct (is_send o) eqn:E.
  - apply is_send_true in E as [a0 [p0 [nh E]]]. subst o. cbn [step]. apply send_evicted_full.
  - destruct (step_nonsend_silent s o E) as [Hs _]. rewrite Hs. intros [].
Qed.

(* the switch of a prefix stays on under every operation that does not switch it off *)
Lemma step_keeps_switch s o pfx : switch s pfx = true -> keeps_on pfx o ->
  switch (fst (step s o)) pfx = true.
Proof.
  unfold switch. intros Hon Hk.
  destruct o as [a0 p0 nh|q b|q|h| |q an|q|g ct uh|k h|k|k]; cbn [step fst].
  - rewrite send_settings. exact Hon.
  - cbn [settings set_settings]. destruct (bytes_eqb q pfx) eqn:E.
    + apply bytes_eqb_eq in E. subst q. rewrite dict_get_set_same.
      destruct b; [reflexivity|]. cbn [keeps_on] in Hk. contradiction.
    + apply bytes_eqb_neq in E. rewrite dict_get_set_other by exact E. exact Hon.
  - cbn [settings set_settings keeps_on] in *. rewrite dict_get_set_other by exact Hk. exact Hon.
  - exact Hon.
  - exact Hon.
  - destruct an; cbn [fst]; [|exact Hon]. cbn [settings set_settings].
    destruct (bytes_eqb q pfx) eqn:E.
    + apply bytes_eqb_eq in E. subst q. rewrite dict_get_set_same. reflexivity.
    + apply bytes_eqb_neq in E. rewrite dict_get_set_other by exact E. exact Hon.
  - cbn [settings set_settings set_attach keeps_on] in *. rewrite dict_get_set_other by exact Hk. exact Hon.
  - exact Hon.
  - exact Hon.
  - exact Hon.
  - exact Hon.
Qed.

Lemma launch_switches_on s pfx : switch (fst (step s (Launch pfx true))) pfx = true.
Proof. unfold switch. cbn [step fst settings set_settings]. rewrite dict_get_set_same. reflexivity. Qed.

(* ------------------------------------------------------------------ histories *)
Lemma trace_forall (P : event -> Prop) :
  (forall s o, P (mkEv s o (snd (step s o)))) -> forall ops s, Forall P (trace s ops).
Proof.
  intros H ops. induction ops as [|o tl IH]; intros s; cbn [trace]; [constructor|].
  pose proof (H s o) as Hso. destruct (step s o) as [s1 outs]. constructor; [exact Hso|apply IH].
Qed.

Definition ev_post (e : event) : st := fst (step (ev_pre e) (ev_op e)).

Lemma anon_never_raw_l s0 ops :
  Forall (fun e => forall a p, In (Raw a p) (ev_outs e) ->
                   anon_on (ev_pre e) p = false /\ exists nh, ev_op e = Send a p nh) (trace s0 ops).
Proof. apply trace_forall. intros s o a p H. cbn [ev_outs ev_pre ev_op] in *. apply step_raw. exact H. Qed.

Lemma tunnel_wellformed_l s0 ops :
  Forall (fun e => Forall (tunnel_ok (ev_pre e)) (ev_outs e)) (trace s0 ops).
Proof. apply trace_forall. intros s o. cbn [ev_outs ev_pre]. apply step_tunnel_ok. Qed.

Lemma anon_fate_l s0 ops :
  Forall (fun e => forall a p nh, ev_op e = Send a p nh -> anon_on (ev_pre e) p = true ->
                   fate (ev_pre e) a p (ev_outs e) (ev_post e)) (trace s0 ops).
Proof.
  apply trace_forall. intros s o a p nh Ho Hon. unfold ev_post. cbn [ev_outs ev_pre ev_op] in *.
  subst o. cbn [step]. apply send_anon_fate. exact Hon.
Qed.

Lemma queue_bounded_from s0 ops : Z.of_nat (length (queue s0)) <= SEND_QUEUE_MAXLEN ->
  Z.of_nat (length (queue (final s0 ops))) <= SEND_QUEUE_MAXLEN.
Proof.
  revert s0. induction ops as [|o tl IH]; intros s0 H; cbn [final]; [exact H|].
  apply IH. apply step_queue_len. exact H.
Qed.

Lemma queue_bounded_l ops : Z.of_nat (length (queue (final init ops))) <= SEND_QUEUE_MAXLEN.
Proof. apply queue_bounded_from. pose proof maxlen_pos. cbn [init queue length]. lia. Qed.

Lemma queue_bounded_everywhere_l ops :
  Forall (fun e => Z.of_nat (length (queue (ev_pre e))) <= SEND_QUEUE_MAXLEN) (trace init ops).
Proof.
  assert (G : forall ops s, Z.of_nat (length (queue s)) <= SEND_QUEUE_MAXLEN ->
              Forall (fun e => Z.of_nat (length (queue (ev_pre e))) <= SEND_QUEUE_MAXLEN) (trace s ops)).
  { clear ops. induction ops as [|o tl IH]; intros s H; cbn [trace]; [constructor|].
    pose proof (step_queue_len s o H) as H1. destruct (step s o) as [s1 outs]. cbn [fst] in H1.
    constructor; [exact H|apply IH; exact H1]. }
  apply G. pose proof maxlen_pos. cbn [init queue length]. lia.
Qed.

Lemma asked_never_raw_l s0 pfx ops : switch s0 pfx = true -> Forall (keeps_on pfx) ops ->
  Forall (fun e => forall a p, In (Raw a p) (ev_outs e) -> pfx_of p <> pfx) (trace s0 ops).
Proof.
  revert s0. induction ops as [|o tl IH]; intros s0 Hon Hk; cbn [trace]; [constructor|].
  inversion Hk as [|? ? Hko Hktl]; subst.
  pose proof (step_keeps_switch s0 o pfx Hon Hko) as Hon1.
  pose proof (fun a p => step_raw s0 o a p) as Hraw.
  destruct (step s0 o) as [s1 outs]. cbn [fst snd] in *.
  constructor.
  - cbn [ev_outs]. intros a p Hin E. destruct (Hraw a p Hin) as [Hoff _].
    unfold anon_on in Hoff. rewrite E in Hoff. rewrite Hon in Hoff. discriminate.
  - apply IH; assumption.
Qed.

Lemma launched_never_raw_l s pfx ops : Forall (keeps_on pfx) ops ->
  Forall (fun e => forall a p, In (Raw a p) (ev_outs e) -> pfx_of p <> pfx)
         (trace (fst (step s (Launch pfx true))) ops).
Proof. intros H. apply asked_never_raw_l; [apply launch_switches_on|exact H]. Qed.

(* ------------------------------------------------------------------ delivery filter *)
Lemma delivery_filter_l ls ft id :
  In id (notify ls ft) <-> exists an, In (id, an) ls /\ anonymize_of (id, an) = ft.
Proof.
  unfold notify. rewrite in_map_iff. split.
  - intros [[i an] [Hi Hin]]. cbn [fst] in Hi. subst i. apply filter_In in Hin as [Hin Hb].
    exists an. split; [exact Hin|]. apply eqb_prop. exact Hb.
  - intros [an [Hin Hb]]. exists (id, an). split; [reflexivity|]. apply filter_In.
    split; [exact Hin|]. rewrite Hb. apply eqb_reflx.
Qed.

(* ------------------------------------------------------------------ circuit identifiers are unique *)
Definition ids_ok (s : st) : Prop :=
  NoDup (map c_id (circuits s)) /\ Forall (fun c => c_id c < next_id s) (circuits s).

Lemma map_upd_nth_id (f : circ -> circ) : (forall c, c_id (f c) = c_id c) ->
  forall k l, map c_id (upd_nth k f l) = map c_id l.
Proof.
  intros Hf k. induction k as [|k IH]; intros [|x l]; cbn [upd_nth map]; try reflexivity.
  - rewrite Hf. reflexivity.
  - rewrite IH. reflexivity.
Qed.

Lemma upd_nth_forall (P : circ -> Prop) (f : circ -> circ) : (forall c, P c -> P (f c)) ->
  forall k l, Forall P l -> Forall P (upd_nth k f l).
Proof.
  intros Hf k. induction k as [|k IH]; intros [|x l] H; cbn [upd_nth]; try constructor;
    inversion H; subst; auto.
Qed.

Lemma del_nth_incl {A} k : forall (l : list A) x, In x (del_nth k l) -> In x l.
Proof.
  induction k as [|k IH]; intros [|y l] x H; cbn [del_nth] in H; try contradiction.
  - right. exact H.
  - destruct H as [H|H]; [left; exact H|right; apply IH; exact H].
Qed.

Lemma del_nth_nodup k : forall l : list circ, NoDup (map c_id l) -> NoDup (map c_id (del_nth k l)).
Proof.
  induction k as [|k IH]; intros [|y l] H; cbn [del_nth map] in *; try constructor.
  - inversion H; assumption.
  - inversion H as [|? ? Hn Hd]; subst. intros Hin. apply Hn.
    apply in_map_iff in Hin as [c [Hc Hin]]. apply in_map_iff. exists c. split; [exact Hc|].
    eapply del_nth_incl. exact Hin.
  - inversion H; subst. apply IH. assumption.
Qed.

Lemma add_circuit_ids s g ct uh : ids_ok s -> ids_ok (add_circuit s g ct uh).
Proof.
  intros [Hn Hf]. unfold ids_ok, add_circuit. cbn [circuits next_id]. split.
  - rewrite map_app. cbn [map c_id].
    assert (Hnot : ~ In (next_id s) (map c_id (circuits s))).
    { intros Hin. apply in_map_iff in Hin as [c [Hc Hin]]. rewrite Forall_forall in Hf.
      specialize (Hf c Hin). lia. }
    revert Hn Hnot. generalize (map c_id (circuits s)) as l. generalize (next_id s) as x.
    intros x l. induction l as [|y l IH]; intros Hn Hnot; cbn [app].
    + constructor; [intros []|constructor].
    + inversion Hn as [|? ? Hy Hl]; subst. constructor.
      * intros Hin. apply in_app_or in Hin as [Hin|[Hin|[]]]; [contradiction|].
        apply Hnot. left. symmetry. exact Hin.
      * apply IH; [exact Hl|]. intros Hin. apply Hnot. right. exact Hin.
  - apply Forall_app. split.
    + eapply Forall_impl; [|exact Hf]. cbn beta. intros c Hc. lia.
    + constructor; [cbn [c_id]; lia|constructor].
Qed.

Lemma send_ids s a p nh : ids_ok s -> ids_ok (fst (send s a p nh)).
Proof.
  intros H. unfold send. destruct (negb (anon_on s p)); [exact H|].
  destruct (negb (attached s)); [exact H|].
  destruct (filter (matches (hops_cfg s)) (circuits s)) as [|c tl].
  - assert (H1 : ids_ok (match nh with Some h => add_circuit s (hops_cfg s) CTYPE_DATA h | None => s end)).
    { destruct nh; [apply add_circuit_ids; exact H|exact H]. }
    destruct (enqueue _ _) as [q o]. exact H1.
  - destruct (is_ready c); [exact H|]. destruct (enqueue _ _) as [q o]. exact H.
Qed.

Lemma step_ids s o : ids_ok s -> ids_ok (fst (step s o)).
Proof.
  intros H. destruct o as [a0 p0 nh|q b|q|h| |q an|q|g ct uh|k h|k|k]; cbn [step fst];
    try exact H.
  - apply send_ids. exact H.
  - destruct an; exact H.
  - apply add_circuit_ids. exact H.
  - destruct H as [Hn Hf]. unfold ids_ok. cbn [circuits set_circuits next_id]. split.
    + rewrite map_upd_nth_id; [exact Hn|]. intros c. destruct (_ <? _); reflexivity.
    + apply upd_nth_forall; [|exact Hf]. intros c Hc. destruct (_ <? _); exact Hc.
  - destruct H as [Hn Hf]. unfold ids_ok. cbn [circuits set_circuits next_id]. split.
    + rewrite map_upd_nth_id by reflexivity. exact Hn.
    + apply upd_nth_forall; [|exact Hf]. intros c Hc. exact Hc.
  - destruct H as [Hn Hf]. unfold ids_ok. cbn [circuits set_circuits next_id]. split.
    + apply del_nth_nodup. exact Hn.
    + rewrite Forall_forall in *. intros c Hc. apply Hf. eapply del_nth_incl. exact Hc.
Qed.

Lemma ids_unique_l ops : NoDup (map c_id (circuits (final init ops))).
Proof.
  assert (G : forall ops s, ids_ok s -> ids_ok (final s ops)).
  { clear ops. induction ops as [|o tl IH]; intros s H; cbn [final]; [exact H|].
    apply IH. apply step_ids. exact H. }
  apply (G ops init). split; cbn [init circuits map]; constructor.
Qed.

(* ---- queued packets keep the classification they got when they were submitted ---- *)
Lemma enqueue_in q x e : In e (fst (enqueue q x)) -> In e q \/ e = x.
Proof.
  unfold enqueue. destruct (Z.of_nat (length q) <? SEND_QUEUE_MAXLEN).
  - cbn [fst]. intros H. apply in_app_or in H as [H|[H|[]]]; [left; exact H|right; symmetry; exact H].
  - destruct q as [|[ea ep] tl]; cbn [fst]; intros H; apply in_app_or in H as [H|[H|[]]].
    + contradiction.
    + right. symmetry. exact H.
    + left. right. exact H.
    + right. symmetry. exact H.
Qed.

(* whatever is in the queue after a step was there before, or is the packet of this very send, submitted
   while its prefix was switched on *)
Lemma step_queue_origin s o e : In e (queue (fst (step s o))) ->
  In e (queue s) \/ (exists nh, o = Send (fst e) (snd e) nh /\ anon_on s (snd e) = true).
Proof.
  destruct (is_send o) eqn:E.
  2:{ destruct (step_nonsend_silent s o E) as [_ Hq]. rewrite Hq. intros H. left. exact H. }
  apply is_send_true in E as [a [p [nh E]]]. subst o. cbn [step]. unfold send.
  destruct (anon_on s p) eqn:Hon; cbn [negb]; [|intros H; left; exact H].
  destruct (negb (attached s)); [intros H; left; exact H|].
  destruct (filter (matches (hops_cfg s)) (circuits s)) as [|c tl].
  - set (s1 := match nh with Some h => add_circuit s (hops_cfg s) CTYPE_DATA h | None => s end).
    assert (Hq : queue s1 = queue s) by (destruct nh; reflexivity).
    pose proof (enqueue_in (queue s1) (a, p) e) as Hk. rewrite Hq in *.
    destruct (enqueue (queue s) (a, p)) as [q o]. cbn [fst queue set_queue] in *.
    intros H. destruct (Hk H) as [H1|H1]; [left; exact H1|].
    right. subst e. exists nh. split; [reflexivity|exact Hon].
  - destruct (is_ready c).
    + cbn [fst queue set_queue]. intros [].
    + pose proof (enqueue_in (queue s) (a, p) e) as Hk.
      destruct (enqueue (queue s) (a, p)) as [q o]. cbn [fst queue set_queue] in *.
      intros H. destruct (Hk H) as [H1|H1]; [left; exact H1|].
      right. subst e. exists nh. split; [reflexivity|exact Hon].
Qed.

(* the step that takes packets out of the queue (a send with its own prefix on) hands nothing at all to the raw
   socket, whatever the switches of the waiting packets' prefixes are by then *)
Lemma flush_never_raw_l s a p nh : anon_on s p = true -> forall b q, ~ In (Raw b q) (snd (step s (Send a p nh))).
Proof. intros Hon. cbn [step]. exact (fate_no_raw _ _ _ _ _ (send_anon_fate s a p nh Hon)). Qed.

(* a waiting packet and the raw socket: bytes equal to a waiting packet reach the raw socket only through a new,
   separate submission of those bytes at a moment their prefix is off - which leaves the queue untouched *)
Lemma queued_never_raw_l s o e : In e (queue s) -> In (Raw (fst e) (snd e)) (snd (step s o)) ->
  (exists nh, o = Send (fst e) (snd e) nh) /\ anon_on s (snd e) = false /\ fst (step s o) = s.
Proof.
  intros _ Hr. destruct (step_raw s o _ _ Hr) as [Hoff [nh Ho]]. subst o.
  split; [exists nh; reflexivity|]. split; [exact Hoff|]. cbn [step]. rewrite send_plain by exact Hoff. reflexivity.
Qed.

Lemma queue_bounded_both_l ops :
  Z.of_nat (length (queue (final init ops))) <= SEND_QUEUE_MAXLEN
  /\ Forall (fun e => Z.of_nat (length (queue (ev_pre e))) <= SEND_QUEUE_MAXLEN) (trace init ops).
Proof. split; [exact (queue_bounded_l ops)|exact (queue_bounded_everywhere_l ops)]. Qed.

(* the key of the switch is the 22-byte overlay prefix (b"\x00" + version + 20-byte community id) *)
Lemma overlay_prefix_is_key_l pfx body : length pfx = 22%nat -> pfx_of (pfx ++ body) = pfx.
Proof.
  intros H. unfold pfx_of. change (Z.to_nat PREFIX_LEN) with 22%nat. rewrite <- H.
  rewrite firstn_app, Nat.sub_diag, firstn_all. cbn [firstn]. apply app_nil_r.
Qed.

Lemma asked_packets_never_raw_l s pfx ops : length pfx = 22%nat -> Forall (keeps_on pfx) ops ->
  Forall (fun e => forall a body, ~ In (Raw a (pfx ++ body)) (ev_outs e))
         (trace (fst (step s (Launch pfx true))) ops).
Proof.
  intros Hlen Hk. pose proof (launched_never_raw_l s pfx ops Hk) as H.
  eapply Forall_impl; [|exact H]. cbn beta. intros e He a body Hin.
  apply (He a (pfx ++ body) Hin). apply overlay_prefix_is_key_l. exact Hlen.
Qed.

Lemma documented_constants_l :
  SEND_QUEUE_MAXLEN = 100 /\ PREFIX_LEN = 22 /\ PEER_FLAG_EXIT_IPV8 = 4 /\ ATTACH_DEFAULT_HOPS = 1.
Proof. repeat split; reflexivity. Qed.

(* sample values for the non-vacuity examples *)
Definition pA : bytes := 0 :: 2 :: repeat 65 20.
Definition pP : bytes := 0 :: 2 :: repeat 80 20.
Definition exitH : hop := mkHop 50 [4].
Definition relayH : hop := mkHop 60 [1].
