(* C09 - circuit construction (retry caches, retries, created / extended) and the invariant. *)
From Coq Require Import ZArith List Bool Lia ZifyBool.
From IPV8V Require Import gen.G09_rules model.M09_reclaim spec.S09_reclaim proofs.P09_alist proofs.P09_sweep
  proofs.P09_inv proofs.P09_ext proofs.P09_special proofs.P09_remove.
Import ListNotations.
Open Scope Z_scope.

Section Build.
Variable st : settings.
Hypothesis Hst : settings_ok st.

(* a change confined to one circuit, its retry cache and its retry tasks *)
Lemma inv_local w' cid s s' :
  inv st s ->
  now s' = now s -> last_sweep s' = last_sweep s ->
  (forall x, relevant x -> In x (starts s) -> (forall t i, x <> DRetry cid t i) -> In x (starts s')) ->
  (forall c t i, In (DRetry c t i) (starts s') -> c <> cid -> In (DRetry c t i) (starts s)) ->
  (forall x, In x (sleeping s) -> In x (sleeping s')) -> relays s' = relays s -> exits s' = exits s ->
  (forall c, c <> cid -> aget c (circuits s') = aget c (circuits s)) ->
  (forall c, c <> cid -> aget c (retries s') = aget c (retries s)) ->
  (forall x, aget cid (circuits s') = Some x ->
     0 <= c_hops x /\ la (c_ro x) <= now s /\ circ_ok st w' s' cid x
     /\ (forall rt, aget cid (retries s') = Some rt -> retry_ok st x rt)) ->
  (forall t i, In (DRetry cid t i) (starts s') ->
     1 <= t /\ t < tries0 st /\ forall x, aget cid (circuits s') = Some x -> dretry_ok st s' x t) ->
  inv_gen st w' s'.
Proof.
  intros (Hside & Hrel & Hex & Hrt & Hdr & Hc) En Ew Hs Hs' Hsl Er Ee Hco Hro Hcid Hdcid.
  assert (Hsch : forall k c T, scheduled st k c T s -> scheduled st k c T s').
  { intros k c T [(dd & rn & Hin & Hle)|(due & Hin & Hle)]; [left | right].
    - exists dd, rn. split; [apply Hs; [exact I | exact Hin | intros; discriminate] | rewrite En; exact Hle].
    - exists due. auto. }
  assert (Hent : forall k c r, entry_ok st k c r s -> entry_ok st k c r s').
  { intros k c r [H|H]; [left; apply Hsch; exact H | right; rewrite Ew; exact H]. }
  split; [|split; [|split; [|split; [|split]]]].
  - destruct Hside as [S1 S2]. split; [rewrite Ew, En; exact S1|].
    intros c x H. destruct (Z.eq_dec c cid) as [E|E].
    + subst c. destruct (Hcid _ H) as (A & B & _). rewrite En. split; assumption.
    + rewrite (Hco _ E) in H. rewrite En. exact (S2 _ _ H).
  - intros c r H. rewrite Er in H. apply Hent. apply Hrel; exact H.
  - intros c e H. rewrite Ee in H. apply Hent. apply Hex; exact H.
  - intros c rt x H1 H2. destruct (Z.eq_dec c cid) as [E|E].
    + subst c. destruct (Hcid _ H2) as (_ & _ & _ & A). exact (A _ H1).
    + rewrite (Hro _ E) in H1. rewrite (Hco _ E) in H2. exact (Hrt _ _ _ H1 H2).
  - intros c t i H. destruct (Z.eq_dec c cid) as [E|E].
    + subst c. exact (Hdcid _ _ H).
    + destruct (Hdr _ _ _ (Hs' _ _ _ H E)) as (D1 & D2 & D3). split; [exact D1|]. split; [exact D2|].
      intros x Hx. rewrite (Hco _ E) in Hx. specialize (D3 _ Hx). unfold dretry_ok in *. rewrite En. exact D3.
  - intros c x H. destruct (Z.eq_dec c cid) as [E|E].
    + subst c. destruct (Hcid _ H) as (_ & _ & A & _). exact A.
    + rewrite (Hco _ E) in H. specialize (Hc _ _ H). unfold circ_ok in *. destruct (c_closing x).
      * destruct Hc as (due & Hin & Hle). exists due. auto.
      * destruct (c_goal x <=? c_hops x).
        -- destruct Hc as [[]|Hc]. right. apply Hent; exact Hc.
        -- destruct Hc as [Hc|[(t & i & Hin)|Hc]]; [left | right; left | right; right; apply Hsch; exact Hc].
           ++ unfold ahas in *. rewrite (Hro _ E). exact Hc.
           ++ exists t, i. apply Hs; [exact I | exact Hin|]. intros t' i' E'. inversion E'; subst. apply E; reflexivity.
Qed.

Lemma build_bound_nonneg goal : 1 <= goal -> 0 <= build_bound st goal.
Proof.
  intro H. unfold build_bound. pose proof (tries0_pos st Hst). destruct Hst as (_ & _ & _ & Hn & _).
  apply Z.mul_nonneg_nonneg; lia.
Qed.

(* ---------------------------------------------------------------- ERetryTimeout *)
Lemma inv_retry_timeout s cid :
  tfacts st s -> inv st s -> inv st (fst (step_at st s (ERetryTimeout cid))).
Proof.
  intros Tf Hi. pose proof Hi as (Hside & Hrel & Hex & Hrt & Hdr & Hc).
  destruct Tf as (T1 & T2 & T3).
  cbn [step_at]. destruct (aget cid (retries s)) as [rt|] eqn:Er; [|exact Hi].
  set (s1 := set_retries (adel cid (retries s)) s).
  assert (Hro : forall c, c <> cid -> aget c (retries s1) = aget c (retries s)).
  { intros c E. simpl. rewrite aget_adel. destruct (c =? cid) eqn:E'; [lia | reflexivity]. }
  assert (Hnone : aget cid (retries s1) = None).
  { simpl. rewrite aget_adel, Z.eqb_refl. reflexivity. }
  assert (Hd0 : forall s', starts s' = starts s -> circuits s' = circuits s -> now s' = now s ->
            forall t i, In (DRetry cid t i) (starts s') ->
            1 <= t /\ t < tries0 st /\ forall x, aget cid (circuits s') = Some x -> dretry_ok st s' x t).
  { intros s' E1 E2 E3 t i H. rewrite E1 in H. destruct (Hdr _ _ _ H) as (D1 & D2 & D3).
    split; [exact D1|]. split; [exact D2|]. intros x Hx. rewrite E2 in Hx. specialize (D3 _ Hx).
    unfold dretry_ok in *. rewrite E3. exact D3. }
  simpl aget. change (circuits s1) with (circuits s).
  destruct (aget cid (circuits s)) as [c|] eqn:Ec.
  - destruct (c_closing c) eqn:Ecl.
    + (* closing: nothing more *)
      apply (inv_local None cid s s1); auto.
      * intros x Hx. simpl in Hx. rewrite Ec in Hx. inversion Hx; subst x.
        destruct Hside as [_ S2]. destruct (S2 _ _ Ec) as [Hh Hla]. split; [exact Hh|]. split; [exact Hla|]. split.
        -- specialize (Hc _ _ Ec). unfold circ_ok in *. rewrite Ecl in *. exact Hc.
        -- intros rt' Hr'. rewrite Hnone in Hr'. discriminate.
      * apply Hd0; reflexivity.
    + specialize (Hc _ _ Ec). pose proof (Hrt _ _ _ Er Ec) as Hrok. specialize (T3 _ _ Er).
      destruct Hside as [S1 S2]. destruct (S2 _ _ Ec) as [Hh Hla].
      destruct (retry_gives_up (rt_cands rt) (rt_tries rt)) eqn:Eg.
      * (* out of candidates or tries: remove_circuit *)
        apply (inv_local None cid s (defer (DRemove KCirc cid 0 false) s1)); auto.
        -- intros x R Hin _. simpl. apply in_or_app; left; exact Hin.
        -- intros c0 t i Hin _. simpl in Hin. apply in_app_or in Hin. destruct Hin as [Hin|[Hin|[]]]; [exact Hin | discriminate].
        -- intros x Hx. simpl in Hx. rewrite Ec in Hx. inversion Hx; subst x. split; [exact Hh|]. split; [exact Hla|]. split.
           ++ unfold circ_ok in *. rewrite Ecl in *. destruct (c_goal c <=? c_hops c) eqn:Erd.
              ** destruct Hc as [[]|Hc]. right.
                 destruct Hc as [[(dd & rn & Hin & Hle)|(due & Hin & Hle)]|Hc]; [left; left | left; right | right; exact Hc].
                 --- exists dd, rn. split; [simpl; apply in_or_app; left; exact Hin | exact Hle].
                 --- exists due. auto.
              ** right; right. left. exists 0, false. split; [simpl; apply in_or_app; right; left; reflexivity|].
                 simpl. pose proof (retry_due_bound st Hst c rt Hrok). lia.
           ++ intros rt' Hr'. simpl in Hr'. rewrite aget_adel, Z.eqb_refl in Hr'. discriminate.
        -- intros t i Hin. simpl in Hin. apply in_app_or in Hin. destruct Hin as [Hin|[Hin|[]]]; [|discriminate].
           destruct (Hdr _ _ _ Hin) as (D1 & D2 & D3). split; [exact D1|]. split; [exact D2|]. exact D3.
      * (* try again: retry_later *)
        assert (Htr : 1 <= rt_tries rt).
        { unfold retry_gives_up in Eg. lia. }
        destruct Hrok as (R1 & R2 & R3).
        apply (inv_local None cid s (defer (DRetry cid (rt_tries rt) (rt_initial rt)) s1)); auto.
        -- intros x R Hin _. simpl. apply in_or_app; left; exact Hin.
        -- intros c0 t i Hin Hne. simpl in Hin. apply in_app_or in Hin. destruct Hin as [Hin|[Hin|[]]]; [exact Hin|].
           inversion Hin; subst. contradiction.
        -- intros x Hx. simpl in Hx. rewrite Ec in Hx. inversion Hx; subst x. split; [exact Hh|]. split; [exact Hla|]. split.
           ++ unfold circ_ok in *. rewrite Ecl in *. destruct (c_goal c <=? c_hops c) eqn:Erd.
              ** destruct Hc as [[]|Hc]. right.
                 destruct Hc as [[(dd & rn & Hin & Hle)|(due & Hin & Hle)]|Hc]; [left; left | left; right | right; exact Hc].
                 --- exists dd, rn. split; [simpl; apply in_or_app; left; exact Hin | exact Hle].
                 --- exists due. auto.
              ** right; left. exists (rt_tries rt), (rt_initial rt). simpl. apply in_or_app; right; left; reflexivity.
           ++ intros rt' Hr'. simpl in Hr'. rewrite aget_adel, Z.eqb_refl in Hr'. discriminate.
        -- intros t i Hin. simpl in Hin. apply in_app_or in Hin. destruct Hin as [Hin|[Hin|[]]].
           ++ destruct (Hdr _ _ _ Hin) as (D1 & D2 & D3). split; [exact D1|]. split; [exact D2|]. exact D3.
           ++ inversion Hin; subst. split; [exact Htr|]. split; [exact R3|].
              intros x Hx. simpl in Hx. rewrite Ec in Hx. inversion Hx; subst x. unfold dretry_ok. simpl.
              pose proof (Z.mul_add_distr_l (s_next_hop_timeout st) (tries0 st - rt_tries rt) 1). lia.
  - (* the circuit is gone *)
    apply (inv_local None cid s s1); auto.
    + intros x Hx. simpl in Hx. rewrite Ec in Hx. discriminate.
    + apply Hd0; reflexivity.
Qed.

(* ---------------------------------------------------------------- a new attempt at the next hop *)
Lemma fst_let3 {A B C : Type} (x : A * B * C) : fst (let '(a, b, _) := x in (a, b)) = fst (fst x).
Proof. destruct x as [[? ?] ?]; reflexivity. Qed.

Definition hop_circ (c : circuit) (nxt : Z) : circuit :=
  mkCirc (c_ro c) (c_goal c) (c_hops c) (c_closing c) (Some nxt) (if c_hops c =? 0 then nxt else c_first c) (c_early c).
Definition hop_retry (s : node) (tries : Z) (ini : bool) (p : pick) : retry :=
  mkRetry (p_ident p) (next_tries tries) (p_alts p) ini (now s + s_next_hop_timeout st).
Definition hop_state (s : node) (cid : Z) (c : circuit) (tries : Z) (ini : bool) (p : pick) (nxt : Z) : node :=
  set_retries (aset cid (hop_retry s tries ini p) (adel cid (retries s)))
              (set_circuits (aset cid (hop_circ c nxt) (circuits s)) s).

Lemma start_hop_some s cid c tries ini p ls nxt :
  p_next p = Some nxt ->
  start_hop st s cid c tries ini p ls =
  send_cell st (hop_state s cid c tries ini p nxt) (c_first (hop_circ c nxt)) cid
            (if ini then MSG_CREATE else MSG_EXTEND) ls.
Proof. intro H. unfold start_hop. rewrite H. reflexivity. Qed.

Lemma start_hop_none s cid c tries ini p ls :
  p_next p = None -> start_hop st s cid c tries ini p ls = (defer (DRemove KCirc cid 0 false) s, [], ls).
Proof. intro H. unfold start_hop. rewrite H. reflexivity. Qed.

(* the state right after the circuit `cid` became c' with a fresh retry cache rt' *)
Lemma hop_inv w' cid s s2 c' rt' :
  inv st s ->
  now s2 = now s -> last_sweep s2 = last_sweep s ->
  (forall x, relevant x -> In x (starts s) -> (forall t i, x <> DRetry cid t i) -> In x (starts s2)) ->
  (forall c t i, In (DRetry c t i) (starts s2) -> In (DRetry c t i) (starts s)) ->
  sleeping s2 = sleeping s -> relays s2 = relays s -> exits s2 = exits s ->
  (forall c, aget c (circuits s2) = if c =? cid then Some c' else aget c (circuits s)) ->
  (forall c, aget c (retries s2) = if c =? cid then Some rt' else aget c (retries s)) ->
  0 <= c_hops c' -> la (c_ro c') <= now s -> retry_ok st c' rt' ->
  (c_closing c' = true -> exists due, In (due, KCirc, cid) (sleeping s) /\ due <= circuit_deadline st c') ->
  (c_closing c' = false -> c_goal c' <= c_hops c' -> w' = Some cid \/ entry_ok st KCirc cid (c_ro c') s) ->
  (forall t i, In (DRetry cid t i) (starts s) ->
     now s + s_next_hop_timeout st <= creation (c_ro c') + s_next_hop_timeout st * (tries0 st - t + 1)) ->
  inv_gen st w' s2.
Proof.
  intros Hi En Ew Hs Hs' Esl Er Ee Hco Hro Hh Hla Hrok Hcl Hrd Hdc.
  pose proof Hi as (Hside & Hrel & Hex & Hrt & Hdr & Hc).
  apply (inv_local w' cid s s2); auto.
  - intros x Hin. rewrite Esl. exact Hin.
  - intros c E. rewrite Hco. destruct (c =? cid) eqn:E'; [lia | reflexivity].
  - intros c E. rewrite Hro. destruct (c =? cid) eqn:E'; [lia | reflexivity].
  - intros x Hx. rewrite Hco, Z.eqb_refl in Hx. inversion Hx; subst x.
    split; [exact Hh|]. split; [exact Hla|]. split.
    + unfold circ_ok. destruct (c_closing c') eqn:Ecl.
      * destruct (Hcl eq_refl) as (due & Hin & Hle). exists due. rewrite Esl. auto.
      * destruct (c_goal c' <=? c_hops c') eqn:Erd.
        -- destruct (Hrd eq_refl ltac:(lia)) as [Hw|Hent]; [left; subst w'; reflexivity | right].
           destruct Hent as [[(dd & rn & Hin & Hle)|(due & Hin & Hle)]|Hls]; [left; left | left; right | right].
           ++ exists dd, rn. split; [apply Hs; [exact I | exact Hin | intros; discriminate] | rewrite En; exact Hle].
           ++ exists due. rewrite Esl. auto.
           ++ rewrite Ew. exact Hls.
        -- left. unfold ahas. rewrite Hro, Z.eqb_refl. reflexivity.
    + intros rt Hr. rewrite Hro, Z.eqb_refl in Hr. inversion Hr; subst rt. exact Hrok.
  - intros t i Hin. apply Hs' in Hin. destruct (Hdr _ _ _ Hin) as (D1 & D2 & _).
    split; [exact D1|]. split; [exact D2|]. intros x Hx. rewrite Hco, Z.eqb_refl in Hx. inversion Hx; subst x.
    unfold dretry_ok. rewrite En. exact (Hdc _ _ Hin).
Qed.

(* ---------------------------------------------------------------- ERun of a retry_later task *)
Lemma inv_run_retry s i cid tries ini eo tg tc nb p ls :
  nth_error (starts s) i = Some (DRetry cid tries ini) -> tfacts st s -> inv st s ->
  inv st (fst (run_deferred st (set_starts (remove_nth i (starts s)) s) (DRetry cid tries ini) eo tg tc nb p ls)).
Proof.
  intros Hn Tf Hi. pose proof Hi as (Hside & Hrel & Hex & Hrt & Hdr & Hc).
  set (s0 := set_starts (remove_nth i (starts s)) s).
  assert (Hs0 : forall x, relevant x -> In x (starts s) -> (forall t i0, x <> DRetry cid t i0) -> In x (starts s0)).
  { intros x R Hin Hne. simpl. eapply in_remove_nth_other; eauto. }
  assert (Hs0' : forall c t i0, In (DRetry c t i0) (starts s0) -> In (DRetry c t i0) (starts s)).
  { intros c t i0 Hin. simpl in Hin. eapply in_remove_nth; eauto. }
  destruct (Hdr _ _ _ (nth_error_In _ _ Hn)) as (D1 & D2 & D3).
  cbn [run_deferred]. change (circuits s0) with (circuits s).
  destruct (aget cid (circuits s)) as [c|] eqn:Ec.
  - specialize (D3 _ eq_refl). specialize (Hc _ _ Ec).
    destruct Hside as [S1 S2]. destruct (S2 _ _ Ec) as [Hh Hla].
    destruct (p_next p) as [nxt|] eqn:Ep.
    + rewrite (start_hop_some s0 cid c tries ini p ls nxt Ep). cbv zeta.
      rewrite fst_let3.
      set (s2 := hop_state s0 cid c tries ini p nxt).
      assert (G : inv st s2).
      { apply (hop_inv None cid s s2 (hop_circ c nxt) (hop_retry s0 tries ini p)).
        - exact Hi.
        - reflexivity.
        - reflexivity.
        - exact Hs0.
        - exact Hs0'.
        - reflexivity.
        - reflexivity.
        - reflexivity.
        - intros c0. simpl. rewrite aget_aset. reflexivity.
        - intros c0. simpl. rewrite aget_aset, aget_adel. destruct (c0 =? cid); reflexivity.
        - exact Hh.
        - exact Hla.
        - unfold retry_ok. simpl. unfold next_tries. unfold dretry_ok in D3. split; [|split]; lia.
        - simpl. intro Ecl. unfold circ_ok in Hc. rewrite Ecl in Hc. exact Hc.
        - simpl. intros Ecl Erd. right. unfold circ_ok in Hc. rewrite Ecl in Hc.
          destruct (c_goal c <=? c_hops c) eqn:E; [|lia]. destruct Hc as [[]|Hc]. exact Hc.
        - simpl. intros t i0 Hin. destruct (Hdr _ _ _ Hin) as (_ & _ & D3'). exact (D3' _ Ec). }
      eapply inv_ext; [exact Hst | exact G|]. apply send_cell_ext. apply G.
    + rewrite (start_hop_none s0 cid c tries ini p ls Ep). simpl.
      apply (inv_local None cid s (defer (DRemove KCirc cid 0 false) s0)); auto.
      * intros x R Hin Hne. simpl. apply in_or_app; left. eapply in_remove_nth_other; eauto.
      * intros c0 t i0 Hin _. simpl in Hin. apply in_app_or in Hin. destruct Hin as [Hin|[Hin|[]]]; [|discriminate].
        eapply in_remove_nth; eauto.
      * intros x Hx. simpl in Hx. rewrite Ec in Hx. inversion Hx; subst x.
        split; [exact Hh|]. split; [exact Hla|]. split.
        -- unfold circ_ok in *. destruct (c_closing c) eqn:Ecl; [exact Hc|].
           destruct (c_goal c <=? c_hops c) eqn:Erd.
           ++ destruct Hc as [[]|Hc]. right.
              destruct Hc as [[(dd & rn & Hin & Hle)|(due & Hin & Hle)]|Hls]; [left; left | left; right | right; exact Hls].
              ** exists dd, rn. split; [|exact Hle]. simpl. apply in_or_app; left. eapply in_remove_nth_other; eauto. discriminate.
              ** exists due. auto.
           ++ right; right. left. exists 0, false. split; [simpl; apply in_or_app; right; left; reflexivity|].
              simpl. pose proof (dretry_bound st Hst s c tries D3 D1 Hh ltac:(lia)). lia.
        -- intros rt Hr. simpl in Hr. exact (Hrt _ _ _ Hr Ec).
      * intros t i0 Hin. simpl in Hin. apply in_app_or in Hin. destruct Hin as [Hin|[Hin|[]]]; [|discriminate].
        apply in_remove_nth in Hin. destruct (Hdr _ _ _ Hin) as (E1 & E2 & E3). split; [exact E1|]. split; [exact E2|]. exact E3.
  - simpl. apply (inv_local None cid s s0); auto.
    + intros x Hx. simpl in Hx. rewrite Ec in Hx. discriminate.
    + intros t i0 Hin. apply Hs0' in Hin. destruct (Hdr _ _ _ Hin) as (E1 & E2 & E3).
      split; [exact E1|]. split; [exact E2|]. exact E3.
Qed.

(* ---------------------------------------------------------------- ECreateCircuit *)
Lemma inv_create_circuit s cid goal p ls :
  inv st s -> inv st (fst (step_at st s (ECreateCircuit cid goal p ls))).
Proof.
  intros Hi. pose proof Hi as (Hside & Hrel & Hex & Hrt & Hdr & Hc). destruct Hside as [S1 S2].
  cbn [step_at]. destruct (p_next p) as [nxt|] eqn:Ep; [|exact Hi].
  set (c0 := mkCirc (ro_new (now s)) goal 0 false None 0 CIRCUIT_EARLY_INIT).
  set (s1 := set_circuits (aset cid c0 (circuits s)) s).
  rewrite (start_hop_some s1 cid c0 _ true p ls nxt Ep). rewrite fst_let3.
  set (s2 := hop_state s1 cid c0 (initial_tries (s_circuit_timeout st) (s_next_hop_timeout st)) true p nxt).
  pose proof (tries0_pos st Hst) as Htp. destruct Hst as (Hmi & Hsw & Hd & Hn & Hct).
  assert (G : inv st s2).
  { apply (hop_inv None cid s s2 (hop_circ c0 nxt)
                   (hop_retry s1 (initial_tries (s_circuit_timeout st) (s_next_hop_timeout st)) true p)).
    - exact Hi.
    - reflexivity.
    - reflexivity.
    - intros x R Hin _. exact Hin.
    - intros c t i Hin. exact Hin.
    - reflexivity.
    - reflexivity.
    - reflexivity.
    - intros c. simpl. rewrite !aget_aset. destruct (c =? cid); reflexivity.
    - intros c. simpl. rewrite aget_aset, aget_adel. destruct (c =? cid); reflexivity.
    - simpl. lia.
    - simpl. lia.
    - unfold retry_ok. simpl. unfold next_tries. fold (tries0 st). split; [|split]; lia.
    - simpl. discriminate.
    - simpl. intros _ _. right. right. simpl. lia.
    - simpl. intros t i Hin. destruct (Hdr _ _ _ Hin) as (D1 & D2 & _).
      pose proof (mul_le_nht st Hst 1 (tries0 st - t + 1)). lia. }
  eapply inv_ext; [exact Hst | exact G|]. apply send_cell_ext. apply G.
Qed.

(* ---------------------------------------------------------------- created / extended for an own circuit *)
Lemma c_state_cases c :
  (c_state c = CIRCUIT_STATE_EXTENDING /\ c_closing c = false /\ c_hops c < c_goal c)
  \/ (c_state c = CIRCUIT_STATE_READY /\ c_closing c = false /\ c_goal c <= c_hops c)
  \/ (c_state c = CIRCUIT_STATE_CLOSING /\ c_closing c = true).
Proof.
  unfold c_state, circuit_state, CIRCUIT_STATE_EXTENDING, CIRCUIT_STATE_READY, CIRCUIT_STATE_CLOSING.
  destruct (c_closing c); [right; right; auto|].
  destruct (c_hops c <? c_goal c) eqn:E; [left | right; left]; repeat split; lia.
Qed.

Lemma ours_inv s cid v p ls rt :
  tfacts st s -> inv st s -> aget cid (retries s) = Some rt ->
  inv_gen st (Some cid) (fst (fst (ours st s cid v p ls))).
Proof.
  intros (T1 & T2 & T3) Hi Hr. pose proof Hi as (Hside & Hrel & Hex & Hrt & Hdr & Hc). destruct Hside as [S1 S2].
  unfold ours. destruct (aget cid (circuits s)) as [c|] eqn:Ec; [|apply inv_waive; exact Hi].
  destruct (c_unver c) as [h|] eqn:Eu; [|apply inv_waive; exact Hi].
  destruct v; [| |apply inv_waive; exact Hi].
  2:{ simpl. eapply inv_ext; [exact Hst | apply inv_waive; exact Hi|]. apply ext_defer; [split; assumption | exact I]. }
  set (c1 := mkCirc (c_ro c) (c_goal c) (c_hops c + 1) (c_closing c) None (if c_hops c =? 0 then h else c_first c) (c_early c)).
  set (s1 := set_circuits (aset cid c1 (circuits s)) s).
  destruct (S2 _ _ Ec) as [Hh Hla]. pose proof (Hrt _ _ _ Hr Ec) as (R1 & R2 & R3). specialize (T3 _ _ Hr).
  specialize (Hc _ _ Ec).
  assert (Hd1 : forall s', starts s' = starts s -> now s' = now s -> aget cid (circuits s') = Some c1 ->
            forall t i, In (DRetry cid t i) (starts s') ->
            1 <= t /\ t < tries0 st /\ forall x, aget cid (circuits s') = Some x -> dretry_ok st s' x t).
  { intros s' E1 E2 E3 t i H. rewrite E1 in H. destruct (Hdr _ _ _ H) as (D1 & D2 & D3).
    split; [exact D1|]. split; [exact D2|]. intros x Hx. rewrite E3 in Hx. inversion Hx; subst x.
    specialize (D3 _ Ec). unfold dretry_ok in *. rewrite E2. exact D3. }
  destruct (c_state_cases c1) as [(Es & Ecl & Elt)|[(Es & Ecl & Ege)|(Es & Ecl)]]; rewrite Es.
  - (* still extending: next hop *)
    cbn [Z.eqb CIRCUIT_STATE_EXTENDING Pos.eqb]. change (retries s1) with (retries s). rewrite Hr.
    simpl in Ecl, Elt.
    set (sa := set_retries (adel cid (retries s)) s1).
    destruct (p_next p) as [nxt|] eqn:Ep.
    + rewrite (start_hop_some sa cid c1 (rt_tries rt) false p ls nxt Ep).
      set (s2 := hop_state sa cid c1 (rt_tries rt) false p nxt).
      assert (G : inv_gen st (Some cid) s2).
      { apply (hop_inv (Some cid) cid s s2 (hop_circ c1 nxt) (hop_retry sa (rt_tries rt) false p)).
        - exact Hi.
        - reflexivity.
        - reflexivity.
        - intros x R Hin _. exact Hin.
        - intros c0 t i Hin. exact Hin.
        - reflexivity.
        - reflexivity.
        - reflexivity.
        - intros c0. simpl. rewrite !aget_aset. destruct (c0 =? cid); reflexivity.
        - intros c0. simpl. rewrite aget_aset, !aget_adel. destruct (c0 =? cid); reflexivity.
        - simpl. lia.
        - simpl. exact Hla.
        - unfold retry_ok. simpl. unfold next_tries. split; [|split]; lia.
        - simpl. intro E. congruence.
        - simpl. intros _ _. left; reflexivity.
        - simpl. intros t i Hin. destruct (Hdr _ _ _ Hin) as (_ & _ & D3). exact (D3 _ Ec). }
      eapply inv_ext; [exact Hst | exact G|]. apply send_cell_ext. apply G.
    + rewrite (start_hop_none sa cid c1 (rt_tries rt) false p ls Ep). simpl.
      apply (inv_local (Some cid) cid s (defer (DRemove KCirc cid 0 false) sa)); auto.
      * intros x R Hin _. simpl. apply in_or_app; left; exact Hin.
      * intros c0 t i Hin _. simpl in Hin. apply in_app_or in Hin. destruct Hin as [Hin|[Hin|[]]]; [exact Hin | discriminate].
      * intros c0 E. simpl. rewrite aget_aset. destruct (c0 =? cid) eqn:E'; [lia | reflexivity].
      * intros c0 E. simpl. rewrite aget_adel. destruct (c0 =? cid) eqn:E'; [lia | reflexivity].
      * intros x Hx. simpl in Hx. rewrite aget_aset, Z.eqb_refl in Hx. inversion Hx; subst x.
        split; [simpl; lia|]. split; [exact Hla|]. split.
        -- unfold circ_ok. simpl c_closing. rewrite Ecl. simpl c_goal. simpl c_hops.
           destruct (c_goal c <=? c_hops c + 1) eqn:E; [lia|].
           right; right. left. exists 0, false. split; [simpl; apply in_or_app; right; left; reflexivity|].
           simpl. pose proof (retry_due_bound st Hst c rt (conj R1 (conj R2 R3)) ltac:(lia)). lia.
        -- intros rt' Hr'. simpl in Hr'. rewrite aget_adel, Z.eqb_refl in Hr'. discriminate.
      * intros t i Hin. simpl in Hin. apply in_app_or in Hin. destruct Hin as [Hin|[Hin|[]]]; [|discriminate].
        destruct (Hdr _ _ _ Hin) as (D1 & D2 & D3). split; [exact D1|]. split; [exact D2|].
        intros x Hx. simpl in Hx. rewrite aget_aset, Z.eqb_refl in Hx. inversion Hx; subst x.
        specialize (D3 _ Ec). exact D3.
  - (* the circuit is complete: the retry cache goes; the ready-clause is left to the refresh *)
    change (CIRCUIT_STATE_READY =? CIRCUIT_STATE_EXTENDING) with false.
    change (CIRCUIT_STATE_READY =? CIRCUIT_STATE_READY) with true. cbv iota. simpl fst.
    simpl in Ecl, Ege.
    apply (inv_local (Some cid) cid s (set_retries (adel cid (retries s1)) s1)); auto.
    + intros c0 E. simpl. rewrite aget_aset. destruct (c0 =? cid) eqn:E'; [lia | reflexivity].
    + intros c0 E. simpl. rewrite aget_adel. destruct (c0 =? cid) eqn:E'; [lia | reflexivity].
    + intros x Hx. simpl in Hx. rewrite aget_aset, Z.eqb_refl in Hx. inversion Hx; subst x.
      split; [simpl; lia|]. split; [exact Hla|]. split.
      * unfold circ_ok. simpl c_closing. rewrite Ecl. simpl c_goal. simpl c_hops.
        destruct (c_goal c <=? c_hops c + 1) eqn:E; [|lia]. left; reflexivity.
      * intros rt' Hr'. simpl in Hr'. rewrite aget_adel, Z.eqb_refl in Hr'. discriminate.
    + apply Hd1; try reflexivity. simpl. rewrite aget_aset, Z.eqb_refl. reflexivity.
  - (* closing: the hop is recorded, nothing else happens *)
    change (CIRCUIT_STATE_CLOSING =? CIRCUIT_STATE_EXTENDING) with false.
    change (CIRCUIT_STATE_CLOSING =? CIRCUIT_STATE_READY) with false. cbv iota. simpl fst.
    simpl in Ecl.
    apply (inv_local (Some cid) cid s s1); auto.
    + intros c0 E. simpl. rewrite aget_aset. destruct (c0 =? cid) eqn:E'; [lia | reflexivity].
    + intros x Hx. simpl in Hx. rewrite aget_aset, Z.eqb_refl in Hx. inversion Hx; subst x.
      split; [simpl; lia|]. split; [exact Hla|]. split.
      * unfold circ_ok in *. simpl c_closing. rewrite Ecl in *. exact Hc.
      * intros rt' Hr'. simpl in Hr'. rewrite Hr in Hr'. inversion Hr'; subst rt'.
        unfold retry_ok. simpl. split; [exact R1|]. split; [lia | exact R3].
    + apply Hd1; try reflexivity. simpl. rewrite aget_aset, Z.eqb_refl. reflexivity.
Qed.

(* ---------------------------------------------------------------- the refresh that ends process_cell *)
Lemma unwaive cid s :
  inv_gen st (Some cid) s ->
  (forall c, aget cid (circuits s) = Some c -> now s <= la (c_ro c)) ->
  inv st s.
Proof.
  intros (H1 & H2 & H3 & H4 & H5 & H6) Hla.
  split; [exact H1|]. split; [exact H2|]. split; [exact H3|]. split; [exact H4|]. split; [exact H5|].
  intros c x Hx. specialize (H6 _ _ Hx). unfold circ_ok in *.
  destruct (c_closing x); [exact H6|]. destruct (c_goal x <=? c_hops x); [|exact H6].
  destruct H6 as [E|H6]; [|right; exact H6]. subst c. right.
  apply entry_ok_fresh; [exact Hst | exact H1 | apply Hla; exact Hx].
Qed.

Lemma refresh_inv cid len s :
  inv_gen st (Some cid) s ->
  inv st match aget cid (circuits s) with
         | Some c => set_circuits (aset cid (c_with_ro (fun r => ro_down len (ro_beat (now s) r)) c) (circuits s)) s
         | None => s
         end.
Proof.
  intros Hi. destruct (aget cid (circuits s)) as [c|] eqn:Ec.
  - pose proof Hi as (Hside & _). destruct Hside as [S1 S2]. destruct (S2 _ _ Ec) as [Hh Hla].
    apply (unwaive cid).
    + eapply inv_ext; [exact Hst | exact Hi|].
      eapply ext_set_circuit; eauto; try reflexivity; simpl; try lia. split; assumption.
    + intros x Hx. simpl in Hx. rewrite aget_aset, Z.eqb_refl in Hx. inversion Hx; subst x. simpl. lia.
  - apply (unwaive cid); [exact Hi|]. intros x Hx. congruence.
Qed.

End Build.
