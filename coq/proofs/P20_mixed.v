From Coq Require Import ZArith List Bool Lia Arith.
From IPV8V Require Import lib.PyErr model.M20_vp proofs.P20_vp.
Import ListNotations.

Section Mixed.
Variable V : Type.
Variable L : Type.
Variable lit_val : L -> res V.
Notation bind_params := (bind_params V L lit_val).

Lemma assoc_remove_other (k n : nat) : forall (kw : list (nat * V)), k <> n ->
  assoc_nat k (remove_key V n kw) = assoc_nat k kw.
Proof.
  induction kw as [|[k' v'] tl IH]; intros Hne; [reflexivity|].
  cbn [remove_key assoc_nat]. destruct (Nat.eqb n k') eqn:E1.
  - apply Nat.eqb_eq in E1. subst k'. destruct (Nat.eqb k n) eqn:E2; [apply Nat.eqb_eq in E2; contradiction|reflexivity].
  - cbn [assoc_nat]. destruct (Nat.eqb k k'); [reflexivity|apply IH; exact Hne].
Qed.

Lemma kw_survives : forall names c args kwargs fs ra rk,
  interp_assign V c names args kwargs = Ok (fs, ra, rk) ->
  forall k v, assoc_nat k kwargs = Some v -> ~ In k names -> assoc_nat k rk = Some v.
Proof.
  induction names as [|n ntl IH]; intros c args kwargs fs ra rk H k v Hk Hnin.
  - destruct c; cbn in H; [|discriminate H]. injection H as _ _ <-. exact Hk.
  - destruct c; cbn [interp_assign] in H; [injection H as _ _ <-; exact Hk|].
    assert (Hkn : k <> n) by (intros ->; apply Hnin; left; reflexivity).
    assert (Hnin' : ~ In k ntl) by (intros Hi; apply Hnin; right; exact Hi).
    destruct args as [|a atl].
    + destruct (assoc_nat n kwargs) as [w|]; [|discriminate H].
      destruct (interp_assign V c ntl [] (remove_key V n kwargs)) as [[[fs' ra'] rk']|e] eqn:E; cbn [bind] in H; [|discriminate H].
      injection H as _ _ <-. eapply IH; [exact E| |exact Hnin']. rewrite assoc_remove_other by exact Hkn. exact Hk.
    + destruct (interp_assign V c ntl atl kwargs) as [[[fs' ra'] rk']|e] eqn:E; cbn [bind] in H; [|discriminate H].
      injection H as _ _ <-. eapply IH; [exact E|exact Hk|exact Hnin'].
Qed.

Lemma mem_In n l : mem n l = true <-> In n l.
Proof.
  unfold mem. rewrite existsb_exists. split.
  - intros [x [Hx He]]. apply Nat.eqb_eq in He. subst x. exact Hx.
  - intros Hi. exists n. split; [exact Hi|apply Nat.eqb_refl].
Qed.

Lemma assign_mixed : forall names args kwargs fs,
  nodup_b names = true ->
  interp_assign V (length names) names args kwargs = Ok (fs, [], []) ->
  bind_params (no_defaults L names) args kwargs = Ok (fs, []).
Proof.
  induction names as [|n ntl IH]; intros args kwargs fs Hnd H.
  - cbn in H. injection H as <- -> ->. reflexivity.
  - cbn [nodup_b] in Hnd. apply andb_true_iff in Hnd as [Hn Hnd]. apply negb_true_iff in Hn.
    assert (Hnin : ~ In n ntl) by (intros Hi; apply mem_In in Hi; congruence).
    cbn [length interp_assign] in H. cbn [no_defaults map bind_params]. fold (no_defaults L ntl).
    destruct args as [|a atl].
    + destruct (assoc_nat n kwargs) as [w|]; [|discriminate H].
      destruct (interp_assign V (length ntl) ntl [] (remove_key V n kwargs)) as [[[fs' ra'] rk']|e] eqn:E; cbn [bind] in H; [|discriminate H].
      injection H as <- -> ->. rewrite (IH _ _ _ Hnd E). reflexivity.
    + destruct (interp_assign V (length ntl) ntl atl kwargs) as [[[fs' ra'] rk']|e] eqn:E; cbn [bind] in H; [|discriminate H].
      injection H as <- -> ->.
      destruct (assoc_nat n kwargs) as [w|] eqn:Ek.
      * pose proof (kw_survives _ _ _ _ _ _ _ E n w Ek Hnin) as Hc. discriminate Hc.
      * rewrite (IH _ _ _ Hnd E). reflexivity.
Qed.

(* any mixture of positional and keyword arguments the interpreted constructor accepts is bound to the same fields by
   the generated signature *)
Lemma init_equal_mixed_l d args kwargs fs :
  wf_defn d = true ->
  interp_init V d args kwargs = Ok fs -> eval_init V L lit_val (gen_init (d_names d) []) args kwargs = Ok fs.
Proof.
  intros Hwf H. unfold wf_defn in Hwf. apply andb_true_iff in Hwf as [Hn Hnd]. apply Nat.eqb_eq in Hn.
  unfold interp_init in H. rewrite <- Hn in H.
  destruct (interp_assign V (length (d_names d)) (d_names d) args kwargs) as [[[fs' ra] rk]|e] eqn:E; cbn [bind] in H; [|discriminate H].
  destruct ra; [|discriminate H]. destruct rk; [|discriminate H]. injection H as ->.
  unfold eval_init. rewrite gen_init_nil. rewrite (assign_mixed _ _ _ _ Hnd E). reflexivity.
Qed.

Lemma assign_mixed_conv : forall names args kwargs fs rk,
  bind_params (no_defaults L names) args kwargs = Ok (fs, rk) ->
  interp_assign V (length names) names args kwargs = Ok (fs, [], rk).
Proof.
  induction names as [|n ntl IH]; intros args kwargs fs rk H.
  - cbn in H. destruct args; [|discriminate H]. injection H as <- <-. reflexivity.
  - cbn [no_defaults map bind_params] in H. fold (no_defaults L ntl) in H. cbn [length interp_assign].
    destruct args as [|a atl].
    + destruct (assoc_nat n kwargs) as [w|]; [|discriminate H].
      destruct (bind_params (no_defaults L ntl) [] (remove_key V n kwargs)) as [[fs' rk']|e] eqn:E; cbn [bind] in H; [|discriminate H].
      injection H as <- <-. rewrite (IH _ _ _ _ E). reflexivity.
    + destruct (assoc_nat n kwargs) as [w|]; [discriminate H|].
      destruct (bind_params (no_defaults L ntl) atl kwargs) as [[fs' rk']|e] eqn:E; cbn [bind] in H; [|discriminate H].
      injection H as <- <-. rewrite (IH _ _ _ _ E). reflexivity.
Qed.

Lemma init_equal_mixed_iff_l d args kwargs fs :
  wf_defn d = true ->
  (interp_init V d args kwargs = Ok fs <-> eval_init V L lit_val (gen_init (d_names d) []) args kwargs = Ok fs).
Proof.
  intros Hwf. split; [apply init_equal_mixed_l; exact Hwf|].
  intros H. unfold wf_defn in Hwf. apply andb_true_iff in Hwf as [Hn Hnd]. apply Nat.eqb_eq in Hn.
  unfold eval_init in H. rewrite gen_init_nil in H.
  destruct (bind_params (no_defaults L (d_names d)) args kwargs) as [[fs' rk]|e] eqn:E; cbn [bind] in H; [|discriminate H].
  destruct rk; [|discriminate H]. injection H as ->.
  unfold interp_init. rewrite <- Hn. rewrite (assign_mixed_conv _ _ _ _ _ E). reflexivity.
Qed.
End Mixed.
