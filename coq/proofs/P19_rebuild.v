(* C19 - the pseudonym rebuilt from what survived a kill verifies.
   PseudonymManager.__init__ puts every stored token of the key into tree.elements (no check, any order);
   the tokens of an honest workload are inserted parent first (add_credential only inserts what
   gather_token chained), so what survives - the tokens of a prefix of the workload - is closed under
   predecessors and every element passes TokenTree.verify (model and lemmas of C16). *)
From Coq Require Import ZArith List Bool Lia Arith Permutation.
From IPV8V Require Import lib.PyErr lib.Bytes model.M16_tokentree proofs.P16_gather proofs.P16_props
  model.M19_crash spec.S19_durable proofs.P19_base proofs.P19_crash.
Import ListNotations.
Open Scope Z_scope.

(* ---------------------------------------------------------------- effect only appends rows *)
Lemma apply_insert_rows d ig t r :
  exists ex, d_rows (snd (apply_stmt d (SInsert ig t r))) = d_rows d ++ ex.
Proof.
  cbn [apply_stmt]. destruct (find_table d t); [|exists []; rewrite app_nil_r; reflexivity].
  destruct (has_key d t (t_pk t0) (key_of (t_pk t0) r)); cbn [snd d_rows].
  - exists []. rewrite app_nil_r. reflexivity.
  - eexists. reflexivity.
Qed.

Lemma effect_rows cfg : forall l d, exists ex, d_rows (effect cfg d l) = d_rows d ++ ex.
Proof.
  induction l as [|c l IH]; intros d; cbn [effect].
  - exists []. rewrite app_nil_r. reflexivity.
  - unfold call_stmt. destruct (nth_error (cfg_inserts cfg) (fst c)) as [[|[ig t| |] ops]|]; try apply IH.
    destruct (apply_insert_rows d ig t (snd c)) as [ex1 E1].
    destruct (IH (snd (apply_stmt d (SInsert ig t (snd c))))) as [ex2 E2].
    exists (ex1 ++ ex2). rewrite E2, E1, app_assoc. reflexivity.
Qed.

Lemma effect_app cfg : forall a b d, effect cfg d (a ++ b) = effect cfg (effect cfg d a) b.
Proof.
  induction a as [|c a IH]; intros b d; cbn [app effect]; [reflexivity|].
  destruct (call_stmt cfg c); apply IH.
Qed.

Lemma table_rows_app tabs r1 r2 t :
  table_rows (mkD tabs (r1 ++ r2)) t = table_rows (mkD tabs r1) t ++ map snd (filter (fun tr => fst tr =? t) r2).
Proof. unfold table_rows. cbn [d_rows]. rewrite filter_app, map_app. reflexivity. Qed.

Lemma table_rows_prefix cfg d wl j t :
  exists ex, table_rows (effect cfg d wl) t = table_rows (effect cfg d (firstn j wl)) t ++ ex.
Proof.
  assert (Es : effect cfg d wl = effect cfg (effect cfg d (firstn j wl)) (skipn j wl)).
  { rewrite <- effect_app, firstn_skipn. reflexivity. }
  rewrite Es.
  destruct (effect_rows cfg (skipn j wl) (effect cfg d (firstn j wl))) as [ex E].
  unfold table_rows. rewrite E, filter_app, map_app. eexists. reflexivity.
Qed.

Section Rebuild.
Variable hash : bytes -> bytes.
Variable sigverify : bytes -> bytes -> bytes -> bool.
Variable pk : bytes.

Lemma chain_ok_app_l : forall b a, chain_ok hash pk (a ++ b) -> chain_ok hash pk a.
Proof.
  induction b as [|x b IH] using rev_ind; intros a H.
  - rewrite app_nil_r in H. exact H.
  - rewrite app_assoc in H. inversion H as [E|e t He Hr E].
    + destruct (a ++ b); discriminate.
    + apply app_inj_tail in E as [E _]. subst e. apply IH. exact He.
Qed.

Lemma NoDup_app_l {A} (a b : list A) : NoDup (a ++ b) -> NoDup a.
Proof.
  induction a as [|x a IH]; cbn; intros H; [constructor|].
  inversion H; subst. constructor; [|apply IH; assumption].
  intros Hin. apply H2. apply in_or_app. left. exact Hin.
Qed.

(* with distinct hashes, lookup by hash does not depend on the order of the dict *)
Lemma find_key_perm e e' h :
  NoDup (keys hash e) -> Permutation e e' -> find_key hash h e' = find_key hash h e.
Proof.
  intros N Pm.
  assert (N' : NoDup (keys hash e')).
  { unfold keys in *. eapply Permutation_NoDup; [apply Permutation_map; exact Pm|exact N]. }
  destruct (find_key hash h e) as [x|] eqn:E.
  - destruct (find_key_Some hash _ _ _ E) as [Hx Hh].
    assert (Hin : In h (keys hash e')).
    { unfold keys. rewrite <- Hh. apply in_map. eapply Permutation_in; eauto. }
    destruct (find_key_In hash _ _ Hin) as [y Ey]. rewrite Ey.
    destruct (find_key_Some hash _ _ _ Ey) as [Hy Hh'].
    f_equal. apply (NoDup_map_eq (thash hash) e'); auto.
    + eapply Permutation_in; eauto.
    + congruence.
  - apply find_key_notin. intros Hin. apply (find_key_None hash _ _ E).
    unfold keys in *. apply in_map_iff in Hin as [y [Hy Iy]]. apply in_map_iff. exists y. split; [exact Hy|].
    eapply Permutation_in; [apply Permutation_sym; exact Pm|exact Iy].
Qed.

Lemma verify_loop_perm e e' :
  NoDup (keys hash e) -> Permutation e e' ->
  forall n t, verify_loop hash sigverify pk n e' t = verify_loop hash sigverify pk n e t.
Proof.
  intros N Pm. induction n as [|n IH]; intros t; cbn [verify_loop]; [reflexivity|].
  destruct (negb (tverify sigverify pk t)); [reflexivity|].
  destruct (bytes_eqb (t_prev t) (genesis hash pk)); [reflexivity|].
  rewrite (find_key_perm e e' _ N Pm). destruct (find_key hash (t_prev t) e); [apply IH|reflexivity].
Qed.

(* a prefix of a parent-first chain of validly signed tokens with distinct hashes, loaded in any order:
   TokenTree.verify answers True for every element *)
Lemma prefix_any_order_verifies ts p rest els c e md :
  ts = p ++ rest -> chain_ok hash pk ts -> Forall (fun x => tverify sigverify pk x = true) ts ->
  NoDup (keys hash ts) -> Permutation els p -> In e els -> Z.of_nat (length els) <= md ->
  tree_verify hash sigverify pk (mkTree els [] c) e md = true.
Proof.
  intros Et C V N Pm He L. subst ts.
  apply chain_ok_app_l in C. apply Forall_app in V as [V _].
  unfold keys in N. rewrite map_app in N. apply NoDup_app_l in N. fold (keys hash p) in N.
  unfold tree_verify. cbn [elements].
  destruct (md <? 0) eqn:Em; [apply Z.ltb_lt in Em; lia|].
  rewrite (verify_loop_perm p els N (Permutation_sym Pm)).
  assert (Hp : In e p) by (eapply Permutation_in; eauto).
  apply in_split in Hp as [e1 [e2 Ep]].
  apply verify_loop_mono with (n := Datatypes.S (length e1)).
  - rewrite (Permutation_length Pm), Ep, app_length in L. cbn [length] in L. lia.
  - eapply verify_elements; eauto.
Qed.

End Rebuild.

(* ---------------------------------------------------------------- the crash statement *)
Section RebuildCrash.
Context {S : Type}.
Variable O : store_ops S.
Hypothesis K : contract O.
Variable cfg : dbcfg.
Hypothesis W : cfg_wf cfg.
Variable hash : bytes -> bytes.
Variable sigverify : bytes -> bytes -> bytes -> bool.
Variable pk : bytes.
Variable tok : row -> token.       (* Token.from_database_tuple on the columns of a stored row *)
Variable T : Z.                    (* the Tokens table *)

Definition stored_tokens (d : dstate) : list token := map tok (table_rows d T).

(* the tokens an uninterrupted run of the workload stores, in order, are a parent-first chain under
   the key, validly signed, with distinct hashes *)
Definition honest (d0 : dstate) (wl : list (nat * row)) : Prop :=
  let ts := stored_tokens (effect cfg d0 wl) in
  chain_ok hash pk ts /\ Forall (fun x => tverify sigverify pk x = true) ts /\ NoDup (keys hash ts).

Theorem rebuild_verifies_l : forall wl m tr m',
  ms_pend m = 0 -> du O m = vw O m -> honest (vw O m) wl ->
  run_actions O cfg m (map (fun c => ACall (fst c) (snd c)) wl) = (tr, m') ->
  forall snap, In snap (m :: tr) ->
  forall els c e md,
    Permutation els (stored_tokens (s_durable O (ms_st (reboot O snap)))) ->
    In e els -> Z.of_nat (length els) <= md ->
    tree_verify hash sigverify pk (mkTree els [] c) e md = true.
Proof.
  intros wl m tr m' P C [H1 [H2 H3]] E snap Hs els c e md Pm He L.
  unfold reboot in Pm. cbn [ms_st] in Pm. rewrite (k_crash_durable O K) in Pm.
  assert (Hj : exists j, s_durable O (ms_st snap) = effect cfg (vw O m) (firstn j wl)).
  { destruct Hs as [Hs|Hs].
    - subst snap. exists 0%nat. cbn [firstn effect]. exact C.
    - destruct (crash_prefix_exact_l O K cfg W wl m P C) as [tr2 [m2 [E2 [_ [_ [_ [_ [_ F]]]]]]]].
      rewrite E in E2. inversion E2; subst tr2 m2.
      rewrite Forall_forall in F. destruct (F _ Hs) as [a [j [s [_ [_ [_ [_ [Dx _]]]]]]]].
      exists j. unfold du in Dx. rewrite Dx. fold (du O m). rewrite C. reflexivity. }
  destruct Hj as [j Ej]. rewrite Ej in Pm.
  destruct (table_rows_prefix cfg (vw O m) wl j T) as [ex Ex].
  eapply (prefix_any_order_verifies hash sigverify pk (stored_tokens (effect cfg (vw O m) wl))
            (stored_tokens (effect cfg (vw O m) (firstn j wl))) (map tok ex)); eauto.
  unfold stored_tokens. rewrite Ex, map_app. reflexivity.
Qed.

End RebuildCrash.
