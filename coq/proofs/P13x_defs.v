(* C13 (extension) - definitions of the enlarged sweep (introducer not a public host) and the generic lemma that
   turns a decided sweep into a statement per configuration. *)
From Coq Require Import ZArith List Bool Lia ZifyBool Arith.
From IPV8V Require Import lib.PyErr gen.G13_lan model.M13_nat model.M13_scenario
  proofs.P13_proto proofs.P13_nat proofs.P13_sweeplib.
Import ListNotations.
Open Scope Z_scope.

(* closed form of b_blind on the swept configurations: the introducer shares a NAT box (not a public
   machine) with exactly one of requester / introduced peer *)
Definition blind_simple (bp : bplace) (tA tC : nat_type) (same : bool) : bool :=
  match bp with
  | BPublic | BOwn _ => false
  | BWithA => negb (is_open tA) && negb same
  | BWithC _ => negb same && negb (is_open tC)
  end.

Definition check_cfgx (bp : bplace) (tA tC : nat_type) (same resp newC styleA : bool) (k pos : nat) : bool :=
  let g := cfg_forx bp tA (mkCand tC same resp newC false false) styleA k pos in
  let o := run_scn g in
  let blind := blind_simple bp tA tC same in
  Bool.eqb (b_blind g (cand_id pos)) blind
  && opt_eqb (introduced_peer o) (cand_id pos)
  && Bool.eqb (holds g o) (negb blind)
  && (if blind then
        (* what still holds, and what fails, when the introducer is blind *)
        v_quiet (verdict_of g o) && v_introduced (verdict_of g o) && v_puncture_req (verdict_of g o)
        && negb (v_puncture (verdict_of g o) && v_request (verdict_of g o) && v_mutual (verdict_of g o))
      else
        verdict_eqb (verdict_of g o) all_true
        && existsb (Z.eqb (cand_id pos)) (peers_of o ID_A)
        && existsb (Z.eqb ID_A) (peers_of o (cand_id pos))
        && (if same then
              list_eqb (fun x y => addr_eqb (fst x) (fst y) && outcome_eqb (snd x) (snd y)) (contacts o)
                       [(host_lan g (cand_id pos), Deliver (cand_id pos) (host_lan g ID_A))]
            else true))
  && net_wfb (mk_net g).

Definition check_overx (ts : list nat_type) (bs : list bool) (ks : list nat) : bool :=
  forallb (fun tA => forallb (fun tC => forallb (fun same => forallb (fun resp => forallb (fun newC =>
  forallb (fun styleA => forallb (fun k => forallb (fun pos => forallb (fun bp =>
    check_cfgx bp tA tC same resp newC styleA k pos)
  (bplaces pos)) (seq 0 k)) ks) bs) bs) bs) bs) ts) ts.

Lemma check_overx_spec : forall ts bs ks, check_overx ts bs ks = true ->
  forall bp tA tC same resp newC styleA k pos,
  In tA ts -> In tC ts -> In same bs -> In resp bs -> In newC bs -> In styleA bs -> In k ks ->
  In pos (seq 0 k) -> In bp (bplaces pos) ->
  check_cfgx bp tA tC same resp newC styleA k pos = true.
Proof.
  intros ts bs ks H bp tA tC same resp newC styleA k pos H1 H2 H3 H4 H5 H6 H7 H8 H9. unfold check_overx in H.
  rewrite forallb_forall in H. specialize (H tA H1).
  rewrite forallb_forall in H. specialize (H tC H2).
  rewrite forallb_forall in H. specialize (H same H3).
  rewrite forallb_forall in H. specialize (H resp H4).
  rewrite forallb_forall in H. specialize (H newC H5).
  rewrite forallb_forall in H. specialize (H styleA H6).
  rewrite forallb_forall in H. specialize (H k H7).
  rewrite forallb_forall in H. specialize (H pos H8).
  rewrite forallb_forall in H. exact (H bp H9).
Qed.

