(* C14 - the structural invariant of the routing table (a full binary tree whose leaves hold valid
   buckets and whose inner nodes lie on the path of our own identifier) and its preservation by
   RoutingTable.add (with the fuel bound), remove_bad_nodes and status changes. *)
From Coq Require Import ZArith List Bool Arith Lia.
From IPV8V Require Import lib.PyErr model.M14_routing spec.S14_kademlia proofs.P14_bits proofs.P14_trie proofs.P14_bucket.
Import ListNotations.

Definition leaf (b : bucket) : trie bucket := TNode (Some b) Empty Empty.

Lemma tfind_leaf_below b s : tfind (leaf b) s = match s with [] => leaf b | _ => Empty end.
Proof. destruct s as [|x s]; [reflexivity|]. cbn. destruct x; apply tfind_Empty. Qed.

Section TableFacts.
Variable W : nat.
Variable cap : nat.
Variable me : bits.                      (* RoutingTable.my_node_id *)

Notation bucket_ok := (bucket_ok W cap).

(* t is the sub-tree found at path p *)
Fixpoint wf (p : bits) (t : trie bucket) : Prop :=
  match t with
  | Empty => False
  | TNode (Some b) c0 c1 => c0 = Empty /\ c1 = Empty /\ bucket_ok p b
  | TNode None c0 c1 => starts_with p me = true /\ wf (p ++ [false]) c0 /\ wf (p ++ [true]) c1
  end.

Lemma wf_leaf p b : wf p (leaf b) <-> bucket_ok p b.
Proof. cbn. tauto. Qed.

Lemma wf_len t : forall p, wf p t -> (length p <= W)%nat.
Proof.
  induction t as [|w c0 IH0 c1 IH1]; intros p H; [destruct H|].
  destruct w as [b|]; cbn in H.
  - destruct H as (_ & _ & (_ & L & _)). exact L.
  - destruct H as (_ & H0 & _). apply IH0 in H0. rewrite app_length in H0. cbn in H0. lia.
Qed.

Lemma wf_inner_len p c0 c1 : wf p (TNode None c0 c1) -> (length p < W)%nat.
Proof. intros (_ & H0 & _). apply wf_len in H0. rewrite app_length in H0. cbn in H0. lia. Qed.

Lemma snoc_app (p : bits) x k : (p ++ [x]) ++ k = p ++ x :: k.
Proof. rewrite <- app_assoc. reflexivity. Qed.

(* ---- get_bucket *)
Lemma lpi_from_wf t : forall p r,
  wf p t -> (length p + length r = W)%nat ->
  exists k b, lpi_from t r = Some (k, b) /\ starts_with k r = true /\ tfind t k = leaf b /\ bucket_ok (p ++ k) b.
Proof.
  induction t as [|w c0 IH0 c1 IH1]; intros p r H L; [destruct H|].
  destruct w as [b|].
  - destruct H as (-> & -> & OK). exists [], b. rewrite app_nil_r.
    split; [|auto]. destruct r as [|[] r]; reflexivity.
  - pose proof (wf_inner_len _ _ _ H) as Lp. destruct H as (_ & H0 & H1).
    destruct r as [|x r]; [cbn in L; lia|].
    assert (Lx : (length (p ++ [x]) + length r = W)%nat) by (rewrite app_length; cbn in *; lia).
    destruct x.
    + destruct (IH1 _ _ H1 Lx) as (k & b & E & S & F & OK). exists (true :: k), b.
      cbn [lpi_from]. rewrite E. rewrite snoc_app in OK. cbn [starts_with tfind child]. rewrite S. auto.
    + destruct (IH0 _ _ H0 Lx) as (k & b & E & S & F & OK). exists (false :: k), b.
      cbn [lpi_from]. rewrite E. rewrite snoc_app in OK. cbn [starts_with tfind child]. rewrite S. auto.
Qed.

Lemma find_bucket_wf t i :
  wf [] t -> length i = W ->
  exists k b, find_bucket t i = Ok (k, b) /\ starts_with k i = true /\ tfind t k = leaf b /\ bucket_ok k b.
Proof.
  intros H L. destruct t as [|w c0 c1]; [destruct H|]. destruct w as [b|].
  - destruct H as (-> & -> & OK). exists [], b. unfold find_bucket.
    replace (lpi (TNode (Some b) Empty Empty) i) with (@None (bits * bucket)) by (destruct i as [|[] i]; reflexivity).
    cbn. auto.
  - pose proof (wf_inner_len _ _ _ H) as Lp. destruct H as (_ & H0 & H1). cbn [length app] in *.
    destruct i as [|x i]; [cbn in L; lia|].
    assert (Lx : (length [x] + length i = W)%nat) by (cbn in *; lia).
    unfold find_bucket. cbn [lpi]. destruct x.
    + destruct (lpi_from_wf _ _ _ H1 Lx) as (k & b & E & S & F & OK). rewrite E. exists (true :: k), b.
      cbn [starts_with tfind child]. rewrite S. auto.
    + destruct (lpi_from_wf _ _ _ H0 Lx) as (k & b & E & S & F & OK). rewrite E. exists (false :: k), b.
      cbn [starts_with tfind child]. rewrite S. auto.
Qed.

(* ---- replacing the bucket object of a leaf *)
Lemma wf_tset_leaf k : forall p t b b',
  wf p t -> tfind t k = leaf b -> bucket_ok (p ++ k) b' ->
  wf p (tset t k b') /\ tfind (tset t k b') k = leaf b'.
Proof.
  induction k as [|x k IH]; intros p t b b' H F OK.
  - cbn in F. subst t. rewrite app_nil_r in OK. cbn. auto.
  - destruct t as [|w c0 c1]; [destruct H|]. destruct w as [a|].
    + destruct H as (-> & -> & _). cbn in F. destruct x; rewrite tfind_Empty in F; discriminate.
    + destruct H as (Hm & H0 & H1). rewrite <- snoc_app in OK. cbn [tfind child] in F.
      destruct x; cbn [tset tfind child].
      * destruct (IH _ _ _ _ H1 F OK) as [A B]. split; [cbn; auto | exact B].
      * destruct (IH _ _ _ _ H0 F OK) as [A B]. split; [cbn; auto | exact B].
Qed.

(* ---- the split: two new leaves are stored below a leaf, then the leaf's own value is deleted *)
Lemma wf_split k : forall p t b b0 b1,
  wf p t -> tfind t k = leaf b -> starts_with (p ++ k) me = true ->
  bucket_ok (p ++ k ++ [false]) b0 -> bucket_ok (p ++ k ++ [true]) b1 ->
  exists t', tdel_aux (tset (tset t (k ++ [false]) b0) (k ++ [true]) b1) k = Some t' /\
             wf p t' /\ tfind t' k = TNode None (leaf b0) (leaf b1).
Proof.
  induction k as [|x k IH]; intros p t b b0 b1 H F Hm OK0 OK1.
  - cbn in F. subst t. rewrite app_nil_r in Hm. cbn [app] in *.
    exists (TNode None (leaf b0) (leaf b1)). cbn. auto 10.
  - destruct t as [|w c0 c1]; [destruct H|]. destruct w as [a|].
    + destruct H as (-> & -> & _). cbn in F. destruct x; rewrite tfind_Empty in F; discriminate.
    + destruct H as (Hp & H0 & H1). cbn [tfind child] in F.
      rewrite <- snoc_app in Hm. change (p ++ (x :: k) ++ [false]) with (p ++ x :: (k ++ [false])) in OK0.
      change (p ++ (x :: k) ++ [true]) with (p ++ x :: (k ++ [true])) in OK1.
      rewrite <- snoc_app in OK0, OK1.
      destruct x; cbn [app tset tdel_aux].
      * destruct (IH _ _ _ _ _ H1 F Hm OK0 OK1) as (c' & D & Wc & Fc). rewrite D.
        destruct c' as [|w' a0 a1]; [destruct Wc|].
        exists (TNode None c0 (TNode w' a0 a1)). rewrite andb_false_r. cbn [wf tfind child]. auto.
      * destruct (IH _ _ _ _ _ H0 F Hm OK0 OK1) as (c' & D & Wc & Fc). rewrite D.
        destruct c' as [|w' a0 a1]; [destruct Wc|].
        exists (TNode None (TNode w' a0 a1) c1). cbn [is_empty andb wf tfind child]. auto.
Qed.

(* a leaf key that is a prefix of i lies strictly below every inner node on the path of i *)
Lemma leaf_below_inner t k k' b c0 c1 i :
  tfind t k = TNode None c0 c1 -> tfind t k' = leaf b ->
  starts_with k i = true -> starts_with k' i = true -> (length k < length k')%nat.
Proof.
  intros Fk Fk' Sk Sk'.
  destruct (Nat.lt_ge_cases (length k) (length k')) as [|Ge]; [assumption|exfalso].
  pose proof (starts_with_comparable _ _ _ Sk' Sk Ge) as C. apply starts_with_iff in C as [s ->].
  rewrite tfind_app, Fk', tfind_leaf_below in Fk. destruct s; discriminate.
Qed.

(* ---- RoutingTable.add *)
Lemma rt_add_fuel_ok (cap_pos : (0 < cap)%nat) fuel : forall t n,
  wf [] t -> length (nid n) = W ->
  (forall k b, find_bucket t (nid n) = Ok (k, b) -> (W - length k < fuel)%nat) ->
  exists t' r, rt_add_fuel cap fuel (mkRT me t) n = Ok (mkRT me t', r) /\ wf [] t'.
Proof.
  induction fuel as [|f IH]; intros t n H Ln Hf.
  - destruct (find_bucket_wf _ _ H Ln) as (k & b & E & _). specialize (Hf _ _ E). lia.
  - destruct (find_bucket_wf _ _ H Ln) as (k & b & E & Sk & Fk & OK).
    pose proof (Hf _ _ E) as Hfuel.
    cbn [rt_add_fuel tr M14_routing.own]. rewrite E. cbn [bind].
    destruct (badd cap b n) as [b' ok] eqn:B.
    assert (OK' : bucket_ok k b') by (pose proof (badd_ok W cap k b n OK Ln) as Q; rewrite B in Q; exact Q).
    destruct (wf_tset_leaf k [] t b b' H Fk OK') as [W1 F1].
    destruct ok; [eauto|].
    assert (O : owns b (nid n) = true) by (unfold owns; destruct OK as (-> & _); exact Sk).
    destruct (badd_refused W cap k b n b' OK B O) as [Full Pb'].
    destruct (owns b' me) eqn:Om; [|eauto].
    destruct (bsplit_some cap b' Full) as (b0 & b1 & Sp). rewrite Sp.
    assert (Pk : bprefix b' = k) by (destruct OK' as (Q & _); exact Q).
    assert (Lk : (length k < W)%nat).
    { pose proof OK as (_ & Lk & _). destruct (Nat.eq_dec (length k) W) as [Eq|]; [|lia].
      pose proof (badd_full_depth W cap k b n OK Eq Ln O cap_pos) as Q. rewrite B in Q. discriminate. }
    destruct (bsplit_ok W cap k b' b0 b1 OK' Lk Sp) as [OK0 OK1].
    unfold owns in Om. rewrite Pk in *.
    destruct (wf_split k [] _ b' b0 b1 W1 F1 Om OK0 OK1) as (t4 & D & W4 & F4).
    unfold tdel. rewrite D. destruct t4 as [|w4 a0 a1]; [destruct W4|]. cbn [bind].
    apply IH; auto.
    intros k2 b2 E2.
    destruct (find_bucket_wf _ _ W4 Ln) as (k3 & b3 & E3 & S3 & F3 & _).
    rewrite E2 in E3. injection E3 as <- <-.
    pose proof (leaf_below_inner _ _ _ _ _ _ _ F4 F3 Sk S3). lia.
Qed.

Lemma rt_add_ok (cap_pos : (0 < cap)%nat) t n :
  wf [] t -> length (nid n) = W ->
  exists t' r, rt_add W cap (mkRT me t) n = Ok (mkRT me t', r) /\ wf [] t'.
Proof. intros H L. apply (rt_add_fuel_ok cap_pos); auto. intros. lia. Qed.

(* ---- remove_bad_nodes *)
Lemma filter_ids_incl (f : node -> bool) ns i : In i (map nid (filter f ns)) -> In i (map nid ns).
Proof.
  rewrite !in_map_iff. intros (n & E & Hn). apply filter_In in Hn as [Hn _]. eauto.
Qed.

Lemma filter_ids_NoDup (f : node -> bool) ns : NoDup (map nid ns) -> NoDup (map nid (filter f ns)).
Proof.
  induction ns as [|m ns IH]; cbn; [auto|]. intros N. inversion N as [|? ? Hm N']; subst.
  destruct (f m); [|auto]. cbn. constructor; [|auto]. intros Hi. apply filter_ids_incl in Hi. contradiction.
Qed.

Lemma filter_len_le {B} (f : B -> bool) l : (length (filter f l) <= length l)%nat.
Proof. induction l as [|x l IH]; cbn; [lia|]. destruct (f x); cbn; lia. Qed.

Lemma bucket_ok_filter p b f : bucket_ok p b -> bucket_ok p (mkBucket (bprefix b) (filter f (bnodes b))).
Proof.
  intros (P & L & C & N & F). unfold P14_bucket.bucket_ok. cbn [bprefix bnodes].
  split; [exact P|]. split; [exact L|]. split; [pose proof (filter_len_le f (bnodes b)); lia|].
  split; [apply filter_ids_NoDup; exact N|].
  apply Forall_forall. intros i Hi. rewrite Forall_forall in F. apply F. eapply filter_ids_incl; eauto.
Qed.

Lemma wf_remove_bad t : forall p, wf p t -> wf p (tmap drop_bad t).
Proof.
  induction t as [|w c0 IH0 c1 IH1]; intros p H; [destruct H|]. destruct w as [b|]; cbn in H |- *.
  - destruct H as (-> & -> & OK). split; [reflexivity|]. split; [reflexivity|]. apply bucket_ok_filter. exact OK.
  - destruct H as (Hm & H0 & H1). auto.
Qed.

(* ---- status change of a node of the table *)
Lemma rt_touch_ok t i rtt failed :
  wf [] t -> length i = W ->
  exists t', rt_touch (mkRT me t) i rtt failed = Ok (mkRT me t') /\ wf [] t'.
Proof.
  intros H L. destruct (find_bucket_wf _ _ H L) as (k & b & E & Sk & Fk & OK).
  unfold rt_touch. cbn [tr M14_routing.own]. rewrite E. cbn [bind].
  eexists. split; [reflexivity|].
  eapply wf_tset_leaf; eauto. cbn [app]. apply bucket_ok_same_ids; [exact OK | apply set_status_ids].
Qed.

(* ---- histories *)
Notation op_ok := (op_ok W).

Definition inv (rt : rtable) : Prop := M14_routing.own rt = me /\ wf [] (tr rt).

Lemma inv_init : inv (rt_init me).
Proof.
  split; [reflexivity|]. cbn. split; [reflexivity|]. split; [reflexivity|]. apply bucket_ok_empty. cbn. lia.
Qed.

Lemma step_ok (cap_pos : (0 < cap)%nat) rt o : inv rt -> op_ok o -> exists rt', step W cap rt o = Ok rt' /\ inv rt'.
Proof.
  destruct rt as [o' t]. intros [Eo H] Ho. cbn in Eo, H. subst o'. destruct o as [n| |i rtt failed]; cbn [step].
  - destruct (rt_add_ok cap_pos t n H Ho) as (t' & r & E & H'). rewrite E. cbn. eexists. split; [reflexivity|]. split; auto.
  - eexists. split; [reflexivity|]. split; [reflexivity|]. cbn. apply wf_remove_bad. exact H.
  - destruct (rt_touch_ok t i rtt failed H Ho) as (t' & E & H'). rewrite E. eexists. split; [reflexivity|]. split; auto.
Qed.

Lemma run_ok (cap_pos : (0 < cap)%nat) ops : forall rt, inv rt -> Forall op_ok ops -> exists rt', run W cap rt ops = Ok rt' /\ inv rt'.
Proof.
  induction ops as [|o ops IH]; intros rt I F; cbn [run]; [eauto|].
  pose proof (Forall_inv F) as Ho. pose proof (Forall_inv_tail F) as F'.
  destruct (step_ok cap_pos rt o I Ho) as (rt1 & E & I1). rewrite E. cbn [bind]. apply IH; auto.
Qed.

(* ------------------------------------------------------------------ what the invariant means *)
Lemma wf_bucket_at k : forall p t b,
  wf p t -> tget t k = Ok b ->
  tfind t k = leaf b /\ bucket_ok (p ++ k) b /\
  (k = [] \/ exists q x, k = q ++ [x] /\ starts_with (p ++ q) me = true).
Proof.
  induction k as [|x k IH]; intros p t b H G.
  - unfold tget in G. cbn in G. destruct t as [|[a|] c0 c1]; try discriminate. injection G as ->.
    destruct H as (-> & -> & OK). rewrite app_nil_r. auto.
  - destruct t as [|w c0 c1]; [destruct H|]. rewrite tget_cons in G. destruct w as [a|].
    + destruct H as (-> & -> & _). destruct x; rewrite tget_Empty in G; discriminate.
    + destruct H as (Hm & H0 & H1).
      assert (Hx : wf (p ++ [x]) (if x then c1 else c0)) by (destruct x; assumption).
      destruct (IH _ _ _ Hx G) as (F & OK & Path). rewrite snoc_app in OK.
      split; [destruct x; exact F|]. split; [exact OK|]. right.
      destruct Path as [->|(q & y & -> & Hq)].
      * exists [], x. rewrite app_nil_r. auto.
      * exists (x :: q), y. rewrite snoc_app in Hq. auto.
Qed.

Lemma wf_prefix_free t k1 k2 b1 b2 :
  wf [] t -> tget t k1 = Ok b1 -> tget t k2 = Ok b2 -> starts_with k1 k2 = true -> k1 = k2.
Proof.
  intros H G1 G2 S. apply starts_with_iff in S as [s ->].
  destruct (wf_bucket_at _ _ _ _ H G1) as (F1 & _).
  unfold tget in G2. rewrite tfind_app, F1, tfind_leaf_below in G2.
  destruct s; [symmetry; apply app_nil_r | discriminate].
Qed.

(* exactly one bucket owns a W-bit identifier, and get_bucket returns it *)
Lemma wf_owner t i :
  wf [] t -> length i = W ->
  exists k b, find_bucket t i = Ok (k, b) /\ tget t k = Ok b /\ starts_with k i = true /\
              (forall k' b', tget t k' = Ok b' -> starts_with k' i = true -> k' = k).
Proof.
  intros H L. destruct (find_bucket_wf _ _ H L) as (k & b & E & S & F & OK).
  assert (G : tget t k = Ok b) by (unfold tget; rewrite F; reflexivity).
  exists k, b. split; [exact E|]. split; [exact G|]. split; [exact S|].
  intros k' b' G' S'.
  destruct (Nat.le_ge_cases (length k') (length k)) as [Le|Ge].
  - eapply wf_prefix_free; eauto. eapply starts_with_comparable; eauto.
  - symmetry. eapply wf_prefix_free; eauto. eapply starts_with_comparable; eauto.
Qed.

Lemma all_nodes_node w c0 c1 :
  all_nodes (TNode w c0 c1) = (match w with Some b => bnodes b | None => [] end) ++ all_nodes c0 ++ all_nodes c1.
Proof.
  unfold all_nodes. cbn [tvalues]. rewrite !flat_map_app. destruct w; cbn; rewrite ?app_nil_r; reflexivity.
Qed.

Lemma wf_all_nodes t : forall p n,
  wf p t -> In n (all_nodes t) -> length (nid n) = W /\ starts_with p (nid n) = true.
Proof.
  induction t as [|w c0 IH0 c1 IH1]; intros p n H Hn; [destruct H|].
  rewrite all_nodes_node in Hn. destruct w as [b|].
  - destruct H as (-> & -> & (_ & _ & _ & _ & F)). cbn in Hn. rewrite app_nil_r in Hn.
    rewrite Forall_forall in F. apply F. apply in_map. exact Hn.
  - destruct H as (_ & H0 & H1). cbn [app] in Hn. apply in_app_iff in Hn as [Hn|Hn].
    + destruct (IH0 _ _ H0 Hn) as [L S]. split; [exact L|]. eapply starts_with_app_l; eauto.
    + destruct (IH1 _ _ H1 Hn) as [L S]. split; [exact L|]. eapply starts_with_app_l; eauto.
Qed.

Lemma wf_NoDup t : forall p, wf p t -> NoDup (map nid (all_nodes t)).
Proof.
  induction t as [|w c0 IH0 c1 IH1]; intros p H; [destruct H|].
  rewrite all_nodes_node. destruct w as [b|].
  - destruct H as (-> & -> & (_ & _ & _ & N & _)). cbn. rewrite app_nil_r. exact N.
  - destruct H as (_ & H0 & H1). cbn [app]. rewrite map_app. apply NoDup_app_disj; eauto.
    intros i Hi0 Hi1. apply in_map_iff in Hi0 as (n0 & <- & Hn0). apply in_map_iff in Hi1 as (n1 & E & Hn1).
    destruct (wf_all_nodes _ _ _ H0 Hn0) as [_ S0]. destruct (wf_all_nodes _ _ _ H1 Hn1) as [_ S1].
    rewrite E in S1. apply (starts_with_snoc_neg p false) in S0. cbn [negb] in S0. congruence.
Qed.

Lemma all_nodes_tfind t : forall q n, In n (all_nodes (tfind t q)) -> In n (all_nodes t).
Proof.
  intros q; revert t; induction q as [|x q IH]; intros t n H; [exact H|].
  destruct t as [|w c0 c1]; [cbn in H; rewrite tfind_Empty in H; exact H|].
  cbn [tfind child] in H. apply IH in H. rewrite all_nodes_node, !in_app_iff. destruct x; auto.
Qed.

Lemma wf_tfind q : forall p t, wf p t -> tfind t q <> Empty -> wf (p ++ q) (tfind t q).
Proof.
  induction q as [|x q IH]; intros p t H NE; [rewrite app_nil_r; exact H|].
  destruct t as [|w c0 c1]; [destruct H|]. destruct w as [b|].
  - destruct H as (-> & -> & _). cbn in NE. destruct x; rewrite tfind_Empty in NE; contradiction.
  - destruct H as (_ & H0 & H1). cbn [tfind child] in *. rewrite <- snoc_app. destruct x; apply IH; auto.
Qed.

(* the nodes stored below path q are exactly the nodes of the table whose identifier starts with q *)
Lemma under_iff q : forall p t n,
  wf p t -> tfind t q <> Empty -> In n (all_nodes t) ->
  (In n (all_nodes (tfind t q)) <-> starts_with (p ++ q) (nid n) = true).
Proof.
  induction q as [|x q IH]; intros p t n H NE Hn.
  - rewrite app_nil_r. cbn [tfind]. split; [|auto]. intros _. eapply wf_all_nodes; eauto.
  - destruct t as [|w c0 c1]; [destruct H|]. destruct w as [b|].
    + destruct H as (-> & -> & _). cbn in NE. destruct x; rewrite tfind_Empty in NE; contradiction.
    + destruct H as (_ & H0 & H1). cbn [tfind child] in *. rewrite <- snoc_app.
      rewrite all_nodes_node in Hn. cbn [app] in Hn. apply in_app_iff in Hn.
      assert (Other : forall y c, wf (p ++ [negb y]) c -> In n (all_nodes c) ->
                                  starts_with ((p ++ [y]) ++ q) (nid n) = false).
      { intros y c Hc Hc'. destruct (wf_all_nodes _ _ _ Hc Hc') as [_ S].
        destruct (starts_with ((p ++ [y]) ++ q) (nid n)) eqn:S'; [|reflexivity].
        apply starts_with_app_l in S'. apply starts_with_snoc_neg in S'. congruence. }
      destruct x.
      * destruct Hn as [Hn|Hn]; [|apply IH; auto].
        rewrite (Other true c0 H0 Hn). split; [|discriminate]. intros Hu.
        assert (NE1 : tfind c1 q <> Empty) by exact NE.
        pose proof (wf_tfind q _ _ H1 NE1) as Wq. destruct (wf_all_nodes _ _ _ Wq Hu) as [_ S].
        rewrite (Other true c0 H0 Hn) in S. discriminate.
      * destruct Hn as [Hn|Hn]; [apply IH; auto|].
        rewrite (Other false c1 H1 Hn). split; [|discriminate]. intros Hu.
        assert (NE0 : tfind c0 q <> Empty) by exact NE.
        pose proof (wf_tfind q _ _ H0 NE0) as Wq. destruct (wf_all_nodes _ _ _ Wq Hu) as [_ S].
        rewrite (Other false c1 H1 Hn) in S. discriminate.
Qed.

End TableFacts.
