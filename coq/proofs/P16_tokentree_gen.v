(* C16 - the definitions generated from tree.py / token.py / signed_object.py (gen/G16_tokentree.v) compute
   exactly what the hand model M16_tokentree computes.  The proofs are written against the MEANING of the
   generated terms (they unfold and compute), not against their syntax: renaming locals or reordering
   independent statements in the Python source does not disturb them. *)
From Coq Require Import ZArith List Bool Arith Lia ZifyBool.
From IPV8V Require Import lib.PyErr lib.Bytes model.M16_tokentree model.M16_tokentree_gen
  gen.G16_tokentree spec.S16_closure proofs.P16_gather proofs.P16_props.
Import ListNotations.
Open Scope Z_scope.

(* ---------------------------------------------------------------- generic facts about the vocabulary *)
Lemma for_res_ext {A L} (xs : list A) (f g : A -> L -> res L) l :
  (forall x l', f x l' = g x l') -> for_res xs f l = for_res xs g l.
Proof.
  intros H. revert l. induction xs as [|x xs IH]; intros l; simpl; [reflexivity|].
  rewrite H. destruct (g x l); [apply IH|reflexivity].
Qed.

Lemma while_res_ext {L R} fuel (f g : L -> res (L + R)) l :
  (forall l', f l' = g l') -> while_res fuel f l = while_res fuel g l.
Proof.
  intros H. revert l. induction fuel as [|n IH]; intros l; simpl; [reflexivity|].
  rewrite H. destruct (g l) as [[l'|r]|]; auto.
Qed.

Lemma while_res_S {L R} f (step : L -> res (L + R)) l :
  while_res (S f) step l = match step l with
                           | Raise e => Raise e
                           | Ok (inr r) => Ok r
                           | Ok (inl l') => while_res f step l'
                           end.
Proof. reflexivity. Qed.

Lemma update_first_same (p : token -> bool) e x :
  find p e = Some x -> update_first p (fun _ => x) e = e.
Proof.
  induction e as [|y e IH]; simpl; [discriminate|]. destruct (p y) eqn:E; intros H.
  - inversion H; subst. reflexivity.
  - rewrite IH by assumption. reflexivity.
Qed.

Lemma update_first_fun (p : token -> bool) f e x :
  find p e = Some x -> update_first p f e = update_first p (fun _ => f x) e.
Proof.
  induction e as [|y e IH]; simpl; [discriminate|]. destruct (p y) eqn:E; intros H.
  - inversion H; subst. reflexivity.
  - rewrite IH by assumption. reflexivity.
Qed.

Lemma find_update_first (p : token -> bool) e x y :
  find p e = Some x -> p y = true -> find p (update_first p (fun _ => y) e) = Some y.
Proof.
  induction e as [|z e IH]; simpl; [discriminate|]. destruct (p z) eqn:E; intros H Hy.
  - simpl. rewrite Hy. reflexivity.
  - simpl. rewrite E. apply IH; assumption.
Qed.

Lemma gtb_of_nat a c : (Z.of_nat a >? Z.of_nat c) = (c <? a)%nat.
Proof. destruct (c <? a)%nat eqn:E; [apply Nat.ltb_lt in E|apply Nat.ltb_ge in E]; lia. Qed.

Section Refine.
Variable hash : bytes -> bytes.
Variable sigverify : bytes -> bytes -> bytes -> bool.
Variable sl : nat.
Variable pk : bytes.

Notation thash := (thash hash).
Notation tverify := (tverify sigverify pk).
Notation keys := (keys hash).
Notation has_key := (has_key hash).
Notation find_key := (find_key hash).
Notation readyb := (readyb hash pk).
Notation gather := (gather hash sigverify pk).
Notation gather_top := (gather_top hash sigverify pk).
Notation gather_all := (gather_all hash sigverify pk).
Notation kf := (gt_get_hash hash sigverify sl pk).
Notation geq := (gt___eq__ hash sigverify sl pk).
Notation g_gather_token := (g_gather_token hash sigverify sl pk).
Notation g_chain := (g__append_chain_reaction_token hash sigverify sl pk).

(* ---------------------------------------------------------------- token level: by computation *)
Lemma gt_get_plaintext_eq t : gt_get_plaintext hash sigverify sl pk t = plaintext t.
Proof. reflexivity. Qed.
Lemma gt_get_plaintext_signed_eq t : gt_get_plaintext_signed hash sigverify sl pk t = signed t.
Proof. reflexivity. Qed.
Lemma gt_get_hash_eq t : kf t = thash t.
Proof. reflexivity. Qed.
Lemma gt_verify_eq t : gt_verify hash sigverify sl pk t pk = tverify t.
Proof. reflexivity. Qed.
Lemma gt_eq_eq a b : geq a b = tok_eqb a b.
Proof. reflexivity. Qed.
Lemma gt_receive_content_eq t c : gt_receive_content hash sigverify sl pk t c = receive_content hash t c.
Proof.
  unfold gt_receive_content, receive_content, set_content.
  destruct (bytes_eqb (hash c) (t_chash t)); reflexivity.
Qed.

(* ---------------------------------------------------------------- dict / ordered dict vocabulary *)
Lemma d_has_eq h e : d_has kf h e = has_key h e.
Proof. reflexivity. Qed.
Lemma d_get_eq h e :
  d_get kf h e = match find_key h e with Some x => Ok x | None => Raise KeyError end.
Proof. reflexivity. Qed.
Lemma od_pop_eq t u : od_pop geq t u = u_pop u t.
Proof. reflexivity. Qed.

Lemma has_key_find h e : has_key h e = true -> exists x, find_key h e = Some x.
Proof. intros H. apply (has_key_In hash) in H. apply (find_key_In hash). assumption. Qed.
Lemma has_key_find_none h e : has_key h e = false -> find_key h e = None.
Proof.
  intros H. destruct (find_key h e) eqn:E; [|reflexivity].
  apply (find_key_Some hash) in E as [A B]. assert (has_key h e = true); [|congruence].
  apply (has_key_In hash). rewrite <- B. unfold M16_tokentree.keys. apply in_map. assumption.
Qed.

(* ---------------------------------------------------------------- the hand model never runs out of fuel:
   every nested call of the chain reaction happens after a waiting token was removed *)
Lemma keys_snoc e t : keys (e ++ [t]) = keys e ++ [thash t].
Proof. unfold M16_tokentree.keys. rewrite map_app. reflexivity. Qed.

Lemma update_first_keys p sh e x :
  find p e = Some x -> thash sh = thash x -> keys (update_first p (fun _ => sh) e) = keys e.
Proof.
  induction e as [|y e IH]; simpl; [discriminate|]. destruct (p y); intros F S.
  - inversion F; subst. simpl. rewrite S. reflexivity.
  - simpl. rewrite IH by assumption. reflexivity.
Qed.

Definition fuel_ok_post (tr : tree) (t : token) (o : res (tree * option token)) : Prop :=
  o <> Raise OutOfFuel /\
  forall tr' r, o = Ok (tr', r) ->
    incl (keys (elements tr)) (keys (elements tr')) /\
    (readyb (elements tr) t = true -> (length (unchained tr') <= length (unchained tr))%nat).

Lemma wake_fuel_ok f (g : tree -> token -> res (tree * option token)) :
  (forall tr t, (length (unchained tr) < f)%nat -> fuel_ok_post tr t (g tr t)) ->
  forall ws tr,
    (length (unchained tr) <= f)%nat ->
    (forall r, In r ws -> readyb (elements tr) r = true) ->
    wake_with g ws tr <> Raise OutOfFuel /\
    forall tr', wake_with g ws tr = Ok tr' ->
      incl (keys (elements tr)) (keys (elements tr')) /\
      (length (unchained tr') <= length (unchained tr))%nat.
Proof.
  intros Hg. induction ws as [|r ws IH]; intros tr L Hr.
  - simpl. split; [discriminate|]. intros tr' E. inversion E; subst. split; [apply incl_refl|lia].
  - simpl. unfold u_pop. destruct (existsb (tok_eqb r) (unchained tr)) eqn:Ex.
    2:{ split; [discriminate|]. intros tr' E. discriminate. }
    pose proof (remove_first_length _ _ Ex) as Lr.
    set (trr := mkTree (elements tr) (remove_first (tok_eqb r) (unchained tr)) (cap tr)).
    destruct (Hg trr r ltac:(simpl; lia)) as [N P].
    destruct (g trr r) as [[tr1 r1]|e] eqn:Eg.
    2:{ split; [intros H; inversion H; subst; apply N; reflexivity|]. intros tr' E. discriminate. }
    destruct (P tr1 r1 eq_refl) as [K1 L1]. simpl in K1, L1.
    specialize (L1 (Hr r (or_introl eq_refl))).
    assert (Hr' : forall r', In r' ws -> readyb (elements tr1) r' = true).
    { intros r' Hin. specialize (Hr r' (or_intror Hin)).
      apply (readyb_iff hash sigverify pk) in Hr. apply (readyb_iff hash sigverify pk).
      destruct Hr as [A|A]; [left; exact A|right]. unfold chained in *. apply K1. exact A. }
    destruct (IH tr1 ltac:(lia) Hr') as [N2 P2].
    split; [exact N2|]. intros tr' E. destruct (P2 tr' E) as [K2 L2].
    split; [eapply incl_tran; eauto|lia].
Qed.

Lemma gather_fuel_ok : forall f tr t, (length (unchained tr) < f)%nat -> fuel_ok_post tr t (gather f tr t).
Proof.
  induction f as [|f IH]; intros tr t L; [lia|].
  unfold fuel_ok_post. cbn [M16_tokentree.gather].
  destruct (negb (tverify t)).
  { split; [discriminate|]. intros tr' r E. inversion E; subst. split; [apply incl_refl|lia]. }
  destruct (readyb (elements tr) t) eqn:Er; cbn [negb].
  2:{ split; [discriminate|]. intros tr' r E. inversion E; subst. simpl. split; [apply incl_refl|discriminate]. }
  destruct (find_key (thash t) (elements tr)) as [shadow|] eqn:Ef.
  { split; [discriminate|]. intros tr' r E. inversion E; subst. simpl. split; [|lia].
    erewrite update_first_keys; [apply incl_refl|exact Ef|].
    apply (strip_eq_thash hash). apply (merge_content_strip hash). }
  set (tr1 := mkTree (elements tr ++ [t]) (unchained tr) (cap tr)).
  assert (Hws : forall r, In r (filter (fun l => bytes_eqb (t_prev l) (thash t)) (unchained tr)) ->
                          readyb (elements tr1) r = true).
  { intros r Hr. apply filter_In in Hr as [_ B]. apply bytes_eqb_eq in B.
    apply (readyb_iff hash sigverify pk). right. unfold chained. simpl. rewrite keys_snoc, B.
    apply in_or_app. right. left. reflexivity. }
  destruct (wake_fuel_ok f (gather f) (fun tr0 t0 L0 => IH tr0 t0 L0) _ tr1 ltac:(simpl; lia) Hws) as [N P].
  destruct (wake_with (gather f) _ tr1) as [tr2|e] eqn:Ew.
  - split; [discriminate|]. intros tr' r E. inversion E; subst. destruct (P tr' eq_refl) as [K L2].
    simpl in K, L2. split; [|intros _; exact L2].
    intros x Hx. apply K. rewrite keys_snoc. apply in_or_app. left. exact Hx.
  - split; [intros H; inversion H; subst; apply N; reflexivity|]. intros tr' r E. discriminate.
Qed.

Lemma gather_top_not_oof tr t : gather_top tr t <> Raise OutOfFuel.
Proof. unfold M16_tokentree.gather_top. apply gather_fuel_ok. lia. Qed.

(* ---------------------------------------------------------------- gather_token and the chain reaction *)
Lemma g_gather_refines : forall f tr t R,
  gather f tr t = R -> R <> Raise OutOfFuel ->
  forall F, (2 * f <= F)%nat -> g_gather_token F tr t = R.
Proof.
  induction f as [|f IH]; intros tr t R E N F LF.
  { simpl in E. congruence. }
  destruct F as [|[|F]]; try lia.
  cbn [M16_tokentree.gather] in E.
  change (g_gather_token (S (S F)) tr t)
    with (g_gather_token_body hash sigverify sl pk (g_gather_token (S F)) (g_chain (S F)) tr t).
  unfold g_gather_token_body. rewrite gt_verify_eq.
  destruct (tverify t) eqn:Ev; cbn [negb] in E; [|exact E].
  rewrite d_has_eq.
  change (negb (bytes_eqb (t_prev t) (genesis hash pk)) && negb (has_key (t_prev t) (elements tr)))
    with (negb (bytes_eqb (t_prev t) (genesis hash pk)) && negb (has_key (t_prev t) (elements tr))).
  rewrite <- negb_orb.
  change (bytes_eqb (t_prev t) (genesis hash pk) || has_key (t_prev t) (elements tr))
    with (readyb (elements tr) t).
  destruct (readyb (elements tr) t) eqn:Er; cbn [negb] in E |- *.
  2:{ (* waiting area *)
      subst R. cbn [unchained cap set_unchained elements]. unfold u_insert. rewrite gtb_of_nat.
      change (od_add geq t (unchained tr))
        with (if existsb (tok_eqb t) (unchained tr) then unchained tr else unchained tr ++ [t]).
      set (u1 := if existsb (tok_eqb t) (unchained tr) then unchained tr else unchained tr ++ [t]).
      destruct (cap tr <? length u1)%nat eqn:Ec; [|reflexivity].
      destruct u1 as [|x u1]; [simpl in Ec; apply Nat.ltb_lt in Ec; lia|]. reflexivity. }
  rewrite d_has_eq.
  change (kf t) with (thash t).
  destruct (has_key (thash t) (elements tr)) eqn:Eh.
  - (* already an element *)
    destruct (has_key_find _ _ Eh) as [shadow Ef]. rewrite Ef in E. subst R.
    cbn zeta. rewrite d_get_eq, Ef. cbn [bind].
    unfold merge_content.
    destruct (t_content shadow) as [sc|] eqn:Esc; destruct (t_content t) as [c|] eqn:Etc;
      cbn [is_none is_some andb];
      try (rewrite update_first_same by exact Ef; destruct tr; reflexivity).
    cbn [set_elements elements unchained cap].
    unfold d_upd. change kf with (M16_tokentree.thash hash).
    rewrite (update_first_fun _ (fun x_ => fst (gt_receive_content hash sigverify sl pk x_ c)) _ _ Ef).
    rewrite gt_receive_content_eq. rewrite d_get_eq. unfold M16_tokentree.find_key.
    erewrite find_update_first; [reflexivity|exact Ef|].
    apply bytes_eqb_eq. destruct (find_key_Some hash _ _ _ Ef) as [_ Hk]. rewrite <- Hk.
    apply (strip_eq_thash hash). apply (receive_content_strip hash).
  - (* appended, waiters woken *)
    rewrite (has_key_find_none _ _ Eh) in E.
    change (g_chain (S F) tr t)
      with (g__append_chain_reaction_token_body hash sigverify sl pk (g_gather_token F) (g_chain F) tr t).
    unfold g__append_chain_reaction_token_body, g__append. cbn [bind].
    unfold d_put. rewrite d_has_eq. change (kf t) with (thash t). rewrite Eh.
    cbn [set_elements elements unchained cap].
    set (tr1 := mkTree (elements tr ++ [t]) (unchained tr) (cap tr)) in *.
    set (ws := filter (fun l => bytes_eqb (t_prev l) (thash t)) (unchained tr)) in *.
    (* the loop over the waiters: the generated body (whatever it does with the logged result) is wbody *)
    set (wbody := fun (r : token) (l : tree) =>
           bind (od_pop geq r (unchained l))
             (fun u => bind (g_gather_token F (set_unchained l u) r) (fun '(st0, _) => Ok st0))).
    assert (W : forall ws tr0 R0, wake_with (gather f) ws tr0 = R0 -> R0 <> Raise OutOfFuel ->
              for_res ws wbody tr0 = R0).
    { clear - IH LF. induction ws as [|r ws IHw]; intros tr0 R0 E0 N0; simpl in E0 |- *; [exact E0|].
      unfold wbody at 1. rewrite od_pop_eq. destruct (u_pop (unchained tr0) r) as [u'|e]; cbn [bind]; [|exact E0].
      unfold set_unchained.
      destruct (gather f (mkTree (elements tr0) u' (cap tr0)) r) as [[tr2 r2]|e] eqn:Eg.
      + rewrite (IH _ _ _ Eg ltac:(discriminate) F ltac:(lia)). cbn [bind]. apply IHw; assumption.
      + assert (e <> OutOfFuel) by (intros H; apply N0; rewrite <- E0, H; reflexivity).
        rewrite (IH _ _ _ Eg ltac:(intros H0; inversion H0; contradiction) F ltac:(lia)). cbn [bind]. exact E0. }
    change (set_elements tr (elements tr ++ [t])) with tr1.
    assert (X : forall body, (forall x l', body x l' = wbody x l') -> for_res ws body tr1 = for_res ws wbody tr1)
      by (intros body Hb; apply for_res_ext; exact Hb).
    erewrite X.
    2:{ intros x l'. unfold wbody. destruct (od_pop geq x (unchained l')) as [u|]; cbn [bind]; [|reflexivity].
        destruct (g_gather_token F (set_unchained l' u) x) as [[st0 r0]|]; cbn [bind]; [|reflexivity].
        destruct r0; reflexivity. }
    destruct (wake_with (gather f) ws tr1) as [tr2|e] eqn:Ew.
    + subst R. rewrite (W ws tr1 _ Ew ltac:(discriminate)). reflexivity.
    + subst R. assert (e <> OutOfFuel) by (intros H; subst; apply N; reflexivity).
      rewrite (W ws tr1 _ Ew ltac:(intros H0; inversion H0; contradiction)). reflexivity.
Qed.

Lemma g_gather_top_eq_l : forall tr t, g_gather_token (call_fuel 2 tr) tr t = gather_top tr t.
Proof.
  intros tr t. apply g_gather_refines with (f := S (length (unchained tr))).
  - reflexivity.
  - apply gather_top_not_oof.
  - unfold call_fuel. lia.
Qed.

(* a sequence of arrivals through the generated gather_token *)
Fixpoint g_gather_all (tr : tree) (arr : list token) : res tree :=
  match arr with
  | [] => Ok tr
  | t :: tl => match g_gather_token (call_fuel 2 tr) tr t with
               | Raise e => Raise e
               | Ok (tr', _) => g_gather_all tr' tl
               end
  end.

Lemma g_gather_all_eq_l : forall arr tr, g_gather_all tr arr = gather_all tr arr.
Proof.
  induction arr as [|t arr IH]; intros tr; cbn [g_gather_all M16_tokentree.gather_all]; [reflexivity|].
  rewrite g_gather_top_eq_l. destruct (gather_top tr t) as [[tr' r]|]; [apply IH|reflexivity].
Qed.

(* ---------------------------------------------------------------- verify / get_root_path *)
Notation verify_loop := (verify_loop hash sigverify pk).
Notation path_loop := (path_loop hash sigverify pk).
Notation tree_verify := (tree_verify hash sigverify pk).
Notation get_root_path := (get_root_path hash sigverify pk).
Notation genesis := (genesis hash pk).

Lemma find_has h e x : find_key h e = Some x -> has_key h e = true.
Proof.
  intros H. apply (find_key_Some hash) in H as [A B]. apply (has_key_In hash). rewrite <- B.
  unfold M16_tokentree.keys. apply in_map. assumption.
Qed.
Lemma find_none_has h e : find_key h e = None -> has_key h e = false.
Proof.
  intros H. destruct (has_key h e) eqn:E; [|reflexivity].
  destruct (has_key_find _ _ E) as [x Hx]. congruence.
Qed.

(* one iteration of the loop of verify, in the hand model's terms *)
Definition vstep (e : list token) (md : Z) (l : token * Z) : res ((token * Z) + bool) :=
  let '(cur, steps) := l in
  if (md =? -1) || (md >? steps) then
    if negb (tverify cur) then Ok (inr false)
    else if bytes_eqb (t_prev cur) genesis then Ok (inr (steps <? md))
    else match find_key (t_prev cur) e with
         | None => Ok (inr false)
         | Some nxt => Ok (inl (nxt, steps + 1))
         end
  else Ok (inr (steps <? md)).

Lemma vloop_partial e md : forall fuel n cur steps b,
  0 <= steps -> md = steps + Z.of_nat n ->
  while_res fuel (vstep e md) (cur, steps) = Ok b -> b = verify_loop n e cur.
Proof.
  induction fuel as [|fuel IH]; intros n cur steps b Hs Hm H; [discriminate|].
  cbn [while_res] in H. unfold vstep in H at 1.
  destruct n as [|n].
  - assert (C : (md =? -1) || (md >? steps) = false) by lia. rewrite C in H.
    inversion H. cbn. lia.
  - assert (C : (md =? -1) || (md >? steps) = true) by lia. rewrite C in H.
    cbn [M16_tokentree.verify_loop].
    destruct (negb (tverify cur)); [inversion H; reflexivity|].
    destruct (bytes_eqb (t_prev cur) genesis); [inversion H; lia|].
    destruct (find_key (t_prev cur) e) as [nxt|]; [|inversion H; reflexivity].
    apply (IH n nxt (steps + 1) b); [lia|lia|exact H].
Qed.

Lemma vloop_total e md : forall n fuel cur steps,
  (n < fuel)%nat -> 0 <= steps -> md = steps + Z.of_nat n ->
  while_res fuel (vstep e md) (cur, steps) = Ok (verify_loop n e cur).
Proof.
  induction n as [|n IH]; intros fuel cur steps L Hs Hm; (destruct fuel as [|fuel]; [lia|]);
    cbn [while_res]; unfold vstep at 1.
  - assert (C : (md =? -1) || (md >? steps) = false) by lia. rewrite C. cbn. f_equal. lia.
  - assert (C : (md =? -1) || (md >? steps) = true) by lia. rewrite C.
    cbn [M16_tokentree.verify_loop].
    destruct (negb (tverify cur)); [reflexivity|].
    destruct (bytes_eqb (t_prev cur) genesis); [f_equal; lia|].
    destruct (find_key (t_prev cur) e) as [nxt|]; [|reflexivity].
    apply IH; lia.
Qed.

Lemma vloop_negative e md : md < 0 -> forall fuel cur steps b,
  0 <= steps -> while_res fuel (vstep e md) (cur, steps) = Ok b -> b = false.
Proof.
  intros Hn. induction fuel as [|fuel IH]; intros cur steps b Hs H; [discriminate|].
  cbn [while_res] in H. unfold vstep in H at 1.
  destruct ((md =? -1) || (md >? steps)).
  - destruct (negb (tverify cur)); [inversion H; reflexivity|].
    destruct (bytes_eqb (t_prev cur) genesis); [inversion H; lia|].
    destruct (find_key (t_prev cur) e) as [nxt|]; [|inversion H; reflexivity].
    apply (IH nxt (steps + 1) b); [lia|exact H].
  - inversion H. lia.
Qed.

Lemma g_verify_step tr t md fuel :
  g_verify hash sigverify sl pk fuel tr t md = while_res fuel (vstep (elements tr) md) (t, 0).
Proof.
  unfold g_verify. cbn zeta. apply while_res_ext. intros [cur steps]. unfold vstep.
  rewrite gt_verify_eq, d_has_eq, d_get_eq.
  destruct (md =? -1), (md >? steps); cbn [orb]; try reflexivity.
  all: (
  destruct (negb (tverify cur)); [reflexivity|];
  destruct (bytes_eqb (t_prev cur) genesis); [reflexivity|];
  destruct (find_key (t_prev cur) (elements tr)) eqn:Ef;
    [rewrite (find_has _ _ _ Ef)|rewrite (find_none_has _ _ Ef)]; reflexivity).
Qed.

Lemma g_verify_refines_l : forall tr t md,
  (0 <= md -> g_verify hash sigverify sl pk (S (Z.to_nat md)) tr t md = Ok (tree_verify tr t md)) /\
  (forall fuel b, g_verify hash sigverify sl pk fuel tr t md = Ok b -> b = tree_verify tr t md).
Proof.
  intros tr t md. unfold M16_tokentree.tree_verify. split.
  - intros H. rewrite g_verify_step. assert (E : (md <? 0) = false) by lia. rewrite E.
    apply vloop_total; lia.
  - intros fuel b H. rewrite g_verify_step in H. destruct (md <? 0) eqn:E.
    + eapply vloop_negative; [|reflexivity|exact H]. lia.
    + eapply vloop_partial; [| |exact H]; lia.
Qed.

(* get_root_path: the same loop, carrying the path *)
Definition pstep (e : list token) (md : Z) (l : token * list token * Z)
  : res ((token * list token * Z) + list token) :=
  let '(cur, path, steps) := l in
  if (md =? -1) || (md >? steps) then
    if negb (tverify cur) then Ok (inr [])
    else if bytes_eqb (t_prev cur) genesis then Ok (inr (if steps <? md then path else []))
    else match find_key (t_prev cur) e with
         | None => Ok (inr [])
         | Some nxt => Ok (inl (nxt, path ++ [nxt], steps + 1))
         end
  else Ok (inr (if steps <? md then path else [])).

Lemma ploop_partial e md : forall fuel n cur path steps r,
  0 <= steps -> md = steps + Z.of_nat n ->
  while_res fuel (pstep e md) (cur, path, steps) = Ok r -> r = path_loop n e cur path.
Proof.
  induction fuel as [|fuel IH]; intros n cur path steps r Hs Hm H; [discriminate|].
  cbn [while_res] in H. unfold pstep in H at 1.
  destruct n as [|n].
  - assert (C : (md =? -1) || (md >? steps) = false) by lia. rewrite C in H.
    assert (C2 : (steps <? md) = false) by lia. rewrite C2 in H. inversion H. reflexivity.
  - assert (C : (md =? -1) || (md >? steps) = true) by lia. rewrite C in H.
    cbn [M16_tokentree.path_loop].
    destruct (negb (tverify cur)); [inversion H; reflexivity|].
    destruct (bytes_eqb (t_prev cur) genesis).
    { assert (C2 : (steps <? md) = true) by lia. rewrite C2 in H. inversion H. reflexivity. }
    destruct (find_key (t_prev cur) e) as [nxt|]; [|inversion H; reflexivity].
    apply (IH n nxt (path ++ [nxt]) (steps + 1) r); [lia|lia|exact H].
Qed.

Lemma ploop_total e md : forall n fuel cur path steps,
  (n < fuel)%nat -> 0 <= steps -> md = steps + Z.of_nat n ->
  while_res fuel (pstep e md) (cur, path, steps) = Ok (path_loop n e cur path).
Proof.
  induction n as [|n IH]; intros fuel cur path steps L Hs Hm; (destruct fuel as [|fuel]; [lia|]);
    cbn [while_res]; unfold pstep at 1.
  - assert (C : (md =? -1) || (md >? steps) = false) by lia. rewrite C.
    assert (C2 : (steps <? md) = false) by lia. rewrite C2. reflexivity.
  - assert (C : (md =? -1) || (md >? steps) = true) by lia. rewrite C.
    cbn [M16_tokentree.path_loop].
    destruct (negb (tverify cur)); [reflexivity|].
    destruct (bytes_eqb (t_prev cur) genesis).
    { assert (C2 : (steps <? md) = true) by lia. rewrite C2. reflexivity. }
    destruct (find_key (t_prev cur) e) as [nxt|]; [|reflexivity].
    apply IH; lia.
Qed.

Lemma ploop_negative e md : md < 0 -> forall fuel cur path steps r,
  0 <= steps -> while_res fuel (pstep e md) (cur, path, steps) = Ok r -> r = [].
Proof.
  intros Hn. induction fuel as [|fuel IH]; intros cur path steps r Hs H; [discriminate|].
  cbn [while_res] in H. unfold pstep in H at 1.
  assert (C2 : (steps <? md) = false) by lia. rewrite C2 in H.
  destruct ((md =? -1) || (md >? steps)).
  - destruct (negb (tverify cur)); [inversion H; reflexivity|].
    destruct (bytes_eqb (t_prev cur) genesis); [inversion H; reflexivity|].
    destruct (find_key (t_prev cur) e) as [nxt|]; [|inversion H; reflexivity].
    apply (IH nxt (path ++ [nxt]) (steps + 1) r); [lia|exact H].
  - inversion H. reflexivity.
Qed.

Lemma g_get_root_path_step tr t md fuel :
  g_get_root_path hash sigverify sl pk fuel tr t md
  = while_res fuel (pstep (elements tr) md) (t, [t], 0).
Proof.
  unfold g_get_root_path. cbn zeta. apply while_res_ext. intros [[cur path] steps]. unfold pstep.
  rewrite gt_verify_eq, d_has_eq, d_get_eq.
  destruct (md =? -1), (md >? steps); cbn [orb]; try (destruct (steps <? md); reflexivity).
  all: (destruct (negb (tverify cur)); [reflexivity|];
        destruct (bytes_eqb (t_prev cur) genesis); [destruct (steps <? md); reflexivity|];
        destruct (find_key (t_prev cur) (elements tr)) eqn:Ef;
          [rewrite (find_has _ _ _ Ef)|rewrite (find_none_has _ _ Ef)]; reflexivity).
Qed.

Lemma g_get_root_path_refines_l : forall tr t md,
  (0 <= md -> g_get_root_path hash sigverify sl pk (S (Z.to_nat md)) tr t md = Ok (get_root_path tr t md)) /\
  (forall fuel r, g_get_root_path hash sigverify sl pk fuel tr t md = Ok r -> r = get_root_path tr t md).
Proof.
  intros tr t md. unfold M16_tokentree.get_root_path. split.
  - intros H. rewrite g_get_root_path_step. assert (E : (md <? 0) = false) by lia. rewrite E.
    apply ploop_total; lia.
  - intros fuel r H. rewrite g_get_root_path_step in H. destruct (md <? 0) eqn:E.
    + eapply ploop_negative; [|reflexivity|exact H]. lia.
    + eapply ploop_partial; [| |exact H]; lia.
Qed.

(* ---------------------------------------------------------------- get_missing, serialize_public *)
Lemma g_get_missing_refines_l : forall tr, g_get_missing hash sigverify sl pk tr = Ok (get_missing tr).
Proof. reflexivity. Qed.

Lemma g_serialize_full_refines_l : forall fuel tr,
  g_serialize_public hash sigverify sl pk fuel tr None = Ok (serialize_public tr).
Proof. reflexivity. Qed.

Definition sstep (e : list token) (l : bytes * bytes) : res ((bytes * bytes) + bytes) :=
  let '(next, out) := l in
  match find_key next e with
  | Some tk => Ok (inl (t_prev tk, out ++ signed tk))
  | None => Ok (inr out)
  end.

Lemma sloop e : forall f next rest, ser_walk hash f e next = Ok rest ->
  forall acc, while_res (S f) (sstep e) (next, acc) = Ok (acc ++ rest).
Proof.
  induction f as [|f IH]; intros next rest H acc; cbn [M16_tokentree.ser_walk] in H;
    rewrite while_res_S; unfold sstep at 1.
  - destruct (find_key next e); [discriminate|]. inversion H. rewrite app_nil_r. reflexivity.
  - destruct (find_key next e) as [tk|]; [|inversion H; rewrite app_nil_r; reflexivity].
    destruct (ser_walk hash f e (t_prev tk)) as [rest'|] eqn:Er; [|discriminate]. inversion H; subst.
    rewrite (IH _ _ Er). rewrite <- app_assoc. reflexivity.
Qed.

Lemma g_serialize_up_to_refines_l : forall tr t b,
  serialize_up_to hash tr t = Ok b ->
  g_serialize_public hash sigverify sl pk (S (length (elements tr))) tr (Some t) = Ok b.
Proof.
  intros tr t b H. unfold M16_tokentree.serialize_up_to in H.
  destruct (ser_walk hash (length (elements tr)) (elements tr) (t_prev t)) as [rest|] eqn:Er; [|discriminate].
  inversion H; subst. unfold g_serialize_public. cbn zeta.
  erewrite while_res_ext; [apply (sloop _ _ _ _ Er)|].
  intros [next out]. unfold sstep. rewrite d_has_eq, d_get_eq.
  destruct (find_key next (elements tr)) eqn:Ef.
  - rewrite (find_has _ _ _ Ef). reflexivity.
  - rewrite (find_none_has _ _ Ef). reflexivity.
Qed.

(* ---------------------------------------------------------------- Token.unserialize, unserialize_public *)
Notation token_unserialize := (token_unserialize 32 sl).
Notation unser_loop := (unser_loop hash sigverify 32 sl pk).
Notation unserialize_public := (unserialize_public hash sigverify 32 sl pk).

Lemma skipn_add {A} a b (l : list A) : skipn a (skipn b l) = skipn (b + a) l.
Proof.
  revert l. induction b as [|b IH]; intros l; [reflexivity|].
  destruct l; simpl; [destruct a; reflexivity|apply IH].
Qed.

Lemma gt_unserialize_eq s i : 0 <= i ->
  gt_unserialize hash sigverify sl pk s pk i = token_unserialize (skipn (Z.to_nat i) s).
Proof.
  intros Hi. unfold gt_unserialize, unpack_3s, M16_tokentree.token_unserialize, new_token, chunk. cbn zeta.
  assert (C : ((i <? 0) || (32 <? 0) || (32 <? 0) || (Z.of_nat sl <? 0) || (blen s - i <? 32 + 32 + Z.of_nat sl))
              = (length (skipn (Z.to_nat i) s) <? 32 + 32 + sl)%nat).
  { rewrite skipn_length. unfold blen.
    destruct (length s - Z.to_nat i <? 32 + 32 + sl)%nat eqn:E;
      [apply Nat.ltb_lt in E|apply Nat.ltb_ge in E]; lia. }
  rewrite C. destruct (length (skipn (Z.to_nat i) s) <? 32 + 32 + sl)%nat; [reflexivity|].
  change (Z.to_nat 32) with 32%nat. change (Z.to_nat (32 + 32)) with (32 + 32)%nat.
  rewrite Nat2Z.id. reflexivity.
Qed.

(* one iteration of the loop of unserialize_public in the hand model's terms *)
Definition ubody (s : bytes) (i : Z) (l : tree * bool) : res (tree * bool) :=
  let '(st, correct) := l in
  match token_unserialize (skipn (Z.to_nat i) s) with
  | Raise e => Raise e
  | Ok t => match gather_top st t with
            | Raise e => Raise e
            | Ok (st', r) => Ok (st', correct && is_some r)
            end
  end.

Lemma for_res_ext_in {A L} (xs : list A) (f g : A -> L -> res L) l :
  (forall x, In x xs -> forall l', f x l' = g x l') -> for_res xs f l = for_res xs g l.
Proof.
  revert l. induction xs as [|x xs IH]; intros l H; simpl; [reflexivity|].
  rewrite (H x (or_introl eq_refl)). destruct (g x l); [|reflexivity].
  apply IH. intros y Hy. apply H. right. exact Hy.
Qed.

Lemma zrange_up_ge n : forall a b st x, 0 < st -> In x (zrange_up n a b st) -> a <= x.
Proof.
  induction n as [|n IH]; intros a b st x Hs H; simpl in H; [contradiction|].
  destruct (a <? b); [|contradiction]. destruct H as [H|H]; [lia|].
  apply IH in H; lia.
Qed.

(* the generated result and the hand model's result (which keeps the state reached before an exception) *)
Definition urel (g : res (tree * bool)) (h : tree * res bool) : Prop :=
  match g with
  | Ok (tr', b) => h = (tr', Ok b)
  | Raise e => snd h = Raise e
  end.

Lemma uloop s ch : ch = 64 + Z.of_nat sl ->
  forall n fuel i tr c,
    0 <= i <= blen s -> (Z.to_nat (blen s - i) <= n)%nat -> (Z.to_nat (blen s - i) <= fuel)%nat ->
    urel (for_res (zrange_up n i (blen s) ch) (ubody s) (tr, c))
         (unser_loop fuel tr (skipn (Z.to_nat i) s) c).
Proof.
  intros Hch. induction n as [|n IH]; intros fuel i tr c Hi Ln Lf.
  - assert (i = blen s) by lia. subst i. unfold blen. rewrite Nat2Z.id, skipn_all.
    simpl. destruct fuel; reflexivity.
  - cbn [zrange_up]. destruct (i <? blen s) eqn:Ei.
    2:{ assert (i = blen s) by lia. subst i. unfold blen. rewrite Nat2Z.id, skipn_all.
        simpl. destruct fuel; reflexivity. }
    assert (Hl : (0 < length (skipn (Z.to_nat i) s))%nat) by (rewrite skipn_length; unfold blen in *; lia).
    destruct (skipn (Z.to_nat i) s) as [|b0 sfx] eqn:Es; [simpl in Hl; lia|].
    destruct fuel as [|fuel]; [lia|].
    cbn [for_res M16_tokentree.unser_loop]. unfold ubody at 1. rewrite Es.
    destruct (token_unserialize (b0 :: sfx)) as [t|e] eqn:Et; [|reflexivity].
    destruct (gather_top tr t) as [[tr' r]|e]; [|reflexivity].
    (* a whole chunk was there: the next offset is still inside *)
    assert (Hc : (chunk 32 sl <= length (b0 :: sfx))%nat).
    { unfold M16_tokentree.token_unserialize in Et.
      destruct (length (b0 :: sfx) <? chunk 32 sl)%nat eqn:E; [discriminate|]. apply Nat.ltb_ge in E. exact E. }
    assert (Hlen : length (b0 :: sfx) = (length s - Z.to_nat i)%nat) by (rewrite <- Es; apply skipn_length).
    unfold chunk in Hc.
    assert (Hi' : 0 <= i + ch <= blen s) by (unfold blen in *; lia).
    replace (skipn (chunk 32 sl) (b0 :: sfx)) with (skipn (Z.to_nat (i + ch)) s).
    2:{ rewrite <- Es, skipn_add. f_equal. unfold chunk. lia. }
    apply IH; [exact Hi'| |]; unfold blen in *; lia.
Qed.

Lemma g_unserialize_refines_l : forall tr s,
  urel (g_unserialize_public hash sigverify sl pk tr s) (unserialize_public tr s).
Proof.
  intros tr s. unfold g_unserialize_public, M16_tokentree.unserialize_public. cbn zeta.
  assert (Hc : (chunk 32 sl =? 0)%nat = false) by (apply Nat.eqb_neq; unfold chunk; lia).
  rewrite Hc. unfold zrange.
  match goal with |- context [zrange_up _ 0 _ ?x] => set (ch := x) end.
  assert (Hch : ch = 64 + Z.of_nat sl) by (unfold ch; lia).
  assert (E1 : (ch =? 0) = false) by lia. rewrite E1.
  assert (E2 : (0 <? ch) = true) by lia. rewrite E2. cbn [bind].
  erewrite for_res_ext_in with (g := ubody s).
  2:{ intros i Hi [st c]. unfold ubody. apply zrange_up_ge in Hi; [|lia].
      rewrite gt_unserialize_eq by exact Hi.
      destruct (token_unserialize (skipn (Z.to_nat i) s)); cbn [bind]; [|reflexivity].
      rewrite g_gather_top_eq_l. destruct (gather_top st a) as [[st' r]|]; reflexivity. }
  pose proof (uloop s ch Hch (Z.to_nat (blen s - 0)) (length s) 0 tr true) as U.
  change (Z.to_nat 0) with 0%nat in U. cbn [skipn] in U.
  specialize (U ltac:(unfold blen; lia) ltac:(lia) ltac:(unfold blen; lia)).
  unfold urel in *.
  destruct (for_res (zrange_up (Z.to_nat (blen s - 0)) 0 (blen s) ch) (ubody s) (tr, true))
    as [[tr' b]|e]; cbn [bind]; exact U.
Qed.

End Refine.

(* ---------------------------------------------------------------- the property theorems over the generated code *)
Section Transfer.
Variable hash : bytes -> bytes.
Variable sigverify : bytes -> bytes -> bytes -> bool.
Variable sl : nat.
Variable pk : bytes.

Notation g_gather_all := (g_gather_all hash sigverify sl pk).

Lemma gen_elements_sound_l : forall c arr, exists tr,
  g_gather_all (empty_tree c) arr = Ok tr /\
  Forall (fun e => tverify sigverify pk e = true /\ exists p, In p arr /\ same_fields p e) (elements tr) /\
  chain_ok hash pk (elements tr) /\ NoDup (keys hash (elements tr)).
Proof.
  intros c arr. destruct (gather_all_total_l hash sigverify pk c arr) as [tr E].
  exists tr. rewrite g_gather_all_eq_l. split; [exact E|].
  destruct (elements_sound_l hash sigverify pk c arr tr E) as [A [B [C _]]]. auto.
Qed.

Lemma gen_elements_complete_l : forall c arr,
  Forall (prev_wire 32) arr -> (distinct_offers arr <= c)%nat ->
  exists tr, g_gather_all (empty_tree c) arr = Ok tr /\
             forall h, In h (keys hash (elements tr)) <-> closure_keys hash sigverify pk arr h.
Proof.
  intros c arr W D. destruct (elements_complete_l hash sigverify 32 pk c arr W D) as [tr [E K]].
  exists tr. rewrite g_gather_all_eq_l. auto.
Qed.

Lemma gen_order_independent_l : forall c arr1 arr2,
  (forall t, In t arr1 <-> In t arr2) -> Forall (prev_wire 32) arr1 -> (distinct_offers arr1 <= c)%nat ->
  exists tr1 tr2, g_gather_all (empty_tree c) arr1 = Ok tr1 /\ g_gather_all (empty_tree c) arr2 = Ok tr2 /\
    forall h, In h (keys hash (elements tr1)) <-> In h (keys hash (elements tr2)).
Proof.
  intros c arr1 arr2 S W D.
  destruct (order_independent_l hash sigverify 32 pk c arr1 arr2 S W D) as [tr1 [tr2 [E1 [E2 K]]]].
  exists tr1, tr2. rewrite !g_gather_all_eq_l. auto.
Qed.

Lemma gen_verify_sound_l : forall fuel tr t md,
  g_verify hash sigverify sl pk fuel tr t md = Ok true -> rooted hash sigverify pk (elements tr) t.
Proof.
  intros fuel tr t md H. destruct (g_verify_refines_l hash sigverify sl pk tr t md) as [_ P].
  apply (verify_implies_rooted_l hash sigverify pk tr t md). symmetry. exact (P fuel true H).
Qed.

Lemma gen_public_roundtrip_l : forall c arr tr c2 fuel,
  Forall (wire_form 32 sl) arr -> g_gather_all (empty_tree c) arr = Ok tr ->
  exists dump, g_serialize_public hash sigverify sl pk fuel tr None = Ok dump /\
    g_unserialize_public hash sigverify sl pk (empty_tree c2) dump
    = Ok (mkTree (map strip (elements tr)) [] c2, true).
Proof.
  intros c arr tr c2 fuel W E. rewrite g_gather_all_eq_l in E.
  exists (serialize_public tr). split; [reflexivity|].
  pose proof (public_roundtrip_l hash sigverify 32 sl pk c arr tr c2 ltac:(lia) W E) as R.
  pose proof (g_unserialize_refines_l hash sigverify sl pk (empty_tree c2) (serialize_public tr)) as U.
  unfold urel in U. rewrite R in U.
  destruct (g_unserialize_public hash sigverify sl pk (empty_tree c2) (serialize_public tr)) as [[tr' b]|e].
  - inversion U; subst. reflexivity.
  - simpl in U. discriminate.
Qed.

End Transfer.

(* everything at once: the generated definitions refine the hand model operation by operation *)
Lemma gen_refines_hand_model_l :
  forall (hash : bytes -> bytes) (sigverify : bytes -> bytes -> bytes -> bool) (sl : nat) (pk : bytes),
  (forall t, gt_get_hash hash sigverify sl pk t = thash hash t) /\
  (forall t, gt_verify hash sigverify sl pk t pk = tverify sigverify pk t) /\
  (forall a b, gt___eq__ hash sigverify sl pk a b = tok_eqb a b) /\
  (forall t c, gt_receive_content hash sigverify sl pk t c = receive_content hash t c) /\
  (forall s i, 0 <= i -> gt_unserialize hash sigverify sl pk s pk i
                         = token_unserialize 32 sl (skipn (Z.to_nat i) s)) /\
  (forall tr t, g_gather_token hash sigverify sl pk (call_fuel 2 tr) tr t = gather_top hash sigverify pk tr t) /\
  (forall arr tr, g_gather_all hash sigverify sl pk tr arr = gather_all hash sigverify pk tr arr) /\
  (forall tr, g_get_missing hash sigverify sl pk tr = Ok (get_missing tr)) /\
  (forall tr t md,
     (0 <= md -> g_verify hash sigverify sl pk (S (Z.to_nat md)) tr t md = Ok (tree_verify hash sigverify pk tr t md)) /\
     (forall fuel b, g_verify hash sigverify sl pk fuel tr t md = Ok b -> b = tree_verify hash sigverify pk tr t md)) /\
  (forall tr t md,
     (0 <= md -> g_get_root_path hash sigverify sl pk (S (Z.to_nat md)) tr t md
                 = Ok (get_root_path hash sigverify pk tr t md)) /\
     (forall fuel r, g_get_root_path hash sigverify sl pk fuel tr t md = Ok r
                     -> r = get_root_path hash sigverify pk tr t md)) /\
  (forall fuel tr, g_serialize_public hash sigverify sl pk fuel tr None = Ok (serialize_public tr)) /\
  (forall tr t b, serialize_up_to hash tr t = Ok b ->
                  g_serialize_public hash sigverify sl pk (S (length (elements tr))) tr (Some t) = Ok b) /\
  (forall tr s, urel (g_unserialize_public hash sigverify sl pk tr s)
                     (unserialize_public hash sigverify 32 sl pk tr s)).
Proof.
  intros hash sigverify sl pk.
  split; [apply gt_get_hash_eq|]. split; [apply gt_verify_eq|]. split; [apply gt_eq_eq|].
  split; [apply gt_receive_content_eq|]. split; [apply gt_unserialize_eq|].
  split; [apply g_gather_top_eq_l|]. split; [apply g_gather_all_eq_l|].
  split; [apply g_get_missing_refines_l|]. split; [apply g_verify_refines_l|].
  split; [apply g_get_root_path_refines_l|]. split; [apply g_serialize_full_refines_l|].
  split; [apply g_serialize_up_to_refines_l|apply g_unserialize_refines_l].
Qed.
