(* C09 - what each kind of event can and cannot touch: activity stamps move only when a cell is
   processed; an open exit socket leaves the table only closed; the relay_early counter of a live route
   never goes down. *)
From Coq Require Import ZArith List Bool Lia ZifyBool.
From IPV8V Require Import gen.G09_rules model.M09_reclaim spec.S09_reclaim proofs.P09_alist.
Import ListNotations.
Open Scope Z_scope.

Section Frames.
Variable st : settings.

Ltac crush :=
  repeat match goal with
         | |- context [match ?x with _ => _ end] => destruct x
         | |- context [let '(_, _) := ?x in _] => destruct x
         end; simpl; try reflexivity.

(* ================================================================ activity stamps *)
(* every entry of s' was already in s with the same creation and activity stamps *)
Definition no_activity (s s' : node) : Prop :=
  (forall cid r', aget cid (relays s') = Some r' ->
     exists r, aget cid (relays s) = Some r /\ la (r_ro r') = la (r_ro r) /\ creation (r_ro r') = creation (r_ro r))
  /\ (forall cid e', aget cid (exits s') = Some e' ->
     exists e, aget cid (exits s) = Some e /\ la (e_ro e') = la (e_ro e) /\ creation (e_ro e') = creation (e_ro e))
  /\ (forall cid c', aget cid (circuits s') = Some c' ->
     exists c, aget cid (circuits s) = Some c /\ la (c_ro c') = la (c_ro c) /\ creation (c_ro c') = creation (c_ro c)).

Lemma no_activity_refl s : no_activity s s.
Proof. repeat split; intros cid x H; exists x; auto. Qed.

Lemma no_activity_trans a b c : no_activity a b -> no_activity b c -> no_activity a c.
Proof.
  intros (R1 & E1 & C1) (R2 & E2 & C2). repeat split; intros cid x H.
  - destruct (R2 _ _ H) as (y & Hy & L & K). destruct (R1 _ _ Hy) as (z & Hz & L' & K'). exists z. repeat split; congruence.
  - destruct (E2 _ _ H) as (y & Hy & L & K). destruct (E1 _ _ Hy) as (z & Hz & L' & K'). exists z. repeat split; congruence.
  - destruct (C2 _ _ H) as (y & Hy & L & K). destruct (C1 _ _ Hy) as (z & Hz & L' & K'). exists z. repeat split; congruence.
Qed.

Lemma no_activity_tables s s' :
  relays s' = relays s -> exits s' = exits s -> circuits s' = circuits s -> no_activity s s'.
Proof. intros R E C. unfold no_activity. rewrite R, E, C. apply no_activity_refl. Qed.

Lemma send_cell_no_activity s dst cid mid ls : no_activity s (fst (fst (send_cell st s dst cid mid ls))).
Proof.
  unfold send_cell. destruct (take ls) as [n ls'].
  destruct (aget cid (circuits s)) as [c|] eqn:Ec; simpl.
  - repeat split; simpl; intros k x H; try (exists x; auto; fail).
    rewrite aget_aset in H. destruct (k =? cid) eqn:E; [|exists x; auto].
    apply Z.eqb_eq in E; subst k. inversion H; subst x. exists c. auto.
  - destruct (aget cid (relays s)) as [r|] eqn:Er; simpl; [|apply no_activity_refl].
    repeat split; simpl; intros k x H; try (exists x; auto; fail).
    rewrite aget_aset in H. destruct (k =? cid) eqn:E; [|exists x; auto].
    apply Z.eqb_eq in E; subst k. inversion H; subst x. exists r. auto.
Qed.

Lemma ping_all_no_activity cs : forall s ls, no_activity s (fst (ping_all st s cs ls)).
Proof.
  induction cs as [|[cid c0] tl IH]; intros s ls; simpl; [apply no_activity_refl|].
  destruct (aget cid (circuits s)) as [c|]; [|apply IH].
  destruct (negb (c_closing c) && (0 <? c_hops c)); [|apply IH].
  pose proof (send_cell_no_activity s (c_first c) cid MSG_PING ls) as X1.
  destruct (send_cell st s (c_first c) cid MSG_PING ls) as [[s1 o1] ls1]. simpl in X1.
  pose proof (IH s1 ls1) as X2. destruct (ping_all st s1 tl ls1) as [s2 o2]. simpl in *.
  eapply no_activity_trans; eauto.
Qed.

Lemma finish_remove_no_activity s k cid : no_activity s (fst (finish_remove s k cid)).
Proof.
  destruct k; simpl.
  - repeat split; simpl; intros c x H; try (exists x; auto; fail).
    rewrite aget_adel in H. destruct (c =? cid); [discriminate | exists x; auto].
  - repeat split; simpl; intros c x H; try (exists x; auto; fail).
    rewrite aget_adel in H. destruct (c =? cid); [discriminate | exists x; auto].
  - destruct (aget cid (exits s)); simpl; [|apply no_activity_refl].
    repeat split; simpl; intros c x H; try (exists x; auto; fail).
    rewrite aget_adel in H. destruct (c =? cid); [discriminate | exists x; auto].
Qed.

Lemma send_cell_exits' s dst cid mid ls : exits (fst (fst (send_cell st s dst cid mid ls))) = exits s.
Proof. unfold send_cell. crush. Qed.

(* activity_only_by_traffic: apart from the processing of a cell (ERecvCell, and the handler bodies / tasks
   it defers, ERun) and the creation of an own circuit, no event creates an entry or advances an activity
   stamp - not the timers, not a destroy, not the node's own pings or data, not datagrams from outside *)
Definition is_traffic (e : ev) : bool :=
  match e with
  | ERecvCell _ _ _ _ _ _ _ | ERun _ _ _ _ _ _ _ | ECreateCircuit _ _ _ _ => true
  | _ => false
  end.

Lemma quiet_events_no_activity_l s e :
  is_traffic e = false -> no_activity s (fst (step_at st s e)).
Proof.
  destruct e as [src cid plain early len cr ls|src cid reason| |ls|i eo tg tc nb p ls|i|cid|cid|number
                 |cid goal p ls|k cid dd rn|dst cid ls|cid len allowed ls]; simpl; try discriminate; intros _.
  - apply no_activity_tables; unfold recv_destroy; crush.
  - apply no_activity_tables; reflexivity.
  - apply ping_all_no_activity.
  - destruct (nth_error (sleeping s) i) as [[[due k] cid]|]; [|apply no_activity_refl].
    pose proof (finish_remove_no_activity (set_sleeping (remove_nth i (sleeping s)) s) k cid) as X. exact X.
  - destruct (aget cid (retries s)) as [rt|]; [|apply no_activity_refl].
    apply no_activity_tables; crush.
  - apply no_activity_tables; reflexivity.
  - apply no_activity_tables; reflexivity.
  - apply no_activity_tables; reflexivity.
  - pose proof (send_cell_no_activity s dst cid MSG_DATA ls) as X.
    destruct (send_cell st s dst cid MSG_DATA ls) as [[s1 o] l]. exact X.
  - destruct (aget cid (exits s)) as [e|] eqn:Ee; [|apply no_activity_refl].
    set (s1 := set_exits (aset cid (e_with_ro (ro_down len) e) (exits s)) s).
    assert (X1 : no_activity s s1).
    { repeat split; simpl; intros k x H; try (exists x; auto; fail).
      rewrite aget_aset in H. destruct (k =? cid) eqn:E; [|exists x; auto].
      apply Z.eqb_eq in E; subst k. inversion H; subst x. exists e. auto. }
    destruct allowed; [|exact X1].
    pose proof (send_cell_no_activity s1 (e_peer e) cid MSG_DATA ls) as X.
    destruct (send_cell st s1 (e_peer e) cid MSG_DATA ls) as [[s2 o] l]. simpl in *.
    eapply no_activity_trans; eauto.
Qed.

(* datagrams that reach an exit socket from the outside world are counted (bytes_down) and tunnelled back,
   but they are not activity: every entry - the exit socket itself included - keeps its activity stamp *)
Lemma outside_no_activity_l s cid len allowed ls : no_activity s (fst (step_at st s (EOutside cid len allowed ls))).
Proof. apply quiet_events_no_activity_l. reflexivity. Qed.

Lemma outside_exit_stamp_l s cid len allowed ls e' :
  aget cid (exits (fst (step_at st s (EOutside cid len allowed ls)))) = Some e' ->
  exists e, aget cid (exits s) = Some e /\ la (e_ro e') = la (e_ro e) /\ down (e_ro e') = down (e_ro e) + len.
Proof.
  cbn [step_at]. destruct (aget cid (exits s)) as [e|] eqn:Ee; [|simpl; congruence].
  intro H. exists e. split; [reflexivity|].
  assert (G : aget cid (exits (set_exits (aset cid (e_with_ro (ro_down len) e) (exits s)) s)) = Some e' ->
              la (e_ro e') = la (e_ro e) /\ down (e_ro e') = down (e_ro e) + len).
  { simpl. rewrite aget_aset, Z.eqb_refl. intro X; inversion X; subst e'. simpl. auto. }
  destruct allowed; [|apply G; exact H].
  apply G.
  match type of H with context [send_cell st ?S1 ?a ?b ?c ?d] =>
    pose proof (send_cell_exits' S1 a b c d) as X; destruct (send_cell st S1 a b c d) as [[s2 o] l] end.
  simpl in *. rewrite X in H. exact H.
Qed.

(* ================================================================ the exit's outside sockets *)
Definition opened (e : exitsock) : bool := e_enabled e && e_open e.

(* every exit socket with open transports is still in the table with open transports afterwards,
   or its transports were closed by this event *)
Definition sockets_kept (s s' : node) (o : list out) : Prop :=
  forall cid x, aget cid (exits s) = Some x -> opened x = true ->
    (exists x', aget cid (exits s') = Some x' /\ opened x' = true) \/ In (OClose cid) o.

Lemma sockets_kept_same s s' o : exits s' = exits s -> sockets_kept s s' o.
Proof. intros E cid x H Ho. left. exists x. rewrite E. auto. Qed.

Lemma sockets_kept_trans a b c o1 o2 :
  sockets_kept a b o1 -> sockets_kept b c o2 -> sockets_kept a c (o1 ++ o2).
Proof.
  intros K1 K2 cid x H Ho. destruct (K1 _ _ H Ho) as [(y & Hy & Hoy)|Hin]; [|right; apply in_or_app; left; exact Hin].
  destruct (K2 _ _ Hy Hoy) as [G|Hin]; [left; exact G | right; apply in_or_app; right; exact Hin].
Qed.

Lemma sockets_kept_more s s' o o' : sockets_kept s s' o -> (forall x, In x o -> In x o') -> sockets_kept s s' o'.
Proof. intros K Hi cid x H Ho. destruct (K _ _ H Ho) as [G|G]; [left; exact G | right; apply Hi; exact G]. Qed.

(* replacing the entry of one id by one that is at least as open *)
Lemma sockets_kept_aset s cid e1 o :
  (forall e, aget cid (exits s) = Some e -> opened e = true -> opened e1 = true) ->
  sockets_kept s (set_exits (aset cid e1 (exits s)) s) o.
Proof.
  intros Hk c x H Ho. left. simpl. rewrite aget_aset. destruct (c =? cid) eqn:E.
  - apply Z.eqb_eq in E; subst c. exists e1. split; [reflexivity | eapply Hk; eauto].
  - exists x. auto.
Qed.

Lemma send_cell_exits s dst cid mid ls : exits (fst (fst (send_cell st s dst cid mid ls))) = exits s.
Proof. unfold send_cell. crush. Qed.

Lemma start_hop_exits s cid c tries ini p ls : exits (fst (fst (start_hop st s cid c tries ini p ls))) = exits s.
Proof. unfold start_hop. destruct (p_next p); [|reflexivity]. rewrite send_cell_exits. reflexivity. Qed.

Lemma ours_exits s cid v p ls : exits (fst (fst (ours st s cid v p ls))) = exits s.
Proof.
  unfold ours. destruct (aget cid (circuits s)) as [c|]; [|reflexivity].
  destruct (c_unver c); [|reflexivity]. destruct v; try reflexivity.
  match goal with |- context [if ?b then _ else _] => destruct b end.
  - match goal with |- context [match ?x with _ => _ end] => destruct x end; [|reflexivity].
    rewrite start_hop_exits. reflexivity.
  - match goal with |- context [if ?b then _ else _] => destruct b end; reflexivity.
Qed.

Lemma exit_sendto_opened cid e len tnow : opened (fst (exit_sendto cid e len tnow)) = opened e.
Proof. unfold exit_sendto, opened. destruct (e_open e); reflexivity. Qed.

Lemma handle_data_kept s src cid a b c len :
  sockets_kept s (fst (handle_data s src cid a b c len)) (snd (handle_data s src cid a b c len)).
Proof.
  unfold handle_data.
  destruct (match aget cid (circuits s) with Some c0 => a && (src =? c_first c0) | None => false end).
  - destruct (aget cid (circuits s)); apply sockets_kept_same; reflexivity.
  - destruct b; [apply sockets_kept_same; reflexivity|].
    destruct (aget cid (exits s)) as [e|] eqn:Ee; [|apply sockets_kept_same; reflexivity].
    destruct (negb (e_enabled e) && negb (src =? e_peer e)); [apply sockets_kept_same; reflexivity|].
    set (e1 := mkExit (e_ro e) (e_peer e) true (e_open e) (e_queue e)).
    assert (H1 : opened e = true -> opened e1 = true).
    { unfold opened, e1. simpl. destruct (e_enabled e); simpl; auto. discriminate. }
    destruct c.
    + pose proof (exit_sendto_opened cid e1 len (now s)) as Ho.
      destruct (exit_sendto cid e1 len (now s)) as [e2 o] eqn:E2. simpl in Ho.
      assert (K : sockets_kept s (set_exits (aset cid e2 (exits s)) s) o).
      { apply sockets_kept_aset. intros e0 He0 Hop. rewrite Ee in He0. inversion He0; subst e0. rewrite Ho. auto. }
      destruct (negb (e_enabled e)); simpl; exact K.
    + assert (K : sockets_kept s (set_exits (aset cid e1 (exits s)) s) []).
      { apply sockets_kept_aset. intros e0 He0 Hop. rewrite Ee in He0. inversion He0; subst e0. auto. }
      destruct (negb (e_enabled e)); simpl; exact K.
Qed.

Lemma handle_exits_kept s src cid m ls :
  sockets_kept s (fst (fst (handle st s src cid m ls))) (snd (fst (handle st s src cid m ls))).
Proof.
  destruct m as [ident|ident v p|ident|ident v p|a b c len| | |mid]; simpl; try (apply sockets_kept_same; reflexivity).
  - destruct (aget ident (creates s)) as [cc|].
    + destruct (ahas (cc_from cc) (relays s)); [apply sockets_kept_same; reflexivity|].
      destruct (aget (cc_from cc) (exits s)); [|apply sockets_kept_same; reflexivity].
      apply sockets_kept_same. rewrite send_cell_exits. reflexivity.
    + destruct (aget cid (retries s)) as [rt|]; [|apply sockets_kept_same; reflexivity].
      destruct (rt_ident rt =? ident); [|apply sockets_kept_same; reflexivity].
      apply sockets_kept_same. apply ours_exits.
  - destruct (aget cid (retries s)) as [rt|]; [|apply sockets_kept_same; reflexivity].
    destruct (rt_ident rt =? ident); [|apply sockets_kept_same; reflexivity].
    apply sockets_kept_same. apply ours_exits.
  - destruct (ahas cid (circuits s) || ahas cid (exits s) || ahas cid (relays s)); [|apply sockets_kept_same; reflexivity].
    destruct (aget cid (exits s)) as [e|] eqn:Ee.
    + match goal with |- sockets_kept s (fst (fst (send_cell st ?S1 _ _ _ _))) _ => set (s1 := S1) end.
      assert (K : sockets_kept s s1 []).
      { apply sockets_kept_aset. intros e0 He0 Hop. rewrite Ee in He0. inversion He0; subst e0. exact Hop. }
      intros c x H Ho. destruct (K _ _ H Ho) as [(y & Hy & Hoy)|[]]. left. exists y.
      rewrite send_cell_exits. auto.
    + apply sockets_kept_same. rewrite send_cell_exits. reflexivity.
Qed.

Lemma finish_remove_kept s k cid : sockets_kept s (fst (finish_remove s k cid)) (snd (finish_remove s k cid)).
Proof.
  destruct k; simpl; try (apply sockets_kept_same; reflexivity).
  destruct (aget cid (exits s)) as [e|] eqn:Ee; simpl; [|apply sockets_kept_same; reflexivity].
  intros c x H Ho. destruct (Z.eq_dec c cid) as [E|E].
  - subst c. rewrite Ee in H. inversion H; subst x. right. unfold opened in Ho. rewrite Ho. left; reflexivity.
  - left. exists x. simpl. rewrite aget_adel. destruct (c =? cid) eqn:E'; [lia | auto].
Qed.

Lemma recv_cell_kept s src cid plain early len cr ls :
  sockets_kept s (fst (recv_cell st s src cid plain early len cr ls)) (snd (recv_cell st s src cid plain early len cr ls)).
Proof.
  unfold recv_cell. destruct (aget cid (relays s)) as [nxt|].
  - apply sockets_kept_same. crush.
  - destruct (negb (ahas cid (circuits s)) && negb (ahas cid (exits s)) && negb plain); [apply sockets_kept_same; reflexivity|].
    destruct cr as [| |m]; try (apply sockets_kept_same; reflexivity).
    destruct (recv_drops_early early (msg_id m) (s_max_early st)); [apply sockets_kept_same; reflexivity|].
    destruct (plain && negb (existsb (Z.eqb (msg_id m)) NO_CRYPTO_PACKETS)); [apply sockets_kept_same; reflexivity|].
    assert (G : forall s1 (o : list out), sockets_kept s s1 o ->
              sockets_kept s
                (fst match aget cid (circuits s1) with
                     | Some c => (set_circuits (aset cid (c_with_ro (fun r => ro_down len (ro_beat (now s) r)) c) (circuits s1)) s1, o)
                     | None => (s1, o) end)
                (snd match aget cid (circuits s1) with
                     | Some c => (set_circuits (aset cid (c_with_ro (fun r => ro_down len (ro_beat (now s) r)) c) (circuits s1)) s1, o)
                     | None => (s1, o) end)).
    { intros s1 o K. destruct (aget cid (circuits s1)); exact K. }
    destruct m as [ident|ident v p|ident|ident v p|a b c dl| | |mid].
    5:{ pose proof (handle_data_kept s src cid a b c dl) as K.
        destruct (handle_data s src cid a b c dl) as [s1 o]. apply G. exact K. }
    all: match goal with |- context [handle st ?S ?A ?B ?M ?L] =>
           pose proof (handle_exits_kept S A B M L) as K;
           destruct (handle st S A B M L) as [[s1 o] l]; apply G; exact K end.
Qed.

Lemma drain_opened cid q : forall e tnow, opened (fst (drain cid e q tnow)) = opened e.
Proof.
  induction q as [|len tl IH]; intros e tnow; simpl; [reflexivity|].
  pose proof (exit_sendto_opened cid e len tnow) as H1.
  destruct (exit_sendto cid e len tnow) as [e1 o1]. simpl in H1.
  pose proof (IH e1 tnow) as H2. destruct (drain cid e1 tl tnow) as [e2 o2]. simpl in *. congruence.
Qed.

Lemma start_remove_kept s k cid dd rn :
  sockets_kept s (fst (start_remove st s k cid dd rn)) (snd (start_remove st s k cid dd rn)).
Proof.
  unfold start_remove. destruct k.
  - simpl aget. destruct (aget cid (circuits s)) as [c|]; cbn [fst snd].
    + destruct (negb rn || (0 <? s_remove_delay st)); [apply sockets_kept_same; reflexivity|].
      simpl. apply sockets_kept_same; reflexivity.
    + apply sockets_kept_same; reflexivity.
  - cbn [fst snd]. destruct (negb rn || (0 <? s_remove_delay st)); [apply sockets_kept_same; reflexivity|].
    simpl. apply sockets_kept_same; reflexivity.
  - cbn [fst snd]. destruct (negb rn || (0 <? s_remove_delay st)); [apply sockets_kept_same; reflexivity|].
    pose proof (finish_remove_kept s KExit cid) as K.
    destruct (finish_remove s KExit cid) as [s2 o2]. simpl in *.
    eapply sockets_kept_more; [exact K|]. intros x Hx. apply in_or_app; right; exact Hx.
Qed.

Lemma run_deferred_kept s d eo tg tc nb p ls :
  sockets_kept s (fst (run_deferred st s d eo tg tc nb p ls)) (snd (run_deferred st s d eo tg tc nb p ls)).
Proof.
  destruct d as [k c dd rn|src cid ident|src cid ident|c t i|cid]; cbn [run_deferred].
  - apply start_remove_kept.
  - destruct (negb (s_any_flag st)); [apply sockets_kept_same; reflexivity|].
    destruct (ahas cid (createds s)); [apply sockets_kept_same; reflexivity|].
    destruct (ahas cid (circuits s) || ahas cid (relays s) || ahas cid (exits s)) eqn:Eu; [apply sockets_kept_same; reflexivity|].
    destruct (negb (should_join (s_max_joined st) (zlen (relays s)) (zlen (exits s)))); [apply sockets_kept_same; reflexivity|].
    match goal with |- context [send_cell st ?S2 ?a ?b ?c ?d] =>
      pose proof (send_cell_exits S2 a b c d) as X; destruct (send_cell st S2 a b c d) as [[s3 o3] l3] end.
    simpl in *. intros c x H Ho. left. exists x. rewrite X. simpl. rewrite aget_aset.
    destruct (c =? cid) eqn:E; [|auto]. apply Z.eqb_eq in E; subst c.
    apply orb_false_iff in Eu. destruct Eu as [_ Eu]. unfold ahas in Eu. rewrite H in Eu. discriminate.
  - destruct (negb (s_relay_flag st)); [apply sockets_kept_same; reflexivity|].
    destruct (negb (ahas cid (createds s))); [apply sockets_kept_same; reflexivity|].
    destruct (negb eo); [apply sockets_kept_same; reflexivity|].
    match goal with |- context [match ?x with Some _ => _ | None => _ end] => destruct x as [prev|] end;
      [|apply sockets_kept_same; reflexivity].
    match goal with |- context [send_cell st ?S2 ?a ?b ?c ?d] =>
      pose proof (send_cell_exits S2 a b c d) as X; destruct (send_cell st S2 a b c d) as [[s3 o3] l3] end.
    simpl in *. apply sockets_kept_same. exact X.
  - destruct (aget c (circuits s)) as [ci|]; [|apply sockets_kept_same; reflexivity].
    pose proof (start_hop_exits s c ci t i p ls) as X.
    destruct (start_hop st s c ci t i p ls) as [[s1 o] l]. simpl in *. apply sockets_kept_same. exact X.
  - destruct (aget cid (exits s)) as [e|] eqn:Ee; [|apply sockets_kept_same; reflexivity].
    destruct (e_enabled e && negb (e_open e)); [|apply sockets_kept_same; reflexivity].
    pose proof (drain_opened cid (e_queue e) (mkExit (e_ro e) (e_peer e) true true []) (now s)) as Ho.
    destruct (drain cid (mkExit (e_ro e) (e_peer e) true true []) (e_queue e) (now s)) as [e2 o]. simpl in *.
    apply sockets_kept_aset. intros e0 He0 Hop. rewrite Ho. reflexivity.
Qed.

(* sockets_closed_on_drop: over every event, an exit socket with open transports either stays in the
   table (still open) or the event closes its transports *)
Lemma sockets_kept_step_l s e : sockets_kept s (fst (step_at st s e)) (snd (step_at st s e)).
Proof.
  destruct e as [src cid plain early len cr ls|src cid reason| |ls|i eo tg tc nb p ls|i|cid|cid|number
                 |cid goal p ls|k cid dd rn|dst cid ls|cid len allowed ls]; cbn [step_at].
  - apply recv_cell_kept.
  - apply sockets_kept_same. unfold recv_destroy. crush.
  - apply sockets_kept_same; reflexivity.
  - apply sockets_kept_same. generalize (circuits s) at 1. intro cs. revert s ls.
    induction cs as [|[cid c0] tl IH]; intros s ls; simpl; [reflexivity|].
    destruct (aget cid (circuits s)) as [c|]; [|apply IH].
    destruct (negb (c_closing c) && (0 <? c_hops c)); [|apply IH].
    pose proof (send_cell_exits s (c_first c) cid MSG_PING ls) as X1.
    destruct (send_cell st s (c_first c) cid MSG_PING ls) as [[s1 o1] ls1]. simpl in X1.
    pose proof (IH s1 ls1) as X2. destruct (ping_all st s1 tl ls1) as [s2 o2]. simpl in *. congruence.
  - destruct (nth_error (starts s) i) as [d|]; [|apply sockets_kept_same; reflexivity].
    pose proof (run_deferred_kept (set_starts (remove_nth i (starts s)) s) d eo tg tc nb p ls) as K. exact K.
  - destruct (nth_error (sleeping s) i) as [[[due k] cid]|]; [|apply sockets_kept_same; reflexivity].
    pose proof (finish_remove_kept (set_sleeping (remove_nth i (sleeping s)) s) k cid) as K. exact K.
  - apply sockets_kept_same. crush.
  - apply sockets_kept_same; reflexivity.
  - apply sockets_kept_same; reflexivity.
  - destruct (p_next p); [|apply sockets_kept_same; reflexivity].
    match goal with |- context [start_hop st ?S1 ?a ?b ?c ?d ?e ?f] =>
      pose proof (start_hop_exits S1 a b c d e f) as X; destruct (start_hop st S1 a b c d e f) as [[s2 o] l] end.
    simpl in *. apply sockets_kept_same. exact X.
  - apply sockets_kept_same; reflexivity.
  - pose proof (send_cell_exits s dst cid MSG_DATA ls) as X.
    destruct (send_cell st s dst cid MSG_DATA ls) as [[s1 o] l]. simpl in *. apply sockets_kept_same. exact X.
  - destruct (aget cid (exits s)) as [e|] eqn:Ee; [|apply sockets_kept_same; reflexivity].
    set (s1 := set_exits (aset cid (e_with_ro (ro_down len) e) (exits s)) s).
    assert (K : forall o, sockets_kept s s1 o).
    { intro o. apply sockets_kept_aset. intros e0 He0 Hop. rewrite Ee in He0. inversion He0; subst e0. exact Hop. }
    destruct allowed; [|apply K].
    pose proof (send_cell_exits s1 (e_peer e) cid MSG_DATA ls) as X.
    destruct (send_cell st s1 (e_peer e) cid MSG_DATA ls) as [[s2 o] l]. simpl in *.
    intros c x H Ho. destruct (K o _ _ H Ho) as [(y & Hy & Hoy)|Hin]; [left; exists y; rewrite X; auto | right; exact Hin].
Qed.

Lemma sockets_kept_run_l tr : forall s, sockets_kept s (fst (run st s tr)) (snd (run st s tr)).
Proof.
  induction tr as [|[t e] tl IH]; intros s; simpl; [apply sockets_kept_same; reflexivity|].
  pose proof (sockets_kept_step_l (set_now t s) e) as K1.
  unfold step. simpl fst. simpl snd. destruct (step_at st (set_now t s) e) as [s1 o1]. simpl in K1.
  pose proof (IH s1) as K2. destruct (run st s1 tl) as [s2 o2]. simpl in *.
  eapply sockets_kept_trans; [|exact K2]. exact K1.
Qed.

(* ================================================================ relay_early counters of live routes *)
(* every route of s' continues a route of s (same creation stamp) with a counter that is not smaller,
   or was created at this very moment *)
Definition routes_cont (s s' : node) : Prop :=
  forall cid r', aget cid (relays s') = Some r' ->
    (exists r, aget cid (relays s) = Some r /\ r_early r <= r_early r' /\ creation (r_ro r') = creation (r_ro r))
    \/ creation (r_ro r') = now s.

Lemma routes_same s s' : relays s' = relays s -> routes_cont s s'.
Proof. intros E cid r' H. left. exists r'. rewrite E in H. repeat split; auto; lia. Qed.

Lemma routes_trans a b c : routes_cont a b -> now b = now a -> routes_cont b c -> routes_cont a c.
Proof.
  intros R1 En R2 cid r' H. destruct (R2 _ _ H) as [(rb & Hb & Le & Cr)|Hn]; [|right; congruence].
  destruct (R1 _ _ Hb) as [(ra & Ha & Le' & Cr')|Hn]; [left; exists ra; repeat split; auto; try lia; congruence | right; congruence].
Qed.

Lemma routes_aset s cid r1 :
  ((exists r, aget cid (relays s) = Some r /\ r_early r <= r_early r1 /\ creation (r_ro r1) = creation (r_ro r))
   \/ creation (r_ro r1) = now s) ->
  routes_cont s (set_relays (aset cid r1 (relays s)) s).
Proof.
  intros Hr c r' H. simpl in H. rewrite aget_aset in H. destruct (c =? cid) eqn:E.
  - apply Z.eqb_eq in E; subst c. inversion H; subst r'. exact Hr.
  - left. exists r'. repeat split; auto; lia.
Qed.

Lemma send_cell_now' s dst cid mid ls : now (fst (fst (send_cell st s dst cid mid ls))) = now s.
Proof. unfold send_cell. crush. Qed.

Lemma send_cell_routes s dst cid mid ls : routes_cont s (fst (fst (send_cell st s dst cid mid ls))).
Proof.
  unfold send_cell. destruct (take ls) as [n ls']. destruct (aget cid (circuits s)); simpl; [apply routes_same; reflexivity|].
  destruct (aget cid (relays s)) as [r|] eqn:Er; simpl; [|apply routes_same; reflexivity].
  apply routes_aset. left. exists r. repeat split; auto; simpl; lia.
Qed.

Lemma start_hop_routes s cid c tries ini p ls : routes_cont s (fst (fst (start_hop st s cid c tries ini p ls))).
Proof.
  unfold start_hop. destruct (p_next p); [|apply routes_same; reflexivity].
  match goal with |- routes_cont s (fst (fst (send_cell st ?S2 _ _ _ _))) => set (s2 := S2) end.
  eapply routes_trans; [apply (routes_same s s2); reflexivity | reflexivity | apply send_cell_routes].
Qed.

Lemma start_hop_now' s cid c tries ini p ls : now (fst (fst (start_hop st s cid c tries ini p ls))) = now s.
Proof. unfold start_hop. destruct (p_next p); [|reflexivity]. rewrite send_cell_now'. reflexivity. Qed.

Lemma ours_routes s cid v p ls : routes_cont s (fst (fst (ours st s cid v p ls))).
Proof.
  unfold ours. destruct (aget cid (circuits s)) as [c|]; [|apply routes_same; reflexivity].
  destruct (c_unver c); [|apply routes_same; reflexivity]. destruct v; try (apply routes_same; reflexivity).
  match goal with |- context [if ?b then _ else _] => destruct b end.
  - match goal with |- context [match ?x with _ => _ end] => destruct x end; [|apply routes_same; reflexivity].
    match goal with |- routes_cont s (fst (fst (start_hop st ?S2 _ _ _ _ _ _))) => set (s2 := S2) end.
    eapply routes_trans; [apply (routes_same s s2); reflexivity | reflexivity | apply start_hop_routes].
  - match goal with |- context [if ?b then _ else _] => destruct b end; apply routes_same; reflexivity.
Qed.

Lemma handle_routes s src cid m ls : routes_cont s (fst (fst (handle st s src cid m ls))).
Proof.
  destruct m as [ident|ident v p|ident|ident v p|a b c len| | |mid]; simpl; try (apply routes_same; reflexivity).
  - destruct (aget ident (creates s)) as [cc|].
    + destruct (ahas (cc_from cc) (relays s)); [apply routes_same; reflexivity|].
      destruct (aget (cc_from cc) (exits s)); [|apply routes_same; reflexivity].
      match goal with |- routes_cont s (fst (fst (send_cell st ?S3 _ _ _ _))) => set (s3 := S3) end.
      apply (routes_trans s s3); [|reflexivity | apply send_cell_routes].
      unfold s3.
      set (s2 := defer (DRemove KExit (cc_from cc) 0 true) (set_creates (adel ident (creates s)) s)).
      set (bw := mkRelay (ro_new (now s)) (cc_from cc) (cc_peer cc) false RELAY_EARLY_INIT).
      set (fw := mkRelay (ro_new (now s)) (cc_to cc) (cc_to_peer cc) true RELAY_EARLY_INIT).
      eapply routes_trans; [apply (routes_same s s2); reflexivity | reflexivity|].
      eapply routes_trans; [apply (routes_aset s2 (cc_to cc) bw); right; reflexivity | reflexivity|].
      pose proof (routes_aset (set_relays (aset (cc_to cc) bw (relays s2)) s2) (cc_from cc) fw) as X.
      apply X. right. reflexivity.
    + destruct (aget cid (retries s)) as [rt|]; [|apply routes_same; reflexivity].
      destruct (rt_ident rt =? ident); [apply ours_routes | apply routes_same; reflexivity].
  - destruct (aget cid (retries s)) as [rt|]; [|apply routes_same; reflexivity].
    destruct (rt_ident rt =? ident); [apply ours_routes | apply routes_same; reflexivity].
  - destruct (ahas cid (circuits s) || ahas cid (exits s) || ahas cid (relays s)); [|apply routes_same; reflexivity].
    match goal with |- routes_cont s (fst (fst (send_cell st ?S1 _ _ _ _))) => set (s1 := S1) end.
    apply (routes_trans s s1); [apply (routes_same s s1) | | apply send_cell_routes].
    + unfold s1. destruct (aget cid (exits s)); reflexivity.
    + unfold s1. destruct (aget cid (exits s)); reflexivity.
Qed.

Lemma handle_data_relays s src cid a b c len : relays (fst (handle_data s src cid a b c len)) = relays s.
Proof. unfold handle_data. crush. Qed.

Lemma handle_now' s src cid m ls : now (fst (fst (handle st s src cid m ls))) = now s.
Proof.
  destruct m; simpl; try reflexivity.
  - destruct (aget ident (creates s)) as [cc|].
    + destruct (ahas (cc_from cc) (relays s)); [reflexivity|].
      destruct (aget (cc_from cc) (exits s)); [|reflexivity].
      rewrite send_cell_now'. reflexivity.
    + destruct (aget cid (retries s)) as [rt|]; [|reflexivity].
      destruct (rt_ident rt =? ident); [|reflexivity].
      unfold ours. crush; try (rewrite start_hop_now'; reflexivity).
  - destruct (aget cid (retries s)) as [rt|]; [|reflexivity].
    destruct (rt_ident rt =? ident); [|reflexivity].
    unfold ours. crush; try (rewrite start_hop_now'; reflexivity).
  - match goal with |- context [if ?b then _ else _] => destruct b end; [|reflexivity].
    rewrite send_cell_now'. destruct (aget cid (exits s)); reflexivity.
Qed.

Lemma recv_cell_routes s src cid plain early len cr ls :
  routes_cont s (fst (recv_cell st s src cid plain early len cr ls)).
Proof.
  unfold recv_cell. destruct (aget cid (relays s)) as [nxt|] eqn:En.
  - set (s1 := match aget (r_next nxt) (relays s) with
               | Some this => set_relays (aset (r_next nxt) (r_with_ro (fun r => ro_down len (ro_beat (now s) r)) this) (relays s)) s
               | None => s end).
    assert (X1 : routes_cont s s1).
    { unfold s1. destruct (aget (r_next nxt) (relays s)) as [this|] eqn:Et; [|apply routes_same; reflexivity].
      apply routes_aset. left. exists this. repeat split; auto; simpl; lia. }
    assert (N1 : now s1 = now s) by (unfold s1; destruct (aget (r_next nxt) (relays s)); reflexivity).
    destruct plain; [exact X1|].
    destruct (aget cid (relays s1)) as [nxt1|] eqn:En1; [|exact X1].
    destruct (relay_drops_early early (r_early nxt1) (s_max_early st)); [exact X1|].
    destruct cr as [| |m]; try exact X1.
    destruct (take ls) as [n ls']. simpl.
    eapply routes_trans; [exact X1 | exact N1|].
    apply routes_aset. left. exists nxt1. repeat split; auto; simpl; lia.
  - destruct (negb (ahas cid (circuits s)) && negb (ahas cid (exits s)) && negb plain); [apply routes_same; reflexivity|].
    destruct cr as [| |m]; try (apply routes_same; reflexivity).
    destruct (recv_drops_early early (msg_id m) (s_max_early st)); [apply routes_same; reflexivity|].
    destruct (plain && negb (existsb (Z.eqb (msg_id m)) NO_CRYPTO_PACKETS)); [apply routes_same; reflexivity|].
    assert (G : forall s1 (o : list out), routes_cont s s1 ->
              routes_cont s (fst match aget cid (circuits s1) with
                                 | Some c => (set_circuits (aset cid (c_with_ro (fun r => ro_down len (ro_beat (now s) r)) c) (circuits s1)) s1, o)
                                 | None => (s1, o) end)).
    { intros s1 o K. destruct (aget cid (circuits s1)); exact K. }
    destruct m as [ident|ident v p|ident|ident v p|a b c dl| | |mid].
    5:{ pose proof (handle_data_relays s src cid a b c dl) as K.
        destruct (handle_data s src cid a b c dl) as [s1 o]. apply G. apply routes_same. exact K. }
    all: match goal with |- context [handle st ?S ?A ?B ?M ?L] =>
           pose proof (handle_routes S A B M L) as K;
           destruct (handle st S A B M L) as [[s1 o] l]; apply G; exact K end.
Qed.

Lemma finish_remove_routes s k cid : routes_cont s (fst (finish_remove s k cid)).
Proof.
  destruct k; simpl; try (apply routes_same; reflexivity).
  - intros c r' H. simpl in H. rewrite aget_adel in H. destruct (c =? cid); [discriminate|].
    left. exists r'. repeat split; auto; lia.
  - destruct (aget cid (exits s)); apply routes_same; reflexivity.
Qed.

Lemma start_remove_routes s k cid dd rn : routes_cont s (fst (start_remove st s k cid dd rn)).
Proof.
  unfold start_remove. destruct k.
  - simpl aget. destruct (aget cid (circuits s)) as [c|]; cbn [fst snd].
    + destruct (negb rn || (0 <? s_remove_delay st)); simpl; apply routes_same; reflexivity.
    + apply routes_same; reflexivity.
  - cbn [fst snd]. destruct (negb rn || (0 <? s_remove_delay st)); [apply routes_same; reflexivity|].
    pose proof (finish_remove_routes s KRelay cid) as K. destruct (finish_remove s KRelay cid) as [s2 o2]. exact K.
  - cbn [fst snd]. destruct (negb rn || (0 <? s_remove_delay st)); [apply routes_same; reflexivity|].
    pose proof (finish_remove_routes s KExit cid) as K. destruct (finish_remove s KExit cid) as [s2 o2]. exact K.
Qed.

Lemma run_deferred_routes s d eo tg tc nb p ls : routes_cont s (fst (run_deferred st s d eo tg tc nb p ls)).
Proof.
  destruct d as [k c dd rn|src cid ident|src cid ident|c t i|cid]; cbn [run_deferred].
  - apply start_remove_routes.
  - destruct (negb (s_any_flag st)); [apply routes_same; reflexivity|].
    destruct (ahas cid (createds s)); [apply routes_same; reflexivity|].
    destruct (ahas cid (circuits s) || ahas cid (relays s) || ahas cid (exits s)); [apply routes_same; reflexivity|].
    destruct (negb (should_join (s_max_joined st) (zlen (relays s)) (zlen (exits s)))); [apply routes_same; reflexivity|].
    match goal with |- context [send_cell st ?S2 ?a ?b ?c ?d] =>
      pose proof (send_cell_routes S2 a b c d) as X; set (s2 := S2) in *;
      destruct (send_cell st s2 a b c d) as [[s3 o3] l3] end.
    simpl in *. eapply routes_trans; [apply (routes_same s s2); reflexivity | reflexivity | exact X].
  - destruct (negb (s_relay_flag st)); [apply routes_same; reflexivity|].
    destruct (negb (ahas cid (createds s))); [apply routes_same; reflexivity|].
    destruct (negb eo); [apply routes_same; reflexivity|].
    match goal with |- context [match ?x with Some _ => _ | None => _ end] => destruct x as [prev|] end;
      [|apply routes_same; reflexivity].
    match goal with |- context [send_cell st ?S2 ?a ?b ?c ?d] =>
      pose proof (send_cell_routes S2 a b c d) as X; set (s2 := S2) in *;
      destruct (send_cell st s2 a b c d) as [[s3 o3] l3] end.
    simpl in *. eapply routes_trans; [apply (routes_same s s2); reflexivity | reflexivity | exact X].
  - destruct (aget c (circuits s)) as [ci|]; [|apply routes_same; reflexivity].
    pose proof (start_hop_routes s c ci t i p ls) as X.
    destruct (start_hop st s c ci t i p ls) as [[s1 o] l]. exact X.
  - destruct (aget cid (exits s)) as [e|]; [|apply routes_same; reflexivity].
    destruct (e_enabled e && negb (e_open e)); [|apply routes_same; reflexivity].
    destruct (drain cid (mkExit (e_ro e) (e_peer e) true true []) (e_queue e) (now s)) as [e2 o]. apply routes_same; reflexivity.
Qed.

Lemma ping_all_routes cs : forall s ls, routes_cont s (fst (ping_all st s cs ls)) /\ now (fst (ping_all st s cs ls)) = now s.
Proof.
  induction cs as [|[cid c0] tl IH]; intros s ls; simpl; [split; [apply routes_same|]; reflexivity|].
  destruct (aget cid (circuits s)) as [c|]; [|apply IH].
  destruct (negb (c_closing c) && (0 <? c_hops c)); [|apply IH].
  pose proof (send_cell_routes s (c_first c) cid MSG_PING ls) as X1.
  pose proof (send_cell_now' s (c_first c) cid MSG_PING ls) as N1.
  destruct (send_cell st s (c_first c) cid MSG_PING ls) as [[s1 o1] ls1]. simpl in X1, N1.
  destruct (IH s1 ls1) as [X2 N2]. destruct (ping_all st s1 tl ls1) as [s2 o2]. simpl in *.
  split; [eapply routes_trans; eauto | congruence].
Qed.

Lemma routes_step_l s e : routes_cont s (fst (step_at st s e)).
Proof.
  destruct e as [src cid plain early len cr ls|src cid reason| |ls|i eo tg tc nb p ls|i|cid|cid|number
                 |cid goal p ls|k cid dd rn|dst cid ls|cid len allowed ls]; cbn [step_at].
  - apply recv_cell_routes.
  - apply routes_same. unfold recv_destroy. crush.
  - apply routes_same; reflexivity.
  - apply ping_all_routes.
  - destruct (nth_error (starts s) i) as [d|]; [|apply routes_same; reflexivity].
    pose proof (run_deferred_routes (set_starts (remove_nth i (starts s)) s) d eo tg tc nb p ls) as K. exact K.
  - destruct (nth_error (sleeping s) i) as [[[due k] cid]|]; [|apply routes_same; reflexivity].
    pose proof (finish_remove_routes (set_sleeping (remove_nth i (sleeping s)) s) k cid) as K. exact K.
  - apply routes_same. crush.
  - apply routes_same; reflexivity.
  - apply routes_same; reflexivity.
  - destruct (p_next p); [|apply routes_same; reflexivity].
    match goal with |- context [start_hop st ?S1 ?a ?b ?c ?d ?e ?f] =>
      pose proof (start_hop_routes S1 a b c d e f) as X; set (s1 := S1) in *;
      destruct (start_hop st s1 a b c d e f) as [[s2 o] l] end.
    simpl in *. eapply routes_trans; [apply (routes_same s s1); reflexivity | reflexivity | exact X].
  - apply routes_same; reflexivity.
  - pose proof (send_cell_routes s dst cid MSG_DATA ls) as X.
    destruct (send_cell st s dst cid MSG_DATA ls) as [[s1 o] l]. exact X.
  - destruct (aget cid (exits s)) as [e|]; [|apply routes_same; reflexivity].
    destruct allowed; [|apply routes_same; reflexivity].
    match goal with |- context [send_cell st ?S1 ?a ?b ?c ?d] =>
      pose proof (send_cell_routes S1 a b c d) as X; set (s1 := S1) in *;
      destruct (send_cell st s1 a b c d) as [[s2 o] l] end.
    simpl in *. eapply routes_trans; [apply (routes_same s s1); reflexivity | reflexivity | exact X].
Qed.

End Frames.
