(* C15 extension - generated = hand model, part 2: the value codec, post_process_values, tokens, rate limit. *)
From Coq Require Import ZArith List Bool Lia ZifyBool Arith.
From IPV8V Require Import lib.PyErr lib.Bytes lib.BE gen.G15_consts model.M15_dht_store model.M15_py gen.G15_handlers
  proofs.P15_storage proofs.P15_codec proofs.P15_gen.
Import ListNotations.
Open Scope Z_scope.

Section Codec.
Variable hash : bytes -> bytes.
Variable verify : bytes -> bytes -> bytes -> bool.
Variable siglen : bytes -> res nat.

Lemma g_unpack_signed_ok value :
  match g_unpack_SignedStrPayload value 1 with Ok (p, _) => Ok p | Raise e => Raise e end = unpack_signed value.
Proof.
  unfold g_unpack_SignedStrPayload, unpack_signed.
  destruct (varlenH_at value 1) as [[d o1]|e]; cbn [bind]; [|reflexivity].
  destruct (u32_at value o1) as [[ver o2]|e]; cbn [bind]; [|reflexivity].
  destruct (varlenH_at value o2) as [[pk o3]|e]; cbn [bind]; reflexivity.
Qed.

Lemma g_unserialize_ok value : g_unserialize_value verify siglen value = unserialize verify siglen value.
Proof.
  unfold g_unserialize_value, M15_dht_store.unserialize.
  destruct value as [|t tl]; [reflexivity|].
  change (idx (t :: tl) 0) with (Ok t : res Z). cbn [bind].
  destruct (t =? DHT_ENTRY_STR); [reflexivity|].
  destruct (t =? DHT_ENTRY_STR_SIGNED); [|reflexivity].
  rewrite <- g_unpack_signed_ok.
  destruct (g_unpack_SignedStrPayload (t :: tl) 1) as [[[[d ver] pk] o]|e]; cbn [bind fst snd]; [|reflexivity].
  destruct (siglen pk) as [n|e]; cbn [bind]; [|reflexivity].
  destruct (verify pk _ _); reflexivity.
Qed.

Lemma g_add_value_ok now s key value ma :
  g_add_value hash verify siglen now s key value ma = add_value hash verify siglen s now key value ma.
Proof.
  unfold g_add_value, M15_dht_store.add_value. rewrite g_unserialize_ok.
  destruct (unserialize verify siglen value) as [[[[d pk] ver]|]|e]; cbn [bind]; [| reflexivity | reflexivity].
  rewrite g_put_ok. cbn [bind]. destruct pk as [[|x r]|]; reflexivity.
Qed.

(* ---- post_process_values ---- *)
Lemma dd_append_py d k x : py_dset okey_eq d k (py_append (py_dget okey_eq [] d k) x) = dd_append d k x.
Proof.
  induction d as [|[k' l] d IH]; cbn [py_dset py_dget dd_append]; [reflexivity|].
  change (okey_eq k' k) with (okey_eqb k' k).
  destruct (okey_eqb k' k) eqn:E.
  - reflexivity.
  - f_equal. revert IH. generalize (py_dget okey_eq [] d k). intros l0 IH.
    (* the value read is the one of the tail in both *)
    exact IH.
Qed.

Definition pp_body1 :=
  fun (s_ : udict) (x_ : bytes) =>
    let unpacked := s_ in let value := x_ in
    bind (g_unserialize_value verify siglen value)
         (fun unserialized =>
            bind (match unserialized with
                  | Some unserialized_v =>
                      if true
                      then (let unserialized := unserialized_v in
                            let '(data, public_key, version) := unserialized in
                            let unpacked := py_dset okey_eq unpacked public_key
                                                    (py_append (py_dget okey_eq [] unpacked public_key) (version, data)) in
                            Ok unpacked)
                      else Ok unpacked
                  | None => Ok unpacked
                  end) (fun unpacked => Ok (unpacked, false))).

Definition pp_body2 :=
  fun (s_ : list (bytes * option bytes)) (x_ : option bytes * list (Z * bytes)) =>
    let results := s_ in let '(public_key, data_list) := x_ in
    if negb (py_is_none public_key)
    then bind (bind (bind (bind (bind (py_max_by Z.ltb (fun t => fst t) data_list) (fun t1_ => Ok (snd t1_)))
                                (fun t2_ => Ok (t2_, public_key)))
                          (fun t3_ => Ok (py_append results t3_)))
                    (fun l4_ => Ok l4_))
              (fun results => Ok (results, false))
    else Ok (results, false).

Lemma g_post_process_unfold values :
  g_post_process_values verify siglen values =
  bind (py_for pp_body1 values [])
       (fun unpacked => bind (py_for pp_body2 unpacked [])
                             (fun results => Ok (results ++ map (fun data => (snd data, None)) (py_dget okey_eq [] unpacked None)))).
Proof. reflexivity. Qed.

Lemma pp_loop1_ok vals : forall d, py_for pp_body1 vals d = unpack_values verify siglen vals d.
Proof.
  induction vals as [|v vals IH]; intros d; cbn [py_for M15_dht_store.unpack_values]; [reflexivity|].
  unfold pp_body1 at 1. cbv zeta. rewrite g_unserialize_ok.
  destruct (unserialize verify siglen v) as [[[[data pk] ver]|]|e]; cbn [bind]; [| apply IH | reflexivity].
  rewrite dd_append_py. apply IH.
Qed.

Lemma max_from_max_by_version l : forall best, py_max_from Z.ltb (fun t : Z * bytes => fst t) best l = max_by_version best l.
Proof. induction l as [|x l IH]; intros best; cbn [py_max_from max_by_version]; [reflexivity|]. rewrite !IH. reflexivity. Qed.

Definition nonempty_lists (d : udict) : Prop := forall k l, In (k, l) d -> l <> [].

Lemma pp_loop2_ok d : forall acc, nonempty_lists d -> py_for pp_body2 d acc = Ok (acc ++ signed_results d).
Proof.
  induction d as [|[k l] d IH]; intros acc Hne; cbn [py_for]; [rewrite app_nil_r; reflexivity|].
  assert (Hd : nonempty_lists d) by (intros k' l' H; apply (Hne k' l'); right; exact H).
  unfold pp_body2 at 1. cbv zeta. unfold signed_results. cbn [flat_map fst snd]. fold (signed_results d).
  destruct k as [pk|]; cbn [py_is_none negb].
  - destruct l as [|x tl]; [exfalso; apply (Hne (Some pk) []); [left; reflexivity | reflexivity]|].
    cbn [py_max_by bind]. rewrite max_from_max_by_version. unfold py_append. rewrite IH by exact Hd.
    rewrite <- app_assoc. reflexivity.
  - cbn [bind]. apply IH. exact Hd.
Qed.

Lemma dd_append_nonempty d k x : nonempty_lists d -> nonempty_lists (dd_append d k x).
Proof.
  intros H. induction d as [|[k' l] d IH]; cbn [dd_append].
  - intros k0 l0 [E|[]]. inversion E. discriminate.
  - destruct (okey_eqb k' k).
    + intros k0 l0 [E|E]; [inversion E; destruct l; discriminate | apply (H k0 l0); right; exact E].
    + intros k0 l0 [E|E]; [apply (H k0 l0); left; exact E|].
      refine (IH _ k0 l0 E). intros k1 l1 H1. apply (H k1 l1). right. exact H1.
Qed.

Lemma unpack_values_nonempty vals : forall d d', nonempty_lists d -> unpack_values verify siglen vals d = Ok d' -> nonempty_lists d'.
Proof.
  induction vals as [|v vals IH]; intros d d' Hd H; cbn [M15_dht_store.unpack_values] in H; [inversion H; subst; exact Hd|].
  destruct (unserialize verify siglen v) as [[[[data pk] ver]|]|e]; cbn [bind] in H; [| eapply IH; eauto | discriminate].
  eapply IH; [|exact H]. apply dd_append_nonempty. exact Hd.
Qed.

Lemma unsigned_results_first d :
  NoDup (map fst d) -> unsigned_results d = map (fun x : Z * bytes => (snd x, None)) (py_dget okey_eq [] d None).
Proof.
  induction d as [|[k l] d IH]; cbn [map fst]; intros H; [reflexivity|].
  inversion H as [|? ? Hn Hd]; subst. unfold unsigned_results. cbn [flat_map fst snd py_dget]. fold (unsigned_results d).
  destruct k as [pk|]; cbn [okey_eq app].
  - apply IH. exact Hd.
  - assert (E : unsigned_results d = []).
    { clear IH H Hd. induction d as [|[k' l'] d IH']; [reflexivity|]. unfold unsigned_results. cbn [flat_map fst snd]. fold (unsigned_results d).
      destruct k' as [b|]; [|exfalso; apply Hn; left; reflexivity]. cbn [app]. apply IH'. intro F. apply Hn. right. exact F. }
    rewrite E, app_nil_r. reflexivity.
Qed.

Lemma g_post_process_ok values : g_post_process_values verify siglen values = post_process verify siglen values.
Proof.
  rewrite g_post_process_unfold, pp_loop1_ok. unfold M15_dht_store.post_process.
  destruct (unpack_values verify siglen values []) as [d|e] eqn:Eu; cbn [bind]; [|reflexivity].
  assert (Hne : nonempty_lists d) by (eapply unpack_values_nonempty; [|exact Eu]; intros k l []).
  pose proof (unpack_values_inv verify siglen values [] [] d (dinv_nil verify siglen) Eu) as [K _ _].
  rewrite pp_loop2_ok by exact Hne. cbn [bind app]. rewrite unsigned_results_first by exact K. reflexivity.
Qed.

End Codec.

(* ---- tokens ---- *)
Lemma g_check_token_ok hash enc st rq token :
  g_check_token hash (ident hash enc rq) (secrets st) token = check_token hash enc st rq token.
Proof. reflexivity. Qed.

Lemma py_nth_last {A} (l : list A) d : l <> [] -> py_nth l (-1) = Ok (last l d).
Proof.
  intros H. destruct (exists_last H) as [a [x ->]]. rewrite last_last. unfold py_nth, py_len. cbv zeta.
  rewrite app_length. cbn [length].
  replace (-1 <? 0) with true by reflexivity.
  replace ((-1 + Z.of_nat (length a + 1) <? 0) || (Z.of_nat (length a + 1) <=? -1 + Z.of_nat (length a + 1))) with false by lia.
  replace (Z.to_nat (-1 + Z.of_nat (length a + 1))) with (length a) by lia.
  rewrite nth_error_app2 by lia. rewrite Nat.sub_diag. reflexivity.
Qed.

Lemma g_generate_token_ok hash enc st rq :
  secrets st <> [] -> g_generate_token hash (ident hash enc rq) (secrets st) = Ok (generate_token hash enc st rq).
Proof.
  intros H. unfold g_generate_token. pose proof (py_nth_last (secrets st) [] H) as E.
  cbn [Z.opp] in *. rewrite E. reflexivity.
Qed.

Lemma g_generate_token_empty hash i : g_generate_token hash i [] = Raise IndexError.
Proof. reflexivity. Qed.

(* ---- the rate limit ---- *)
(* Node.blocked: the deque is full and its oldest entry is less than NODE_LIMIT_INTERVAL old *)
Definition blocked (now : Z) (lq : list Z) : bool :=
  (g_last_queries_maxlen <=? py_len lq) && (match lq with [] => false | t :: _ => now - t <? NODE_LIMIT_INTERVAL end).

Lemma g_node_blocked_ok now lq : 1 <= g_last_queries_maxlen -> g_node_blocked now lq = Ok (blocked now lq).
Proof.
  intros H. unfold g_node_blocked, blocked.
  destruct (py_len lq <? g_last_queries_maxlen) eqn:E.
  - replace (g_last_queries_maxlen <=? py_len lq) with false by lia. reflexivity.
  - replace (g_last_queries_maxlen <=? py_len lq) with true by lia.
    destruct lq as [|t tl]; [unfold py_len in E; cbn in E; lia|]. reflexivity.
Qed.
