(* C13 - lemmas about the per-node transition functions of the introduction protocol (any node state). *)
From Coq Require Import ZArith List Bool Lia ZifyBool.
From IPV8V Require Import lib.PyErr gen.G13_lan model.M13_nat.
Import ListNotations.
Open Scope Z_scope.

(* ------------------------------------------------------------------------------------------ basics *)
Lemma addr_eqb_eq a b : addr_eqb a b = true <-> a = b.
Proof.
  destruct a as [a1 a2], b as [b1 b2]. unfold addr_eqb. cbn [fst snd].
  rewrite andb_true_iff, !Z.eqb_eq. split.
  - intros [-> ->]. reflexivity.
  - intros H. inversion H. split; reflexivity.
Qed.
Lemma addr_eqb_refl a : addr_eqb a a = true.
Proof. apply addr_eqb_eq. reflexivity. Qed.
Lemma addr_eqb_neq a b : addr_eqb a b = false <-> a <> b.
Proof.
  split.
  - intros H E. apply addr_eqb_eq in E. congruence.
  - intros H. destruct (addr_eqb a b) eqn:E; [apply addr_eqb_eq in E; contradiction | reflexivity].
Qed.

Lemma find_put_peer p l : find_peer (p_key p) (put_peer p l) = Some p.
Proof.
  unfold find_peer. induction l as [|q tl IH]; cbn [put_peer find].
  - rewrite Z.eqb_refl. reflexivity.
  - destruct (p_key q =? p_key p) eqn:E.
    + cbn [find]. rewrite Z.eqb_refl. reflexivity.
    + destruct (p_key p <? p_key q) eqn:L; cbn [find].
      * rewrite Z.eqb_refl. reflexivity.
      * rewrite E. exact IH.
Qed.
Lemma in_put_peer p l : In p (put_peer p l).
Proof.
  induction l as [|q tl IH]; cbn [put_peer]; [left; reflexivity|].
  destruct (p_key q =? p_key p); [left; reflexivity|].
  destruct (p_key p <? p_key q); [left; reflexivity | right; exact IH].
Qed.
Lemma put_peer_inv q p l : In q (put_peer p l) -> q = p \/ In q l.
Proof.
  induction l as [|r tl IH]; cbn [put_peer].
  - intros [H|[]]; left; auto.
  - destruct (p_key r =? p_key p).
    + intros [H|H]; [left; auto | right; right; exact H].
    + destruct (p_key p <? p_key r).
      * intros [H|H]; [left; auto | right; exact H].
      * intros [H|H]; [right; left; exact H |].
        destruct (IH H) as [E|E]; [left; exact E | right; right; exact E].
Qed.

Lemma find_peer_key k l p : find_peer k l = Some p -> p_key p = k /\ In p l.
Proof.
  unfold find_peer. intros H. pose proof (find_some _ _ H) as [Hin Hk]. split; [lia | exact Hin].
Qed.

(* record projections through the setters *)
Lemma add_verified_static n p known :
  n_key (add_verified n p known) = n_key n /\ n_lan (add_verified n p known) = n_lan n
  /\ n_wan (add_verified n p known) = n_wan n /\ n_gt (add_verified n p known) = n_gt n
  /\ n_sel (add_verified n p known) = n_sel n.
Proof.
  unfold add_verified. destruct (p_key p =? n_key n); [repeat split|].
  destruct known; cbn; repeat split.
Qed.

Lemma add_verified_peers n p known :
  p_key p <> n_key n -> n_peers (add_verified n p known) = put_peer p (n_peers n).
Proof.
  intros H. unfold add_verified. destruct (p_key p =? n_key n) eqn:E; [lia|].
  destruct known; reflexivity.
Qed.

Lemma discover_static n k a b :
  n_key (discover n k a b) = n_key n /\ n_lan (discover n k a b) = n_lan n
  /\ n_wan (discover n k a b) = n_wan n /\ n_peers (discover n k a b) = n_peers n.
Proof. unfold discover. destruct (match addrs_get a (n_addrs n) with None => true | Some (None, _) => true | Some (Some k0, _) => match find_peer k0 (n_peers n) with Some _ => false | None => true end end); cbn; repeat split. Qed.

Lemma fold_discover_static l : forall n k b,
  let n' := fold_left (fun acc a => discover acc k a b) l n in
  n_key n' = n_key n /\ n_lan n' = n_lan n /\ n_wan n' = n_wan n /\ n_peers n' = n_peers n.
Proof.
  induction l as [|a tl IH]; intros n k b; cbn [fold_left]; [repeat split|].
  specialize (IH (discover n k a b) k b). cbn zeta in IH.
  destruct IH as (H1 & H2 & H3 & H4). destruct (discover_static n k a b) as (E1 & E2 & E3 & E4).
  cbn zeta. rewrite H1, H2, H3, H4. repeat split; assumption.
Qed.

(* ------------------------------------------------------------------------------------------ introduction request *)
Definition introduces (m : msg) : bool :=
  match m with
  | IntroResp _ _ _ _ _ ilan iwan _ _ _ => negb (addr_eqb ilan zero_addr && addr_eqb iwan zero_addr)
  | _ => false
  end.

Lemma pick_in n l c : pick n l = Some c -> In c l.
Proof.
  unfold pick, pick_sel. destruct l as [|x tl]; [discriminate|]. intros H. eapply nth_error_In; exact H.
Qed.

Lemma intro_candidates_sub n src c : In c (intro_candidates n src) -> In c (n_peers n).
Proof.
  unfold intro_candidates. destruct (find (has_addr src) (n_peers n)); [|auto].
  intros H. apply filter_In in H. tauto.
Qed.

(* Whenever the answer to an introduction request introduces somebody, the same step emits - before the
   response - a puncture-request to the introduced peer's address naming the requester's LAN address (from
   the request) and its address as seen by the introducer, with the request's identifier. *)
Lemma introducer_punctures_l : forall n src new key dest slan swan sup ident n' outs dst m,
  handle n src (IntroReq new key dest slan swan sup ident) = (n', outs) ->
  In (dst, m) outs -> introduces m = true ->
  exists c st ilan iwan,
    In c (n_peers n') /\
    m = IntroResp st (n_key n) src (n_lan n) (n_wan n) ilan iwan true (p_new c) ident /\
    dst = src /\
    outs = [(p_v4 c, PunctReq st slan src ident); (src, m)].
Proof.
  intros n src new key dest slan swan sup ident n' outs dst m H Hin Hi.
  cbn [handle] in H. destruct (touch n key src) as [p0 known].
  set (p1 := mkPeer (p_key p0) (p_v4 p0) (Some slan) (new || sup || p_new p0)) in *.
  set (n1 := add_verified n p1 known) in *.
  destruct (add_verified_static n p1 known) as (Ek & El & Ew & _ & _). fold n1 in Ek, El, Ew.
  destruct (pick n1 (intro_candidates n1 src)) as [c|] eqn:Ep.
  - destruct (intro_fields n1 c) as [ilan iwan] eqn:Ef. inversion H; subst n' outs; clear H.
    destruct Hin as [Hin|[Hin|[]]]; inversion Hin; subst dst m; [discriminate Hi|].
    exists c, (p_new p1), ilan, iwan. rewrite Ek, El, Ew. repeat split; try reflexivity.
    cbn [set_gt n_peers]. eapply intro_candidates_sub. eapply pick_in. exact Ep.
  - inversion H; subst n' outs; clear H.
    destruct Hin as [Hin|[]]; inversion Hin; subst dst m. cbn in Hi. discriminate Hi.
Qed.

(* ... and the introduced peer is never the requester itself, provided no other known peer is registered
   under the requester's source address *)
Lemma introduction_excludes_requester_l : forall n src new key dest slan swan sup ident n' outs,
  key <> n_key n ->
  (forall q, In q (n_peers n) -> has_addr src q = true -> p_key q = key) ->
  handle n src (IntroReq new key dest slan swan sup ident) = (n', outs) ->
  forall dst st lanw wanw pid, In (dst, PunctReq st lanw wanw pid) outs ->
  exists c, In c (n_peers n') /\ p_v4 c = dst /\ p_key c <> key.
Proof.
  intros n src new key dest slan swan sup ident n' outs Hk Hu H dst st lanw wanw pid Hin.
  cbn [handle] in H. destruct (touch n key src) as [p0 known] eqn:Et.
  assert (Hp0 : p_key p0 = key /\ p_v4 p0 = src).
  { unfold touch in Et. destruct (find_peer key (n_peers n)) as [p|] eqn:Ef; inversion Et; subst p0 known; cbn.
    - apply find_peer_key in Ef. tauto.
    - tauto. }
  destruct Hp0 as [Hp0k Hp0a].
  set (p1 := mkPeer (p_key p0) (p_v4 p0) (Some slan) (new || sup || p_new p0)) in *.
  set (n1 := add_verified n p1 known) in *.
  assert (Hpeers : n_peers n1 = put_peer p1 (n_peers n)).
  { apply add_verified_peers. cbn. lia. }
  destruct (pick n1 (intro_candidates n1 src)) as [c0|] eqn:Ep.
  - destruct (intro_fields n1 c0) as [ilan iwan]. inversion H; subst n' outs. clear H.
    destruct Hin as [Hin|[Hin|[]]]; [|discriminate Hin]. inversion Hin.
    exists c0. split; [|split; [reflexivity|]].
    + cbn [set_gt n_peers]. eapply intro_candidates_sub. eapply pick_in. exact Ep.
    + apply pick_in in Ep. unfold intro_candidates in Ep.
      destruct (find (has_addr src) (n_peers n1)) as [other|] eqn:Eo.
      * apply filter_In in Ep. destruct Ep as [_ Hne].
        pose proof (find_some _ _ Eo) as [Hoin Hoa]. rewrite Hpeers in Hoin.
        assert (p_key other = key).
        { destruct (put_peer_inv _ _ _ Hoin) as [E|E]; [rewrite E; cbn; exact Hp0k | apply Hu; assumption]. }
        lia.
      * exfalso. pose proof (find_none _ _ Eo p1) as Hn. rewrite Hpeers in Hn.
        specialize (Hn (in_put_peer _ _)). unfold has_addr, peer_addrs in Hn. cbn in Hn.
        rewrite Hp0a, addr_eqb_refl in Hn. discriminate Hn.
  - inversion H; subst n' outs. destruct Hin as [Hin|[]]. discriminate Hin.
Qed.

(* the requester becomes a verified peer, recorded under its source address and the LAN address it stated *)
Lemma request_verifies_sender_l : forall n src new key dest slan swan sup ident n' outs,
  key <> n_key n ->
  handle n src (IntroReq new key dest slan swan sup ident) = (n', outs) ->
  exists p, find_peer key (n_peers n') = Some p /\ p_v4 p = src /\ p_lan p = Some slan.
Proof.
  intros n src new key dest slan swan sup ident n' outs Hk H.
  cbn [handle] in H. destruct (touch n key src) as [p0 known] eqn:Et.
  assert (Hp0 : p_key p0 = key /\ p_v4 p0 = src).
  { unfold touch in Et. destruct (find_peer key (n_peers n)) as [p|] eqn:Ef; inversion Et; subst; cbn.
    - apply find_peer_key in Ef. tauto.
    - tauto. }
  destruct Hp0 as [Hp0k Hp0a].
  set (p1 := mkPeer (p_key p0) (p_v4 p0) (Some slan) (new || sup || p_new p0)) in *.
  set (n1 := add_verified n p1 known) in *.
  assert (Hpeers : n_peers n1 = put_peer p1 (n_peers n)) by (apply add_verified_peers; cbn; lia).
  assert (Hf : find_peer key (n_peers n1) = Some p1).
  { rewrite Hpeers. replace key with (p_key p1) by (cbn; exact Hp0k). apply find_put_peer. }
  exists p1. destruct (pick n1 (intro_candidates n1 src)) as [c|].
  - destruct (intro_fields n1 c). inversion H; subst. cbn [set_gt n_peers]. repeat split; auto.
  - inversion H; subst. cbn [set_gt n_peers]. repeat split; auto.
Qed.

(* ------------------------------------------------------------------------------------------ introduction response *)
Lemma selection_same_site : forall my_lan my_wan ilan iwan,
  ilan <> zero_addr -> fst iwan = fst my_wan -> intro_selection my_lan my_wan ilan iwan = [ilan].
Proof.
  intros my_lan my_wan ilan iwan Hl Hw. unfold intro_selection.
  rewrite Hw, Z.eqb_refl. cbn [negb]. rewrite andb_false_r.
  apply addr_eqb_neq in Hl. rewrite Hl. reflexivity.
Qed.

Lemma selection_other_site : forall my_lan my_wan ilan iwan,
  iwan <> zero_addr -> fst iwan <> fst my_wan ->
  intro_selection my_lan my_wan ilan iwan = (if addr_eqb ilan zero_addr then [] else [ilan]) ++ [iwan].
Proof.
  intros my_lan my_wan ilan iwan Hw Hd. unfold intro_selection.
  apply addr_eqb_neq in Hw. rewrite Hw. replace (fst iwan =? fst my_wan) with false by lia.
  cbn [negb andb]. destruct (addr_eqb ilan zero_addr); reflexivity.
Qed.

Lemma selection_sound : forall my_lan my_wan ilan iwan a,
  In a (intro_selection my_lan my_wan ilan iwan) -> a = ilan \/ a = iwan \/ a = (fst my_lan, snd iwan).
Proof.
  intros my_lan my_wan ilan iwan a. unfold intro_selection.
  destruct (negb (addr_eqb iwan zero_addr) && negb (fst iwan =? fst my_wan)).
  - destruct (negb (addr_eqb ilan zero_addr)); cbn; intuition.
  - destruct (negb (addr_eqb ilan zero_addr) && (fst iwan =? fst my_wan)); [cbn; intuition|].
    destruct (negb (addr_eqb iwan zero_addr)); cbn; intuition.
Qed.

Definition learned_wan (n : node) (dest : addr) : addr :=
  if in_lan_subnets (fst dest) then n_wan n else dest.

Lemma addrs_set_in a v l : In (a, v) (addrs_set a v l).
Proof.
  induction l as [|e tl IH]; cbn [addrs_set]; [left; reflexivity|].
  destruct (addr_eqb (fst e) a); [left; reflexivity | right; exact IH].
Qed.
Lemma addrs_set_keeps a v l x w : x <> a -> In (x, w) l -> In (x, w) (addrs_set a v l).
Proof.
  intros Hx. induction l as [|e tl IH]; cbn [addrs_set]; [intros []|].
  destruct (addr_eqb (fst e) a) eqn:E.
  - intros [H|H]; [subst e; cbn in E; apply addr_eqb_eq in E; contradiction | right; exact H].
  - intros [H|H]; [left; exact H | right; apply IH; exact H].
Qed.

Definition registered (a : addr) (n : node) : Prop := exists k b, In (a, (Some k, b)) (n_addrs n).

Lemma discover_registers n k a b : registered a (discover n k a b).
Proof.
  unfold discover, registered. destruct (addrs_get a (n_addrs n)) as [[io b0]|] eqn:Eg.
  - destruct io as [k0|].
    + destruct (find_peer k0 (n_peers n)).
      * unfold addrs_get in Eg. destruct (find (fun e => addr_eqb (fst e) a) (n_addrs n)) as [e|] eqn:Ef; [|discriminate].
        pose proof (find_some _ _ Ef) as [Hin He]. apply addr_eqb_eq in He. inversion Eg.
        exists k0, b0. destruct e as [a' v]. cbn in *. subst. exact Hin.
      * exists k, b. cbn. apply addrs_set_in.
    + exists k, b. cbn. apply addrs_set_in.
  - exists k, b. cbn. apply addrs_set_in.
Qed.
Lemma discover_keeps n k a b x : registered x n -> registered x (discover n k a b).
Proof.
  intros (k0 & b0 & Hin). destruct (addr_eqb x a) eqn:E.
  - apply addr_eqb_eq in E. subst x. apply discover_registers.
  - apply addr_eqb_neq in E. unfold discover.
    destruct (match addrs_get a (n_addrs n) with None => true | Some (None, _) => true | Some (Some k1, _) => match find_peer k1 (n_peers n) with Some _ => false | None => true end end).
    + exists k0, b0. cbn. apply addrs_set_keeps; assumption.
    + exists k0, b0. exact Hin.
Qed.
Lemma fold_discover_registers l : forall n k b a,
  In a l \/ registered a n -> registered a (fold_left (fun acc x => discover acc k x b) l n).
Proof.
  induction l as [|x tl IH]; intros n k b a H; cbn [fold_left].
  - destruct H as [[]|H]; exact H.
  - apply IH. destruct H as [[H|H]|H].
    + subst x. right. apply discover_registers.
    + left. exact H.
    + right. apply discover_keeps. exact H.
Qed.

(* What handling an introduction response does: nothing is sent; the node learns its WAN address from the
   destination field unless that is a LAN address; the responder becomes a verified peer recorded under its
   source address and stated LAN address; and exactly the addresses chosen by intro_selection (with the
   freshly learned WAN address) are registered for walking. *)
Lemma response_effect_l : forall n src new key dest slan swan ilan iwan sup inew ident n' outs,
  handle n src (IntroResp new key dest slan swan ilan iwan sup inew ident) = (n', outs) ->
  outs = [] /\
  n_wan n' = learned_wan n dest /\ n_lan n' = n_lan n /\
  (forall a, In a (intro_selection (n_lan n) (learned_wan n dest) ilan iwan) -> registered a n') /\
  (key <> n_key n -> exists p, find_peer key (n_peers n') = Some p /\ p_v4 p = src /\ p_lan p = Some slan).
Proof.
  intros n src new key dest slan swan ilan iwan sup inew ident n' outs H.
  cbn [handle] in H. destruct (touch n key src) as [p0 known] eqn:Et.
  assert (Hp0 : p_key p0 = key /\ p_v4 p0 = src).
  { unfold touch in Et. destruct (find_peer key (n_peers n)) as [p|] eqn:Ef; inversion Et; subst; cbn.
    - apply find_peer_key in Ef. tauto.
    - tauto. }
  destruct Hp0 as [Hp0k Hp0a].
  set (p1 := mkPeer (p_key p0) (p_v4 p0) (Some slan) (new || sup || p_new p0)) in *.
  set (n0 := if in_lan_subnets (fst dest) then n else set_wan n dest) in *.
  set (n1 := add_verified n0 p1 known) in *.
  assert (E0 : n_key n0 = n_key n /\ n_lan n0 = n_lan n /\ n_wan n0 = learned_wan n dest /\ n_peers n0 = n_peers n).
  { unfold n0, learned_wan. destruct (in_lan_subnets (fst dest)); cbn; repeat split. }
  destruct E0 as (E0k & E0l & E0w & E0p).
  destruct (add_verified_static n0 p1 known) as (Ek & El & Ew & _ & _). fold n1 in Ek, El, Ew.
  inversion H; subst n' outs; clear H.
  pose proof (fold_discover_static (intro_selection (n_lan n1) (n_wan n1) ilan iwan) n1 key inew) as Hs.
  cbn zeta in Hs. destruct Hs as (Hs1 & Hs2 & Hs3 & Hs4).
  split; [reflexivity|]. split; [rewrite Hs3, Ew, E0w; reflexivity|]. split; [rewrite Hs2, El, E0l; reflexivity|].
  split.
  - intros a Ha. apply fold_discover_registers. left. rewrite El, Ew, E0l, E0w. exact Ha.
  - intros Hk. exists p1. rewrite Hs4.
    assert (Hpeers : n_peers n1 = put_peer p1 (n_peers n0)) by (apply add_verified_peers; cbn; lia).
    rewrite Hpeers. split; [|split; [exact Hp0a | reflexivity]].
    replace key with (p_key p1) by (cbn; exact Hp0k). apply find_put_peer.
Qed.

(* a registered address is walked to, unless it already belongs to a verified peer *)
Lemma addr_insert_in a x l : In x (addr_insert a l) <-> x = a \/ In x l.
Proof.
  induction l as [|b tl IH]; cbn [addr_insert].
  - cbn. intuition.
  - destruct (addr_leb a b); cbn [In]; [intuition|]. rewrite IH. intuition.
Qed.
Lemma addr_sort_in x l : In x (addr_sort l) <-> In x l.
Proof.
  induction l as [|a tl IH]; cbn [addr_sort fold_right]; [tauto|].
  fold (addr_sort tl). rewrite addr_insert_in, IH. cbn. intuition.
Qed.
Lemma registered_walkable_l : forall n a,
  registered a n -> existsb (has_addr a) (n_peers n) = false -> In a (walkable n).
Proof.
  intros n a (k & b & Hin) Hp. unfold walkable. apply addr_sort_in.
  apply in_map_iff. exists (a, (Some k, b)). split; [reflexivity|].
  apply filter_In. split; [exact Hin|]. cbn. rewrite Hp. reflexivity.
Qed.

(* ------------------------------------------------------------------------------------------ puncture request *)
Lemma puncture_goes_to_walker_l : forall n src new lanw wanw ident,
  handle n src (PunctReq new lanw wanw ident) =
  (set_gt n (n_gt n + 1),
   [(if fst wanw =? fst (n_wan n) then lanw else wanw, Punct new (n_key n) (n_lan n) wanw ident)]).
Proof. intros. reflexivity. Qed.

(* ------------------------------------------------------------------------------------------ LAN subnets *)
(* the translated table is RFC 1918: 10/8, 172.16/12, 192.168/16 *)
Definition rfc1918 (ip : Z) : Prop :=
  (ip4 10 0 0 0 <= ip <= ip4 10 255 255 255) \/ (ip4 172 16 0 0 <= ip <= ip4 172 31 255 255)
  \/ (ip4 192 168 0 0 <= ip <= ip4 192 168 255 255).

Lemma shiftr_range ip base k : 0 <= k ->
  (Z.shiftr ip k =? Z.shiftr base k) = true <-> (Z.shiftr base k) * 2 ^ k <= ip < (Z.shiftr base k + 1) * 2 ^ k.
Proof.
  intros Hk. rewrite Z.eqb_eq, !Z.shiftr_div_pow2 by assumption.
  assert (0 < 2 ^ k) by (apply Z.pow_pos_nonneg; lia).
  split.
  - intros E. rewrite <- E. pose proof (Z.mul_div_le ip (2 ^ k) H).
    pose proof (Z.mul_succ_div_gt ip (2 ^ k) H). lia.
  - intros [L U]. symmetry. apply Z.div_unique with (r := ip - base / 2 ^ k * 2 ^ k); lia.
Qed.

Lemma lan_subnets_rfc1918_l : forall ip, in_lan_subnets ip = true <-> rfc1918 ip.
Proof.
  intros ip. unfold in_lan_subnets, lan_subnets. cbn [existsb]. rewrite orb_false_r, !orb_true_iff.
  unfold in_subnet. cbn [fst snd].
  rewrite !shiftr_range by lia. unfold rfc1918, ip4.
  change (Z.shiftr 3232235520 (32 - 16)) with 49320. change (Z.shiftr 2886729728 (32 - 12)) with 2753.
  change (Z.shiftr 167772160 (32 - 8)) with 10.
  change (2 ^ (32 - 16)) with 65536. change (2 ^ (32 - 12)) with 1048576. change (2 ^ (32 - 8)) with 16777216.
  lia.
Qed.
