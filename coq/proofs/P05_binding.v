(* C05: routing by the header's circuit id, and what an exit-socket send / a delivery to the originator's
   consumer implies about the cell that caused it (binding of traffic to the circuit whose keys opened it). *)
From Coq Require Import ZArith List Bool Lia ZifyBool Arith.
From IPV8V Require Import lib.PyErr lib.Bytes lib.BE model.M02_wire model.M03_recv model.M04_onion model.M05_isolation
  spec.S04_onion_spec spec.S05_isolation_spec proofs.P02_prims proofs.P02_roundtrip proofs.P04_base proofs.P04_node proofs.P04_endpoint proofs.P04_chain proofs.P04_props proofs.P04_e2e.
Import ListNotations.
Open Scope Z_scope.

(* the circuit id a handler decodes from the unwrapped cell is the id of the cell header *)
Lemma handler_cid_is_header_cid m (pre rest : bytes) cid vs o :
  length pre = 23%nat -> cid_ok cid ->
  unpack_msg no_keys (MCons (FStruct [PU 4]) m) (pre ++ be_encode 4 cid ++ rest) 23 = Ok (vs, o) ->
  exists tl, vs = VInt cid :: tl.
Proof.
  intros Hl Hc. rewrite unpack_msg_cons. cbn [unpack struct_size psize fold_right].
  replace 23%nat with (length pre) at 1 by exact Hl.
  change (4 + 0)%nat with 4%nat.
  rewrite (take_here 4 pre (be_encode 4 cid) rest) by apply be_encode_length. cbn [bind struct_dec psize pdec].
  rewrite firstn_all2 by (rewrite be_encode_length; lia). rewrite (cid_be cid Hc).
  match goal with |- (do x <- ?X; _) = _ -> _ => destruct X as [[vs' o']|] end; cbn [bind]; [|discriminate].
  intros H. injection H as <- _. eauto.
Qed.

Lemma in_firstn {A} (x : A) : forall n l, In x (firstn n l) -> In x l.
Proof.
  induction n; intros l H; [destruct H|]. destruct l as [|y tl]; [destruct H|].
  cbn in H. destruct H as [H|H]; [left; exact H | right; apply IHn; exact H].
Qed.
Lemma in_skipn {A} (x : A) : forall n l, In x (skipn n l) -> In x l.
Proof.
  induction n; intros l H; [exact H|]. destruct l as [|y tl]; [destruct H|]. right. apply IHn. exact H.
Qed.

Lemma has_false_assoc {A} k (l : list (Z * A)) : has k l = false -> assoc k l = None.
Proof. unfold has. destruct (assoc k l); [discriminate | reflexivity]. Qed.

Section Binding.
Variables key nonce : Type.
Variable enc : key -> dir -> nonce -> bytes -> bytes.
Variable dec : key -> dir -> bytes -> option bytes.
Notation node := (node key).

Definition is_exit_send (a : action) : bool := match a with ExitSendto _ _ _ => true | _ => false end.

Lemma ep_send_cell_sends (nd : node) target c ns nd' acts :
  ep_send_cell enc nd target c ns = Ok (nd', acts) -> forall a, In a acts -> exists d p, a = Send d p.
Proof.
  unfold ep_send_cell. destruct (assoc (cl_cid c) (n_circuits nd)) as [ci|].
  - destruct (idx (cl_msg c) 0) as [m0|]; cbn [bind]; [|discriminate].
    match goal with |- (do oc <- ?X; _) = _ -> _ => destruct X as [[c2|]|] end; cbn [bind]; try discriminate;
      intros H; injection H as <- <-; intros a Ha; [destruct Ha as [<-|[]]; eauto | destruct Ha].
  - cbn [bind]. destruct (outgoing_crypto enc nd c ns) as [[c2|]|]; cbn [bind]; try discriminate;
      intros H; injection H as <- <-; intros a Ha; [destruct Ha as [<-|[]]; eauto | destruct Ha].
Qed.

Lemma send_cell_sends (nd : node) target cid mid m vals ns nd' acts :
  send_cell enc nd target cid mid m vals ns = Ok (nd', acts) -> forall a, In a acts -> exists d p, a = Send d p.
Proof.
  unfold send_cell. destruct (pack_msg no_keys m (VInt cid :: vals)); cbn [bind]; [|discriminate].
  destruct ((mid <? 0) || (255 <? mid)); [discriminate|]. apply ep_send_cell_sends.
Qed.

(* what on_data can emit *)
Lemma on_data_inv (nd : node) src data nd' acts :
  on_data nd src data = Ok (nd', acts) ->
  exists cid dest origin payload o,
    unpack_msg no_keys fmt_data data 23 = Ok ([VInt cid; VAddr dest; VAddr origin; VBytes payload], o) /\
    forall a, In a acts ->
      (a = ExitSendto cid payload dest /\ exists es, assoc cid (n_exits nd) = Some es
          /\ (es_enabled es = true \/ ip_eqb src (h_addr (es_hop es)) = true))
      \/ (is_consumer a = true /\ exists ci h0, assoc cid (n_circuits nd) = Some ci /\ circuit_hop ci = Ok h0
          /\ addr_eqb src (h_addr h0) = true
          /\ (a = RawData cid origin payload \/ a = Reinject origin payload cid \/ a = NotifyOther origin payload)).
Proof.
  unfold on_data. destruct (unpack_msg no_keys fmt_data data 23) as [[vs o]|]; cbn [bind]; [|discriminate].
  destruct vs as [|[cid| | | | | | | | |] [|[| | | | |dest| | | |] [|[| | | | |origin| | | |] [|[| |payload| | | | | | |] [|? ?]]]]]; try discriminate.
  intros H. exists cid, dest, origin, payload, o. split; [reflexivity|]. revert H.
  assert (EX : (if negb (is_null dest) then Ok (exit_data nd cid src dest payload) else Ok (nd, [])) = Ok (nd', acts) ->
     forall a, In a acts -> a = ExitSendto cid payload dest /\ exists es, assoc cid (n_exits nd) = Some es
          /\ (es_enabled es = true \/ ip_eqb src (h_addr (es_hop es)) = true)).
  { destruct (negb (is_null dest)); [|intros H; injection H as <- <-; intros a []].
    unfold exit_data. destruct (assoc cid (n_exits nd)) as [es|] eqn:Ee; [|intros H; injection H as <- <-; intros a []].
    destruct (es_enabled es) eqn:En.
    - intros H; injection H as <- <-. intros a [<-|[]]. split; [reflexivity|]. exists es. auto.
    - destruct (ip_eqb src (h_addr (es_hop es))) eqn:Ei; intros H; injection H as <- <-; intros a Ha; [|destruct Ha].
      destruct Ha as [<-|[]]. split; [reflexivity|]. exists es. auto. }
  destruct (assoc cid (n_circuits nd)) as [ci|] eqn:Ec.
  - destruct (circuit_hop ci) as [h0|] eqn:Eh; cbn [bind]; [|discriminate].
    destruct (addr_eqb src (h_addr h0)) eqn:Ea.
    + assert (W : forall a, (a = RawData cid origin payload \/ a = Reinject origin payload cid \/ a = NotifyOther origin payload) ->
           is_consumer a = true /\ exists ci0 h, Some ci = Some ci0 /\ circuit_hop ci0 = Ok h /\ addr_eqb src (h_addr h) = true
             /\ (a = RawData cid origin payload \/ a = Reinject origin payload cid \/ a = NotifyOther origin payload)).
      { intros a Hor. split; [destruct Hor as [->|[->| ->]]; reflexivity|]. exists ci, h0. auto. }
      destruct (could_be_ipv8 payload && negb (is_e2e (c_ctype ci))).
      * destruct (bytes_eqb (n_prefix nd) (slice payload None (Some 22))).
        { destruct (idx payload 22) as [m|]; cbn [bind]; [|discriminate].
          destruct (existsb (Z.eqb m) (n_data_ids nd)); intros H; injection H as <- <-; intros a Ha; [|destruct Ha].
          destruct Ha as [<-|[]]. right. apply W. auto. }
        destruct (n_tunnel_ep nd); intros H; injection H as <- <-; intros a Ha; [|destruct Ha].
        destruct Ha as [<-|[]]. right. apply W. auto.
      * intros H; injection H as <- <-. intros a [<-|[]]. right. apply W. auto.
    + intros H a Ha. left. apply (EX H a Ha).
  - intros H a Ha. left. apply (EX H a Ha).
Qed.

(* handlers other than on_data never hand anything to an exit socket or to the consumer *)
Lemma pfc_inv (nd : node) src data cid rnd ns nd' acts :
  on_packet_from_circuit enc nd src data cid rnd ns = Ok (nd', acts) ->
  forall a, In a acts -> (is_exit_send a = true \/ is_consumer a = true) ->
  idx data 22 = Ok 1 /\ exists nd2, on_data nd src data = Ok (nd2, acts).
Proof.
  unfold on_packet_from_circuit.
  destruct (negb (bytes_eqb (n_prefix nd) (slice data None (Some 22)))). { intros H; injection H as <- <-; intros a []. }
  destruct (idx data 22) as [mid|]; cbn [bind]; [|discriminate].
  destruct (negb (existsb (Z.eqb mid) (n_handlers nd))). { intros H; injection H as <- <-; intros a []. }
  match goal with |- try_catch ?X _ = _ -> _ => destruct X as [[n1 a1]|] eqn:E end; cbn [try_catch].
  2:{ intros H; injection H as <- <-; intros a []. }
  intros H. injection H as <- <-. revert E.
  destruct (mid =? 1) eqn:E1.
  { intros E a _ _. apply Z.eqb_eq in E1. subst mid. split; [reflexivity | eauto]. }
  assert (SND : (forall a, In a a1 -> exists d p, a = Send d p) ->
            forall a, In a a1 -> is_exit_send a = true \/ is_consumer a = true -> Ok mid = Ok 1 /\ exists nd2, on_data nd src data = Ok (nd2, a1)).
  { intros Hs a Ha Hk. destruct (Hs a Ha) as (d & p & ->). destruct Hk; discriminate. }
  destruct (mid =? 6).
  { unfold on_ping. destruct (unpack_msg no_keys fmt_ping data 23) as [[vs o]|]; cbn [bind]; [|discriminate].
    destruct vs as [|[c0| | | | | | | | |] [|[ident| | | | | | | | |] [|? ?]]]; try discriminate.
    destruct (negb (known_cid nd c0)). { intros H; injection H as <- <-; intros a []. }
    intros H. apply SND. apply (send_cell_sends _ _ _ _ _ _ _ _ _ H). }
  destruct (mid =? 7).
  { unfold on_pong. destruct (unpack_msg no_keys fmt_ping data 23) as [[vs o]|]; cbn [bind]; [|discriminate].
    destruct vs as [|[c0| | | | | | | | |] [|[ident| | | | | | | | |] [|? ?]]]; try discriminate.
    intros H; injection H as <- <-. intros a [<-|[]] [Hk|Hk]; discriminate. }
  destruct (mid =? 19).
  { unfold on_test_request. destruct (negb (existsb (Z.eqb PEER_FLAG_SPEED_TEST) (n_flags nd))). { intros H; injection H as <- <-; intros a []. }
    destruct (unpack_msg no_keys fmt_test_request data 23) as [[vs o]|]; cbn [bind]; [|discriminate].
    destruct vs as [|[c0| | | | | | | | |] [|[ident| | | | | | | | |] [|[rsize| | | | | | | | |] [|[| |d| | | | | | |] [|? ?]]]]]; try discriminate.
    match goal with |- (if ?b then _ else _) = _ -> _ => destruct b end. { intros H; injection H as <- <-; intros a []. }
    intros H. apply SND. apply (send_cell_sends _ _ _ _ _ _ _ _ _ H). }
  destruct (mid =? 20).
  { unfold on_test_response. destruct (unpack_msg no_keys fmt_test_response data 23) as [[vs o]|]; cbn [bind]; [|discriminate].
    destruct vs as [|[c0| | | | | | | | |] [|[ident| | | | | | | | |] [|[| |d| | | | | | |] [|? ?]]]]; try discriminate.
    destruct (negb (has cid (n_circuits nd))); intros H; injection H as <- <-; intros a Ha; [destruct Ha|].
    destruct Ha as [<-|[]]. intros [Hk|Hk]; discriminate. }
  intros H; injection H as <- <-. intros a [<-|[]] [Hk|Hk]; discriminate.
Qed.

Lemma relay_cell_sends (nd : node) c ns nd' acts :
  relay_cell enc dec nd c ns = Ok (nd', acts) -> forall a, In a acts -> exists d p, a = Send d p.
Proof.
  unfold relay_cell. destruct (cl_plain c). { intros H; injection H as <- <-; intros a []. }
  destruct (assoc (cl_cid c) (n_relays nd)) as [nxt|]; [|discriminate].
  destruct (cl_early c && (n_max_early nd <=? rr_early nxt)). { intros H; injection H as <- <-; intros a []. }
  match goal with |- (do oc <- ?X; _) = _ -> _ => destruct X as [[c1|]|] end; cbn [bind]; try discriminate;
    intros H; injection H as <- <-; intros a Ha; [destruct Ha as [<-|[]]; eauto | destruct Ha].
Qed.

Lemma be_decode_acc_range : forall (l : bytes) acc, bytes_ok l -> 0 <= acc ->
  acc * 256 ^ Z.of_nat (length l) <= be_decode_acc acc l < (acc + 1) * 256 ^ Z.of_nat (length l).
Proof.
  induction l as [|b tl IH]; intros acc Hb Ha; cbn [be_decode_acc length].
  - simpl. lia.
  - inversion Hb as [|? ? Hb1 Hb2]; subst. specialize (IH (acc * 256 + b) Hb2 ltac:(lia)).
    rewrite Nat2Z.inj_succ, Z.pow_succ_r by lia. nia.
Qed.

Lemma unpack_u_range w (data : bytes) off v :
  bytes_ok data -> unpack_u w data off = Ok v -> 0 <= v < 256 ^ Z.of_nat w.
Proof.
  intros Hb. unfold unpack_u. destruct ((off <? 0) || (blen data <? off + Z.of_nat w)) eqn:E1; [discriminate|].
  intros H. injection H as <-. unfold be_decode.
  set (l := firstn w (skipn (Z.to_nat off) data)).
  assert (Hl : length l = w).
  { unfold l. rewrite firstn_length, skipn_length. unfold blen in E1. lia. }
  assert (Hbl : bytes_ok l).
  { unfold l, bytes_ok in *. apply Forall_forall. intros x Hx. apply (proj1 (Forall_forall _ _) Hb).
    apply in_firstn in Hx. apply in_skipn in Hx. exact Hx. }
  pose proof (be_decode_acc_range l 0 Hbl ltac:(lia)) as R. rewrite Hl in R. lia.
Qed.

Lemma from_bin_cid_ok (data : bytes) c : bytes_ok data -> from_bin data = Ok c -> cid_ok (cl_cid c).
Proof.
  intros Hb. unfold from_bin.
  destruct (unpack_u 4 data 23) as [cid|] eqn:E; cbn [bind]; [|discriminate].
  destruct (unpack_u 1 data 27); cbn [bind]; [|discriminate].
  destruct (unpack_u 1 data 28); cbn [bind]; [|discriminate].
  intros H. injection H as <-. cbn [cl_cid]. apply (unpack_u_range 4 data 23 cid Hb E).
Qed.

(* exit_binding: whatever leaves through an exit socket was carried by a cell under that socket's id that
   opened with that socket's key in the forward direction, from the previous hop (or after the socket was
   enabled by it) *)
Lemma exit_binding_l (nd : node) src pkt rnd ns nd' acts cid data dest :
  aead_authentic enc dec -> length (n_prefix nd) = 22%nat -> bytes_ok pkt ->
  on_packet enc dec nd src pkt rnd ns = Ok (nd', acts) -> In (ExitSendto cid data dest) acts ->
  exists c es k n m,
    from_bin pkt = Ok c /\ cl_cid c = cid /\ cl_plain c = false /\
    assoc cid (n_relays nd) = None /\ assoc cid (n_exits nd) = Some es /\ h_keys (es_hop es) = Some k /\
    cl_msg c = enc k FORWARD n m /\
    (es_enabled es = true \/ ip_eqb src (h_addr (es_hop es)) = true).
Proof.
  intros A Hp Hb. unfold on_packet.
  destruct (negb (bytes_eqb (n_prefix nd) (slice pkt None (Some 22)))). { intros H; injection H as <- <-; intros []. }
  destruct (22 <? blen pkt). 2:{ intros H; injection H as <- <-. intros [H|[]]; discriminate. }
  destruct (idx pkt 22) as [b|]; cbn [bind]; [|discriminate].
  destruct (b =? 0). 2:{ intros H; injection H as <- <-. intros [H|[]]; discriminate. }
  unfold process_cell. destruct (blen pkt <? 29). { intros H; injection H as <- <-; intros []. }
  destruct (from_bin pkt) as [c|] eqn:Ef; cbn [bind]; [|discriminate].
  pose proof (from_bin_cid_ok pkt c Hb Ef) as Hcid.
  destruct (has (cl_cid c) (n_relays nd)) eqn:Hr.
  { intros H Hin. destruct (relay_cell_sends _ _ _ _ _ H _ Hin) as (d & p & Heq). discriminate. }
  destruct (incoming_crypto dec nd c) as [[c1|]|] eqn:Ei; cbn [bind]; try discriminate.
  2:{ intros H; injection H as <- <-; intros []. }
  destruct (length (cl_msg c1) =? 0)%nat eqn:El. { intros H; injection H as <- <-; intros []. }
  destruct (cl_msg c1) as [|m0 rest] eqn:Em; [discriminate|]. rewrite idx_head. cbn [bind].
  match goal with |- (if ?b then _ else _) = _ -> _ => destruct b end. { intros H; injection H as <- <-; intros []. }
  destruct (cl_plain c1 && negb (NO_CRYPTO m0)) eqn:Epl. { intros H; injection H as <- <-; intros []. }
  (* what incoming_crypto did *)
  assert (INC : cl_cid c1 = cl_cid c /\ cl_plain c1 = cl_plain c /\ cl_early c1 = cl_early c /\
     (cl_plain c = false -> forall es, assoc (cl_cid c) (n_exits nd) = Some es ->
        exists k, h_keys (es_hop es) = Some k /\ dec k FORWARD (cl_msg c) = Some (cl_msg c1))).
  { revert Ei. unfold incoming_crypto.
    destruct (assoc (cl_cid c) (n_exits nd)) as [es|] eqn:Ee.
    - destruct (cl_plain c) eqn:Ecp.
      + assert (D : decrypt_cell dec c FORWARD [es_hop es] = Ok c) by (unfold decrypt_cell; rewrite Ecp; reflexivity).
        destruct (assoc (cl_cid c) (n_circuits nd)); rewrite D; cbn [catch_crypto]; intros H; injection H as <-;
          (repeat split; auto; discriminate).
      + assert (D : forall c2, catch_crypto (decrypt_cell dec c FORWARD [es_hop es]) = Ok (Some c2) ->
                 cl_cid c2 = cl_cid c /\ cl_plain c2 = false /\ cl_early c2 = cl_early c /\
                 exists k, h_keys (es_hop es) = Some k /\ dec k FORWARD (cl_msg c) = Some (cl_msg c2)).
        { intros c2. unfold decrypt_cell. rewrite Ecp. cbn [decrypt_hops].
          destruct (h_keys (es_hop es)) as [k|]; [|discriminate]. destruct (dec k FORWARD (cl_msg c)) as [m|] eqn:Ed; [|discriminate].
          cbn [bind catch_crypto]. intros H; injection H as <-. cbn. repeat split; auto. exists k. auto. }
        destruct (assoc (cl_cid c) (n_circuits nd)); intros H; destruct (D c1 H) as (D1 & D2 & D3 & k & D4 & D5);
          (repeat split; auto; intros _ es0 He0; injection He0 as <-; eauto).
    - intros H. assert (G : cl_cid c1 = cl_cid c /\ cl_plain c1 = cl_plain c /\ cl_early c1 = cl_early c).
      { revert H. destruct (assoc (cl_cid c) (n_circuits nd)) as [ci|].
        - unfold decrypt_cell at 1. destruct (cl_plain c) eqn:Ecp.
          + cbn [bind]. destruct (c_hs ci); [|cbn; intros H; injection H as <-; auto].
            destruct (circuit_hop ci); cbn [bind]; [|destruct e; discriminate].
            unfold decrypt_cell. rewrite Ecp. cbn. intros H; injection H as <-; auto.
          + destruct (decrypt_hops dec BACKWARD (c_hops ci) (cl_msg c)) as [m|e]; cbn [bind]; [|destruct e; discriminate].
            destruct (c_hs ci) as [hk|]; [|cbn; intros H; injection H as <-; auto].
            destruct (circuit_hop ci) as [h0|e]; cbn [bind]; [|destruct e; discriminate].
            unfold decrypt_cell, set_msg. cbn [cl_plain cl_msg decrypt_hops h_keys]. rewrite Ecp.
            match goal with |- context [dec hk ?d m] => destruct (dec hk d m) end; cbn [bind catch_crypto]; [|discriminate].
            intros H; injection H as <-; auto.
        - destruct (cl_plain c) eqn:Ecp; [|discriminate]. cbn. intros H; injection H as <-; auto. }
      destruct G as (G1 & G2 & G3). repeat split; auto. intros _ es He. discriminate. }
  destruct INC as (I1 & I2 & I3 & I4).
  destruct c1 as [cid1 msg1 pl1 ea1]. cbn [cl_cid cl_msg cl_plain cl_early] in *. subst msg1 cid1.
  destruct pl1.
  - (* plaintext flag: only create / created get through, never data *)
    cbn [andb] in Epl. apply negb_false_iff in Epl.
    rewrite (proofs.P04_e2e.community_cell_plain key nonce enc nd src (cl_cid c) m0 rest ea1 rnd ns Hp Hcid Epl).
    match goal with |- try_catch ?X _ = _ -> _ => destruct X as [[n1 a1]|] eqn:E end; cbn [try_catch].
    2:{ intros H; injection H as <- <-; intros []. }
    intros H; injection H as <- <-. intros Hin.
    destruct (pfc_inv nd src _ _ _ _ _ _ E _ Hin (or_introl eq_refl)) as [Hi _].
    replace 22 with (Z.of_nat (length (n_prefix nd))) in Hi by (rewrite Hp; reflexivity).
    cbn [app] in Hi. rewrite idx_at in Hi. injection Hi as ->. discriminate Epl.
  - rewrite (community_cell key nonce enc nd src (cl_cid c) m0 rest ea1 rnd ns Hp Hcid).
    match goal with |- try_catch ?X _ = _ -> _ => destruct X as [[n1 a1]|] eqn:E end; cbn [try_catch].
    2:{ intros H; injection H as <- <-; intros []. }
    intros H; injection H as <- <-. intros Hin.
    destruct (pfc_inv nd src _ _ _ _ _ _ E _ Hin (or_introl eq_refl)) as [Hi [nd2 Hd]].
    destruct (on_data_inv nd src _ _ _ Hd) as (cid' & dest' & origin' & payload' & o & Hu & Hall).
    replace (n_prefix nd ++ [m0] ++ be_encode 4 (cl_cid c) ++ rest) with ((n_prefix nd ++ [m0]) ++ be_encode 4 (cl_cid c) ++ rest) in Hu
      by (rewrite <- app_assoc; reflexivity).
    rewrite fmt_data_eq in Hu.
    destruct (handler_cid_is_header_cid tail_data (n_prefix nd ++ [m0]) rest (cl_cid c) _ o ltac:(rewrite app_length, Hp; reflexivity) Hcid Hu) as [tl Htl].
    injection Htl as Hcc _.
    destruct (Hall _ Hin) as [[Heq (es & He & Hen)] | [Hk _]]; [|discriminate].
    injection Heq as -> -> ->. subst cid'.
    destruct (I4 (eq_sym I2) es He) as (k & Hk & Hd2).
    destruct (A k FORWARD (cl_msg c) (m0 :: rest) Hd2) as [n Hn].
    exists c, es, k, n, (m0 :: rest). repeat split; auto. apply has_false_assoc. exact Hr.
Qed.

(* whatever the dispatcher is given (also a datagram re-injected from a data message, whose source address is the
   OUTSIDE sender): the consumer is reached only through the data handler, for one of our circuits whose first hop
   has exactly that source address *)
Lemma dispatcher_consumer_l (nd : node) src data cid rnd ns nd' acts a :
  on_packet_from_circuit enc nd src data cid rnd ns = Ok (nd', acts) -> In a acts -> is_consumer a = true ->
  exists cid' ci h0, assoc cid' (n_circuits nd) = Some ci /\ circuit_hop ci = Ok h0 /\ addr_eqb src (h_addr h0) = true.
Proof.
  intros H Hin Hk. destruct (pfc_inv nd src data cid rnd ns nd' acts H a Hin (or_intror Hk)) as [_ [nd2 Hd]].
  destruct (on_data_inv nd src data nd2 acts Hd) as (cid' & dest & origin & payload & o & _ & Hall).
  destruct (Hall a Hin) as [[-> _] | [_ (ci & h0 & Hc & Hh & Hs & _)]]; [discriminate Hk|].
  exists cid', ci, h0. auto.
Qed.

(* origin_binding: what reaches the originator's consumer came in a non-plaintext cell under the id of one of
   our own circuits, from that circuit's first hop, and opened under the keys this node holds for that id; the
   circuit id reported is the one of the cell header *)
Lemma origin_binding_l (nd : node) src pkt rnd ns nd' acts a :
  length (n_prefix nd) = 22%nat -> bytes_ok pkt ->
  on_packet enc dec nd src pkt rnd ns = Ok (nd', acts) -> In a acts -> is_consumer a = true ->
  exists c c1 ci h0 origin payload,
    from_bin pkt = Ok c /\ cl_plain c = false /\ assoc (cl_cid c) (n_relays nd) = None /\
    incoming_crypto dec nd c = Ok (Some c1) /\
    assoc (cl_cid c) (n_circuits nd) = Some ci /\ circuit_hop ci = Ok h0 /\ addr_eqb src (h_addr h0) = true /\
    (a = RawData (cl_cid c) origin payload \/ a = Reinject origin payload (cl_cid c) \/ a = NotifyOther origin payload).
Proof.
  intros Hp Hb. unfold on_packet.
  destruct (negb (bytes_eqb (n_prefix nd) (slice pkt None (Some 22)))). { intros H; injection H as <- <-; intros []. }
  destruct (22 <? blen pkt). 2:{ intros H; injection H as <- <-. intros [<-|[]]; discriminate. }
  destruct (idx pkt 22) as [b|]; cbn [bind]; [|discriminate].
  destruct (b =? 0). 2:{ intros H; injection H as <- <-. intros [<-|[]]; discriminate. }
  unfold process_cell. destruct (blen pkt <? 29). { intros H; injection H as <- <-; intros []. }
  destruct (from_bin pkt) as [c|] eqn:Ef; cbn [bind]; [|discriminate].
  pose proof (from_bin_cid_ok pkt c Hb Ef) as Hcid.
  destruct (has (cl_cid c) (n_relays nd)) eqn:Hr.
  { intros H Hin. destruct (relay_cell_sends _ _ _ _ _ H _ Hin) as (d & p & ->). discriminate. }
  destruct (incoming_crypto dec nd c) as [[c1|]|] eqn:Ei; cbn [bind]; try discriminate.
  2:{ intros H; injection H as <- <-; intros []. }
  destruct (length (cl_msg c1) =? 0)%nat eqn:El. { intros H; injection H as <- <-; intros []. }
  destruct (cl_msg c1) as [|m0 rest] eqn:Em; [discriminate|]. rewrite idx_head. cbn [bind].
  match goal with |- (if ?b then _ else _) = _ -> _ => destruct b end. { intros H; injection H as <- <-; intros []. }
  destruct (cl_plain c1 && negb (NO_CRYPTO m0)) eqn:Epl. { intros H; injection H as <- <-; intros []. }
  assert (INC : cl_cid c1 = cl_cid c /\ cl_plain c1 = cl_plain c).
  { revert Ei. unfold incoming_crypto.
    assert (D2 : forall c0 d hops c2, decrypt_cell dec c0 d hops = Ok c2 -> cl_cid c2 = cl_cid c0 /\ cl_plain c2 = cl_plain c0).
    { intros c0 d hops c2. unfold decrypt_cell. destruct (cl_plain c0) eqn:E0; [intros H; injection H as <-; auto|].
      destruct (decrypt_hops dec d hops (cl_msg c0)); cbn [bind]; [|discriminate]. intros H; injection H as <-; auto. }
    pose proof (D2 c) as D.
    assert (CC : forall (m : res cell) c2, catch_crypto m = Ok (Some c2) -> m = Ok c2).
    { intros [x|e] c2; cbn; [intros H; injection H as ->; reflexivity | destruct e; discriminate]. }
    destruct (assoc (cl_cid c) (n_exits nd)) as [es|].
    - assert (G : catch_crypto (decrypt_cell dec c FORWARD [es_hop es]) = Ok (Some c1) -> cl_cid c1 = cl_cid c /\ cl_plain c1 = cl_plain c)
        by (intros H; apply CC in H; apply D in H; exact H).
      destruct (assoc (cl_cid c) (n_circuits nd)); destruct (cl_plain c); exact G.
    - destruct (assoc (cl_cid c) (n_circuits nd)) as [ci|].
      + assert (G : catch_crypto (do c2 <- decrypt_cell dec c BACKWARD (c_hops ci);
                 match c_hs ci with Some hk => do h0 <- circuit_hop ci; decrypt_cell dec c2 (if ctype_eqb (c_ctype ci) CT_RP_DOWNLOADER then FORWARD else BACKWARD) [mkHop (h_pk h0) (h_addr h0) (Some hk)] | None => Ok c2 end) = Ok (Some c1) ->
                 cl_cid c1 = cl_cid c /\ cl_plain c1 = cl_plain c).
        { intros H. apply CC in H. destruct (decrypt_cell dec c BACKWARD (c_hops ci)) as [c2|] eqn:E2; cbn [bind] in H; [|discriminate].
          destruct (D _ _ _ E2) as [Da Db]. destruct (c_hs ci); [|injection H as <-; auto].
          destruct (circuit_hop ci); cbn [bind] in H; [|discriminate]. destruct (D2 _ _ _ _ H) as [Dc Dd]. split; congruence. }
        destruct (cl_plain c); exact G.
      + destruct (cl_plain c) eqn:Ecp; [|discriminate]. cbn. intros H; injection H as <-; auto. }
  destruct INC as (I1 & I2).
  destruct c1 as [cid1 msg1 pl1 ea1]. cbn [cl_cid cl_msg cl_plain cl_early] in *. subst msg1 cid1.
  destruct pl1.
  - cbn [andb] in Epl. apply negb_false_iff in Epl.
    rewrite (proofs.P04_e2e.community_cell_plain key nonce enc nd src (cl_cid c) m0 rest ea1 rnd ns Hp Hcid Epl).
    match goal with |- try_catch ?X _ = _ -> _ => destruct X as [[n1 a1]|] eqn:E end; cbn [try_catch].
    2:{ intros H; injection H as <- <-; intros []. }
    intros H; injection H as <- <-. intros Hin Hk.
    destruct (pfc_inv nd src _ _ _ _ _ _ E _ Hin (or_intror Hk)) as [Hi _].
    replace 22 with (Z.of_nat (length (n_prefix nd))) in Hi by (rewrite Hp; reflexivity).
    cbn [app] in Hi. rewrite idx_at in Hi. injection Hi as ->. discriminate Epl.
  - rewrite (community_cell key nonce enc nd src (cl_cid c) m0 rest ea1 rnd ns Hp Hcid).
    match goal with |- try_catch ?X _ = _ -> _ => destruct X as [[n1 a1]|] eqn:E end; cbn [try_catch].
    2:{ intros H; injection H as <- <-; intros []. }
    intros H; injection H as <- <-. intros Hin Hk.
    destruct (pfc_inv nd src _ _ _ _ _ _ E _ Hin (or_intror Hk)) as [Hi [nd2 Hd]].
    destruct (on_data_inv nd src _ _ _ Hd) as (cid' & dest' & origin' & payload' & o & Hu & Hall).
    replace (n_prefix nd ++ [m0] ++ be_encode 4 (cl_cid c) ++ rest) with ((n_prefix nd ++ [m0]) ++ be_encode 4 (cl_cid c) ++ rest) in Hu
      by (rewrite <- app_assoc; reflexivity).
    rewrite fmt_data_eq in Hu.
    destruct (handler_cid_is_header_cid tail_data (n_prefix nd ++ [m0]) rest (cl_cid c) _ o ltac:(rewrite app_length, Hp; reflexivity) Hcid Hu) as [tl Htl].
    injection Htl as Hcc _. subst cid'.
    destruct (Hall _ Hin) as [[Heq _] | [_ (ci & h0 & Hci & Hh0 & Hsrc & Hor)]]; [subst a; discriminate|].
    exists c, (mkCell (cl_cid c) (m0 :: rest) false ea1), ci, h0, origin', payload'.
    repeat split; auto. apply has_false_assoc. exact Hr.
Qed.

End Binding.
