(* C18 - completeness of the Peng-Bao range proof (exponent algebra in any abelian group) and the
   impossibility of building one honestly for a value outside the range. *)
From Coq Require Import ZArith List Bool Lia ZifyBool.
From IPV8V Require Import lib.PyErr model.M18_hom model.M18_range proofs.P18_hom.
Import ListNotations.
Open Scope Z_scope.

Section RangeProofs.
  Variable G : Type.
  Variable gmul : G -> G -> G.
  Variable gone : G.
  Variable ginv : G -> G.
  Variable geqb : G -> G -> bool.
  Hypothesis geqb_refl : forall a, geqb a a = true.
  Hypothesis gmul_assoc : forall a b c, gmul a (gmul b c) = gmul (gmul a b) c.
  Hypothesis gmul_comm : forall a b, gmul a b = gmul b a.
  Hypothesis gmul_one_l : forall a, gmul gone a = a.
  Hypothesis gmul_inv_l : forall a, gmul (ginv a) a = gone.
  Variable g h : G.
  Variable Hsh : G -> G -> Z.

  Local Notation "a ** b" := (gmul a b) (at level 40, left associativity).
  Local Notation pw := (gpow G gmul gone ginv).

  Let A := gmul_assoc.
  Let C := gmul_comm.
  Let O := gmul_one_l.
  Let I := gmul_inv_l.

  (* a^m * b^r *)
  Definition com (a b : G) (m r : Z) : G := pw a m ** pw b r.

  Lemma com_mul a b m r m' r' : com a b m r ** com a b m' r' = com a b (m + m') (r + r').
  Proof.
    unfold com. rewrite !(gpow_add G gmul gone ginv A C O I).
    rewrite <- !A. f_equal. rewrite !A. f_equal. apply C.
  Qed.

  Lemma com_pow a b m r k : pw (com a b m r) k = com a b (m * k) (r * k).
  Proof.
    unfold com. rewrite (gpow_mul_base G gmul gone ginv A C O I), !(gpow_gpow G gmul gone ginv A C O I). reflexivity.
  Qed.

  Lemma com_inv a b m r : ginv (com a b m r) = com a b (- m) (- r).
  Proof.
    unfold com. rewrite (ginv_mul G gmul gone ginv A C O I), !(gpow_neg G gmul gone ginv A C O I). reflexivity.
  Qed.

  Lemma com_base_l a b m : pw a m = com a b m 0.
  Proof. unfold com. cbn [gpow]. symmetry. apply (gmul_one_r G gmul gone C O). Qed.

  Lemma com_base_r a b r : pw b r = com a b 0 r.
  Proof. unfold com. cbn [gpow]. symmetry. apply O. Qed.

  Lemma com_eq a b m r m' r' : m = m' -> r = r' -> com a b m r = com a b m' r'.
  Proof. intros -> ->. reflexivity. Qed.

  (* ---- EL ---- *)
  Lemma el_complete x r1 r2 g1 h1 g2 h2 rnd :
    el_check G gmul gone ginv Hsh (el_create G gmul gone ginv Hsh x r1 r2 g1 h1 g2 h2 rnd)
             g1 h1 g2 h2 (com g1 h1 x r1) (com g2 h2 x r2) = true.
  Proof.
    destruct rnd as [[w n1] n2]. unfold el_check, el_create. cbv zeta. cbn [el_c el_D el_D1 el_D2].
    set (c := Hsh _ _).
    assert (E1 : pw g1 (w + c * x) ** pw h1 (n1 + c * r1) ** pw (com g1 h1 x r1) (- c) = pw g1 w ** pw h1 n1).
    { rewrite com_pow. change (pw g1 (w + c * x) ** pw h1 (n1 + c * r1)) with (com g1 h1 (w + c * x) (n1 + c * r1)).
      rewrite com_mul. apply com_eq; ring. }
    assert (E2 : pw g2 (w + c * x) ** pw h2 (n2 + c * r2) ** pw (com g2 h2 x r2) (- c) = pw g2 w ** pw h2 n2).
    { rewrite com_pow. change (pw g2 (w + c * x) ** pw h2 (n2 + c * r2)) with (com g2 h2 (w + c * x) (n2 + c * r2)).
      rewrite com_mul. apply com_eq; ring. }
    rewrite E1, E2. apply Z.eqb_refl.
  Qed.

  (* ---- SQR ---- *)
  Lemma sqr_complete x r1 gg hh rnd :
    sqr_check G gmul gone ginv Hsh (sqr_create G gmul gone ginv Hsh x r1 gg hh rnd) gg hh (com gg hh (x * x) r1) = true.
  Proof.
    destruct rnd as [[[r2 w] n1] n2]. unfold sqr_check, sqr_create. cbv zeta. cbn [sq_F sq_el].
    change (pw gg x ** pw hh r2) with (com gg hh x r2).
    set (F := com gg hh x r2).
    assert (E : com gg hh (x * x) r1 = com F hh x (r1 - r2 * x)).
    { unfold F. unfold com at 2. rewrite com_pow. rewrite (com_base_r gg hh (r1 - r2 * x)), com_mul. apply com_eq; ring. }
    rewrite E. apply el_complete.
  Qed.

  (* ---- the whole proof ---- *)
  (* Any answer (x, y, u, w) that opens ca1^s ca2 ca3 and ca1 ca2^t ca3 with positive x, y is accepted,
     whatever m4, m1, r1, r2 the commitments were built from. *)
  Lemma build_pair_accepts v a b rd m4 m1 r1 r2 s t x y u w' :
    let pp := build_pair G gmul gone ginv g h Hsh v a b rd m4 m1 r1 r2 in
    0 < x -> 0 < y ->
    com g h x u = com g h (s * p_m1 (snd pp) + p_m2 (snd pp) + p_m3 (snd pp)) (s * p_r1 (snd pp) + p_r2 (snd pp) + p_r3 (snd pp)) ->
    com g h y w' = com g h (p_m1 (snd pp) + t * p_m2 (snd pp) + p_m3 (snd pp)) (p_r1 (snd pp) + t * p_r2 (snd pp) + p_r3 (snd pp)) ->
    range_check G gmul gone ginv geqb g h Hsh (fst pp) a b s t (x, y, u, w') = true.
  Proof.
    cbv zeta. unfold build_pair. cbv zeta. cbn [fst snd p_m1 p_m2 p_m3 p_r1 p_r2 p_r3].
    set (r := d_r rd). set (ra := d_ra rd). set (raa := d_raa rd * d_raa rd). set (w := d_w rd).
    set (mst := w * w * (v - a + 1) * (b - v + 1)).
    set (rst := w * w * ((b - v + 1) * r + ra) + raa).
    set (m2 := mst - m1 - m4 * m4). set (r3 := rst - r1 - r2).
    intros Hx Hy Ex Ey.
    unfold range_check. cbn [pub_com pub_el pub_sqr1 pub_sqr2 k_c k_c1 k_c2 k_ca k_ca1 k_ca2 k_ca3 k_caa].
    change (pw g v ** pw h r) with (com g h v r).
    change (pw g m1 ** pw h r1) with (com g h m1 r1).
    change (pw g m2 ** pw h r2) with (com g h m2 r2).
    assert (Ec1 : com g h v r ** ginv (pw g (a - 1)) = com g h (v - a + 1) r).
    { rewrite <- (gpow_neg G gmul gone ginv A C O I), (com_base_l g h (- (a - 1))), com_mul. apply com_eq; ring. }
    assert (Ec2 : pw g (b + 1) ** ginv (com g h v r) = com g h (b - v + 1) (- r)).
    { rewrite com_inv, (com_base_l g h (b + 1)), com_mul. apply com_eq; ring. }
    assert (Eca : pw (com g h (v - a + 1) r) (b - v + 1) ** pw h ra = com g h ((v - a + 1) * (b - v + 1)) (r * (b - v + 1) + ra)).
    { rewrite com_pow, (com_base_r g h ra), com_mul. apply com_eq; ring. }
    assert (Ecaa : pw (com g h ((v - a + 1) * (b - v + 1)) (r * (b - v + 1) + ra)) (w * w) ** pw h raa = com g h mst rst).
    { rewrite com_pow, (com_base_r g h raa), com_mul. apply com_eq; unfold mst, rst; ring. }
    assert (Eca3 : com g h mst rst ** ginv (com g h m1 r1 ** com g h m2 r2) = com g h (m4 * m4) r3).
    { rewrite com_mul, com_inv, com_mul. apply com_eq; unfold m2, r3; ring. }
    rewrite !Ec1. rewrite !Eca. rewrite !Ecaa. rewrite !Eca3.
    repeat (apply andb_true_iff; split).
    - rewrite Ec2. rewrite <- Eca. apply el_complete.
    - rewrite <- Ecaa. apply sqr_complete.
    - apply sqr_complete.
    - apply geqb_refl.
    - apply geqb_refl.
    - rewrite !com_mul. replace (m1 + m2 + m4 * m4) with mst by (unfold m2; ring).
      replace (r1 + r2 + r3) with rst by (unfold r3; ring). apply geqb_refl.
    - change (pw g x ** pw h u) with (com g h x u). rewrite Ex.
      rewrite com_pow, !com_mul.
      replace (m1 * s + m2 + m4 * m4) with (s * m1 + m2 + m4 * m4) by ring.
      replace (r1 * s + r2 + r3) with (s * r1 + r2 + r3) by ring. apply geqb_refl.
    - change (pw g y ** pw h w') with (com g h y w'). rewrite Ey.
      rewrite com_pow, !com_mul.
      replace (m1 + m2 * t + m4 * m4) with (m1 + t * m2 + m4 * m4) by ring.
      replace (r1 + r2 * t + r3) with (r1 + t * r2 + r3) by ring. apply geqb_refl.
    - lia.
    - lia.
  Qed.

  Lemma create_ok_inv v a b rd pub priv :
    create_attest_pair G gmul gone ginv g h Hsh v a b rd = Ok (pub, priv) ->
    exists m4 m1 r1 r2, 0 < m4 /\ 0 < m1 /\ (pub, priv) = build_pair G gmul gone ginv g h Hsh v a b rd m4 m1 r1 r2.
  Proof.
    unfold create_attest_pair. cbv zeta.
    set (mst := d_w rd * d_w rd * (v - a + 1) * (b - v + 1)).
    destruct (mst <? 0) eqn:E0; [discriminate|].
    destruct (Z.sqrt mst - 1 =? 0) eqn:E1; [discriminate|].
    destruct (d_m4 rd mod (Z.sqrt mst - 1) =? 0) eqn:E2; [discriminate|].
    destruct (mst - d_m4 rd mod (Z.sqrt mst - 1) =? 0) eqn:E3; [discriminate|].
    destruct (d_m1 rd mod (mst - d_m4 rd mod (Z.sqrt mst - 1)) =? 0) eqn:E4; [discriminate|].
    match goal with |- (if ?c then _ else _) = _ -> _ => destruct c eqn:E5; [discriminate|] end.
    match goal with |- (if ?c then _ else _) = _ -> _ => destruct c eqn:E6; [discriminate|] end.
    match goal with |- (if ?c then _ else _) = _ -> _ => destruct c eqn:E7; [discriminate|] end.
    intros H. inversion H as [H']; clear H.
    set (m4 := d_m4 rd mod (Z.sqrt mst - 1)) in *.
    assert (Hs : 0 <= Z.sqrt mst) by apply Z.sqrt_nonneg.
    assert (Hm4 : 0 < m4).
    { destruct (Z_lt_dec (Z.sqrt mst - 1) 0) as [Hneg|Hpos].
      - assert (Hk : Z.sqrt mst - 1 = -1) by lia. unfold m4 in E2. rewrite Hk in E2.
        pose proof (Z.mod_neg_bound (d_m4 rd) (-1) ltac:(lia)). lia.
      - pose proof (Z.mod_pos_bound (d_m4 rd) (Z.sqrt mst - 1) ltac:(lia)) as Hb. fold m4 in Hb. lia. }
    assert (Hk1 : 0 < mst - m4).
    { destruct (Z_lt_dec (Z.sqrt mst - 1) 0) as [Hneg|Hpos].
      - assert (Hk : Z.sqrt mst - 1 = -1) by lia. unfold m4 in Hm4. rewrite Hk in Hm4.
        pose proof (Z.mod_neg_bound (d_m4 rd) (-1) ltac:(lia)). lia.
      - pose proof (Z.mod_pos_bound (d_m4 rd) (Z.sqrt mst - 1) ltac:(lia)) as Hb. fold m4 in Hb.
        pose proof (Z.sqrt_le_lin mst ltac:(lia)). lia. }
    pose proof (Z.mod_pos_bound (d_m1 rd) (mst - m4) Hk1) as Hm1.
    eexists m4, _, _, _. split; [exact Hm4|]. split; [|reflexivity]. lia.
  Qed.

  (* honest prover, honest verifier: every equation of PengBaoPublicData.check holds *)
  Lemma range_complete_l v a b rd pub priv s t :
    create_attest_pair G gmul gone ginv g h Hsh v a b rd = Ok (pub, priv) ->
    0 <= p_m2 priv -> 0 < s -> 0 < t ->
    range_check G gmul gone ginv geqb g h Hsh pub a b s t (generate_response priv s t) = true.
  Proof.
    intros Hc Hm2 Hs Ht. destruct (create_ok_inv _ _ _ _ _ _ Hc) as (m4 & m1 & r1 & r2 & Hm4 & Hm1 & Hpp).
    pose proof (build_pair_accepts v a b rd m4 m1 r1 r2 s t) as Hacc. cbv zeta in Hacc.
    rewrite <- Hpp in Hacc. cbn [fst snd] in Hacc. unfold generate_response.
    assert (Hm3 : p_m3 priv = m4 * m4 /\ p_m1 priv = m1).
    { unfold build_pair in Hpp. cbv zeta in Hpp. inversion Hpp. cbn [p_m1 p_m3]. split; reflexivity. }
    destruct Hm3 as [Hm3 Hm1e].
    apply Hacc; try reflexivity; nia.
  Qed.

  (* refutation of soundness against whoever knows the order of the group (the key owner does: n = t1*t2):
     the commitments can be built for ANY value - inside the range or not - with a negative part in the
     decomposition, and answers reduced modulo n are positive and satisfy every equation *)
  Lemma gpow_mod_order x n k : gpow G gmul gone ginv x n = gone -> pw x (k mod n + n) = pw x k.
  Proof.
    intros Hn. destruct (Z.eq_dec n 0) as [->|Hnz].
    { rewrite Zmod_0_r, Z.add_0_r. reflexivity. }
    pose proof (Z.div_mod k n Hnz) as Hk.
    replace (k mod n + n) with (k + n * (1 - k / n)) by lia.
    rewrite (gpow_add G gmul gone ginv A C O I), <- (gpow_gpow G gmul gone ginv A C O I), Hn,
            (gpow_one G gmul gone ginv A C O I). apply (gmul_one_r G gmul gone C O).
  Qed.

  Lemma range_forgery_l n v a b rd m4 m1 r1 r2 s t : 0 < n ->
    gpow G gmul gone ginv g n = gone ->
    exists resp, range_check G gmul gone ginv geqb g h Hsh
                   (fst (build_pair G gmul gone ginv g h Hsh v a b rd m4 m1 r1 r2)) a b s t resp = true.
  Proof.
    intros Hn Hg.
    set (pp := build_pair G gmul gone ginv g h Hsh v a b rd m4 m1 r1 r2).
    set (x0 := s * p_m1 (snd pp) + p_m2 (snd pp) + p_m3 (snd pp)).
    set (y0 := p_m1 (snd pp) + t * p_m2 (snd pp) + p_m3 (snd pp)).
    exists (x0 mod n + n, y0 mod n + n, s * p_r1 (snd pp) + p_r2 (snd pp) + p_r3 (snd pp),
            p_r1 (snd pp) + t * p_r2 (snd pp) + p_r3 (snd pp)).
    pose proof (Z.mod_pos_bound x0 n Hn). pose proof (Z.mod_pos_bound y0 n Hn).
    apply (build_pair_accepts v a b rd m4 m1 r1 r2 s t); try lia.
    - unfold com. rewrite (gpow_mod_order g n x0 Hg). reflexivity.
    - unfold com. rewrite (gpow_mod_order g n y0 Hg). reflexivity.
  Qed.

  (* the intended soundness statement "an accepted proof whose commitment opens to v has a <= v <= b" is
     false of the model as soon as the order of g is known: for EVERY v and r there is public data whose
     commitment is g^v h^r and an answer that range_check accepts *)
  Lemma range_soundness_refuted_l n v a b s t r : 0 < n -> gpow G gmul gone ginv g n = gone ->
    exists pub resp, k_c G (pub_com G pub) = com g h v r /\
                     range_check G gmul gone ginv geqb g h Hsh pub a b s t resp = true.
  Proof.
    intros Hn Hg.
    set (rd := MkRR r 0 0 1 0 0 0 0 (0, 0, 0) (0, 0, 0, 0) (0, 0, 0, 0)).
    destruct (range_forgery_l n v a b rd 0 1 0 0 s t Hn Hg) as (resp & Hresp).
    exists (fst (build_pair G gmul gone ginv g h Hsh v a b rd 0 1 0 0)), resp.
    split; [reflexivity|exact Hresp].
  Qed.

  (* for a value outside [a, b] the construction never returns: the square root is undefined
     (ValueError) or, exactly at a-1 / b+1, the loop drawing m4 cannot terminate *)
  Lemma range_outside_unbuildable_l v a b rd : a <= b -> v < a \/ b < v ->
    create_attest_pair G gmul gone ginv g h Hsh v a b rd = Raise ValueError \/
    create_attest_pair G gmul gone ginv g h Hsh v a b rd = Raise OutOfFuel.
  Proof.
    intros Hab Hout. unfold create_attest_pair. cbv zeta.
    set (mst := d_w rd * d_w rd * (v - a + 1) * (b - v + 1)).
    assert (Hmst : mst <= 0).
    { unfold mst. assert (HW : 0 <= d_w rd * d_w rd) by nia. remember (d_w rd * d_w rd) as W eqn:HeqW. clear HeqW.
      destruct Hout.
      - assert (W * (v - a + 1) <= 0) by nia. nia.
      - assert (0 <= W * (v - a + 1)) by nia. nia. }
    destruct (mst <? 0) eqn:E0; [left; reflexivity|]. right.
    assert (mst = 0) by lia. rewrite H. change (Z.sqrt 0 - 1) with (-1).
    replace (-1 =? 0) with false by reflexivity.
    pose proof (Z.mod_neg_bound (d_m4 rd) (-1) ltac:(lia)) as Hb.
    destruct (d_m4 rd mod -1 =? 0) eqn:E; [reflexivity|lia].
  Qed.
  (* inside the INCLUSIVE range a <= v <= b (both ends included) the square root is defined: the builder never
     refuses the value; it can only ask for other random draws *)
  Lemma range_inside_not_refused_l v a b rd : a <= v <= b ->
    create_attest_pair G gmul gone ginv g h Hsh v a b rd <> Raise ValueError.
  Proof.
    intros Hv. unfold create_attest_pair. cbv zeta.
    set (mst := d_w rd * d_w rd * (v - a + 1) * (b - v + 1)).
    assert (Hmst : 0 <= mst).
    { unfold mst. assert (0 <= d_w rd * d_w rd) by nia. assert (0 <= (v - a + 1) * (b - v + 1)) by nia.
      rewrite <- Z.mul_assoc. apply Z.mul_nonneg_nonneg; assumption. }
    destruct (mst <? 0) eqn:E0; [lia|].
    repeat match goal with |- (if ?c then _ else _) <> _ => destruct c end; discriminate.
  Qed.
End RangeProofs.

(* the executable instance is an abelian group *)
Lemma ev_assoc a b c : ev_mul a (ev_mul b c) = ev_mul (ev_mul a b) c.
Proof. destruct a, b, c; unfold ev_mul; cbn; f_equal; ring. Qed.
Lemma ev_comm a b : ev_mul a b = ev_mul b a.
Proof. destruct a, b; unfold ev_mul; cbn; f_equal; ring. Qed.
Lemma ev_one_l a : ev_mul ev_one a = a.
Proof. destruct a; unfold ev_mul; cbn; f_equal. Qed.
Lemma ev_inv_l a : ev_mul (ev_inv a) a = ev_one.
Proof. destruct a; unfold ev_mul, ev_inv, ev_one; cbn; f_equal; ring. Qed.
Lemma ev_eqb_refl a : ev_eqb a a = true.
Proof. destruct a; unfold ev_eqb; cbn. rewrite !Z.eqb_refl. reflexivity. Qed.
