(* C17 - what each handler does to the state and which outputs it can produce. *)
From Coq Require Import ZArith List Bool Arith Lia ZifyBool.
From IPV8V Require Import lib.PyErr lib.Bytes model.M16_tokentree model.M17_consent spec.S17_consent
  proofs.P16_gather proofs.P16_props proofs.P17_base.
Import ListNotations.
Open Scope Z_scope.

Section Step.
Variable hash : bytes -> bytes.
Variable sigverify : bytes -> bytes -> bytes -> bool.
Variable mysign : bytes -> bytes.
Variable parse : bytes -> jdoc.
Variable norm : bytes -> bytes.
Variable me : bytes.
Variable rhl rsl : nat.
Variable wide : bool.

Notation md_hash := (md_hash hash).
Notation md_verify := (md_verify sigverify).
Notation att_verify := (att_verify sigverify).
Notation add_att := (add_att sigverify wide).
Notation add_atts := (add_atts sigverify wide).
Notation gather_list := (gather_list hash sigverify).
Notation substantiate := (substantiate hash sigverify wide).
Notation already := (already me).
Notation should_sign := (should_sign hash parse me).
Notation sign_loop := (sign_loop hash sigverify mysign parse me wide).
Notation recv_disclosure := (recv_disclosure hash sigverify mysign parse me wide).
Notation advertise := (advertise hash sigverify mysign norm me rhl rsl).
Notation step := (step hash sigverify mysign parse norm me rhl rsl wide).
Notation Sound := (Sound hash sigverify).
Notation att_valid := (att_valid sigverify).
Notation md_valid := (md_valid sigverify).
Notation tverify := (tverify sigverify).

(* fields a handler leaves alone *)
Definition same_user (s s1 : state) : Prop :=
  known s1 = known s /\ chain s1 = chain s /\ mdchain s1 = mdchain s /\ perms s1 = perms s.

Lemma dedup_by_In {A} (eqb : A -> A -> bool) : forall l x, In x (dedup_by eqb l) -> In x l.
Proof.
  induction l as [|y l IH]; simpl; [auto|]. intros x [H|H]; [auto|].
  apply filter_In in H as [H _]. auto.
Qed.

Lemma get_tree_aset_same k tr ps : get_tree k (aset k tr ps) = tr.
Proof. unfold get_tree. rewrite alookup_aset_same. reflexivity. Qed.

Lemma get_tree_aset_other k k2 tr ps : k <> k2 -> get_tree k2 (aset k tr ps) = get_tree k2 ps.
Proof. intros N. unfold get_tree. rewrite alookup_aset_other; auto. Qed.

Lemma get_tree_sound_default k ps :
  (forall tr, alookup k ps = Some tr -> exists P, Sound k P tr) -> exists P, Sound k P (get_tree k ps).
Proof.
  intros H. unfold get_tree. destruct (alookup k ps) as [tr|]; [apply H; reflexivity|].
  exists []. apply Sound_empty.
Qed.

(* ---------------------------------------------------------------- substantiate *)
Lemma substantiate_spec s pk mds toks atts fail s1 r :
  substantiate s pk mds toks atts fail = (s1, r) ->
  same_user s s1 /\
  prefix (dmd s) (dmd s1) /\ prefix (datt s) (datt s1) /\
  (md_valid (dmd s) -> md_valid (dmd s1)) /\ (att_valid (datt s) -> att_valid (datt s1)) /\
  (forall k, k <> pk -> get_tree k (pseus s1) = get_tree k (pseus s)) /\
  (forall P, Sound pk P (get_tree pk (pseus s)) -> exists P', Sound pk P' (get_tree pk (pseus s1))) /\
  (forall x, In x (datt s1) -> In x (datt s) \/ exists aa, In aa atts /\
        x = mkRow pk (fst aa) (a_mptr (snd aa)) (a_sig (snd aa)) /\ att_verify (fst aa) (snd aa) = true) /\
  (r = Ok true -> Forall (fun t => tverify pk t = true) toks /\
                  Forall (fun aa => att_verify (fst aa) (snd aa) = true) atts).
Proof.
  unfold M17_consent.substantiate, same_user.
  destruct (gather_list pk (get_tree pk (pseus s)) toks true) as [[tr1 c1]|e] eqn:G.
  2:{ intros E. inversion E; subst. simpl.
      split; [auto|]. split; [apply prefix_refl|]. split; [apply prefix_refl|]. split; [auto|]. split; [auto|].
      split; [intros k N; apply get_tree_aset_other; auto|].
      split; [intros P S; exists P; rewrite get_tree_aset_same; exact S|].
      split; [intros x Hx; left; exact Hx|discriminate]. }
  assert (TS : forall P, Sound pk P (get_tree pk (pseus s)) ->
                 exists P', Sound pk P' (get_tree pk (aset pk tr1 (pseus s)))).
  { intros P S. rewrite get_tree_aset_same. eapply gather_list_sound; eauto. }
  assert (TO : forall k, k <> pk -> get_tree k (aset pk tr1 (pseus s)) = get_tree k (pseus s)).
  { intros k N. apply get_tree_aset_other. auto. }
  destruct (fail_is fail 0).
  { intros E. inversion E; subst. simpl.
    split; [auto|]. split; [apply prefix_refl|]. split; [apply prefix_refl|]. split; [auto|]. split; [auto|].
    split; [exact TO|]. split; [exact TS|]. split; [intros x Hx; left; exact Hx|discriminate]. }
  destruct (fold_add_metadata sigverify pk mds (dmd s)) as [PM VM].
  destruct (fail_is fail 1).
  { intros E. inversion E; subst. simpl.
    split; [auto|]. split; [exact PM|]. split; [apply prefix_refl|]. split; [exact VM|]. split; [auto|].
    split; [exact TO|]. split; [exact TS|]. split; [intros x Hx; left; exact Hx|discriminate]. }
  simpl.
  destruct (add_atts pk atts (datt s) c1) as [d3 c3] eqn:EA.
  destruct (add_atts_spec sigverify wide pk atts (datt s) c1 d3 c3 EA) as [PA [VA [CA NA]]].
  assert (CR : c3 = true -> Forall (fun t => tverify pk t = true) toks /\
                            Forall (fun aa => att_verify (fst aa) (snd aa) = true) atts).
  { intros Hc. destruct (CA Hc) as [Hc1 F]. split; [|assumption].
    eapply gather_list_correct; eauto. }
  destruct (fail_is fail 2); intros E; inversion E; subst; simpl;
    (split; [auto|]); (split; [assumption|]); (split; [assumption|]); (split; [assumption|]);
    (split; [assumption|]); (split; [assumption|]); (split; [assumption|]); (split; [assumption|]).
  - discriminate.
  - intros H. inversion H; subst. auto.
Qed.

(* ---------------------------------------------------------------- should_sign *)
Lemma should_sign_true s now pk tr m :
  should_sign s now pk tr m = Ok true ->
  exists kv tok e,
    parse (m_json m) = JDict kv /\
    find_key hash (m_tptr m) (elements tr) = Some tok /\
    has_field k_date kv = true /\ has_field k_schema kv = true /\
    alookup (t_chash tok) (known s) = Some e /\
    pk = e_key e /\ now <= e_time e + 300 /\
    alookup k_name kv = Some (e_name e) /\
    (forall md, e_md e = Some md -> dict_eqb (extras kv) md = true) /\
    already (datt s) (md_hash m) = false.
Proof.
  unfold M17_consent.should_sign.
  destruct (parse (m_json m)) as [| |kv] eqn:EP; try discriminate.
  destruct (find_key hash (m_tptr m) (elements tr)) as [tok|] eqn:EF; [|discriminate].
  destruct (has_field k_name kv && has_field k_date kv && has_field k_schema kv) eqn:F; cbn [negb]; [|discriminate].
  destruct (alookup (t_chash tok) (known s)) as [e|] eqn:EK; [|discriminate].
  destruct (bytes_eqb pk (e_key e)) eqn:K; cbn [negb]; [|discriminate].
  destruct (e_time e + 300 <? now) eqn:T; [discriminate|].
  destruct (opt_eqb (alookup k_name kv) (e_name e)) eqn:Nm; cbn [negb]; [|discriminate].
  destruct (match e_md e with Some md => negb (dict_eqb (extras kv) md) | None => false end) eqn:M; [discriminate|].
  destruct (M17_consent.already me (datt s) (md_hash m)) eqn:A; [discriminate|].
  intros _. exists kv, tok, e.
  apply andb_true_iff in F as [F F3]. apply andb_true_iff in F as [F1 F2].
  apply bytes_eqb_eq in K.
  split; [reflexivity|]. split; [reflexivity|]. split; [assumption|]. split; [assumption|].
  split; [assumption|]. split; [assumption|]. split; [lia|]. split.
  - unfold opt_eqb in Nm. destruct (alookup k_name kv) as [x|]; [|discriminate].
    apply bytes_eqb_eq in Nm. congruence.
  - split; [|reflexivity]. intros md Hm. rewrite Hm in M. destruct (dict_eqb (extras kv) md); [reflexivity|discriminate].
Qed.

Lemma dict_eqb_true a b :
  dict_eqb a b = true -> length a = length b /\ forall k v, In (k, v) a -> alookup k b = Some v.
Proof.
  unfold dict_eqb. intros H. apply andb_true_iff in H as [L F]. apply Nat.eqb_eq in L. split; [assumption|].
  intros k v Hin. rewrite forallb_forall in F. specialize (F _ Hin). simpl in F.
  destruct (alookup k b) as [w|]; [|discriminate]. apply bytes_eqb_eq in F. congruence.
Qed.

(* ---------------------------------------------------------------- sign_loop *)
Definition same_but_datt (s s2 : state) : Prop :=
  known s2 = known s /\ pseus s2 = pseus s /\ dmd s2 = dmd s /\ chain s2 = chain s /\
  mdchain s2 = mdchain s /\ perms s2 = perms s.

Lemma sign_loop_spec now pk tr : forall mds s s2 outs x,
  sign_loop s now pk tr mds = (s2, outs, x) ->
  same_but_datt s s2 /\ prefix (datt s) (datt s2) /\ (att_valid (datt s) -> att_valid (datt s2)) /\
  (forall o, In o outs -> exists m s',
       o = OAttest pk (mkAtt (md_hash m) (mysign (md_hash m))) /\ In m mds /\
       should_sign s' now pk tr m = Ok true /\ known s' = known s /\ prefix (datt s) (datt s')) /\
  (forall r, In r (datt s2) -> In r (datt s) \/
       (r_pk r = pk /\ r_auth r = me /\ In (OAttest pk (mkAtt (r_mptr r) (r_sig r))) outs)).
Proof.
  unfold same_but_datt.
  induction mds as [|m mds IH]; intros s s2 outs x E; cbn [M17_consent.sign_loop] in E.
  - inversion E; subst. split; [auto 10|]. split; [apply prefix_refl|]. split; [auto|].
    split; [intros o []|auto].
  - destruct (should_sign s now pk tr m) as [[|]|e] eqn:SS.
    + set (a := mkAtt (md_hash m) (mysign (md_hash m))) in *.
      set (s' := set_datt s (fst (add_att pk me a (datt s)))) in *.
      destruct (sign_loop s' now pk tr mds) as [[s3 outs3] x3] eqn:L.
      inversion E; subst s2 outs x. clear E.
      destruct (IH _ _ _ _ L) as [[K [Ps [Dm [Ch [Mc Pe]]]]] [Pr [V [O R]]]].
      assert (P1 : prefix (datt s) (datt s')) by (apply add_att_prefix).
      split; [subst s'; simpl in *; auto 10|]. split; [eapply prefix_trans; eauto|]. split.
      { intros Va. apply V. subst s'. simpl. apply add_att_valid. assumption. }
      split.
      { intros o [Ho|Ho].
        - exists m, s. split; [auto|]. split; [left; reflexivity|]. split; [assumption|].
          split; [reflexivity|apply prefix_refl].
        - destruct (O o Ho) as [m' [s'' [A [B [C [D F]]]]]]. exists m', s''.
          split; [assumption|]. split; [right; assumption|]. split; [assumption|]. split.
          + rewrite D. subst s'. reflexivity.
          + eapply prefix_trans; eauto. }
      { intros r Hr. destruct (R r Hr) as [Hr1|[A [B C]]].
        - subst s'. simpl in Hr1. apply add_att_new in Hr1 as [Hr1|[Hr1 _]]; [left; assumption|].
          right. subst r a. simpl. split; [reflexivity|]. split; [reflexivity|]. left. reflexivity.
        - right. split; [assumption|]. split; [assumption|]. right. assumption. }
    + destruct (IH _ _ _ _ E) as [A [B [C [D F]]]]. split; [assumption|]. split; [assumption|]. split; [assumption|].
      split; [|assumption]. intros o Ho. destruct (D o Ho) as [m' [s'' [G1 [G2 G3]]]]. exists m', s''.
      split; [assumption|]. split; [right; assumption|assumption].
    + inversion E; subst. split; [auto 10|]. split; [apply prefix_refl|]. split; [auto|].
      split; [intros o []|auto].
Qed.

(* ---------------------------------------------------------------- _received_disclosure_for_attest *)
Lemma recv_disclosure_spec s now peer mds toks atts fail s2 outs x :
  recv_disclosure s now peer mds toks atts fail = (s2, outs, x) ->
  same_user s s2 /\
  prefix (dmd s) (dmd s2) /\ prefix (datt s) (datt s2) /\
  (md_valid (dmd s) -> md_valid (dmd s2)) /\ (att_valid (datt s) -> att_valid (datt s2)) /\
  (forall k, k <> peer -> get_tree k (pseus s2) = get_tree k (pseus s)) /\
  (forall P, Sound peer P (get_tree peer (pseus s)) -> exists P', Sound peer P' (get_tree peer (pseus s2))) /\
  (* every row that appears is a verified attestation carried by the message, or the node's own, just sent *)
  (forall r, In r (datt s2) -> In r (datt s) \/
      (r_pk r = peer /\ In (r_auth r, mkAtt (r_mptr r) (r_sig r)) atts /\ att_verify (r_auth r) (mkAtt (r_mptr r) (r_sig r)) = true) \/
      (r_pk r = peer /\ r_auth r = me /\ In (OAttest peer (mkAtt (r_mptr r) (r_sig r))) outs)) /\
  (* every output is a missing-request to the sender, or an attestation with all of the following *)
  (forall o, In o outs ->
      (exists n, o = OReqMissing peer n) \/
      exists m s',
        o = OAttest peer (mkAtt (md_hash m) (mysign (md_hash m))) /\
        In (peer, m) (dmd s2) /\
        should_sign s' now peer (get_tree peer (pseus s2)) m = Ok true /\
        known s' = known s /\ prefix (datt s) (datt s') /\
        Forall (fun t => tverify peer t = true) toks /\
        Forall (fun aa => att_verify (fst aa) (snd aa) = true) atts).
Proof.
  unfold M17_consent.recv_disclosure.
  destruct (existsb (fun kv => bytes_eqb (e_key (snd kv)) peer) (known s)); cbn [negb].
  2:{ intros E. inversion E; subst. unfold same_user.
      split; [auto|]. split; [apply prefix_refl|]. split; [apply prefix_refl|]. split; [auto|]. split; [auto|].
      split; [auto|]. split; [intros P S; exists P; exact S|]. split; [auto|]. intros o []. }
  destruct (substantiate s peer mds toks atts fail) as [s1 r] eqn:SB.
  destruct (substantiate_spec _ _ _ _ _ _ _ _ SB) as [SU [PM [PA [VM [VA [TO [TS [NR CR]]]]]]]].
  assert (NR' : forall r0, In r0 (datt s1) -> In r0 (datt s) \/
      (r_pk r0 = peer /\ In (r_auth r0, mkAtt (r_mptr r0) (r_sig r0)) atts /\
       att_verify (r_auth r0) (mkAtt (r_mptr r0) (r_sig r0)) = true)).
  { intros r0 H0. destruct (NR r0 H0) as [H1|[aa [Ha [Er Va]]]]; [left; assumption|]. right.
    subst r0. simpl. destruct aa as [au [mp sg]]. simpl in *. auto. }
  destruct r as [correct|e].
  2:{ intros E. inversion E; subst.
      split; [assumption|]. split; [assumption|]. split; [assumption|]. split; [assumption|].
      split; [assumption|]. split; [assumption|]. split; [assumption|]. split.
      - intros r0 H0. destruct (NR' r0 H0); auto.
      - intros o []. }
  set (tr := get_tree peer (pseus s1)) in *.
  set (required := map fst (filter (fun kv => bytes_eqb (e_key (snd kv)) peer) (known s1))).
  set (kattrs := map t_chash (elements tr)).
  destruct (correct && existsb (fun h => mem h kattrs) required) eqn:GO.
  - destruct (sign_loop s1 now peer tr (credentials_of peer (dmd s1))) as [[s3 outs3] x3] eqn:SL.
    destruct (sign_loop_spec _ _ _ _ _ _ _ _ SL) as [[K [Ps [Dm [Ch [Mc Pe]]]]] [Pr [V [O R]]]].
    apply andb_true_iff in GO as [GC _]. subst correct. destruct (CR eq_refl) as [CT CAt].
    destruct SU as [U1 [U2 [U3 U4]]].
    assert (COMMON :
      same_user s s3 /\ prefix (dmd s) (dmd s3) /\ prefix (datt s) (datt s3) /\
      (md_valid (dmd s) -> md_valid (dmd s3)) /\ (att_valid (datt s) -> att_valid (datt s3)) /\
      (forall k, k <> peer -> get_tree k (pseus s3) = get_tree k (pseus s)) /\
      (forall P, Sound peer P (get_tree peer (pseus s)) -> exists P', Sound peer P' (get_tree peer (pseus s3))) /\
      (forall r, In r (datt s3) -> In r (datt s) \/
        (r_pk r = peer /\ In (r_auth r, mkAtt (r_mptr r) (r_sig r)) atts /\ att_verify (r_auth r) (mkAtt (r_mptr r) (r_sig r)) = true) \/
        (r_pk r = peer /\ r_auth r = me /\ In (OAttest peer (mkAtt (r_mptr r) (r_sig r))) outs3))).
    { unfold same_user. rewrite K, Ch, Mc, Pe, Dm, Ps.
      split; [auto|]. split; [assumption|]. split; [eapply prefix_trans; eauto|]. split; [assumption|].
      split; [auto|]. split; [assumption|]. split; [assumption|].
      intros r0 H0. destruct (R r0 H0) as [H1|H1]; [|auto]. destruct (NR' r0 H1); auto. }
    assert (OUT : forall o, In o outs3 -> exists m s',
        o = OAttest peer (mkAtt (md_hash m) (mysign (md_hash m))) /\
        In (peer, m) (dmd s3) /\
        should_sign s' now peer (get_tree peer (pseus s3)) m = Ok true /\
        known s' = known s /\ prefix (datt s) (datt s') /\
        Forall (fun t => tverify peer t = true) toks /\
        Forall (fun aa => att_verify (fst aa) (snd aa) = true) atts).
    { intros o Ho. destruct (O o Ho) as [m [s' [A [B [C [D F]]]]]]. exists m, s'.
      split; [assumption|]. split.
      { rewrite Dm. unfold credentials_of in B. apply dedup_by_In in B.
        apply in_map_iff in B as [[k m'] [E1 E2]]. simpl in E1. subst m'.
        apply filter_In in E2 as [E2 E3]. simpl in E3. apply bytes_eqb_eq in E3. subst k. assumption. }
      rewrite Ps. fold tr. split; [assumption|]. split; [congruence|]. split; [eapply prefix_trans; eauto|]. auto. }
    destruct x3 as [e3|]; intros E; inversion E; subst s2 outs x; clear E.
    + destruct COMMON as [C1 [C2 [C3 [C4 [C5 [C6 [C7 C8]]]]]]].
      repeat (split; [assumption|]). intros o Ho. right. apply OUT. assumption.
    + destruct COMMON as [C1 [C2 [C3 [C4 [C5 [C6 [C7 C8]]]]]]].
      split; [assumption|]. split; [assumption|]. split; [assumption|]. split; [assumption|].
      split; [assumption|]. split; [assumption|]. split; [assumption|]. split.
      * intros r0 H0. destruct (C8 r0 H0) as [H1|[H1|[H1 [H2 H3]]]]; auto.
        right. right. split; [assumption|]. split; [assumption|]. apply in_or_app. left. assumption.
      * intros o Ho. apply in_app_or in Ho as [Ho|Ho]; [right; apply OUT; assumption|].
        left. apply in_map_iff in Ho as [h [Eo _]]. eauto.
  - intros E. inversion E; subst s2 outs x; clear E.
    split; [assumption|]. split; [assumption|]. split; [assumption|]. split; [assumption|].
    split; [assumption|]. split; [assumption|]. split; [assumption|]. split.
    + intros r0 H0. destruct (NR' r0 H0); auto.
    + intros o Ho. simpl in Ho. left. apply in_map_iff in Ho as [h [Eo _]]. eauto.
Qed.

End Step.
