(* C09 - every event of a properly timed history preserves the freshness invariant; the bounds. *)
From Coq Require Import ZArith List Bool Lia ZifyBool.
From IPV8V Require Import gen.G09_rules model.M09_reclaim spec.S09_reclaim proofs.P09_alist proofs.P09_sweep
  proofs.P09_inv proofs.P09_ext proofs.P09_special proofs.P09_remove proofs.P09_build.
Import ListNotations.
Open Scope Z_scope.

Section Main.
Variable st : settings.
Hypothesis Hst : settings_ok st.

Lemma inv_side w s : inv_gen st w s -> side_inv s.
Proof. intros (H & _); exact H. Qed.

(* ---------------------------------------------------------------- nothing but `step` moves the clock *)
Ltac crush_now :=
  repeat match goal with
         | |- context [match ?x with _ => _ end] => destruct x
         | |- context [let '(_, _) := ?x in _] => destruct x
         end; simpl; try reflexivity.

Lemma send_cell_now s dst cid mid ls : now (fst (fst (send_cell st s dst cid mid ls))) = now s.
Proof. unfold send_cell. crush_now. Qed.

Lemma start_hop_now s cid c tries ini p ls : now (fst (fst (start_hop st s cid c tries ini p ls))) = now s.
Proof.
  unfold start_hop. destruct (p_next p); [|reflexivity].
  rewrite send_cell_now. reflexivity.
Qed.

Lemma ours_now s cid v p ls : now (fst (fst (ours st s cid v p ls))) = now s.
Proof.
  unfold ours. destruct (aget cid (circuits s)) as [c|]; [|reflexivity].
  destruct (c_unver c); [|reflexivity]. destruct v; try reflexivity.
  match goal with |- context [if ?b then _ else _] => destruct b end.
  - match goal with |- context [match ?x with _ => _ end] => destruct x end; [|reflexivity].
    rewrite start_hop_now. reflexivity.
  - match goal with |- context [if ?b then _ else _] => destruct b end; reflexivity.
Qed.

Lemma handle_now s src cid m ls : now (fst (fst (handle st s src cid m ls))) = now s.
Proof.
  destruct m; simpl; try reflexivity.
  - destruct (aget ident (creates s)) as [cc|].
    + destruct (ahas (cc_from cc) (relays s)); [reflexivity|].
      destruct (aget (cc_from cc) (exits s)); [|reflexivity].
      rewrite send_cell_now. reflexivity.
    + destruct (aget cid (retries s)) as [rt|]; [|reflexivity].
      destruct (rt_ident rt =? ident); [apply ours_now | reflexivity].
  - destruct (aget cid (retries s)) as [rt|]; [|reflexivity].
    destruct (rt_ident rt =? ident); [apply ours_now | reflexivity].
  - match goal with |- context [if ?b then _ else _] => destruct b end; [|reflexivity].
    rewrite send_cell_now. destruct (aget cid (exits s)); reflexivity.
Qed.

(* ---------------------------------------------------------------- cell handlers *)
Lemma handle_inv s src cid m ls :
  tfacts st s -> inv st s -> inv_gen st (Some cid) (fst (fst (handle st s src cid m ls))).
Proof.
  intros Tf Hi. pose proof (inv_side _ _ Hi) as Hs.
  assert (W : forall s', ext s s' -> inv_gen st (Some cid) s').
  { intros s' X. eapply inv_ext; [exact Hst | apply inv_waive; exact Hi | exact X]. }
  destruct m as [ident|ident v p|ident|ident v p|a b c len| | |mid]; simpl.
  - apply W. apply ext_defer; [exact Hs | exact I].
  - destruct (aget ident (creates s)) as [cc|] eqn:Ecc.
    + set (s1 := set_creates (adel ident (creates s)) s).
      assert (X1 : ext s s1) by (apply ext_set_creates; exact Hs).
      destruct (ahas (cc_from cc) (relays s)); [apply W; exact X1|].
      destruct (aget (cc_from cc) (exits s)) as [e|] eqn:Ee; [|apply W; exact X1].
      apply W.
      eapply ext_step; [exact Hs | exact X1|]. intro Hs1.
      set (s2 := defer (DRemove KExit (cc_from cc) 0 true) s1).
      assert (X2 : ext s1 s2) by (apply ext_defer; [exact Hs1 | exact I]).
      eapply ext_step; [exact Hs1 | exact X2|]. intro Hs2.
      match goal with |- ext s2 (fst (fst (send_cell st ?S3 _ _ _ _))) => set (s3 := S3) end.
      assert (X3 : ext s2 s3).
      { unfold s3.
        set (bw := mkRelay (ro_new (now s)) (cc_from cc) (cc_peer cc) false RELAY_EARLY_INIT).
        set (fw := mkRelay (ro_new (now s)) (cc_to cc) (cc_to_peer cc) true RELAY_EARLY_INIT).
        assert (Xa : ext s2 (set_relays (aset (cc_to cc) bw (relays s2)) s2)).
        { apply ext_set_relay; [exact Hs2|]. right. simpl. lia. }
        eapply ext_step; [exact Hs2 | exact Xa|]. intro Hsa.
        pose proof (ext_set_relay (set_relays (aset (cc_to cc) bw (relays s2)) s2) (cc_from cc) fw Hsa) as Xb.
        simpl in Xb. apply Xb. right. simpl. lia. }
      eapply ext_step; [exact Hs2 | exact X3|]. intro Hs3. apply send_cell_ext; exact Hs3.
    + destruct (aget cid (retries s)) as [rt|] eqn:Er; [|apply inv_waive; exact Hi].
      destruct (rt_ident rt =? ident); [|apply inv_waive; exact Hi].
      eapply ours_inv; eauto.
  - apply W. apply ext_defer; [exact Hs | exact I].
  - destruct (aget cid (retries s)) as [rt|] eqn:Er; [|apply inv_waive; exact Hi].
    destruct (rt_ident rt =? ident); [|apply inv_waive; exact Hi].
    eapply ours_inv; eauto.
  - apply inv_waive; exact Hi.
  - destruct (ahas cid (circuits s) || ahas cid (exits s) || ahas cid (relays s)); [|apply inv_waive; exact Hi].
    apply W. destruct (aget cid (exits s)) as [e|] eqn:Ee.
    + eapply ext_step; [exact Hs | |intro Hs1; apply send_cell_ext; exact Hs1].
      apply ext_set_exit; [exact Hs|]. right. simpl. lia.
    + apply send_cell_ext; exact Hs.
  - apply inv_waive; exact Hi.
  - apply inv_waive; exact Hi.
Qed.

Lemma recv_cell_inv s src cid plain early len cr ls :
  tfacts st s -> inv st s -> inv st (fst (recv_cell st s src cid plain early len cr ls)).
Proof.
  intros Tf Hi. pose proof (inv_side _ _ Hi) as Hs. unfold recv_cell.
  assert (E : forall s', ext s s' -> inv st s').
  { intros s' X. eapply inv_ext; [exact Hst | exact Hi | exact X]. }
  destruct (aget cid (relays s)) as [nxt|] eqn:En.
  - (* relayed *)
    set (s1 := match aget (r_next nxt) (relays s) with
               | Some this => set_relays (aset (r_next nxt) (r_with_ro (fun r => ro_down len (ro_beat (now s) r)) this) (relays s)) s
               | None => s end).
    assert (X1 : ext s s1).
    { unfold s1. destruct (aget (r_next nxt) (relays s)) as [this|]; [|apply ext_refl; exact Hs].
      apply ext_set_relay; [exact Hs|]. right. simpl. lia. }
    destruct plain; [apply E; exact X1|].
    destruct (aget cid (relays s1)) as [nxt1|] eqn:En1; [|apply E; exact X1].
    destruct (relay_drops_early early (r_early nxt1) (s_max_early st)); [apply E; exact X1|].
    destruct cr as [| |m]; try (apply E; exact X1).
    destruct (take ls) as [n ls']. simpl. apply E.
    eapply ext_step; [exact Hs | exact X1|]. intro Hs1.
    apply ext_set_relay; [exact Hs1|]. left. exists nxt1. split; [exact En1 | simpl; lia].
  - destruct (negb (ahas cid (circuits s)) && negb (ahas cid (exits s)) && negb plain); [exact Hi|].
    destruct cr as [| |m]; try exact Hi.
    destruct (recv_drops_early early (msg_id m) (s_max_early st)); [exact Hi|].
    destruct (plain && negb (existsb (Z.eqb (msg_id m)) NO_CRYPTO_PACKETS)); [exact Hi|].
    assert (G : forall s1 (o : list out), inv_gen st (Some cid) s1 -> now s1 = now s ->
              inv st (fst match aget cid (circuits s1) with
                          | Some c => (set_circuits (aset cid (c_with_ro (fun r => ro_down len (ro_beat (now s) r)) c) (circuits s1)) s1, o)
                          | None => (s1, o)
                          end)).
    { intros s1 o H1 En1. pose proof (refresh_inv st Hst cid len s1 H1) as R. rewrite En1 in R.
      destruct (aget cid (circuits s1)); exact R. }
    assert (GH : forall M, inv st (fst (let '(s1, o) := (let '(s', o', _) := handle st s src cid M ls in (s', o')) in
                              match aget cid (circuits s1) with
                              | Some c => (set_circuits (aset cid (c_with_ro (fun r => ro_down len (ro_beat (now s) r)) c) (circuits s1)) s1, o)
                              | None => (s1, o)
                              end))).
    { intro M. pose proof (handle_inv s src cid M ls Tf Hi) as H1. pose proof (handle_now s src cid M ls) as H2.
      destruct (handle st s src cid M ls) as [[s' o'] l']. simpl in H1, H2. apply G; assumption. }
    destruct m as [ident|ident v p|ident|ident v p|a b c dl| | |mid]; try apply GH.
    pose proof (handle_data_ext s src cid a b c dl Hs) as X.
    destruct (handle_data s src cid a b c dl) as [s1 o]. simpl in X.
    apply G; [|exact (x_now _ _ X)].
    eapply inv_ext; [exact Hst | apply inv_waive; exact Hi | exact X].
Qed.

(* ---------------------------------------------------------------- deferred handler bodies *)
Lemma run_other_ext s d eo tg tc nb p ls :
  side_inv s -> ~ relevant d -> ext s (fst (run_deferred st s d eo tg tc nb p ls)).
Proof.
  intros Hs Hd. destruct d as [k c dd rn|src cid ident|src cid ident|c t i|cid]; simpl in Hd; try (exfalso; apply Hd; exact I).
  - (* on_create *)
    simpl. destruct (negb (s_any_flag st)); [apply ext_refl; exact Hs|].
    destruct (ahas cid (createds s)); [apply ext_refl; exact Hs|].
    destruct (ahas cid (circuits s) || ahas cid (relays s) || ahas cid (exits s)); [apply ext_refl; exact Hs|].
    destruct (negb (should_join (s_max_joined st) (zlen (relays s)) (zlen (exits s)))); [apply ext_refl; exact Hs|].
    set (s1 := set_createds (aset cid (now s + s_unstable_timeout st) (createds s)) s).
    set (s2 := set_exits (aset cid (mkExit (ro_new (now s)) src false false []) (exits s1)) s1).
    rewrite fst_let3.
    assert (X1 : ext s s1) by (apply ext_set_createds; exact Hs).
    eapply ext_step; [exact Hs | exact X1|]. intro Hs1.
    assert (X2 : ext s1 s2) by (apply ext_set_exit; [exact Hs1 | right; simpl; lia]).
    eapply ext_step; [exact Hs1 | exact X2|]. intro Hs2. apply send_cell_ext; exact Hs2.
  - (* on_extend *)
    simpl. destruct (negb (s_relay_flag st)); [apply ext_refl; exact Hs|].
    destruct (negb (ahas cid (createds s))); [apply ext_refl; exact Hs|].
    destruct (negb eo); [apply ext_refl; exact Hs|].
    match goal with |- context [match ?x with Some _ => _ | None => _ end] => destruct x as [prev|] end;
      [|apply ext_refl; exact Hs].
    rewrite fst_let3.
    eapply ext_step; [exact Hs | apply ext_set_creates; exact Hs|]. intro Hs1. apply send_cell_ext; exact Hs1.
  - (* create_transports *)
    simpl. destruct (aget cid (exits s)) as [e|] eqn:Ee; [|apply ext_refl; exact Hs].
    destruct (e_enabled e && negb (e_open e)); [|apply ext_refl; exact Hs].
    pose proof (drain_la cid (e_queue e) (mkExit (e_ro e) (e_peer e) true true []) (now s)) as Hl.
    destruct (drain cid (mkExit (e_ro e) (e_peer e) true true []) (e_queue e) (now s)) as [e2 o]. simpl in Hl. simpl.
    apply ext_set_exit; [exact Hs|]. destruct Hl as [Hl|Hl]; [left; exists e; split; [exact Ee | lia] | right; lia].
Qed.

(* ---------------------------------------------------------------- one event, any history *)
Lemma step_at_inv s e : tfacts st s -> inv st s -> inv st (fst (step_at st s e)).
Proof.
  intros Tf Hi. pose proof (inv_side _ _ Hi) as Hs.
  assert (E : forall s', ext s s' -> inv st s').
  { intros s' X. eapply inv_ext; [exact Hst | exact Hi | exact X]. }
  destruct e as [src cid plain early len cr ls|src cid reason| |ls|i eo tg tc nb p ls|i|cid|cid|number
                 |cid goal p ls|k cid dd rn|dst cid ls|cid len allowed ls].
  - apply recv_cell_inv; assumption.
  - simpl. apply E. apply recv_destroy_ext; exact Hs.
  - simpl. apply inv_sweep; [apply Tf | exact Hi].
  - simpl. apply E. apply ping_all_ext; exact Hs.
  - cbn [step_at]. destruct (nth_error (starts s) i) as [d|] eqn:En; [|exact Hi].
    destruct d as [k c dd rn|src cid ident|src cid ident|c t ini|cid].
    + apply inv_run_remove; assumption.
    + assert (Hi0 : inv st (set_starts (remove_nth i (starts s)) s)).
      { eapply inv_drop_start; eauto. }
      eapply inv_ext; [exact Hst | exact Hi0|]. apply run_other_ext; [apply Hi0 | simpl; tauto].
    + assert (Hi0 : inv st (set_starts (remove_nth i (starts s)) s)).
      { eapply inv_drop_start; eauto. }
      eapply inv_ext; [exact Hst | exact Hi0|]. apply run_other_ext; [apply Hi0 | simpl; tauto].
    + apply inv_run_retry; assumption.
    + assert (Hi0 : inv st (set_starts (remove_nth i (starts s)) s)).
      { eapply inv_drop_start; eauto. }
      eapply inv_ext; [exact Hst | exact Hi0|]. apply run_other_ext; [apply Hi0 | simpl; tauto].
  - cbn [step_at]. destruct (nth_error (sleeping s) i) as [[[due k] cid]|] eqn:En; [|exact Hi].
    eapply inv_wake; eauto.
  - apply inv_retry_timeout; assumption.
  - simpl. apply E. apply ext_set_createds; exact Hs.
  - simpl. apply E. apply ext_set_creates; exact Hs.
  - apply inv_create_circuit; assumption.
  - simpl. apply E. apply ext_defer; [exact Hs | exact I].
  - simpl. rewrite fst_let3. apply E. apply send_cell_ext; exact Hs.
  - simpl. destruct (aget cid (exits s)) as [e|] eqn:Ee; [|exact Hi].
    assert (X1 : ext s (set_exits (aset cid (e_with_ro (ro_down len) e) (exits s)) s)).
    { apply ext_set_exit; [exact Hs|]. left. exists e. split; [exact Ee | simpl; lia]. }
    destruct allowed; [|apply E; exact X1].
    rewrite fst_let3. apply E. eapply ext_step; [exact Hs | exact X1|]. intro Hs1. apply send_cell_ext; exact Hs1.
Qed.

Lemma step_inv s t e : on_time st s t = true -> inv st s -> inv st (fst (step st s (t, e))).
Proof.
  intros Ht Hi. apply on_time_facts in Ht. destruct Ht as (Hle & Hor & Tf).
  unfold step. simpl fst. simpl snd. apply step_at_inv; [exact Tf|].
  apply inv_set_now; assumption.
Qed.

Lemma fst_run_cons s te tl : fst (run st s (te :: tl)) = fst (run st (fst (step st s te)) tl).
Proof.
  simpl. destruct (step st s te) as [s1 o1]. simpl. destruct (run st s1 tl) as [s2 o2]. reflexivity.
Qed.

Lemma run_inv tr : forall s, timely st s tr = true -> inv st s -> inv st (fst (run st s tr)).
Proof.
  induction tr as [|[t e] tl IH]; intros s Ht Hi; [exact Hi|].
  simpl in Ht. apply andb_true_iff in Ht. destruct Ht as [H1 H2].
  rewrite fst_run_cons. apply IH; [exact H2|]. apply step_inv; assumption.
Qed.

Lemma inv_init t : inv st (init_node t).
Proof.
  unfold inv, inv_gen, init_node, side_inv, relay_inv, exit_inv, retries_inv, dretries_inv, circ_inv; simpl.
  repeat split; try lia; try (intros; discriminate); try (intros; contradiction).
Qed.

(* ---------------------------------------------------------------- the bounds *)
(* read off the invariant at any properly timed moment t *)
Lemma entry_bound k cid r s t :
  on_time st s t = true -> entry_ok st k cid r s -> t <= la r + B_entry st.
Proof.
  intros Ht Hok. apply on_time_facts in Ht. destruct Ht as (Hle & Hor & (T1 & T2 & T3)). simpl in T1, T2, T3.
  destruct Hst as (Hmi & Hsw & Hd & _).
  destruct Hok as [[(dd & rn & Hin & Hb)|(due & Hin & Hb)]|Hls]; unfold B_entry in *.
  - destruct Hor as [Hor|Hor]; [lia | rewrite Hor in Hin; destruct Hin].
  - specialize (T2 _ Hin). simpl in T2. lia.
  - lia.
Qed.

Lemma relay_bound_l s t cid r :
  inv st s -> on_time st s t = true -> aget cid (relays s) = Some r -> t <= la (r_ro r) + B_entry st.
Proof. intros (_ & Hrel & _) Ht H. eapply entry_bound; eauto. Qed.

Lemma exit_bound_l s t cid e :
  inv st s -> on_time st s t = true -> aget cid (exits s) = Some e -> t <= la (e_ro e) + B_entry st.
Proof. intros (_ & _ & Hex & _) Ht H. eapply entry_bound; eauto. Qed.

Lemma circuit_bound_l s t cid c :
  inv st s -> on_time st s t = true -> aget cid (circuits s) = Some c -> t <= circuit_deadline st c.
Proof.
  intros Hi Ht H. pose proof Hi as (Hside & _ & _ & Hrt & Hdr & Hc).
  pose proof Ht as Ht'. apply on_time_facts in Ht'. destruct Ht' as (Hle & Hor & Tf).
  specialize (Hc _ _ H). destruct (c_closing c) eqn:Ecl.
  - unfold circ_ok in Hc. rewrite Ecl in Hc. destruct Hc as (due & Hin & Hb).
    destruct Tf as (_ & T2 & _). specialize (T2 _ Hin). simpl in T2. lia.
  - (* use the same reasoning as when a circuit closes, at time t *)
    assert (Hi' : inv st (set_now t s)) by (apply inv_set_now; assumption).
    pose proof Hi' as (Hside' & _ & _ & Hrt' & Hdr' & Hc').
    specialize (Hc' _ _ H).
    destruct (open_circuit_within st Hst (set_now t s) cid c Tf Hside' Hrt' Hdr' H Ecl Hc') as [Hw|(due & Hin & Hb)].
    + simpl in Hw. destruct Hst as (_ & _ & Hd & _). lia.
    + destruct Tf as (_ & T2 & _). specialize (T2 _ Hin). simpl in T2. lia.
Qed.

End Main.
