(* C09 - the events that are more than harmless extensions: time passing, the sweep, the two halves
   of a remove_* task. *)
From Coq Require Import ZArith List Bool Lia ZifyBool.
From IPV8V Require Import gen.G09_rules model.M09_reclaim spec.S09_reclaim proofs.P09_alist proofs.P09_sweep
  proofs.P09_inv proofs.P09_ext.
Import ListNotations.
Open Scope Z_scope.

Section Special.
Variable st : settings.
Hypothesis Hst : settings_ok st.

(* what `on_time` guarantees at the moment an event is processed *)
Definition tfacts (s : node) : Prop :=
  now s - last_sweep s <= s_sweep st
  /\ (forall x, In x (sleeping s) -> now s <= fst (fst x))
  /\ (forall cid rt, aget cid (retries s) = Some rt -> now s <= rt_due rt).

Lemma on_time_facts s t :
  on_time st s t = true ->
  now s <= t /\ (now s = t \/ starts s = []) /\ tfacts (set_now t s).
Proof.
  unfold on_time. rewrite !andb_true_iff. intros ((((H1 & H2) & H3) & H4) & H5).
  split; [lia|]. split.
  - apply orb_true_iff in H5. destruct H5 as [H5|H5]; [left; lia | right; destruct (starts s); [reflexivity|discriminate]].
  - unfold tfacts; simpl. split; [lia|]. split.
    + intros x Hin. rewrite forallb_forall in H3. specialize (H3 _ Hin). lia.
    + intros cid rt Hg. rewrite forallb_forall in H4. specialize (H4 _ (aget_in _ _ _ Hg)). simpl in H4. lia.
Qed.

(* ---------------------------------------------------------------- time passes *)
Lemma scheduled_set_now k cid T s t :
  (now s = t \/ starts s = []) -> scheduled st k cid T s -> scheduled st k cid T (set_now t s).
Proof.
  intros Ht [(dd & rn & Hin & Hle)|(due & Hin & Hle)]; [left | right].
  - exists dd, rn. simpl. split; [exact Hin|]. destruct Ht as [Ht|Ht]; [lia | rewrite Ht in Hin; destruct Hin].
  - exists due. simpl. auto.
Qed.

Lemma entry_ok_set_now k cid r s t :
  (now s = t \/ starts s = []) -> entry_ok st k cid r s -> entry_ok st k cid r (set_now t s).
Proof. intros Ht [H|H]; [left; apply scheduled_set_now; assumption | right; exact H]. Qed.

Lemma inv_set_now w s t :
  now s <= t -> (now s = t \/ starts s = []) -> inv_gen st w s -> inv_gen st w (set_now t s).
Proof.
  intros Hle Ht (Hside & Hrel & Hex & Hrt & Hdr & Hc).
  split; [|split; [|split; [|split; [|split]]]].
  - destruct Hside as [H1 H2]. split; simpl; [lia|]. intros cid c H. destruct (H2 _ _ H). split; lia.
  - intros cid r H. apply entry_ok_set_now; [exact Ht|]. apply Hrel; exact H.
  - intros cid e H. apply entry_ok_set_now; [exact Ht|]. apply Hex; exact H.
  - exact Hrt.
  - intros cid tries ini H. simpl in H. destruct (Hdr _ _ _ H) as (D1 & D2 & D3).
    split; [exact D1|]. split; [exact D2|]. intros c Hc'. specialize (D3 _ Hc'). unfold dretry_ok in *. simpl.
    destruct Ht as [Ht|Ht]; [lia | rewrite Ht in H; destruct H].
  - intros cid c H. specialize (Hc _ _ H). unfold circ_ok in *. simpl in *.
    destruct (c_closing c); [exact Hc|]. destruct (c_goal c <=? c_hops c).
    + destruct Hc as [Hc|Hc]; [left; exact Hc | right; apply entry_ok_set_now; assumption].
    + destruct Hc as [Hc|[Hc|Hc]]; [left; exact Hc | right; left; exact Hc | right; right].
      apply scheduled_set_now; assumption.
Qed.

(* ---------------------------------------------------------------- the task queue changes in ways
   that do not concern removal tasks and retry tasks *)
Definition relevant (d : deferred) : Prop :=
  match d with DRemove _ _ _ _ | DRetry _ _ _ => True | _ => False end.

Lemma scheduled_starts k cid T s ns :
  (forall x, relevant x -> In x (starts s) -> In x ns) ->
  scheduled st k cid T s -> scheduled st k cid T (set_starts ns s).
Proof.
  intros Hn [(dd & rn & Hin & Hle)|(due & Hin & Hle)]; [left | right].
  - exists dd, rn. simpl. split; [apply Hn; [exact I | exact Hin] | exact Hle].
  - exists due. simpl. auto.
Qed.

Lemma inv_starts_change w s ns :
  (forall x, relevant x -> (In x (starts s) <-> In x ns)) -> inv_gen st w s -> inv_gen st w (set_starts ns s).
Proof.
  intros Hn (Hside & Hrel & Hex & Hrt & Hdr & Hc).
  assert (Hn1 : forall x, relevant x -> In x (starts s) -> In x ns) by (intros x R; apply Hn; exact R).
  split; [exact Hside|]. split; [|split; [|split; [|split]]].
  - intros cid r H. destruct (Hrel _ _ H) as [G|G]; [left; apply scheduled_starts; assumption | right; exact G].
  - intros cid e H. destruct (Hex _ _ H) as [G|G]; [left; apply scheduled_starts; assumption | right; exact G].
  - exact Hrt.
  - intros cid tries ini H. simpl in H. apply (Hn (DRetry cid tries ini) I) in H. exact (Hdr _ _ _ H).
  - intros cid c H. specialize (Hc _ _ H). unfold circ_ok in *. simpl in *.
    destruct (c_closing c); [exact Hc|]. destruct (c_goal c <=? c_hops c).
    + destruct Hc as [Hc|[Hc|Hc]]; [left; exact Hc | right; left; apply scheduled_starts; assumption | right; right; exact Hc].
    + destruct Hc as [Hc|[(tries & ini & Hin)|Hc]]; [left; exact Hc | right; left | right; right].
      * exists tries, ini. apply Hn1; [exact I | exact Hin].
      * apply scheduled_starts; assumption.
Qed.

Lemma inv_drop_start w s i d :
  nth_error (starts s) i = Some d -> ~ relevant d -> inv_gen st w s ->
  inv_gen st w (set_starts (remove_nth i (starts s)) s).
Proof.
  intros Hn Hd Hi. apply inv_starts_change; [|exact Hi].
  intros x R. split; [|apply in_remove_nth].
  intro Hin. eapply in_remove_nth_other; eauto. intro E; subst; contradiction.
Qed.

(* ---------------------------------------------------------------- the sweep *)
Lemma in_sweep_spec_remove d s : In d (sweep_spec st s) -> exists k cid dd, d = DRemove k cid dd false.
Proof.
  unfold sweep_spec. rewrite !in_app_iff, !in_flat_map.
  intros [[[k c] [_ H]]|[[[k r] [_ H]]|[[k e] [_ H]]]]; apply in_dropped in H; destruct H as (b & _ & H); eauto.
Qed.

Lemma sweep_entry_ok k cid r s s' :
  now s - last_sweep s <= s_sweep st ->
  now s' = now s -> last_sweep s' = now s ->
  (forall x, In x (starts s) -> In x (starts s')) -> sleeping s' = sleeping s ->
  (la r + s_max_inactive st < now s -> exists dd, In (DRemove k cid dd false) (starts s')) ->
  entry_ok st k cid r s -> entry_ok st k cid r s'.
Proof.
  intros Ht Hn Hl Hs Hsl Hrule [[(dd & rn & Hin & Hle)|(due & Hin & Hle)]|H].
  - left; left. exists dd, rn. split; [apply Hs; exact Hin | lia].
  - left; right. exists due. rewrite Hsl. auto.
  - destruct (Z_lt_le_dec (la r + s_max_inactive st) (now s)) as [Hlt|Hge].
    + destruct (Hrule Hlt) as (dd & Hin). left; left. exists dd, false. split; [exact Hin|].
      unfold B_entry. lia.
    + right. lia.
Qed.

Lemma inv_sweep s :
  now s - last_sweep s <= s_sweep st -> inv st s -> inv st (sweep st s).
Proof.
  intros Ht (Hside & Hrel & Hex & Hrt & Hdr & Hc).
  pose proof (sweep_sound_l st s) as (E1 & E2 & E3 & E4 & E5 & E6).
  assert (En : now (sweep st s) = now s) by reflexivity.
  assert (Hs : forall x, In x (starts s) -> In x (starts (sweep st s))).
  { intros x H. rewrite E1. apply in_or_app; left; exact H. }
  split; [|split; [|split; [|split; [|split]]]].
  - destruct Hside as [H1 H2]. split; [rewrite E6, En; lia|]. rewrite E2, En. exact H2.
  - intros cid r H. rewrite E3 in H. eapply sweep_entry_ok; eauto.
    intro Hlt. exists 0. rewrite E1. apply in_or_app; right.
    apply (sweep_schedules_relay_l st s cid 0 false). exists r, false.
    split; [apply aget_in; exact H|]. split; [|split; reflexivity].
    unfold relay_verdict, inactive. destruct (la (r_ro r) + s_max_inactive st <? now s) eqn:E; [reflexivity | lia].
  - intros cid e H. rewrite E4 in H. eapply sweep_entry_ok; eauto.
    intro Hlt. exists 0. rewrite E1. apply in_or_app; right.
    apply (sweep_schedules_exit_l st s cid 0 false). exists e, false.
    split; [apply aget_in; exact H|]. split; [|split; reflexivity].
    unfold exit_verdict, inactive. destruct (la (e_ro e) + s_max_inactive st <? now s) eqn:E; [reflexivity | lia].
  - intros cid rt c H1 H2. rewrite E2 in H2. exact (Hrt _ _ _ H1 H2).
  - intros cid tries ini H. rewrite E1 in H. apply in_app_or in H. destruct H as [H|H].
    + destruct (Hdr _ _ _ H) as (D1 & D2 & D3). split; [exact D1|]. split; [exact D2|].
      intros c Hc'. rewrite E2 in Hc'. exact (D3 _ Hc').
    + apply in_sweep_spec_remove in H. destruct H as (k & c' & dd & H); discriminate.
  - intros cid c H. rewrite E2 in H. specialize (Hc _ _ H). unfold circ_ok in *.
    destruct (c_closing c) eqn:Ecl.
    + rewrite E5. exact Hc.
    + destruct (c_goal c <=? c_hops c) eqn:Erd.
      * destruct Hc as [[]|Hc]. right. eapply sweep_entry_ok; eauto.
        intro Hlt. exists 0. rewrite E1. apply in_or_app; right.
        apply (sweep_schedules_circuit_l st s cid 0 false). exists c, false.
        split; [apply aget_in; exact H|]. split; [|split; reflexivity].
        unfold circuit_verdict, c_ready, inactive. rewrite Ecl, Erd. simpl.
        destruct (la (c_ro c) + s_max_inactive st <? now s) eqn:E; [reflexivity | lia].
      * destruct Hc as [Hc|[(tries & ini & Hin)|Hc]]; [left; exact Hc | right; left | right; right].
        -- exists tries, ini. apply Hs; exact Hin.
        -- destruct Hc as [(dd & rn & Hin & Hle)|(due & Hin & Hle)]; [left | right].
           ++ exists dd, rn. split; [apply Hs; exact Hin | rewrite En; exact Hle].
           ++ exists due. rewrite E5. auto.
Qed.

End Special.
