(* The generated TunnelEndpoint (gen/G07_tunnel_ep.v) computes exactly what the hand model M07_tunnel_ep computes.
   Proofs are by evaluation of the generated terms (cbn) along the case analysis of the hand model, so that
   renamed locals, reordered independent statements and equivalent tests do not disturb them. *)
From Coq Require Import ZArith List Bool Lia ZifyBool Arith.
From IPV8V Require Import lib.PyErr lib.Bytes gen.G07_consts model.M07_tunnel_ep model.M07_tunnel_ep_rt
  gen.G07_tunnel_ep model.M07_tunnel_ep_gen spec.S07_anon_spec proofs.P07_tunnel_ep.
Import ListNotations.
Open Scope Z_scope.
Open Scope m_scope.

(* ------------------------------------------------------------------ find_circuits *)
Lemma zsubset_single x l : zsubset [x] l = zmem x l.
Proof. unfold zsubset. cbn [forallb]. apply andb_true_r. Qed.

Lemma gen_find_circuits_l h cs :
  g_find_circuits cs (Some CTYPE_DATA) None (Some [PEER_FLAG_EXIT_IPV8]) (Some h) = filter (matches h) cs.
Proof.
  unfold g_find_circuits. apply filter_ext. intros c. unfold matches. rewrite ?zsubset_single.
  change PEER_FLAG_EXIT_IPV8 with 4. change CTYPE_DATA with 0.
  destruct (c_ctype c =? 0), (zmem 4 (exit_flags c)), (h =? c_goal c); reflexivity.
Qed.

(* find_circuits as a specification: exactly the circuits meeting every given criterion, in dict order *)
Definition fc_ok (ctype : option Z) (state : option cstate) (fl : option (list Z)) (hops : option Z) (c : circ) : bool :=
  match state with None => true | Some s => cstate_eqb (state_of c) s end
  && match ctype with None => true | Some t => c_ctype c =? t end
  && match fl with None => true | Some f => zsubset f (exit_flags c) end
  && match hops with None => true | Some h => h =? c_goal c end.

Lemma gen_find_circuits_spec_l cs ctype state fl hops :
  g_find_circuits cs ctype state fl hops = filter (fc_ok ctype state fl hops) cs.
Proof.
  unfold g_find_circuits. apply filter_ext. intros c. unfold fc_ok.
  destruct state, ctype, fl, hops; cbn;
    repeat match goal with |- context [?a =? ?b] => destruct (a =? b) end;
    repeat match goal with |- context [cstate_eqb ?a ?b] => destruct (cstate_eqb a b) end;
    repeat match goal with |- context [zsubset ?a ?b] => destruct (zsubset a b) end; reflexivity.
Qed.

Lemma gen_find_defaults_l :
  g_find_circuits_default_ctype = Some CTYPE_DATA /\ g_find_circuits_default_state = Some READY
  /\ g_find_circuits_default_exit_flags = None /\ g_find_circuits_default_hops = None.
Proof. repeat split; reflexivity. Qed.

(* ------------------------------------------------------------------ small facts *)
Lemma bytes_prefix_pfx p : bytes_prefix PREFIX_LEN p = pfx_of p.
Proof. unfold bytes_prefix, pfx_of. apply slice_prefix. discriminate. Qed.

Definition with_queue (e : ep) (q : list (addr * bytes)) : ep :=
  mkEp (e_hops e) (e_tc e) (e_settings e) q (e_qmax e).

(* the flush loop: a body that pops one element and records f of it empties the queue in order *)
Lemma mwhile_flush (body : M unit) (f : addr * bytes -> out) :
  (forall x tl e w outs d, e_queue e = x :: tl ->
     body (mkGS e w outs d) = Ok (tt, mkGS (with_queue e tl) w (outs ++ [f x]) d)) ->
  forall q fuel e w outs d, e_queue e = q -> (length q < fuel)%nat ->
    mwhile fuel queue_nonempty body (mkGS e w outs d)
    = Ok (tt, mkGS (with_queue e []) w (outs ++ map f q) d).
Proof.
  intros Hb q. induction q as [|x tl IH]; intros fuel e w outs d Hq Hf.
  - destruct fuel as [|fuel]; [inversion Hf|]. cbn [mwhile]. unfold mbind, queue_nonempty. cbn [g_ep].
    rewrite Hq. cbn [map]. rewrite app_nil_r. unfold mret, with_queue. destruct e; cbn in *. subst. reflexivity.
  - destruct fuel as [|fuel]; [inversion Hf|]. cbn [mwhile]. unfold mbind at 1. unfold queue_nonempty at 1. cbn [g_ep].
    rewrite Hq. unfold mseq, mbind. rewrite (Hb x tl e w outs d Hq).
    rewrite (IH fuel (with_queue e tl) w (outs ++ [f x]) d); [|reflexivity|cbn [length] in Hf; lia].
    cbn [map]. rewrite <- app_assoc. reflexivity.
Qed.

Lemma deque_append_enqueue q x :
  deque_append (Some SEND_QUEUE_MAXLEN) q x = fst (enqueue q x).
Proof.
  pose proof maxlen_pos as Hp. unfold deque_append, enqueue.
  destruct (Z.of_nat (length q) <? SEND_QUEUE_MAXLEN) eqn:E; [reflexivity|].
  destruct (SEND_QUEUE_MAXLEN <=? 0) eqn:E0; [lia|].
  destruct q as [|[ea ep_] tl]; reflexivity.
Qed.

Lemma calls_enqueue q x : calls (snd (enqueue q x)) = [].
Proof.
  unfold enqueue. destruct (Z.of_nat (length q) <? SEND_QUEUE_MAXLEN); [reflexivity|].
  destruct q as [|[ea ep_] tl]; reflexivity.
Qed.

Lemma calls_map_tunnel c q : calls (map (tunnel_out c) q) = map (tunnel_out c) q.
Proof. induction q as [|x q IH]; [reflexivity|]. cbn [map calls filter tunnel_out is_call]. f_equal. exact IH. Qed.

Lemma st_eta s : mkSt (settings s) (attached s) (hops_cfg s) (queue s) (circuits s) (next_id s) = s.
Proof. destruct s; reflexivity. Qed.

Lemma is_some_attached (b : bool) : is_some (if b then Some TheCommunity else None) = b.
Proof. destruct b; reflexivity. Qed.

(* ------------------------------------------------------------------ send *)
Arguments mwhile : simpl never.
Arguments g_find_circuits : simpl never.
Arguments deque_append : simpl never.
Arguments enqueue : simpl never.
Arguments calls : simpl never.
Arguments dict_get : simpl never.
Arguments dict_set : simpl never.
Arguments filter : simpl never.

Lemma to_st_of s : to_st (ep_of s) (w_of s) = s.
Proof. unfold to_st, ep_of, w_of. cbn. rewrite is_some_attached. apply st_eta. Qed.

(* the lookup send() asks for: DATA circuits, any state, exit flags containing EXIT_IPV8, goal_hops = hops *)
Lemma fc_ok_send h c : fc_ok (Some 0) None (Some [4]) (Some h) c = matches h c.
Proof.
  unfold fc_ok, matches. rewrite zsubset_single. change PEER_FLAG_EXIT_IPV8 with 4. change CTYPE_DATA with 0.
  destruct (c_ctype c =? 0), (zmem 4 (exit_flags c)), (h =? c_goal c); reflexivity.
Qed.

Lemma find_send h cs : g_find_circuits cs (Some 0) None (Some [4]) (Some h) = filter (matches h) cs.
Proof. rewrite gen_find_circuits_spec_l. apply filter_ext. apply fc_ok_send. Qed.

Lemma calls_cons o l : calls (o :: l) = if is_call o then o :: calls l else calls l.
Proof. reflexivity. Qed.

Ltac fin_append s a p Eat :=
  rewrite deque_append_enqueue;
  let Hc := fresh "Hc" in
  pose proof (calls_enqueue (queue s) (a, p)) as Hc;
  destruct (enqueue (queue s) (a, p)) as [q o]; cbn [fst snd] in *;
  unfold to_st, set_queue, add_circuit, w_of; cbn; rewrite ?Eat, ?calls_cons, ?Hc; cbn; try reflexivity.

Lemma gen_send_refines_l s a p nh :
  exec (g_send (model_rt nh) (fuel_for s) a p) s = Ok (fst (send s a p nh), calls (snd (send s a p nh))).
Proof.
  unfold exec, g_send, send, anon_on, switch.
  change 22 with PREFIX_LEN. rewrite bytes_prefix_pfx.
  cbn.
  destruct (dict_get (settings s) _) as [[|]|]; cbn;
    try (fold (ep_of s); fold (w_of s); rewrite to_st_of; reflexivity).
  destruct (attached s) eqn:Eat; cbn; rewrite ?Eat; cbn.
  2:{ fold (ep_of s). fold (w_of s). rewrite to_st_of. reflexivity. }
  rewrite find_send.
  destruct (filter (matches (hops_cfg s)) (circuits s)) as [|c tl]; cbn.
  - destruct nh as [h|]; cbn; fin_append s a p Eat.
  - unfold is_ready. destruct (state_of c); cbn; try (rewrite ?Eat; fin_append s a p Eat).
    (* READY: this packet, then the flush loop *)
    match goal with
    | |- context [(mwhile ?fu ?co ?bo ;;; ?k) ?g] =>
        change ((mwhile fu co bo ;;; k) g) with
          (match mwhile fu co bo g with Ok (_, g1) => k g1 | Raise e => Raise e end)
    end.
    erewrite mwhile_flush with (f := tunnel_out c) (q := queue s).
    + cbn. unfold to_st, set_queue. cbn. rewrite Eat, calls_cons, calls_map_tunnel. reflexivity.
    + intros [xa xp] tl0 e w outs d Hq. unfold mbind, mseq, queue_popleft. cbn [g_ep]. rewrite Hq. reflexivity.
    + reflexivity.
    + unfold fuel_for. lia.
Qed.

(* ------------------------------------------------------------------ every operation *)
Ltac fin_simple s :=
  unfold exec; cbn; unfold to_st, w_of; cbn; rewrite ?is_some_attached; try reflexivity.

Lemma gen_step_refines_l s o : step_gen s o = Ok (fst (step s o), calls (snd (step s o))).
Proof.
  destruct o as [a p nh|pfx b|pfx|h| |pfx an|pfx|g ct uh|k h|k|k]; cbn [step_gen step].
  - apply gen_send_refines_l.
  - fin_simple s.
  - fin_simple s.
  - fin_simple s.
  - fin_simple s.
  - destruct an; [fin_simple s|reflexivity].
  - fin_simple s.
  - reflexivity.
  - reflexivity.
  - reflexivity.
  - reflexivity.
Qed.

Lemma gen_init_l : init_gen = Ok (ep_of init, w_of init).
Proof. reflexivity. Qed.

Lemma gen_never_raises_l s o : exists s' outs, step_gen s o = Ok (s', outs).
Proof. rewrite gen_step_refines_l. eauto. Qed.

Lemma in_calls o l : In o (calls l) -> In o l.
Proof. unfold calls. intros H. apply filter_In in H as [H _]. exact H. Qed.

Lemma raw_in_calls a p l : In (Raw a p) l -> In (Raw a p) (calls l).
Proof. intros H. unfold calls. apply filter_In. split; [exact H|reflexivity]. Qed.

Lemma step_gen_inv s o s' outs : step_gen s o = Ok (s', outs) -> s' = fst (step s o) /\ outs = calls (snd (step s o)).
Proof. rewrite gen_step_refines_l. intros H. inversion H. split; reflexivity. Qed.

(* ------------------------------------------------------------------ the property theorems, transferred *)
Lemma gen_anon_never_raw_l s o s' outs a p : step_gen s o = Ok (s', outs) -> In (Raw a p) outs ->
  anon_on s p = false /\ exists nh, o = Send a p nh.
Proof.
  intros H Hin. apply step_gen_inv in H as [_ Ho]. subst outs. apply in_calls in Hin. apply step_raw. exact Hin.
Qed.

Lemma gen_flush_never_raw_l s a p nh s' outs : step_gen s (Send a p nh) = Ok (s', outs) ->
  anon_on s p = true -> forall b q, ~ In (Raw b q) outs.
Proof.
  intros H Hon b q Hin. apply step_gen_inv in H as [_ Ho]. subst outs. apply in_calls in Hin.
  exact (flush_never_raw_l s a p nh Hon b q Hin).
Qed.

Lemma gen_queued_never_raw_l s o s' outs e : step_gen s o = Ok (s', outs) ->
  In e (queue s) -> In (Raw (fst e) (snd e)) outs ->
  (exists nh, o = Send (fst e) (snd e) nh) /\ anon_on s (snd e) = false /\ s' = s.
Proof.
  intros H Hq Hin. apply step_gen_inv in H as [Hs Ho]. subst outs s'. apply in_calls in Hin.
  exact (queued_never_raw_l s o e Hq Hin).
Qed.

Lemma gen_anon_send_fate_l s a p nh s' outs : step_gen s (Send a p nh) = Ok (s', outs) ->
  anon_on s p = true -> exists outs_h, fate s a p outs_h s' /\ outs = calls outs_h.
Proof.
  intros H Hon. apply step_gen_inv in H as [Hs Ho]. subst. exists (snd (step s (Send a p nh))).
  split; [|reflexivity]. cbn [step]. apply send_anon_fate. exact Hon.
Qed.

Lemma gen_tunnel_wellformed_l s o s' outs : step_gen s o = Ok (s', outs) -> Forall (tunnel_ok s) outs.
Proof.
  intros H. apply step_gen_inv in H as [_ Ho]. subst. pose proof (step_tunnel_ok s o) as Ht.
  rewrite Forall_forall in *. intros x Hx. apply Ht. apply in_calls. exact Hx.
Qed.

Lemma gen_queue_origin_l s o s' outs e : step_gen s o = Ok (s', outs) -> In e (queue s') ->
  In e (queue s) \/ (exists nh, o = Send (fst e) (snd e) nh /\ anon_on s (snd e) = true).
Proof. intros H Hin. apply step_gen_inv in H as [Hs _]. subst. apply step_queue_origin. exact Hin. Qed.

(* histories *)
Lemma gen_asked_never_raw_l pfx : forall ops s r sf, switch s pfx = true -> Forall (keeps_on pfx) ops ->
  run_gen s ops = Ok (r, sf) ->
  Forall (fun x => forall a p, In (Raw a p) (fst (fst x)) -> pfx_of p <> pfx) r.
Proof.
  induction ops as [|o tl IH]; intros s r sf Hon Hk H; cbn [run_gen] in H.
  - inversion H. constructor.
  - inversion Hk as [|? ? Hko Hktl]; subst.
    destruct (step_gen s o) as [[s1 outs]|e] eqn:Es; [|discriminate].
    destruct (run_gen s1 tl) as [[r1 sf1]|e] eqn:Er; [|discriminate]. inversion H; subst. clear H.
    pose proof (step_gen_inv _ _ _ _ Es) as [Hs1 _].
    constructor.
    + cbn [fst]. intros a p Hin E. destruct (gen_anon_never_raw_l _ _ _ _ _ _ Es Hin) as [Hoff _].
      unfold anon_on in Hoff. rewrite E, Hon in Hoff. discriminate.
    + eapply IH; [|exact Hktl|exact Er]. subst s1. apply step_keeps_switch; assumption.
Qed.

Lemma gen_run_total_l : forall ops s, exists r sf, run_gen s ops = Ok (r, sf).
Proof.
  induction ops as [|o tl IH]; intros s; cbn [run_gen]; [eauto|].
  rewrite gen_step_refines_l. destruct (IH (fst (step s o))) as [r [sf H]]. rewrite H. eauto.
Qed.

(* ------------------------------------------------------------------ delivery filter *)
Lemma notify_cons l ls ft :
  notify (l :: ls) ft = if Bool.eqb (anonymize_of l) ft then fst l :: notify ls ft else notify ls ft.
Proof. unfold notify. change (filter ?f (l :: ls)) with (if f l then l :: filter f ls else filter f ls).
  destruct (Bool.eqb (anonymize_of l) ft); reflexivity. Qed.

Lemma mfor_filter (ft : bool) (body : listener -> M unit) :
  (forall l e w o d, body l (mkGS e w o d)
                     = Ok (tt, mkGS e w o (if Bool.eqb (anonymize_of l) ft then d ++ [fst l] else d))) ->
  forall ls e w o d, mfor ls body (mkGS e w o d) = Ok (tt, mkGS e w o (d ++ notify ls ft)).
Proof.
  intros Hb ls. induction ls as [|l ls IH]; intros e w o d; cbn [mfor].
  - unfold mret, notify. cbn. rewrite app_nil_r. reflexivity.
  - unfold mseq, mbind. rewrite Hb. rewrite IH. rewrite notify_cons.
    destruct (Bool.eqb (anonymize_of l) ft); [rewrite <- app_assoc|]; reflexivity.
Qed.

Lemma gen_notify_l ls ft : notify_gen ls ft = Ok (notify ls ft).
Proof.
  unfold notify_gen, g_notify_listeners.
  match goal with
  | |- context [(mfor ?l ?bo ;;; ?k) ?g] =>
      change ((mfor l bo ;;; k) g) with (match mfor l bo g with Ok (_, g1) => k g1 | Raise e => Raise e end)
  end.
  erewrite mfor_filter with (ft := ft).
  - reflexivity.
  - intros l e w o d. destruct (Bool.eqb (anonymize_of l) ft); reflexivity.
Qed.

(* ------------------------------------------------------------------ the queue bound, over the generated code *)
Lemma exec_keeps_bound_l (m : M unit) s s' outs : exec m s = Ok (s', outs) ->
  exists g, m (mkGS (ep_of s) (w_of s) [] []) = Ok (tt, g) /\ e_qmax (g_ep g) = Some SEND_QUEUE_MAXLEN.
Proof.
  unfold exec. destruct (m _) as [[[] g]|e]; [|discriminate].
  unfold bound_kept. destruct (e_qmax (g_ep g)) as [n|] eqn:Eq; [|discriminate].
  destruct (n =? SEND_QUEUE_MAXLEN) eqn:En; [|discriminate]. intros _. exists g. split; [reflexivity|].
  apply Z.eqb_eq in En. subst n. exact Eq.
Qed.

Lemma gen_queue_bounded_from_l : forall ops s r sf,
  Z.of_nat (length (queue s)) <= SEND_QUEUE_MAXLEN -> run_gen s ops = Ok (r, sf) ->
  Z.of_nat (length (queue sf)) <= SEND_QUEUE_MAXLEN /\ Forall (fun x => snd (fst x) <= SEND_QUEUE_MAXLEN) r.
Proof.
  induction ops as [|o tl IH]; intros s r sf Hq H; cbn [run_gen] in H.
  - inversion H; subst. split; [exact Hq|constructor].
  - destruct (step_gen s o) as [[s1 outs]|e] eqn:Es; [|discriminate].
    destruct (run_gen s1 tl) as [[r1 sf1]|e] eqn:Er; [|discriminate]. inversion H; subst. clear H.
    pose proof (step_gen_inv _ _ _ _ Es) as [Hs1 _].
    assert (Hq1 : Z.of_nat (length (queue s1)) <= SEND_QUEUE_MAXLEN) by (subst s1; apply step_queue_len; exact Hq).
    destruct (IH s1 r1 sf Hq1 Er) as [Hf Hr]. split; [exact Hf|]. constructor; [exact Hq1|exact Hr].
Qed.

Lemma gen_queue_bounded_l ops r sf : run_gen init ops = Ok (r, sf) ->
  Z.of_nat (length (queue sf)) <= 100 /\ Forall (fun x => snd (fst x) <= 100) r.
Proof.
  intros H. change 100 with SEND_QUEUE_MAXLEN. eapply gen_queue_bounded_from_l; [|exact H].
  pose proof maxlen_pos. cbn [init queue length]. lia.
Qed.
