(* Lemmas for props/C01x.v: the translated decorators (gen/G01_auth.v) under the runtime of model/M01_auth_gen.v.
   The proofs about the translated bodies use only generic tactics (unfold the monad, destruct the innermost scrutinee,
   normalise what the runtime primitives returned), so that a reordering or renaming in the source that keeps the
   behaviour still proves, while a changed behaviour leaves a goal open. *)
From Coq Require Import ZArith List Bool Lia ZifyBool Arith.
From Coq Require String.
Import String.StringSyntax.
Delimit Scope string_scope with string.   (* string literals only: String's length / concat / ++ must not shadow List's *)
From IPV8V Require Import lib.PyErr lib.Bytes lib.BE model.M02_wire model.M01_auth gen.G01_auth model.M01_auth_gen
  proofs.P02_roundtrip proofs.P01_auth.
Import ListNotations.
Open Scope Z_scope.

(* destruct the innermost scrutinee of a match in hypothesis H *)
Ltac dm H :=
  match type of H with
  | context [match ?x with _ => _ end] =>
      lazymatch x with
      | context [match _ with _ => _ end] => fail
      | _ => destruct x eqn:?
      end
  end.
Ltac rewrite_find := repeat match goal with H : net_find _ _ = _ |- _ => rewrite H end.
Ltac unfold_monad H := unfold bindM, liftr, readM, retM, raiseM in H.
Ltac rt_cbn H :=
  cbn [RT rt_unpack_auth rt_unpack_list rt_pack_list rt_key_from_public_bin rt_get_signature_length rt_is_valid_signature
       rt_create_signature rt_prefix rt_my_key rt_my_public_key_bin rt_verified_get rt_peer_add_address rt_new_peer
       St PubKey SecKey PeerRef RetV] in H.
(* split H : <translated body> s = (s', r) into its execution paths; paths that end in `(s, Raise e) = (s', r)` with the
   initial state are closed by `leaf` *)
Ltac paths H leaf :=
  repeat (dm H; cbn beta iota zeta in H;
          try (match type of H with (_, Raise _) = _ => injection H as <- <-; solve [leaf] end)).

(* ================================================================================================ the Network *)
Lemma net_find_update_same n k f :
  net_find (net_update n k f) k = match net_find n k with Some p => Some (f p) | None => None end.
Proof.
  induction n as [|[k' p] tl IH]; [reflexivity|]. cbn [net_update net_find].
  destruct (bytes_eqb k' k) eqn:E; cbn [net_find]; rewrite E; [reflexivity|exact IH].
Qed.

Lemma net_find_update_other n k k' f : k' <> k -> net_find (net_update n k f) k' = net_find n k'.
Proof.
  intros Hne. induction n as [|[k0 p] tl IH]; [reflexivity|]. cbn [net_update net_find].
  destruct (bytes_eqb k0 k) eqn:E; cbn [net_find].
  - apply bytes_eqb_eq in E. subst k0. destruct (bytes_eqb k k') eqn:E2; [apply bytes_eqb_eq in E2; congruence|reflexivity].
  - destruct (bytes_eqb k0 k'); [reflexivity|exact IH].
Qed.

Lemma net_find_app n m k :
  net_find (n ++ m) k = match net_find n k with Some p => Some p | None => net_find m k end.
Proof.
  induction n as [|[k' p] tl IH]; [reflexivity|]. cbn [app net_find]. destruct (bytes_eqb k' k); [reflexivity|exact IH].
Qed.

Lemma net_find_in n k p : net_find n k = Some p -> In (k, p) n.
Proof.
  induction n as [|[k' q] tl IH]; [discriminate|]. cbn [net_find]. destruct (bytes_eqb k' k) eqn:E; intros H.
  - apply bytes_eqb_eq in E. injection H as <-. subst. left. reflexivity.
  - right. apply IH, H.
Qed.

Lemma net_find_keys n k : In k (net_keys n) <-> net_find n k <> None.
Proof.
  unfold net_keys. induction n as [|[k' q] tl IH]; cbn [map In net_find fst].
  - split; [intros []|intros H; congruence].
  - destruct (bytes_eqb k' k) eqn:E.
    + apply bytes_eqb_eq in E. split; [discriminate|]. intros _. left. exact E.
    + rewrite <- IH. split; [intros [H|H]; [subst; rewrite bytes_eqb_refl in E; discriminate|exact H]|intros H; right; exact H].
Qed.

Lemma add_addr_key p a : p_key (add_addr p a) = p_key p.
Proof. unfold add_addr. destruct (p_frozen p); reflexivity. Qed.

Lemma net_wf_update n k f : (forall p, p_key (f p) = p_key p) -> net_wf n -> net_wf (net_update n k f).
Proof.
  intros Hf Hwf. induction n as [|[k' p] tl IH]; [exact Hwf|].
  assert (Htl : net_wf tl) by (intros a b Hin; apply Hwf; right; exact Hin).
  cbn [net_update]. destruct (bytes_eqb k' k); intros a b [Hin|Hin].
  - injection Hin as <- <-. rewrite Hf. apply Hwf. left. reflexivity.
  - apply Hwf. right. exact Hin.
  - apply Hwf. left. exact Hin.
  - apply (IH Htl). exact Hin.
Qed.

Lemma net_wf_app n k p : net_wf n -> p_key p = k -> net_wf (n ++ [(k, p)]).
Proof.
  intros Hwf Hk a b Hin. apply in_app_or in Hin as [Hin|[Hin|[]]]; [apply Hwf, Hin|]. injection Hin as <- <-. exact Hk.
Qed.

(* ================================================================================================ the runtime *)
Section P.
Variable key_ok : bytes -> bool.
Variable verify : bytes -> bytes -> bytes -> bool.
Variable siglen : bytes -> res nat.
Variable sign : bytes -> bytes -> bytes.
Variable my_prefix my_sk my_pk : bytes.
Notation RT := (RT key_ok verify siglen sign my_prefix my_sk my_pk).
Notation handler := (handler key_ok verify siglen sign my_prefix my_sk my_pk).
Notation signed_by := (signed_by key_ok verify siglen).
Notation authentic := (authentic key_ok verify siglen).
Notation deliver := (deliver key_ok verify siglen sign my_prefix my_sk my_pk).
Notation deliver_res := (deliver_res key_ok verify siglen sign my_prefix my_sk my_pk).
Notation run_deliveries := (run_deliveries key_ok verify siglen sign my_prefix my_sk my_pk).

Notation accepts := (accepts key_ok verify siglen).
Notation accepted := (accepted key_ok verify siglen).

Lemma unpack_auth_key data a z :
  rtm_unpack_auth key_ok data 23 = Ok (a, z) -> key_field key_ok data = Some (public_key_bin a).
Proof.
  unfold rtm_unpack_auth, key_field. intros H.
  change (23 <? 0) with false in H. cbv iota in H. change (Z.to_nat 23) with 23%nat in H.
  destruct (unpack key_ok auth_fmt data 23) as [[v o]|]; cbn [bind] in H; [|discriminate].
  destruct v; try discriminate. injection H as Ha _. subst a. reflexivity.
Qed.

Lemma key_field_unpack_auth data pk :
  key_field key_ok data = Some pk -> exists z, rtm_unpack_auth key_ok data 23 = Ok (mkAuth pk, z).
Proof.
  unfold rtm_unpack_auth, key_field. intros H.
  change (23 <? 0) with false. cbv iota. change (Z.to_nat 23) with 23%nat.
  destruct (unpack key_ok auth_fmt data 23) as [[v o]|]; [|discriminate].
  destruct v; try discriminate. injection H as ->. cbn [bind]. eexists. reflexivity.
Qed.

Lemma key_from_bin pk k :
  rtm_key_from_public_bin siglen pk = Ok k -> fst k = pk /\ siglen pk = Ok (snd k).
Proof.
  unfold rtm_key_from_public_bin. destruct (siglen pk); cbn [bind]; intros H; [|discriminate].
  injection H as <-. split; reflexivity.
Qed.

Lemma verified_get_some s k p :
  rtm_verified_get s k = Some p -> p = PKnown k /\ exists q, net_find (net s) k = Some q.
Proof. unfold rtm_verified_get. destruct (net_find (net s) k); intros H; [|discriminate]. injection H as <-. eauto. Qed.

Lemma verified_get_none s k : rtm_verified_get s k = None -> net_find (net s) k = None.
Proof. unfold rtm_verified_get. destruct (net_find (net s) k); intros H; [discriminate|reflexivity]. Qed.

Lemma add_address_known k a s s0 r :
  rtm_peer_add_address (PKnown k) a s = (s0, r) ->
  r = Ok (PKnown k) /\ s0 = with_net s (net_update (net s) k (fun q => add_addr q a)).
Proof. cbn. intros H. injection H as <- <-. split; reflexivity. Qed.

Lemma new_peer_ok pk n a : siglen pk = Ok n -> rtm_new_peer siglen pk a = Ok (PFresh (mkPeer pk [a] false)).
Proof. unfold rtm_new_peer. intros ->. reflexivity. Qed.

Lemma accepts_intro payloads data a z k objs lo :
  rtm_unpack_auth key_ok data 23 = Ok (a, z) ->
  rtm_key_from_public_bin siglen (public_key_bin a) = Ok k ->
  negb (verify (fst k) (slice data None (Some (- Z.of_nat (snd k)))) (slice data (Some (- Z.of_nat (snd k))) None)) = false ->
  rtm_unpack_list key_ok payloads (slice data (Some lo) (Some (- Z.of_nat (snd k)))) 23 = Ok objs ->
  lo = 2 + blen (public_key_bin a) ->       (* however the source writes that sum *)
  accepts payloads data (public_key_bin a) objs.
Proof.
  intros Hu Hk Hv Hl ->. apply key_from_bin in Hk as [Hf Hn]. rewrite Hf in Hv.
  apply negb_false_iff in Hv.
  split.
  - split; [eapply unpack_auth_key; eauto|]. exists (snd k). split; [assumption|]. split; [assumption|].
    apply slice_partition. lia.
  - exists (snd k). split; assumption.
Qed.
Ltac use_accepts_intro := eapply accepts_intro; [eassumption|eassumption|eassumption|eassumption|lia].

(* normalise what the runtime primitives returned on one execution path *)
Ltac norm_rt :=
  repeat match goal with
  | H : rtm_verified_get _ _ = Some _ |- _ => apply verified_get_some in H as [-> [? ?]]
  | H : rtm_verified_get _ _ = None |- _ => apply verified_get_none in H
  | H : rtm_peer_add_address (PKnown _) _ _ = (_, _) |- _ => apply add_address_known in H as [? ->]
  | H : Ok _ = Ok _ |- _ => injection H as H; try subst
  | H : Raise _ = Ok _ |- _ => discriminate H
  | H : Ok _ = Raise _ |- _ => discriminate H
  | H : is_some None = true |- _ => discriminate H
  | H : is_some (Some _) = false |- _ => discriminate H
  | H : rtm_key_from_public_bin _ _ = Ok _, H2 : rtm_new_peer _ _ _ = _ |- _ =>
      rewrite (new_peer_ok _ _ _ (proj2 (key_from_bin _ _ H))) in H2
  end.
Ltac leaf_left := left; split; [reflexivity|eexists; reflexivity].

(* ================================================================================================ the decorators *)
(* lazy_wrapper: for ANY decorated function func, the wrapper either raises with the receiver's state untouched, or the
   datagram is accepted for the key pk it carries and the wrapper's whole effect and result is ONE call of func, with
   the Peer of key pk (the verified one after add_address(source), else a new one) and exactly the decoded payloads. *)
Lemma lazy_wrapper_shape payloads (func : callee RT) src data (s s' : state) (r : res unit) :
  lazy_wrapper__wrapper RT payloads func src data s = (s', r) ->
  (s' = s /\ exists e, r = Raise e) \/
  exists pk objs, accepts payloads data pk objs /\
     (s', r) = func (@HPeer RT (snd (peer_handed s pk src))) (map APayload objs) (fst (peer_handed s pk src)).
Proof.
  unfold lazy_wrapper__wrapper. intros H. autounfold with translated_helpers in H. rt_cbn H. unfold_monad H.
  paths H leaf_left.
  all: norm_rt.
  all: solve [right; eexists; eexists; split; [use_accepts_intro|];
              unfold peer_handed; rewrite_find; cbn [fst snd]; symmetry; eassumption].
Qed.

Lemma lazy_wrapper_wd_shape payloads (func : callee RT) src data (s s' : state) (r : res unit) :
  lazy_wrapper_wd__wrapper RT payloads func src data s = (s', r) ->
  (s' = s /\ exists e, r = Raise e) \/
  exists pk objs, accepts payloads data pk objs /\
     (s', r) = func (@HPeer RT (snd (peer_handed s pk src))) (map APayload objs ++ [AData data]) (fst (peer_handed s pk src)).
Proof.
  unfold lazy_wrapper_wd__wrapper. intros H. autounfold with translated_helpers in H. rt_cbn H. unfold_monad H.
  paths H leaf_left.
  all: norm_rt.
  all: solve [right; eexists; eexists; split; [use_accepts_intro|];
              unfold peer_handed; rewrite_find; cbn [fst snd]; symmetry; eassumption].
Qed.

(* the unsigned decorators never touch the Network and hand over the source address only *)
Lemma lazy_wrapper_unsigned_shape payloads (func : callee RT) src data (s s' : state) (r : res unit) :
  lazy_wrapper_unsigned__wrapper RT payloads func src data s = (s', r) ->
  (s' = s /\ exists e, r = Raise e) \/
  exists objs, rtm_unpack_list key_ok payloads data 23 = Ok objs /\
     (s', r) = func (@HAddr RT src) (map APayload objs) s.
Proof.
  unfold lazy_wrapper_unsigned__wrapper. intros H. autounfold with translated_helpers in H. rt_cbn H. unfold_monad H.
  paths H leaf_left.
  all: solve [right; eexists; split; [first [eassumption|reflexivity]|symmetry; eassumption]].
Qed.

Lemma lazy_wrapper_unsigned_wd_shape payloads (func : callee RT) src data (s s' : state) (r : res unit) :
  lazy_wrapper_unsigned_wd__wrapper RT payloads func src data s = (s', r) ->
  (s' = s /\ exists e, r = Raise e) \/
  exists objs, rtm_unpack_list key_ok payloads data 23 = Ok objs /\
     (s', r) = func (@HAddr RT src) (map APayload objs ++ [AKw "data"%string data]) s.
Proof.
  unfold lazy_wrapper_unsigned_wd__wrapper. cbv zeta. intros H.
  apply lazy_wrapper_unsigned_shape in H as [H|(objs & Hl & H)]; [left; exact H|].
  right. exists objs. split; assumption.
Qed.

Lemma unpack_objs_length cs : forall data off objs o,
  unpack_objs key_ok cs data off = Ok (objs, o) -> List.length objs = List.length cs.
Proof.
  induction cs as [|c tl IH]; intros data off objs o H; cbn [unpack_objs] in H.
  - injection H as <- _. reflexivity.
  - destruct (unpack_msg key_ok (msg_of_list c) data off) as [[vs o1]|]; cbn [bind] in H; [|discriminate].
    destruct (unpack_objs key_ok tl data o1) as [[r o2]|] eqn:E; cbn [bind] in H; [|discriminate].
    injection H as <- _. cbn [List.length]. f_equal. eapply IH. exact E.
Qed.

Lemma unpack_list_length cs data off objs :
  rtm_unpack_list key_ok cs data off = Ok objs -> List.length objs = List.length cs.
Proof.
  unfold rtm_unpack_list. destruct (off <? 0); [discriminate|].
  destruct (unpack_objs key_ok cs data (Z.to_nat off)) as [[o1 o2]|] eqn:E; cbn [bind]; [|discriminate].
  destruct (_ <? _)%nat; [discriminate|]. intros H. injection H as <-. eapply unpack_objs_length. exact E.
Qed.

(* _ez_unpack_auth (hand-parsed authenticated messages): returns only for an accepted datagram, never touches the state *)
Lemma ez_unpack_auth_sound pc data (s s' : state) r :
  EZ_ez_unpack_auth RT pc data s = (s', r) ->
  s' = s /\
  forall a g p, r = Ok (a, g, p) -> accepts [GlobalTimeDistributionPayload_cls; pc] data (public_key_bin a) [g; p].
Proof.
  intros H. autounfold with translated_helpers in H. rt_cbn H. unfold_monad H.
  repeat (dm H; cbn beta iota zeta in H;
          try (match type of H with (_, Raise _) = _ => injection H as <- <-; solve [split; [reflexivity|intros; discriminate]] end)).
  all: norm_rt.
  all: injection H as <- <-; split; [reflexivity|]; intros a' g' p' Hr; injection Hr as <- <- <-.
  all: match goal with Hl : rtm_unpack_list _ _ _ _ = Ok ?l |- _ =>
         pose proof (unpack_list_length _ _ _ _ Hl) as Hlen; cbn in Hlen;
         destruct l as [|g [|p [|? ?]]]; try discriminate Hlen end.
  all: repeat match goal with Hn : py_nth _ _ = Ok _ |- _ => cbn in Hn; injection Hn as <- end.
  all: change [GlobalTimeDistributionPayload_cls; pc] with ([GlobalTimeDistributionPayload_cls] ++ [pc]).
  all: use_accepts_intro.
Qed.

(* _ez_unpack_noauth: no authentication at all (nothing to prove but that it is pure) *)
Lemma ez_unpack_noauth_pure pc data (s s' : state) r :
  EZ_ez_unpack_noauth_gt RT pc data s = (s', r) -> s' = s.
Proof.
  intros H. autounfold with translated_helpers in H. rt_cbn H. unfold_monad H. cbv zeta in H.
  repeat (dm H; cbn beta iota zeta in H); injection H as <- _; reflexivity.
Qed.

(* ================================================================================================ the Peer handed over *)
Lemma peer_handed_key s pk src :
  net_wf (net s) -> pref_key (fst (peer_handed s pk src)) (snd (peer_handed s pk src)) = pk.
Proof.
  intros Hwf. unfold peer_handed. destruct (net_find (net s) pk) as [q|] eqn:E; cbn [fst snd pref_key]; [|reflexivity].
  cbn [with_net net]. rewrite net_find_update_same, E. rewrite add_addr_key. apply Hwf. apply net_find_in. exact E.
Qed.

Lemma peer_handed_other s pk src k : k <> pk -> net_find (net (fst (peer_handed s pk src))) k = net_find (net s) k.
Proof.
  intros Hne. unfold peer_handed. destruct (net_find (net s) pk); cbn [fst with_net net]; [|reflexivity].
  apply net_find_update_other. exact Hne.
Qed.

Lemma peer_handed_wf s pk src : net_wf (net s) -> net_wf (net (fst (peer_handed s pk src))).
Proof.
  intros Hwf. unfold peer_handed. destruct (net_find (net s) pk); cbn [fst with_net net]; [|exact Hwf].
  apply net_wf_update; [intros; apply add_addr_key|exact Hwf].
Qed.

Lemma peer_handed_calls s pk src : calls (fst (peer_handed s pk src)) = calls s.
Proof. unfold peer_handed. destruct (net_find (net s) pk); reflexivity. Qed.

(* the reference names key pk: the Network's entry pk, or a loose object carrying pk *)
Definition names (p : pref) (pk : bytes) : Prop := match p with PKnown k => k = pk | PFresh q => p_key q = pk end.

Lemma peer_handed_names s pk src : names (snd (peer_handed s pk src)) pk.
Proof. unfold peer_handed. destruct (net_find (net s) pk); reflexivity. Qed.

(* ================================================================================================ the handler *)
Lemma add_verified_spec p pk s :
  names p pk ->
  names (snd (add_verified p s)) pk
  /\ (forall k, k <> pk -> net_find (net (fst (add_verified p s))) k = net_find (net s) k)
  /\ (net_wf (net s) -> net_wf (net (fst (add_verified p s))))
  /\ calls (fst (add_verified p s)) = calls s.
Proof.
  intros Hn. destruct p as [k|q]; cbn [names] in Hn; cbn [add_verified].
  - cbn [fst snd names]. repeat split; auto.
  - destruct (net_find (net s) (p_key q)) eqn:E; cbn [fst snd names with_net net calls].
    + repeat split; auto.
      * intros k Hk. apply net_find_update_other. congruence.
      * apply net_wf_update. reflexivity.
    + repeat split; auto.
      * intros k Hk. rewrite net_find_app. destruct (net_find (net s) k); [reflexivity|].
        cbn [net_find]. destruct (bytes_eqb (p_key q) k) eqn:E2; [apply bytes_eqb_eq in E2; congruence|reflexivity].
      * intros Hwf. apply net_wf_app; auto.
Qed.

Lemma add_address_spec p pk a s :
  names p pk ->
  exists p1 s1, rtm_peer_add_address p a s = (s1, Ok p1) /\ names p1 pk
  /\ (forall k, k <> pk -> net_find (net s1) k = net_find (net s) k)
  /\ (net_wf (net s) -> net_wf (net s1))
  /\ calls s1 = calls s.
Proof.
  intros Hn. destruct p as [k|q]; cbn [names] in Hn; cbn [rtm_peer_add_address].
  - subst k. eexists. eexists. split; [reflexivity|]. cbn [names with_net net calls]. repeat split; auto.
    + intros k Hk. apply net_find_update_other. exact Hk.
    + apply net_wf_update. intros. apply add_addr_key.
  - eexists. eexists. split; [reflexivity|]. cbn [names]. rewrite add_addr_key. repeat split; auto.
Qed.

Lemma run_hops_spec ops : forall p pk s,
  names p pk ->
  (forall k, k <> pk -> net_find (net (run_hops ops p s)) k = net_find (net s) k)
  /\ (net_wf (net s) -> net_wf (net (run_hops ops p s)))
  /\ calls (run_hops ops p s) = calls s.
Proof.
  induction ops as [|[|a] tl IH]; intros p pk s Hn; cbn [run_hops].
  - repeat split; auto.
  - destruct (add_verified_spec p pk s Hn) as (Hn1 & Ho & Hw & Hc).
    destruct (add_verified p s) as [s1 p1]. cbn [fst snd] in *.
    destruct (IH p1 pk s1 Hn1) as (Ho2 & Hw2 & Hc2).
    repeat split.
    + intros k Hk. rewrite Ho2, Ho; auto.
    + auto.
    + congruence.
  - destruct (add_address_spec p pk a s Hn) as (p1 & s1 & E & Hn1 & Ho & Hw & Hc). rewrite E.
    destruct (IH p1 pk s1 Hn1) as (Ho2 & Hw2 & Hc2).
    repeat split.
    + intros k Hk. rewrite Ho2, Ho; auto.
    + auto.
    + congruence.
Qed.

(* ================================================================================================ one delivery *)
(* what one delivery does to the receiver, whatever the datagram and whatever the handler does with its Peer *)
Definition snap_of (s : state) (pk : bytes) (src : paddr) : cfirst :=
  snapshot key_ok verify siglen sign my_prefix my_sk my_pk (fst (peer_handed s pk src)) (@HPeer RT (snd (peer_handed s pk src))).

Lemma snap_of_key s pk src : net_wf (net s) -> exists addrs b, snap_of s pk src = CPeer pk addrs b.
Proof.
  intros Hwf. unfold snap_of, peer_handed. destruct (net_find (net s) pk) as [q|] eqn:E; cbn [fst snd snapshot].
  - cbn [with_net net]. rewrite net_find_update_same, E. rewrite add_addr_key.
    rewrite (Hwf pk q (net_find_in _ _ _ E)). eauto.
  - cbn [p_key p_addrs]. eauto.
Qed.

Lemma deliver_step s d :
  (* rejected (or an unsigned decorator): the Network is untouched, and a signed handler was not entered *)
  (net (deliver s d) = net s /\
   (calls (deliver s d) = calls s \/
    exists args, signed_kind (d_kind d) = false /\ calls (deliver s d) = calls s ++ [(CAddr (d_src d), args)]))
  \/
  (* accepted: authentic for the key pk it carries; the handler is entered once, with the Peer of pk; nothing but the
     entry pk of the Network differs afterwards *)
  (exists pk args, accepted d pk
     /\ calls (deliver s d) = calls s ++ [(snap_of s pk (d_src d), args)]
     /\ (forall k, k <> pk -> net_find (net (deliver s d)) k = net_find (net s) k)
     /\ (net_wf (net s) -> net_wf (net (deliver s d)))).
Proof.
  unfold deliver, deliver_res. destruct d as [kind payloads beh src data]. cbn [d_kind d_payloads d_beh d_src d_data].
  destruct (wrapper_of key_ok verify siglen sign my_prefix my_sk my_pk kind payloads (handler beh) src data s) as [s' r] eqn:E.
  cbn [fst].
  assert (Hsigned : forall args pk objs, accepts payloads data pk objs -> signed_kind kind = true ->
            (s', r) = handler beh (@HPeer RT (snd (peer_handed s pk src))) args (fst (peer_handed s pk src)) ->
            exists pk args, accepted (mkD kind payloads beh src data) pk
              /\ calls s' = calls s ++ [(snap_of s pk src, args)]
              /\ (forall k, k <> pk -> net_find (net s') k = net_find (net s) k)
              /\ (net_wf (net s) -> net_wf (net s'))).
  { intros args pk objs Hacc Hk Hcall. exists pk, args.
    apply (f_equal fst) in Hcall. unfold M01_auth_gen.handler in Hcall. cbv beta iota zeta in Hcall. cbn [fst] in Hcall.
    pose proof (peer_handed_names s pk src) as Hn.
    set (s1 := mkState (net (fst (peer_handed s pk src)))
                 (calls (fst (peer_handed s pk src)) ++ [(snapshot key_ok verify siglen sign my_prefix my_sk my_pk
                    (fst (peer_handed s pk src)) (@HPeer RT (snd (peer_handed s pk src))), args)])).
    destruct (run_hops_spec beh (snd (peer_handed s pk src)) pk s1 Hn) as (Ho & Hw & Hc).
    change (s' = run_hops beh (snd (peer_handed s pk src)) s1) in Hcall. subst s'.
    split; [split; [exact Hk|exists objs; exact Hacc]|]. split; [|split].
    - rewrite Hc. unfold s1. cbn [calls]. rewrite peer_handed_calls. reflexivity.
    - intros k Hne. rewrite Ho by exact Hne. unfold s1. cbn [net]. apply peer_handed_other. exact Hne.
    - intros Hwf. apply Hw. unfold s1. cbn [net]. apply peer_handed_wf. exact Hwf. }
  destruct kind; cbn [wrapper_of] in E.
  - apply lazy_wrapper_shape in E as [[-> _]|(pk & objs & Hacc & Hcall)]; [left; auto|right]. eapply Hsigned; eauto.
  - apply lazy_wrapper_wd_shape in E as [[-> _]|(pk & objs & Hacc & Hcall)]; [left; auto|right]. eapply Hsigned; eauto.
  - apply lazy_wrapper_unsigned_shape in E as [[-> _]|(objs & _ & Hcall)]; [left; auto|left].
    unfold M01_auth_gen.handler in Hcall. injection Hcall as -> _. cbn [net calls snapshot]. split; [reflexivity|].
    right. eexists. split; reflexivity.
  - apply lazy_wrapper_unsigned_wd_shape in E as [[-> _]|(objs & _ & Hcall)]; [left; auto|left].
    unfold M01_auth_gen.handler in Hcall. injection Hcall as -> _. cbn [net calls snapshot]. split; [reflexivity|].
    right. eexists. split; reflexivity.
Qed.

Lemma accepted_authentic d pk : accepted d pk -> authentic d pk.
Proof. intros [Hk (objs & [Hsb _])]. split; assumption. Qed.

Lemma deliver_wf s d : net_wf (net s) -> net_wf (net (deliver s d)).
Proof.
  intros Hwf. destruct (deliver_step s d) as [[-> _]|(pk & args & _ & _ & _ & Hw)]; [exact Hwf|apply Hw, Hwf].
Qed.

Lemma deliver_find s d k :
  net_find (net (deliver s d)) k = net_find (net s) k \/ accepted d k.
Proof.
  destruct (deliver_step s d) as [[-> _]|(pk & args & Hau & _ & Ho & _)]; [left; reflexivity|].
  destruct (bytes_eqb k pk) eqn:E.
  - apply bytes_eqb_eq in E. subst. right. exact Hau.
  - left. apply Ho. intros ->. rewrite bytes_eqb_refl in E. discriminate.
Qed.

(* ================================================================================================ histories *)
Lemma run_wf ds : forall s, net_wf (net s) -> net_wf (net (run_deliveries ds s)).
Proof.
  unfold M01_auth_gen.run_deliveries. induction ds as [|d tl IH]; intros s Hwf; cbn [fold_left]; [exact Hwf|].
  apply IH. apply deliver_wf. exact Hwf.
Qed.

(* for EVERY sequence of incoming datagrams and every key k: the Network's entry for k after the sequence is the one
   before it, unless the sequence contains a datagram that is authentic for k *)
Lemma run_find ds : forall s k,
  net_find (net (run_deliveries ds s)) k = net_find (net s) k \/ exists d, In d ds /\ accepted d k.
Proof.
  unfold M01_auth_gen.run_deliveries. induction ds as [|d tl IH]; intros s k; cbn [fold_left]; [left; reflexivity|].
  destruct (IH (deliver s d) k) as [E|(d' & Hin & Hau)].
  - destruct (deliver_find s d k) as [E2|Hau]; [left; congruence|right; exists d; split; [left; reflexivity|exact Hau]].
  - right. exists d'. split; [right; exact Hin|exact Hau].
Qed.

Lemma no_verified_entry_without_key_l ds s k :
  (In k (net_keys (net (run_deliveries ds s))) -> In k (net_keys (net s)) \/ exists d, In d ds /\ accepted d k)
  /\ (net_addrs (net (run_deliveries ds s)) k <> net_addrs (net s) k -> exists d, In d ds /\ accepted d k).
Proof.
  destruct (run_find ds s k) as [E|H].
  - split.
    + intros Hin. left. apply net_find_keys. apply net_find_keys in Hin. congruence.
    + intros Hne. exfalso. apply Hne. unfold net_addrs. rewrite E. reflexivity.
  - split; intros _; [right|]; exact H.
Qed.

(* every handler entry of a history: a Peer-taking entry carries the key of an authentic datagram of the history *)
Lemma run_calls ds : forall s c,
  net_wf (net s) ->
  In c (calls (run_deliveries ds s)) ->
  In c (calls s)
  \/ (exists a args d, c = (CAddr a, args) /\ In d ds /\ signed_kind (d_kind d) = false /\ a = d_src d)
  \/ (exists pk addrs b args d, c = (CPeer pk addrs b, args) /\ In d ds /\ accepted d pk).
Proof.
  unfold M01_auth_gen.run_deliveries. induction ds as [|d tl IH]; intros s c Hwf Hin; cbn [fold_left] in Hin; [left; exact Hin|].
  destruct (IH (deliver s d) c (deliver_wf s d Hwf) Hin) as [Hc|[H|H]].
  - destruct (deliver_step s d) as [[_ [E|(args & Hk & E)]]|(pk & args & Hau & E & _ & _)]; rewrite E in Hc.
    + left. exact Hc.
    + apply in_app_or in Hc as [Hc|[Hc|[]]]; [left; exact Hc|]. right. left.
      exists (d_src d), args, d. split; [symmetry; exact Hc|]. split; [left; reflexivity|]. split; [exact Hk|reflexivity].
    + apply in_app_or in Hc as [Hc|[Hc|[]]]; [left; exact Hc|]. right. right.
      destruct (snap_of_key s pk (d_src d) Hwf) as (addrs & b & Es). rewrite Es in Hc.
      exists pk, addrs, b, args, d. split; [symmetry; exact Hc|]. split; [left; reflexivity|exact Hau].
  - right. left. destruct H as (a & args & d' & -> & Hd & Hk & ->). exists (d_src d'), args, d'.
    split; [reflexivity|]. split; [right; exact Hd|]. split; [exact Hk|reflexivity].
  - right. right. destruct H as (pk & addrs & b & args & d' & -> & Hd & Hau). exists pk, addrs, b, args, d'.
    split; [reflexivity|]. split; [right; exact Hd|exact Hau].
Qed.

End P.

(* ================================================================================================ hand model, completeness, sender *)
Section Q.
Variable key_ok : bytes -> bool.
Variable verify : bytes -> bytes -> bytes -> bool.
Variable siglen : bytes -> res nat.
Variable sign : bytes -> bytes -> bytes.
Variable my_prefix my_sk my_pk : bytes.
Notation RT := (RT key_ok verify siglen sign my_prefix my_sk my_pk).
Notation accepts := (accepts key_ok verify siglen).

(* ---- one payload class after the other = the concatenated format list (the hand model's view) ---- *)
Lemma unpack_msg_app c : forall m data off,
  unpack_msg key_ok (msg_of_list (c ++ m)) data off =
  (do (vs, o1) <- unpack_msg key_ok (msg_of_list c) data off;
   do (r, o2) <- unpack_msg key_ok (msg_of_list m) data o1; Ok (vs ++ r, o2)).
Proof.
  induction c as [|f c IH]; intros m data off.
  - cbn [app msg_of_list]. change (unpack_msg key_ok MNil data off) with (@Ok (list val * nat) ([], off)). cbn [bind].
    destruct (unpack_msg key_ok (msg_of_list m) data off) as [[r o2]|]; reflexivity.
  - cbn [app msg_of_list]. rewrite !unpack_msg_cons.
    destruct (unpack key_ok f data off) as [[v o1]|]; cbn [bind]; [|reflexivity].
    rewrite IH. destruct (unpack_msg key_ok (msg_of_list c) data o1) as [[vs o2]|]; cbn [bind]; [|reflexivity].
    destruct (unpack_msg key_ok (msg_of_list m) data o2) as [[r o3]|]; reflexivity.
Qed.

Lemma unpack_objs_flat cs : forall data off,
  unpack_msg key_ok (msg_of_list (concat cs)) data off =
  (do (objs, o) <- unpack_objs key_ok cs data off; Ok (concat objs, o)).
Proof.
  induction cs as [|c cs IH]; intros data off; [reflexivity|].
  cbn [concat unpack_objs]. rewrite unpack_msg_app.
  destruct (unpack_msg key_ok (msg_of_list c) data off) as [[vs o1]|]; cbn [bind]; [|reflexivity].
  rewrite IH. destruct (unpack_objs key_ok cs data o1) as [[r o2]|]; reflexivity.
Qed.

Lemma unpack_list_flat cs data :
  unpack_all key_ok (msg_of_list (concat cs)) data 23 = (do objs <- rtm_unpack_list key_ok cs data 23; Ok (concat objs)).
Proof.
  unfold unpack_all, rtm_unpack_list. change (23 <? 0) with false. cbv iota. change (Z.to_nat 23) with 23%nat.
  rewrite unpack_objs_flat. destruct (unpack_objs key_ok cs data 23) as [[objs o]|]; cbn [bind]; [|reflexivity].
  destruct (o <? Datatypes.length data)%nat; reflexivity.
Qed.

(* the translated decorator accepts exactly what the hand model M01_auth.wrapper_signed accepts *)
Lemma accepts_hand cs data pk objs :
  accepts cs data pk objs ->
  wrapper_signed key_ok verify siglen (msg_of_list (concat cs)) data = Ok (Invoke pk (concat objs)).
Proof.
  intros [[Hkf (n & Hn & Hv & _)] (n' & Hn' & Hl)]. rewrite Hn in Hn'. injection Hn' as <-.
  unfold wrapper_signed. unfold key_field in Hkf.
  destruct (unpack key_ok auth_fmt data 23) as [[v o]|]; [|discriminate]. destruct v; try discriminate.
  injection Hkf as ->. cbn [bind]. rewrite Hn. cbn [bind]. cbv zeta.
  rewrite unpack_list_flat, Hl. cbn [bind]. rewrite Hv. reflexivity.
Qed.

Lemma hand_accepts cs data pk vs :
  wrapper_signed key_ok verify siglen (msg_of_list (concat cs)) data = Ok (Invoke pk vs) ->
  exists objs, vs = concat objs /\ accepts cs data pk objs.
Proof.
  intros H. destruct (auth_only_if_valid_l _ _ _ _ _ _ _ H) as (n & o & Hu & Hn & Hv & Hp & Ha).
  rewrite unpack_list_flat in Ha.
  destruct (rtm_unpack_list key_ok cs (slice data (Some (2 + blen pk)) (Some (- Z.of_nat n))) 23) as [objs|] eqn:El;
    cbn [bind] in Ha; [|discriminate].
  injection Ha as <-. exists objs. split; [reflexivity|].
  split.
  - split; [unfold key_field; rewrite Hu; reflexivity|]. exists n. auto.
  - exists n. auto.
Qed.

(* ---- completeness: an accepted datagram does reach the decorated function (forward execution of the translated body) ---- *)
Lemma accepts_facts cs data pk objs :
  accepts cs data pk objs ->
  exists z n, rtm_unpack_auth key_ok data 23 = Ok (mkAuth pk, z)
    /\ rtm_key_from_public_bin siglen pk = Ok (pk, n)
    /\ siglen pk = Ok n
    /\ verify pk (slice data None (Some (- Z.of_nat n))) (slice data (Some (- Z.of_nat n)) None) = true
    /\ rtm_unpack_list key_ok cs (slice data (Some (2 + blen pk)) (Some (- Z.of_nat n))) 23 = Ok objs.
Proof.
  intros [[Hkf (n & Hn & Hv & _)] (n' & Hn' & Hl)]. rewrite Hn in Hn'. injection Hn' as <-.
  destruct (key_field_unpack_auth key_ok _ _ Hkf) as [z Hz]. exists z, n.
  unfold rtm_key_from_public_bin. rewrite Hn. cbn [bind]. auto.
Qed.

Ltac forward_rt :=
  repeat (cbn [public_key_bin fst snd negb is_some];
          match goal with
          | H : ?x = _ |- context [match ?x with _ => _ end] => rewrite H
          | H : ?x = _ |- context [if ?x then _ else _] => rewrite H
          | H : ?x = _ |- context [negb ?x] => rewrite H
          | |- context [blen ?k + 2] => rewrite (Z.add_comm (blen k) 2)     (* however the source writes that sum *)
          end; cbn beta iota zeta).

Lemma lazy_wrapper_complete payloads (func : callee RT) src data (s : state) pk objs :
  accepts payloads data pk objs ->
  lazy_wrapper__wrapper RT payloads func src data s =
  func (@HPeer RT (snd (peer_handed s pk src))) (map APayload objs) (fst (peer_handed s pk src)).
Proof.
  intros Hacc. destruct (accepts_facts _ _ _ _ Hacc) as (z & n & Hu & Hk & Hn & Hv & Hl).
  pose proof (new_peer_ok siglen pk n src Hn) as Hnew.
  unfold lazy_wrapper__wrapper, peer_handed. autounfold with translated_helpers.
  cbn [M01_auth_gen.RT rt_unpack_auth rt_unpack_list rt_key_from_public_bin rt_get_signature_length rt_is_valid_signature
       rt_verified_get rt_peer_add_address rt_new_peer St PubKey PeerRef RetV].
  unfold bindM, liftr, readM, retM, raiseM, rtm_verified_get.
  destruct (net_find (net s) pk) as [q|] eqn:Ef; forward_rt; cbn [rtm_peer_add_address]; forward_rt; reflexivity.
Qed.

Lemma lazy_wrapper_wd_complete payloads (func : callee RT) src data (s : state) pk objs :
  accepts payloads data pk objs ->
  lazy_wrapper_wd__wrapper RT payloads func src data s =
  func (@HPeer RT (snd (peer_handed s pk src))) (map APayload objs ++ [AData data]) (fst (peer_handed s pk src)).
Proof.
  intros Hacc. destruct (accepts_facts _ _ _ _ Hacc) as (z & n & Hu & Hk & Hn & Hv & Hl).
  pose proof (new_peer_ok siglen pk n src Hn) as Hnew.
  unfold lazy_wrapper_wd__wrapper, peer_handed. autounfold with translated_helpers.
  cbn [M01_auth_gen.RT rt_unpack_auth rt_unpack_list rt_key_from_public_bin rt_get_signature_length rt_is_valid_signature
       rt_verified_get rt_peer_add_address rt_new_peer St PubKey PeerRef RetV].
  unfold bindM, liftr, readM, retM, raiseM, rtm_verified_get.
  destruct (net_find (net s) pk) as [q|] eqn:Ef; forward_rt; cbn [rtm_peer_add_address]; forward_rt; reflexivity.
Qed.

(* ---- the sender: what the translated ezr_pack produces is what the hand model's ez_pack produces ---- *)
Lemma pack_msg_app c : forall m v1 v2 a b,
  pack_msg key_ok (msg_of_list c) v1 = Ok a -> pack_msg key_ok (msg_of_list m) v2 = Ok b ->
  pack_msg key_ok (msg_of_list (c ++ m)) (v1 ++ v2) = Ok (a ++ b).
Proof.
  induction c as [|f c IH]; intros m v1 v2 a b H1 H2.
  - cbn [msg_of_list] in H1. destruct v1; cbn in H1; [|discriminate]. injection H1 as <-. exact H2.
  - cbn [msg_of_list] in H1. destruct v1 as [|v v1]; [cbn in H1; discriminate|]. rewrite pack_msg_cons in H1.
    destruct (pack key_ok f v) as [x|] eqn:Ex; cbn [bind] in H1; [|discriminate].
    destruct (pack_msg key_ok (msg_of_list c) v1) as [y|] eqn:Ey; cbn [bind] in H1; [|discriminate].
    injection H1 as <-. cbn [app msg_of_list]. rewrite pack_msg_cons, Ex. cbn [bind].
    rewrite (IH m v1 v2 y b Ey H2). cbn [bind]. rewrite app_assoc. reflexivity.
Qed.

Lemma pack_list_flat insts : forall b,
  rtm_pack_list key_ok insts = Ok b ->
  pack_msg key_ok (msg_of_list (concat (map fst insts))) (concat (map snd insts)) = Ok b.
Proof.
  unfold rtm_pack_list. induction insts as [|[c vs] tl IH]; intros b H; cbn [map concat_res concat fst snd] in *.
  - injection H as <-. reflexivity.
  - destruct (pack_msg key_ok (msg_of_list c) vs) as [x|] eqn:Ex; cbn [bind] in H; [|discriminate].
    destruct (concat_res _) as [y|] eqn:Ey; cbn [bind] in H; [|discriminate]. injection H as <-.
    apply pack_msg_app; [exact Ex|apply IH; reflexivity].
Qed.

Lemma ezr_pack_hand msg_num insts (s s' : state) data :
  EZ_ezr_pack RT msg_num insts true s = (s', Ok data) ->
  s' = s /\
  ez_pack key_ok sign my_sk my_pk my_prefix msg_num (msg_of_list (concat (map fst insts))) (concat (map snd insts)) = Ok data.
Proof.
  intros H. autounfold with translated_helpers in H.
  cbn [M01_auth_gen.RT rt_pack_list rt_create_signature rt_prefix rt_my_key rt_my_public_key_bin St SecKey] in H.
  unfold bindM, liftr, retM in H. cbv beta iota zeta in H.
  unfold py_bytes1 in H. destruct ((0 <=? msg_num) && (msg_num <? 256)); [|discriminate].
  destruct (rtm_pack_list key_ok _) as [b|] eqn:Ep; [|discriminate].
  injection H as <- <-. split; [reflexivity|].
  unfold rtm_pack_list in Ep. cbn [app map concat_res fst snd] in Ep.
  change BinMemberAuthenticationPayload_cls with [auth_fmt] in Ep. cbn [msg_of_list] in Ep. rewrite pack_msg_cons in Ep.
  destruct (pack key_ok auth_fmt (VBytes my_pk)) as [a|] eqn:Ea; cbn [bind] in Ep; [|discriminate].
  cbn [pack_msg bind] in Ep. rewrite app_nil_r in Ep.
  destruct (concat_res _) as [y|] eqn:Ey; cbn [bind] in Ep; [|discriminate]. injection Ep as <-.
  unfold ez_pack. rewrite Ea. cbn [bind]. rewrite (pack_list_flat insts y Ey). cbn [bind]. cbv zeta.
  rewrite <- !app_assoc. reflexivity.
Qed.

(* sender and receiver agree, on the translated code of both sides: what the translated ezr_pack(sig=True) produces is
   accepted by the translated lazy_wrapper for the sender's key with exactly the packed values *)
Lemma gen_sound_send_l msg_num insts (s0 s0' : state) data n :
  List.length my_prefix = 22%nat ->
  wf_msg (msg_of_list (concat (map fst insts))) = true ->
  msg_ok key_ok (msg_of_list (concat (map fst insts))) (concat (map snd insts)) = true ->
  (Z.of_nat (List.length my_pk) <? 65536) = true -> bytes_okb my_pk = true ->
  siglen my_pk = Ok n -> (0 < n)%nat ->
  (forall msg, List.length (sign my_sk msg) = n /\ verify my_pk msg (sign my_sk msg) = true) ->
  EZ_ezr_pack RT msg_num insts true s0 = (s0', Ok data) ->
  exists objs, concat objs = concat (map snd insts) /\
    forall (func : callee RT) src (s : state),
      lazy_wrapper__wrapper RT (map fst insts) func src data s =
      func (@HPeer RT (snd (peer_handed s my_pk src))) (map APayload objs) (fst (peer_handed s my_pk src)).
Proof.
  intros Hp Hwf Hok Hlk Hbk Hn Hpos Hsig Hpack.
  apply ezr_pack_hand in Hpack as [_ Hpack].
  pose proof (auth_sound_send_l key_ok verify siglen sign my_sk my_pk my_prefix msg_num _ _ data n
                Hp Hwf Hok Hlk Hbk Hn Hpos Hsig Hpack) as Hhand.
  apply hand_accepts in Hhand as (objs & Hc & Hacc).
  exists objs. split; [symmetry; exact Hc|]. intros func src s. apply lazy_wrapper_complete. exact Hacc.
Qed.
End Q.
