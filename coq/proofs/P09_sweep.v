(* C09 - the translated do_remove chains compute the documented verdicts; one sweep schedules exactly
   the entries with a verdict. *)
From Coq Require Import ZArith List Bool Lia ZifyBool.
From IPV8V Require Import gen.G09_rules model.M09_reclaim spec.S09_reclaim.
Import ListNotations.
Open Scope Z_scope.

Ltac split_ifs :=
  repeat match goal with
         | |- context [if ?b then _ else _] => let E := fresh "E" in destruct b eqn:E
         end.

Lemma circ_rule_spec st tnow c : circ_rule st tnow c = circuit_verdict st tnow c.
Proof.
  unfold circ_rule, circuit_verdict, sweep_circuit_rule, c_state, circuit_state, c_ready, inactive, too_old, overused.
  destruct (c_closing c); simpl negb; simpl andb.
  - split_ifs; try reflexivity; lia.
  - destruct (c_hops c <? c_goal c) eqn:H; destruct (c_goal c <=? c_hops c) eqn:H'; try lia;
      simpl; split_ifs; try reflexivity; lia.
Qed.

Lemma relay_rule_spec st tnow r : relay_rule st tnow r = relay_verdict st tnow r.
Proof.
  unfold relay_rule, relay_verdict, sweep_relay_rule, inactive, overused.
  split_ifs; try reflexivity; lia.
Qed.

Lemma exit_rule_spec st tnow e : exit_rule st tnow e = exit_verdict st tnow e.
Proof.
  unfold exit_rule, exit_verdict, sweep_exit_rule, inactive, too_old, overused.
  split_ifs; try reflexivity; lia.
Qed.

Lemma rule_to_start_dropped k cid v : rule_to_start k cid v = dropped k cid v.
Proof. reflexivity. Qed.

Lemma flat_map_ext' {A B} (f g : A -> list B) l : (forall x, f x = g x) -> flat_map f l = flat_map g l.
Proof. intro H; induction l; simpl; [reflexivity | rewrite H, IHl; reflexivity]. Qed.

Lemma sweep_starts_spec st s : sweep_starts st s = sweep_spec st s.
Proof.
  unfold sweep_starts, sweep_spec. f_equal; [|f_equal]; apply flat_map_ext'; intros [k v]; simpl.
  - rewrite circ_rule_spec; reflexivity.
  - rewrite relay_rule_spec; reflexivity.
  - rewrite exit_rule_spec; reflexivity.
Qed.

(* sweep_sound: the sweep changes nothing but the task queue and its own time stamp, and what it
   queues is exactly the specified list *)
Lemma sweep_sound_l st s :
  starts (sweep st s) = starts s ++ sweep_spec st s
  /\ circuits (sweep st s) = circuits s /\ relays (sweep st s) = relays s /\ exits (sweep st s) = exits s
  /\ sleeping (sweep st s) = sleeping s /\ last_sweep (sweep st s) = now s.
Proof.
  unfold sweep; simpl. rewrite sweep_starts_spec. repeat split; reflexivity.
Qed.

(* membership form: an entry is scheduled by the sweep iff it has a verdict *)
Lemma in_dropped k cid v d : In d (dropped k cid v) <-> exists b, v = Some b /\ d = DRemove k cid (if b then 1 else 0) false.
Proof.
  destruct v as [b|]; simpl; split.
  - intros [H|[]]; eauto.
  - intros [b' [H1 H2]]; inversion H1; subst; auto.
  - tauto.
  - intros [b' [H1 _]]; discriminate.
Qed.

Lemma sweep_schedules_relay_l st s cid destroy rn :
  In (DRemove KRelay cid destroy rn) (sweep_spec st s) <->
  exists r b, In (cid, r) (relays s) /\ relay_verdict st (now s) r = Some b /\ destroy = (if b then 1 else 0) /\ rn = false.
Proof.
  unfold sweep_spec. rewrite !in_app_iff, !in_flat_map. split.
  - intros [[[k c] [_ H]]|[[[k r] [Hin H]]|[[k e] [_ H]]]]; apply in_dropped in H; destruct H as [b [Hv Hd]];
      try discriminate. inversion Hd; subst. simpl in *. eauto 8.
  - intros [r [b [Hin [Hv [Hd Hr]]]]]; subst. right; left. exists (cid, r); split; [exact Hin|].
    apply in_dropped; eauto.
Qed.

Lemma sweep_schedules_exit_l st s cid destroy rn :
  In (DRemove KExit cid destroy rn) (sweep_spec st s) <->
  exists e b, In (cid, e) (exits s) /\ exit_verdict st (now s) e = Some b /\ destroy = (if b then 1 else 0) /\ rn = false.
Proof.
  unfold sweep_spec. rewrite !in_app_iff, !in_flat_map. split.
  - intros [[[k c] [_ H]]|[[[k r] [_ H]]|[[k e] [Hin H]]]]; apply in_dropped in H; destruct H as [b [Hv Hd]];
      try discriminate. inversion Hd; subst. simpl in *. eauto 8.
  - intros [e [b [Hin [Hv [Hd Hr]]]]]; subst. right; right. exists (cid, e); split; [exact Hin|].
    apply in_dropped; eauto.
Qed.

Lemma sweep_schedules_circuit_l st s cid destroy rn :
  In (DRemove KCirc cid destroy rn) (sweep_spec st s) <->
  exists c b, In (cid, c) (circuits s) /\ circuit_verdict st (now s) c = Some b /\ destroy = (if b then 1 else 0) /\ rn = false.
Proof.
  unfold sweep_spec. rewrite !in_app_iff, !in_flat_map. split.
  - intros [[[k c] [Hin H]]|[[[k r] [_ H]]|[[k e] [_ H]]]]; apply in_dropped in H; destruct H as [b [Hv Hd]];
      try discriminate. inversion Hd; subst. simpl in *. eauto 8.
  - intros [c [b [Hin [Hv [Hd Hr]]]]]; subst. left. exists (cid, c); split; [exact Hin|].
    apply in_dropped; eauto.
Qed.

(* ---------------------------------------------------------------- the interval task itself *)
(* do_circuits first tries to satisfy the node's own demand for circuits; whatever create_circuit answers
   (any number of rounds, any outcomes) the call of do_remove that follows is reached: the sweep cannot be
   starved by a demand that cannot be met. *)
Ltac split_matches :=
  repeat match goal with
         | |- context [match ?x with _ => _ end] => let E := fresh "E" in destruct x eqn:E
         end.

Lemma dc_inner_body_no_return ok : dc_inner_body ok <> SReturn.
Proof. unfold dc_inner_body. destruct ok; simpl; discriminate. Qed.

Lemma dc_inner_no_return rs : dc_inner rs <> SReturn.
Proof.
  induction rs as [|ok tl IH]; simpl; [discriminate|].
  destruct (dc_inner_body ok) eqn:E; try discriminate; try exact IH.
  exfalso. exact (dc_inner_body_no_return ok E).
Qed.

Lemma dc_outer_body_no_return nb rs : dc_outer_body nb rs <> SReturn.
Proof.
  unfold dc_outer_body. pose proof (dc_inner_no_return rs) as H.
  destruct nb; simpl; destruct (dc_inner rs); try discriminate; try contradiction.
Qed.

Lemma dc_outer_no_return ds : dc_outer ds <> SReturn.
Proof.
  induction ds as [|[nb rs] tl IH]; simpl; [discriminate|].
  destruct (dc_outer_body nb rs) eqn:E; try discriminate; try exact IH.
  exfalso. exact (dc_outer_body_no_return nb rs E).
Qed.

Lemma do_circuits_sweeps_l ds : do_circuits_sweeps ds = true.
Proof.
  unfold do_circuits_sweeps. pose proof (dc_outer_no_return ds) as H.
  destruct (dc_outer ds); try reflexivity. contradiction.
Qed.
