(* Decoder discipline: an accepted decode stays inside the buffer, moves forward, and every
   length-prefixed part really has its declared length. *)
From Coq Require Import ZArith List Bool Lia ZifyBool Arith.
From IPV8V Require Import lib.PyErr lib.Bytes lib.BE model.M02_wire proofs.P02_prims proofs.P02_roundtrip.
Import ListNotations.
Open Scope Z_scope.

Lemma take_ok n off data bs : take n off data = Ok bs -> (off + n <= length data)%nat /\ length bs = n.
Proof.
  unfold take. destruct (off + n <=? length data)%nat eqn:E; [|discriminate]. intros H. inversion H; subst.
  apply Nat.leb_le in E. split; [exact E|]. rewrite firstn_length, skipn_length. lia.
Qed.

Section B.
Variable key_ok : bytes -> bool.
Notation unpack := (unpack key_ok).
Notation unpack_msg := (unpack_msg key_ok).

Definition Bf (f : fmt) : Prop := forall data off v off',
  (off <= length data)%nat -> unpack f data off = Ok (v, off') -> (off <= off' <= length data)%nat.
Definition Bm (m : msgfmt) : Prop := forall data off vs off',
  (off <= length data)%nat -> unpack_msg m data off = Ok (vs, off') -> (off <= off' <= length data)%nat.

Lemma varlen_bounds lw base data off b o :
  varlen_unpack lw base data off = Ok (b, o) ->
  (off <= o <= length data)%nat /\ o = (off + lw + length b)%nat /\
  exists l, take lw off data = Ok l /\ length b = (Z.to_nat (be_decode l) * base)%nat.
Proof.
  unfold varlen_unpack. destruct (take lw off data) as [l|] eqn:El; cbn [bind]; [|discriminate].
  destruct (off + lw + Z.to_nat (be_decode l) * base <=? length data)%nat eqn:E; [|discriminate].
  intros H. inversion H; subst. apply Nat.leb_le in E.
  assert (Hl : length (firstn (Z.to_nat (be_decode l) * base) (skipn (off + lw) data)) = (Z.to_nat (be_decode l) * base)%nat).
  { rewrite firstn_length, skipn_length. lia. }
  rewrite Hl. split; [lia|]. split; [reflexivity|]. exists l. split; [reflexivity|reflexivity].
Qed.

Lemma addr_bounds ip_only data off a o :
  addr_unpack ip_only data off = Ok (a, o) -> (off <= o <= length data)%nat.
Proof.
  unfold addr_unpack. destruct (take 1 off data) as [t|] eqn:Et; cbn [bind]; [|discriminate].
  apply take_ok in Et as [Ht _].
  destruct (be_decode t =? 1).
  - destruct (take 6 (off + 1) data) as [b|] eqn:Eb; cbn [bind]; [|discriminate]. apply take_ok in Eb as [Hb _].
    intros H; inversion H; subst. lia.
  - destruct (be_decode t =? 3).
    + destruct (take 18 (off + 1) data) as [b|] eqn:Eb; cbn [bind]; [|discriminate]. apply take_ok in Eb as [Hb _].
      intros H; inversion H; subst. lia.
    + destruct (negb ip_only && (be_decode t =? 2)); [|discriminate].
      destruct (take 2 (off + 1) data) as [l|] eqn:El; cbn [bind]; [|discriminate].
      destruct (negb (utf8_valid _)); [discriminate|].
      destruct (take 2 (off + 3 + Z.to_nat (be_decode l)) data) as [p|] eqn:Ep; cbn [bind]; [|discriminate].
      apply take_ok in Ep as [Hp _]. intros H; inversion H; subst. lia.
Qed.

Lemma b_struct ps : Bf (FStruct ps).
Proof.
  intros data off v off' Ho H. cbn [M02_wire.unpack] in H.
  destruct (take (struct_size ps) off data) eqn:E; cbn [bind] in H; [|discriminate].
  apply take_ok in E as [E _]. inversion H; subst. lia.
Qed.

Lemma b_listbody f (IH : Bf f) n : forall data off vs off',
  (off <= length data)%nat -> unpack_n (unpack f) n data off = Ok (vs, off') -> (off <= off' <= length data)%nat.
Proof.
  induction n as [|n IHn]; intros data off vs off' Ho H; cbn [unpack_n] in H.
  - inversion H; subst. lia.
  - destruct (unpack f data off) as [[v o1]|] eqn:E1; cbn [bind] in H; [|discriminate].
    destruct (unpack_n (unpack f) n data o1) as [[vs' o2]|] eqn:E2; cbn [bind] in H; [|discriminate].
    inversion H; subst. pose proof (IH _ _ _ _ Ho E1) as B1.
    assert (Ho1 : (o1 <= length data)%nat) by lia. pose proof (IHn _ _ _ _ Ho1 E2) as B2. lia.
Qed.

Lemma bounds_all : (forall f, Bf f) /\ (forall m, Bm m).
Proof.
  apply fmt_msg_ind.
  - exact b_struct.
  - intros data off v off' Ho H. cbn [M02_wire.unpack] in H.
    destruct (take 1 off data) eqn:E; cbn [bind] in H; [|discriminate]. apply take_ok in E as [E _].
    inversion H; subst. lia.
  - intros data off v off' Ho H. cbn [M02_wire.unpack] in H. inversion H; subst. lia.
  - intros lw base utf8 data off v off' Ho H. cbn [M02_wire.unpack] in H.
    destruct (varlen_unpack lw base data off) as [[b o]|] eqn:E; cbn [bind] in H; [|discriminate].
    apply varlen_bounds in E as [E _].
    destruct utf8; [destruct (utf8_valid b); [|discriminate]|]; inversion H; subst; lia.
  - intros data off v off' Ho H. cbn [M02_wire.unpack] in H.
    destruct (take 6 off data) eqn:E; cbn [bind] in H; [|discriminate]. apply take_ok in E as [E _].
    inversion H; subst. lia.
  - intros ip_only data off v off' Ho H. cbn [M02_wire.unpack] in H.
    destruct (addr_unpack ip_only data off) as [[a o]|] eqn:E; cbn [bind] in H; [|discriminate].
    apply addr_bounds in E. inversion H; subst. lia.
  - intros w data off v off' Ho H. cbn [M02_wire.unpack] in H.
    destruct (take w off data) eqn:E; cbn [bind] in H; [|discriminate]. apply take_ok in E as [E _].
    inversion H; subst. lia.
  - intros e lw data off v off' Ho H. cbn [M02_wire.unpack] in H.
    destruct (take lw off data) as [l|] eqn:E; cbn [bind] in H; [|discriminate].
    cbv zeta in H.
    destruct (off + lw + Z.to_nat (le_decode l) * psize e <=? length data)%nat eqn:E2; [|discriminate].
    apply Nat.leb_le in E2. inversion H; subst. lia.
  - intros data off v off' Ho H. cbn [M02_wire.unpack] in H.
    destruct (addr_unpack true data off) as [[a o1]|] eqn:E1; cbn [bind] in H; [|discriminate].
    destruct (varlen_unpack 2 1 data o1) as [[k o2]|] eqn:E2; cbn [bind] in H; [|discriminate].
    apply addr_bounds in E1. apply varlen_bounds in E2 as [E2 _].
    destruct (key_ok k); [|discriminate]. inversion H; subst. lia.
  - intros lw f IH data off v off' Ho H. cbn [M02_wire.unpack] in H.
    destruct (take lw off data) as [l|] eqn:E; cbn [bind] in H; [|discriminate]. apply take_ok in E as [E _].
    destruct (unpack_n (unpack f) (Z.to_nat (be_decode l)) data (off + lw)) as [[vs o]|] eqn:E2; cbn [bind] in H; [|discriminate].
    apply (b_listbody f IH) in E2; [|lia]. inversion H; subst. lia.
  - intros m IH data off v off' Ho H. rewrite unpack_nested in H.
    destruct (take 2 off data) as [l|] eqn:E; cbn [bind] in H; [|discriminate]. cbv zeta in H.
    destruct (off + 2 + Z.to_nat (be_decode l) <=? length data)%nat eqn:E2; [|discriminate].
    apply Nat.leb_le in E2.
    destruct (unpack_msg m _ 0) as [[vs o]|]; cbn [bind] in H; [|discriminate]. inversion H; subst. lia.
  - intros data off vs off' Ho H. cbn in H. inversion H; subst. lia.
  - intros f IHf m IHm data off vs off' Ho H. rewrite unpack_msg_cons in H.
    destruct (unpack f data off) as [[v o1]|] eqn:E1; cbn [bind] in H; [|discriminate].
    destruct (unpack_msg m data o1) as [[vs' o2]|] eqn:E2; cbn [bind] in H; [|discriminate].
    inversion H; subst. pose proof (IHf _ _ _ _ Ho E1) as B1. assert (Ho1 : (o1 <= length data)%nat) by lia. pose proof (IHm _ _ _ _ Ho1 E2). lia.
Qed.

Lemma unpack_bounds_l f data off v off' :
  (off <= length data)%nat -> unpack f data off = Ok (v, off') -> (off <= off' <= length data)%nat.
Proof. apply (proj1 bounds_all). Qed.

Lemma unpack_msg_bounds_l m data off vs off' :
  (off <= length data)%nat -> unpack_msg m data off = Ok (vs, off') -> (off <= off' <= length data)%nat.
Proof. apply (proj2 bounds_all). Qed.

Lemma unpack_all_exact_l m data off vs :
  (off <= length data)%nat -> unpack_all key_ok m data off = Ok vs ->
  unpack_msg m data off = Ok (vs, length data).
Proof.
  intros Ho H. unfold unpack_all in H.
  destruct (unpack_msg m data off) as [[vs' o]|] eqn:E; cbn [bind] in H; [|discriminate].
  destruct (o <? length data)%nat eqn:El; [discriminate|]. inversion H; subst.
  apply unpack_msg_bounds_l in E as B; [|exact Ho]. apply Nat.ltb_ge in El.
  f_equal. f_equal. lia.
Qed.

(* the declared length of a length-prefixed field is the length of the decoded field *)
Lemma varlen_declared_l lw base data off b o :
  unpack (FVarLen lw base false) data off = Ok (VBytes b, o) ->
  exists l, take lw off data = Ok l /\ length b = (Z.to_nat (be_decode l) * base)%nat
            /\ o = (off + lw + length b)%nat /\ (o <= length data)%nat.
Proof.
  intros H. cbn [M02_wire.unpack] in H.
  destruct (varlen_unpack lw base data off) as [[b' o']|] eqn:E; cbn [bind] in H; [|discriminate].
  inversion H; subst. apply varlen_bounds in E as (B & Eo & l & Hl & Hlen).
  exists l. repeat split; auto. lia.
Qed.

Lemma nested_declared_l m data off vs o :
  unpack (FNested m) data off = Ok (VMsg vs, o) ->
  exists l, take 2 off data = Ok l /\ o = (off + 2 + Z.to_nat (be_decode l))%nat /\ (o <= length data)%nat.
Proof.
  intros H. rewrite unpack_nested in H.
  destruct (take 2 off data) as [l|] eqn:E; cbn [bind] in H; [|discriminate]. cbv zeta in H.
  destruct (off + 2 + Z.to_nat (be_decode l) <=? length data)%nat eqn:E2; [|discriminate].
  apply Nat.leb_le in E2.
  destruct (unpack_msg m _ 0) as [[vs' o']|]; cbn [bind] in H; [|discriminate]. inversion H; subst.
  exists l. repeat split; auto.
Qed.

End B.
