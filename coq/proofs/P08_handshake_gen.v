(* C08x: the functions regenerated from the Python source (coq/gen/G08_handshake.v) compute exactly what the
   hand-written model M08_handshake computes, so every theorem of props/C08.v is a theorem about them. *)
From Coq Require Import ZArith List Bool Lia.
From IPV8V Require Import lib.PyErr model.M08_handshake model.M08_rt gen.G08_handshake model.M08_handshake_gen proofs.P08_base proofs.P08_origin.
Import ListNotations.
Open Scope Z_scope.

Section AL2.
Context {V : Type}.
Implicit Types (l : list (Z * V)).
Lemma adel_idem k l : adel k (adel k l) = adel k l.
Proof.
  induction l as [|[k' v] l IH]; simpl; auto. destruct (k =? k') eqn:E; simpl; auto. rewrite E, IH. auto.
Qed.
Lemma adel_absent k l : aget k l = None -> adel k l = l.
Proof.
  induction l as [|[k' v] l IH]; simpl; auto. destruct (k =? k') eqn:E; [discriminate|]. intros H. rewrite IH; auto.
Qed.
Lemma aset_aset k v v' l : aset k v (aset k v' l) = aset k v l.
Proof. unfold aset. simpl. rewrite Z.eqb_refl, adel_idem. auto. Qed.
Lemma aset_adel k v l : aset k v (adel k l) = aset k v l.
Proof. unfold aset. rewrite adel_idem. auto. Qed.
Lemma ahas_aget k l : ahas k l = match aget k l with Some _ => true | None => false end.
Proof. reflexivity. Qed.
End AL2.

Lemma py_idx_nil {A} (i : Z) : @py_idx A [] i = Raise IndexError.
Proof.
  unfold py_idx. change (zlen (@nil A)) with 0. rewrite Z.add_0_r.
  destruct (i <? 0) eqn:E.
  - rewrite E. reflexivity.
  - rewrite E. cbn. destruct (0 <=? i) eqn:G; [reflexivity|]. apply Z.ltb_ge in E. apply Z.leb_gt in G. lia.
Qed.
Lemma py_idx_cons0 {A} (x : A) l : py_idx (x :: l) 0 = Ok x.
Proof.
  unfold py_idx. cbn [Z.ltb Z.compare]. replace (zlen (x :: l) <=? 0) with false; [reflexivity|].
  symmetry. apply Z.leb_gt. unfold zlen. cbn [length]. lia.
Qed.

Lemma zlen_app {A} (a b : list A) : zlen (a ++ b) = zlen a + zlen b.
Proof. unfold zlen. rewrite app_length. lia. Qed.
Lemma zlen_nonneg {A} (a : list A) : 0 <= zlen a.
Proof. unfold zlen. lia. Qed.

Lemma py_idx_mid {A} (pre : list A) x rest : py_idx (pre ++ x :: rest) (zlen pre) = Ok x.
Proof.
  pose proof (zlen_nonneg pre) as P. pose proof (zlen_nonneg rest) as Q.
  assert (H1 : (zlen pre <? 0) = false) by (apply Z.ltb_ge; lia).
  assert (H2 : (zlen (pre ++ x :: rest) <=? zlen pre) = false).
  { apply Z.leb_gt. rewrite zlen_app. replace (zlen (x :: rest)) with (1 + zlen rest) by (unfold zlen; cbn [length]; lia). lia. }
  unfold py_idx. cbv zeta. rewrite !H1, H2. cbn [orb].
  unfold zlen. rewrite Nat2Z.id. rewrite nth_error_app2 by lia. rewrite Nat.sub_diag. reflexivity.
Qed.

Lemma py_clamp_mid {A} (pre rest : list A) : py_clamp (zlen (pre ++ rest)) (zlen pre) = zlen pre.
Proof.
  pose proof (zlen_nonneg pre) as P. pose proof (zlen_nonneg rest) as Q.
  unfold py_clamp. rewrite zlen_app.
  assert (H1 : (zlen pre <? 0) = false) by (apply Z.ltb_ge; lia).
  assert (H2 : (zlen pre + zlen rest <? zlen pre) = false) by (apply Z.ltb_ge; lia).
  cbv zeta. rewrite !H1, H2. reflexivity.
Qed.

Lemma py_slice_prefix {A} (pre rest : list A) : py_slice (pre ++ rest) None (Some (zlen pre)) = pre.
Proof.
  unfold py_slice. cbv zeta. rewrite py_clamp_mid. rewrite Z.sub_0_r. unfold zlen. rewrite Nat2Z.id.
  cbn [Z.to_nat skipn]. rewrite firstn_app, Nat.sub_diag, firstn_all. cbn [firstn]. apply app_nil_r.
Qed.

Lemma py_slice_suffix {A} (pre rest : list A) : py_slice (pre ++ rest) (Some (zlen pre)) None = rest.
Proof.
  unfold py_slice. cbv zeta. rewrite py_clamp_mid. rewrite zlen_app.
  replace (zlen pre + zlen rest - zlen pre) with (zlen rest) by lia.
  unfold zlen. rewrite !Nat2Z.id. rewrite skipn_app, Nat.sub_diag, skipn_all. cbn [skipn app]. apply firstn_all.
Qed.

(* the loop of _ours_on_created_extended that looks for the doubled key *)
Definition split_body (l : list Z) : Z -> list Z * list Z -> res (lres (list Z * list Z)) :=
  fun i '(r, e) =>
    bind (py_idx l i) (fun x => bind (py_idx l (i + 1)) (fun y =>
      if x =? y then Ok (LBreak (py_slice l None (Some i), py_slice l (Some (i + 1)) None)) else Ok (LCont (r, e)))).

Lemma split_loop_gen rest : forall pre r0 e0,
  for_range_from (length rest - 1) (zlen pre) (split_body (pre ++ rest)) (r0, e0)
  = Ok (match split_dup (rev pre) rest with Some p => p | None => (r0, e0) end).
Proof.
  induction rest as [|x rest IH]; intros pre r0 e0; [reflexivity|].
  destruct rest as [|y tl]; [reflexivity|].
  replace (length (x :: y :: tl) - 1)%nat with (S (length (y :: tl) - 1)) by (cbn [length]; lia).
  assert (EQ : pre ++ x :: y :: tl = (pre ++ [x]) ++ y :: tl) by (rewrite <- app_assoc; reflexivity).
  assert (ZL : zlen pre + 1 = zlen (pre ++ [x])) by (rewrite zlen_app; reflexivity).
  cbn [for_range_from split_dup]. unfold split_body at 1. cbn beta iota.
  rewrite py_idx_mid. cbn [bind]. rewrite ZL. rewrite EQ at 1. rewrite py_idx_mid. cbn [bind].
  destruct (x =? y) eqn:E.
  - rewrite rev_involutive. rewrite py_slice_prefix. rewrite EQ, <- ZL. rewrite ZL. rewrite py_slice_suffix. reflexivity.
  - rewrite EQ. rewrite (IH (pre ++ [x]) r0 e0). rewrite rev_unit. reflexivity.
Qed.

Lemma split_loop l :
  py_for_range (zlen l - 1) (split_body l) (l, []) = Ok (split_cands l).
Proof.
  unfold py_for_range, split_cands.
  replace (Z.to_nat (zlen l - 1)) with (length l - 1)%nat by (unfold zlen; lia).
  exact (split_loop_gen l [] l []).
Qed.

Section Gen.
Variable C : crypto.
Variable R : rt.
Variables tc th : Z.
Implicit Types (n : @node C) (a : list (@action C)).

Local Notation o := (rt_o R).

(* how a result of the hand model shows in the monad: outcome, final state, cells appended *)
Definition lift_out (r : out C) a : res unit * gs C :=
  (match snd r with None => Ok tt | Some e => Raise e end, (st r, a ++ acts r)).

Ltac munf := cbv beta iota zeta delta [mbind mret mraise mlift mtry mtry_bind rd wr emit need need_res
  rc_has_retry rc_get_retry rc_pop_retry rc_add_retry rc_has_creq rc_pop_creq rc_add_creq
  rc_has_dreq rc_get_dreq rc_add_dreq circ_has circ_get circ_index circ_put exit_has exit_index exit_put
  relay_has relay_index relay_put sched_rm lift_out done fail fst snd st acts
  g_generate_diffie_secret g_generate_session_keys
  n_sk n_pkbin n_any_flag n_relay_flag n_max_joined n_circ n_exit n_relay n_retry n_creq n_dreq n_rm
  set_circ set_exit set_relay set_retry set_creq set_dreq set_rm schedule_rm
  with_unv add_hop with_keys with_dh c_first h_first with_hops_unv with_closing].
Ltac objs := cbn [c_first with_unv with_hops_unv add_hop with_keys with_dh h_first h_dh h_keys h_peer
  c_hops c_unv c_goal c_closing c_reqexit p_key p_addr r_pid r_tries r_initial r_peers r_keys
  hd_error nonempty py_or_list rr_cid rr_hop rr_fwd negb].
Ltac ms := munf; objs; munf; objs; munf.
Ltac fin := rewrite ?aset_aset, ?aset_adel, ?adel_idem; cbn; rewrite ?aset_aset, ?aset_adel, ?adel_idem, ?app_nil_r, <- ?app_assoc; reflexivity.

Lemma g_sic_refines cid cands tries n a :
  g_send_initial_create C R cid cands tries (n, a) = lift_out (send_initial_create n cid cands tries o) a.
Proof.
  destruct n as [nsk npk naf nrf nmj ncirc nexit nrelay nretry ncreq ndreq nrm].
  unfold g_send_initial_create, send_initial_create. munf. unfold ahas. cbn [n_circ n_retry].
  destruct (aget cid ncirc) as [c|] eqn:G; munf; [|fin].
  destruct (aget cid nretry) as [r|] eqn:RR; munf; cbn [n_retry]; rewrite ?RR; munf.
  - destruct cands as [|f tl]; [rewrite py_idx_nil; munf; fin|]. rewrite py_idx_cons0. munf. fin.
  - destruct cands as [|f tl].
    + rewrite py_idx_nil; munf; rewrite (adel_absent _ _ RR); fin.
    + rewrite py_idx_cons0. munf. fin.
Qed.

(* ---- send_extend ---------------------------------------------------------------------------------------- *)
Lemma filter_res_cands ex l :
  filter_res (fun c => pand (Ok (negb (zmem c ex))) (key_truthy C c)) l = filter_cands (C:=C) ex l.
Proof.
  induction l as [|c tl IH]; cbn [filter_res filter_cands]; auto.
  rewrite IH. unfold pand, bind, key_truthy. destruct (zmem c ex); cbn [negb].
  - destruct (filter_cands ex tl); reflexivity.
  - destruct (valid_key C c); [|reflexivity]. destruct (filter_cands ex tl); reflexivity.
Qed.

Lemma filter_cands_valid ex l f : filter_cands (C:=C) ex l = Ok f -> forall t, In t f -> valid_key C t = true.
Proof.
  revert f. induction l as [|c tl IH]; cbn [filter_cands]; intros f H t I.
  - inversion H; subst. destruct I.
  - destruct (zmem c ex); [eapply IH; eauto|].
    destruct (valid_key C c) eqn:VK; [|discriminate].
    destruct (filter_cands ex tl) as [r|e]; cbn in H; [|discriminate]. inversion H; subst.
    destruct I as [<-|I]; auto. eapply IH; eauto.
Qed.

Definition exclude_of n (c : @circuit C) : list Z :=
  map (fun h => p_key (h_peer h)) (c_hops c) ++ [n_pkbin n]
  ++ match c_reqexit c with Some re => [p_key re] | None => [] end.

(* what the hand model takes as an oracle value is, in the code, random.choice over the known exit-and-relay
   candidates that are not excluded (the circuit's hops, this node, the required exit) *)
Definition fallback_value (npk : Z) (hopkeys : list Z) (reqexit : option peer) : option peer :=
  match filter (fun p => negb (zmem (p_key p) (hopkeys ++ [npk] ++ match reqexit with Some re => [p_key re] | None => [] end)))
               (rt_cands R [2; 1]) with
  | [] => None
  | l => Some (rt_choice R l)
  end.
Definition fallback_spec n (cid : Z) : Prop :=
  forall c, aget cid (n_circ n) = Some c ->
  o_fallback o = fallback_value (n_pkbin n) (map (fun h => p_key (h_peer h)) (c_hops c)) (c_reqexit c).
(* the same for the send_extend that follows the acceptance of the unverified hop *)
Definition fallback_spec_after n (cid : Z) : Prop :=
  forall c u, aget cid (n_circ n) = Some c -> c_unv c = Some u ->
  o_fallback o = fallback_value (n_pkbin n) (map (fun h => p_key (h_peer h)) (c_hops c) ++ [p_key (h_peer u)]) (c_reqexit c).
(* Peer objects hold parsed keys *)
Definition peers_valid n (cid : Z) : Prop :=
  (forall c re, aget cid (n_circ n) = Some c -> c_reqexit c = Some re -> valid_key C (p_key re) = true)
  /\ (forall l, l <> [] -> valid_key C (p_key (rt_choice R l)) = true).

Lemma filter_excl (A B D : list Z) (l : list peer) :
  filter (fun p => negb (zmem (p_key p) ((A ++ B) ++ D))) l = filter (fun p => negb (zmem (p_key p) (A ++ B ++ D))) l.
Proof. apply filter_ext. intros p. rewrite <- app_assoc. reflexivity. Qed.

Lemma key_obj_ok k : valid_key C k = true -> key_obj C k = Ok k.
Proof. intros H. unfold key_obj. rewrite H. reflexivity. Qed.

Lemma g_sext_refines cid cands tries n a :
  fallback_spec n cid -> peers_valid n cid ->
  g_send_extend C R cid cands tries (n, a) = lift_out (send_extend n cid cands tries o) a.
Proof.
  intros FB [VRE VCH].
  destruct n as [nsk npk naf nrf nmj ncirc nexit nrelay nretry ncreq ndreq nrm].
  unfold fallback_spec, fallback_value in FB. cbn [n_circ n_pkbin] in FB, VRE.
  unfold g_send_extend, send_extend. munf. unfold ahas.
  destruct (aget cid ncirc) as [c|] eqn:G; munf; [|fin].
  specialize (FB c eq_refl). specialize (VRE c).
  destruct c as [goal hops unv closing reqexit]. cbn [c_hops c_reqexit c_goal] in *. ms.
  destruct (goal - 1 =? zlen hops) eqn:BE; ms.
  - destruct reqexit as [re|] eqn:RE; ms.
    + rewrite (key_obj_ok _ (VRE re eq_refl eq_refl)).
      destruct hops; (destruct (aget cid nretry) as [r|] eqn:RR; ms; rewrite ?RR; ms; rewrite ?RR; ms; fin).
    + rewrite filter_res_cands. cbn [app] in *.
      destruct (filter_cands (C:=C) (map (fun h => p_key (h_peer h)) hops ++ [npk]) cands) as [f|e] eqn:FC; ms; [|fin].
      destruct f as [|t tl]; ms.
      * rewrite FB.
        destruct (filter (fun p => negb (zmem (p_key p) (map (fun h => p_key (h_peer h)) hops ++ [npk]))) (rt_cands R [2; 1]))
          as [|p0 pl] eqn:CH; ms; [fin|].
        rewrite (key_obj_ok _ (VCH (p0 :: pl) ltac:(discriminate))).
        destruct hops; (destruct (aget cid nretry) as [r|] eqn:RR; ms; rewrite ?RR; ms; rewrite ?RR; ms; fin).
      * rewrite (key_obj_ok t) by (eapply filter_cands_valid; [exact FC|left; reflexivity]).
        destruct hops; (destruct (aget cid nretry) as [r|] eqn:RR; ms; rewrite ?RR; ms; rewrite ?RR; ms; fin).
  - destruct reqexit as [re|] eqn:RE; ms; rewrite !filter_res_cands.
    + rewrite <- app_assoc in *. cbn [app] in *.
      destruct (filter_cands (C:=C) (map (fun h => p_key (h_peer h)) hops ++ [npk; p_key re]) cands) as [f|e] eqn:FC; ms; [|fin].
      destruct f as [|t tl]; ms.
      * rewrite FB.
        destruct (filter (fun p => negb (zmem (p_key p) (map (fun h => p_key (h_peer h)) hops ++ [npk; p_key re]))) (rt_cands R [2; 1]))
          as [|p0 pl] eqn:CH; ms; [fin|].
        rewrite (key_obj_ok _ (VCH (p0 :: pl) ltac:(discriminate))).
        destruct hops; (destruct (aget cid nretry) as [r|] eqn:RR; ms; rewrite ?RR; ms; rewrite ?RR; ms; fin).
      * rewrite (key_obj_ok t) by (eapply filter_cands_valid; [exact FC|left; reflexivity]).
        destruct hops; (destruct (aget cid nretry) as [r|] eqn:RR; ms; rewrite ?RR; ms; rewrite ?RR; ms; fin).
    + cbn [app] in *.
      destruct (filter_cands (C:=C) (map (fun h => p_key (h_peer h)) hops ++ [npk]) cands) as [f|e] eqn:FC; ms; [|fin].
      destruct f as [|t tl]; ms.
      * rewrite FB.
        destruct (filter (fun p => negb (zmem (p_key p) (map (fun h => p_key (h_peer h)) hops ++ [npk]))) (rt_cands R [2; 1]))
          as [|p0 pl] eqn:CH; ms; [fin|].
        rewrite (key_obj_ok _ (VCH (p0 :: pl) ltac:(discriminate))).
        destruct hops; (destruct (aget cid nretry) as [r|] eqn:RR; ms; rewrite ?RR; ms; rewrite ?RR; ms; fin).
      * rewrite (key_obj_ok t) by (eapply filter_cands_valid; [exact FC|left; reflexivity]).
        destruct hops; (destruct (aget cid nretry) as [r|] eqn:RR; ms; rewrite ?RR; ms; rewrite ?RR; ms; fin).
Qed.

(* ---- _ours_on_created_extended ----------------------------------------------------------------------------- *)
Lemma lift_out_bind (r : out C) a :
  (let (r0, s') := lift_out r a in match r0 with Ok _ => (Ok tt, s') | Raise e => (Raise e, s') end) = lift_out r a.
Proof. destruct r as [[n' ac] [e|]]; reflexivity. Qed.

Lemma g_ours_refines cid (p : @answer C) n a :
  fallback_spec_after n cid -> peers_valid n cid ->
  g_ours_on_created_extended C R cid p (n, a) = lift_out (ours n cid (a_key p) (a_auth p) (a_ce p) o) a.
Proof.
  intros FB PV.
  destruct n as [nsk npk naf nrf nmj ncirc nexit nrelay nretry ncreq ndreq nrm].
  unfold fallback_spec_after in FB. cbn [n_circ n_pkbin] in FB.
  unfold g_ours_on_created_extended, ours, g_verify_and_generate_shared_secret. munf.
  destruct (aget cid ncirc) as [c|] eqn:G; ms; [|fin].
  specialize (FB c).
  destruct c as [goal hops unv closing reqexit]. cbn [c_hops c_reqexit c_goal c_unv] in *. ms.
  destruct unv as [u|]; ms; [|fin]. specialize (FB u eq_refl eq_refl).
  destruct u as [upeer ukeys udh]. cbn [h_dh h_peer h_keys] in *.
  destruct udh as [x|]; ms; [|fin].
  unfold dh_res. ms.
  destruct (dh C x (a_key p)) as [s1|] eqn:D1; ms; [|fin].
  destruct (dh C x (cpk C (p_key upeer))) as [s2|] eqn:D2; ms; [|fin].
  destruct (tag_eqb C (a_auth p) (mac C s1 (a_key p))) eqn:T; ms; [|fin].
  unfold is_extending, is_ready, cstate. objs.
  destruct closing; ms; [fin|].
  destruct (zlen (hops ++ [mkHop upeer (Some (kdf C s1 s2)) (Some x)]) <? goal) eqn:EXT; ms.
  - destruct (aget cid nretry) as [r|] eqn:RR; ms; rewrite ?RR; ms; [|fin].
    unfold cdec_res.
    destruct (cdec C (kdf C s1 s2) (a_ce p)) as [l|e] eqn:CD; ms; [|fin].
    match goal with |- context [py_for_range ?k ?f ?s] => change f with (split_body l) end.
    rewrite split_loop. destruct (split_cands l) as [rel ex]. ms.
    rewrite ?aset_aset.
    destruct (goal - 1 =? zlen (hops ++ [mkHop upeer (Some (kdf C s1 s2)) (Some x)])) eqn:BE; ms.
    + rewrite g_sext_refines; [apply lift_out_bind| |].
      * intros c' G'. cbn [n_circ] in G'. rewrite aget_aset_same in G'. inversion G'; subst c'. cbn. rewrite map_app. exact FB.
      * destruct PV as [V1 V2]. split; [|exact V2]. intros c' re G' RE'. cbn [n_circ] in G'. rewrite aget_aset_same in G'.
        inversion G'; subst c'. cbn in RE'. eapply V1; [cbn [n_circ]; exact G|exact RE'].
    + rewrite g_sext_refines; [destruct rel; apply lift_out_bind| |].
      * intros c' G'. cbn [n_circ] in G'. rewrite aget_aset_same in G'. inversion G'; subst c'. cbn. rewrite map_app. exact FB.
      * destruct PV as [V1 V2]. split; [|exact V2]. intros c' re G' RE'. cbn [n_circ] in G'. rewrite aget_aset_same in G'.
        inversion G'; subst c'. cbn in RE'. eapply V1; [cbn [n_circ]; exact G|exact RE'].
  - destruct (aget cid nretry) as [r|] eqn:RR; ms; rewrite ?RR; ms; fin.
Qed.

(* ---- on_created / on_extended --------------------------------------------------------------------------------- *)
Lemma g_on_created_refines src (p : @answer C) n a :
  fallback_spec_after n (a_cid p) -> peers_valid n (a_cid p) ->
  g_on_created C R src p tt (n, a)
  = lift_out (on_created n src (a_cid p) (a_ident p) (a_key p) (a_auth p) (a_ce p) o) a.
Proof.
  intros FB PV.
  destruct n as [nsk npk naf nrf nmj ncirc nexit nrelay nretry ncreq ndreq nrm].
  unfold g_on_created, on_created. munf. unfold ahas. objs.
  destruct (aget (a_ident p) ncreq) as [q|] eqn:Q; ms; rewrite ?Q; ms.
  - destruct (aget (q_from q) nexit) as [eh|] eqn:EX; ms; rewrite ?EX; ms; [|fin].
    destruct (aget (q_from q) nrelay) as [rr|] eqn:RL; ms; rewrite ?RL, ?EX; ms; fin.
  - destruct (aget (a_cid p) nretry) as [r|] eqn:RR; ms; [|fin].
    destruct (r_pid r =? a_ident p); ms; [|fin].
    rewrite g_ours_refines by assumption. apply lift_out_bind.
Qed.

Lemma g_on_extended_refines src (p : @answer C) n a :
  fallback_spec_after n (a_cid p) -> peers_valid n (a_cid p) ->
  g_on_extended C R src p tt (n, a)
  = lift_out (on_extended n src (a_cid p) (a_ident p) (a_key p) (a_auth p) (a_ce p) o) a.
Proof.
  intros FB PV.
  destruct n as [nsk npk naf nrf nmj ncirc nexit nrelay nretry ncreq ndreq nrm].
  unfold g_on_extended, on_extended. munf. objs.
  destruct (aget (a_cid p) nretry) as [r|] eqn:RR; ms; [|fin].
  destruct (r_pid r =? a_ident p); ms; [|fin].
  rewrite g_ours_refines by assumption. apply lift_out_bind.
Qed.

(* ---- on_create (should_join_circuit, join_circuit) ------------------------------------------------------------- *)
(* the list of peers a joining node offers: what join_circuit computes from its candidate table *)
Definition offer_of : list peer :=
  let ex := py_slice (rt_cands R [2; 1]) None (Some 4) in
  py_slice (filter (fun p => negb (zmem 2 (rt_flags R p))) (rt_cands R [1])) None (Some 4)
  ++ match ex with [] => [] | x :: _ => x :: ex end.

Lemma g_on_create_refines src (p : @pcreate C) n a :
  o_offer o = offer_of ->
  g_on_create C R src p tt (n, a) = lift_out (on_create n src (pc_cid p) (pc_ident p) (pc_npk p) (pc_key p) o) a.
Proof.
  intros OF.
  destruct n as [nsk npk naf nrf nmj ncirc nexit nrelay nretry ncreq ndreq nrm].
  unfold g_on_create, on_create, g_should_join_circuit, g_join_circuit, g_generate_diffie_shared_secret. munf.
  unfold ahas. objs. rewrite OF. unfold offer_of.
  destruct naf; ms; [|fin].
  destruct (aget (pc_cid p) ndreq); ms; [fin|].
  destruct (aget (pc_cid p) ncirc); ms; [fin|].
  destruct (aget (pc_cid p) nrelay); ms; [fin|].
  destruct (aget (pc_cid p) nexit); ms; [fin|].
  destruct (nmj <=? zlen nrelay + zlen nexit); ms; [fin|].
  unfold dh_res. ms.
  destruct (dh C (sk_of C (o_x o)) (pc_key p)) as [s1|]; ms; [|fin].
  destruct (dh C nsk (pc_key p)) as [s2|]; ms; [|fin].
  destruct (py_slice (rt_cands R [2; 1]) None (Some 4)) as [|e0 el] eqn:EX; ms.
  - unfold key_obj. destruct (valid_key C (pc_npk p)); ms; fin.
  - rewrite py_idx_cons0. ms. unfold key_obj. destruct (valid_key C (pc_npk p)); ms; fin.
Qed.

(* ---- on_extend ---------------------------------------------------------------------------------------------------- *)
Lemma g_on_extend_refines src (p : @pextend C) n a :
  g_on_extend C R src p tt (n, a)
  = lift_out (on_extend n src (pe_cid p) (pe_ident p) (pe_npk p) (pe_key p) (pe_addr p) o) a.
Proof.
  destruct n as [nsk npk naf nrf nmj ncirc nexit nrelay nretry ncreq ndreq nrm].
  unfold g_on_extend, on_extend. munf. unfold ahas. objs.
  destruct nrf; ms; [|fin].
  destruct (aget (pe_cid p) ndreq) as [rq|]; ms; [|fin].
  destruct (pe_addr p =? 0) eqn:AD; ms;
    destruct (find_peer (pe_npk p) (d_cands rq)) as [fp|] eqn:FP; ms; rewrite ?FP; ms; try fin;
    try (destruct (o_known o) as [kp|]; ms);
    try (unfold key_obj; destruct (valid_key C (pe_npk p)); ms; try fin);
    (destruct (aget (pe_cid p) ncirc) as [c|] eqn:GC; ms; rewrite ?GC; ms;
     [destruct c as [goal hops unv closing reqexit]; ms; destruct hops; ms; [destruct unv; ms|]; fin|];
     destruct (aget (pe_cid p) nexit) as [eh|] eqn:GE; ms; rewrite ?GE; ms; [fin|];
     destruct (aget (pe_cid p) nrelay) as [rr|] eqn:GR; ms; rewrite ?GR; ms; fin).
Qed.

(* ---- RetryRequestCache.on_timeout (after RequestCache._on_timeout popped the cache) -------------------------------- *)
Lemma lift_out_swallow (r : out C) a :
  (let (r0, s') := (let (r1, s1) := lift_out r a in match r1 with Ok _ => (Ok tt, s1) | Raise e => (Raise e, s1) end) in
   match r0 with Ok _ => (Ok tt, s') | Raise _ => (Ok tt, s') end) = lift_out (swallow r) a.
Proof. destruct r as [[n' ac] [e|]]; reflexivity. Qed.

Lemma fallback_spec_irrel n n' cid :
  n_circ n' = n_circ n -> n_pkbin n' = n_pkbin n -> fallback_spec n cid -> fallback_spec n' cid.
Proof. intros E1 E2 F c G. rewrite E1 in G. rewrite E2. apply F. exact G. Qed.
Lemma peers_valid_irrel n n' cid : n_circ n' = n_circ n -> peers_valid n cid -> peers_valid n' cid.
Proof. intros E1 [V1 V2]. split; auto. intros c re G. rewrite E1 in G. eapply V1; eauto. Qed.

Lemma g_timeout_refines cid n a :
  fallback_spec n cid -> peers_valid n cid ->
  g_timeout C R cid (n, a) = lift_out (retry_timeout n cid o) a.
Proof.
  intros FB PV.
  destruct n as [nsk npk naf nrf nmj ncirc nexit nrelay nretry ncreq ndreq nrm].
  unfold g_timeout, retry_timeout, g_retry_on_timeout. munf. objs.
  destruct (aget cid nretry) as [r|] eqn:RR; ms; rewrite ?RR; ms; [|fin].
  destruct (aget cid ncirc) as [c|] eqn:G; ms; [|fin].
  unfold is_closing, cstate.
  destruct (r_initial r); ms.
  - destruct (c_closing c); ms; [fin|].
    destruct (zlen (c_hops c) <? c_goal c); ms;
      (destruct (r_peers r) as [|p0 pl] eqn:RP; ms; [fin|]; destruct (r_tries r <? 1); ms; [fin|];
       rewrite g_sic_refines; rewrite <- RP; apply lift_out_swallow).
  - destruct (c_closing c); ms; [fin|].
    destruct (zlen (c_hops c) <? c_goal c); ms;
      (destruct (r_keys r) as [|k0 kl] eqn:RK; ms; [fin|]; destruct (r_tries r <? 1); ms; [fin|];
       rewrite g_sext_refines;
       [rewrite <- RK; apply lift_out_swallow
       |eapply fallback_spec_irrel; [| |exact FB]; reflexivity
       |eapply peers_valid_irrel; [|exact PV]; reflexivity]).
Qed.

(* ---- create_circuit, from the test of possible_first_hops on ------------------------------------------------------- *)
Lemma g_create_refines goal re firsts n a :
  ahas (o_cid o) (n_circ n) = false -> firsts <> [] ->
  g_create_circuit_tail C R tc th goal re firsts (n, a)
  = lift_out (step n (EvNewCircuit (o_cid o) goal re firsts (tc / th) o)) a.
Proof.
  intros FR NE.
  destruct n as [nsk npk naf nrf nmj ncirc nexit nrelay nretry ncreq ndreq nrm].
  cbn [n_circ] in FR. unfold g_create_circuit_tail. cbn [step]. cbn [n_circ]. rewrite FR.
  destruct firsts as [|f0 fl]; [congruence|]. ms.
  rewrite g_sic_refines. apply lift_out_bind.
Qed.

(* ---- every translated event at once ------------------------------------------------------------------------------------ *)
(* which events the translated functions cover, with the run-time facts the hand model takes as oracle values *)
Definition covered n (e : @event C) : Prop :=
  match e with
  | EvNewCircuit cid goal re firsts tries o' =>
      o' = o /\ cid = o_cid o /\ tries = tc / th /\ ahas cid (n_circ n) = false /\ firsts <> []
  | EvMsg src (MCreate _ _ _ _) o' => o' = o /\ o_offer o = offer_of
  | EvMsg src (MCreated cid _ _ _ _) o' | EvMsg src (MExtended cid _ _ _ _) o' =>
      o' = o /\ fallback_spec_after n cid /\ peers_valid n cid
  | EvMsg src (MExtend _ _ _ _ _) o' => o' = o
  | EvTimeout cid o' => o' = o /\ fallback_spec n cid /\ peers_valid n cid
  | _ => False
  end.

Lemma run_lift (m : M C unit) n (r : out C) : m (n, []) = lift_out r [] -> run_m m n = r.
Proof.
  unfold run_m, lift_out. intros ->. destruct r as [[n' ac] [e|]]; reflexivity.
Qed.

Theorem gen_refines_hand_model_l n e : covered n e -> run_m (g_step C R tc th e) n = step n e.
Proof.
  intros CV. apply run_lift.
  destruct e as [cid goal re firsts tries o'|src m o'|cid o'|cid|cid|cid]; cbn [covered] in CV; try contradiction.
  - destruct CV as (-> & -> & -> & FR & NE). cbn [g_step]. apply g_create_refines; auto.
  - destruct m as [cid i k X|cid i Y au ce|cid i k X ad|cid i Y au ce]; cbn [g_step step handle].
    + destruct CV as [-> OF]. apply (g_on_create_refines src (mkPCreate cid i k X)). exact OF.
    + destruct CV as (-> & FB & PV). apply (g_on_created_refines src (mkAns cid i Y au ce)); assumption.
    + subst o'. apply (g_on_extend_refines src (mkPExtend cid i k X ad)).
    + destruct CV as (-> & FB & PV). apply (g_on_extended_refines src (mkAns cid i Y au ce)); assumption.
  - destruct CV as (-> & FB & PV). cbn [g_step step]. apply g_timeout_refines; assumption.
Qed.

(* ---- the theorems of props/C08.v, about the generated functions ------------------------------------------------------- *)
Fixpoint g_run n (evs : list (@event C)) : @node C :=
  match evs with [] => n | e :: tl => g_run (st (run_m (g_step C R tc th e) n)) tl end.
Fixpoint all_covered n (evs : list (@event C)) : Prop :=
  match evs with [] => True | e :: tl => covered n e /\ all_covered (st (step n e)) tl end.

Lemma g_run_is_run evs : forall n, all_covered n evs -> g_run n evs = run n evs.
Proof.
  induction evs as [|e tl IH]; intros n AC; cbn [g_run run]; auto.
  destruct AC as [CV AC]. rewrite (gen_refines_hand_model_l n e CV). apply IH. exact AC.
Qed.

Lemma gen_accept_implies_l n src m cid hs hs' :
  covered n (EvMsg src m o) ->
  hops_of n cid = Some hs -> hops_of (st (run_m (g_step C R tc th (EvMsg src m o)) n)) cid = Some hs' -> hs' <> hs ->
  exists i Y au ce r h,
    answer_of C m = Some (cid, i, Y, au, ce) /\ not_relay_case C n m
    /\ aget cid (n_retry n) = Some r /\ r_pid r = i
    /\ accepts C n cid Y au h /\ hs' = hs ++ [h].
Proof.
  intros CV H H' NE. rewrite (gen_refines_hand_model_l n _ CV) in H'. cbn [step] in H'.
  eapply accept_implies_l; eauto.
Qed.

Lemma gen_hops_never_change_l evs n k hs :
  all_covered n evs -> hops_of n k = Some hs ->
  exists hs', hops_of (g_run n evs) k = Some hs' /\ prefix hs hs'.
Proof.
  intros AC H. rewrite (g_run_is_run evs n AC). apply run_grows_l; auto.
  (* a covered event is never the purge of a circuit *)
  clear H. revert n AC. induction evs as [|e tl IH]; intros n AC e' I P; [destruct I|].
  destruct AC as [CV AC]. destruct I as [<-|I].
  - destruct e; cbn in P, CV; try contradiction.
  - eapply IH; eauto.
Qed.

Lemma gen_keyed_l evs n : all_covered n evs -> keyed C n -> keyed C (g_run n evs).
Proof. intros AC K. rewrite (g_run_is_run evs n AC). apply run_keyed_l. exact K. Qed.

Lemma gen_extend_one_peer_l cid cands tries n r n' ac fa k i t X addr :
  fallback_spec n cid -> peers_valid n cid ->
  g_send_extend C R cid cands tries (n, []) = (r, (n', ac)) ->
  In (Send fa (MExtend k i t X addr)) ac ->
  addr = 0 \/ exists p, t = p_key p /\ addr = p_addr p
    /\ (o_fallback o = Some p \/ exists c, aget cid (n_circ n) = Some c /\ c_reqexit c = Some p).
Proof.
  intros FB PV E I. rewrite (g_sext_refines cid cands tries n [] FB PV) in E.
  unfold lift_out in E. inversion E; subst. cbn [app] in I. eapply sext_one_peer; eauto.
Qed.

End Gen.
