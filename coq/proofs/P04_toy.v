(* The toy AEAD of M04_harness satisfies every hypothesis the C04 / C05 theorems place on the AEAD. *)
From Coq Require Import ZArith List Bool Lia ZifyBool Arith.
From IPV8V Require Import lib.PyErr lib.Bytes lib.BE model.M02_wire model.M03_recv model.M04_onion model.M04_harness
  spec.S04_onion_spec proofs.P02_prims.
Import ListNotations.
Open Scope Z_scope.

Lemma tenc_length k d n m : length (tenc k d n m) = (length m + 24)%nat.
Proof. unfold tenc, ttag. rewrite !app_length. cbn [length repeat]. lia. Qed.

Lemma tenc_parts k d n m :
  hd 0 (tenc k d n m) = n /\ firstn (length (tenc k d n m) - 24) (skipn 8 (tenc k d n m)) = m.
Proof.
  split; [reflexivity|]. rewrite tenc_length. unfold tenc.
  replace (skipn 8 ((n :: repeat 0 7) ++ m ++ ttag k d n m)) with (m ++ ttag k d n m) by reflexivity.
  replace (length m + 24 - 24)%nat with (length m) by lia. apply firstn_len_app. reflexivity.
Qed.

Lemma toy_correct : aead_correct tenc tdec.
Proof.
  intros k d n m. unfold tdec. rewrite tenc_length.
  destruct (length m + 24 <? 24)%nat eqn:E; [apply Nat.ltb_lt in E; lia|].
  destruct (tenc_parts k d n m) as [H1 H2]. rewrite tenc_length in H2. rewrite H1, H2, bytes_eqb_refl. reflexivity.
Qed.

Lemma toy_authentic : aead_authentic tenc tdec.
Proof.
  intros k d c m. unfold tdec. destruct (length c <? 24)%nat; [discriminate|].
  destruct (bytes_eqb c (tenc k d (hd 0 c) (firstn (length c - 24) (skipn 8 c)))) eqn:E; [|discriminate].
  intros H. injection H as <-. apply bytes_eqb_eq in E. eauto.
Qed.

Lemma toy_key_sep : aead_key_sep tenc tdec.
Proof.
  intros k d n m k' d' m' H. unfold tdec in H. destruct (length (tenc k d n m) <? 24)%nat; [discriminate|].
  destruct (tenc_parts k d n m) as [H1 H2]. rewrite H1, H2 in H.
  destruct (bytes_eqb (tenc k d n m) (tenc k' d' n m)) eqn:E; [|discriminate].
  apply bytes_eqb_eq in E. unfold tenc in E. apply app_inv_head in E. apply app_inv_head in E.
  unfold ttag in E. injection E as Ek Ed. split; [exact Ek|]. destruct d, d'; simpl in Ed; try reflexivity; discriminate.
Qed.

Lemma toy_grows : aead_grows tenc 24.
Proof. split; [lia|]. intros. apply tenc_length. Qed.
