(* The translated Packer classes / Serializer methods (gen/G02_packers.v) refine the wire model M02_wire. *)
From Coq Require Import String Ascii.
From Coq Require Import ZArith List Bool Lia ZifyBool Arith.
From IPV8V Require Import lib.PyErr lib.Bytes lib.BE model.M02_wire model.M02_oldstyle model.M02_packers_rt
  gen.G02_packers proofs.P02_prims proofs.P02_roundtrip.
Import ListNotations.
Open Scope Z_scope.

(* ================================================================== run-time primitives on the arguments that occur *)
Lemma val_eqb_int w z : val_eqb w (VInt z) = true -> w = VInt z.
Proof. destruct w; cbn; try discriminate. intros H. apply Z.eqb_eq in H. subst. reflexivity. Qed.

Lemma attr_is_int p n z : attr_is p n (VInt z) = true -> pk_attr p n = Ok (VInt z).
Proof.
  unfold attr_is, pk_attr. destruct (alist_get n (pk_attrs p)); [|discriminate]. intros H. apply val_eqb_int in H. subst. reflexivity.
Qed.

Lemma fmt_attr_inv p n r : fmt_attr p n = Some r -> exists s, pk_attr p n = Ok (VStr s) /\ parse_fmt s = Some r.
Proof.
  unfold fmt_attr, pk_attr. destruct (alist_get n (pk_attrs p)) as [v|]; [|discriminate]. destruct v; try discriminate.
  intros H. exists b. split; [reflexivity|exact H].
Qed.

Lemma len_attr_inv p n sz le lw : len_attr p n sz le = Some lw ->
  exists s, pk_attr p n = Ok (VStr s) /\ parse_fmt s = Some (le, [PU lw]) /\ pk_attr p sz = Ok (VInt (Z.of_nat lw)).
Proof.
  unfold len_attr. destruct (fmt_attr p n) as [[le' ps]|] eqn:E; [|discriminate].
  destruct ps as [|q [|? ?]]; try discriminate; (destruct q; try discriminate).
  destruct (Bool.eqb le le' && attr_is p sz (VInt (Z.of_nat w))) eqn:C; [|discriminate].
  intros H. injection H as <-. apply andb_true_iff in C as [C1 C2]. apply Bool.eqb_prop in C1. subst le'.
  destruct (fmt_attr_inv _ _ _ E) as (s & Hs & Hp). exists s. split; [exact Hs|]. split; [exact Hp|]. apply attr_is_int. exact C2.
Qed.

Lemma nat_attr_inv p n k : nat_attr p n = Some k -> pk_attr p n = Ok (VInt (Z.of_nat k)).
Proof.
  unfold nat_attr, pk_attr. destruct (alist_get n (pk_attrs p)) as [v|]; [|discriminate]. destruct v; try discriminate.
  destruct (0 <=? z) eqn:E; [|discriminate]. intros H. injection H as <-. rewrite Z2Nat.id by lia. reflexivity.
Qed.

Lemma nat_of_offset_nat off : nat_of_offset (VInt (Z.of_nat off)) = Ok off.
Proof. unfold nat_of_offset. cbn [as_int]. replace (Z.of_nat off <? 0) with false by lia. rewrite Nat2Z.id. reflexivity. Qed.

Lemma py_unpack_from_nat s le ps data off : parse_fmt s = Some (le, ps) ->
  py_unpack_from (VStr s) (VBytes data) (VInt (Z.of_nat off))
  = (do bs <- take (struct_size ps) off data; Ok (VTuple (struct_dec ps (if le then rev bs else bs)))).
Proof. intros H. unfold py_unpack_from, fmt_of_val. rewrite H. cbn [bind]. rewrite nat_of_offset_nat. reflexivity. Qed.

Lemma py_add_nat a b : py_add (VInt (Z.of_nat a)) (VInt (Z.of_nat b)) = Ok (VInt (Z.of_nat (a + b))).
Proof. cbn [py_add as_int]. rewrite Nat2Z.inj_add. reflexivity. Qed.
Lemma py_iadd_nat a b : py_iadd (VInt (Z.of_nat a)) (VInt (Z.of_nat b)) = Ok (VInt (Z.of_nat (a + b))).
Proof. apply py_add_nat. Qed.
Lemma py_mul_nat a b : py_mul (VInt (Z.of_nat a)) (VInt (Z.of_nat b)) = Ok (VInt (Z.of_nat (a * b))).
Proof. cbn [py_mul as_int]. rewrite Nat2Z.inj_mul. reflexivity. Qed.
Lemma py_len_bytes d : py_len (VBytes d) = Ok (VInt (Z.of_nat (length d))).
Proof. reflexivity. Qed.
Lemma py_gt_nat a b : py_gt (VInt (Z.of_nat a)) (VInt (Z.of_nat b)) = Ok (VBool (b <? a)%nat).
Proof. unfold py_gt, cmp2. cbn [as_int]. do 2 f_equal. lia. Qed.
Lemma py_append_list l x : py_append (VList l) x = Ok (VList (l ++ [x])).
Proof. reflexivity. Qed.

Lemma clamp_nat n a : clamp (Z.of_nat n) (Z.of_nat a) = Z.of_nat (Nat.min a n).
Proof. unfold clamp. cbv zeta. destruct (Z.of_nat a <? 0) eqn:E0; [lia|]. rewrite E0. destruct (Z.of_nat n <? Z.of_nat a) eqn:E; lia. Qed.
Lemma lslice_nat {A} (d : list A) a b :
  lslice d (Some (Z.of_nat a)) (Some (Z.of_nat b)) = firstn (b - a) (skipn a d).
Proof.
  unfold lslice. rewrite !clamp_nat. set (n := length d).
  replace (Z.to_nat (Z.of_nat (Nat.min b n) - Z.of_nat (Nat.min a n))) with (Nat.min b n - Nat.min a n)%nat by lia.
  rewrite Nat2Z.id.
  destruct (Nat.le_gt_cases a n) as [Ha|Ha].
  - rewrite (Nat.min_l a n Ha). destruct (Nat.le_gt_cases b n) as [Hb|Hb].
    + rewrite (Nat.min_l b n Hb). reflexivity.
    + rewrite (Nat.min_r b n) by lia. rewrite !firstn_all2; try reflexivity; rewrite skipn_length; fold n; lia.
  - rewrite (Nat.min_r a n) by lia. rewrite !skipn_all2 by (fold n; lia). rewrite !firstn_nil. reflexivity.
Qed.
Lemma py_slice_nat d a b :
  py_slice (VBytes d) (Some (VInt (Z.of_nat a))) (Some (VInt (Z.of_nat b))) = Ok (VBytes (firstn (b - a) (skipn a d))).
Proof. unfold py_slice. cbn [opt_int as_int bind]. rewrite lslice_nat. reflexivity. Qed.

Lemma pk_index_tuple0 x l : pk_index (VTuple (x :: l)) (VInt 0) = Ok x.
Proof. reflexivity. Qed.

Lemma pk_index_tuple0' x l : pk_index (VList (x :: l)) (VInt 0) = Ok x.
Proof. reflexivity. Qed.

Lemma struct_dec_length ps : forall bs, length (struct_dec ps bs) = length ps.
Proof. induction ps as [|p ps IH]; intros bs; [reflexivity|]. cbn [struct_dec length]. rewrite IH. reflexivity. Qed.

Lemma take_ok n off data bs : take n off data = Ok bs -> (off + n <= length data)%nat /\ bs = firstn n (skipn off data).
Proof. unfold take. destruct (off + n <=? length data)%nat eqn:E; [|discriminate]. intros H. inversion H. split; [apply Nat.leb_le; exact E|reflexivity]. Qed.
Lemma take_raise n off data e : take n off data = Raise e -> e = StructError /\ (length data < off + n)%nat.
Proof. unfold take. destruct (off + n <=? length data)%nat eqn:E; [discriminate|]. intros H. inversion H. split; [reflexivity|apply Nat.leb_gt; exact E]. Qed.

(* ================================================================== which object stands for which format *)
Ltac inv_class H :=
  repeat match type of H with
         | (if ?c then _ else _) = _ => let E := fresh "Ecls" in destruct c eqn:E; [try discriminate H|]
         | (if ?c then _ else _) = _ => let E := fresh "Ecls" in destruct c eqn:E; [|try discriminate H]
         end.

Lemma fmt_struct_inv p ps : fmt_of_packer p = Some (FStruct ps) ->
  pk_cls p = "DefaultStruct"%string /\ ps <> [] /\
  exists s, pk_attr p "format_str" = Ok (VStr s) /\ parse_fmt s = Some (false, ps) /\
            pk_attr p "size" = Ok (VInt (Z.of_nat (struct_size ps))).
Proof.
  destruct p as [cls attrs subs]. cbn [fmt_of_packer pk_cls]. intros H.
  destruct (String.eqb cls "DefaultStruct") eqn:Ec.
  - apply String.eqb_eq in Ec. subst cls.
    destruct (fmt_attr _ "format_str") as [[le ps']|] eqn:Ef; [|discriminate H]. destruct le; [discriminate H|].
    destruct (negb (length ps' =? 0)%nat && attr_is _ "size" _) eqn:C; [|discriminate H]. injection H as ->.
    apply andb_true_iff in C as [C1 C2]. split; [reflexivity|]. split.
    + intros ->. discriminate C1.
    + destruct (fmt_attr_inv _ _ _ Ef) as (s & Hs & Hp). exists s. split; [exact Hs|]. split; [exact Hp|]. apply attr_is_int. exact C2.
  - exfalso. repeat match type of H with
      | (if ?c then _ else _) = _ => destruct c; try discriminate H
      | match ?x with _ => _ end = _ => destruct x; try discriminate H
      end.
Qed.


Lemma fmt_inv p f : fmt_of_packer p = Some f ->
  match f with
  | FStruct ps => pk_cls p = "DefaultStruct"%string
  | FBits => pk_cls p = "Bits"%string
  | FRaw => pk_cls p = "Raw"%string
  | FIPv4 => pk_cls p = "IPv4"%string
  | FAddr b => pk_cls p = "Address"%string /\ pk_attr p "ip_only" = Ok (VBool b)
  | FVarLen lw base utf8 =>
      pk_cls p = (if utf8 then "VarLenUtf8" else "VarLen")%string /\
      len_attr p "length_format" "length_size" false = Some lw /\ nat_attr p "base" = Some base
  | FListOf lw f' =>
      pk_cls p = "ListOf"%string /\ len_attr p "length_format" "length_size" false = Some lw /\
      exists q, subs_get "packer" (pk_subs p) = Some q /\ fmt_of_packer q = Some f'
  | FArray e lw =>
      pk_cls p = "DefaultArray"%string /\ len_attr p "length_format" "length_size" true = Some lw /\
      exists tc real e', pk_attr p "format_str" = Ok (VStr tc) /\ pk_attr p "real_format_str" = Ok (VStr real) /\
        array_elem (VStr real) = Ok e' /\ pk_attr p "base" = Ok (VInt (Z.of_nat (psize e'))) /\
        ((tc = [63] /\ real = [66] /\ e = PBool) \/ (bytes_eqb tc [63] = false /\ tc = real /\ e = e'))
  | FFlags w => pk_cls p = "Flags"%string /\ len_attr p "format" "size" false = Some w
  | FNode => pk_cls p = "NodePacker"%string
  | FNested _ => False
  end.
Proof.
  destruct p as [cls attrs subs]. cbn [fmt_of_packer pk_cls pk_subs]. intros H.
  destruct (String.eqb cls "DefaultStruct") eqn:E1.
  { apply String.eqb_eq in E1. subst. destruct (fmt_attr _ _) as [[[] ps]|]; try discriminate H.
    destruct (_ && _); [|discriminate H]. injection H as <-. reflexivity. }
  destruct (String.eqb cls "Bits") eqn:E2. { apply String.eqb_eq in E2. injection H as <-. exact E2. }
  destruct (String.eqb cls "Raw") eqn:E3. { apply String.eqb_eq in E3. injection H as <-. exact E3. }
  destruct (String.eqb cls "IPv4") eqn:E4. { apply String.eqb_eq in E4. injection H as <-. exact E4. }
  destruct (String.eqb cls "Address") eqn:E5.
  { apply String.eqb_eq in E5. subst. unfold pk_attr. cbn [pk_attrs]. destruct (alist_get "ip_only" attrs) as [[]|]; try discriminate H.
    injection H as <-. split; reflexivity. }
  destruct (String.eqb cls "VarLen" || String.eqb cls "VarLenUtf8") eqn:E6.
  { destruct (len_attr _ _ _ _) as [lw|] eqn:L; [|discriminate H]. destruct (nat_attr _ _) as [base|] eqn:B; [|discriminate H].
    injection H as <-. split; [|split; [first [exact L|reflexivity]|first [exact B|reflexivity]]].
    destruct (String.eqb cls "VarLenUtf8") eqn:E7; [apply String.eqb_eq; exact E7|].
    rewrite orb_false_r in E6. apply String.eqb_eq. exact E6. }
  apply orb_false_iff in E6 as [E6 E7].
  destruct (String.eqb cls "ListOf") eqn:E8.
  { apply String.eqb_eq in E8. subst. destruct (len_attr _ _ _ _) as [lw|] eqn:L; [|discriminate H].
    match type of H with match ?X with _ => _ end = _ => destruct X as [f'|] eqn:S end; [|discriminate H].
    injection H as <-. split; [reflexivity|]. split; [first [exact L|reflexivity]|].
    clear L. induction subs as [|[k q] tl IH]; [discriminate S|]. cbn [subs_get]. destruct (String.eqb k "packer"); [exists q; split; [reflexivity|exact S]|].
    apply IH. exact S. }
  destruct (String.eqb cls "DefaultArray") eqn:E9.
  { apply String.eqb_eq in E9. subst. destruct (len_attr _ _ _ _) as [lw|] eqn:L; [|discriminate H].
    unfold pk_attr. cbn [pk_attrs].
    destruct (alist_get "format_str" attrs) as [[]|] eqn:A1; try discriminate H.
    destruct (alist_get "real_format_str" attrs) as [[]|] eqn:A2; try discriminate H.
    destruct (array_elem (VStr b0)) as [e'|] eqn:Ae; [|discriminate H].
    destruct (attr_is _ "base" _ && _) eqn:C; [|discriminate H]. injection H as <-. apply andb_true_iff in C as [C1 C2].
    split; [reflexivity|]. split; [first [exact L|reflexivity]|]. exists b, b0, e'. split; [reflexivity|]. split; [reflexivity|]. split; [exact Ae|].
    split; [apply attr_is_int in C1; unfold pk_attr in C1; cbn [pk_attrs] in C1; exact C1|].
    destruct (bytes_eqb b [63]) eqn:Eq.
    - left. apply bytes_eqb_eq in Eq. apply bytes_eqb_eq in C2. auto.
    - right. apply bytes_eqb_eq in C2. auto. }
  destruct (String.eqb cls "Flags") eqn:E10.
  { apply String.eqb_eq in E10. subst. destruct (len_attr _ _ _ _) as [w|] eqn:L; [|discriminate H]. injection H as <-. split; [reflexivity|first [exact L|reflexivity]]. }
  destruct (String.eqb cls "NodePacker") eqn:E11. { apply String.eqb_eq in E11. injection H as <-. exact E11. }
  discriminate H.
Qed.

Lemma bytes_ok_firstn n l : bytes_ok l -> bytes_ok (firstn n l).
Proof. unfold bytes_ok. intros H. revert n. induction H; intros [|n]; cbn [firstn]; constructor; auto. Qed.
Lemma bytes_ok_skipn n l : bytes_ok l -> bytes_ok (skipn n l).
Proof. unfold bytes_ok. intros H. revert n. induction H; intros [|n]; cbn [skipn]; try constructor; auto. Qed.
Lemma be_decode_acc_nonneg l : bytes_ok l -> forall acc, 0 <= acc -> 0 <= be_decode_acc acc l.
Proof. induction 1 as [|b l Hb _ IH]; intros acc Ha; cbn [be_decode_acc]; [exact Ha|]. apply IH. lia. Qed.
Lemma be_decode_nonneg l : bytes_ok l -> 0 <= be_decode l.
Proof. intros H. apply be_decode_acc_nonneg; [exact H|lia]. Qed.
Lemma bytes_ok_rev l : bytes_ok l -> bytes_ok (rev l).
Proof. unfold bytes_ok. intros H. apply Forall_rev. exact H. Qed.
Lemma take_bytes_ok n off data bs : bytes_ok data -> take n off data = Ok bs -> bytes_ok bs /\ length bs = n.
Proof.
  intros Hd Ht. destruct (take_ok _ _ _ _ Ht) as [Hl ->]. split; [apply bytes_ok_firstn, bytes_ok_skipn; exact Hd|].
  rewrite firstn_length, skipn_length. lia.
Qed.

Lemma lslice_from {A} (d : list A) a : lslice d (Some (Z.of_nat a)) None = skipn a d.
Proof.
  unfold lslice. rewrite clamp_nat. set (n := length d). rewrite Nat2Z.id.
  replace (Z.to_nat (Z.of_nat n - Z.of_nat (Nat.min a n))) with (n - Nat.min a n)%nat by lia.
  destruct (Nat.le_gt_cases a n) as [Ha|Ha].
  - rewrite (Nat.min_l a n Ha). apply firstn_all2. rewrite skipn_length. fold n. lia.
  - rewrite (Nat.min_r a n) by lia. rewrite !skipn_all2 by (fold n; lia). apply firstn_nil.
Qed.
Lemma py_slice_from d a : py_slice (VBytes d) (Some (VInt (Z.of_nat a))) None = Ok (VBytes (skipn a d)).
Proof. unfold py_slice. cbn [opt_int as_int bind]. rewrite lslice_from. reflexivity. Qed.

(* 2^k & b (either order) is 2^k or 0 according to bit k of b *)
Lemma land_pow2 k b : 0 <= k -> Z.land (2 ^ k) b = if Z.testbit b k then 2 ^ k else 0.
Proof.
  intros Hk. apply Z.bits_inj'. intros m Hm. rewrite Z.land_spec, Z.pow2_bits_eqb by lia.
  destruct (Z.eqb_spec k m) as [->|Hne].
  - destruct (Z.testbit b m); [rewrite Z.pow2_bits_eqb, Z.eqb_refl by lia; reflexivity|rewrite Z.bits_0; reflexivity].
  - cbn [andb]. destruct (Z.testbit b k); [rewrite Z.pow2_bits_eqb by lia; symmetry; apply Z.eqb_neq; exact Hne|rewrite Z.bits_0; reflexivity].
Qed.
Lemma bit_truth k b : 0 <= k -> negb (Z.land (2 ^ k) b =? 0) = Z.testbit b k.
Proof.
  intros Hk. rewrite land_pow2 by exact Hk. destruct (Z.testbit b k); [|reflexivity].
  assert (0 < 2 ^ k) by (apply Z.pow_pos_nonneg; lia). destruct (2 ^ k =? 0) eqn:E; [lia|reflexivity].
Qed.

Ltac pyev := repeat (progress (cbn [bind]; rewrite ?py_add_nat, ?py_iadd_nat, ?py_mul_nat, ?py_len_bytes, ?py_gt_nat,
                                 ?py_append_list, ?pk_index_tuple0, ?pk_index_tuple0', ?py_slice_nat)).

(* ================================================================== the classes, one lemma per method *)
Section Classes.
Variable R : recs.
Variable key_ok : bytes -> bool.

Lemma DefaultStruct_unpack_ok p ps data off ul cargs :
  fmt_of_packer p = Some (FStruct ps) ->
  unpack_sim (FStruct ps) ul (DefaultStruct_unpack R p (VBytes data) (VInt (Z.of_nat off)) (VList ul) cargs)
             (unpack key_ok (FStruct ps) data off).
Proof.
  intros H. destruct (fmt_struct_inv p ps H) as (_ & Hne & s & Hs & Hp & Hz).
  unfold DefaultStruct_unpack. rewrite Hs. cbn [bind]. rewrite (py_unpack_from_nat s false ps data off Hp).
  cbn [unpack]. destruct (take (struct_size ps) off data) as [bs|e] eqn:Et; cbn [bind].
  2:{ destruct (take_raise _ _ _ _ Et) as [-> _]. discriminate. }
  cbn [py_len]. rewrite struct_dec_length. cbn [bind].
  change (VInt 1) with (VInt (Z.of_nat 1)). rewrite py_gt_nat. cbn [bind py_truthy].
  destruct ps as [|p1 [|p2 ps]]; [congruence| |].
  - cbn [length Nat.ltb Nat.leb struct_dec]. rewrite pk_index_tuple0. cbn [bind]. rewrite py_append_list. cbn [bind]. rewrite Hz. cbn [bind].
    rewrite py_add_nat. cbn [bind]. split; reflexivity.
  - cbn [length Nat.ltb Nat.leb]. cbn [bind]. rewrite py_append_list. cbn [bind]. rewrite Hz. cbn [bind]. rewrite py_add_nat.
    cbn [bind]. split; reflexivity.
Qed.

Lemma VarLen_unpack_core p lw base data off ul cargs :
  bytes_ok data ->
  len_attr p "length_format" "length_size" false = Some lw -> nat_attr p "base" = Some base ->
  match VarLen_unpack R p (VBytes data) (VInt (Z.of_nat off)) (VList ul) cargs, varlen_unpack lw base data off with
  | Ok (l, o'), Ok (b, o) => l = VList (ul ++ [VBytes b]) /\ o' = VInt (Z.of_nat o)
  | Raise e, Raise _ => e <> OutOfFuel
  | _, _ => False
  end.
Proof.
  intros Hd HL HB. destruct (len_attr_inv _ _ _ _ _ HL) as (s & Hs & Hp & Hsz). pose proof (nat_attr_inv _ _ _ HB) as Hb.
  unfold VarLen_unpack, varlen_unpack. rewrite Hs. cbn [bind]. rewrite (py_unpack_from_nat s false [PU lw] data off Hp).
  cbn [struct_size fold_right psize]. rewrite Nat.add_0_r.
  destruct (take lw off data) as [bs|e] eqn:Et; cbn [bind].
  2:{ destruct (take_raise _ _ _ _ Et) as [-> _]. discriminate. }
  destruct (take_bytes_ok _ _ _ _ Hd Et) as [Hbs Hlen].
  cbn [struct_dec pdec psize]. rewrite firstn_all2 by lia. rewrite pk_index_tuple0. cbn [bind]. rewrite Hb. cbn [bind].
  set (n := Z.to_nat (be_decode bs)).
  replace (be_decode bs) with (Z.of_nat n) by (unfold n; pose proof (be_decode_nonneg bs Hbs); lia).
  rewrite !Hsz. pyev. cbn [py_truthy]. cbn [bind].
  destruct (off + lw + n * base <=? length data)%nat eqn:E.
  - replace (length data <? off + lw + n * base)%nat with false by lia. pyev.
    replace (off + lw + n * base - (off + lw))%nat with (n * base)%nat by lia. split; reflexivity.
  - replace (length data <? off + lw + n * base)%nat with true by lia. discriminate.
Qed.

Lemma VarLen_unpack_ok p lw base data off ul cargs :
  bytes_ok data -> fmt_of_packer p = Some (FVarLen lw base false) ->
  unpack_sim (FVarLen lw base false) ul (VarLen_unpack R p (VBytes data) (VInt (Z.of_nat off)) (VList ul) cargs)
             (unpack key_ok (FVarLen lw base false) data off).
Proof.
  intros Hd H. destruct (fmt_inv _ _ H) as (_ & HL & HB). pose proof (VarLen_unpack_core p lw base data off ul cargs Hd HL HB) as C.
  cbn [unpack]. unfold unpack_sim.
  destruct (VarLen_unpack _ _ _ _ _ _) as [[l o']|e]; destruct (varlen_unpack lw base data off) as [[b o]|e2]; cbn [bind]; auto.
Qed.

Lemma VarLenUtf8_unpack_ok p lw base data off ul cargs :
  bytes_ok data -> fmt_of_packer p = Some (FVarLen lw base true) ->
  unpack_sim (FVarLen lw base true) ul (VarLenUtf8_unpack R p (VBytes data) (VInt (Z.of_nat off)) (VList ul) cargs)
             (unpack key_ok (FVarLen lw base true) data off).
Proof.
  intros Hd H. destruct (fmt_inv _ _ H) as (_ & HL & HB). pose proof (VarLen_unpack_core p lw base data off [] [] Hd HL HB) as C.
  unfold VarLenUtf8_unpack. cbn [unpack]. unfold unpack_sim.
  destruct (VarLen_unpack _ _ _ _ _ _) as [[l o']|e]; destruct (varlen_unpack lw base data off) as [[b o]|e2]; cbn [bind]; try contradiction; auto.
  destruct C as [-> ->]. cbn [app]. rewrite pk_index_tuple0' . cbn [bind py_decode].
  destruct (utf8_valid b); cbn [bind]; [|discriminate]. rewrite py_append_list. cbn [bind]. split; reflexivity.
Qed.

Lemma Raw_unpack_ok p data off ul cargs :
  unpack_sim FRaw ul (Raw_unpack R p (VBytes data) (VInt (Z.of_nat off)) (VList ul) cargs) (unpack key_ok FRaw data off).
Proof. unfold Raw_unpack. rewrite py_slice_from. pyev. cbn [unpack]. split; reflexivity. Qed.

Lemma bit_step (k : Z) (b : Z) (K : val -> res (val * val)) : 0 <= k ->
  (do v <- (do c_ <- (do t <- py_bitand (VInt (2 ^ k)) (VInt b); py_truthy t); if c_ then Ok (VInt 1) else Ok (VInt 0)); K v)
  = K (bit_of b k).
Proof.
  intros Hk. cbn [py_bitand int2 as_int bind py_truthy]. rewrite (bit_truth k b Hk). unfold bit_of.
  destruct (Z.testbit b k); reflexivity.
Qed.

Lemma Bits_unpack_ok p data off ul cargs :
  unpack_sim FBits ul (Bits_unpack R p (VBytes data) (VInt (Z.of_nat off)) (VList ul) cargs) (unpack key_ok FBits data off).
Proof.
  unfold Bits_unpack. rewrite (py_unpack_from_nat [62; 66] false [PU 1] data off eq_refl).
  cbn [struct_size fold_right psize Nat.add unpack].
  destruct (take 1 off data) as [bs|e] eqn:Et; cbn [bind].
  2:{ destruct (take_raise _ _ _ _ Et) as [-> _]. discriminate. }
  destruct (take_ok _ _ _ _ Et) as [Hl Hbs].
  assert (Hlen : length bs = 1%nat) by (subst bs; rewrite firstn_length, skipn_length; lia).
  cbn [struct_dec pdec psize]. rewrite firstn_all2 by lia.
  cbn [py_destruct py_iter bind length Nat.eqb].
  change 128 with (2 ^ 7). rewrite bit_step by lia. change 64 with (2 ^ 6). rewrite bit_step by lia.
  change 32 with (2 ^ 5). rewrite bit_step by lia. change 16 with (2 ^ 4). rewrite bit_step by lia.
  change 8 with (2 ^ 3). rewrite bit_step by lia. change 4 with (2 ^ 2). rewrite bit_step by lia.
  change (VInt 2) with (VInt (2 ^ 1)). rewrite bit_step by lia. change (VInt 1) with (VInt (2 ^ 0)) at 1. rewrite bit_step by lia.
  cbn [py_iadd py_extend py_iter bind]. change (VInt 1) with (VInt (Z.of_nat 1)). pyev. split; reflexivity.
Qed.

Lemma IPv4_unpack_ok p data off ul cargs :
  unpack_sim FIPv4 ul (IPv4_unpack R p (VBytes data) (VInt (Z.of_nat off)) (VList ul) cargs) (unpack key_ok FIPv4 data off).
Proof.
  unfold IPv4_unpack. rewrite (py_unpack_from_nat [62; 52; 115; 72] false [PBytes 4; PU 2] data off eq_refl).
  cbn [struct_size fold_right psize Nat.add unpack].
  destruct (take 6 off data) as [bs|e] eqn:Et; cbn [bind].
  2:{ destruct (take_raise _ _ _ _ Et) as [-> _]. discriminate. }
  destruct (take_ok _ _ _ _ Et) as [Hl Hbs].
  assert (Hlen : length bs = 6%nat) by (subst bs; rewrite firstn_length, skipn_length; lia).
  cbn [struct_dec pdec psize py_destruct py_iter bind length Nat.eqb py_inet_ntoa].
  rewrite firstn_length, Hlen. cbn [Nat.min Nat.eqb bind py_udp4].
  change (VInt 6) with (VInt (Z.of_nat 6)). pyev.
  rewrite (firstn_all2 (n := 2)) by (rewrite skipn_length; lia). split; reflexivity.
Qed.

Lemma take_len n off data bs : take n off data = Ok bs -> length bs = n.
Proof. intros H. destruct (take_ok _ _ _ _ H) as [Hl ->]. rewrite firstn_length, skipn_length. lia. Qed.

Lemma Address_unpack_ok p ip_only data off ul cargs :
  bytes_ok data -> fmt_of_packer p = Some (FAddr ip_only) ->
  unpack_sim (FAddr ip_only) ul (Address_unpack R p (VBytes data) (VInt (Z.of_nat off)) (VList ul) cargs)
             (unpack key_ok (FAddr ip_only) data off).
Proof.
  intros Hd H. destruct (fmt_inv _ _ H) as (_ & Hip).
  unfold Address_unpack. rewrite (py_unpack_from_nat [62; 66] false [PU 1] data off eq_refl).
  cbn [struct_size fold_right psize Nat.add unpack]. unfold addr_unpack.
  destruct (take 1 off data) as [t|e] eqn:Et; cbn [bind].
  2:{ destruct (take_raise _ _ _ _ Et) as [-> _]. discriminate. }
  pose proof (take_len _ _ _ _ Et) as Ht.
  cbn [struct_dec pdec psize py_destruct py_iter bind length Nat.eqb]. rewrite firstn_all2 by lia.
  set (ty := be_decode t). unfold py_eq_val. cbn [py_eq bind py_truthy].
  change (VInt 1) with (VInt (Z.of_nat 1)). change (VInt 3) with (VInt (Z.of_nat 3)). change (VInt 7) with (VInt (Z.of_nat 7)).
  change (VInt 19) with (VInt (Z.of_nat 19)). change (VInt 5) with (VInt (Z.of_nat 5)).
  destruct (ty =? 1) eqn:E1.
  { replace (ty =? Z.of_nat 1) with true by (cbn; lia). pyev.
    rewrite (py_unpack_from_nat [62; 52; 115; 72] false [PBytes 4; PU 2] data (off + 1) eq_refl).
    cbn [struct_size fold_right psize Nat.add].
    destruct (take 6 (off + 1) data) as [bs|e] eqn:Eb; cbn [bind].
    2:{ destruct (take_raise _ _ _ _ Eb) as [-> _]. discriminate. }
    pose proof (take_len _ _ _ _ Eb) as Hb.
    cbn [struct_dec pdec psize py_destruct py_iter bind length Nat.eqb py_inet_ntop].
    rewrite firstn_length, Hb. cbn [Nat.min Nat.eqb bind py_udp4]. pyev.
    rewrite (firstn_all2 (n := 2)) by (rewrite skipn_length; lia). split; reflexivity. }
  replace (ty =? Z.of_nat 1) with false by (cbn; lia). cbn [bind].
  destruct (ty =? 3) eqn:E3.
  { replace (ty =? Z.of_nat 3) with true by (cbn; lia). pyev.
    rewrite (py_unpack_from_nat [62; 49; 54; 115; 72] false [PBytes 16; PU 2] data (off + 1) eq_refl).
    cbn [struct_size fold_right psize Nat.add].
    destruct (take 18 (off + 1) data) as [bs|e] eqn:Eb; cbn [bind].
    2:{ destruct (take_raise _ _ _ _ Eb) as [-> _]. discriminate. }
    pose proof (take_len _ _ _ _ Eb) as Hb.
    cbn [struct_dec pdec psize py_destruct py_iter bind length Nat.eqb py_inet_ntop].
    rewrite firstn_length, Hb. cbn [Nat.min Nat.eqb bind py_udp6]. pyev.
    rewrite (firstn_all2 (n := 2)) by (rewrite skipn_length; lia). split; reflexivity. }
  replace (ty =? Z.of_nat 3) with false by (cbn; lia). cbn [bind].
  rewrite Hip. cbn [bind py_truthy pand]. 
  destruct ip_only; cbn [negb bind andb].
  { discriminate. }
  destruct (ty =? 2) eqn:E2; cbn [bind]; [|discriminate].
  pyev.
  rewrite (py_unpack_from_nat [62; 72] false [PU 2] data (off + 1) eq_refl).
  cbn [struct_size fold_right psize Nat.add].
  destruct (take 2 (off + 1) data) as [l|e] eqn:El; cbn [bind].
  2:{ destruct (take_raise _ _ _ _ El) as [-> _]. discriminate. }
  destruct (take_bytes_ok _ _ _ _ Hd El) as [Hlb Hll].
  cbn [struct_dec pdec psize py_destruct py_iter bind length Nat.eqb]. rewrite firstn_all2 by lia.
  set (n := Z.to_nat (be_decode l)).
  replace (be_decode l) with (Z.of_nat n) by (unfold n; pose proof (be_decode_nonneg l Hlb); lia).
  pyev. replace (off + 3 + n - (off + 3))%nat with n by lia.
  cbn [py_decode]. destruct (utf8_valid (firstn n (skipn (off + 3) data))); cbn [negb bind]; [|discriminate].
  rewrite (py_unpack_from_nat [62; 72] false [PU 2] data (off + 3 + n) eq_refl).
  cbn [struct_size fold_right psize Nat.add].
  destruct (take 2 (off + 3 + n) data) as [pt|e] eqn:Ep; cbn [bind].
  2:{ destruct (take_raise _ _ _ _ Ep) as [-> _]. discriminate. }
  pose proof (take_len _ _ _ _ Ep) as Hpl.
  cbn [struct_dec pdec psize]. rewrite firstn_all2 by lia. pyev. cbn [py_domain]. pyev. split; reflexivity.
Qed.

Lemma array_elem_pos tc e : array_elem tc = Ok e -> (0 < psize e)%nat.
Proof.
  unfold array_elem. intros H.
  repeat match type of H with
         | match ?x with _ => _ end = _ => destruct x; try discriminate H
         end.
  all: injection H as <-; cbn; lia.
Qed.

Lemma listcomp_bool l : py_listcomp (fun v_b => py_bool v_b) (VList (map (adec (PU 1)) l)) = Ok (VList (map (adec PBool) l)).
Proof.
  unfold py_listcomp. cbn [py_iter bind].
  assert (E : mapM (fun v_b => py_bool v_b) (map (adec (PU 1)) l) = Ok (map (adec PBool) l)).
  { induction l as [|x l IH]; [reflexivity|]. cbn [map mapM adec py_bool py_truthy bind]. rewrite IH. reflexivity. }
  rewrite E. reflexivity.
Qed.

Lemma DefaultArray_unpack_ok p e lw data off ul cargs :
  bytes_ok data -> fmt_of_packer p = Some (FArray e lw) ->
  unpack_sim (FArray e lw) ul (DefaultArray_unpack R p (VBytes data) (VInt (Z.of_nat off)) (VList ul) cargs)
             (unpack key_ok (FArray e lw) data off).
Proof.
  intros Hd H. destruct (fmt_inv _ _ H) as (_ & HL & tc & real & e' & Htc & Hreal & He' & Hbase & Hcase).
  destruct (len_attr_inv _ _ _ _ _ HL) as (s & Hs & Hp & Hsz).
  assert (Hpe : psize e = psize e') by (destruct Hcase as [(-> & -> & ->)|(_ & _ & ->)]; [injection He' as <-|]; reflexivity).
  pose proof (array_elem_pos _ _ He') as Hpos.
  unfold DefaultArray_unpack. rewrite Hs. cbn [bind]. rewrite (py_unpack_from_nat s true [PU lw] data off Hp).
  cbn [struct_size fold_right psize unpack]. rewrite Nat.add_0_r.
  destruct (take lw off data) as [bs|ex] eqn:Et; cbn [bind].
  2:{ destruct (take_raise _ _ _ _ Et) as [-> _]. discriminate. }
  destruct (take_bytes_ok _ _ _ _ Hd Et) as [Hbs Hlen].
  cbn [struct_dec pdec psize]. rewrite firstn_all2 by (rewrite rev_length; lia). pyev. rewrite Hbase. cbn [bind].
  fold (le_decode bs). set (n := Z.to_nat (le_decode bs)).
  replace (le_decode bs) with (Z.of_nat n) by (unfold n, le_decode; pose proof (be_decode_nonneg _ (bytes_ok_rev _ Hbs)); lia).
  rewrite !Hsz. pyev. cbn [py_truthy]. cbn [bind]. rewrite Hpe.
  destruct (off + lw + n * psize e' <=? length data)%nat eqn:E.
  2:{ replace (length data <? off + lw + n * psize e')%nat with true by lia. discriminate. }
  replace (length data <? off + lw + n * psize e')%nat with false by lia. rewrite Hreal. pyev.
  replace (off + lw + n * psize e' - (off + lw))%nat with (n * psize e')%nat by lia.
  unfold py_array_frombytes. rewrite He'. cbn [bind].
  assert (Hsl : length (firstn (n * psize e') (skipn (off + lw) data)) = (n * psize e')%nat).
  { rewrite firstn_length, skipn_length. lia. }
  rewrite Hsl, Nat.mod_mul, Nat.div_mul by lia. cbn [Nat.eqb bind]. rewrite Htc. cbn [bind]. unfold py_eq_val. cbn [py_eq bind py_truthy].
  destruct Hcase as [(-> & -> & ->)|(Hq & -> & ->)].
  - injection He' as <-. cbn [bytes_eqb Z.eqb Pos.eqb andb]. rewrite listcomp_bool. pyev. split; reflexivity.
  - rewrite Hq. cbn [py_list py_iter bind]. pyev. split; reflexivity.
Qed.

Lemma land_pow2_r k b : 0 <= k -> Z.land b (2 ^ k) = if Z.testbit b k then 2 ^ k else 0.
Proof. intros. rewrite Z.land_comm. apply land_pow2. assumption. Qed.

Lemma flags_items number : forall l,
  (do t6_ <- py_listcomp (fun v_i => do t4_ <- py_pow (VInt 2) v_i; py_bitand (VInt number) t4_) (VList (map (fun k => VInt (Z.of_nat k)) l));
   py_filter_none t6_)
  = Ok (VList (flat_map (fun i => if Z.testbit number (Z.of_nat i) then [VInt (2 ^ Z.of_nat i)] else []) l)).
Proof.
  intros l. set (f := fun v_i : val => do t4_ <- py_pow (VInt 2) v_i; py_bitand (VInt number) t4_).
  assert (E : forall l, exists r, mapM f (map (fun k => VInt (Z.of_nat k)) l) = Ok r /\
              filter_truthy r = Ok (flat_map (fun i => if Z.testbit number (Z.of_nat i) then [VInt (2 ^ Z.of_nat i)] else []) l)).
  { clear l. induction l as [|k l (r & E1 & E2)]; [exists []; split; reflexivity|].
    cbn [map mapM flat_map]. unfold f at 1. unfold py_pow at 1. unfold int2 at 1. cbn [as_int]. replace (Z.of_nat k <? 0) with false by lia.
    cbn [bind py_bitand int2 as_int]. rewrite E1. cbn [bind]. eexists. split; [reflexivity|].
    cbn [filter_truthy py_truthy bind]. rewrite E2. cbn [bind]. rewrite land_pow2_r by lia.
    destruct (Z.testbit number (Z.of_nat k)); [|reflexivity].
    assert (0 < 2 ^ Z.of_nat k) by (apply Z.pow_pos_nonneg; lia). destruct (2 ^ Z.of_nat k =? 0) eqn:E; [lia|]. reflexivity. }
  destruct (E l) as (r & E1 & E2). unfold py_listcomp, py_filter_none. cbn [py_iter]. cbn [bind]. rewrite E1. cbn [bind py_iter]. rewrite E2. reflexivity.
Qed.

Lemma Flags_unpack_ok p w data off ul cargs :
  fmt_of_packer p = Some (FFlags w) ->
  unpack_sim (FFlags w) ul (Flags_unpack R p (VBytes data) (VInt (Z.of_nat off)) (VList ul) cargs)
             (unpack key_ok (FFlags w) data off).
Proof.
  intros H. destruct (fmt_inv _ _ H) as (_ & HL). destruct (len_attr_inv _ _ _ _ _ HL) as (s & Hs & Hp & Hsz).
  unfold Flags_unpack. rewrite Hs. cbn [bind]. rewrite (py_unpack_from_nat s false [PU w] data off Hp).
  cbn [struct_size fold_right psize unpack]. rewrite Nat.add_0_r.
  destruct (take w off data) as [bs|ex] eqn:Et; cbn [bind].
  2:{ destruct (take_raise _ _ _ _ Et) as [-> _]. discriminate. }
  pose proof (take_len _ _ _ _ Et) as Hlen.
  cbn [struct_dec pdec psize py_destruct py_iter bind length Nat.eqb]. rewrite firstn_all2 by lia.
  rewrite !Hsz. cbn [bind]. change (VInt 8) with (VInt (Z.of_nat 8)). pyev.
  unfold py_range. cbn [all_ints as_int]. unfold range_list. cbn [Z.ltb Z.compare].
  replace ((Z.of_nat (w * 8) - 0 + 1 - 1) / 1) with (Z.of_nat (w * 8)) by (rewrite Z.div_1_r; lia). rewrite Nat2Z.id.
  erewrite map_ext; [|intros k; rewrite Z.mul_1_r, Z.add_0_l; reflexivity]. cbn [bind].
  pose proof (flags_items (be_decode bs) (seq 0 (w * 8))) as F. cbn [bind] in F.
  match goal with |- context [py_listcomp ?f ?x] => change (py_listcomp f x) with (py_listcomp f x) end.
  destruct (py_listcomp _ _) as [t6|ex]; cbn [bind] in F |- *; [|discriminate F]. rewrite F. cbn [bind py_list py_iter].
  pyev. unfold flags_dec. split; reflexivity.
Qed.

(* ---- ListOf: the loop against unpack_n ---- *)
Lemma listof_loop (q : packer) f' data cargs :
  (forall off ul, unpack_sim f' ul (r_unpack R q (VBytes data) (VInt (Z.of_nat off)) (VList ul) cargs) (unpack key_ok f' data off)) ->
  forall n off acc,
  match repeat_n n (fun '(v_offset, v_result) =>
                      bind (bind (Ok q) (fun t2_ => r_unpack R t2_ (VBytes data) v_offset v_result cargs))
                           (fun '(v_result, v_offset) => Ok (v_offset, v_result)))
                 (VInt (Z.of_nat off), VList acc),
        unpack_n (unpack key_ok f') n data off with
  | Ok (o', l), Ok (vs, o) => l = VList (acc ++ concat (map (entries f') vs)) /\ o' = VInt (Z.of_nat o)
  | Raise e, Raise _ => e <> OutOfFuel
  | _, _ => False
  end.
Proof.
  intros Hq. induction n as [|n IH]; intros off acc.
  - cbn [repeat_n unpack_n map concat]. rewrite app_nil_r. split; reflexivity.
  - cbn [repeat_n unpack_n bind]. specialize (Hq off acc). unfold unpack_sim in Hq.
    destruct (r_unpack R q _ _ _ _) as [[l o']|e]; destruct (unpack key_ok f' data off) as [[v o]|e2]; cbn [bind]; try contradiction; auto.
    destruct Hq as [-> ->]. specialize (IH o (acc ++ entries f' v)).
    destruct (repeat_n n _ _) as [[o'' l']|e]; destruct (unpack_n _ n data o) as [[vs o2]|e2]; cbn [bind]; try contradiction; auto.
    destruct IH as [-> ->]. cbn [map concat]. rewrite app_assoc. split; reflexivity.
Qed.

Lemma flat_listof lw f' vs : flat_val (FListOf lw f') (VList vs) = VList (concat (map (entries f') vs)).
Proof. reflexivity. Qed.

Lemma ListOf_unpack_ok p q lw f' data off ul cargs :
  bytes_ok data ->
  len_attr p "length_format" "length_size" false = Some lw -> subs_get "packer" (pk_subs p) = Some q ->
  (forall off ul, unpack_sim f' ul (r_unpack R q (VBytes data) (VInt (Z.of_nat off)) (VList ul) cargs) (unpack key_ok f' data off)) ->
  unpack_sim (FListOf lw f') ul (ListOf_unpack R p (VBytes data) (VInt (Z.of_nat off)) (VList ul) cargs)
             (unpack key_ok (FListOf lw f') data off).
Proof.
  intros Hd HL Hsub Hq. destruct (len_attr_inv _ _ _ _ _ HL) as (s & Hs & Hp & Hsz).
  unfold ListOf_unpack. rewrite Hs. cbn [bind]. rewrite (py_unpack_from_nat s false [PU lw] data off Hp).
  cbn [struct_size fold_right psize unpack]. rewrite Nat.add_0_r.
  destruct (take lw off data) as [bs|ex] eqn:Et; cbn [bind].
  2:{ destruct (take_raise _ _ _ _ Et) as [-> _]. discriminate. }
  destruct (take_bytes_ok _ _ _ _ Hd Et) as [Hbs Hlen].
  cbn [struct_dec pdec psize py_destruct py_iter bind length Nat.eqb]. rewrite firstn_all2 by lia.
  rewrite Hsz. pyev. unfold py_repeat. cbn [as_int]. unfold pk_sub. rewrite Hsub.
  pose proof (listof_loop q f' data cargs Hq (Z.to_nat (be_decode bs)) (off + lw)%nat []) as L.
  destruct (repeat_n _ _ _) as [[o' l]|e]; destruct (unpack_n _ _ data (off + lw)%nat) as [[vs o]|e2]; cbn [bind]; try contradiction; auto.
  destruct L as [-> ->]. pyev. cbn [app]. unfold unpack_sim, entries. rewrite flat_listof. split; reflexivity.
Qed.

Lemma cls_index_0 c l : cls_index (c :: l) 0 = Ok c.
Proof. destruct l; reflexivity. Qed.

(* ---- NestedPayload ---- *)
Lemma NestedPayload_unpack_ok p c m data off ul cargs :
  bytes_ok data ->
  (forall d, bytes_ok d -> unpack_msg_sim m (r_unpack_serializable R c (VBytes d) (VInt 0)) (unpack_msg key_ok m d 0)) ->
  unpack_sim (FNested m) ul (NestedPayload_unpack R p (VBytes data) (VInt (Z.of_nat off)) (VList ul) (c :: cargs))
             (unpack key_ok (FNested m) data off).
Proof.
  intros Hd Hs. unfold NestedPayload_unpack. rewrite (py_unpack_from_nat [62; 72] false [PU 2] data off eq_refl).
  cbn [struct_size fold_right psize Nat.add].
  change (unpack key_ok (FNested m) data off) with
    (do l <- take 2 off data; let size := Z.to_nat (be_decode l) in
     if (off + 2 + size <=? length data)%nat then
       do (vs, _) <- unpack_msg key_ok m (firstn size (skipn (off + 2) data)) 0; Ok (VMsg vs, (off + 2 + size)%nat)
     else Raise PackError).
  destruct (take 2 off data) as [bs|ex] eqn:Et; cbn [bind].
  2:{ destruct (take_raise _ _ _ _ Et) as [-> _]. discriminate. }
  destruct (take_bytes_ok _ _ _ _ Hd Et) as [Hbs Hlen].
  cbn [struct_dec pdec psize py_destruct py_iter bind length Nat.eqb]. rewrite firstn_all2 by lia.
  set (n := Z.to_nat (be_decode bs)).
  replace (be_decode bs) with (Z.of_nat n) by (unfold n; pose proof (be_decode_nonneg bs Hbs); lia).
  change (VInt 2) with (VInt (Z.of_nat 2)). pyev. cbn [py_truthy]. cbn [bind]. cbv zeta.
  destruct (off + 2 + n <=? length data)%nat eqn:E.
  2:{ replace (length data <? off + 2 + n)%nat with true by lia. discriminate. }
  replace (length data <? off + 2 + n)%nat with false by lia. rewrite cls_index_0. pyev.
  replace (off + 2 + n - (off + 2))%nat with n by lia.
  specialize (Hs (firstn n (skipn (off + 2) data)) (bytes_ok_firstn _ _ (bytes_ok_skipn _ _ Hd))). unfold unpack_msg_sim in Hs.
  destruct (r_unpack_serializable R c _ _) as [r|e]; destruct (unpack_msg key_ok m _ 0) as [[vs o]|e2]; cbn [bind]; try contradiction; auto.
  subst r. cbn [py_destruct py_iter bind length Nat.eqb]. pyev. split; reflexivity.
Qed.

(* ---- Serializer.unpack(name, data, offset), as NodePacker uses it ---- *)
Definition ser_unpack_sim (f : fmt) (g : res val) (w : res (val * nat)) : Prop :=
  match g, w with
  | Ok r, Ok (v, o) => r = VTuple [flat_val f v; VInt (Z.of_nat o)]
  | Raise e, Raise _ => e <> OutOfFuel
  | _, _ => False
  end.

Lemma Serializer_unpack_name S n p f data off :
  ser_find S n = Ok p -> (forall v, entries f v = [flat_val f v]) ->
  unpack_sim f [] (r_unpack R p (VBytes data) (VInt (Z.of_nat off)) (VList []) []) (unpack key_ok f data off) ->
  ser_unpack_sim f (Serializer_unpack R S (FeName n) (VBytes data) (VInt (Z.of_nat off))) (unpack key_ok f data off).
Proof.
  intros Hf He Hu. unfold Serializer_unpack. cbn [fent_is_str bind ser_getitem_fent]. rewrite Hf. cbn [bind].
  unfold unpack_sim in Hu. unfold ser_unpack_sim.
  destruct (r_unpack R p _ _ _ _) as [[l o']|e]; destruct (unpack key_ok f data off) as [[v o]|e2]; cbn [bind]; try contradiction; auto.
  destruct Hu as [-> ->]. rewrite He. cbn [app]. pyev. reflexivity.
Qed.

Lemma NodePacker_unpack_ok p data off ul cargs :
  (forall off, ser_unpack_sim (FAddr true) (r_ser_unpack R (FeName n_ip_address) (VBytes data) (VInt (Z.of_nat off)))
                              (unpack key_ok (FAddr true) data off)) ->
  (forall off, ser_unpack_sim (FVarLen 2 1 false) (r_ser_unpack R (FeName n_varlenH) (VBytes data) (VInt (Z.of_nat off)))
                              (unpack key_ok (FVarLen 2 1 false) data off)) ->
  unpack_sim FNode ul (NodePacker_unpack key_ok R p (VBytes data) (VInt (Z.of_nat off)) (VList ul) cargs)
             (unpack key_ok FNode data off).
Proof.
  intros Ha Hv. unfold NodePacker_unpack. cbn [unpack]. specialize (Ha off). unfold ser_unpack_sim in Ha. cbn [unpack] in Ha.
  fold n_ip_address n_varlenH.
  destruct (r_ser_unpack R (FeName n_ip_address) _ _) as [r|e]; destruct (addr_unpack true data off) as [[a o1]|e2];
    cbn [bind] in Ha |- *; try contradiction; auto.
  subst r. cbn [flat_val py_destruct py_iter bind length Nat.eqb].
  specialize (Hv o1). unfold ser_unpack_sim in Hv. cbn [unpack] in Hv.
  destruct (r_ser_unpack R (FeName n_varlenH) _ _) as [r|e]; destruct (varlen_unpack 2 1 data o1) as [[k o2]|e2];
    cbn [bind] in Hv |- *; try contradiction; auto.
  subst r. cbn [flat_val py_destruct py_iter bind length Nat.eqb py_node_new].
  destruct (key_ok k); cbn [bind]; [|discriminate]. pyev. split; reflexivity.
Qed.

(* ---- Serializer.unpack_serializable: the loop over format_list against unpack_msg ---- *)
Fixpoint msg_fields (m : msgfmt) : list fmt := match m with MNil => [] | MCons f m' => f :: msg_fields m' end.

Lemma ser_wf_inv S : ser_wf S = true ->
  (exists pp, ser_find S n_payload = Ok pp /\ is_nested pp = true) /\
  (exists lw pl q, payload_list_lw S = Some lw /\ ser_find S n_payload_list = Ok pl /\ pk_cls pl = "ListOf"%string /\
                   len_attr pl "length_format" "length_size" false = Some lw /\ subs_get "packer" (pk_subs pl) = Some q /\ is_nested q = true) /\
  (exists pa, ser_find S n_ip_address = Ok pa /\ fmt_of_packer pa = Some (FAddr true)) /\
  (exists pv, ser_find S n_varlenH = Ok pv /\ fmt_of_packer pv = Some (FVarLen 2 1 false)).
Proof.
  unfold ser_wf. intros H. repeat (apply andb_true_iff in H as [H ?]).
  split; [|split; [|split]].
  - destruct (ser_find S n_payload) as [pp|]; [|discriminate]. exists pp. auto.
  - unfold payload_list_lw in *. destruct (ser_find S n_payload_list) as [pl|]; [|discriminate].
    destruct (String.eqb (pk_cls pl) "ListOf") eqn:Ec; [|discriminate]. apply String.eqb_eq in Ec.
    destruct (len_attr pl _ _ _) as [lw|] eqn:L; [|discriminate]. destruct (subs_get "packer" (pk_subs pl)) as [q|] eqn:Sq; [|discriminate].
    destruct (is_nested q) eqn:Nq; [|discriminate]. exists lw, pl, q. auto 10.
  - destruct (ser_find S n_ip_address) as [pa|]; [|discriminate]. exists pa. split; [reflexivity|].
    destruct (fmt_of_packer pa) as [[]|]; try discriminate. destruct ip_only; [reflexivity|discriminate].
  - destruct (ser_find S n_varlenH) as [pv|]; [|discriminate]. exists pv. split; [reflexivity|].
    destruct (fmt_of_packer pv) as [f|]; [|discriminate].
    destruct f as [| | |lw base utf8| | | | | | |]; try discriminate.
    destruct lw as [|[|[|?]]]; try discriminate. destruct base as [|[|?]]; try discriminate. destruct utf8; [discriminate|reflexivity].
Qed.

Lemma Serializer_unpack_serializable_ok S c m data off :
  ser_wf S = true -> fents_msg S (cls_formats c) m ->
  (forall f p cargs, In f (msg_fields m) -> packer_fmt S p cargs f -> forall off ul,
     unpack_sim f ul (r_unpack R p (VBytes data) (VInt (Z.of_nat off)) (VList ul) cargs) (unpack key_ok f data off)) ->
  unpack_msg_sim m (Serializer_unpack_serializable R S c (VBytes data) (VInt (Z.of_nat off))) (unpack_msg key_ok m data off).
Proof.
  intros Hwf Hm HR. destruct (ser_wf_inv S Hwf) as ((pp & Hpp & Npp) & (lw & pl & q & Hlw & Hpl & Cpl & Lpl & Spl & Nq) & _ & _).
  unfold Serializer_unpack_serializable. cbv zeta.
  match goal with |- context [py_for _ ?b _] => set (body := b) end.
  assert (Hstep : forall e f off ul, fent_fmt S e f ->
            (forall p cargs, packer_fmt S p cargs f -> forall off ul,
               unpack_sim f ul (r_unpack R p (VBytes data) (VInt (Z.of_nat off)) (VList ul) cargs) (unpack key_ok f data off)) ->
            match body e (VInt (Z.of_nat off), VList ul), unpack key_ok f data off with
            | Ok (o', l), Ok (v, o) => l = VList (ul ++ entries f v) /\ o' = VInt (Z.of_nat o)
            | Raise ex, Raise _ => ex <> OutOfFuel
            | _, _ => False
            end).
  { intros e f off' ul He Hp. subst body. cbn beta iota.
    destruct He as [n p f Hn Hf|c' m' Hm'|c' m' lw' Hlw' Hm'].
    - cbn [ser_getitem_fent]. rewrite Hn. cbn [bind]. specialize (Hp p [] (pf_plain S p [] f Hf) off' ul). unfold unpack_sim in Hp.
      destruct (r_unpack R p _ _ _ _) as [[l o']|ex]; destruct (unpack key_ok f data off') as [[v o]|e2]; cbn [bind py_try]; try contradiction; auto.
      unfold catchable. destruct (exn_eqb ex OutOfFuel) eqn:Eo; [apply exn_eqb_eq in Eo; contradiction|]. cbn [negb].
      destruct (exn_eqb ex KeyError); [cbn [fent_issubclass bind]; discriminate|].
      destruct (exn_eqb ex TypeError); [cbn [fent_is_list bind negb]; exact Hp|]. cbn [bind]. discriminate.
    - cbn [ser_getitem_fent bind py_try catchable exn_eqb negb fent_issubclass fent_cls]. fold n_payload. cbn [ser_getitem]. rewrite Hpp. cbn [bind].
      specialize (Hp pp [c'] (pf_nested S pp c' [] m' Npp Hm') off' ul). unfold unpack_sim in Hp.
      destruct (r_unpack R pp _ _ _ _) as [[l o']|ex]; destruct (unpack key_ok (FNested m') data off') as [[v o]|e2]; cbn [bind]; try contradiction; auto.
    - cbn [ser_getitem_fent bind py_try catchable exn_eqb negb fent_is_list fent_first]. fold n_payload_list. cbn [ser_getitem]. rewrite Hpl. cbn [bind].
      assert (lw' = lw) by congruence. subst lw'.
      specialize (Hp pl [c'] (pf_list S pl q [c'] lw (FNested m') Cpl Lpl Spl (pf_nested S q c' [] m' Nq Hm')) off' ul). unfold unpack_sim in Hp.
      destruct (r_unpack R pl _ _ _ _) as [[l o']|ex]; destruct (unpack key_ok (FListOf lw (FNested m')) data off') as [[v o]|e2]; cbn [bind]; try contradiction; auto. }
  assert (Hloop : forall fs m, fents_msg S fs m ->
            (forall f p cargs, In f (msg_fields m) -> packer_fmt S p cargs f -> forall off ul,
               unpack_sim f ul (r_unpack R p (VBytes data) (VInt (Z.of_nat off)) (VList ul) cargs) (unpack key_ok f data off)) ->
            forall off ul,
            match py_for fs body (VInt (Z.of_nat off), VList ul), unpack_msg key_ok m data off with
            | Ok (o', l), Ok (vs, o) => l = VList (ul ++ flat_msg m vs) /\ o' = VInt (Z.of_nat o)
            | Raise ex, Raise _ => ex <> OutOfFuel
            | _, _ => False
            end).
  { clear Hm HR. induction 1 as [|e f l m0 He Hl IH]; intros HR off' ul.
    - cbn [py_for unpack_msg flat_msg]. rewrite app_nil_r. split; reflexivity.
    - cbn [py_for]. change (unpack_msg key_ok (MCons f m0) data off') with
        (do (v, o1) <- unpack key_ok f data off'; do (vs, o2) <- unpack_msg key_ok m0 data o1; Ok (v :: vs, o2)).
      specialize (Hstep e f off' ul He (fun p cargs Hp => HR f p cargs (or_introl eq_refl) Hp)).
      destruct (body e _) as [[o' l']|ex]; destruct (unpack key_ok f data off') as [[v o]|e2]; cbn [bind]; try contradiction; auto.
      destruct Hstep as [-> ->].
      specialize (IH (fun f' p cargs Hin Hp => HR f' p cargs (or_intror Hin) Hp) o (ul ++ entries f v)).
      destruct (py_for l body _) as [[o'' l'']|ex]; destruct (unpack_msg key_ok m0 data o) as [[vs o2]|e2]; cbn [bind]; try contradiction; auto.
      destruct IH as [-> ->]. rewrite <- app_assoc. split; reflexivity. }
  specialize (Hloop _ m Hm HR off []). unfold unpack_msg_sim.
  destruct (py_for _ body _) as [[o' l]|ex]; destruct (unpack_msg key_ok m data off) as [[vs o]|e2]; cbn [bind]; try contradiction; auto.
  destruct Hloop as [-> ->]. cbn [app py_from_unpack_list py_iter bind]. reflexivity.
Qed.
End Classes.

(* ================================================================== closing the recursion *)
Lemma need_field f m : In f (msg_fields m) -> (need f <= need_msg m)%nat.
Proof. induction m as [|f0 m IH]; cbn [msg_fields need_msg]; [intros []|]. intros [->|H]; [lia|]. specialize (IH H). lia. Qed.

Ltac dispatch_to H := unfold dispatch_unpack; rewrite H; cbn [String.eqb Ascii.eqb Bool.eqb].

Section Close.
Variable key_ok : bytes -> bool.
Variable S : ser.
Hypothesis Hwf : ser_wf S = true.

Definition Pf (f : fmt) : Prop :=
  forall n p cargs data off ul, packer_fmt S p cargs f -> bytes_ok data -> (need f <= n)%nat ->
  unpack_sim f ul (r_unpack (run key_ok S n) p (VBytes data) (VInt (Z.of_nat off)) (VList ul) cargs) (unpack key_ok f data off).
Definition Pm (m : msgfmt) : Prop :=
  (forall f, In f (msg_fields m) -> Pf f) /\
  forall n c data off, fents_msg S (cls_formats c) m -> bytes_ok data -> (Datatypes.S (need_msg m) <= n)%nat ->
  unpack_msg_sim m (r_unpack_serializable (run key_ok S n) c (VBytes data) (VInt (Z.of_nat off))) (unpack_msg key_ok m data off).

Lemma plain_only p cargs f : packer_fmt S p cargs f ->
  match f with FListOf _ _ | FNested _ => True | _ => fmt_of_packer p = Some f end.
Proof. intros H. destruct H; [destruct f; auto|exact I|exact I]. Qed.

Ltac simple_case :=
  let n := fresh "n" in let p := fresh "p" in let cargs := fresh "cargs" in let data := fresh "data" in
  let off := fresh "off" in let ul := fresh "ul" in let Hp := fresh "Hp" in let Hd := fresh "Hd" in let Hn := fresh "Hn" in
  intros n p cargs data off ul Hp Hd Hn; destruct n as [|n]; [cbn [need] in Hn; lia|];
  pose proof (plain_only _ _ _ Hp) as Hf; cbn beta iota in Hf; pose proof (fmt_inv _ _ Hf) as Hc; cbn beta iota in Hc;
  cbn [run r_unpack].

Lemma refines_all : (forall f, Pf f) /\ (forall m, Pm m).
Proof.
  apply fmt_msg_ind.
  - (* struct *) intros ps. simple_case. dispatch_to Hc. apply DefaultStruct_unpack_ok. exact Hf.
  - (* bits *) simple_case. dispatch_to Hc. apply Bits_unpack_ok.
  - (* raw *) simple_case. dispatch_to Hc. apply Raw_unpack_ok.
  - (* varlen *) intros lw base utf8. simple_case. destruct Hc as (Hc & _). destruct utf8; dispatch_to Hc.
    + apply VarLenUtf8_unpack_ok; assumption.
    + apply VarLen_unpack_ok; assumption.
  - (* ipv4 *) simple_case. dispatch_to Hc. apply IPv4_unpack_ok.
  - (* addr *) intros ip_only. simple_case. destruct Hc as (Hc & _). dispatch_to Hc. apply Address_unpack_ok; assumption.
  - (* flags *) intros w. simple_case. destruct Hc as (Hc & _). dispatch_to Hc. apply Flags_unpack_ok; assumption.
  - (* array *) intros e lw. simple_case. destruct Hc as (Hc & _). dispatch_to Hc. apply DefaultArray_unpack_ok; assumption.
  - (* node *) simple_case. dispatch_to Hc.
    cbn [need] in Hn. destruct n as [|[|n]]; try lia.
    destruct (ser_wf_inv S Hwf) as (_ & _ & (pa & Hpa & Fpa) & (pv & Hpv & Fpv)).
    apply NodePacker_unpack_ok; intros off'; cbn [run r_ser_unpack].
    + apply (Serializer_unpack_name _ key_ok S n_ip_address pa (FAddr true) data off' Hpa (fun v => eq_refl)).
      cbn [run r_unpack]. destruct (fmt_inv _ _ Fpa) as (Ca & _). dispatch_to Ca. apply Address_unpack_ok; assumption.
    + apply (Serializer_unpack_name _ key_ok S n_varlenH pv (FVarLen 2 1 false) data off' Hpv (fun v => eq_refl)).
      cbn [run r_unpack]. destruct (fmt_inv _ _ Fpv) as (Cv & _). dispatch_to Cv. apply VarLen_unpack_ok; assumption.
  - (* listof *) intros lw f' IH n p cargs data off ul Hp Hd Hn. cbn [need] in Hn. destruct n as [|n]; [lia|].
    assert (Hq : exists q, pk_cls p = "ListOf"%string /\ len_attr p "length_format" "length_size" false = Some lw /\
                           subs_get "packer" (pk_subs p) = Some q /\ packer_fmt S q cargs f').
    { inversion Hp; subst.
      - destruct (fmt_inv _ _ H) as (Hc & HL & q & Hs & Hfq). exists q. repeat split; auto. apply pf_plain. exact Hfq.
      - exists q. repeat split; auto. }
    destruct Hq as (q & Hc & HL & Hs & Hpq). cbn [run r_unpack]. dispatch_to Hc.
    apply (ListOf_unpack_ok _ key_ok p q lw f' data off ul cargs Hd HL Hs).
    intros off' ul'. apply IH; [exact Hpq|exact Hd|lia].
  - (* nested *) intros m [_ IHm] n p cargs data off ul Hp Hd Hn. cbn [need] in Hn. destruct n as [|n]; [lia|].
    inversion Hp; subst.
    + destruct (fmt_inv _ _ H).
    + match goal with Hnp : is_nested p = true, Hmm : fents_msg S (cls_formats ?c) m |- _ =>
        cbn [run r_unpack]; unfold is_nested in Hnp; apply String.eqb_eq in Hnp; dispatch_to Hnp;
        apply NestedPayload_unpack_ok; [exact Hd|]; intros d Hdd; apply (IHm n c d 0%nat Hmm Hdd); lia
      end.
  - (* MNil *) split; [intros f []|]. intros n c data off Hm Hd Hn. destruct n as [|n]; [lia|]. cbn [run r_unpack_serializable].
    apply Serializer_unpack_serializable_ok; [exact Hwf|exact Hm|]. intros f p cargs [].
  - (* MCons *) intros f IHf m [IHfields IHm]. split.
    + intros f0 [<-|Hin]; [exact IHf|apply IHfields; exact Hin].
    + intros n c data off Hm Hd Hn. destruct n as [|n]; [lia|]. cbn [run r_unpack_serializable].
      apply Serializer_unpack_serializable_ok; [exact Hwf|exact Hm|].
      intros f0 p cargs Hin Hp off' ul'.
      assert (Pf f0) as P0 by (destruct Hin as [<-|Hin]; [exact IHf|apply IHfields; exact Hin]).
      apply P0; [exact Hp|exact Hd|]. pose proof (need_field f0 (MCons f m) Hin). lia.
Qed.
End Close.

(* ================================================================== Serializer.unpack_serializable_list *)
Section ListLevel.
Variable key_ok : bytes -> bool.
Variable S : ser.
Hypothesis Hwf : ser_wf S = true.

Lemma unpack_list_refines n cs ms data off consume :
  Forall2 (fun c m => fents_msg S (cls_formats c) m) cs ms -> bytes_ok data ->
  Forall (fun m => (need_msg m + 2 <= n)%nat) ms ->
  val_sim (Serializer_unpack_serializable_list (run key_ok S n) S cs (VBytes data) (VInt (Z.of_nat off)) (VBool consume))
          (unpack_list_spec key_ok ms data off consume).
Proof.
  intros Hcm Hd Hn. unfold Serializer_unpack_serializable_list, unpack_list_spec. cbv zeta.
  match goal with |- context [py_for _ ?b _] => set (body := b) end.
  assert (Hloop : forall cs ms, Forall2 (fun c m => fents_msg S (cls_formats c) m) cs ms ->
            Forall (fun m => (need_msg m + 2 <= n)%nat) ms -> forall off acc,
            match py_for cs body (VInt (Z.of_nat off), VList acc), unpack_seq key_ok ms data off with
            | Ok (o', l), Ok (r, o) => l = VList (acc ++ r) /\ o' = VInt (Z.of_nat o)
            | Raise ex, Raise _ => ex <> OutOfFuel
            | _, _ => False
            end).
  { clear cs ms Hcm Hn. induction 1 as [|c m cs ms Hc Hcs IH]; intros Hn off' acc.
    - cbn [py_for unpack_seq]. rewrite app_nil_r. split; reflexivity.
    - inversion Hn as [|? ? Hm Hms]; subst. cbn [py_for unpack_seq]. unfold body at 1.
      pose proof (proj2 (proj2 (refines_all key_ok S Hwf) m) n c data off' Hc Hd ltac:(lia)) as Hu. unfold unpack_msg_sim in Hu.
      destruct (r_unpack_serializable _ c _ _) as [r|ex]; destruct (unpack_msg key_ok m data off') as [[vs o]|e2]; cbn [bind]; try contradiction; auto.
      subst r. cbn [py_destruct py_iter bind length Nat.eqb]. pyev.
      specialize (IH Hms o (acc ++ [VMsg (flat_msg m vs)])).
      destruct (py_for cs body _) as [[o'' l'']|ex]; destruct (unpack_seq key_ok ms data o) as [[r o2]|e2]; cbn [bind]; try contradiction; auto.
      destruct IH as [-> ->]. rewrite <- app_assoc. split; reflexivity. }
  specialize (Hloop cs ms Hcm Hn off []). unfold val_sim.
  destruct (py_for cs body _) as [[o' l]|ex]; destruct (unpack_seq key_ok ms data off) as [[r o]|e2]; cbn [bind]; try contradiction; auto.
  destruct Hloop as [-> ->]. cbn [app]. rewrite py_slice_from. cbn [bind py_truthy negb].
  destruct consume; cbn [negb bind].
  - cbn [py_truthy]. unfold nonempty.
    destruct (skipn o data) as [|x tl] eqn:Es.
    + assert (length data <= o)%nat.
      { destruct (Nat.le_gt_cases (length data) o); [assumption|]. assert (length (skipn o data) = 0%nat) by (rewrite Es; reflexivity). rewrite skipn_length in *. lia. }
      replace (o <? length data)%nat with false by lia. reflexivity.
    + assert (o < length data)%nat.
      { destruct (Nat.le_gt_cases (length data) o); [|assumption]. rewrite skipn_all2 in Es by lia. discriminate. }
      replace (o <? length data)%nat with true by lia. discriminate.
  - pyev. reflexivity.
Qed.

(* one class with consume_all: M02's unpack_all *)
Lemma unpack_all_refines n c m data off :
  fents_msg S (cls_formats c) m -> bytes_ok data -> (need_msg m + 2 <= n)%nat ->
  val_sim (Serializer_unpack_serializable_list (run key_ok S n) S [c] (VBytes data) (VInt (Z.of_nat off)) (VBool true))
          (do vs <- unpack_all key_ok m data off; Ok (VList [VMsg (flat_msg m vs)])).
Proof.
  intros Hc Hd Hn. pose proof (unpack_list_refines n [c] [m] data off true (Forall2_cons _ _ Hc (Forall2_nil _)) Hd (Forall_cons _ Hn (Forall_nil _))) as H.
  unfold unpack_list_spec, unpack_all in *. cbn [unpack_seq] in H.
  destruct (unpack_msg key_ok m data off) as [[vs o]|e]; cbn [bind] in H |- *; [|exact H].
  destruct (o <? length data)%nat; cbn [bind]; exact H.
Qed.
End ListLevel.

(* the computed class formats are formats in the sense of the relation *)
Lemma msgfmt_fuel_sound S : forall n fs m, msgfmt_fuel n S fs = Some m -> fents_msg S fs m.
Proof.
  induction n as [|n IH]; intros fs m H; [discriminate H|]. cbn [msgfmt_fuel] in H.
  destruct fs as [|e tl]; [injection H as <-; constructor|].
  match type of H with match ?F with _ => _ end = _ => destruct F as [f|] eqn:Ef end; [|discriminate H].
  destruct (msgfmt_fuel n S tl) as [m'|] eqn:Em; [|discriminate H]. injection H as <-.
  constructor; [|apply IH; exact Em].
  destruct e as [nm|c|c].
  - destruct (ser_find S nm) as [p|] eqn:Ep; [|discriminate Ef]. econstructor; eassumption.
  - destruct (msgfmt_fuel n S (cls_formats c)) as [mc|] eqn:Ec; [|discriminate Ef]. injection Ef as <-. constructor. apply IH. exact Ec.
  - destruct (payload_list_lw S) as [lw|] eqn:El; [|discriminate Ef].
    destruct (msgfmt_fuel n S (cls_formats c)) as [mc|] eqn:Ec; [|discriminate Ef]. injection Ef as <-. constructor; [exact El|apply IH; exact Ec].
Qed.

(* ================================================================== the pack side *)
(* ---- decimal rendering of the byte count in f">BH{n}sH" and its parsing by struct ---- *)
Definition dchar (d : nat) : Z := 48 + Z.of_nat d.
Lemma digit_dchar d : (d < 10)%nat -> digit (dchar d) = Some d.
Proof. intros H. unfold digit, dchar. replace ((48 <=? 48 + Z.of_nat d) && (48 + Z.of_nat d <=? 57)) with true by lia. f_equal. lia. Qed.

(* reading digits left to right *)
Fixpoint read_digits (ds : list nat) (acc : option nat) : option nat :=
  match ds with
  | [] => acc
  | d :: tl => read_digits tl (Some (match acc with None => d | Some k => (10 * k + d)%nat end))
  end.

Lemma parse_items_digits ds : forall tl cnt, Forall (fun d => (d < 10)%nat) ds ->
  parse_items (map dchar ds ++ tl) cnt = parse_items tl (read_digits ds cnt).
Proof.
  induction ds as [|d ds IH]; intros tl cnt H; [reflexivity|]. inversion H; subst.
  cbn [map app parse_items read_digits]. rewrite digit_dchar by assumption. apply IH. assumption.
Qed.

(* the digits dec_digits produces *)
Lemma dec_digits_spec : forall fuel n acc, (n < fuel)%nat ->
  exists ds, dec_digits fuel n acc = map dchar ds ++ acc /\ Forall (fun d => (d < 10)%nat) ds /\
             forall k, read_digits ds k = Some (match k with None => n | Some k => (k * 10 ^ length ds + n)%nat end) /\ ds <> [].
Proof.
  induction fuel as [|fuel IH]; intros n acc H; [lia|]. cbn [dec_digits].
  destruct (n <? 10)%nat eqn:E.
  - exists [n]. apply Nat.ltb_lt in E. rewrite Nat.mod_small by lia. split; [reflexivity|]. split; [constructor; [exact E|constructor]|].
    intros k. split; [|discriminate]. destruct k; cbn [read_digits length Nat.pow]; f_equal; lia.
  - apply Nat.ltb_ge in E. assert (Hd : (n / 10 < fuel)%nat).
    { apply Nat.div_lt_upper_bound; lia. }
    destruct (IH (n / 10)%nat ((48 + Z.of_nat (n mod 10)) :: acc) Hd) as (ds & Hds & Hall & Hread).
    exists (ds ++ [(n mod 10)%nat]). split.
    + rewrite Hds, map_app. cbn [map]. rewrite <- app_assoc. reflexivity.
    + split; [apply Forall_app; split; [exact Hall|constructor; [apply Nat.mod_upper_bound; lia|constructor]]|].
      intros k. split; [|destruct ds; discriminate].
      assert (G : forall l k0, read_digits (l ++ [(n mod 10)%nat]) k0 = match read_digits l k0 with None => Some (n mod 10)%nat | Some q => Some (10 * q + n mod 10)%nat end).
      { induction l as [|x l IHl]; intros k0; cbn [app read_digits]; [destruct k0; reflexivity|apply IHl]. }
      rewrite G. destruct (Hread k) as [-> _]. rewrite app_length. cbn [length]. rewrite Nat.add_1_r, Nat.pow_succ_r'.
      pose proof (Nat.div_mod n 10 ltac:(lia)). destruct k; f_equal; lia.
Qed.

Lemma parse_items_dec n tl cnt0 : cnt0 = None ->
  parse_items (dec_of_nat n ++ tl) cnt0 = parse_items tl (Some n).
Proof.
  intros ->. unfold dec_of_nat. destruct (dec_digits_spec (S n) n [] ltac:(lia)) as (ds & Hds & Hall & Hread).
  rewrite Hds, app_nil_r. rewrite parse_items_digits by exact Hall. destruct (Hread None) as [-> _]. reflexivity.
Qed.

Lemma parse_domain_fmt n :
  parse_fmt ([62; 66; 72] ++ dec_of_nat n ++ [115; 72]) = Some (false, [PU 1; PU 2; PBytes n; PU 2]).
Proof.
  cbn [app parse_fmt Z.eqb Pos.eqb orb parse_items digit prim_of_char andb Z.leb Z.compare Pos.compare Pos.compare_cont].
  rewrite parse_items_dec by reflexivity. reflexivity.
Qed.

(* ================================================================== pack: primitives *)
Lemma spack1_penc p v : prim_ok p v = true -> spack1 p v = penc p v.
Proof.
  intros H. unfold penc. rewrite H. cbn [negb]. destruct p, v; try discriminate H; cbn [spack1 as_int prim_ok] in *.
  - rewrite H. reflexivity.
  - apply andb_true_iff in H as [_ H]. rewrite H. reflexivity.
  - reflexivity.
  - destruct b as [|c [|? ?]]; try discriminate H. reflexivity.
  - rewrite H. reflexivity.
  - apply andb_true_iff in H as [H _]. apply Nat.eqb_eq in H. rewrite <- H, firstn_all, Nat.sub_diag. cbn [repeat]. rewrite app_nil_r. reflexivity.
Qed.

Lemma spack_struct_enc ps : forall vs, forallb2 prim_ok ps vs = true -> spack ps vs = struct_enc ps vs.
Proof.
  induction ps as [|p ps IH]; intros [|v vs] H; cbn [forallb2] in H; try discriminate H; [reflexivity|].
  apply andb_true_iff in H as [H1 H2]. cbn [spack struct_enc]. rewrite (spack1_penc p v H1), (IH vs H2). reflexivity.
Qed.

Lemma py_pack_be s ps args : parse_fmt s = Some (false, ps) -> py_pack (VStr s) args = (do b <- spack ps args; Ok (VBytes b)).
Proof. intros H. unfold py_pack, fmt_of_val. rewrite H. reflexivity. Qed.

Lemma spack_uint lw n : in_range 0 (256 ^ Z.of_nat lw) n = true -> spack [PU lw] [VInt n] = Ok (be_encode lw n).
Proof. intros H. cbn [spack spack1 as_int]. rewrite H. cbn [bind]. rewrite app_nil_r. reflexivity. Qed.
Lemma spack_uint_bad lw n : in_range 0 (256 ^ Z.of_nat lw) n = false -> spack [PU lw] [VInt n] = Raise StructError.
Proof. intros H. cbn [spack spack1 as_int]. rewrite H. reflexivity. Qed.

Lemma penc_defined' p v : prim_ok p v = true -> exists b, penc p v = Ok b.
Proof. intros H. unfold penc. rewrite H. cbn [negb]. destruct p, v; try discriminate H; eauto. Qed.
Lemma struct_enc_defined' ps : forall vs, forallb2 prim_ok ps vs = true -> exists b, struct_enc ps vs = Ok b.
Proof.
  induction ps as [|p ps IH]; intros [|v vs] H; cbn [forallb2] in H; try discriminate H.
  - exists []. reflexivity.
  - apply andb_true_iff in H as [H1 H2]. destruct (penc_defined' p v H1) as [a Ea]. destruct (IH vs H2) as [b Eb].
    exists (a ++ b). cbn [struct_enc]. rewrite Ea, Eb. reflexivity.
Qed.

Lemma pk_index_addr a :
  pk_index (VAddr a) (VInt 0) = Ok (match a with A4 b _ => host4 b | A6 b _ => host6 b | ADom h _ => VStr h end) /\
  pk_index (VAddr a) (VInt 1) = Ok (VInt (match a with A4 _ p | A6 _ p | ADom _ p => p end)).
Proof. destruct a; split; reflexivity. Qed.

Lemma Forall2_len {A B} (P : A -> B -> Prop) l1 l2 : Forall2 P l1 l2 -> length l1 = length l2.
Proof. induction 1; cbn [length]; congruence. Qed.

Section PackClasses.
Variable R : recs.
Variable key_ok : bytes -> bool.

Lemma DefaultStruct_pack_ok p ps v :
  fmt_of_packer p = Some (FStruct ps) -> val_ok key_ok (FStruct ps) v = true ->
  pack_sim (DefaultStruct_pack R p (pargs (FStruct ps) v)) (pack key_ok (FStruct ps) v).
Proof.
  intros H Hok. destruct (fmt_struct_inv p ps H) as (_ & Hne & s & Hs & Hp & _).
  unfold DefaultStruct_pack. cbv zeta. rewrite Hs. cbn [bind py_iter]. rewrite (py_pack_be s ps _ Hp).
  destruct ps as [|p1 [|p2 ps]]; [congruence| |].
  - cbn [pargs val_ok pack] in *. cbn [spack]. rewrite (spack1_penc p1 v Hok).
    destruct (penc_defined' p1 v Hok) as [b ->]. cbn [bind]. rewrite app_nil_r. reflexivity.
  - cbn [val_ok pack] in *. destruct v; try discriminate Hok. cbn [pargs]. rewrite (spack_struct_enc _ _ Hok).
    destruct (struct_enc_defined' _ _ Hok) as [b ->]. reflexivity.
Qed.

Lemma Raw_pack_ok p v : val_ok key_ok FRaw v = true -> pack_sim (Raw_pack R p (pargs FRaw v)) (pack key_ok FRaw v).
Proof. cbn [val_ok pargs pack Raw_pack]. destruct v; try discriminate. intros ->. reflexivity. Qed.

Lemma is_bit_cases v : is_bit v = true -> v = VInt 0 \/ v = VInt 1.
Proof. destruct v; cbn; try discriminate. intros H. apply orb_true_iff in H as [H|H]; apply Z.eqb_eq in H; subst; auto. Qed.

Lemma Bits_pack_ok p v : val_ok key_ok FBits v = true -> pack_sim (Bits_pack R p (pargs FBits v)) (pack key_ok FBits v).
Proof.
  cbn [val_ok]. destruct v; try discriminate. intros H. apply andb_true_iff in H as [Hl Hb]. apply Nat.eqb_eq in Hl.
  destruct l as [|b7 [|b6 [|b5 [|b4 [|b3 [|b2 [|b1 [|b0 [|? ?]]]]]]]]]; try discriminate Hl.
  cbn [forallb] in Hb. repeat (apply andb_true_iff in Hb as [?Hb0 Hb]).
  cbn [pargs].
  repeat match goal with H : is_bit ?x = true |- _ => destruct (is_bit_cases x H) as [-> | ->]; clear H end;
    vm_compute; reflexivity.
Qed.

Lemma py_len_nat_bytes b : py_len (VBytes b) = Ok (VInt (Z.of_nat (length b))).
Proof. reflexivity. Qed.
Lemma py_floordiv_nat a b : (0 < b)%nat -> py_floordiv (VInt (Z.of_nat a)) (VInt (Z.of_nat b)) = Ok (VInt (Z.of_nat (a / b))).
Proof. intros H. unfold py_floordiv, int2. cbn [as_int]. replace (Z.of_nat b =? 0) with false by lia. rewrite Nat2Z.inj_div. reflexivity. Qed.

Lemma VarLen_pack_core p lw base b :
  len_attr p "length_format" "length_size" false = Some lw -> nat_attr p "base" = Some base ->
  pack_sim (VarLen_pack R p [VBytes b]) (if bytes_okb b then varlen_pack lw base b else Raise TypeError) \/ bytes_okb b = false.
Proof.
  intros HL HB. destruct (bytes_okb b) eqn:Hb; [left|right; reflexivity].
  destruct (len_attr_inv _ _ _ _ _ HL) as (s & Hs & Hp & _). pose proof (nat_attr_inv _ _ _ HB) as Hbase.
  unfold VarLen_pack, varlen_pack. rewrite Hs. cbn [bind]. rewrite py_len_nat_bytes. cbn [bind]. rewrite Hbase. cbn [bind].
  destruct base as [|base].
  - cbn [Nat.eqb]. unfold py_floordiv, int2. cbn [as_int Z.of_nat Z.eqb]. cbn [bind]. discriminate.
  - cbn [Nat.eqb]. rewrite py_floordiv_nat by lia. cbn [bind]. rewrite (py_pack_be s [PU lw] _ Hp). rewrite Hb, andb_true_r.
    destruct (in_range 0 (256 ^ Z.of_nat lw) (Z.of_nat (length b / S base))) eqn:Er.
    + rewrite (spack_uint _ _ Er). cbn [bind py_add as_int]. reflexivity.
    + rewrite (spack_uint_bad _ _ Er). cbn [bind]. discriminate.
Qed.

Lemma VarLen_pack_ok p lw base v :
  fmt_of_packer p = Some (FVarLen lw base false) -> val_ok key_ok (FVarLen lw base false) v = true ->
  pack_sim (VarLen_pack R p (pargs (FVarLen lw base false) v)) (pack key_ok (FVarLen lw base false) v).
Proof.
  intros H Hok. destruct (fmt_inv _ _ H) as (_ & HL & HB). cbn [val_ok] in Hok. destruct v; try discriminate Hok.
  cbn [pargs pack]. repeat (apply andb_true_iff in Hok as [Hok ?]).
  destruct (VarLen_pack_core p lw base b HL HB) as [C|C]; [|congruence]. rewrite H1 in C. exact C.
Qed.

Lemma VarLenUtf8_pack_ok p lw base v :
  fmt_of_packer p = Some (FVarLen lw base true) -> val_ok key_ok (FVarLen lw base true) v = true ->
  pack_sim (VarLenUtf8_pack R p (pargs (FVarLen lw base true) v)) (pack key_ok (FVarLen lw base true) v).
Proof.
  intros H Hok. destruct (fmt_inv _ _ H) as (_ & HL & HB). cbn [val_ok] in Hok. destruct v; try discriminate Hok.
  cbn [pargs pack]. apply andb_true_iff in Hok as [Hok Hu]. repeat (apply andb_true_iff in Hok as [Hok ?]). rewrite Hu.
  unfold VarLenUtf8_pack. cbn [py_encode bind].
  destruct (VarLen_pack_core p lw base b HL HB) as [C|C]; [|congruence]. rewrite H1 in C.
  destruct (VarLen_pack R p [VBytes b]) as [r|e]; cbn [bind]; exact C.
Qed.

Lemma spack_bytes_exact n b : length b = n -> spack1 (PBytes n) (VBytes b) = Ok b.
Proof. intros <-. cbn [spack1]. rewrite firstn_all, Nat.sub_diag. cbn [repeat]. rewrite app_nil_r. reflexivity. Qed.

Lemma IPv4_pack_ok p v : val_ok key_ok FIPv4 v = true -> pack_sim (IPv4_pack R p (pargs FIPv4 v)) (pack key_ok FIPv4 v).
Proof.
  cbn [val_ok]. destruct v as [| | | | |a| | | |]; try discriminate. destruct a as [ip port| |]; try discriminate.
  intros H. cbn [pargs pack]. cbn [addr_ok] in H. rewrite H. apply andb_true_iff in H as [H Hport]. apply andb_true_iff in H as [Hl _]. apply Nat.eqb_eq in Hl.
  unfold IPv4_pack. rewrite (proj1 (pk_index_addr _)), (proj2 (pk_index_addr _)). cbn [bind py_inet_aton host4].
  rewrite (py_pack_be [62; 52; 115; 72] [PBytes 4; PU 2] _ eq_refl). cbn [spack]. rewrite (spack_bytes_exact 4 ip Hl). cbn [bind spack1 as_int].
  change (256 ^ Z.of_nat 2) with 65536. rewrite Hport. cbn [bind]. rewrite app_nil_r. reflexivity.
Qed.

Lemma Address_pack_ok p ip_only v :
  fmt_of_packer p = Some (FAddr ip_only) -> val_ok key_ok (FAddr ip_only) v = true ->
  pack_sim (Address_pack R p (pargs (FAddr ip_only) v)) (pack key_ok (FAddr ip_only) v).
Proof.
  intros H Hok. destruct (fmt_inv _ _ H) as (_ & Hip). cbn [val_ok] in Hok. destruct v as [| | | | |a| | | |]; try discriminate Hok.
  cbn [pargs pack]. unfold Address_pack.
  destruct a as [ip port|ip port|host port]; cbn [addr_ok] in Hok; cbn [addr_pack].
  - rewrite Hok. apply andb_true_iff in Hok as [Hok Hport]. apply andb_true_iff in Hok as [Hl _]. apply Nat.eqb_eq in Hl.
    rewrite (proj1 (pk_index_addr _)), (proj2 (pk_index_addr _)). cbn [bind py_inet_pton host4].
    rewrite (py_pack_be [62; 66; 52; 115; 72] [PU 1; PBytes 4; PU 2] _ eq_refl). cbn [spack]. rewrite (spack_bytes_exact 4 ip Hl).
    cbn [bind spack1 as_int]. change (256 ^ Z.of_nat 2) with 65536. rewrite Hport. cbn [in_range Z.leb Z.ltb Z.compare Z.pow Z.pow_pos Pos.iter Z.mul Pos.mul Z.of_nat Pos.of_succ_nat Pos.succ andb bind py_try].
    rewrite app_nil_r. reflexivity.
  - rewrite Hok. apply andb_true_iff in Hok as [Hok Hport]. apply andb_true_iff in Hok as [Hl _]. apply Nat.eqb_eq in Hl.
    rewrite !(proj1 (pk_index_addr _)), !(proj2 (pk_index_addr _)). cbn [bind py_inet_pton host6 py_try catchable exn_eqb negb].
    rewrite (py_pack_be [62; 66; 49; 54; 115; 72] [PU 1; PBytes 16; PU 2] _ eq_refl). cbn [spack]. rewrite (spack_bytes_exact 16 ip Hl).
    cbn [bind spack1 as_int]. change (256 ^ Z.of_nat 2) with 65536. rewrite Hport. cbn [in_range Z.leb Z.ltb Z.compare Z.pow Z.pow_pos Pos.iter Z.mul Pos.mul Z.of_nat Pos.of_succ_nat Pos.succ andb bind py_try].
    rewrite app_nil_r. reflexivity.
  - destruct ip_only; [discriminate Hok|]. cbn [negb andb] in Hok. rewrite Hok.
    apply andb_true_iff in Hok as [Hok Hport]. apply andb_true_iff in Hok as [Hok _]. apply andb_true_iff in Hok as [Hlen _].
    rewrite !(proj1 (pk_index_addr _)), !(proj2 (pk_index_addr _)). cbn [bind py_inet_pton py_try catchable exn_eqb negb].
    rewrite Hip. cbn [bind py_truthy negb py_encode]. rewrite !py_len_nat_bytes. cbn [bind].
    unfold py_fstring. cbn [mapM py_format_piece bind]. replace (Z.of_nat (length host) <? 0) with false by lia. rewrite Nat2Z.id.
    cbn [bind concat]. rewrite app_nil_r.
    rewrite (py_pack_be _ [PU 1; PU 2; PBytes (length host); PU 2] _ (parse_domain_fmt (length host))).
    cbn [spack]. rewrite (spack_bytes_exact _ host eq_refl). cbn [bind spack1 as_int]. change (256 ^ Z.of_nat 2) with 65536.
    unfold in_range at 2. replace ((0 <=? Z.of_nat (length host)) && (Z.of_nat (length host) <? 65536)) with true by lia.
    rewrite Hport. cbn [in_range Z.leb Z.ltb Z.compare Z.pow Z.pow_pos Pos.iter Z.mul Pos.mul Z.of_nat Pos.of_succ_nat Pos.succ andb bind].
    change (2 <? 256) with true. change (be_encode 1 2) with [2]. cbn [bind app]. rewrite app_nil_r. reflexivity.
Qed.

Lemma concat_res_mapM {A} (f : A -> res bytes) l : concat_res (map f l) = (do bs <- mapM f l; Ok (concat bs)).
Proof.
  induction l as [|x l IH]; [reflexivity|]. cbn [map concat_res mapM]. destruct (f x); cbn [bind]; [|reflexivity].
  rewrite IH. destruct (mapM f l); reflexivity.
Qed.

Lemma array_item_aenc e v : aelem e = true -> prim_ok e v = true -> array_item e v = aenc e v.
Proof.
  intros He H. unfold array_item. destruct e, v; try discriminate H; try discriminate He;
    unfold aenc; rewrite H; reflexivity.
Qed.
Lemma array_elem_aelem tc e : array_elem tc = Ok e -> aelem e = true.
Proof.
  unfold array_elem. intros H.
  repeat match type of H with
         | match ?x with _ => _ end = _ => destruct x; try discriminate H
         end.
  all: injection H as <-; reflexivity.
Qed.

Lemma mapM_ext_in {A B} (f g : A -> res B) l : (forall x, In x l -> f x = g x) -> mapM f l = mapM g l.
Proof.
  induction l as [|x l IH]; intros H; [reflexivity|]. cbn [mapM]. rewrite (H x (or_introl eq_refl)).
  rewrite IH by (intros y Hy; apply H; right; exact Hy). reflexivity.
Qed.

Lemma DefaultArray_pack_ok p e lw v :
  fmt_of_packer p = Some (FArray e lw) -> val_ok key_ok (FArray e lw) v = true ->
  pack_sim (DefaultArray_pack R p (pargs (FArray e lw) v)) (pack key_ok (FArray e lw) v).
Proof.
  intros H Hok. destruct (fmt_inv _ _ H) as (_ & HL & tc & real & e' & Htc & Hreal & He' & Hbase & Hcase).
  destruct (len_attr_inv _ _ _ _ _ HL) as (s & Hs & Hp & Hsz).
  cbn [val_ok] in Hok. destruct v; try discriminate Hok. apply andb_true_iff in Hok as [Hn Hall].
  cbn [pargs pack]. unfold DefaultArray_pack. rewrite Hs. cbn [bind py_len]. unfold py_pack, fmt_of_val. rewrite Hp. cbn [bind].
  unfold in_range. replace ((0 <=? Z.of_nat (length l)) && (Z.of_nat (length l) <? 256 ^ Z.of_nat lw)) with true by lia.
  rewrite spack_uint by (unfold in_range; lia). cbn [bind]. rewrite Hreal. cbn [bind]. unfold py_array_tobytes. rewrite He'. cbn [bind py_iter].
  rewrite concat_res_mapM.
  assert (E : mapM (array_item e') l = mapM (aenc e) l).
  { apply mapM_ext_in. intros x Hx. rewrite forallb_forall in Hall. specialize (Hall x Hx).
    destruct Hcase as [(-> & -> & ->)|(_ & -> & ->)].
    - injection He' as <-. destruct x; try discriminate Hall. destruct b; reflexivity.
    - apply array_item_aenc; [exact (array_elem_aelem _ _ He')|exact Hall]. }
  rewrite E.
  assert (D : exists bs, mapM (aenc e) l = Ok bs).
  { assert (Ha : aelem e = true) by (destruct Hcase as [(_ & _ & ->)|(_ & _ & ->)]; [reflexivity|exact (array_elem_aelem _ _ He')]).
    clear - Hall Ha. induction l as [|x l IH]; [exists []; reflexivity|]. cbn [forallb mapM] in *.
    apply andb_true_iff in Hall as [H1 H2]. destruct (IH H2) as [bs Hbs]. rewrite Hbs.
    unfold aenc. rewrite H1. cbn [negb]. destruct e, x; try discriminate H1; try discriminate Ha; cbn [bind]; eauto. }
  destruct D as [bs ->]. cbn [bind py_add as_int]. reflexivity.
Qed.

Lemma val_eqb_ints_r b : forall a, (forall x, In x b -> exists z, x = VInt z) -> val_eqb (VList a) (VList b) = true -> a = b.
Proof.
  induction b as [|y b IH]; intros [|x a] Hin H; cbn in H; try discriminate; [reflexivity|].
  apply andb_true_iff in H as [H1 H2]. destruct (Hin y (or_introl eq_refl)) as [z ->].
  apply val_eqb_int in H1. subst. f_equal. apply IH; [intros x' Hx'; apply Hin; right; exact Hx'|exact H2].
Qed.

Lemma flags_dec_ints w n x : In x (flags_dec w n) -> exists i, x = VInt (2 ^ Z.of_nat i).
Proof.
  unfold flags_dec. intros H. apply in_flat_map in H as (i & _ & H). destruct (Z.testbit n (Z.of_nat i)); [|destruct H].
  destruct H as [<-|[]]. eauto.
Qed.

Lemma reduce_lor zs : forall a, (forall z, In z zs -> 0 <= z) ->
  py_reduce (fun v_a v_b => py_bitor v_a v_b) (map VInt zs) (VInt a) = Ok (VInt (Z.lor a (fold_right Z.lor 0 zs))) /\
  flags_or (map VInt zs) = Ok (fold_right Z.lor 0 zs).
Proof.
  induction zs as [|z zs IH]; intros a Hz.
  - cbn [map py_reduce fold_right flags_or]. rewrite Z.lor_0_r. split; reflexivity.
  - cbn [map py_reduce fold_right flags_or py_bitor int2 as_int bind].
    destruct (IH (Z.lor a z) (fun z' Hz' => Hz z' (or_intror Hz'))) as [E1 E2]. rewrite E1, E2.
    replace (z <? 0) with false by (specialize (Hz z (or_introl eq_refl)); lia). cbn [bind]. rewrite Z.lor_assoc. split; reflexivity.
Qed.

Lemma Flags_pack_ok p w v :
  fmt_of_packer p = Some (FFlags w) -> val_ok key_ok (FFlags w) v = true ->
  pack_sim (Flags_pack R p (pargs (FFlags w) v)) (pack key_ok (FFlags w) v).
Proof.
  intros H Hok. destruct (fmt_inv _ _ H) as (_ & HL). destruct (len_attr_inv _ _ _ _ _ HL) as (s & Hs & Hp & _).
  cbn [val_ok] in Hok. destruct v; try discriminate Hok.
  apply val_eqb_ints_r in Hok; [|intros x Hx; destruct (flags_dec_ints _ _ _ Hx) as [i ->]; eauto].
  assert (Hz : exists zs, l = map VInt zs /\ forall z, In z zs -> 0 <= z).
  { rewrite Hok. generalize (flags_dec w match flags_or l with Ok z => z | Raise _ => -1 end) (flags_dec_ints w match flags_or l with Ok z => z | Raise _ => -1 end).
    intros fl Hfl. induction fl as [|x fl IH]; [exists []; split; [reflexivity|intros ? []]|].
    destruct (Hfl x (or_introl eq_refl)) as [i ->]. destruct (IH (fun y Hy => Hfl y (or_intror Hy))) as (zs & -> & Hzs).
    exists (2 ^ Z.of_nat i :: zs). split; [reflexivity|]. intros z [<-|Hz]; [apply Z.pow_nonneg; lia|apply Hzs; exact Hz]. }
  destruct Hz as (zs & -> & Hzs). clear Hok.
  cbn [pargs pack]. unfold Flags_pack. rewrite Hs. cbn [bind py_iter].
  destruct (reduce_lor zs 0 Hzs) as [E1 E2]. rewrite E1, E2. cbn [bind]. rewrite Z.lor_0_l.
  rewrite (py_pack_be s [PU w] _ Hp).
  destruct (in_range 0 (256 ^ Z.of_nat w) (fold_right Z.lor 0 zs)) eqn:Er.
  - rewrite (spack_uint _ _ Er). reflexivity.
  - rewrite (spack_uint_bad _ _ Er). cbn [bind]. discriminate.
Qed.

(* ---- the recursive ones ---- *)
Lemma listcomp_pack (q : packer) f' : forall xs vs,
  Forall2 (fun x v => pack_sim (r_pack R q [x]) (pack key_ok f' v)) xs vs ->
  match (do t5_ <- py_listcomp (fun v_item => do t4_ <- Ok q; r_pack R t4_ [v_item]) (VList xs); py_join (VBytes []) t5_),
        concat_res (map (pack key_ok f') vs) with
  | Ok r, Ok b => r = VBytes b
  | Raise e, Raise _ => e <> OutOfFuel
  | _, _ => False
  end.
Proof.
  intros xs vs Hq. unfold py_listcomp. cbn [py_iter bind].
  assert (G : match mapM (fun v_item => do t4_ <- Ok q; r_pack R t4_ [v_item]) xs, concat_res (map (pack key_ok f') vs) with
              | Ok rs, Ok b => exists bs, rs = map VBytes bs /\ b = concat bs
              | Raise e, Raise _ => e <> OutOfFuel
              | _, _ => False
              end).
  { induction Hq as [|x v xs vs Hx _ IH]; [exists []; split; reflexivity|]. cbn [mapM map concat_res bind].
    unfold pack_sim in Hx.
    destruct (r_pack R q [x]) as [r|e]; destruct (pack key_ok f' v) as [b|e2]; cbn [bind]; try contradiction; auto.
    subst r.
    destruct (mapM _ xs) as [rs|e]; destruct (concat_res (map (pack key_ok f') vs)) as [b2|e2]; cbn [bind]; try contradiction; auto.
    destruct IH as (bs & -> & ->). exists (b :: bs). split; reflexivity. }
  destruct (mapM _ xs) as [rs|e]; destruct (concat_res (map (pack key_ok f') vs)) as [b|e2]; cbn [bind]; try contradiction; auto.
  destruct G as (bs & -> & ->). unfold py_join. cbn [py_iter bind].
  assert (E : mapM bytes_of (map VBytes bs) = Ok bs) by (clear; induction bs as [|x bs IH]; [reflexivity|cbn [map mapM bytes_of bind]; rewrite IH; reflexivity]).
  rewrite E. cbn [bind]. f_equal. f_equal. clear. induction bs as [|x [|y bs] IH]; [reflexivity|cbn; rewrite app_nil_r; reflexivity|].
  cbn [intercalate concat app] in *. rewrite IH. reflexivity.
Qed.

Lemma ListOf_pack_ok p q lw f' xs vs :
  len_attr p "length_format" "length_size" false = Some lw -> subs_get "packer" (pk_subs p) = Some q ->
  Forall2 (fun x v => pack_sim (r_pack R q [x]) (pack key_ok f' v)) xs vs ->
  pack_sim (ListOf_pack R p [VList xs]) (pack key_ok (FListOf lw f') (VList vs)).
Proof.
  intros HL Hsub Hq. destruct (len_attr_inv _ _ _ _ _ HL) as (s & Hs & Hp & _).
  unfold ListOf_pack. rewrite Hs. cbn [bind py_len pack]. rewrite (py_pack_be s [PU lw] _ Hp).
  rewrite (Forall2_len _ _ _ Hq).
  destruct (in_range 0 (256 ^ Z.of_nat lw) (Z.of_nat (length vs))) eqn:Er.
  2:{ rewrite (spack_uint_bad _ _ Er). cbn [bind]. discriminate. }
  rewrite (spack_uint _ _ Er). cbn [bind]. unfold pk_sub. rewrite Hsub.
  pose proof (listcomp_pack q f' xs vs Hq) as L. cbn [bind] in L.
  destruct (py_listcomp _ _) as [t5|e]; cbn [bind] in L |- *.
  - destruct (py_join (VBytes []) t5) as [r|e]; destruct (concat_res _) as [b|e2]; cbn [bind]; try contradiction; auto.
    subst r. reflexivity.
  - destruct (concat_res _) as [b|e2]; cbn [bind]; try contradiction; auto.
Qed.

Lemma NestedPayload_pack_ok p m vs ents :
  pack_sim (r_pack_serializable R (VMsg ents)) (pack_msg key_ok m vs) ->
  pack_sim (NestedPayload_pack R p [VMsg ents]) (pack key_ok (FNested m) (VMsg vs)).
Proof.
  intros Hs. unfold NestedPayload_pack. rewrite pack_nested. unfold pack_sim in Hs.
  destruct (r_pack_serializable R (VMsg ents)) as [r|e]; destruct (pack_msg key_ok m vs) as [b|e2]; cbn [bind]; try contradiction; auto.
  subst r. cbn [py_len bind]. unfold blen. rewrite (py_pack_be [62; 72] [PU 2] _ eq_refl).
  destruct (Z.of_nat (length b) <? 65536) eqn:E.
  - rewrite spack_uint by (unfold in_range; change (256 ^ Z.of_nat 2) with 65536; lia). reflexivity.
  - rewrite spack_uint_bad by (unfold in_range; change (256 ^ Z.of_nat 2) with 65536; lia). cbn [bind]. discriminate.
Qed.

Lemma Serializer_pack_ok S n p v (w : res bytes) :
  ser_find S n = Ok p -> pack_sim (r_pack R p [v]) w -> pack_sim (Serializer_pack R S (VStr n) v) w.
Proof.
  intros Hf Hp. unfold Serializer_pack. cbn [ser_getitem]. rewrite Hf. cbn [bind].
  destruct (r_pack R p [v]) as [r|e]; cbn [bind]; exact Hp.
Qed.

Lemma NodePacker_pack_ok p a k :
  (pack_sim (r_ser_pack R (VStr n_ip_address) (VAddr a)) (addr_pack true a)) ->
  (pack_sim (r_ser_pack R (VStr n_varlenH) (VBytes k)) (varlen_pack 2 1 k)) ->
  key_ok k = true ->
  pack_sim (NodePacker_pack R p [VNode a k]) (pack key_ok FNode (VNode a k)).
Proof.
  intros Ha Hk Hkey. unfold NodePacker_pack. cbn [py_node_address py_node_key_bin bind pack]. fold n_ip_address n_varlenH.
  unfold pack_sim in Ha, Hk. rewrite Hkey.
  destruct (r_ser_pack R (VStr n_ip_address) (VAddr a)) as [r|e]; destruct (addr_pack true a) as [x|e2]; cbn [bind]; try contradiction; auto.
  subst r. destruct (r_ser_pack R (VStr n_varlenH) (VBytes k)) as [r|e]; destruct (varlen_pack 2 1 k) as [y|e2]; cbn [bind]; try contradiction; auto.
  subst r. reflexivity.
Qed.

(* ---- Serializer.pack_serializable: the loop over to_pack_list() against pack_msg ---- *)
Lemma py_slice_tuple_tail x l : py_slice (VTuple (x :: l)) (Some (VInt 1)) None = Ok (VTuple l).
Proof.
  unfold py_slice. cbn [opt_int as_int bind]. f_equal. f_equal. change 1 with (Z.of_nat 1). rewrite lslice_from. reflexivity.
Qed.

Lemma Serializer_pack_serializable_ok S fs m vs ents :
  inst_rel S fs m vs ents ->
  (forall e f v ent, In f (msg_fields m) -> entry_rel S e f v ent ->
     exists n p args, ent = VTuple (VStr n :: args) /\ ser_find S n = Ok p /\
                      (val_ok key_ok f v = true -> pack_sim (r_pack R p args) (pack key_ok f v))) ->
  msg_ok key_ok m vs = true ->
  pack_sim (Serializer_pack_serializable R S (VMsg ents)) (pack_msg key_ok m vs).
Proof.
  intros Hi HR Hok. unfold Serializer_pack_serializable. cbv zeta. cbn [py_to_pack_list bind py_iter].
  match goal with |- context [py_for _ ?b _] => set (body := b) end.
  assert (Hloop : forall fs m vs ents, inst_rel S fs m vs ents ->
            (forall e f v ent, In f (msg_fields m) -> entry_rel S e f v ent ->
               exists n p args, ent = VTuple (VStr n :: args) /\ ser_find S n = Ok p /\
                                (val_ok key_ok f v = true -> pack_sim (r_pack R p args) (pack key_ok f v))) ->
            msg_ok key_ok m vs = true -> forall acc,
            match py_for ents body (VBytes acc), pack_msg key_ok m vs with
            | Ok r, Ok b => r = VBytes (acc ++ b)
            | Raise ex, Raise _ => ex <> OutOfFuel
            | _, _ => False
            end).
  { clear. induction 1 as [|e f fs m v vs ent ents He Hi IH]; intros HR Hok acc.
    - cbn [py_for pack_msg]. rewrite app_nil_r. reflexivity.
    - rewrite msg_ok_cons in Hok. apply andb_true_iff in Hok as [Hv Hvs]. rewrite pack_msg_cons. cbn [py_for].
      destruct (HR e f v ent (or_introl eq_refl) He) as (n & p & args & -> & Hp & Hpk). specialize (Hpk Hv).
      unfold body at 1. rewrite pk_index_tuple0. cbn [bind ser_getitem]. rewrite Hp. cbn [bind]. rewrite py_slice_tuple_tail. cbn [bind py_iter].
      unfold pack_sim in Hpk.
      destruct (r_pack R p args) as [r|ex]; destruct (pack key_ok f v) as [a|e2]; cbn [bind py_try]; try contradiction; auto.
      + subst r. cbn [py_iadd py_add as_int bind py_try].
        specialize (IH (fun e' f' v' ent' Hin He' => HR e' f' v' ent' (or_intror Hin) He') Hvs (acc ++ a)).
        destruct (py_for ents body _) as [r|ex]; destruct (pack_msg key_ok m vs) as [b|e2]; cbn [bind]; try contradiction; auto.
        subst r. first [rewrite <- app_assoc; reflexivity | rewrite app_assoc; reflexivity | reflexivity].
      + unfold catchable. destruct (exn_eqb ex OutOfFuel) eqn:Eo; [apply exn_eqb_eq in Eo; contradiction|]. cbn [negb bind]. discriminate. }
  specialize (Hloop fs m vs ents Hi HR Hok []).
  destruct (py_for ents body _) as [r|ex]; destruct (pack_msg key_ok m vs) as [b|e2]; cbn [bind]; try contradiction; auto.
Qed.
End PackClasses.

(* ================================================================== closing the recursion: pack *)
Ltac dispatch_pack_to H := unfold dispatch_pack; rewrite H; cbn [String.eqb Ascii.eqb Bool.eqb].

Section ClosePack.
Variable key_ok : bytes -> bool.
Variable S : ser.
Hypothesis Hwf : ser_wf S = true.

Definition Ppack (f : fmt) : Prop :=
  forall n p v args, pack_rel S p f v args -> val_ok key_ok f v = true -> (need f <= n)%nat ->
  pack_sim (r_pack (run key_ok S n) p args) (pack key_ok f v).
Definition Pmpack (m : msgfmt) : Prop :=
  (forall f, In f (msg_fields m) -> Ppack f) /\
  forall n fs vs ents, inst_rel S fs m vs ents -> msg_ok key_ok m vs = true -> (Datatypes.S (need_msg m) <= n)%nat ->
  pack_sim (r_pack_serializable (run key_ok S n) (VMsg ents)) (pack_msg key_ok m vs).

Lemma plain_only_pack p f v args : pack_rel S p f v args ->
  match f with FListOf _ _ | FNested _ => True | _ => fmt_of_packer p = Some f /\ args = pargs f v end.
Proof. intros H. destruct H; [destruct f; auto|exact I|exact I]. Qed.

Ltac simple_pack :=
  let n := fresh "n" in let p := fresh "p" in let v := fresh "v" in let args := fresh "args" in
  let Hp := fresh "Hp" in let Hok := fresh "Hok" in let Hn := fresh "Hn" in
  intros n p v args Hp Hok Hn; destruct n as [|n]; [cbn [need] in Hn; lia|];
  pose proof (plain_only_pack _ _ _ _ Hp) as Hf; cbn beta iota in Hf; destruct Hf as [Hf ->];
  pose proof (fmt_inv _ _ Hf) as Hc; cbn beta iota in Hc; cbn [run r_pack].

(* the entry of a pack list: name, packer, arguments *)
Lemma entry_packer e f v ent :
  entry_rel S e f v ent ->
  exists n p args, ent = VTuple (VStr n :: args) /\ ser_find S n = Ok p /\ pack_rel S p f v args.
Proof.
  destruct (ser_wf_inv S Hwf) as ((pp & Hpp & Npp) & (lw & pl & q & Hlw & Hpl & Cpl & Lpl & Spl & Nq) & _ & _).
  intros He. destruct He as [n p f v Hn Hf Hpk|c m vs ents Hi|c m lw' vss entss Hlw' His].
  - exists n, p, (pargs f v). split; [reflexivity|]. split; [exact Hn|]. apply pr_plain; assumption.
  - exists n_payload, pp, [VMsg ents]. split; [reflexivity|]. split; [exact Hpp|]. eapply pr_nested; eassumption.
  - assert (lw' = lw) by congruence. subst lw'.
    exists n_payload_list, pl, [VList entss]. split; [reflexivity|]. split; [exact Hpl|]. eapply pr_list; eassumption.
Qed.

Lemma pack_refines_all : (forall f, Ppack f) /\ (forall m, Pmpack m).
Proof.
  apply fmt_msg_ind.
  - intros ps. simple_pack. dispatch_pack_to Hc. apply DefaultStruct_pack_ok; assumption.
  - simple_pack. dispatch_pack_to Hc. apply Bits_pack_ok; assumption.
  - simple_pack. dispatch_pack_to Hc. apply Raw_pack_ok; assumption.
  - intros lw base utf8. simple_pack. destruct Hc as (Hc & _). destruct utf8; dispatch_pack_to Hc.
    + apply VarLenUtf8_pack_ok; assumption.
    + apply VarLen_pack_ok; assumption.
  - simple_pack. dispatch_pack_to Hc. apply IPv4_pack_ok; assumption.
  - intros ip_only. simple_pack. destruct Hc as (Hc & _). dispatch_pack_to Hc. apply Address_pack_ok; assumption.
  - intros w. simple_pack. destruct Hc as (Hc & _). dispatch_pack_to Hc. apply Flags_pack_ok; assumption.
  - intros e lw. simple_pack. destruct Hc as (Hc & _). dispatch_pack_to Hc. apply DefaultArray_pack_ok; assumption.
  - (* node *) simple_pack. dispatch_pack_to Hc. cbn [need] in Hn. destruct n as [|[|n]]; try lia.
    cbn [val_ok] in Hok. destruct v; try discriminate Hok. cbn [pargs].
    apply andb_true_iff in Hok as [Hok Hlen]. apply andb_true_iff in Hok as [Hok Hkb]. apply andb_true_iff in Hok as [Ha Hk].
    destruct (ser_wf_inv S Hwf) as (_ & _ & (pa & Hpa & Fpa) & (pv & Hpv & Fpv)).
    apply NodePacker_pack_ok; [| |exact Hk]; cbn [run r_ser_pack].
    + apply (Serializer_pack_ok _ S n_ip_address pa (VAddr a) _ Hpa). cbn [run r_pack].
      destruct (fmt_inv _ _ Fpa) as (Ca & _). dispatch_pack_to Ca.
      exact (Address_pack_ok _ key_ok pa true (VAddr a) Fpa Ha).
    + apply (Serializer_pack_ok _ S n_varlenH pv (VBytes key) _ Hpv). cbn [run r_pack].
      destruct (fmt_inv _ _ Fpv) as (Cv & _). dispatch_pack_to Cv.
      assert (Hv : val_ok key_ok (FVarLen 2 1 false) (VBytes key) = true).
      { cbn [val_ok]. rewrite Hkb. rewrite Nat.mod_1_r, Nat.div_1_r. change (256 ^ Z.of_nat 2) with 65536. cbn [Nat.ltb Nat.leb Nat.eqb andb]. exact Hlen. }
      exact (VarLen_pack_ok _ key_ok pv 2 1 (VBytes key) Fpv Hv).
  - (* listof *) intros lw f' IH n p v args Hp Hok Hn. cbn [need] in Hn. destruct n as [|n]; [lia|].
    cbn [val_ok] in Hok. destruct v as [| | | | | | |vs| |]; try discriminate Hok. apply andb_true_iff in Hok as [_ Hall].
    rewrite forallb_forall in Hall. cbn [run r_pack].
    inversion Hp; subst.
    + (* a plain list *)
      match goal with Hf : fmt_of_packer p = Some _, Hk : packable _ = true |- _ =>
        destruct (fmt_inv _ _ Hf) as (Hc & HL & q & Hs & Hfq); cbn [packable] in Hk; apply andb_true_iff in Hk as [Hk1 Hk2] end.
      cbn [pargs]. dispatch_pack_to Hc. apply (ListOf_pack_ok _ key_ok p q lw f' vs vs HL Hs).
      assert (Hone : forall x, pargs f' x = [x]) by (intros x; destruct f' as [[|? [|? ?]]| | | | | | | | | |]; try discriminate Hk2; destruct x; reflexivity).
      clear - IH Hall Hfq Hk1 Hone Hn. induction vs as [|x vs IHvs]; constructor.
      * rewrite <- (Hone x). apply IH; [apply pr_plain; assumption|apply Hall; left; reflexivity|lia].
      * apply IHvs. intros y Hy. apply Hall. right. exact Hy.
    + (* payload-list *)
      match goal with Hc : pk_cls p = _, HL : len_attr p _ _ _ = Some lw, Hs : subs_get _ _ = Some ?q0, Nq : is_nested ?q0 = true,
                           His : insts_rel S ?fs0 ?m0 vs ?entss0 |- _ =>
        dispatch_pack_to Hc; apply (ListOf_pack_ok _ key_ok p q0 lw (FNested m0) entss0 vs HL Hs);
        assert (G : forall fs1 m1 vss1 entss1, insts_rel S fs1 m1 vss1 entss1 -> Ppack (FNested m1) ->
                      (forall x, In x vss1 -> val_ok key_ok (FNested m1) x = true) -> (need (FNested m1) <= n)%nat ->
                      Forall2 (fun x v => pack_sim (r_pack (run key_ok S n) q0 [x]) (pack key_ok (FNested m1) v)) entss1 vss1);
        [|apply (G _ _ _ _ His IH Hall); lia]
      end.
      match goal with Nq : is_nested _ = true |- _ => clear - Nq end. induction 1 as [|fs1 m1 vs1 ents1 vss1 entss1 Hi _ IHs]; intros IH1 Hall1 Hn1; constructor.
      * apply IH1; [eapply pr_nested; eassumption|apply Hall1; left; reflexivity|exact Hn1].
      * apply IHs; [exact IH1|intros y Hy; apply Hall1; right; exact Hy|exact Hn1].
  - (* nested *) intros m [_ IHm] n p v args Hp Hok Hn. cbn [need] in Hn. destruct n as [|n]; [lia|].
    inversion Hp; subst.
    + match goal with Hf : fmt_of_packer p = Some _ |- _ => destruct (fmt_inv _ _ Hf) end.
    + match goal with Hnp : is_nested p = true, Hi : inst_rel S ?fs m ?vs ?ents |- _ =>
        cbn [run r_pack]; unfold is_nested in Hnp; apply String.eqb_eq in Hnp; dispatch_pack_to Hnp;
        apply NestedPayload_pack_ok; rewrite val_ok_nested in Hok; apply andb_true_iff in Hok as [Hok _];
        apply (IHm n fs vs ents Hi Hok); lia
      end.
  - (* MNil *) split; [intros f []|]. intros n fs vs ents Hi Hok Hn. destruct n as [|n]; [lia|]. cbn [run r_pack_serializable].
    apply (Serializer_pack_serializable_ok _ key_ok S fs MNil vs ents Hi); [|exact Hok]. intros e f v ent [].
  - (* MCons *) intros f IHf m [IHfields IHm]. split.
    + intros f0 [<-|Hin]; [exact IHf|apply IHfields; exact Hin].
    + intros n fs vs ents Hi Hok Hn. destruct n as [|n]; [lia|]. cbn [run r_pack_serializable].
      apply (Serializer_pack_serializable_ok _ key_ok S fs (MCons f m) vs ents Hi); [|exact Hok].
      intros e f0 v ent Hin He. destruct (entry_packer e f0 v ent He) as (nm & p & args & -> & Hp & Hrel).
      exists nm, p, args. split; [reflexivity|]. split; [exact Hp|]. intros Hv.
      assert (Ppack f0) as P0 by (destruct Hin as [<-|Hin]; [exact IHf|apply IHfields; exact Hin]).
      apply P0; [exact Hrel|exact Hv|]. pose proof (need_field f0 (MCons f m) Hin). lia.
Qed.
End ClosePack.

(* ================================================================== the theorems of C02 / C03 about the translated code *)
From IPV8V Require proofs.P03_decode.

Section Transfer.
Variable key_ok : bytes -> bool.
Variable S : ser.
Hypothesis Hwf : ser_wf S = true.

(* decode(encode v) = v with the exact end offset, at any offset, between any bytes: translated pack, translated unpack *)
Lemma gen_roundtrip_l f n p cargs v args bs (pre suf : bytes) ul :
  pack_rel S p f v args -> packer_fmt S p cargs f -> wf_fmt f = true -> val_ok key_ok f v = true -> (need f <= n)%nat ->
  (greedy f = false \/ suf = []) -> bytes_ok (pre ++ bs ++ suf) ->
  r_pack (run key_ok S n) p args = Ok (VBytes bs) ->
  r_unpack (run key_ok S n) p (VBytes (pre ++ bs ++ suf)) (VInt (Z.of_nat (length pre))) (VList ul) cargs
  = Ok (VList (ul ++ entries f v), VInt (Z.of_nat (length pre + length bs))).
Proof.
  intros Hpr Hpf Hw Hok Hn Hg Hb Hp.
  pose proof (proj1 (pack_refines_all key_ok S Hwf) f n p v args Hpr Hok Hn) as P. rewrite Hp in P. unfold pack_sim in P.
  destruct (pack key_ok f v) as [b|e] eqn:E; [|contradiction]. injection P as <-.
  pose proof (pack_unpack_fmt_l key_ok f v bs pre suf Hw Hok E Hg) as U.
  pose proof (proj1 (refines_all key_ok S Hwf) f n p cargs (pre ++ bs ++ suf) (length pre) ul Hpf Hb Hn) as Q.
  rewrite U in Q. unfold unpack_sim in Q. destruct (r_unpack _ _ _ _ _ _) as [[l o]|e]; [|contradiction]. destruct Q as [-> ->]. reflexivity.
Qed.

(* an accepted translated decode ends inside the buffer, not before its start *)
Lemma gen_unpack_bounds_l f n p cargs data off ul l o :
  packer_fmt S p cargs f -> bytes_ok data -> (need f <= n)%nat -> (off <= length data)%nat ->
  r_unpack (run key_ok S n) p (VBytes data) (VInt (Z.of_nat off)) (VList ul) cargs = Ok (l, o) ->
  exists o', o = VInt (Z.of_nat o') /\ (off <= o' <= length data)%nat.
Proof.
  intros Hpf Hd Hn Ho H. pose proof (proj1 (refines_all key_ok S Hwf) f n p cargs data off ul Hpf Hd Hn) as Q. rewrite H in Q.
  unfold unpack_sim in Q. destruct (unpack key_ok f data off) as [[v o']|e] eqn:E; [|contradiction]. destruct Q as [_ ->].
  exists o'. split; [reflexivity|]. exact (P03_decode.unpack_bounds_l key_ok f data off v o' Ho E).
Qed.

(* a message accepted with consume_all ended exactly at the end of the datagram, and was decoded as the model says *)
Lemma gen_unpack_all_exact_l n c m data off r :
  fents_msg S (cls_formats c) m -> bytes_ok data -> (need_msg m + 2 <= n)%nat -> (off <= length data)%nat ->
  Serializer_unpack_serializable_list (run key_ok S n) S [c] (VBytes data) (VInt (Z.of_nat off)) (VBool true) = Ok r ->
  exists vs, unpack_msg key_ok m data off = Ok (vs, length data) /\ r = VList [VMsg (flat_msg m vs)].
Proof.
  intros Hc Hd Hn Ho H. pose proof (unpack_all_refines key_ok S Hwf n c m data off Hc Hd Hn) as Q. rewrite H in Q. unfold val_sim in Q.
  destruct (unpack_all key_ok m data off) as [vs|e] eqn:E; cbn [bind] in Q; [|contradiction]. subst r.
  exists vs. split; [|reflexivity]. exact (P03_decode.unpack_all_exact_l key_ok m data off vs Ho E).
Qed.

(* a length-prefixed field accepted by the translated VarLen really has its declared length *)
Lemma gen_varlen_declared_l lw base n p cargs data off ul l o :
  packer_fmt S p cargs (FVarLen lw base false) -> bytes_ok data -> (1 <= n)%nat ->
  r_unpack (run key_ok S n) p (VBytes data) (VInt (Z.of_nat off)) (VList ul) cargs = Ok (l, o) ->
  exists b len, l = VList (ul ++ [VBytes b]) /\ take lw off data = Ok len /\
                length b = (Z.to_nat (be_decode len) * base)%nat /\ o = VInt (Z.of_nat (off + lw + length b)) /\
                (off + lw + length b <= length data)%nat.
Proof.
  intros Hpf Hd Hn H. pose proof (proj1 (refines_all key_ok S Hwf) _ n p cargs data off ul Hpf Hd Hn) as Q. rewrite H in Q.
  unfold unpack_sim in Q. destruct (unpack key_ok (FVarLen lw base false) data off) as [[v o']|e] eqn:E; [|contradiction].
  destruct Q as [-> ->].
  assert (exists b, v = VBytes b) as [b ->].
  { cbn [unpack] in E. destruct (varlen_unpack lw base data off) as [[b o2]|]; cbn [bind] in E; [|discriminate]. injection E as <- _. eauto. }
  destruct (P03_decode.varlen_declared_l key_ok lw base data off b o' E) as (len & Hl & Hlen & -> & Hle).
  exists b, len. cbn [entries flat_val]. repeat split; auto.
Qed.
End Transfer.
