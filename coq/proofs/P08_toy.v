(* C08: the term-algebra instance satisfies every hypothesis the proofs use (so they are jointly satisfiable),
   with a concrete derivability relation for the secrecy statement; and a concrete two-hop run. *)
From Coq Require Import ZArith List Bool Lia.
From IPV8V Require Import lib.PyErr model.M08_handshake model.M08_toy spec.S08_knowledge proofs.P08_base proofs.P08_origin
  proofs.P08_relay proofs.P08_honest.
Import ListNotations.
Open Scope Z_scope.

Lemma tpk_eqb_eq a b : tpk_eqb a b = true -> a = b.
Proof. destruct a, b; cbn; intros H; try discriminate; apply Z.eqb_eq in H; congruence. Qed.
Lemma tsec_eqb_eq a b : tsec_eqb a b = true -> a = b.
Proof.
  destruct a, b; cbn; intros H; try discriminate; apply andb_true_iff in H; destruct H as [H1 H2];
    apply Z.eqb_eq in H1; apply Z.eqb_eq in H2; congruence.
Qed.
Lemma tpk_eqb_refl a : tpk_eqb a a = true.
Proof. destruct a; cbn; apply Z.eqb_refl. Qed.
Lemma tsec_eqb_refl a : tsec_eqb a a = true.
Proof. destruct a; cbn; rewrite !Z.eqb_refl; reflexivity. Qed.

Lemma toy_tag_eqb_true : forall a b, tag_eqb Toy a b = true -> a = b.
Proof.
  cbn. intros a b. destruct a, b; cbn; intros H; try discriminate.
  - apply andb_true_iff in H. destruct H as [H1 H2]. apply tsec_eqb_eq in H1. apply tpk_eqb_eq in H2. congruence.
  - apply Z.eqb_eq in H. congruence.
Qed.
Lemma toy_tag_eqb_refl : forall a, tag_eqb Toy a a = true.
Proof. cbn. intros a. destruct a; cbn; [rewrite tsec_eqb_refl, tpk_eqb_refl; reflexivity|apply Z.eqb_refl]. Qed.
Lemma toy_mac_inj : forall s p s' p', mac Toy s p = mac Toy s' p' -> s = s' /\ p = p'.
Proof. cbn. intros s p s' p' H. inversion H. auto. Qed.
Lemma toy_dh_comm : forall a b, dh Toy a (pub Toy b) = dh Toy b (pub Toy a).
Proof. cbn. intros a b. rewrite Z.min_comm, Z.max_comm. reflexivity. Qed.
Lemma toy_dh_inj : forall a a' P s, dh Toy a P = Some s -> dh Toy a' P = Some s -> a = a'.
Proof.
  cbn. intros a a' P s. destruct P as [b|j|j]; cbn; intros H1 H2; try discriminate.
  - rewrite <- H2 in H1. inversion H1. lia.
  - rewrite <- H2 in H1. inversion H1. reflexivity.
Qed.
Lemma toy_pub_inj : forall a b, pub Toy a = pub Toy b -> a = b.
Proof. cbn. intros a b H. inversion H. reflexivity. Qed.
Lemma toy_cdec_cenc : forall k l, cdec Toy k (cenc_of Toy k l) = Ok l.
Proof. cbn. intros [s1 s2] l. cbn. rewrite !tsec_eqb_refl. reflexivity. Qed.

Lemma toy_dh_hidden : forall (A : list Z) a P s, dh Toy a P = Some s -> tcan_sec A s ->
  In a A \/ exists b, P = pub Toy b /\ In b A.
Proof.
  cbn. intros A a P s H CS. destruct CS as [a' p' s I H'].
  destruct P as [b|j|j]; cbn in H; try discriminate; inversion H; subst s; clear H.
  - destruct p' as [b'|j'|j']; cbn in H'; try discriminate. inversion H' as [[E1 E2]].
    assert (a' = a \/ a' = b) as [->| ->] by lia; [left; auto|right; exists b; auto].
  - destruct p' as [b'|j'|j']; cbn in H'; try discriminate. inversion H'; subst. left; auto.
Qed.
Lemma toy_kdf_hidden : forall (A : list Z) s1 s2, tcan_key A (kdf Toy s1 s2) -> tcan_sec A s1 /\ tcan_sec A s2.
Proof. cbn. intros A s1 s2 H. inversion H; subst. auto. Qed.

Lemma toy_messages_as_sent :
  acts (step tO0 (EvNewCircuit 7 2 None [mkPeer 1 11] 6 (orc 100 500 [] 0 0))) = [Send 11 (@MCreate Toy 7 500 0 (TPub 100))]
  /\ acts (handle (blank 1) 10 (@MCreate Toy 7 500 0 (TPub 100)) (orc 101 0 [mkPeer 2 12; mkPeer 2 12] 0 0)) = [Send 10 created1]
  /\ acts (handle tO1 11 created1 (orc 102 501 [] 0 0)) = [Send 11 (@MExtend Toy 7 501 2 (TPub 102) 0)]
  /\ acts (handle tA1 10 (@MExtend Toy 7 501 2 (TPub 102) 0) (orc 0 0 [] 8 600)) = [Send 12 (@MCreate Toy 8 600 1 (TPub 102))]
  /\ acts (handle (blank 2) 11 (@MCreate Toy 8 600 1 (TPub 102)) (orc 103 0 [] 0 0)) = [Send 11 created2]
  /\ acts (handle tA2 12 created2 (orc 0 0 [] 0 0)) = [RmExit 7; Send 10 extended2].
Proof. vm_compute. auto 10. Qed.

Lemma toy_built_two : built Toy 7 tO3 [(tA3, 7); (tB1, 8)].
Proof.
  change [(tA3, 7); (tB1, 8)] with ([] ++ [(tA3, 7); (tB1, 8)]).
  eapply (built_more Toy 7 tO2 [] tA1 7 (blank 2) tO3 tA3 tB1 8).
  - eapply (built_first Toy 7 tO1 (blank 1) tO2 tA1).
    + vm_compute. reflexivity.
    + vm_compute. reflexivity.
    + exists (mkHop (C := Toy) (mkPeer 1 11) None (Some 100)), 100, 500, 10, 11,
        (orc 101 0 [mkPeer 2 12; mkPeer 2 12] 0 0), (orc 102 501 [] 0 0),
        (TPub 101), (TMac (TDH 100 101) (TPub 101)), (TCEnc (TKdf (TDH 100 101) (TDH 1 100)) [2; 2]).
      split; [|split; [|split; [|split]]]; try (vm_compute; reflexivity).
      vm_compute. do 2 eexists. split; [reflexivity|]. auto.
  - vm_compute. reflexivity.
  - exists (mkHop (C := Toy) (mkPeer 2 0) None (Some 102)), 102, 501, 0, 10, 11, 12, 11,
      (orc 0 0 [] 8 600), (orc 103 0 [] 0 0), (orc 0 0 [] 0 0), (orc 104 502 [] 0 0), tA2, 12, 600, (TPub 102),
      (TPub 103), (TMac (TDH 102 103) (TPub 103)), (TCEnc (TKdf (TDH 102 103) (TDH 2 102)) []), 10, 501,
      (TPub 103), (TMac (TDH 102 103) (TPub 103)), (TCEnc (TKdf (TDH 102 103) (TDH 2 102)) []).
    split; [|split; [|split; [|split; [|split]]]]; try (vm_compute; reflexivity).
    vm_compute. do 2 eexists. split; [reflexivity|]. auto.
Qed.

(* the same run, seen through the history function: READY with both selected peers, in order *)
Lemma toy_final_state :
  hops_of tO3 7 = Some [mkHop (C := Toy) (mkPeer 1 11) (Some (TKdf (TDH 100 101) (TDH 1 100))) (Some 100);
                        mkHop (C := Toy) (mkPeer 2 0) (Some (TKdf (TDH 102 103) (TDH 2 102))) (Some 102)]
  /\ node_keys tA3 7 = Some (TKdf (TDH 100 101) (TDH 1 100))
  /\ node_keys tB1 8 = Some (TKdf (TDH 102 103) (TDH 2 102))
  /\ n_retry tO3 = [].
Proof. vm_compute. auto. Qed.

Lemma toy_bad_answers :
  handle tO1 11 bad_ident (orc 0 0 [] 0 0) = (tO1, [], None)
  /\ handle tO1 11 bad_circuit (orc 0 0 [] 0 0) = (tO1, [], None)
  /\ handle tO1 11 bad_auth (orc 0 0 [] 0 0) = (tO1, [], Some CryptoError)
  /\ handle tO1 11 bad_key (orc 0 0 [] 0 0) = (tO1, [], Some CryptoError)
  /\ handle tO1 11 bad_point (orc 0 0 [] 0 0) = (tO1, [], None)
  /\ same_hops tO3 (st (handle tO3 11 extended2 (orc 105 503 [] 0 0)))
  /\ same_hops tO3 (st (handle tO3 11 created1 (orc 105 503 [] 0 0))).
Proof.
  split; [vm_compute; reflexivity|]. split; [vm_compute; reflexivity|]. split; [vm_compute; reflexivity|].
  split; [vm_compute; reflexivity|]. split; [vm_compute; reflexivity|].
  split; intro k; vm_compute; reflexivity.
Qed.

(* The MAC is keyed with the ephemeral-ephemeral secret only, so it does not show that the answerer holds the
   selected peer's private key: the originator accepts the substituted answer - with keys that nobody but
   the originator can compute unless they hold secret 1 (the selected peer's) or 100 (the originator's). *)
Lemma toy_subst_eph_accepted :
  hops_of (st (handle tO1 11 subst_eph (orc 102 501 [] 0 0))) 7
  = Some [mkHop (C := Toy) (mkPeer 1 11) (Some (TKdf (TDH 66 100) (TDH 1 100))) (Some 100)]
  /\ ~ tcan_key [66; 2; 3] (TKdf (TDH 66 100) (TDH 1 100)).
Proof.
  split; [vm_compute; reflexivity|].
  intros H. apply (toy_kdf_hidden [66; 2; 3]) in H. destruct H as [_ H].
  destruct (toy_dh_hidden [66; 2; 3] 1 (TPub 100) (TDH 1 100) eq_refl H) as [I|(b & E & I)].
  - cbn in I. lia.
  - inversion E; subst. cbn in I. lia.
Qed.
