(* Obligations on the tables regenerated from the source (gen/G11_api.v, gen/G11_unload.v), and the
   concrete states used by the non-vacuity examples of props/C11.v. *)
From Coq Require Import ZArith List Bool String.
From IPV8V Require Import lib.PyErr lib.Bytes model.M11_listeners model.M11_tasks model.M11_lifecycle model.M11_service
  gen.G11_api gen.G11_unload proofs.P11_listeners proofs.P11_tasks proofs.P11_lifecycle proofs.P11_service.
Import ListNotations.
Open Scope Z_scope.

(* TunnelEndpoint and StatisticsEndpoint forward the whole listener API to the endpoint they wrap *)
Lemma shipped_wrappers_forward_l : forwards_all tunnel_api = true /\ forwards_all stats_api = true.
Proof. vm_compute. split; reflexivity. Qed.

Definition shipped_wrapper (w : wrapper) : Prop :=
  w = WPlain \/ w = WTunnel tunnel_api \/ w = WStats stats_api.

Lemma shipped_wrapper_forwards w : shipped_wrapper w -> forwards_all (wapi w) = true.
Proof.
  destruct shipped_wrappers_forward_l as [A B].
  intros [ -> | [ -> | -> ] ]; simpl; [reflexivity|exact A|exact B].
Qed.

Lemma removed_listener_silent_shipped_l : forall e l ops o,
  shipped_wrapper (wrap e) ->
  Forall (fun x => mentions l x = false) ops ->
  ~ In l (called (run (fst (step e (RemL l))) ops) o).
Proof. intros e l ops o H. apply removed_listener_silent_l. apply shipped_wrapper_forwards. exact H. Qed.

(* the unload() of every shipped overlay class is complete *)
Definition row_complete (r : string * cls * list ustep) : bool := complete_unload (snd (fst r)) (snd r).

Lemma shipped_unloads_complete_l : forallb row_complete unload_table = true.
Proof. vm_compute. reflexivity. Qed.

Lemma shipped_unloaded_is_silent_l : forall nm c steps n l later,
  In (nm, c, steps) unload_table -> loaded c n -> Forall (fun i => item_routed i = true) (l ++ later) ->
  steps_of l = steps ->
  let n1 := fst (irun c n l) in
  Forall silent_out (snd (irun c n1 later))
  /\ Forall (fun s => s_open s = false) (n_socks (fst (irun c n1 later)))
  /\ unloaded (fst (irun c n1 later)).
Proof.
  intros nm c steps n l later Hin L Hr Hs.
  apply unloaded_is_silent_l; [assumption|assumption|].
  pose proof shipped_unloads_complete_l as H. rewrite forallb_forall in H.
  specialize (H _ Hin). unfold row_complete in H. simpl in H. rewrite Hs. exact H.
Qed.

(* the public coroutines whose sending steps are NOT all tasks of the overlay's manager: exactly these three of
   HiddenTunnelCommunity (they wait for circuit.ready, which unload() resolves to None by closing the circuit;
   do_peer_discovery is only ever run as a periodic task).  Everything else - in particular every public
   coroutine of DHTCommunity and DHTDiscoveryCommunity - sends only through @task steps. *)
Definition unrouted_api : list (string * string) :=
  map (fun r => fst r) (filter (fun r => negb (snd r)) public_coroutines).

Lemma shipped_api_unrouted_l :
  unrouted_api = [("HiddenTunnelCommunity", "create_introduction_point"); ("HiddenTunnelCommunity", "create_rendezvous_point");
                  ("HiddenTunnelCommunity", "do_peer_discovery")]%string.
Proof. vm_compute. reflexivity. Qed.

Lemma shipped_api_routed_l : forall c m r,
  In (c, m, r) public_coroutines -> c <> "HiddenTunnelCommunity"%string -> r = true.
Proof.
  intros c m r Hin Hc. destruct r; [reflexivity|]. exfalso.
  assert (H : In (c, m) unrouted_api).
  { unfold unrouted_api. apply in_map_iff. exists (c, m, false). split; [reflexivity|].
    apply filter_In. split; [exact Hin|reflexivity]. }
  rewrite shipped_api_unrouted_l in H. simpl in H.
  destruct H as [H|[H|[H|[]]]]; inversion H; subst; apply Hc; reflexivity.
Qed.

(* no overlay module starts a task that nobody owns: every ensure_future / create_task is registered with the task
   manager or plainly awaited / returned where it is made (so cancelling the overlay's tasks reaches it) *)
Lemma shipped_futures_owned_l : forallb (fun r => snd r) future_sites = true.
Proof. vm_compute. reflexivity. Qed.

(* every class ipv8_service can load has a row *)
Lemma shipped_classes_listed_l :
  map (fun r => fst (fst r)) unload_table =
  ["DiscoveryCommunity"; "DHTCommunity"; "DHTDiscoveryCommunity"; "TunnelCommunity"; "HiddenTunnelCommunity";
   "PexCommunity"; "AttestationCommunity"; "IdentityCommunity"]%string.
Proof. vm_compute. reflexivity. Qed.

(* IPv8.unload_overlay as it is in the source rebuilds both lists and calls unload() *)
Lemma shipped_service_unload_complete_l : complete_service_unload service_unload_steps = true.
Proof. vm_compute. reflexivity. Qed.

Lemma shipped_unloaded_overlay_not_stepped_l : forall s x ops,
  Forall (fun o => adds x o = false) ops ->
  let s1 := fst (sop_apply service_unload_steps s (SUnloadOverlay x)) in
  Forall (fun e => snd e <> x) (snd (srun service_unload_steps s1 ops))
  /\ (forall e, In e (v_strategies (fst (srun service_unload_steps s1 ops))) -> snd e <> x)
  /\ ~ In x (v_overlays s1).
Proof.
  intros s x ops Ha. cbv zeta.
  destruct (unloaded_overlay_not_stepped_l service_unload_steps s x ops shipped_service_unload_complete_l Ha) as [A B].
  split; [exact A|split; [exact B|]]. apply unloaded_overlay_unlisted_l. exact shipped_service_unload_complete_l.
Qed.

(* ------------------------------------------------------------------ concrete states for the examples *)
Definition pT : bytes := [0; 2] ++ repeat 129 20.          (* a 22-byte prefix *)
Definition tunnel_cls : cls := mkCls true true true.
(* a TunnelCommunity (listener 1) behind its crypto endpoint (listener 2, registered for the prefix),
   with two tasks in its manager, a request cache and one exit socket with open transports *)
Definition tunnel_ep : ep := run (init_ep WPlain) [AddP 2 pT].
Definition tn_own : tm := fst (trun fresh_tm [Register (Named 5) KCoro; Register (Named 6) KCoro; Tick]).
Definition tn_cache : tm := fst (trun fresh_tm [Register (Named 9) KCoro; Tick]).
Definition tn_sock : tm := fst (trun fresh_tm [Register CREATE_TRANSPORTS KCoro; Tick]).
Definition tunnel_node : node :=
  mkNode tunnel_ep 1 (Some 2) tn_own (Some tn_cache) [mkSock true tn_sock].
Definition fixed_tunnel_steps : list ustep :=
  [URemovals; UCacheShutdown; UBootstrappers; URemoveSelf; UShutdownTM; URemoveCrypto; UCloseSockets].
Definition old_tunnel_steps : list ustep :=
  [URemovals; UCacheShutdown; UBootstrappers; URemoveSelf; UShutdownTM].

Lemma tmok_trun ops : forall x, tmok x -> tmok (fst (trun x ops)).
Proof.
  induction ops as [|o r IH]; intros x H; simpl; [assumption|].
  pose proof (tmok_tstep x o H) as H1. destruct (tstep x o) as [x1 o1].
  pose proof (IH x1 H1) as H2. destruct (trun x1 r) as [x2 o2]. exact H2.
Qed.

Lemma tunnel_node_loaded_l : loaded tunnel_cls tunnel_node.
Proof.
  assert (A : tmok tn_own) by (apply tmok_trun, tmok_fresh).
  assert (B : tmok tn_cache) by (apply tmok_trun, tmok_fresh).
  assert (C : tmok tn_sock) by (apply tmok_trun, tmok_fresh).
  constructor.
  - constructor; simpl; try discriminate. reflexivity.
  - split; [exact A|split].
    + intros x Hx. unfold tunnel_node in Hx. cbn [n_cache] in Hx. injection Hx as <-. exact B.
    + unfold tunnel_node. cbn [n_socks]. constructor; [exact C|constructor].
Qed.
