(* C09, path level - the frame property of every function of the node model, up to recv_cell.

   `closedI s`: the node's bookkeeping does not link the id set I with anything outside it and cannot
   create entries for it any more (own circuits in I are closing, no retry / create cache and no deferred
   handler body names I).  Under closedI every event that is not a cell for an id of I leaves the
   I-entries alone and sends no cell for I; a cell for an id of I stamps only the entry it travels
   along, and what it makes the node send is either the relayed cell or the pong to its sender. *)
From Coq Require Import ZArith List Bool Lia ZifyBool.
From IPV8V Require Import gen.G09_rules model.M09_reclaim spec.S09_reclaim proofs.P09_alist
  proofs.P09_network_frame.
Import ListNotations.
Open Scope Z_scope.

Section NodeFrames.
Variable st : settings.
Variable I : Z -> bool.

Notation frame := (frame st I).
Notation harmless := (harmless I).

Record closedI (s : node) : Prop := mkClosed {
  k_rel : forall x r, I x = false -> aget x (relays s) = Some r -> I (r_next r) = false;
  k_creates : forall k cc, aget k (creates s) = Some cc -> I (cc_from cc) = false /\ I (cc_to cc) = false;
  k_retries : forall x rt, aget x (retries s) = Some rt -> I x = false;
  k_starts : forall d, In d (starts s) -> harmless d
}.

Lemma closed_frame (touch : Z -> Prop) s s' : closedI s -> frame touch s s' -> closedI s'.
Proof.
  intros [r k t d] F. constructor.
  - intros x r' Hi H. destruct (f_rel_out _ _ _ _ _ F _ _ Hi H) as [(r0 & H0 & N)|N]; [|exact N].
    rewrite N. eauto.
  - intros n cc H. destruct (f_creates _ _ _ _ _ F _ _ H) as [H0|H0]; eauto.
  - intros x rt H. destruct (I x) eqn:Hi; [|reflexivity].
    destruct (f_retries _ _ _ _ _ F _ _ Hi H) as (rt0 & H0). rewrite <- Hi. eauto.
  - intros d0 H. destruct (f_starts _ _ _ _ _ F _ H) as [H0|[H0 _]]; eauto.
Qed.

(* cells for I among the outputs *)
Definition no_I_cells (o : list out) : Prop :=
  forall d c e m, In (OCell d c e m) o -> I c = false.

Lemma no_I_nil : no_I_cells [].
Proof. intros d c e m []. Qed.

Lemma no_I_app o1 o2 : no_I_cells o1 -> no_I_cells o2 -> no_I_cells (o1 ++ o2).
Proof. intros H1 H2 d c e m H. apply in_app_or in H. destruct H; eauto. Qed.

(* ---------------------------------------------------------------- send_cell *)
Lemma send_cell_frame (touch : Z -> Prop) s dst cid mid ls :
  frame touch s (fst (fst (send_cell st s dst cid mid ls))).
Proof.
  unfold send_cell. destruct (take ls) as [n ls'].
  destruct (aget cid (circuits s)) as [c|] eqn:Ec; simpl.
  - apply frame_set_circuit. intros _. exists c. split; [exact Ec | simpl; repeat split; auto].
  - destruct (aget cid (relays s)) as [r|] eqn:Er; simpl; [|apply frame_refl].
    apply frame_set_relay; intros _.
    + exists r. simpl. auto.
    + left. exists r. simpl. auto.
Qed.

Lemma send_cell_out s dst cid mid ls :
  exists early, snd (fst (send_cell st s dst cid mid ls)) = [OCell dst cid early mid].
Proof.
  unfold send_cell. destruct (take ls) as [n ls'].
  destruct (aget cid (circuits s)) as [c|]; simpl; [eauto|].
  destruct (aget cid (relays s)) as [r|]; simpl; eauto.
Qed.

Lemma send_cell_no_I s dst cid mid ls :
  I cid = false -> no_I_cells (snd (fst (send_cell st s dst cid mid ls))).
Proof.
  intro Hc. destruct (send_cell_out s dst cid mid ls) as (early & E). rewrite E.
  intros d c e m [H|[]]. inversion H; subst. exact Hc.
Qed.

(* ---------------------------------------------------------------- start_hop, ours *)
Lemma start_hop_frame (touch : Z -> Prop) s cid c tries ini p ls :
  I cid = false ->
  frame touch s (fst (fst (start_hop st s cid c tries ini p ls)))
  /\ no_I_cells (snd (fst (start_hop st s cid c tries ini p ls))).
Proof.
  intro Hc. unfold start_hop. destruct (p_next p) as [nxt|]; simpl.
  - split; [|apply send_cell_no_I; exact Hc].
    eapply frame_trans; [|apply send_cell_frame].
    match goal with |- context [aset cid ?C1 (circuits s)] => set (c1 := C1) end.
    set (s1 := set_circuits (aset cid c1 (circuits s)) s).
    set (sm := set_retries (adel cid (retries s1)) s1).
    apply frame_trans with (b := s1); [apply frame_set_circuit; intro H; congruence|].
    apply frame_trans with (b := sm); [apply frame_del_retry|].
    exact (frame_add_retry st I touch sm cid _ Hc).
  - split; [|apply no_I_nil]. apply frame_defer; [exact Logic.I | intros x H; discriminate].
Qed.

Lemma ours_frame (touch : Z -> Prop) s cid v p ls :
  I cid = false ->
  frame touch s (fst (fst (ours st s cid v p ls))) /\ no_I_cells (snd (fst (ours st s cid v p ls))).
Proof.
  intro Hc. unfold ours.
  destruct (aget cid (circuits s)) as [c|]; [|split; [apply frame_refl | apply no_I_nil]].
  destruct (c_unver c) as [h|]; [|split; [apply frame_refl | apply no_I_nil]].
  destruct v; simpl; try (split; [apply frame_refl | apply no_I_nil]).
  - match goal with |- context [mkCirc ?a ?b ?c0 ?d ?e ?f ?g] => set (c1 := mkCirc a b c0 d e f g) end.
    set (s1 := set_circuits (aset cid c1 (circuits s)) s).
    assert (F1 : frame touch s s1) by (apply frame_set_circuit; intro H; congruence).
    destruct (c_state c1 =? CIRCUIT_STATE_EXTENDING).
    + destruct (aget cid (retries s)) as [rt|]; [|split; [exact F1 | apply no_I_nil]].
      destruct (start_hop_frame touch (set_retries (adel cid (retries s1)) s1) cid c1 (rt_tries rt) false p ls Hc)
        as [F3 O3].
      split; [|exact O3]. apply frame_trans with (b := s1); [exact F1|].
      apply frame_trans with (b := set_retries (adel cid (retries s1)) s1); [apply frame_del_retry | exact F3].
    + destruct (c_state c1 =? CIRCUIT_STATE_READY); simpl; (split; [|apply no_I_nil]); [|exact F1].
      apply frame_trans with (b := s1); [exact F1 | exact (frame_del_retry st I touch s1 cid)].
  - split; [|apply no_I_nil]. apply frame_defer; [exact Logic.I | intros x H; discriminate].
Qed.

(* ---------------------------------------------------------------- exit socket emission *)
Definition no_cells (o : list out) : Prop := forall d c e m, ~ In (OCell d c e m) o.

Lemma no_cells_no_I o : no_cells o -> no_I_cells o.
Proof. intros H d c e m Hin. exfalso; eapply H; eauto. Qed.

Lemma exit_sendto_facts cid e len tnow :
  let r := exit_sendto cid e len tnow in
  e_peer (fst r) = e_peer e
  /\ (la (e_ro (fst r)) = la (e_ro e) \/ la (e_ro (fst r)) = tnow) /\ no_cells (snd r).
Proof.
  unfold exit_sendto. destruct (e_open e); simpl; (split; [reflexivity|]); (split; [auto|]);
    intros d c e0 m H; simpl in H; intuition discriminate.
Qed.

Lemma drain_facts cid q : forall e tnow,
  let r := drain cid e q tnow in
  e_peer (fst r) = e_peer e
  /\ (la (e_ro (fst r)) = la (e_ro e) \/ la (e_ro (fst r)) = tnow) /\ no_cells (snd r).
Proof.
  induction q as [|len tl IH]; intros e tnow; simpl; [split; [reflexivity|]; split; [auto | intros d c e0 m []]|].
  pose proof (exit_sendto_facts cid e len tnow) as H1.
  destruct (exit_sendto cid e len tnow) as [e1 o1]. simpl in H1.
  pose proof (IH e1 tnow) as H2. destruct (drain cid e1 tl tnow) as [e2 o2]. simpl in H2. simpl.
  destruct H1 as [P1 [L1 N1]], H2 as [P2 [L2 N2]]. split; [congruence|]. split.
  - destruct L2 as [L2|L2]; [rewrite L2; exact L1 | right; exact L2].
  - intros d c e0 m H. apply in_app_or in H. destruct H; [eapply N1 | eapply N2]; eauto.
Qed.

(* ---------------------------------------------------------------- handle_data *)
Lemma handle_data_frame (touch : Z -> Prop) s src cid a b c len :
  (I cid = true -> touch cid) ->
  frame touch s (fst (handle_data s src cid a b c len)) /\ no_cells (snd (handle_data s src cid a b c len)).
Proof.
  intro Ht. unfold handle_data.
  assert (N0 : no_cells []) by (intros d c0 e m []).
  destruct (match aget cid (circuits s) with Some c0 => a && (src =? c_first c0) | None => false end).
  - destruct (aget cid (circuits s)) as [c0|] eqn:Ec; simpl; [|split; [apply frame_refl | exact N0]].
    split; [|exact N0]. apply frame_set_circuit. intros Hi. exists c0. split; [exact Ec|]. simpl.
    repeat split; auto.
  - destruct b; [split; [apply frame_refl | exact N0]|].
    destruct (aget cid (exits s)) as [e|] eqn:Ee; [|split; [apply frame_refl | exact N0]].
    destruct (negb (e_enabled e) && negb (src =? e_peer e)); [split; [apply frame_refl | exact N0]|].
    set (e1 := mkExit (e_ro e) (e_peer e) true (e_open e) (e_queue e)).
    assert (X : exists e2 o, (if c then exit_sendto cid e1 len (now s) else (e1, [])) = (e2, o)
                             /\ e_peer e2 = e_peer e
                             /\ (la (e_ro e2) = la (e_ro e) \/ la (e_ro e2) = now s) /\ no_cells o).
    { destruct c.
      - pose proof (exit_sendto_facts cid e1 len (now s)) as H.
        destruct (exit_sendto cid e1 len (now s)) as [e2 o]. simpl in H. exists e2, o. split; [reflexivity | exact H].
      - exists e1, []. split; [reflexivity|]. split; [reflexivity|]. split; [left; reflexivity | exact N0]. }
    destruct X as (e2 & o & E & Pe & L & N). rewrite E.
    set (s1 := set_exits (aset cid e2 (exits s)) s).
    assert (F1 : frame touch s s1).
    { apply frame_set_exit. intro Hi. exists e. split; [exact Ee|]. split; [exact Pe|].
      destruct L as [L|L]; [left; exact L | right; split; [apply Ht; exact Hi | exact L]]. }
    destruct (negb (e_enabled e)); simpl; (split; [|exact N]); [|exact F1].
    eapply frame_trans; [exact F1|]. apply frame_defer; [exact Logic.I|].
    intros x H Hi. inversion H; subst x. split; [apply Ht; exact Hi|].
    unfold s1. simpl. rewrite aget_aset, Z.eqb_refl. discriminate.
Qed.

(* ---------------------------------------------------------------- handle *)
Lemma holds_id_comm s cid :
  (ahas cid (circuits s) || ahas cid (exits s) || ahas cid (relays s)) = holds_id s cid.
Proof. unfold holds_id. destruct (ahas cid (circuits s)), (ahas cid (exits s)), (ahas cid (relays s)); reflexivity. Qed.

Definition handshake_free (cid : Z) (m : cellmsg) : Prop :=
  I cid = true -> msg_id m <> MSG_CREATE /\ msg_id m <> MSG_EXTEND.

(* the only cell for I that a handler can send: the pong, back to the sender, on the same id *)
Definition only_pong (s : node) (src cid : Z) (m : cellmsg) (o : list out) : Prop :=
  forall d c e mm, In (OCell d c e mm) o -> I c = true ->
    d = src /\ c = cid /\ mm = MSG_PONG /\ m = MPing /\ holds_id s cid = true.

Lemma no_I_only_pong s src cid m o : no_I_cells o -> only_pong s src cid m o.
Proof. intros H d c e mm Hin Hi. rewrite (H _ _ _ _ Hin) in Hi. discriminate. Qed.

(* what the handler needs to know about the node's bookkeeping, stated locally: the create-request cache the
   message hits (if any) does not name I, and a retry cache under the cell's id means the id is not in I *)
Definition handle_local (s : node) (cid : Z) (m : cellmsg) : Prop :=
  match m with
  | MCreated ident _ _ =>
      (forall cc, aget ident (creates s) = Some cc -> I (cc_from cc) = false /\ I (cc_to cc) = false)
      /\ (forall rt, aget cid (retries s) = Some rt -> I cid = false)
  | MExtended _ _ _ => forall rt, aget cid (retries s) = Some rt -> I cid = false
  | _ => True
  end.

Lemma closed_handle_local s cid m : closedI s -> handle_local s cid m.
Proof.
  intros K. destruct m; simpl; auto.
  - split; [intros cc H; exact (k_creates _ K _ _ H) | intros rt H; exact (k_retries _ K _ _ H)].
  - intros rt H; exact (k_retries _ K _ _ H).
Qed.

Lemma handle_frame_l (touch : Z -> Prop) s src cid m ls :
  handle_local s cid m -> handshake_free cid m -> (I cid = true -> touch cid) ->
  frame touch s (fst (fst (handle st s src cid m ls)))
  /\ only_pong s src cid m (snd (fst (handle st s src cid m ls))).
Proof.
  intros K Hm Ht.
  assert (R0 : frame touch s s /\ only_pong s src cid m []) by (split; [apply frame_refl | intros d c e mm []]).
  assert (Ours : forall v p, I cid = false ->
            frame touch s (fst (fst (ours st s cid v p ls))) /\ only_pong s src cid m (snd (fst (ours st s cid v p ls)))).
  { intros v p Hc.
    destruct (ours_frame touch s cid v p ls Hc) as [F O]. split; [exact F | apply no_I_only_pong; exact O]. }
  destruct m as [ident|ident v p|ident|ident v p|a b c len| | |mid]; simpl; try exact R0.
  - (* create *)
    split; [|intros d c e mm []]. apply frame_defer; [|intros x H; discriminate].
    simpl. destruct (I cid) eqn:Hi; [|reflexivity]. destruct (Hm Hi) as [H _]. simpl in H. congruence.
  - (* created *)
    destruct (aget ident (creates s)) as [cc|] eqn:Ecc.
    + destruct (proj1 K _ Ecc) as [Hf Hto].
      set (s1 := set_creates (adel ident (creates s)) s).
      assert (F1 : frame touch s s1) by apply frame_del_create.
      destruct (ahas (cc_from cc) (relays s)); [split; [exact F1 | intros d c e mm []]|].
      destruct (aget (cc_from cc) (exits s)) as [e|]; [|split; [exact F1 | intros d c e mm []]].
      split.
      * eapply frame_trans; [|apply send_cell_frame].
        set (s2 := defer (DRemove KExit (cc_from cc) 0 true) s1).
        assert (F2 : frame touch s1 s2) by (apply frame_defer; [exact Logic.I | intros x H; discriminate]).
        match goal with |- P09_network_frame.frame _ _ _ _ (set_relays (aset _ ?fw (aset _ ?bw _)) _) =>
          set (FW := fw); set (BW := bw) end.
        set (sa := set_relays (aset (cc_to cc) BW (relays s2)) s2).
        assert (Fa : frame touch s2 sa) by (apply frame_set_relay; intro H; [congruence | right; exact Hf]).
        assert (Fb : frame touch sa (set_relays (aset (cc_from cc) FW (relays sa)) sa))
          by (apply frame_set_relay; intro H; [congruence | right; exact Hto]).
        apply frame_trans with (b := s1); [exact F1|]. apply frame_trans with (b := s2); [exact F2|].
        apply frame_trans with (b := sa); [exact Fa | exact Fb].
      * apply no_I_only_pong. apply send_cell_no_I. exact Hf.
    + destruct (aget cid (retries s)) as [rt|] eqn:Er; [|exact R0].
      destruct (rt_ident rt =? ident); [|exact R0]. apply Ours. exact (proj2 K _ Er).
  - (* extend *)
    split; [|intros d c e mm []]. apply frame_defer; [|intros x H; discriminate].
    simpl. destruct (I cid) eqn:Hi; [|reflexivity]. destruct (Hm Hi) as [_ H]. simpl in H. congruence.
  - (* extended *)
    destruct (aget cid (retries s)) as [rt|] eqn:Er; [|exact R0].
    destruct (rt_ident rt =? ident); [|exact R0]. apply Ours. exact (K _ Er).
  - (* ping *)
    rewrite holds_id_comm. destruct (holds_id s cid) eqn:Hh; [|exact R0].
    set (s1 := match aget cid (exits s) with
               | Some e => set_exits (aset cid (e_with_ro (ro_beat (now s)) e) (exits s)) s
               | None => s end).
    assert (F1 : frame touch s s1).
    { unfold s1. destruct (aget cid (exits s)) as [e|] eqn:Ee; [|apply frame_refl].
      apply frame_set_exit. intro Hi. exists e. split; [exact Ee|]. split; [reflexivity|]. right. split; [apply Ht; exact Hi | reflexivity]. }
    split; [eapply frame_trans; [exact F1 | apply send_cell_frame]|].
    destruct (send_cell_out s1 src cid MSG_PONG ls) as (early & E). rewrite E.
    intros d c e mm [H|[]] Hi. inversion H; subst. auto.
Qed.

Lemma handle_frame (touch : Z -> Prop) s src cid m ls :
  closedI s -> handshake_free cid m -> (I cid = true -> touch cid) ->
  frame touch s (fst (fst (handle st s src cid m ls)))
  /\ only_pong s src cid m (snd (fst (handle st s src cid m ls))).
Proof. intros K. apply handle_frame_l. apply closed_handle_local. exact K. Qed.

End NodeFrames.
