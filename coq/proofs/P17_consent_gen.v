(* C17x - the translated functions (gen/G17_consent.v) compute what the hand model M17_consent computes. *)
From Coq Require Import ZArith List Bool Arith Lia ZifyBool.
From IPV8V Require Import lib.PyErr lib.Bytes model.M16_tokentree model.M16_tokentree_gen model.M17_consent
  model.M17_consent_gen gen.G17_consent model.M17_run_gen spec.S17_consent
  proofs.P16_gather proofs.P16_props proofs.P17_base proofs.P17_step proofs.P17_props proofs.P17_nds.
Import ListNotations.
Open Scope Z_scope.

Ltac mstep := cbv beta iota delta [mbind mget mret mlift mmod msend mraise]; cbn beta iota.

(* ---------------------------------------------------------------- generic facts about the vocabulary *)
Lemma mfor_nil {A L R} (body : A -> L -> M (ctl L R)) l s o : mfor [] body l s o = (s, o, Ok (inl l)).
Proof. reflexivity. Qed.

(* a body that neither touches the state nor sends: mmap is map *)
Lemma mmap_pure {A B} (f : A -> M B) (g : A -> state -> B) :
  (forall x s o, f x s o = (s, o, Ok (g x s))) ->
  forall l s o, mmap f l s o = (s, o, Ok (map (fun x => g x s) l)).
Proof.
  intros H. induction l as [|x l IH]; intros s o; [reflexivity|].
  cbn [mmap]. unfold mbind at 1. rewrite H. unfold mbind at 1. rewrite IH. reflexivity.
Qed.

Lemma mfilter_pure {A} (f : A -> M bool) (g : A -> state -> bool) (l : list A) s o :
  (forall x, In x l -> f x s o = (s, o, Ok (g x s))) ->
  mfilter f l s o = (s, o, Ok (filter (fun x => g x s) l)).
Proof.
  induction l as [|x l IH]; intros H; [reflexivity|].
  cbn [mfilter]. unfold mbind at 1. rewrite (H x (or_introl eq_refl)). unfold mbind at 1.
  rewrite IH; [|intros y Hy; apply H; right; exact Hy]. unfold mret. simpl. destruct (g x s); reflexivity.
Qed.

Lemma many_pure {A} (f : A -> M bool) (g : A -> bool) (l : list A) s o :
  (forall x, f x s o = (s, o, Ok (g x))) -> many f l s o = (s, o, Ok (existsb g l)).
Proof.
  intros H. induction l as [|x l IH]; [reflexivity|].
  cbn [many]. unfold mbind at 1. rewrite H. simpl. destruct (g x); [reflexivity|exact IH].
Qed.

Lemma aset_aset {V} k (v1 v2 : V) l : aset k v2 (aset k v1 l) = aset k v2 l.
Proof.
  induction l as [|[k' v'] l IH]; simpl.
  - rewrite bytes_eqb_refl. reflexivity.
  - destruct (bytes_eqb k' k) eqn:E; simpl; rewrite E; [reflexivity|]. rewrite IH. reflexivity.
Qed.

Lemma aset_same {V} k (v : V) l : alookup k l = Some v -> aset k v l = l.
Proof.
  induction l as [|[k' v'] l IH]; simpl; [discriminate|].
  destruct (bytes_eqb k' k) eqn:E.
  - intros H. inversion H. reflexivity.
  - intros H. rewrite IH; auto.
Qed.

Lemma existsb_ext_in {A} (f g : A -> bool) l : (forall x, f x = g x) -> existsb f l = existsb g l.
Proof. intros H. induction l as [|x l IH]; simpl; [reflexivity|]. rewrite H, IH. reflexivity. Qed.

Lemma md_eta m : mkMd (m_tptr m) (m_json m) (m_sig m) = m.
Proof. destruct m; reflexivity. Qed.

(* a loop body that always continues: the loop is a fold over (state, carried locals) *)
Lemma mfor_fold {A L R} (body : A -> L -> M (ctl L R)) (F : A -> state * L -> state * L) :
  (forall x l s o, body x l s o = (fst (F x (s, l)), o, Ok (CNext (snd (F x (s, l)))))) ->
  forall xs l s o,
    mfor xs body l s o =
    (fst (fold_left (fun a x => F x a) xs (s, l)), o, Ok (inl (snd (fold_left (fun a x => F x a) xs (s, l))))).
Proof.
  intros H. induction xs as [|x xs IH]; intros l s o; [reflexivity|].
  cbn [mfor fold_left]. unfold mbind at 1. rewrite H. rewrite IH.
  destruct (F x (s, l)) as [s1 l1]. reflexivity.
Qed.

Lemma mbind_ok {A B} (m : M A) (f : A -> M B) s o s1 o1 a :
  m s o = (s1, o1, Ok a) -> mbind m f s o = f a s1 o1.
Proof. intros H. unfold mbind. rewrite H. reflexivity. Qed.

Lemma mbind_raise {A B} (m : M A) (f : A -> M B) s o s1 o1 e :
  m s o = (s1, o1, Raise e) -> mbind m f s o = (s1, o1, Raise e).
Proof. intros H. unfold mbind. rewrite H. reflexivity. Qed.

Lemma state_eta s : mkState (known s) (pseus s) (dmd s) (datt s) (chain s) (mdchain s) (perms s) = s.
Proof. destruct s; reflexivity. Qed.

(* a loop that returns r at the first element satisfying p and otherwise changes nothing *)
Lemma mfor_find {A L R} (body : A -> L -> M (ctl L R)) (p : A -> bool) (r : R) xs l s o :
  (forall x, In x xs -> body x l s o = (s, o, Ok (if p x then CRet r else CNext l))) ->
  mfor xs body l s o = (s, o, Ok (if existsb p xs then inr r else inl l)).
Proof.
  induction xs as [|x xs IH]; intros H; [reflexivity|].
  cbn [mfor existsb]. unfold mbind at 1. rewrite (H x (or_introl eq_refl)).
  destruct (p x); [reflexivity|]. apply IH. intros y Hy. apply H. right. exact Hy.
Qed.

Lemma dedup_repr {A} (eqb : A -> A -> bool) (p : A -> bool) : forall l,
  (forall a b, In a l -> In b l -> eqb a b = true -> p a = p b) ->
  forall x, In x l -> exists y, In y (dedup_by eqb l) /\ p y = p x.
Proof.
  induction l as [|z l IH]; intros H x Hx; [destruct Hx|]. cbn [dedup_by].
  destruct Hx as [Hx|Hx].
  - subst. exists x. split; [left; reflexivity|reflexivity].
  - destruct (IH (fun a b Ha Hb => H a b (or_intror Ha) (or_intror Hb)) x Hx) as [y [Hy Py]].
    destruct (eqb z y) eqn:E.
    + exists z. split; [left; reflexivity|]. rewrite <- Py. apply H; [left; reflexivity|right|exact E].
      eapply dedup_by_In. exact Hy.
    + exists y. split; [|exact Py]. right. apply filter_In. split; [exact Hy|]. rewrite E. reflexivity.
Qed.

Lemma existsb_dedup {A} (eqb : A -> A -> bool) (p : A -> bool) l :
  (forall a b, In a l -> In b l -> eqb a b = true -> p a = p b) ->
  existsb p (dedup_by eqb l) = existsb p l.
Proof.
  intros H. destruct (existsb p l) eqn:E.
  - apply existsb_exists in E as [x [Hx Px]]. destruct (dedup_repr eqb p l H x Hx) as [y [Hy Py]].
    apply existsb_exists. exists y. split; [exact Hy|congruence].
  - destruct (existsb p (dedup_by eqb l)) eqn:E2; [|reflexivity].
    apply existsb_exists in E2 as [x [Hx Px]]. apply dedup_by_In in Hx.
    assert (existsb p l = true) by (apply existsb_exists; eauto). congruence.
Qed.

Lemma sql_first_find {R B} (q : R -> bool) (f : R -> B) : forall d,
  sql_first (map f (filter q d)) = match find q d with Some r => Ok (f r) | None => Raise RuntimeError end.
Proof.
  induction d as [|r d IH]; [reflexivity|]. cbn [filter find]. destruct (q r); [reflexivity|exact IH].
Qed.

(* a loop whose body only (conditionally) sends one fixed datagram *)
Lemma mfor_send {A R} (body : A -> unit -> M (ctl unit R)) (q : A -> bool) (out : output) xs s :
  (forall x o, body x tt s o = (s, o ++ (if q x then [out] else []), Ok (CNext tt))) ->
  forall o, mfor xs body tt s o = (s, o ++ map (fun _ => out) (filter q xs), Ok (inl tt)).
Proof.
  intros H. induction xs as [|x xs IH]; intros o.
  - simpl. rewrite app_nil_r. reflexivity.
  - cbn [mfor filter]. unfold mbind at 1. rewrite H. rewrite IH. destruct (q x); simpl.
    + rewrite <- app_assoc. reflexivity.
    + rewrite app_nil_r. reflexivity.
Qed.

Lemma alookup_key_in {V} k (d : list (bytes * V)) : In k (map fst d) -> exists v, alookup k d = Some v.
Proof.
  induction d as [|[k' v'] d IH]; simpl; [intros []|]. intros [H|H].
  - subst. rewrite bytes_eqb_refl. eauto.
  - destruct (bytes_eqb k' k); eauto.
Qed.

Lemma filter_keys {V} (q : V -> bool) : forall d : list (bytes * V),
  NoDup (map fst d) ->
  filter (fun k => match alookup k d with Some e => q e | None => false end) (map fst d)
  = map fst (filter (fun kv => q (snd kv)) d).
Proof.
  induction d as [|[k e] d IH]; intros N; [reflexivity|].
  inversion N as [|? ? Nk Nd]; subst. cbn [map fst filter alookup snd]. rewrite bytes_eqb_refl.
  assert (T : filter (fun k0 => match (if bytes_eqb k k0 then Some e else alookup k0 d) with
                                | Some e0 => q e0 | None => false end) (map fst d)
              = filter (fun k0 => match alookup k0 d with Some e0 => q e0 | None => false end) (map fst d)).
  { apply filter_ext_in. intros k0 Hk0. destruct (bytes_eqb k k0) eqn:E; [|reflexivity].
    apply bytes_eqb_eq in E. subst k0. contradiction. }
  rewrite T, (IH Nd). destruct (q e); reflexivity.
Qed.

Section Gen.
Variable hash : bytes -> bytes.
Variable sigverify : bytes -> bytes -> bytes -> bool.
Variable mysign : bytes -> bytes.
Variable parse : bytes -> jdoc.
Variable me : bytes.
Variable rhl rsl : nat.
Variable now : Z.
Variable json_out : bytes.
Variable jlen : nat.

Notation ENV f := (f hash sigverify mysign parse me rhl rsl now json_out jlen).

(* ---------------------------------------------------------------- signed objects *)
Lemma gmd_hash m : ENV gmd_get_hash m = md_hash hash m.
Proof. reflexivity. Qed.
Lemma gmd_ver m pk : ENV gmd_verify m pk = md_verify sigverify pk m.
Proof. reflexivity. Qed.
Lemma gmd_eq a b : ENV gmd___eq__ a b = md_eqb a b.
Proof. reflexivity. Qed.
Lemma gat_ver a pk : ENV gat_verify a pk = att_verify sigverify pk a.
Proof. reflexivity. Qed.
Lemma gat_cr m : ENV gat_create m tt = mkAtt (md_hash hash m) (mysign (md_hash hash m)).
Proof. reflexivity. Qed.

(* ---------------------------------------------------------------- database *)
Lemma g_insert_metadata_eq pk m s o :
  ENV g_insert_metadata pk m s o = (set_dmd s (insert_md pk m (dmd s)), o, Ok tt).
Proof.
  unfold g_insert_metadata, gmd_to_database_tuple. mstep. unfold sql_insert_ignore, insert_md.
  rewrite md_eta. simpl. reflexivity.
Qed.

Lemma g_insert_attestation_eq subj auth a s o :
  ENV g_insert_attestation subj auth a s o =
  (set_datt s (insert_att true (mkRow subj auth (a_mptr a) (a_sig a)) (datt s)), o, Ok tt).
Proof.
  unfold g_insert_attestation, gat_to_database_tuple. mstep. unfold sql_insert_ignore, insert_att.
  rewrite (existsb_ext_in _ (att_conflict true (mkRow subj auth (a_mptr a) (a_sig a)))); [reflexivity|].
  intros x. unfold att_conflict. simpl.
  destruct (bytes_eqb (r_pk x) subj), (bytes_eqb (r_auth x) auth), (bytes_eqb (r_mptr x) (a_mptr a)); reflexivity.
Qed.

Definition atts_over (d : list attrow) (h : bytes) : list attestation :=
  dedup_by (fun a b => bytes_eqb (a_mptr a ++ a_sig a) (a_mptr b ++ a_sig b))
           (map (fun r => mkAtt (r_mptr r) (r_sig r)) (filter (fun r => bytes_eqb (r_mptr r) h) d)).

Lemma g_get_metadata_for_eq pk s o :
  ENV g_get_metadata_for pk s o = (s, o, Ok (credentials_of pk (dmd s))).
Proof.
  unfold g_get_metadata_for. mstep. unfold credentials_of. do 2 f_equal. f_equal.
  rewrite map_map. apply map_ext. intros [k m]. simpl. unfold gmd_from_database_tuple, new_md. apply md_eta.
Qed.

Lemma g_get_attestations_over_eq m s o :
  ENV g_get_attestations_over m s o = (s, o, Ok (atts_over (datt s) (md_hash hash m))).
Proof.
  unfold g_get_attestations_over. mstep. unfold atts_over. do 2 f_equal. f_equal.
  rewrite map_map. reflexivity.
Qed.

Lemma g_get_authority_eq a s o :
  ENV g_get_authority a s o =
  (s, o, sql_first (map r_auth (filter (fun r => bytes_eqb (r_sig r) (a_sig a)) (datt s)))).
Proof.
  unfold g_get_authority. mstep.
  destruct (sql_first (map (fun r_ => r_auth r_) (filter (fun r_ => bytes_eqb (r_sig r_) (a_sig a)) (datt s)))); reflexivity.
Qed.

Lemma g_get_credentials_for_eq pk s o :
  ENV g_get_credentials_for pk s o =
  (s, o, Ok (map (fun m => (m, atts_over (datt s) (md_hash hash m))) (credentials_of pk (dmd s)))).
Proof.
  unfold g_get_credentials_for. unfold mbind at 1. unfold mbind at 1. rewrite g_get_metadata_for_eq.
  unfold mbind at 1. unfold mret at 1.
  rewrite (mmap_pure _ (fun m st => (m, atts_over (datt st) (md_hash hash m)))).
  - reflexivity.
  - intros x s0 o0. unfold mbind. rewrite g_get_attestations_over_eq. reflexivity.
Qed.

Lemma g_get_credentials_eq pk s o :
  ENV g_get_credentials pk s o =
  (s, o, Ok (map (fun m => (m, atts_over (datt s) (md_hash hash m))) (credentials_of pk (dmd s)))).
Proof. unfold g_get_credentials, mbind. rewrite g_get_credentials_for_eq. reflexivity. Qed.

(* ---------------------------------------------------------------- pseudonym manager *)
Lemma g_add_attestation_eq self pk a s o :
  ENV g_add_attestation self pk a s o =
  (set_datt s (fst (add_att sigverify true self pk a (datt s))), o, Ok (snd (add_att sigverify true self pk a (datt s)))).
Proof.
  unfold g_add_attestation, add_att. rewrite gat_ver. destruct (att_verify sigverify pk a).
  - unfold mbind. rewrite g_insert_attestation_eq. reflexivity.
  - destruct s; reflexivity.
Qed.

Lemma g_add_metadata_eq self m s o :
  ENV g_add_metadata self m s o =
  (set_dmd s (add_metadata sigverify self m (dmd s)), o, Ok (md_verify sigverify self m)).
Proof.
  unfold g_add_metadata, add_metadata. rewrite gmd_ver. destruct (md_verify sigverify self m).
  - unfold mbind. rewrite g_insert_metadata_eq. reflexivity.
  - destruct s; reflexivity.
Qed.

Lemma g_create_attestation_eq self m s o :
  ENV g_create_attestation self m tt s o = (s, o, Ok (mkAtt (md_hash hash m) (mysign (md_hash hash m)))).
Proof. reflexivity. Qed.

(* ---------------------------------------------------------------- identity manager *)
Lemma g_get_pseudonym_eq k s o :
  ENV g_get_pseudonym k s o =
  (if k_has k (pseus s) then s else set_pseus s (aset k (empty_tree 100) (pseus s)), o, Ok k).
Proof.
  unfold g_get_pseudonym. mstep. unfold k_has, k_get, rt_new_pseudonym.
  destruct (alookup k (pseus s)) eqn:E; simpl.
  - rewrite E. reflexivity.
  - rewrite alookup_aset_same. reflexivity.
Qed.

Lemma fold_add_metadata_state self : forall mds s,
  fst (fold_left (fun a x => (set_dmd (fst a) (add_metadata sigverify self x (dmd (fst a))), snd a)) mds (s, tt))
  = set_dmd s (fold_left (fun d m => add_metadata sigverify self m d) mds (dmd s)).
Proof.
  induction mds as [|m mds IH]; intros s; cbn [fold_left].
  - unfold set_dmd. simpl. symmetry. apply state_eta.
  - cbn [fst snd]. rewrite IH. reflexivity.
Qed.

Lemma fold_add_atts_state self : forall atts s c,
  fold_left (fun a (x : bytes * attestation) =>
               (set_datt (fst a) (fst (add_att sigverify true self (fst x) (snd x) (datt (fst a)))),
                andb (snd a) (snd (add_att sigverify true self (fst x) (snd x) (datt (fst a)))))) atts (s, c)
  = (set_datt s (fst (add_atts sigverify true self atts (datt s) c)), snd (add_atts sigverify true self atts (datt s) c)).
Proof.
  unfold add_atts. induction atts as [|x atts IH]; intros s c; cbn [fold_left].
  - unfold set_datt. simpl. rewrite state_eta. reflexivity.
  - cbn [fst snd]. rewrite IH. cbn [datt set_datt].
    destruct (add_att sigverify true self (fst x) (snd x) (datt s)) as [d1 ok]. reflexivity.
Qed.

Lemma reg_get_tree k s :
  get_tree k (pseus (if k_has k (pseus s) then s else set_pseus s (aset k (empty_tree 100) (pseus s))))
  = get_tree k (pseus s).
Proof.
  unfold k_has, get_tree. destruct (alookup k (pseus s)) eqn:E; simpl; [rewrite E; reflexivity|].
  rewrite alookup_aset_same. reflexivity.
Qed.

Lemma reg_aset k v s :
  set_pseus (if k_has k (pseus s) then s else set_pseus s (aset k (empty_tree 100) (pseus s)))
            (aset k v (pseus (if k_has k (pseus s) then s else set_pseus s (aset k (empty_tree 100) (pseus s)))))
  = set_pseus s (aset k v (pseus s)).
Proof.
  unfold k_has. destruct (alookup k (pseus s)); simpl; [reflexivity|]. rewrite aset_aset. reflexivity.
Qed.

Lemma g_substantiate_eq pk mds toks atts fail s o :
  ENV g_substantiate pk (mds, fail_is fail 1) (toks, fail_is fail 0) tt (atts, fail_is fail 2) s o =
  (fst (substantiate hash sigverify true s pk mds toks atts fail), o,
   match snd (substantiate hash sigverify true s pk mds toks atts fail) with
   | Ok c => Ok (c, pk)
   | Raise e => Raise e
   end).
Proof.
  unfold g_substantiate. rewrite (mbind_ok _ _ _ _ _ _ _ (g_get_pseudonym_eq pk s o)).
  unfold substantiate.
  set (s' := if k_has pk (pseus s) then s else set_pseus s (aset pk (empty_tree 100) (pseus s))).
  unfold mbind at 1. unfold with_tree at 1. unfold rt_unserialize_public. cbn [fst snd].
  subst s'. rewrite reg_get_tree.
  destruct (gather_list hash sigverify pk (get_tree pk (pseus s)) toks true) as [[tr1 c1]|e] eqn:G.
  2:{ rewrite reg_aset. reflexivity. }
  rewrite reg_aset.
  destruct (fail_is fail 0); [reflexivity|].
  set (s1 := set_pseus s (aset pk tr1 (pseus s))).
  cbn [fst].
  erewrite mbind_ok.
  2:{ apply (mfor_fold _ (fun x a => (set_dmd (fst a) (add_metadata sigverify pk x (dmd (fst a))), snd a))).
      intros x l s0 o0. unfold mbind. rewrite g_add_metadata_eq. destruct l. reflexivity. }
  rewrite fold_add_metadata_state. cbn iota beta.
  unfold wire_end at 1. cbn [snd].
  destruct (fail_is fail 1).
  { unfold mbind, mraise. reflexivity. }
  unfold mbind at 1. unfold mret at 1. cbn [fst].
  erewrite mbind_ok.
  2:{ apply (mfor_fold _ (fun (x : bytes * attestation) a =>
               (set_datt (fst a) (fst (add_att sigverify true pk (fst x) (snd x) (datt (fst a)))),
                andb (snd a) (snd (add_att sigverify true pk (fst x) (snd x) (datt (fst a))))))).
      intros x l s0 o0. unfold mbind. rewrite g_add_attestation_eq. reflexivity. }
  rewrite fold_add_atts_state. cbn [fst snd]. cbn iota beta.
  set (s2 := set_dmd s1 _).
  destruct (add_atts sigverify true pk atts (datt s2) c1) as [d3 c3]. cbn [fst snd].
  unfold wire_end. cbn [snd]. destruct (fail_is fail 2); reflexivity.
Qed.

(* ---------------------------------------------------------------- should_sign *)
Definition by_me (d : list attrow) (a : attestation) : bool :=
  match find (fun r => bytes_eqb (r_sig r) (a_sig a)) d with Some r => bytes_eqb (r_auth r) me | None => false end.

Lemma existsb_filter {A} (p q : A -> bool) l : existsb p (filter q l) = existsb (fun x => q x && p x) l.
Proof. induction l as [|x l IH]; [reflexivity|]. cbn [filter existsb]. destruct (q x); simpl; rewrite IH; reflexivity. Qed.

Lemma existsb_map {A B} (p : B -> bool) (f : A -> B) l : existsb p (map f l) = existsb (fun x => p (f x)) l.
Proof. induction l as [|x l IH]; [reflexivity|]. simpl. rewrite IH. reflexivity. Qed.

Lemma already_loop d h : existsb (by_me d) (atts_over d h) = already me d h.
Proof.
  unfold atts_over. rewrite existsb_dedup.
  - rewrite existsb_map, existsb_filter. unfold already. apply existsb_ext_in. intros r. f_equal.
    unfold by_me, authority_of. cbn [a_sig]. destruct (find _ d); reflexivity.
  - intros a b Ha Hb E. apply in_map_iff in Ha as [ra [Ea Fa]], Hb as [rb [Eb Fb]].
    apply filter_In in Fa as [_ Fa], Fb as [_ Fb]. apply bytes_eqb_eq in Fa, Fb, E. subst a b. cbn [a_mptr a_sig] in E.
    rewrite Fa, Fb in E. apply app_inv_head in E. unfold by_me. cbn [a_sig]. rewrite E. reflexivity.
Qed.

Lemma mem_std k : mem k [k_name; k_date; k_schema] = is_std k.
Proof. unfold mem, is_std. simpl. rewrite orb_false_r, orb_assoc. reflexivity. Qed.

Lemma mem_keys k kv : mem k (map fst kv) = has_field k kv.
Proof.
  unfold mem, has_field. induction kv as [|[k' v] kv IH]; [reflexivity|]. simpl.
  rewrite bytes_eqb_sym. destruct (bytes_eqb k' k); [reflexivity|exact IH].
Qed.

Lemma existsb_find {A} (q : A -> bool) l : existsb q l = match find q l with Some _ => true | None => false end.
Proof. induction l as [|x l IH]; [reflexivity|]. simpl. destruct (q x); [reflexivity|exact IH]. Qed.

Lemma extras_filter kv :
  filter (fun '(v_k, _) => negb (mem v_k [k_name; k_date; k_schema])) kv = extras kv.
Proof. unfold extras. apply filter_ext. intros [k v]. simpl fst. rewrite mem_std. reflexivity. Qed.

Lemma atts_over_find d h x :
  In x (atts_over d h) -> exists r, find (fun r => bytes_eqb (r_sig r) (a_sig x)) d = Some r.
Proof.
  unfold atts_over. intros H. apply dedup_by_In in H. apply in_map_iff in H as [r [E F]].
  apply filter_In in F as [F _]. subst x. cbn [a_sig].
  apply (find_some_exists (fun r0 => bytes_eqb (r_sig r0) (r_sig r)) d r F). apply bytes_eqb_refl.
Qed.

Lemma g_should_sign_eq pk m s o :
  ENV g_should_sign pk m s o = (s, o, should_sign hash parse me s now pk (get_tree pk (pseus s)) m).
Proof.
  unfold g_should_sign, should_sign. mstep. unfold json_loads.
  destruct (parse (m_json m)) as [| |kv] eqn:EP; try reflexivity.
  cbn [j_keys j_get j_items]. unfold d_has, d_get, tree_elements, k_has, k_get. rewrite existsb_find. unfold find_key.
  change [110; 97; 109; 101] with k_name. change [100; 97; 116; 101] with k_date.
  change [115; 99; 104; 101; 109; 97] with k_schema.
  destruct (find (fun x => bytes_eqb (thash hash x) (m_tptr m)) (elements (get_tree pk (pseus s)))) as [tok|] eqn:EF;
    cbn [negb]; [|reflexivity].
  cbn beta iota. rewrite ?EF. cbn beta iota. cbn [t_chash].
  rewrite !mem_keys.
  destruct (has_field k_name kv) eqn:F1; cbn [negb orb andb]; [|reflexivity].
  destruct (has_field k_date kv) eqn:F2; cbn [negb orb andb]; [|reflexivity].
  destruct (has_field k_schema kv) eqn:F3; cbn [negb orb andb]; [|reflexivity].
  destruct (alookup (t_chash tok) (known s)) as [e|] eqn:EK; cbn [negb]; [|reflexivity].
  cbn beta iota. rewrite ?EK. cbn beta iota.
  destruct (bytes_eqb pk (e_key e)); cbn [negb]; [|reflexivity].
  cbn beta iota. rewrite ?EK. cbn beta iota.
  replace (now >? e_time e + 300) with (e_time e + 300 <? now) by lia.
  destruct (e_time e + 300 <? now); [reflexivity|].
  cbn beta iota. rewrite ?EK. cbn beta iota.
  unfold has_field in F1. unfold opt_eqb.
  destruct (alookup k_name kv) as [nm|] eqn:EN; [|discriminate].
  cbn beta iota.
  destruct (bytes_eqb nm (e_name e)); cbn [negb]; [|reflexivity].
  cbn beta iota. rewrite ?EK. cbn beta iota.
  assert (LOOP : forall st ou,
     mfor (atts_over (datt st) (md_hash hash m))
       (fun (x_ : attestation) (_ : unit) (s3 : state) (o3 : list output) =>
          let (p1, r1) :=
            let (p1, r1) := ENV g_get_authority x_ s3 o3 in
            let (s4, o4) := p1 in
            match r1 with
            | Ok a1 => (s4, o4, Ok (bytes_eqb a1 me))
            | Raise e0 => (s4, o4, Raise e0)
            end in
          let (s4, o4) := p1 in
          match r1 with
          | Ok a1 => (if a1 then fun s5 o5 => (s5, o5, Ok (CRet false)) else fun s5 o5 => (s5, o5, Ok (CNext tt))) s4 o4
          | Raise e0 => (s4, o4, Raise e0)
          end) tt st ou
     = (st, ou, Ok (if already me (datt st) (md_hash hash m) then inr false else inl tt))).
  { intros st ou. rewrite <- already_loop. apply mfor_find. intros x Hx.
    rewrite g_get_authority_eq, sql_first_find. destruct (atts_over_find _ _ _ Hx) as [r Fr]. rewrite Fr.
    unfold by_me. rewrite Fr. destruct (bytes_eqb (r_auth r) me); reflexivity. }
  destruct (e_md e) as [md|] eqn:EMD; cbn [opt_is_none negb]; cbn beta iota.
  - cbn [bind]. rewrite extras_filter. rewrite ?EK. cbn beta iota. rewrite ?EMD. unfold dict_ne_opt.
    destruct (negb (dict_eqb (extras kv) md)); cbn beta iota; [reflexivity|].
    rewrite g_get_attestations_over_eq. rewrite LOOP.
    destruct (already me (datt s) (md_hash hash m)); reflexivity.
  - rewrite g_get_attestations_over_eq. rewrite LOOP.
    destruct (already me (datt s) (md_hash hash m)); reflexivity.
Qed.

(* ---------------------------------------------------------------- the signing loop *)
Definition m_res (x : option exn) : res (unit + unit) := match x with None => Ok (inl tt) | Some e => Raise e end.

Lemma sign_loop_gen (body : metadata * list attestation -> unit -> M (ctl unit unit)) pk (g : metadata -> list attestation) :
  (forall c s o, body c tt s o =
     match should_sign hash parse me s now pk (get_tree pk (pseus s)) (fst c) with
     | Raise e => (s, o, Raise e)
     | Ok false => (s, o, Ok (CNext tt))
     | Ok true =>
         (set_datt s (fst (add_att sigverify true pk me (mkAtt (md_hash hash (fst c)) (mysign (md_hash hash (fst c)))) (datt s))),
          o ++ [OAttest pk (mkAtt (md_hash hash (fst c)) (mysign (md_hash hash (fst c))))], Ok (CNext tt))
     end) ->
  forall mds s o tr, tr = get_tree pk (pseus s) ->
    mfor (map (fun m => (m, g m)) mds) body tt s o =
    (fst (fst (sign_loop hash sigverify mysign parse me true s now pk tr mds)),
     o ++ snd (fst (sign_loop hash sigverify mysign parse me true s now pk tr mds)),
     m_res (snd (sign_loop hash sigverify mysign parse me true s now pk tr mds))).
Proof.
  intros H. induction mds as [|m mds IH]; intros s o tr Etr.
  - simpl. rewrite app_nil_r. reflexivity.
  - cbn [map mfor sign_loop]. unfold mbind at 1. rewrite H. cbn [fst]. rewrite <- Etr.
    destruct (should_sign hash parse me s now pk tr m) as [[|]|e].
    + set (a := mkAtt (md_hash hash m) (mysign (md_hash hash m))).
      set (s' := set_datt s (fst (add_att sigverify true pk me a (datt s)))).
      rewrite (IH s' _ tr); [|subst s'; exact Etr].
      destruct (sign_loop hash sigverify mysign parse me true s' now pk tr mds) as [[s2 outs] x]. cbn [fst snd].
      rewrite <- app_assoc. reflexivity.
    + apply IH. exact Etr.
    + simpl. rewrite app_nil_r. reflexivity.
Qed.

(* ---------------------------------------------------------------- _received_disclosure_for_attest *)
Definition wf (s : state) : Prop := NoDup (map fst (known s)).
Definition as_m (r : state * list output * option exn) (o : list output) : state * list output * res unit :=
  (fst (fst r), o ++ snd (fst r), match snd r with None => Ok tt | Some e => Raise e end).

Ltac read_required s1 K1 WF peer :=
  unfold mbind at 1; unfold mbind at 1; unfold mbind at 1; unfold mget at 1, mret at 1;
  rewrite (mfilter_pure _ (fun k st => match alookup k (known st) with Some e => bytes_eqb (e_key e) peer | None => false end));
  [|let k := fresh "k" in let Hk := fresh "Hk" in let v := fresh "v" in let Ev := fresh "Ev" in
    intros k Hk; mstep; unfold k_get; destruct (alookup_key_in k (known s1) Hk) as [v Ev]; rewrite Ev; reflexivity];
  rewrite filter_keys; [|rewrite K1; exact WF].
Ltac read_known_attributes :=
  unfold mbind at 1; unfold mbind at 1; unfold mget at 1, mret at 1; unfold tree_elements at 1.

Lemma g_received_eq peer mds toks atts fail s o :
  wf s ->
  ENV g_received_disclosure_for_attest peer ((mds, fail_is fail 1), (toks, fail_is fail 0), tt, (atts, fail_is fail 2)) s o
  = as_m (recv_disclosure hash sigverify mysign parse me true s now peer mds toks atts fail) o.
Proof.
  intros WF. unfold g_received_disclosure_for_attest, recv_disclosure, as_m.
  unfold mbind at 1. unfold mbind at 1. unfold mbind at 1. unfold mget at 1, mret at 1, mret at 1.
  rewrite existsb_map.
  destruct (existsb (fun x => bytes_eqb (e_key (snd x)) peer) (known s)) eqn:SOL; cbn [negb].
  2:{ unfold mbind, mret. simpl. rewrite app_nil_r. reflexivity. }
  unfold mbind at 1. unfold mbind at 1.
  rewrite g_substantiate_eq.
  pose proof (substantiate_spec hash sigverify true s peer mds toks atts fail) as SP.
  destruct (substantiate hash sigverify true s peer mds toks atts fail) as [s1 r] eqn:SB. cbn [fst snd].
  destruct (SP _ _ eq_refl) as [[K1 _] _]. clear SP.
  destruct r as [correct|e]; [|simpl; rewrite app_nil_r; reflexivity].
  (* the two independent reads (required_attributes, known_attributes), in either order *)
  first [ read_required s1 K1 WF peer; read_known_attributes | read_known_attributes; read_required s1 K1 WF peer ].
  set (required := map fst (filter (fun kv => bytes_eqb (e_key (snd kv)) peer) (known s1))).
  set (tr := get_tree peer (pseus s1)).
  set (kattrs := map (fun v_token => t_chash v_token) (elements tr)).
  change (map t_chash (elements tr)) with kattrs.
  cbv zeta.
  assert (REQ : forall (body : bytes -> unit -> M (ctl unit unit)) (s2 : state), pseus s2 = pseus s1 ->
     (forall x o3, body x tt s2 o3 =
        (let c_ := negb (mem x kattrs) in
         mbind (if c_ then mbind (mbind (mbind (mget (tree_elements peer)) (fun a13_ => mret (length a13_)))
                                        (fun a14_ => msend (OReqMissing peer a14_))) (fun _ => mret tt)
                else mret tt) (fun _ => mret (CNext tt))) s2 o3) ->
     forall o2, mfor required body tt s2 o2
     = (s2, o2 ++ map (fun _ => OReqMissing peer (length (elements tr))) (filter (fun h => negb (mem h kattrs)) required), Ok (inl tt))).
  { intros body s2 Ep Hb o2. apply (mfor_send _ (fun h => negb (mem h kattrs))). intros x o3. rewrite Hb. mstep.
    cbv zeta. destruct (negb (mem x kattrs)); cbn beta iota.
    - unfold tree_elements. rewrite Ep. reflexivity.
    - rewrite app_nil_r. reflexivity. }
  destruct (correct && existsb (fun h => mem h kattrs) required) eqn:GO.
  - unfold mbind at 1. unfold mbind at 1. rewrite g_get_credentials_eq.
    unfold mbind at 1.
    rewrite (sign_loop_gen _ peer (fun m => atts_over (datt s1) (md_hash hash m)) ) with (tr := tr); [|intros c st ou|reflexivity].
    2:{ unfold mbind at 1. rewrite g_should_sign_eq.
        destruct (should_sign hash parse me st now peer (get_tree peer (pseus st)) (fst c)) as [[|]|e]; [|reflexivity|reflexivity].
        unfold mbind at 1. unfold mbind at 1. rewrite g_create_attestation_eq.
        unfold mbind at 1. rewrite g_add_attestation_eq. reflexivity. }
    pose proof (sign_loop_spec hash sigverify mysign parse me true now peer tr (credentials_of peer (dmd s1)) s1) as SL.
    destruct (sign_loop hash sigverify mysign parse me true s1 now peer tr (credentials_of peer (dmd s1))) as [[s3 outs3] x3] eqn:ESL.
    destruct (SL _ _ _ eq_refl) as [[_ [Ps _]] _]. clear SL. cbn [fst snd].
    destruct x3 as [e3|]; cbn [m_res].
    + reflexivity.
    + cbn beta iota. unfold mret at 1. unfold mbind at 1.
      rewrite (REQ _ s3 Ps); [|intros; reflexivity]. cbn beta iota. unfold mret. cbn [fst snd]. rewrite app_assoc. reflexivity.
  - unfold mbind at 1. unfold mret at 1.
    unfold mbind at 1. rewrite (REQ _ s1 eq_refl); [|intros; reflexivity]. cbn beta iota. unfold mret. reflexivity.
Qed.

(* ---------------------------------------------------------------- the other handlers *)
Lemma g_on_disclosure_eq peer mds toks atts fail s o : wf s ->
  ENV g_on_disclosure peer ((mds, fail_is fail 1), (toks, fail_is fail 0), tt, (atts, fail_is fail 2)) s o
  = as_m (recv_disclosure hash sigverify mysign parse me true s now peer mds toks atts fail) o.
Proof.
  intros WF. unfold g_on_disclosure, pd_mds, pd_toks, pd_atts, pd_auths. cbn [fst snd]. unfold mbind.
  match goal with |- context [g_received_disclosure_for_attest ?a1 ?a2 ?a3 ?a4 ?a5 ?a6 ?a7 ?a8 ?a9 ?a10 ?b ?c ?d ?e] =>
    replace (g_received_disclosure_for_attest a1 a2 a3 a4 a5 a6 a7 a8 a9 a10 b c d e)
      with (as_m (recv_disclosure hash sigverify mysign parse me true s now peer mds toks atts fail) o)
      by (symmetry; apply g_received_eq; exact WF) end.
  unfold as_m.
  destruct (recv_disclosure hash sigverify mysign parse me true s now peer mds toks atts fail) as [[s2 outs] [e|]]; reflexivity.
Qed.

Lemma g_on_missing_response_eq peer toks (fail : bool) s o : wf s ->
  ENV g_on_missing_response peer (toks, fail) s o
  = as_m (recv_disclosure hash sigverify mysign parse me true s now peer [] toks [] (if fail then Some 0%nat else None)) o.
Proof.
  intros WF. unfold g_on_missing_response, mbind.
  destruct fail.
  - match goal with |- context [g_received_disclosure_for_attest ?a1 ?a2 ?a3 ?a4 ?a5 ?a6 ?a7 ?a8 ?a9 ?a10 ?b ?c ?d ?e] =>
      replace (g_received_disclosure_for_attest a1 a2 a3 a4 a5 a6 a7 a8 a9 a10 b c d e)
        with (as_m (recv_disclosure hash sigverify mysign parse me true s now peer [] toks [] (Some 0%nat)) o)
        by (symmetry; apply (g_received_eq peer [] toks [] (Some 0%nat)); exact WF) end.
    unfold as_m.
    destruct (recv_disclosure hash sigverify mysign parse me true s now peer [] toks [] (Some 0%nat)) as [[s2 outs] [e|]]; reflexivity.
  - match goal with |- context [g_received_disclosure_for_attest ?a1 ?a2 ?a3 ?a4 ?a5 ?a6 ?a7 ?a8 ?a9 ?a10 ?b ?c ?d ?e] =>
      replace (g_received_disclosure_for_attest a1 a2 a3 a4 a5 a6 a7 a8 a9 a10 b c d e)
        with (as_m (recv_disclosure hash sigverify mysign parse me true s now peer [] toks [] None) o)
        by (symmetry; apply (g_received_eq peer [] toks [] None); exact WF) end.
    unfold as_m.
    destruct (recv_disclosure hash sigverify mysign parse me true s now peer [] toks [] None) as [[s2 outs] [e|]]; reflexivity.
Qed.

Lemma g_on_attest_eq peer a s o :
  ENV g_on_attest peer a s o = as_m (step hash sigverify mysign parse g_norm me rhl rsl true s now (EAttest peer a)) o.
Proof.
  unfold g_on_attest, as_m. cbn [step]. destruct a as [a|]; mstep; cbn [rt_att_unserialize].
  - rewrite g_add_attestation_eq. simpl. rewrite app_nil_r. reflexivity.
  - simpl. rewrite app_nil_r. reflexivity.
Qed.

Lemma g_add_known_hash_eq h name key md s o :
  ENV g_add_known_hash h name key md s o
  = as_m (step hash sigverify mysign parse g_norm me rhl rsl true s now (EKnown h name key md)) o.
Proof.
  unfold g_add_known_hash, g_pad_hash, as_m, g_norm. cbn [step]. cbv zeta.
  destruct (Z.of_nat (length h) =? 20); mstep; simpl; rewrite app_nil_r; reflexivity.
Qed.

Lemma wtoks_len_snoc out t : wtoks_len rhl rsl (out ++ [t]) = wtoks_len rhl rsl out + tokw rhl rsl.
Proof. unfold wtoks_len. rewrite app_length. simpl. lia. Qed.

Lemma collect_gen (body : nat * token -> list token -> M (ctl (list token) unit)) kn :
  (forall i t out s o, body (i, t) out s o =
     (s, o, Ok (if Z.of_nat i >=? kn
                then if wtoks_len rhl rsl out + tokw rhl rsl >? 1296 then CBreak out else CNext (out ++ [t])
                else CNext out))) ->
  forall l i out s o,
    mfor (enumerate_from i l) body out s o =
    (s, o, Ok (inl (out ++ collect rhl rsl l (Z.of_nat i) kn (wtoks_len rhl rsl out)))).
Proof.
  intros H. induction l as [|t l IH]; intros i out s o.
  - simpl. rewrite app_nil_r. reflexivity.
  - cbn [enumerate_from mfor collect]. unfold mbind at 1. rewrite H.
    replace (kn <=? Z.of_nat i) with (Z.of_nat i >=? kn) by lia.
    destruct (Z.of_nat i >=? kn).
    + replace (1296 <? wtoks_len rhl rsl out + tokw rhl rsl) with (wtoks_len rhl rsl out + tokw rhl rsl >? 1296) by lia.
      destruct (wtoks_len rhl rsl out + tokw rhl rsl >? 1296).
      * simpl. rewrite app_nil_r. reflexivity.
      * rewrite IH. rewrite wtoks_len_snoc, <- app_assoc. simpl. repeat f_equal. lia.
    + rewrite IH. repeat f_equal. lia.
Qed.

Lemma g_on_request_missing_eq peer kn s o :
  ENV g_on_request_missing peer kn s o
  = as_m (step hash sigverify mysign parse g_norm me rhl rsl true s now (EReqMissing peer kn)) o.
Proof.
  unfold g_on_request_missing, as_m. cbn [step]. unfold req_missing, perm_of, k_get_default.
  cbv zeta. unfold mbind at 1. unfold mbind at 1. unfold mget at 1. unfold mbind at 1. unfold mbind at 1.
  unfold mget at 1, mret at 1, mret at 1.
  unfold mbind at 1.
  rewrite (collect_gen _ kn).
  - cbn beta iota. simpl. unfold mbind, msend, mret. simpl. reflexivity.
  - intros i t out s0 o0. cbn beta iota zeta.
    destruct (Z.of_nat i >=? kn); [|reflexivity].
    destruct (wtoks_len rhl rsl out + tokw rhl rsl >? 1296); reflexivity.
Qed.

(* ---------------------------------------------------------------- advertisements *)
Lemma nonempty_last {A} (l : list A) :
  (nonempty l = true -> exists x, last_opt l = Some x) /\ (nonempty l = false -> last_opt l = None).
Proof.
  split.
  - induction l as [|x l IH]; [discriminate|]. intros _. destruct l as [|y l]; [exists x; reflexivity|]. apply IH. reflexivity.
  - destruct l; [reflexivity|discriminate].
Qed.

Definition adv_tok (s : state) (h : bytes) : token :=
  let tr0 := get_tree me (pseus s) in
  let prev := match last_opt (mdchain s) with
              | None => genesis hash me
              | Some after => match find_key hash (m_tptr after) (elements tr0) with
                              | Some tk => thash hash tk
                              | None => genesis hash me
                              end
              end in
  mkToken prev (g_norm h) (mysign (prev ++ g_norm h)) None.

Lemma g_create_credential_eq h after s o :
  after = last_opt (mdchain s) ->
  ENV g_create_credential me (g_norm h) tt after s o =
  let tok := adv_tok s h in
  let tr1 := append_elem hash (get_tree me (pseus s)) tok in
  let md := mkMd (thash hash tok) json_out (mysign (thash hash tok ++ json_out)) in
  match gather_top hash sigverify me tr1 tok with
  | Raise e => (set_pseus s (aset me tr1 (pseus s)), o, Raise e)
  | Ok (tr2, r) =>
      let s1 := set_pseus s (aset me tr2 (pseus s)) in
      match r with
      | None => (s1, o, Ok None)
      | Some _ => if md_verify sigverify me md
                  then (set_dmd s1 (insert_md me md (dmd s1)), o, Ok (Some (md, [])))
                  else (s1, o, Ok None)
      end
  end.
Proof.
  intros Ea. unfold g_create_credential.
  assert (PRE : (match after with
                 | None => mret None
                 | Some v_after => mbind (mget (tree_elements me)) (fun a1_ => mret (find_key hash (m_tptr v_after) a1_))
                 end) s o
                = (s, o, Ok (match after with None => None | Some a => find_key hash (m_tptr a) (elements (get_tree me (pseus s))) end))).
  { destruct after; reflexivity. }
  rewrite (mbind_ok _ _ _ _ _ _ _ PRE). clear PRE.
  unfold mbind at 1. unfold with_tree at 1, rt_add_by_hash. cbn beta iota zeta.
  set (tok := mkToken _ (g_norm h) _ None).
  assert (Et : tok = adv_tok s h).
  { unfold tok, adv_tok. rewrite <- Ea. destruct after as [a|]; [|reflexivity].
    destruct (find_key hash (m_tptr a) (elements (get_tree me (pseus s)))); reflexivity. }
  rewrite Et. clear Et tok. set (tok := adv_tok s h).
  set (tr1 := append_elem hash (get_tree me (pseus s)) tok).
  unfold g_add_credential. cbn [opt_or]. cbv zeta.
  unfold mbind at 1. unfold mbind at 1. unfold mbind at 1. unfold mbind at 1.
  unfold with_tree, rt_gather_token. cbn [pseus set_pseus]. rewrite get_tree_aset_same.
  destruct (gather_top hash sigverify me tr1 tok) as [[tr2 r]|e]; cbn beta iota; rewrite aset_aset;
    [|reflexivity].
  unfold mret at 1. unfold mret at 1. cbn beta iota.
  assert (ES : set_pseus (set_pseus s (aset me tr1 (pseus s))) (aset me tr2 (pseus s)) = set_pseus s (aset me tr2 (pseus s))) by reflexivity.
  rewrite ES. clear ES.
  destruct r as [r|]; cbn [opt_is_none negb]; [|reflexivity].
  rewrite gmd_ver. unfold new_md_signed. cbn [m_tptr]. rewrite bytes_eqb_refl, andb_true_r.
  destruct (md_verify sigverify me (mkMd (thash hash tok) json_out (mysign (thash hash tok ++ json_out)))); [|reflexivity].
  unfold mbind at 1. rewrite g_insert_metadata_eq. cbv zeta. reflexivity.
Qed.

Definition adv_core (s : state) (h : bytes) : state * res (option (metadata * list attestation)) :=
  let tok := adv_tok s h in
  let tr1 := append_elem hash (get_tree me (pseus s)) tok in
  let md := mkMd (thash hash tok) json_out (mysign (thash hash tok ++ json_out)) in
  match gather_top hash sigverify me tr1 tok with
  | Raise e => (set_pseus s (aset me tr1 (pseus s)), Raise e)
  | Ok (tr2, r) =>
      let s1 := set_pseus s (aset me tr2 (pseus s)) in
      match r with
      | None => (s1, Ok None)
      | Some _ =>
          if md_verify sigverify me md then
            let s2 := set_dmd s1 (insert_md me md (dmd s1)) in
            match find_key hash (thash hash tok) (elements tr2) with
            | None => (set_chains s2 (chain s2) (mdchain s2 ++ [md]), Raise KeyError)
            | Some tk => (set_chains s2 (chain s2 ++ [tk]) (mdchain s2 ++ [md]), Ok (Some (md, [])))
            end
          else (s1, Ok None)
      end
  end.

Lemma g_self_advertise_eq h n b md0 s o :
  ENV g_self_advertise h n b md0 s o = (fst (adv_core s h), o, snd (adv_core s h)).
Proof.
  unfold g_self_advertise. cbv zeta.
  assert (PAD : (if Z.of_nat (length h) =? 20
                 then mbind (ENV g_pad_hash h) (fun v_attribute_hash => mret v_attribute_hash)
                 else mret h) s o = (s, o, Ok (g_norm h))).
  { unfold g_norm, g_pad_hash. destruct (Z.of_nat (length h) =? 20); reflexivity. }
  rewrite (mbind_ok _ _ _ _ _ _ _ PAD). clear PAD.
  assert (AFT : (mbind (mbind (mget mdchain) (fun a1_ => mret (nonempty a1_)))
                   (fun a4_ : bool => if a4_ then mbind (mbind (mget mdchain) (fun a2_ => mlift (list_last a2_))) (fun a3_ => mret (Some a3_))
                                      else mret None)) s o = (s, o, Ok (last_opt (mdchain s)))).
  { mstep. unfold list_last. destruct (nonempty_last (mdchain s)) as [N1 N2].
    destruct (nonempty (mdchain s)).
    - destruct (N1 eq_refl) as [x Ex]. rewrite Ex. reflexivity.
    - rewrite (N2 eq_refl). reflexivity. }
  unfold mbind at 1. unfold mbind at 1. rewrite AFT. clear AFT.
  rewrite (g_create_credential_eq h _ s o eq_refl). cbv zeta. unfold adv_core.
  destruct (gather_top hash sigverify me (append_elem hash (get_tree me (pseus s)) (adv_tok s h)) (adv_tok s h)) as [[tr2 r]|e];
    [|reflexivity].
  destruct r as [r|]; [|reflexivity].
  destruct (md_verify sigverify me (mkMd (thash hash (adv_tok s h)) json_out (mysign (thash hash (adv_tok s h) ++ json_out))));
    [|reflexivity].
  mstep. cbn [fst m_tptr]. unfold tree_elements, d_get. cbn [pseus set_pseus set_dmd set_chains].
  rewrite get_tree_aset_same. unfold find_key.
  destruct (find (fun x => bytes_eqb (thash hash x) (thash hash (adv_tok s h))) (elements tr2)); reflexivity.
Qed.

Lemma adv_core_none h s o :
  (fst (adv_core s h), o, match snd (adv_core s h) with Ok _ => Ok tt | Raise e => Raise e end)
  = as_m (advertise hash sigverify mysign g_norm me rhl rsl s None h json_out jlen) o.
Proof.
  unfold adv_core, advertise, as_m. fold (adv_tok s h). cbv zeta.
  destruct (gather_top hash sigverify me (append_elem hash (get_tree me (pseus s)) (adv_tok s h)) (adv_tok s h)) as [[tr2 r]|e];
    [|simpl; rewrite app_nil_r; reflexivity].
  destruct r as [r|]; [|simpl; rewrite app_nil_r; reflexivity].
  destruct (md_verify sigverify me (mkMd (thash hash (adv_tok s h)) json_out (mysign (thash hash (adv_tok s h) ++ json_out))));
    cbn [negb]; [|simpl; rewrite app_nil_r; reflexivity].
  cbn [m_tptr].
  destruct (find_key hash (thash hash (adv_tok s h)) (elements tr2)); simpl; rewrite app_nil_r; reflexivity.
Qed.

Lemma g_request_eq p h n b md0 s o :
  ENV g_request_attestation_advertisement p h n b md0 s o
  = as_m (advertise hash sigverify mysign g_norm me rhl rsl s (Some p) h json_out jlen) o.
Proof.
  unfold g_request_attestation_advertisement. unfold mbind at 1. rewrite g_self_advertise_eq.
  unfold adv_core, advertise, as_m. fold (adv_tok s h). cbv zeta.
  destruct (gather_top hash sigverify me (append_elem hash (get_tree me (pseus s)) (adv_tok s h)) (adv_tok s h)) as [[tr2 r]|e];
    [|simpl; rewrite app_nil_r; reflexivity].
  destruct r as [r|]; [|simpl; rewrite app_nil_r; reflexivity].
  destruct (md_verify sigverify me (mkMd (thash hash (adv_tok s h)) json_out (mysign (thash hash (adv_tok s h) ++ json_out))));
    cbn [negb]; [|simpl; rewrite app_nil_r; reflexivity].
  cbn [m_tptr].
  destruct (find_key hash (thash hash (adv_tok s h)) (elements tr2)) as [tk|] eqn:FK; [|simpl; rewrite app_nil_r; reflexivity].
  cbn [fst snd]. mstep. unfold rt_disclose, rt_send_disclosure, msend. cbn [map fst m_tptr].
  cbn [pseus set_pseus set_dmd set_chains set_perms]. rewrite get_tree_aset_same. rewrite FK.
  cbn [chain set_chains set_dmd set_pseus].
  destruct (tree_verify hash sigverify me tr2 tk 1000); cbn [negb]; simpl; rewrite ?app_nil_r; reflexivity.
Qed.
End Gen.

(* ---------------------------------------------------------------- the step, the invariant, whole histories *)
Section Top.
Variable hash : bytes -> bytes.
Variable sigverify : bytes -> bytes -> bytes -> bool.
Variable mysign : bytes -> bytes.
Variable parse : bytes -> jdoc.
Variable me : bytes.
Variable rhl rsl : nat.

Notation hstep := (step hash sigverify mysign parse g_norm me rhl rsl true).
Notation hrun := (run hash sigverify mysign parse g_norm me rhl rsl true).
Notation gstep := (g_step hash sigverify mysign parse me rhl rsl).
Notation grun := (g_run hash sigverify mysign parse me rhl rsl).

Lemma run_m_of {A} (m : M A) s (r : state * list output * option exn) (q : res A) :
  m s [] = (fst (fst r), [] ++ snd (fst r), q) ->
  (match q with Ok _ => None | Raise e => Some e end) = snd r ->
  run_m m s = r.
Proof.
  intros H1 H2. unfold run_m. rewrite H1. destruct r as [[s1 o1] x]. simpl in *. subst x. destruct q; reflexivity.
Qed.

Lemma run_m_as (m : M unit) s r : m s [] = as_m r [] -> run_m m s = r.
Proof.
  intros H. unfold run_m. rewrite H. unfold as_m. destruct r as [[s1 o1] [e|]]; reflexivity.
Qed.

Lemma gen_step_refines_l s now ev : wf s -> gstep s now ev = hstep s now ev.
Proof.
  intros WF. destruct ev as [h name key md|[p|] h json jl|p mds toks atts fail|p toks fail|p a|p kn]; unfold g_step.
  - apply run_m_as. apply g_add_known_hash_eq.
  - apply run_m_as. apply g_request_eq.
  - unfold run_m. rewrite g_self_advertise_eq. cbn [step].
    pose proof (adv_core_none hash sigverify mysign me rhl rsl json jl h s []) as H. unfold as_m in H.
    destruct (advertise hash sigverify mysign g_norm me rhl rsl s None h json jl) as [[s1 o1] x].
    cbn [fst snd] in H. inversion H as [[H1 H2 H3]]. rewrite H1.
    destruct (snd (adv_core hash sigverify mysign me json s h)) as [c|e]; destruct x; try discriminate; try reflexivity.
    inversion H3. reflexivity.
  - apply run_m_as. apply g_on_disclosure_eq. exact WF.
  - apply run_m_as. apply g_on_missing_response_eq. exact WF.
  - apply run_m_as. apply g_on_attest_eq.
  - apply run_m_as. apply g_on_request_missing_eq.
Qed.

Lemma aset_keys {V} k (v : V) l : NoDup (map fst l) -> NoDup (map fst (aset k v l)).
Proof.
  induction l as [|[k' v'] l IH]; intros N; simpl.
  - constructor; [intros []|constructor].
  - inversion N as [|? ? Nk Nl]; subst. destruct (bytes_eqb k' k) eqn:E; simpl; [constructor; assumption|].
    constructor; [|apply IH; assumption].
    intros Hin. apply Nk. clear - Hin E. induction l as [|[k2 v2] l IHl]; simpl in *.
    + destruct Hin as [H|[]]. subst. rewrite bytes_eqb_refl in E. discriminate.
    + destruct (bytes_eqb k2 k); simpl in Hin; destruct Hin as [H|H]; auto.
Qed.

Lemma wf_step s now ev : wf s -> wf (st_of (hstep s now ev)).
Proof.
  unfold wf. intros WF. rewrite (step_known hash sigverify mysign parse g_norm me rhl rsl true).
  destruct ev; try exact WF. apply aset_keys. exact WF.
Qed.

Lemma gen_run_refines_l : forall evs s, wf s -> grun s evs = hrun s evs.
Proof.
  induction evs as [|[now ev] evs IH]; intros s WF; [reflexivity|].
  cbn [g_run run]. rewrite (gen_step_refines_l s now ev WF).
  pose proof (wf_step s now ev WF) as W1.
  destruct (hstep s now ev) as [[s1 o1] x1]. unfold st_of in W1. cbn [fst] in W1. rewrite (IH s1 W1). reflexivity.
Qed.

Lemma gen_init_l : g_initial hash sigverify mysign parse me rhl rsl = (init me, [], None).
Proof.
  unfold g_initial, run_m, g_init.
  erewrite mbind_ok; [|reflexivity].
  erewrite mbind_ok; [|apply g_get_pseudonym_eq].
  cbn [k_has alookup pseus blank set_known].
  erewrite mbind_ok; [|reflexivity]. erewrite mbind_ok; [|reflexivity]. erewrite mbind_ok; [|reflexivity].
  erewrite mbind_ok; [|reflexivity].
  unfold tree_elements at 1, get_tree at 1. cbn [pseus set_pseus set_chains set_perms set_known blank aset alookup].
  rewrite bytes_eqb_refl. cbn [elements empty_tree mfor].
  erewrite mbind_ok; [|reflexivity]. cbn iota beta.
  erewrite mbind_ok; [|apply g_get_credentials_eq].
  cbn [dmd set_pseus set_chains set_perms set_known blank credentials_of filter map dedup_by mfor].
  erewrite mbind_ok; [|reflexivity]. cbn iota beta. reflexivity.
Qed.

Lemma gen_histories_refine_l evs : grun (init me) evs = hrun (init me) evs.
Proof. apply gen_run_refines_l. unfold wf. simpl. constructor. Qed.

Lemma wf_final : forall evs s, wf s -> wf (fst (hrun s evs)).
Proof.
  induction evs as [|[now ev] evs IH]; intros s WF; [exact WF|].
  cbn [run]. pose proof (wf_step s now ev WF) as W1.
  destruct (hstep s now ev) as [[s1 o1] x1]. unfold st_of in W1. cbn [fst] in W1.
  specialize (IH s1 W1). destruct (hrun s1 evs) as [s2 tr]. exact IH.
Qed.

Lemma wf_init : wf (init me).
Proof. unfold wf. simpl. constructor. Qed.

Lemma gen_step_reachable_l pre now ev :
  gstep (fst (grun (init me) pre)) now ev = hstep (fst (hrun (init me) pre)) now ev.
Proof. rewrite gen_histories_refine_l. apply gen_step_refines_l. apply wf_final. apply wf_init. Qed.

(* ---- the theorems of props/C17.v, over the translated functions *)
Lemma gen_sign_requires_consent_l pre now ev p a :
  In (OAttest p a) (outs_of (gstep (fst (grun (init me) pre)) now ev)) ->
  sender_of ev = Some p /\ is_disclosure ev = true /\
  Forall (fun t => tverify sigverify p t = true) (tokens_of ev) /\
  Forall (fun aa => att_verify sigverify (fst aa) (snd aa) = true) (atts_of ev) /\
  exists m tok e,
    a = mkAtt (md_hash hash m) (mysign (md_hash hash m)) /\
    In (p, m) (dmd (st_of (gstep (fst (grun (init me) pre)) now ev))) /\ md_verify sigverify p m = true /\
    In tok (elements (get_tree p (pseus (st_of (gstep (fst (grun (init me) pre)) now ev))))) /\
    thash hash tok = m_tptr m /\
    (p <> me -> rooted hash sigverify p (elements (get_tree p (pseus (st_of (gstep (fst (grun (init me) pre)) now ev))))) tok) /\
    registration g_norm pre (t_chash tok) = Some e /\ consent parse e p now m /\
    already me (datt (fst (grun (init me) pre))) (md_hash hash m) = false.
Proof.
  rewrite gen_step_reachable_l, gen_histories_refine_l.
  exact (sign_requires_consent_l hash sigverify mysign parse g_norm me rhl rsl true pre now ev p a).
Qed.

Lemma gen_no_double_sign_l :
  (forall m, sigverify me m (mysign m) = true) ->
  (forall k1 k2 m1 m2 sg, sigverify k1 m1 sg = true -> sigverify k2 m2 sg = true -> k1 = k2) ->
  forall evs, NoDup (trace_ptrs (snd (grun (init me) evs))).
Proof.
  intros H1 H2 evs. rewrite gen_histories_refine_l.
  exact (no_double_sign_l hash sigverify mysign parse g_norm me rhl rsl H1 H2 evs).
Qed.

Lemma gen_attestations_valid_l evs :
  Forall (fun r => sigverify (r_auth r) (r_mptr r) (r_sig r) = true) (datt (fst (grun (init me) evs))).
Proof. rewrite gen_histories_refine_l. apply (attestations_valid_l hash sigverify mysign parse g_norm me rhl rsl true). Qed.

Lemma gen_tokens_only_up_to_permission_l pre now ev p toks :
  In (OMissingResp p toks) (outs_of (gstep (fst (grun (init me) pre)) now ev)) ->
  exists kn, ev = EReqMissing p kn /\
  forall tok, In tok toks ->
    exists i, nth_error (chain (fst (grun (init me) pre))) i = Some tok /\ kn <= Z.of_nat i /\
              (i < opened hash sigverify mysign parse g_norm me rhl rsl true pre p)%nat.
Proof.
  rewrite gen_step_reachable_l, gen_histories_refine_l.
  exact (tokens_only_up_to_permission_l hash sigverify mysign parse g_norm me rhl rsl true pre now ev p toks).
Qed.
End Top.

(* the handler table of __init__ and the packet limit are the ones the glue / the hand model assume *)
Definition expected_handlers : list (bytes * bytes) :=
  [([68; 105; 115; 99; 108; 111; 115; 101; 80; 97; 121; 108; 111; 97; 100], [111; 110; 95; 100; 105; 115; 99; 108; 111; 115; 117; 114; 101]);
   ([65; 116; 116; 101; 115; 116; 80; 97; 121; 108; 111; 97; 100], [111; 110; 95; 97; 116; 116; 101; 115; 116]);
   ([82; 101; 113; 117; 101; 115; 116; 77; 105; 115; 115; 105; 110; 103; 80; 97; 121; 108; 111; 97; 100],
    [111; 110; 95; 114; 101; 113; 117; 101; 115; 116; 95; 109; 105; 115; 115; 105; 110; 103]);
   ([77; 105; 115; 115; 105; 110; 103; 82; 101; 115; 112; 111; 110; 115; 101; 80; 97; 121; 108; 111; 97; 100],
    [111; 110; 95; 109; 105; 115; 115; 105; 110; 103; 95; 114; 101; 115; 112; 111; 110; 115; 101])].
Lemma gen_handlers_l : g_handler_table = expected_handlers /\ g_safe_udp_packet_length = 1296.
Proof. split; reflexivity. Qed.
