(* C15 - tokens, the store / store-peer gates, and invariants over arbitrary operation sequences. *)
From Coq Require Import ZArith List Bool Lia ZifyBool Arith.
From IPV8V Require Import lib.PyErr lib.Bytes lib.BE gen.G15_consts model.M15_dht_store
  proofs.P15_storage proofs.P15_codec.
Import ListNotations.
Open Scope Z_scope.

(* ---- generic list facts ---- *)
Lemma app_eq_len_tail {A} (a c b d : list A) : a ++ b = c ++ d -> length b = length d -> a = c /\ b = d.
Proof.
  revert c; induction a as [|x a IH]; intros c H Hl.
  - destruct c as [|y c]; [auto|]. cbn [app] in H. subst b. cbn [length] in Hl. rewrite app_length in Hl. lia.
  - destruct c as [|y c].
    + cbn [app] in H. subst d. cbn [length] in Hl. rewrite app_length in Hl. lia.
    + cbn [app] in H. inversion H; subst. destruct (IH c H2 Hl) as [-> ->]. auto.
Qed.

(* the first occurrence of x splits a list uniquely *)
Lemma split_first_unique {A} (x : A) (a a' r r' : list A) :
  ~ In x a -> ~ In x a' -> a ++ x :: r = a' ++ x :: r' -> a = a' /\ r = r'.
Proof.
  revert a'; induction a as [|y a IH]; intros a' Ha Ha' H.
  - destruct a' as [|y' a']; cbn [app] in H; [inversion H; auto|].
    inversion H; subst. exfalso. apply Ha'. left. reflexivity.
  - destruct a' as [|y' a']; cbn [app] in H.
    + inversion H; subst. exfalso. apply Ha. left. reflexivity.
    + inversion H; subst. destruct (IH a') as [-> ->]; auto.
      * intro F. apply Ha. right. exact F.
      * intro F. apply Ha'. right. exact F.
Qed.

Lemma In_skipn {A} (l : list A) n x : In x (skipn n l) -> In x l.
Proof.
  revert n; induction l as [|y l IH]; intros n H; [destruct n; exact H|].
  destruct n as [|n]; [exact H|]. right. eapply IH. exact H.
Qed.

Lemma skipn_skipn15 {A} (x y : nat) (l : list A) : skipn x (skipn y l) = skipn (x + y) l.
Proof.
  revert l; induction y as [|y IH]; intros l; [rewrite Nat.add_0_r; reflexivity|].
  destruct l as [|a l]; [rewrite !skipn_nil; reflexivity|].
  rewrite Nat.add_succ_r. cbn [skipn]. apply IH.
Qed.

Lemma lastn_app_lastn {A} n (l x : list A) : lastn n (lastn n l ++ x) = lastn n (l ++ x).
Proof.
  unfold lastn. rewrite !app_length, skipn_length.
  destruct (le_lt_dec (length l) n) as [Hle|Hgt].
  - replace (length l - n)%nat with 0%nat by lia. cbn [skipn]. f_equal. lia.
  - replace (length l - (length l - n) + length x - n)%nat with (length x) by lia.
    replace (length l + length x - n)%nat with (length x + (length l - n))%nat by lia.
    rewrite <- skipn_skipn15. f_equal.
    rewrite skipn_app. replace (length l - n - length l)%nat with 0%nat by lia. reflexivity.
Qed.

Lemma last_in_lastn {A} (a : list A) x r n :
  NoDup (a ++ x :: r) -> In x (lastn n (a ++ x :: r)) -> (length r < n)%nat.
Proof.
  intros Hnd Hin.
  destruct (le_lt_dec n (length r)) as [Hle|Hgt]; [|exact Hgt]. exfalso.
  unfold lastn in Hin. rewrite app_length in Hin. cbn [length] in Hin.
  replace (length a + S (length r) - n)%nat with (S (length r - n) + length a)%nat in Hin by lia.
  rewrite <- skipn_skipn15 in Hin. rewrite skipn_app, skipn_all, Nat.sub_diag in Hin. cbn [skipn app] in Hin.
  apply In_skipn in Hin. apply NoDup_remove_2 in Hnd. apply Hnd. apply in_or_app. right. exact Hin.
Qed.

(* the periods and bounds read from the source: server-side acceptance never outlives the documented validity *)
Lemma token_constants_l :
  TOKEN_SECRETS_MAXLEN * TOKEN_ROTATION_INTERVAL <= TOKEN_EXPIRATION_TIME /\ 1 <= TOKEN_SECRETS_MAXLEN
  /\ 0 <= TOKEN_ROTATION_INTERVAL.
Proof. cbv [TOKEN_SECRETS_MAXLEN TOKEN_ROTATION_INTERVAL TOKEN_EXPIRATION_TIME]. lia. Qed.

Section Token.
Variable hash : bytes -> bytes.
Variable enc : bytes -> bytes.
Variable verify : bytes -> bytes -> bytes -> bool.
Variable siglen : bytes -> res nat.

Notation ident := (ident hash enc).
Notation token_for := (token_for hash enc).
Notation check_token := (check_token hash enc).
Notation store_gate := (store_gate hash enc).
Notation on_store := (on_store hash enc verify siglen).
Notation on_store_peer := (on_store_peer hash enc).
Notation on_find := (on_find hash enc).
Notation step := (step hash enc verify siglen).
Notation run := (run hash enc verify siglen).
Notation unserialize := (unserialize verify siglen).
Notation add_value := (add_value hash verify siglen).
Notation add_values := (add_values hash verify siglen).
Notation put := (put hash).

Lemma check_token_iff st rq tok :
  check_token st rq tok = true <-> exists s, In s (secrets st) /\ tok = hash (ident rq ++ s).
Proof.
  unfold M15_dht_store.check_token. rewrite existsb_exists. split; intros [s [H1 H2]]; exists s; split; auto.
  - apply bytes_eqb_eq in H2. symmetry. exact H2.
  - apply bytes_eqb_eq. symmetry. exact H2.
Qed.

Lemma store_gate_iff st rq tok vals :
  store_gate st rq tok vals = true <->
  Forall (fun v => blen v <= MAX_ENTRY_SIZE) vals /\ Z.of_nat (length vals) <= MAX_VALUES_IN_STORE
  /\ exists s, In s (secrets st) /\ tok = hash (ident rq ++ s).
Proof.
  unfold M15_dht_store.store_gate. rewrite !andb_true_iff, !negb_true_iff, check_token_iff.
  assert (H : existsb (fun v => MAX_ENTRY_SIZE <? blen v) vals = false <-> Forall (fun v => blen v <= MAX_ENTRY_SIZE) vals).
  { induction vals as [|v vals IH]; cbn [existsb]; [split; [constructor | reflexivity]|].
    rewrite orb_false_iff, IH. split.
    - intros [H1 H2]. constructor; [lia | exact H2].
    - intros H. inversion H; subst. split; [lia | assumption]. }
  rewrite H. split.
  - intros [[H1 H2] H3]. split; [exact H1|]. split; [lia | exact H3].
  - intros [H1 [H2 H3]]. split; [split; [exact H1 | lia] | exact H3].
Qed.

(* store_requires_token: either the request is authorised and within the limits, or nothing happens *)
Lemma store_requires_token_l st rq now tok target vals nc :
  (Forall (fun v => blen v <= MAX_ENTRY_SIZE) vals /\ Z.of_nat (length vals) <= MAX_VALUES_IN_STORE
   /\ exists s, In s (secrets st) /\ tok = hash (ident rq ++ s))
  \/ on_store st rq now tok target vals nc = (st, RStore false None).
Proof.
  destruct (store_gate st rq tok vals) eqn:E.
  - left. apply store_gate_iff. exact E.
  - right. unfold M15_dht_store.on_store. rewrite E. reflexivity.
Qed.

Lemma store_peer_bound_l st rq tok target :
  ((exists s, In s (secrets st) /\ tok = hash (ident rq ++ s)) /\ target = hash (r_pk rq)
   /\ exists l, on_store_peer st rq tok target
                = (mkSt (secrets st) (store st) (pset (peers st) target l), RStorePeer true)
                /\ (l = pget (peers st) target \/ l = pget (peers st) target ++ [r_pk rq]))
  \/ on_store_peer st rq tok target = (st, RStorePeer false).
Proof.
  unfold M15_dht_store.on_store_peer.
  destruct (check_token st rq tok) eqn:Ec; cbn [negb]; [|right; reflexivity].
  destruct (bytes_eqb target (hash (r_pk rq))) eqn:Et; cbn [negb]; [|right; reflexivity].
  left. split; [apply check_token_iff; exact Ec|]. split; [apply bytes_eqb_eq; exact Et|].
  eexists. split; [reflexivity|]. destruct (existsb _ _); auto.
Qed.

(* ---- the identity a token is bound to ---- *)
Section Ident.
Hypothesis hash_inj : forall a b, hash a = hash b -> a = b.
Hypothesis enc_inj : forall a b, enc (hash a) = enc (hash b) -> hash a = hash b.   (* injective on digests *)

Lemma ident_inj rq rq' :
  ~ In 32 (r_addr rq) -> ~ In 32 (r_addr rq') -> ident rq = ident rq' ->
  r_addr rq = r_addr rq' /\ r_pk rq = r_pk rq'.
Proof.
  intros Ha Ha' H. unfold M15_dht_store.ident in H. apply app_inv_head in H.
  assert (H' : (r_addr rq ++ [44]) ++ 32 :: (enc (hash (r_pk rq)) ++ [62])
               = (r_addr rq' ++ [44]) ++ 32 :: (enc (hash (r_pk rq')) ++ [62])).
  { rewrite <- !app_assoc. exact H. }
  apply split_first_unique in H'.
  - destruct H' as [H1 H2]. apply app_inj_tail in H1 as [H1 _]. apply app_inj_tail in H2 as [H2 _].
    split; [exact H1|]. apply hash_inj. apply enc_inj. exact H2.
  - intro F. apply in_app_or in F as [F|[F|[]]]; [contradiction | discriminate].
  - intro F. apply in_app_or in F as [F|[F|[]]]; [contradiction | discriminate].
Qed.

Lemma token_inj rq rq' s s' :
  ~ In 32 (r_addr rq) -> ~ In 32 (r_addr rq') -> length s = length s' ->
  token_for rq s = token_for rq' s' -> r_addr rq = r_addr rq' /\ r_pk rq = r_pk rq' /\ s = s'.
Proof.
  intros Ha Ha' Hl H. unfold M15_dht_store.token_for in H. apply hash_inj in H.
  apply app_eq_len_tail in H as [H1 H2]; [|exact Hl].
  destruct (ident_inj rq rq' Ha Ha' H1) as [H3 H4]. auto.
Qed.
End Ident.

(* ---- secrets along an operation sequence ---- *)
Definition rotations (ops : list op) : list bytes :=
  flat_map (fun o => match o with ORotate s => [s] | _ => [] end) ops.

Lemma step_secrets st o :
  secrets (fst (step st o)) = match o with
                              | ORotate s => lastn (Z.to_nat TOKEN_SECRETS_MAXLEN) (secrets st ++ [s])
                              | _ => secrets st
                              end.
Proof.
  destruct o; cbn [M15_dht_store.step fst]; try reflexivity.
  - unfold M15_dht_store.on_store. destruct (store_gate st rq token values); [|reflexivity].
    destruct (add_values _ _ _ _ _); reflexivity.
  - unfold M15_dht_store.on_store_peer. destruct (negb _); [reflexivity|]. destruct (negb _); reflexivity.
Qed.

Lemma run_cons st o ops : run st (o :: ops) = (fst (run (fst (step st o)) ops), snd (step st o) :: snd (run (fst (step st o)) ops)).
Proof.
  cbn [M15_dht_store.run]. destruct (step st o) as [st1 r]. cbn [fst snd].
  destruct (run st1 ops) as [st2 rs]. reflexivity.
Qed.

Lemma run_app st a b : fst (run st (a ++ b)) = fst (run (fst (run st a)) b).
Proof.
  revert st; induction a as [|o a IH]; intros st; [reflexivity|].
  cbn [app]. rewrite !run_cons. cbn [fst]. apply IH.
Qed.

Lemma run_secrets ops : forall st,
  secrets (fst (run st ops)) = lastn (Z.to_nat TOKEN_SECRETS_MAXLEN) (lastn (Z.to_nat TOKEN_SECRETS_MAXLEN) (secrets st) ++ rotations ops)
  \/ (rotations ops = [] /\ secrets (fst (run st ops)) = secrets st).
Proof.
  induction ops as [|o ops IH]; intros st; [right; auto|].
  rewrite run_cons. cbn [fst]. specialize (IH (fst (step st o))). rewrite step_secrets in IH.
  destruct o; cbn [rotations flat_map app]; fold (rotations ops); try exact IH.
  left. destruct IH as [IH|[Hr IH]].
  - rewrite IH. rewrite !lastn_app_lastn. rewrite <- app_assoc. reflexivity.
  - rewrite IH, Hr. rewrite lastn_app_lastn. reflexivity.
Qed.

Lemma run_secrets_in ops st s :
  In s (secrets (fst (run st ops))) -> In s (lastn (Z.to_nat TOKEN_SECRETS_MAXLEN) (secrets st ++ rotations ops)) \/
                                      (rotations ops = [] /\ In s (secrets st)).
Proof.
  destruct (run_secrets ops st) as [H|[H1 H2]]; intros Hin.
  - left. rewrite H in Hin. rewrite lastn_app_lastn in Hin. exact Hin.
  - right. rewrite H2 in Hin. auto.
Qed.

Lemma lastn_nonempty {A} n (l : list A) : (1 <= n)%nat -> l <> [] -> lastn n l <> [].
Proof.
  intros Hn Hl F. apply (f_equal (@length A)) in F. unfold lastn in F. rewrite skipn_length in F. cbn [length] in F.
  destruct l; [congruence|]. cbn [length] in F. lia.
Qed.

(* a node always has a secret to issue tokens with *)
Lemma secrets_never_empty_l s0 ops :
  1 <= TOKEN_SECRETS_MAXLEN -> secrets (fst (run (init_state s0) ops)) <> [].
Proof.
  intros HM. destruct (run_secrets ops (init_state s0)) as [H|[_ H]]; rewrite H.
  - apply lastn_nonempty; [lia|]. cbn [init_state secrets].
    intro F. apply (f_equal (@length bytes)) in F. rewrite app_length in F.
    assert (L : lastn (Z.to_nat TOKEN_SECRETS_MAXLEN) [s0] <> []) by (apply lastn_nonempty; [lia | discriminate]).
    destruct (lastn (Z.to_nat TOKEN_SECRETS_MAXLEN) [s0]); [congruence | cbn [length] in F; lia].
  - cbn. discriminate.
Qed.

(* token_window: a token accepted by the store gate after any operations was issued to the same address and key,
   and fewer than TOKEN_SECRETS_MAXLEN rotations have happened since it was issued *)
Lemma token_window_l
  (hash_inj : forall a b, hash a = hash b -> a = b) (enc_inj : forall a b, enc (hash a) = enc (hash b) -> hash a = hash b)
  st rq' target' off' force' tok vals' ops rq vals :
  secrets st <> [] ->
  NoDup (secrets st ++ rotations ops) ->
  (forall s s', In s (secrets st ++ rotations ops) -> In s' (secrets st ++ rotations ops) -> length s = length s') ->
  ~ In 32 (r_addr rq) -> ~ In 32 (r_addr rq') ->
  snd (on_find st rq' target' off' force') = RFind tok vals' ->
  store_gate (fst (run st ops)) rq tok vals = true ->
  r_addr rq' = r_addr rq /\ r_pk rq' = r_pk rq /\ Z.of_nat (length (rotations ops)) < Z.max 1 TOKEN_SECRETS_MAXLEN.
Proof.
  intros Hne Hnd Hlen Ha Ha' Hf Hg.
  unfold M15_dht_store.on_find in Hf. cbn [snd] in Hf. injection Hf as Htok _.
  unfold M15_dht_store.generate_token in Htok.
  destruct (exists_last Hne) as [a [x Hs]]. rewrite Hs in Htok. rewrite last_last in Htok.
  apply store_gate_iff in Hg as [_ [_ [s [Hin Ht]]]].
  assert (Hx : In x (secrets st ++ rotations ops)).
  { rewrite Hs. apply in_or_app. left. apply in_or_app. right. left. reflexivity. }
  assert (Hs_all : In s (secrets st ++ rotations ops)).
  { apply run_secrets_in in Hin as [Hin|[_ Hin]].
    - unfold lastn in Hin. apply In_skipn in Hin. exact Hin.
    - apply in_or_app. left. exact Hin. }
  rewrite <- Htok in Ht.
  fold (token_for rq' x) in Ht. fold (token_for rq s) in Ht.
  apply (token_inj hash_inj enc_inj) in Ht; [|assumption|assumption|apply Hlen; assumption].
  destruct Ht as [H1 [H2 H3]]. subst s. split; [exact H1|]. split; [exact H2|].
  apply run_secrets_in in Hin as [Hin|[Hr _]].
  - rewrite Hs in Hin, Hnd. rewrite <- app_assoc in Hin, Hnd. cbn [app] in Hin, Hnd.
    pose proof (last_in_lastn a x (rotations ops) (Z.to_nat TOKEN_SECRETS_MAXLEN) Hnd Hin) as Hlt. lia.
  - rewrite Hr. cbn [length]. lia.
Qed.

(* the same with a clock: rotations driven by a timer of period P *)
Fixpoint timed_ok (P last : Z) (tops : list (Z * op)) : Prop :=
  match tops with
  | [] => True
  | (t, ORotate _) :: tl => t = last + P /\ timed_ok P t tl
  | (_, _) :: tl => timed_ok P last tl
  end.
Fixpoint last_rotation (last : Z) (tops : list (Z * op)) : Z :=
  match tops with
  | [] => last
  | (t, ORotate _) :: tl => last_rotation t tl
  | (_, _) :: tl => last_rotation last tl
  end.

Lemma last_rotation_count P tops : forall last,
  timed_ok P last tops -> last_rotation last tops = last + P * Z.of_nat (length (rotations (map snd tops))).
Proof.
  induction tops as [|[t o] tops IH]; intros last H; cbn [last_rotation map snd rotations flat_map]; [cbn; lia|].
  fold (rotations (map snd tops)).
  destruct o; cbn [timed_ok] in H; cbn [app]; try (apply IH; exact H).
  destruct H as [-> H]. rewrite (IH _ H). cbn [length]. lia.
Qed.

Lemma token_age_bound_l
  (hash_inj : forall a b, hash a = hash b -> a = b) (enc_inj : forall a b, enc (hash a) = enc (hash b) -> hash a = hash b)
  P t0 t_issue t_store st rq' target' off' force' tok vals' tops rq vals :
  0 <= P -> 1 <= TOKEN_SECRETS_MAXLEN ->
  secrets st <> [] ->
  NoDup (secrets st ++ rotations (map snd tops)) ->
  (forall s s', In s (secrets st ++ rotations (map snd tops)) -> In s' (secrets st ++ rotations (map snd tops)) ->
                length s = length s') ->
  ~ In 32 (r_addr rq) -> ~ In 32 (r_addr rq') ->
  timed_ok P t0 tops ->               (* every rotation happens exactly P after the previous one (t0: the last before) *)
  t0 <= t_issue ->                    (* the token was issued under the secret drawn at t0 *)
  t_store <= last_rotation t0 tops + P ->    (* the next rotation is not overdue when the store arrives *)
  snd (on_find st rq' target' off' force') = RFind tok vals' ->
  store_gate (fst (run st (map snd tops))) rq tok vals = true ->
  t_store - t_issue <= TOKEN_SECRETS_MAXLEN * P.
Proof.
  intros HP HM Hne Hnd Hlen Ha Ha' Hto Hi Hs Hf Hg.
  destruct (token_window_l hash_inj enc_inj st rq' target' off' force' tok vals' (map snd tops) rq vals
              Hne Hnd Hlen Ha Ha' Hf Hg) as [_ [_ Hc]].
  rewrite (last_rotation_count P tops t0 Hto) in Hs.
  rewrite Z.max_r in Hc by lia. nia.
Qed.

(* ---- what a store request can put into the storage ---- *)
(* the id a value is filed under: sha1 of the signer's key, or sha1 of the value itself when unsigned
   (Python's `id_ or sha1(data)`: an empty digest, which SHA-1 never produces, would fall back as well) *)
Definition value_id (pk : option bytes) (value : bytes) : bytes :=
  eff_id hash (match pk with Some (x :: r) => Some (hash (x :: r)) | _ => None end) value.

(* a stored value is authentic: its bytes read back (plain, or signed with a signature that verifies), and it is
   filed under the id and version they carry *)
Definition authentic (v : value) : Prop :=
  exists d pk ver, unserialize (v_data v) = Ok (Some (d, pk, ver))
                   /\ v_version v = ver /\ v_id v = value_id pk (v_data v).

Lemma add_value_sound s now key value ma s' k v :
  add_value s now key value ma = Ok s' -> In v (sget s' k) ->
  In v (sget s k) \/ (k = key /\ v_data v = value /\ v_last v = now /\ v_maxage v = ma /\ authentic v).
Proof.
  unfold M15_dht_store.add_value.
  destruct (unserialize value) as [[[[d pk] ver]|]|e] eqn:Eu; cbn [bind]; [| |discriminate].
  - intros H Hin. inversion H; subst. clear H. apply put_sound_l in Hin as [Hin|[-> ->]]; [left; exact Hin|].
    right. cbn [v_data v_last v_maxage]. repeat split; auto.
    exists d, pk, ver. cbn [v_data v_version v_id]. split; [exact Eu|]. split; [reflexivity|].
    unfold value_id. destruct pk as [[|x r]|]; reflexivity.
  - intros H Hin. inversion H; subst. left. exact Hin.
Qed.

Lemma add_values_sound vals : forall s now key ma s' err k v,
  add_values s now key vals ma = (s', err) -> In v (sget s' k) ->
  In v (sget s k) \/ (k = key /\ In (v_data v) vals /\ v_last v = now /\ v_maxage v = ma /\ authentic v).
Proof.
  induction vals as [|x vals IH]; intros s now key ma s' err k v H Hin; cbn [M15_dht_store.add_values] in H.
  - inversion H; subst. left. exact Hin.
  - destruct (add_value s now key x ma) as [s1|e] eqn:Ea.
    + destruct (IH _ _ _ _ _ _ _ _ H Hin) as [H1|[H1 [H2 H3]]].
      * destruct (add_value_sound _ _ _ _ _ _ _ _ Ea H1) as [H4|[H4 [H5 H6]]]; [left; exact H4|].
        right. split; [exact H4|]. split; [left; symmetry; exact H5 | exact H6].
      * right. split; [exact H1|]. split; [right; exact H2 | exact H3].
    + inversion H; subst. left. exact Hin.
Qed.

Lemma add_value_monotone s now key value ma s' k v :
  add_value s now key value ma = Ok s' -> In v (sget s k) ->
  exists v', In v' (sget s' k) /\ v_id v' = v_id v /\ v_version v <= v_version v'.
Proof.
  unfold M15_dht_store.add_value.
  destruct (unserialize value) as [[[[d pk] ver]|]|e]; cbn [bind]; [| |discriminate]; intros H Hin; inversion H; subst.
  - apply put_monotone_l. exact Hin.
  - exists v. split; [exact Hin | split; [reflexivity | lia]].
Qed.

Lemma add_values_monotone vals : forall s now key ma s' err k v,
  add_values s now key vals ma = (s', err) -> In v (sget s k) ->
  exists v', In v' (sget s' k) /\ v_id v' = v_id v /\ v_version v <= v_version v'.
Proof.
  induction vals as [|x vals IH]; intros s now key ma s' err k v H Hin; cbn [M15_dht_store.add_values] in H.
  - inversion H; subst. exists v. split; [exact Hin | split; [reflexivity | lia]].
  - destruct (add_value s now key x ma) as [s1|e] eqn:Ea.
    + destruct (add_value_monotone _ _ _ _ _ _ _ _ Ea Hin) as [v1 [H1 [H2 H3]]].
      destruct (IH _ _ _ _ _ _ _ _ H H1) as [v2 [H4 [H5 H6]]].
      exists v2. split; [exact H4|]. split; [congruence | lia].
    + inversion H; subst. exists v. split; [exact Hin | split; [reflexivity | lia]].
Qed.

Lemma add_value_unique s now key value ma s' : add_value s now key value ma = Ok s' -> ids_unique s -> ids_unique s'.
Proof.
  unfold M15_dht_store.add_value.
  destruct (unserialize value) as [[[[d pk] ver]|]|e]; cbn [bind]; [| |discriminate]; intros H Hu; inversion H; subst.
  - apply put_ids_unique_l. exact Hu.
  - exact Hu.
Qed.

Lemma add_values_unique vals : forall s now key ma s' err,
  add_values s now key vals ma = (s', err) -> ids_unique s -> ids_unique s'.
Proof.
  induction vals as [|x vals IH]; intros s now key ma s' err H Hu; cbn [M15_dht_store.add_values] in H.
  - inversion H; subst. exact Hu.
  - destruct (add_value s now key x ma) as [s1|e] eqn:Ea.
    + eapply IH; [exact H|]. eapply add_value_unique; eauto.
    + inversion H; subst. exact Hu.
Qed.

Lemma store_max_age_range nc : 0 <= MAX_ENTRY_AGE -> 0 <= store_max_age nc <= MAX_ENTRY_AGE.
Proof.
  intros H. unfold store_max_age.
  assert (Hp : 1 <= 2 ^ Z.max 0 (nc - TARGET_NODES + 1)).
  { assert (0 < 2 ^ Z.max 0 (nc - TARGET_NODES + 1)) by (apply Z.pow_pos_nonneg; lia). lia. }
  split; [apply Z.div_pos; lia|].
  apply Z.div_le_upper_bound; [lia|]. nia.
Qed.

(* one step of the node, for the value storage *)
Lemma step_store_sound st o k v :
  (forall now key data id ma ver, o <> OPut now key data id ma ver) ->
  In v (sget (store (fst (step st o))) k) ->
  In v (sget (store st) k)
  \/ exists rq now tok vals nc,
       o = OStore rq now tok k vals nc /\ store_gate st rq tok vals = true
       /\ In (v_data v) vals /\ v_last v = now /\ v_maxage v = store_max_age nc /\ authentic v.
Proof.
  intros Hput. destruct o; cbn [M15_dht_store.step fst]; try (intros H; left; exact H).
  - unfold M15_dht_store.on_store. destruct (store_gate st rq token values) eqn:Eg; [|intros H; left; exact H].
    destruct (add_values (store st) now target values (store_max_age num_closer)) as [s' err] eqn:Ea.
    cbn [fst store]. intros Hin.
    destruct (add_values_sound _ _ _ _ _ _ _ _ _ Ea Hin) as [H|[-> [H1 [H2 [H3 H4]]]]]; [left; exact H|].
    right. exists rq, now, token, values, num_closer. repeat split; auto.
  - unfold M15_dht_store.on_store_peer. destruct (negb _); [intros H; left; exact H|].
    destruct (negb _); intros H; left; exact H.
  - cbn [store]. intros H. left. apply clean_exact_l in H. tauto.
  - exfalso. eapply Hput. reflexivity.
Qed.

Definition no_put (ops : list op) : Prop :=
  forall o, In o ops -> forall now key data id ma ver, o <> OPut now key data id ma ver.

(* stored_only_via_authorised_request: over any interleaving of finds, stores, store-peers, rotations, maintenance
   runs and lookups, whatever is in the storage at the end was there at the start or was carried by a store
   request of the sequence that passed the gate in the state it met *)
Lemma stored_only_via_authorised_request_l ops : forall st k v,
  no_put ops ->
  In v (sget (store (fst (run st ops))) k) ->
  In v (sget (store st) k)
  \/ exists pre rq now tok vals nc post,
       ops = pre ++ OStore rq now tok k vals nc :: post
       /\ store_gate (fst (run st pre)) rq tok vals = true
       /\ In (v_data v) vals /\ v_last v = now /\ v_maxage v = store_max_age nc /\ authentic v.
Proof.
  induction ops as [|o ops IH]; intros st k v Hnp Hin; [left; exact Hin|].
  rewrite run_cons in Hin. cbn [fst] in Hin.
  assert (Hnp' : no_put ops) by (intros o' Ho'; apply Hnp; right; exact Ho').
  destruct (IH _ _ _ Hnp' Hin) as [H|[pre [rq [now [tok [vals [nc [post [H1 [H2 H3]]]]]]]]]].
  - apply step_store_sound in H; [|apply Hnp; left; reflexivity].
    destruct H as [H|[rq [now [tok [vals [nc [H1 [H2 H3]]]]]]]]; [left; exact H|].
    right. exists [], rq, now, tok, vals, nc, ops. split; [cbn [app]; congruence|]. split; [exact H2 | exact H3].
  - right. exists (o :: pre), rq, now, tok, vals, nc, post. split; [cbn [app]; congruence|].
    split; [|exact H3]. cbn [app]. rewrite run_cons. cbn [fst]. exact H2.
Qed.

(* every value of a node that started empty is authentic, has a lifetime within the limit, and ids are unique *)
Lemma step_unique st o : ids_unique (store st) -> ids_unique (store (fst (step st o))).
Proof.
  intros Hu. destruct o; cbn [M15_dht_store.step fst]; try exact Hu.
  - unfold M15_dht_store.on_store. destruct (store_gate st rq token values); [|exact Hu].
    destruct (add_values (store st) now target values (store_max_age num_closer)) as [s' err] eqn:Ea.
    cbn [fst store]. eapply add_values_unique; eauto.
  - unfold M15_dht_store.on_store_peer. destruct (negb _); [exact Hu|]. destruct (negb _); exact Hu.
  - cbn [store]. apply clean_ids_unique_l. exact Hu.
  - cbn [store]. apply put_ids_unique_l. exact Hu.
Qed.

Lemma run_unique ops : forall st, ids_unique (store st) -> ids_unique (store (fst (run st ops))).
Proof.
  induction ops as [|o ops IH]; intros st Hu; [exact Hu|].
  rewrite run_cons. cbn [fst]. apply IH. apply step_unique. exact Hu.
Qed.

Lemma reachable_store_ok_l s0 ops k v :
  no_put ops -> 0 <= MAX_ENTRY_AGE ->
  In v (sget (store (fst (run (init_state s0) ops))) k) ->
  authentic v /\ 0 <= v_maxage v <= MAX_ENTRY_AGE
  /\ NoDup (map v_id (sget (store (fst (run (init_state s0) ops))) k)).
Proof.
  intros Hnp Hma Hin.
  destruct (stored_only_via_authorised_request_l ops _ _ _ Hnp Hin) as [H|[pre [rq [now [tok [vals [nc [post [_ [_ [_ [_ [H1 H2]]]]]]]]]]]]].
  - destruct H.
  - split; [exact H2|]. split; [rewrite H1; apply store_max_age_range; exact Hma|].
    apply run_unique. intros k'. constructor.
Qed.

(* version_monotone over operation sequences: as long as no maintenance run removes it, a stored (key, id) keeps a
   version at least as high as any it had *)
Definition no_clean (ops : list op) : Prop := forall o, In o ops -> forall now, o <> OClean now.

Lemma step_monotone st o k v :
  (forall now, o <> OClean now) -> In v (sget (store st) k) ->
  exists v', In v' (sget (store (fst (step st o))) k) /\ v_id v' = v_id v /\ v_version v <= v_version v'.
Proof.
  intros Hc Hin.
  assert (Hsame : exists v', In v' (sget (store st) k) /\ v_id v' = v_id v /\ v_version v <= v_version v')
    by (exists v; split; [exact Hin | split; [reflexivity | lia]]).
  destruct o; cbn [M15_dht_store.step fst]; try exact Hsame.
  - unfold M15_dht_store.on_store. destruct (store_gate st rq token values); [|exact Hsame].
    destruct (add_values (store st) now target values (store_max_age num_closer)) as [s' err] eqn:Ea.
    cbn [fst store]. eapply add_values_monotone; eauto.
  - unfold M15_dht_store.on_store_peer. destruct (negb _); [exact Hsame|]. destruct (negb _); exact Hsame.
  - exfalso. eapply Hc. reflexivity.
  - cbn [store]. apply put_monotone_l. exact Hin.
Qed.

Lemma run_monotone_l ops : forall st k v,
  no_clean ops -> In v (sget (store st) k) ->
  exists v', In v' (sget (store (fst (run st ops))) k) /\ v_id v' = v_id v /\ v_version v <= v_version v'.
Proof.
  induction ops as [|o ops IH]; intros st k v Hc Hin.
  - exists v. split; [exact Hin | split; [reflexivity | lia]].
  - rewrite run_cons. cbn [fst].
    destruct (step_monotone st o k v (Hc o (or_introl eq_refl)) Hin) as [v1 [H1 [H2 H3]]].
    destruct (IH (fst (step st o)) k v1 (fun o' Ho' => Hc o' (or_intror Ho')) H1) as [v2 [H4 [H5 H6]]].
    exists v2. split; [exact H4|]. split; [congruence | lia].
Qed.

(* maintenance inside a sequence: right after an OClean at time now nothing older than its lifetime is left *)
Lemma maintenance_l st now k v :
  In v (sget (store (fst (step st (OClean now)))) k) -> now - v_last v <= v_maxage v.
Proof. cbn [M15_dht_store.step fst store]. apply expired_gone_l. Qed.

(* find never changes the state and hands out the token of the newest secret *)
Lemma find_pure_l st rq target off force :
  on_find st rq target off force
  = (st, RFind (hash (ident rq ++ last (secrets st) []))
               (if force then [] else get (store st) target off (Some MAX_VALUES_IN_FIND))).
Proof. reflexivity. Qed.

End Token.
