(* C18 - serialisation round trips: iunpack . ipack, unpack_nums . pack_nums (keys, bit pairs),
   _siunpack . _sipack. *)
From Coq Require Import ZArith List Bool Lia ZifyBool.
From IPV8V Require Import lib.PyErr lib.Bytes lib.BE model.M18_ser.
Import ListNotations.
Open Scope Z_scope.

(* ------------------------------------------------------------------ slices of concatenations *)
Lemma skipn_app_exact {A} (x r : list A) : skipn (length x) (x ++ r) = r.
Proof. induction x as [|a x IH]; [reflexivity|]. cbn. exact IH. Qed.

Lemma firstn_app_exact {A} (y z : list A) : firstn (length y) (y ++ z) = y.
Proof. induction y as [|a y IH]; [reflexivity|]. cbn. f_equal. exact IH. Qed.

Lemma clamp_id n i : 0 <= i <= n -> clamp n i = i.
Proof.
  intros H. unfold clamp. destruct (i <? 0) eqn:E1; [lia|]. rewrite E1. destruct (n <? i) eqn:E2; [lia|]. reflexivity.
Qed.

Lemma slice_app3 x y z : slice (x ++ y ++ z) (Some (blen x)) (Some (blen x + blen y)) = y.
Proof.
  unfold slice. pose proof (blen_nonneg x). pose proof (blen_nonneg y). pose proof (blen_nonneg z).
  rewrite !clamp_id by (rewrite !blen_app; lia).
  replace (blen x + blen y - blen x) with (blen y) by lia.
  unfold blen. rewrite !Nat2Z.id. rewrite skipn_app_exact. apply firstn_app_exact.
Qed.

Lemma slice_app_tail x y : slice (x ++ y) (Some (blen x)) None = y.
Proof.
  unfold slice. pose proof (blen_nonneg x). pose proof (blen_nonneg y).
  rewrite clamp_id by (rewrite blen_app; lia). rewrite blen_app.
  replace (blen x + blen y - blen x) with (blen y) by lia.
  unfold blen. rewrite !Nat2Z.id. rewrite skipn_app_exact. rewrite <- (app_nil_r y) at 2. apply firstn_app_exact.
Qed.

(* ------------------------------------------------------------------ minimal big-endian form *)
Lemma nbytes_spec n : 0 <= n -> n < 256 ^ Z.of_nat (nbytes n).
Proof.
  intros Hn. unfold nbytes. destruct (n =? 0) eqn:E.
  - assert (n = 0) by lia. subst. reflexivity.
  - assert (Hpos : 0 < n) by lia.
    pose proof (Z.log2_spec n Hpos) as [_ Hlt]. pose proof (Z.log2_nonneg n) as Hl.
    rewrite Z2Nat.id by (pose proof (Z.div_pos (Z.log2 n) 8 Hl ltac:(lia)); lia).
    change 256 with (2 ^ 8). rewrite <- Z.pow_mul_r by (try lia; pose proof (Z.div_pos (Z.log2 n) 8 Hl ltac:(lia)); lia).
    eapply Z.lt_le_trans; [exact Hlt|]. apply Z.pow_le_mono_r; [lia|].
    pose proof (Z.div_mod (Z.log2 n) 8 ltac:(lia)). pose proof (Z.mod_pos_bound (Z.log2 n) 8 ltac:(lia)). lia.
Qed.

Lemma num_to_str_ok n : 0 <= n -> num_to_str n = Ok (be_encode (nbytes n) n).
Proof. intros H. unfold num_to_str. destruct (n <? 0) eqn:E; [lia|reflexivity]. Qed.

Lemma num_to_str_neg n s : num_to_str n = Ok s -> 0 <= n.
Proof. unfold num_to_str. destruct (n <? 0) eqn:E; [destruct (Z.even _); discriminate|lia]. Qed.

Lemma str_num_roundtrip n : 0 <= n -> str_to_num (be_encode (nbytes n) n) = n.
Proof. intros H. unfold str_to_num. apply be_decode_encode. split; [exact H|apply nbytes_spec; exact H]. Qed.

Lemma blen_be_encode w v : blen (be_encode w v) = Z.of_nat w.
Proof. unfold blen. rewrite be_encode_length. reflexivity. Qed.

(* ------------------------------------------------------------------ iunpack . ipack *)
Lemma ipack_form n s : ipack n = Ok s ->
  0 <= n /\ s = Z.of_nat (nbytes (Z.of_nat (nbytes n))) ::
                be_encode (nbytes (Z.of_nat (nbytes n))) (Z.of_nat (nbytes n)) ++ be_encode (nbytes n) n.
Proof.
  unfold ipack. destruct (num_to_str n) as [pnum|e] eqn:E1; [|discriminate]. cbn [bind].
  pose proof (num_to_str_neg _ _ E1) as Hn. rewrite num_to_str_ok in E1 by exact Hn. inversion E1; subst pnum; clear E1.
  rewrite blen_be_encode. rewrite num_to_str_ok by lia. cbn [bind]. rewrite blen_be_encode.
  destruct (255 <? _) eqn:E2; [discriminate|]. intros H. inversion H. split; [exact Hn|reflexivity].
Qed.

Lemma iunpack_ipack_l n s rest : ipack n = Ok s -> iunpack (s ++ rest) = Ok (n, rest).
Proof.
  intros H. destruct (ipack_form n s H) as [Hn ->].
  set (L := Z.of_nat (nbytes n)). set (l := be_encode (nbytes L) L). set (pnum := be_encode (nbytes n) n).
  assert (HL : 0 <= L) by (unfold L; lia).
  assert (Hl : blen l = Z.of_nat (nbytes L)) by apply blen_be_encode.
  assert (Hp : blen pnum = L) by apply blen_be_encode.
  cbn [app]. unfold iunpack. rewrite <- Hl.
  assert (E1 : slice (blen l :: (l ++ pnum) ++ rest) (Some 1) (Some (1 + blen l)) = l).
  { change (blen l :: (l ++ pnum) ++ rest) with ([blen l] ++ (l ++ pnum) ++ rest). rewrite <- app_assoc.
    change 1 with (blen [blen l]) at 1 2. apply slice_app3. }
  rewrite E1. assert (El : str_to_num l = L) by (unfold l; apply str_num_roundtrip; exact HL). rewrite El.
  assert (E2 : slice (blen l :: (l ++ pnum) ++ rest) (Some (1 + blen l)) (Some (blen l + L + 1)) = pnum).
  { replace (blen l :: (l ++ pnum) ++ rest) with ((blen l :: l) ++ pnum ++ rest) by (cbn; rewrite <- app_assoc; reflexivity).
    replace (1 + blen l) with (blen (blen l :: l)) by (rewrite blen_cons; reflexivity).
    replace (blen l + L + 1) with (blen (blen l :: l) + blen pnum) by (rewrite blen_cons, Hp; lia).
    apply slice_app3. }
  rewrite E2.
  assert (E3 : slice (blen l :: (l ++ pnum) ++ rest) (Some (blen l + L + 1)) None = rest).
  { replace (blen l :: (l ++ pnum) ++ rest) with ((blen l :: l ++ pnum) ++ rest) by reflexivity.
    replace (blen l + L + 1) with (blen (blen l :: l ++ pnum)) by (rewrite blen_cons, blen_app, Hp; lia).
    apply slice_app_tail. }
  rewrite E3. assert (Ep : str_to_num pnum = n) by (unfold pnum; apply str_num_roundtrip; exact Hn). rewrite Ep. reflexivity.
Qed.

(* every non-negative number whose length-of-length fits one byte can be packed *)
Lemma ipack_ok_l n : 0 <= n -> Z.of_nat (nbytes (Z.of_nat (nbytes n))) <= 255 -> exists s, ipack n = Ok s.
Proof.
  intros Hn Hl. unfold ipack. rewrite num_to_str_ok by exact Hn. cbn [bind]. rewrite blen_be_encode.
  rewrite num_to_str_ok by lia. cbn [bind]. rewrite blen_be_encode.
  destruct (255 <? _) eqn:E; [lia|]. eexists; reflexivity.
Qed.

Lemma ipack_nonempty n s : ipack n = Ok s -> exists b tl, s = b :: tl.
Proof. intros H. destruct (ipack_form n s H) as [_ ->]. eexists _, _; reflexivity. Qed.

Lemma unpack_pair_pack_pair_l a b s rest : pack_pair a b = Ok s -> unpack_pair (s ++ rest) = Ok (a, b, rest).
Proof.
  unfold pack_pair, unpack_pair. destruct (ipack a) as [x|] eqn:Ea; [|discriminate]. cbn [bind].
  destruct (ipack b) as [y|] eqn:Eb; [|discriminate]. cbn [bind]. intros H. inversion H; subst s; clear H.
  rewrite <- app_assoc, (iunpack_ipack_l a x _ Ea). cbn [bind snd fst].
  rewrite (iunpack_ipack_l b y _ Eb). reflexivity.
Qed.

(* ------------------------------------------------------------------ sequences of numbers (keys, bit pairs) *)
Lemma unpack_pack_nums_l ns : forall s rest, pack_nums ns = Ok s ->
  unpack_nums (length ns) (s ++ rest) = Ok (ns, rest).
Proof.
  induction ns as [|n ns IH]; intros s rest H.
  - cbn in H. inversion H. reflexivity.
  - cbn [pack_nums] in H. destruct (ipack n) as [x|] eqn:En; [|discriminate]. cbn [bind] in H.
    destruct (pack_nums ns) as [y|] eqn:Ey; [|discriminate]. cbn [bind] in H. inversion H; subst s; clear H.
    destruct (ipack_nonempty n x En) as (b & tl & ->).
    cbn [length unpack_nums app].
    replace (b :: (tl ++ y) ++ rest) with ((b :: tl) ++ y ++ rest) by (cbn; rewrite <- app_assoc; reflexivity).
    rewrite (iunpack_ipack_l n _ _ En). cbn [bind snd fst]. rewrite (IH y rest eq_refl). reflexivity.
Qed.

(* BonehPublicKey / BonehPrivateKey: unserialize(serialize(key)) gives the same five / seven numbers *)
Lemma key_roundtrip_l ns s : pack_nums ns = Ok s -> key_unserialize (length ns) s = Ok (Some ns).
Proof.
  intros H. unfold key_unserialize. rewrite <- (app_nil_r s). rewrite (unpack_pack_nums_l ns s [] H).
  cbn [bind fst]. rewrite Nat.eqb_refl. reflexivity.
Qed.

(* ------------------------------------------------------------------ _siunpack . _sipack *)
Lemma abs_sign i sign : 0 <= sign ->
  (2 * sign + (if i <? 0 then 1 else 0)) / 2 = sign /\
  (if Z.odd (2 * sign + (if i <? 0 then 1 else 0)) then - Z.abs i else Z.abs i) = i.
Proof.
  intros Hs. destruct (i <? 0) eqn:E.
  - split; [symmetry; apply (Z.div_unique _ 2 sign 1); lia|].
    rewrite Z.add_comm, Z.odd_add_mul_2. cbn. lia.
  - split; [symmetry; apply (Z.div_unique _ 2 sign 0); lia|].
    rewrite Z.add_0_r, Z.odd_mul. cbn. lia.
Qed.

Lemma sipack_loop_spec ns : forall sign packed out, 0 <= sign -> sipack_loop ns sign packed = Ok out ->
  exists sg body, out = sg :: body /\
    forall m rest acc, siunpack_loop (length ns + m) (body ++ rest) sg acc =
                       siunpack_loop m (packed ++ rest) sign (ns ++ acc).
Proof.
  induction ns as [|i tl IH]; intros sign packed out Hs H.
  - cbn in H. inversion H. exists sign, packed. split; [reflexivity|]. intros. reflexivity.
  - cbn [sipack_loop] in H. destruct (ipack (Z.abs i)) as [p|] eqn:Ep; [|discriminate]. cbn [bind] in H.
    assert (Hs' : 0 <= 2 * sign + (if i <? 0 then 1 else 0)) by (destruct (i <? 0); lia).
    destruct (IH _ _ _ Hs' H) as (sg & body & -> & Hloop).
    exists sg, body. split; [reflexivity|]. intros m rest acc.
    replace (length (i :: tl) + m)%nat with (length tl + S m)%nat by (cbn; lia).
    rewrite Hloop. destruct (ipack_nonempty _ _ Ep) as (b & t & ->).
    cbn [siunpack_loop app].
    replace (b :: (t ++ packed) ++ rest) with ((b :: t) ++ packed ++ rest) by (cbn; rewrite <- app_assoc; reflexivity).
    rewrite (iunpack_ipack_l _ _ _ Ep). cbn [bind snd fst].
    destruct (abs_sign i sign Hs) as [-> ->]. reflexivity.
Qed.

Lemma siunpack_sipack_l ns s rest : sipack ns = Ok s -> siunpack (s ++ rest) (length ns) = Ok (ns, rest).
Proof.
  unfold sipack. destruct (8 <? Z.of_nat (length ns)); [discriminate|]. intros H.
  destruct (sipack_loop_spec ns 0 [] s ltac:(lia) H) as (sg & body & -> & Hloop).
  cbn [siunpack app]. specialize (Hloop 0%nat rest []). rewrite Nat.add_0_r in Hloop. rewrite Hloop.
  cbn. rewrite app_nil_r. reflexivity.
Qed.
