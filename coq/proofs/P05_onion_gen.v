(* C05x - the table operations GENERATED from the source (gen/G04_onion.v, tools/tr/tr_onion.py) compute what the hand
   model M05_isolation computes. *)
From Coq Require Import ZArith List Bool Lia.
From IPV8V Require Import lib.PyErr lib.Bytes lib.BE model.M02_wire model.M03_recv model.M04_onion model.M05_isolation
  model.M04_gen_rt gen.G04_onion model.M04_harness model.M04_onion_gen model.M05_harness model.M05_onion_gen
  spec.S04_onion_spec spec.S05_isolation_spec
  proofs.P04_base proofs.P04_onion_gen proofs.P05_tables proofs.P05_control proofs.P05_inv proofs.P05_binding.
Import ListNotations.
Open Scope Z_scope.

Section P.
Variables key nonce secret : Type.
Variable O : oracles key nonce secret.

Local Arguments circuit_hop : simpl never.
Local Arguments assoc : simpl never.
Local Arguments upd : simpl never.
Local Arguments del : simpl never.

Ltac gunf := repeat progress unfold bindG, retG, liftG, getG, modG, emitG, tryG, raiseG, cellG, cell_updG, andG, orG, tab_get, tab_item,
  circuits, relays, exits, deref, pop_circuitG, pop_relayG, pop_exitG, pop_createG.
Ltac norm := unfold has; cbn; repeat (match goal with H : ?x = _ |- context [?x] => rewrite H end; unfold has; cbn).

(* settings.remove_tunnel_delay is positive (5 s by default): removals pop their id later *)
Hypothesis delay_pos : 0 < o_delay O.
Lemma delay_gt rn : (negb rn || (o_delay O >? 0)) = true.
Proof. replace (o_delay O >? 0) with true by lia. apply orb_true_r. Qed.

Lemma g_remove_relay_run cid rn reason s :
  g_TunnelCommunity_remove_relay O cid tt rn reason s =
  (mkG (fst (remove_relay (g_c s) cid reason)) (g_ns s) (g_cell s) (g_out s ++ snd (remove_relay (g_c s) cid reason)), Ok tt).
Proof.
  destruct s as [c ns cl out].
  unfold g_TunnelCommunity_remove_relay, g_TunnelCommunity_destroy_relay, remove_relay. gunf. rewrite delay_gt. cbn.
  destruct (reason =? 0) eqn:Er; norm.
  - rewrite app_nil_r. reflexivity.
  - destruct (assoc cid (n_relays (cn_tab c))) as [r|] eqn:E; norm; rewrite ?app_nil_r; reflexivity.
Qed.

Lemma g_remove_exit_run cid rn reason s :
  g_TunnelCommunity_remove_exit_socket O cid tt rn reason s =
  (mkG (fst (remove_exit (g_c s) cid reason)) (g_ns s) (g_cell s) (g_out s ++ snd (remove_exit (g_c s) cid reason)), Ok tt).
Proof.
  destruct s as [c ns cl out].
  unfold g_TunnelCommunity_remove_exit_socket, g_TunnelCommunity_destroy_exit_socket, remove_exit. gunf. rewrite delay_gt. cbn.
  destruct (assoc cid (n_exits (cn_tab c))) as [es|] eqn:E; norm.
  - destruct (reason =? 0) eqn:Er; norm; rewrite ?app_nil_r; reflexivity.
  - destruct (reason =? 0) eqn:Er; norm; rewrite ?app_nil_r; reflexivity.
Qed.

Lemma g_remove_circuit_run cid rn reason s :
  g_TunnelCommunity_remove_circuit O cid tt rn reason s =
  match remove_circuit (g_c s) cid reason with
  | Ok (c', acts) => (mkG c' (g_ns s) (g_cell s) (g_out s ++ acts), Ok tt)
  | Raise e => (s, Raise e)
  end.
Proof.
  destruct s as [c ns cl out].
  unfold g_TunnelCommunity_remove_circuit, g_TunnelCommunity_destroy_circuit, remove_circuit. gunf. rewrite delay_gt. cbn.
  destruct (o_has_cache O 0 cid); cbn.
  all: destruct (assoc cid (n_circuits (cn_tab c))) as [ci|] eqn:E; norm; [|rewrite app_nil_r; reflexivity].
  all: destruct (reason =? 0) eqn:Er; norm; [rewrite app_nil_r; reflexivity|].
  all: destruct (circuit_hop ci) as [h0|e] eqn:Eh; norm; reflexivity.
Qed.

Lemma g_removals_run cid rn reason s :
  g_TunnelCommunity_remove_relay O cid tt rn reason s =
  (mkG (fst (remove_relay (g_c s) cid reason)) (g_ns s) (g_cell s) (g_out s ++ snd (remove_relay (g_c s) cid reason)), Ok tt) /\
  g_TunnelCommunity_remove_exit_socket O cid tt rn reason s =
  (mkG (fst (remove_exit (g_c s) cid reason)) (g_ns s) (g_cell s) (g_out s ++ snd (remove_exit (g_c s) cid reason)), Ok tt) /\
  g_TunnelCommunity_remove_circuit O cid tt rn reason s =
  match remove_circuit (g_c s) cid reason with
  | Ok (c', acts) => (mkG c' (g_ns s) (g_cell s) (g_out s ++ acts), Ok tt)
  | Raise e => (s, Raise e)
  end.
Proof. split; [apply g_remove_relay_run|split; [apply g_remove_exit_run|apply g_remove_circuit_run]]. Qed.

(* the scheduled half of a removal: exactly pop_pending of the id it was scheduled for *)
Lemma g_remove_later_run s cid rn reason :
  (let r := g_TunnelCommunity_remove_circuit_later O cid tt rn reason s in
   snd r = Ok tt /\ g_c (fst r) = set_tab (g_c s) (pop_pending (cn_tab (g_c s)) (PCircuit cid)) /\ g_out (fst r) = g_out s) /\
  (let r := g_TunnelCommunity_remove_relay_later O cid tt rn reason s in
   snd r = Ok tt /\ g_c (fst r) = set_tab (g_c s) (pop_pending (cn_tab (g_c s)) (PRelay cid)) /\ g_out (fst r) = g_out s) /\
  (let r := g_TunnelCommunity_remove_exit_socket_later O cid tt rn reason s in
   snd r = Ok tt /\ g_c (fst r) = set_tab (g_c s) (pop_pending (cn_tab (g_c s)) (PExit cid)) /\ g_out (fst r) = g_out s).
Proof.
  destruct s as [c ns cl out].
  unfold g_TunnelCommunity_remove_circuit_later, g_TunnelCommunity_remove_relay_later, g_TunnelCommunity_remove_exit_socket_later.
  gunf. cbn. repeat split.
  all: repeat (match goal with |- context [match ?x with _ => _ end] => destruct x end; cbn); try reflexivity.
  all: repeat (match goal with |- context [if ?x then _ else _] => destruct x end; cbn); reflexivity.
Qed.


Local Arguments g_TunnelCommunity_remove_exit_socket : simpl never.
Local Arguments g_TunnelCommunity_remove_relay : simpl never.
Local Arguments g_TunnelCommunity_remove_circuit : simpl never.

Lemma g_on_create_run src cid ident npkb kb o c ns :
  final (g_TunnelCommunity_on_create O src (cid, ident, npkb, kb) o (start c ns)) =
  on_create c src cid ident (to_opt (o_pk O npkb)) (create_keys O kb) (o_cands O).
Proof.
  unfold final, start, g_TunnelCommunity_on_create, g_TunnelCommunity_should_join_circuit, g_TunnelCommunity_join_circuit,
    on_create, in_use, create_keys. gunf. cbn.
  destruct (n_flags (cn_tab c)) as [|f fl] eqn:Ef; norm; [reflexivity|].
  destruct (assoc cid (cn_created c)) eqn:Ecr; norm; [reflexivity|].
  destruct (assoc cid (n_circuits (cn_tab c))) eqn:E1; norm; [reflexivity|].
  destruct (assoc cid (n_relays (cn_tab c))) eqn:E2; norm; [reflexivity|].
  destruct (assoc cid (n_exits (cn_tab c))) eqn:E3; norm; [reflexivity|].
  destruct (cn_max_joined c <=? Z.of_nat (length (n_relays (cn_tab c))) + Z.of_nat (length (n_exits (cn_tab c)))) eqn:Em; norm;
    [reflexivity|].
  destruct (o_dh O kb) as [[[ss k1] a1]|e] eqn:Ed; norm; [|reflexivity].
  destruct (o_session_keys O ss) as [k|e] eqn:Ek; norm; [|reflexivity].
  destruct (o_pk O npkb) as [pk|e] eqn:Ep; norm; [|reflexivity].
  unfold cache_add, has, put_exit, set_created, mk_hop. norm. reflexivity.
Qed.

Lemma g_on_created_relay src cid ident kb ab cb o c ns :
  has ident (cn_create c) = true ->
  final (g_TunnelCommunity_on_created O src (cid, ident, kb, ab, cb) o (start c ns)) = on_created c src cid ident.
Proof.
  unfold final, start, g_TunnelCommunity_on_created, on_created. gunf. cbn. unfold has.
  destruct (assoc ident (cn_create c)) as [rq|] eqn:Ecr; [intros _|discriminate]. norm.
  destruct (assoc (cr_from rq) (n_exits (cn_tab c))) as [es|] eqn:Ee; norm; [|reflexivity].
  destruct (assoc (cr_from rq) (n_relays (cn_tab c))) as [rr|] eqn:Er; norm; [reflexivity|].
  rewrite g_remove_exit_run. cbn. unfold remove_exit, put_relay, mk_hop, add_pending, set_create. norm. reflexivity.
Qed.

(* without a pending extend the relay side does nothing; what the originator does with its own created is
   _ours_on_created_extended (not translated: oracle o_ext 0; the hand model has it as the separate operation OCircuitUpdate) *)
Lemma g_on_created_other src cid ident kb ab cb o c ns :
  has ident (cn_create c) = false ->
  final (g_TunnelCommunity_on_created O src (cid, ident, kb, ab, cb) o (start c ns)) = (c, []) \/
  final (g_TunnelCommunity_on_created O src (cid, ident, kb, ab, cb) o (start c ns)) = (o_ext O 0 c, []).
Proof.
  unfold final, start, g_TunnelCommunity_on_created. gunf. cbn. intros H. rewrite H. cbn.
  destruct (o_has_cache O 0 cid); cbn; [|left; reflexivity].
  destruct (o_opaque O 0); cbn; [right|left]; reflexivity.
Qed.

Lemma g_on_created_run src cid ident kb ab cb o c ns :
  (has ident (cn_create c) = true ->
   final (g_TunnelCommunity_on_created O src (cid, ident, kb, ab, cb) o (start c ns)) = on_created c src cid ident) /\
  (has ident (cn_create c) = false ->
   final (g_TunnelCommunity_on_created O src (cid, ident, kb, ab, cb) o (start c ns)) = (c, []) \/
   final (g_TunnelCommunity_on_created O src (cid, ident, kb, ab, cb) o (start c ns)) = (o_ext O 0 c, [])).
Proof. split; [apply g_on_created_relay|apply g_on_created_other]. Qed.

Ltac tail :=
  match goal with c : cnode key, cid : Z, pk : Z |- _ =>
  destruct (assoc cid (n_exits (cn_tab c))) as [es|] eqn:Ees; norm;
  [destruct (pk =? h_pk (es_hop es)) eqn:Ek2; norm;
   [rewrite g_remove_exit_run; cbn; unfold remove_exit; norm; rewrite ?app_nil_r; reflexivity|]|];
  (destruct (assoc cid (n_circuits (cn_tab c))) as [ci|] eqn:Eci; norm; [|reflexivity];
   destruct (circuit_hop ci) as [h0|e] eqn:Eh; norm; [|reflexivity];
   destruct (pk =? h_pk h0) eqn:Ek3; norm; [|reflexivity];
   rewrite g_remove_circuit_run; cbn; unfold remove_circuit; norm; rewrite ?app_nil_r; reflexivity)
  end.

Lemma g_on_destroy_run pk paddr cid reason c ns :
  final (g_TunnelCommunity_on_destroy O (mkPeer pk paddr) (cid, reason) (start c ns)) =
  match on_destroy c pk cid reason with Ok r => r | Raise _ => (c, []) end.
Proof.
  unfold final, start, g_TunnelCommunity_on_destroy, on_destroy. gunf. cbn. unfold peer_eqb, hop_peer. cbn.
  destruct (assoc cid (n_relays (cn_tab c))) as [r|] eqn:Er; norm.
  - destruct (assoc (rr_cid r) (n_relays (cn_tab c))) as [pr|] eqn:Epr; norm.
    + destruct (pk =? h_pk (rr_hop pr)) eqn:Epk; norm.
      * rewrite !g_remove_relay_run. cbn. unfold remove_relay. norm. destruct (reason =? 0); reflexivity.
      * tail.
    + tail.
  - tail.
Qed.
End P.

Section Step.
Variables key nonce : Type.
Variable enc : key -> dir -> nonce -> bytes -> bytes.
Variable dec : key -> dir -> bytes -> option bytes.
Variable ns0 : nat -> nonce.

Lemma five_pos rnd npk (k : option key) cands : 0 < o_delay (mkOr enc rnd npk k cands).
Proof. cbn. lia. Qed.

Lemma pop_later_eq (c : cnode key) p :
  pop_later enc ns0 c p = set_tab c (pop_pending (cn_tab c) p).
Proof.
  unfold pop_later.
  destruct (g_remove_later_run _ _ _ (defO enc) (start c ns0)) with (cid := match p with PRelay x | PExit x | PCircuit x => x end)
    (rn := false) (reason := 0) as ((_ & H1 & _) & (_ & H2 & _) & (_ & H3 & _)).
  destruct p; [exact H2|exact H3|exact H1].
Qed.

Lemma fold_pop_later pend : forall (c : cnode key),
  cn_pending c = [] ->
  fold_left (pop_later enc ns0) pend c =
  mkCN (fold_left pop_pending pend (cn_tab c)) (cn_created c) (cn_create c) [] (cn_max_joined c).
Proof.
  induction pend as [|p tl IH]; intros c Hp; cbn.
  - destruct c; cbn in *; subst; reflexivity.
  - rewrite pop_later_eq. rewrite IH by (destruct c; exact Hp). destruct c; reflexivity.
Qed.

Theorem g_cstep_eq (c : cnode key) (o : cop key nonce) : g_cstep enc dec ns0 c o = cstep enc dec c o.
Proof.
  destruct o; cbn [g_cstep cstep]; try reflexivity.
  - rewrite (g_on_packet_eq _ _ _ (mkOr enc rnd None None []) dec (fun _ => eq_refl)). reflexivity.
  - rewrite g_on_create_run. unfold create_keys. cbn. destruct k, npk; reflexivity.
  - destruct (has ident (cn_create c)) eqn:E.
    + f_equal. apply (g_on_created_relay _ _ _ (defO enc) (five_pos _ _ _ _)). exact E.
    + f_equal. assert (Hh : on_created c src cid ident = (c, [])).
      { unfold on_created. unfold has in E. destruct (assoc ident (cn_create c)); [discriminate|reflexivity]. }
      rewrite Hh.
      destruct (g_on_created_other _ _ _ (defO enc) src cid ident [] [] [] None c ns0 E) as [H|H]; exact H.
  - destruct sig_ok; [|reflexivity].
    rewrite (g_on_destroy_run _ _ _ (defO enc) (five_pos _ _ _ _)). destruct (on_destroy c pk cid reason) as [[c' a]|e]; reflexivity.
  - unfold final, start. rewrite (g_remove_relay_run _ _ _ (defO enc) (five_pos _ _ _ _)). cbn [g_c g_out fst snd app].
    rewrite <- surjective_pairing. reflexivity.
  - unfold final, start. rewrite (g_remove_exit_run _ _ _ (defO enc) (five_pos _ _ _ _)). cbn [g_c g_out fst snd app].
    rewrite <- surjective_pairing. reflexivity.
  - unfold obs, start. rewrite (g_remove_circuit_run _ _ _ (defO enc) (five_pos _ _ _ _)). cbn [g_c g_out fst snd app].
    destruct (remove_circuit c cid reason) as [[c' a]|e]; reflexivity.
  - rewrite fold_pop_later by reflexivity. reflexivity.
Qed.

Theorem g_crun_eq ops : forall (c : cnode key), g_crun enc dec ns0 c ops = crun enc dec c ops.
Proof.
  induction ops as [|o tl IH]; intros c; cbn [g_crun crun]; [reflexivity|].
  rewrite g_cstep_eq. destruct (cstep enc dec c o) as [[c1 a1]|e]; [|reflexivity]. cbn [bind]. rewrite IH. reflexivity.
Qed.
End Step.

(* ---- theorems of C05 restated on the generated code ---- *)
Section Transfer.
Variables key nonce secret : Type.
Variable O : oracles key nonce secret.
Variable dec : key -> dir -> bytes -> option bytes.
Notation enc := (o_enc O).
Hypothesis delay_pos : 0 < o_delay O.
Hypothesis ping_expected : forall i, o_has_cache O 1 i = true.

Lemma gen_create_in_use_refused_l (c : cnode key) src cid ident npkb kb o ns :
  in_use (cn_tab c) cid = true \/ has cid (cn_created c) = true ->
  final (g_TunnelCommunity_on_create O src (cid, ident, npkb, kb) o (start c ns)) = (c, []).
Proof. intros H. rewrite g_on_create_run. apply create_in_use_refused_l. exact H. Qed.

Lemma gen_created_never_overwrites_relay_l (c : cnode key) src cid ident kb ab cb o ns :
  tables_ok c -> has ident (cn_create c) = true ->
  forall x r, assoc x (n_relays (cn_tab c)) = Some r ->
              assoc x (n_relays (cn_tab (fst (final (g_TunnelCommunity_on_created O src (cid, ident, kb, ab, cb) o (start c ns)))))) = Some r.
Proof.
  intros Hok Hh x r Hx. rewrite (g_on_created_relay _ _ _ O delay_pos) by exact Hh.
  apply created_never_overwrites_relay_l; assumption.
Qed.

Lemma gen_destroy_only_adjacent_l (c : cnode key) pk paddr cid reason c' acts ns :
  on_destroy c pk cid reason = Ok (c', acts) ->
  final (g_TunnelCommunity_on_destroy O (mkPeer pk paddr) (cid, reason) (start c ns)) = (c', acts) /\ destroy_post c pk c'.
Proof.
  intros H. split; [rewrite (g_on_destroy_run _ _ _ O delay_pos), H; reflexivity|].
  eapply destroy_only_adjacent_l; eauto.
Qed.

Lemma gen_exit_binding_l (nd : node key) src pkt ns nd' acts cid data dest :
  aead_authentic enc dec -> length (n_prefix nd) = 22%nat -> bytes_ok pkt ->
  g_on_packet O dec nd src pkt ns = Ok (nd', acts) -> In (ExitSendto cid data dest) acts ->
  exists c es k n m,
    from_bin pkt = Ok c /\ cl_cid c = cid /\ cl_plain c = false /\
    assoc cid (n_relays nd) = None /\ assoc cid (n_exits nd) = Some es /\ h_keys (es_hop es) = Some k /\
    cl_msg c = enc k FORWARD n m /\
    (es_enabled es = true \/ ip_eqb src (h_addr (es_hop es)) = true).
Proof.
  intros A L B H I. rewrite (g_on_packet_eq _ _ _ O dec ping_expected) in H.
  eapply exit_binding_l; eauto.
Qed.

Lemma gen_data_plane_preserves_tables_l (nd : node key) src pkt ns nd' acts :
  g_on_packet_rec O dec nd src pkt ns = Ok (nd', acts) -> same_tables nd nd'.
Proof. intros H. rewrite (g_on_packet_rec_eq _ _ _ O dec ping_expected) in H. eapply on_packet_rec_same; eauto. Qed.
End Transfer.

Section TransferRun.
Variables key nonce : Type.
Variable enc : key -> dir -> nonce -> bytes -> bytes.
Variable dec : key -> dir -> bytes -> option bytes.
Variable ns0 : nat -> nonce.
Lemma gen_tables_inv_l ops (c c' : cnode key) acts :
  tables_ok c -> run_fresh enc dec c ops -> g_crun enc dec ns0 c ops = Ok (c', acts) -> tables_ok c'.
Proof. intros H F E. rewrite g_crun_eq in E. eapply crun_ok; eauto. Qed.
End TransferRun.
