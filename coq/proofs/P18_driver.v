(* C18 (extension) - theorems about the verifier's challenge bookkeeping (hand model M18_driver): an answer is
   matched to the outstanding challenge with ITS hash, counted once, a failed honesty check ends the
   verification for good, and a complete run aggregates exactly the answers, in whatever order they arrive. *)
From Coq Require Import ZArith List Bool Lia Permutation.
From IPV8V Require Import lib.PyErr lib.Bytes model.M18_driver.
Import ListNotations.
Open Scope Z_scope.

Section DriverProofs.
  Variable A R : Type.
  Variable sha : bytes -> Z.
  Variable proc : A -> option bytes -> R -> res A.
  Variable hon : Z -> R -> res bool.
  Variable empty_agg : A.
  Variable alg_honesty : bool.

  Local Notation step := (on_challenge_response sha proc hon empty_agg alg_honesty).

  Local Notation vs_ok := (vs_ok sha).
  Local Notation fold_answers := (fold_answers sha proc).

  (* ---- lists ---- *)
  Lemma remove_first_notin x l : ~ In x l -> remove_first x l = l.
  Proof.
    induction l as [|y l IH]; [reflexivity|]. cbn. intros H. destruct (y =? x) eqn:E; [exfalso; apply H; left; lia|].
    f_equal. apply IH. intros Hin. apply H. right. exact Hin.
  Qed.

  Lemma remove_first_in y x l : In y (remove_first x l) -> In y l.
  Proof.
    induction l as [|z l IH]; cbn; [tauto|]. destruct (z =? x); [auto|]. intros [H|H]; [left; exact H|right; exact (IH H)].
  Qed.

  Lemma remove_first_nodup x l : NoDup l -> NoDup (remove_first x l) /\ ~ In x (remove_first x l).
  Proof.
    induction 1 as [|y l Hy Hl IH]; [split; [constructor|tauto]|]. cbn. destruct (y =? x) eqn:E.
    - assert (y = x) by lia. subst. split; assumption.
    - destruct IH as [IH1 IH2]. split.
      + constructor; [|exact IH1]. intros Hin. apply Hy. eapply remove_first_in. exact Hin.
      + intros [H|H]; [lia|exact (IH2 H)].
  Qed.

  Lemma remove_first_length x l : In x l -> S (length (remove_first x l)) = length l.
  Proof.
    induction l as [|y l IH]; [contradiction|]. cbn. destruct (y =? x) eqn:E; [reflexivity|].
    intros [H|H]; [lia|]. cbn. f_equal. exact (IH H).
  Qed.

  Lemma remove_first_perm x l : In x l -> Permutation l (x :: remove_first x l).
  Proof.
    induction l as [|y l IH]; [contradiction|]. cbn. destruct (y =? x) eqn:E.
    - assert (y = x) by lia. subst. reflexivity.
    - intros [H|H]; [lia|]. etransitivity; [apply perm_skip; exact (IH H)|apply perm_swap].
  Qed.

  Lemma existsb_eqb_in x l : existsb (Z.eqb x) l = true <-> In x l.
  Proof.
    rewrite existsb_exists. split.
    - intros (y & Hy & E). apply Z.eqb_eq in E. subst. exact Hy.
    - intros H. exists x. split; [exact H|apply Z.eqb_refl].
  Qed.

  (* the matching loop: with distinct hashes it retires exactly the challenge whose hash was answered *)
  Lemma for_remove_first_spec hh : forall chals cur, NoDup (map sha chals) -> In hh (map sha chals) ->
    exists c chals', for_remove_first (fun c => sha c =? hh) chals cur = (Some c, chals') /\
      sha c = hh /\ In c chals /\ map sha chals' = remove_first hh (map sha chals).
  Proof.
    induction chals as [|c0 chals IH]; intros cur Hnd Hin; [contradiction|].
    cbn [for_remove_first map remove_first]. destruct (sha c0 =? hh) eqn:E.
    - exists c0, chals. split; [reflexivity|]. split; [lia|]. split; [left; reflexivity|reflexivity].
    - inversion Hnd as [|? ? Hn Hnd']; subst. destruct Hin as [H|Hin]; [lia|].
      destruct (IH (Some c0) Hnd' Hin) as (c & chals' & Hr & Hs & Hi & Hm). rewrite Hr.
      exists c, (c0 :: chals'). split; [reflexivity|]. split; [exact Hs|]. split; [right; exact Hi|].
      cbn. rewrite Hm. reflexivity.
  Qed.

  Lemma match_challenge_spec st hh : vs_ok st -> In hh (vs_hashed st) ->
    exists c (st' : vstate A), match_challenge sha st hh = (Some c, st') /\ sha c = hh /\ In c (vs_chals st) /\
      vs_hashed st' = remove_first hh (vs_hashed st) /\ vs_ok st' /\
      vs_pending st' = vs_pending st /\ vs_active st' = vs_active st /\ vs_agg st' = vs_agg st.
  Proof.
    intros [Hnd Hm] Hin. unfold match_challenge. rewrite (proj2 (existsb_eqb_in hh _) Hin).
    rewrite <- Hm in Hnd, Hin.
    destruct (for_remove_first_spec hh (vs_chals st) None Hnd Hin) as (c & chals' & Hr & Hs & Hi & Hmap).
    rewrite Hr. exists c. eexists. split; [reflexivity|]. cbn. split; [exact Hs|]. split; [exact Hi|].
    split; [reflexivity|]. split; [|auto]. unfold vs_ok; cbn. rewrite Hm in *. split; [apply remove_first_nodup; exact Hnd|exact Hmap].
  Qed.

  Lemma match_challenge_notin (st : vstate A) hh : ~ In hh (vs_hashed st) -> match_challenge sha st hh = (None, st).
  Proof.
    intros H. unfold match_challenge. destruct (existsb (Z.eqb hh) (vs_hashed st)) eqn:E; [|reflexivity].
    apply existsb_eqb_in in E. contradiction.
  Qed.

  (* ---- pending challenges ---- *)
  Lemma pend_get_notin p h : ~ In h (map fst p) -> pend_get p h = None.
  Proof.
    induction p as [|[k v] p IH]; [reflexivity|]. cbn. intros H. destruct (k =? h) eqn:E; [exfalso; apply H; left; lia|].
    apply IH. intros Hin. apply H. right. exact Hin.
  Qed.

  Lemma pend_get_del_same p h : NoDup (map fst p) -> pend_get (pend_del p h) h = None.
  Proof.
    induction p as [|[k v] p IH]; [reflexivity|]. cbn. intros Hnd. inversion Hnd as [|? ? Hk Hnd']; subst.
    destruct (k =? h) eqn:E.
    - assert (k = h) by lia. subst. apply pend_get_notin. exact Hk.
    - cbn. rewrite E. exact (IH Hnd').
  Qed.

  Lemma pend_get_del_other p h h' : h' <> h -> pend_get (pend_del p h) h' = pend_get p h'.
  Proof.
    intros Hne. induction p as [|[k v] p IH]; [reflexivity|]. cbn. destruct (k =? h) eqn:E.
    - destruct (k =? h') eqn:E'; [lia|reflexivity].
    - cbn. destruct (k =? h'); [reflexivity|exact IH].
  Qed.

  (* ---- one answer ---- *)
  (* an answer that is not outstanding (never sent, or already answered) changes nothing *)
  Lemma not_outstanding_ignored_l st hh resp d b q : pend_get (vs_pending st) hh = None ->
    step st hh resp d b q = Ok (st, []).
  Proof. intros H. unfold on_challenge_response. rewrite H. reflexivity. Qed.

  (* once the verification has ended nothing is counted or reported any more *)
  Lemma ended_is_silent_l st hh resp d b q : vs_active st = false ->
    exists st' : vstate A, step st hh resp d b q = Ok (st', []) /\ vs_active st' = false /\ vs_agg st' = vs_agg st /\
                vs_hashed st' = vs_hashed st /\ vs_chals st' = vs_chals st.
  Proof.
    intros H. unfold on_challenge_response. destruct (pend_get (vs_pending st) hh).
    - cbn [vs_active set_pending]. rewrite H. cbn. eexists; split; [reflexivity|]. cbn. auto.
    - exists st. auto.
  Qed.

  (* a real challenge (honesty_check = -1) whose answer arrives: the aggregate is updated with THE challenge whose
     hash the answer carries, that challenge and its hash leave the lists, the hash is no longer outstanding *)
  Lemma answer_matched_by_hash_l st hh resp d b q hc st' out : vs_ok st -> vs_active st = true ->
    pend_get (vs_pending st) hh = Some hc -> hc < 0 -> In hh (vs_hashed st) ->
    step st hh resp d b q = Ok (st', out) ->
    exists c, In c (vs_chals st) /\ sha c = hh /\ proc (vs_agg st) (Some c) resp = Ok (vs_agg st') /\
      vs_hashed st' = remove_first hh (vs_hashed st) /\ vs_ok st' /\
      (vs_hashed st' = [] -> out = [VCallback (vs_agg st')] /\ vs_active st' = false).
  Proof.
    intros Hok Hact Hget Hneg Hin Hrun. unfold on_challenge_response in Hrun. rewrite Hget in Hrun. cbn [vs_active set_pending] in Hrun. rewrite Hact in Hrun. cbn [negb] in Hrun.
    set (st0 := set_pending st (pend_del (vs_pending st) hh)) in *.
    assert (Hok0 : vs_ok st0) by exact Hok.
    destruct (match_challenge_spec st0 hh Hok0 Hin) as (c & st1 & Hm & Hs & Hic & Hh & Hok1 & Hp & Ha & Hg).
    rewrite Hm in Hrun. destruct (hc <? 0) eqn:E; [|lia].
    destruct (proc (vs_agg st1) (Some c) resp) as [a|e] eqn:Ep; cbn [bind] in Hrun; [|discriminate].
    exists c. split; [exact Hic|]. split; [exact Hs|].
    assert (Hagg : vs_agg st1 = vs_agg st) by (rewrite Hg; reflexivity).
    cbn [vs_hashed set_agg] in *.
    destruct (Z.of_nat (length (vs_hashed st1)) =? 0) eqn:El.
    - inversion Hrun; subst st' out; clear Hrun. cbn. rewrite <- Hagg. split; [exact Ep|]. split; [exact Hh|].
      split; [exact Hok1|]. intros _. auto.
    - destruct (next_challenge sha alg_honesty (set_agg st1 a) d b q) as [[[c' b']|]|] eqn:En; cbn [bind] in Hrun; [| |discriminate];
        inversion Hrun; subst st' out; clear Hrun; cbn; rewrite <- Hagg;
        (split; [exact Ep|]); (split; [exact Hh|]); (split; [exact Hok1|]);
        intros Hnil; rewrite Hnil in El; discriminate.
  Qed.

  (* a failed honesty check: the cheater is reported with the empty aggregate, the verification ends *)
  Lemma failed_honesty_check_ends_l st hh resp d b q hc : vs_active st = true ->
    pend_get (vs_pending st) hh = Some hc -> 0 <= hc -> hon hc resp = Ok false ->
    exists st' : vstate A, step st hh resp d b q = Ok (st', [VCallback empty_agg]) /\ vs_active st' = false.
  Proof.
    intros Hact Hget Hhc Hhon. unfold on_challenge_response. rewrite Hget. cbn [vs_active set_pending]. rewrite Hact. cbn [negb].
    destruct (match_challenge sha _ hh) as [c st1] eqn:Em. destruct (hc <? 0) eqn:E; [lia|].
    rewrite Hhon. cbn [bind]. eexists; split; [reflexivity|reflexivity].
  Qed.

  (* ---- a whole verification without honesty checks: every challenge outstanding, answers in any order ---- *)
  Lemma find_by_hash hh chals c : NoDup (map sha chals) -> In c chals -> sha c = hh -> find (fun c => sha c =? hh) chals = Some c.
  Proof.
    induction chals as [|c0 chals IH]; [contradiction|]. cbn. intros Hnd Hin Hs. inversion Hnd as [|? ? Hn Hnd']; subst.
    destruct (sha c0 =? sha c) eqn:E.
    - destruct Hin as [->|Hin]; [reflexivity|]. exfalso. apply Hn. apply in_map_iff. exists c. split; [lia|exact Hin].
    - destruct Hin as [->|Hin]; [lia|]. exact (IH Hnd' Hin eq_refl).
  Qed.

  Lemma find_none_intro {T} (p : T -> bool) l : (forall x, In x l -> p x = false) -> find p l = None.
  Proof.
    induction l as [|x l IH]; [reflexivity|]. intros H. cbn. rewrite (H x (or_introl eq_refl)). apply IH.
    intros y Hy. apply H. right. exact Hy.
  Qed.

  Lemma no_unsent_challenge (st : vstate A) d b q : alg_honesty = false -> vs_ok st -> all_outstanding st ->
    next_challenge sha alg_honesty st d b q = Ok None.
  Proof.
    intros Hh [_ Hm] Hall. unfold next_challenge. rewrite Hh. cbn.
    assert (E : find (fun c => negb (pend_has (vs_pending st) (sha c))) (vs_chals st) = None).
    { apply find_none_intro. intros c Hc. unfold pend_has. rewrite (Hall (sha c)); [reflexivity|].
      rewrite <- Hm. apply in_map. exact Hc. }
    rewrite E. reflexivity.
  Qed.

  Lemma sub_chals_find chals0 (st : vstate A) hh c : NoDup (map sha chals0) -> incl (vs_chals st) chals0 -> In c (vs_chals st) -> sha c = hh ->
    find (fun c => sha c =? hh) chals0 = Some c.
  Proof. intros Hnd Hincl Hin Hs. apply find_by_hash; [exact Hnd|apply Hincl; exact Hin|exact Hs]. Qed.

  Lemma for_remove_first_incl p : forall l cur v l', for_remove_first p l cur = (v, l') -> incl l' l.
  Proof.
    induction l as [|c l IH]; intros cur v l' H; cbn in H.
    - inversion H. apply incl_refl.
    - destruct (p c).
      + inversion H; subst. apply incl_tl, incl_refl.
      + destruct (for_remove_first p l (Some c)) as [v0 l0] eqn:E. inversion H; subst.
        apply incl_cons; [left; reflexivity|]. apply incl_tl. exact (IH _ _ _ E).
  Qed.

  Lemma match_challenge_incl (st : vstate A) hh v st' : match_challenge sha st hh = (v, st') -> incl (vs_chals st') (vs_chals st).
  Proof.
    unfold match_challenge. destruct (existsb (Z.eqb hh) (vs_hashed st)).
    - destruct (for_remove_first (fun c0 => sha c0 =? hh) (vs_chals st) None) as [v0 l'] eqn:Ef. intros H; inversion H; subst. cbn.
      exact (for_remove_first_incl _ _ _ _ _ Ef).
    - intros H; inversion H; subst. apply incl_refl.
  Qed.

  Lemma run_all_answers chals0 : NoDup (map sha chals0) -> alg_honesty = false ->
    forall answers st, vs_ok st -> vs_active st = true -> all_outstanding st -> incl (vs_chals st) chals0 ->
    NoDup (map fst (vs_pending st)) ->
    Permutation (map fst answers) (vs_hashed st) -> vs_hashed st <> [] ->
    forall afin, fold_answers chals0 (vs_agg st) answers = Ok afin ->
    exists st' : vstate A, run_responses sha proc hon empty_agg alg_honesty st
                  (map (fun a => (fst a, snd a, (false, 0, @nil bytes))) answers) = Ok (st', [VCallback afin]) /\
                vs_agg st' = afin /\ vs_active st' = false /\ vs_hashed st' = [] /\ vs_chals st' = [].
  Proof.
    intros Hnd0 Hh. induction answers as [|[hh resp] answers IH]; intros st Hok Hact Hall Hincl Hpn Hperm Hne afin Hfold.
    - cbn in Hperm. apply Permutation_nil in Hperm. contradiction.
    - cbn [map fst snd] in *. unfold run_responses in *. cbn [run_with fold_answers] in *.
      assert (Hin : In hh (vs_hashed st)) by (eapply Permutation_in; [exact Hperm|left; reflexivity]).
      pose proof (Hall hh Hin) as Hget.
      (* unfold one step *)
      unfold on_challenge_response at 1. rewrite Hget. cbn [vs_active set_pending]. rewrite Hact. cbn [negb].
      set (st0 := set_pending st (pend_del (vs_pending st) hh)) in *.
      destruct (match_challenge_spec st0 hh Hok Hin) as (c & st1 & Hm & Hs & Hic & Hhd & Hok1 & Hp & Ha & Hg).
      change (vs_hashed st0) with (vs_hashed st) in Hhd. change (vs_chals st0) with (vs_chals st) in Hic.
      change (vs_active st0) with (vs_active st) in Ha. change (vs_agg st0) with (vs_agg st) in Hg.
      change (vs_pending st0) with (pend_del (vs_pending st) hh) in Hp.
      rewrite Hm. replace (-1 <? 0) with true by reflexivity.
      rewrite (sub_chals_find chals0 st hh c Hnd0 Hincl Hic Hs) in Hfold.
      assert (Hagg : vs_agg st1 = vs_agg st) by (rewrite Hg; reflexivity). rewrite Hagg.
      destruct (proc (vs_agg st) (Some c) resp) as [a|e] eqn:Ep; cbn [bind] in *; [|discriminate].
      cbn [vs_hashed set_agg].
      (* properties of the state after the step *)
      assert (Hchals1 : incl (vs_chals st1) chals0).
      { eapply incl_tran; [exact (match_challenge_incl _ _ _ _ Hm)|exact Hincl]. }
      assert (Hnd : NoDup (vs_hashed st)) by exact (proj1 Hok).
      assert (Hperm' : Permutation (map fst answers) (remove_first hh (vs_hashed st))).
      { apply Permutation_cons_inv with (a := hh). etransitivity; [exact Hperm|apply remove_first_perm; exact Hin]. }
      destruct (Z.of_nat (length (vs_hashed st1)) =? 0) eqn:El.
      + (* last answer *)
        assert (Hnil : vs_hashed st1 = []) by (destruct (vs_hashed st1); [reflexivity|cbn in El; lia]).
        rewrite Hhd in Hnil. rewrite Hnil in Hperm'. apply Permutation_sym, Permutation_nil in Hperm'.
        destruct answers; [|discriminate]. cbn in *. inversion Hfold; subst afin.
        eexists. split; [reflexivity|]. cbn. rewrite Hhd, Hnil.
        destruct Hok1 as [_ Hmap]. rewrite Hhd, Hnil in Hmap. destruct (vs_chals st1); [auto|discriminate].
      + (* more answers to come *)
        set (st2 := set_agg st1 a).
        assert (Hok2 : vs_ok st2) by exact Hok1.
        assert (Hall2 : all_outstanding st2).
        { intros h Hh'. cbn in Hh'. rewrite Hhd in Hh'. cbn. rewrite Hp. cbn.
          destruct (remove_first_nodup hh _ Hnd) as [_ Hnot].
          rewrite pend_get_del_other by (intros ->; exact (Hnot Hh')). apply Hall. eapply remove_first_in. exact Hh'. }
        rewrite (no_unsent_challenge st2 false 0 [] Hh Hok2 Hall2). cbn [bind fst snd].
        assert (Hne2 : vs_hashed st2 <> []) by (cbn; intros Hn; rewrite Hn in El; discriminate).
        assert (Hpn2 : NoDup (map fst (vs_pending st2))).
        { cbn. rewrite Hp. cbn. clear - Hpn. induction (vs_pending st) as [|[k v] p IHp]; [constructor|]. cbn in *.
          inversion Hpn; subst. destruct (k =? hh); [assumption|]. cbn. constructor; [|apply IHp; assumption].
          intros Hin. apply H1. clear - Hin. induction p as [|[k' v'] p IH]; [contradiction|]. cbn in *.
          destruct (k' =? hh); [right; exact Hin|]. destruct Hin as [H|H]; [left; exact H|right; exact (IH H)]. }
        destruct (IH st2 Hok2 ltac:(cbn; rewrite Ha; exact Hact) Hall2 Hchals1 Hpn2
                     ltac:(cbn; rewrite Hhd; exact Hperm') Hne2 afin Hfold) as (st' & Hrun & Hres).
        rewrite Hrun. cbn [bind fst snd app]. exists st'. split; [reflexivity|exact Hres].
  Qed.
End DriverProofs.
