(* C19 - obligations discharged on the tables generated from the source (gen/G19_db.v), by computation,
   and the statements of props/C19.v assembled from the generic lemmas. *)
From Coq Require Import ZArith List Bool Lia.
From IPV8V Require Import lib.PyErr lib.Bytes model.M19_crash gen.G19_db spec.S19_durable
  proofs.P19_base proofs.P19_crash.
Import ListNotations.
Open Scope Z_scope.

(* the source treats a missing version row as "not versioned yet" (repaired _prepare_version) *)
Lemma prepare_pinned_false : prepare_pinned = false.
Proof. reflexivity. Qed.

Lemma identity_cfg_ok : cfg_okb identity_cfg = true.
Proof. vm_compute. reflexivity. Qed.

Lemma wallet_cfg_ok : cfg_okb wallet_cfg = true.
Proof. vm_compute. reflexivity. Qed.

Lemma no_with_block_users : with_block_users = [].
Proof. reflexivity. Qed.

Lemma insert_okb_shape ops : insert_okb ops = true -> exists ig t, ops = [OExec ig t; OCommit] /\ t <> T_OPTION.
Proof.
  unfold insert_okb. destruct ops as [|[ig t| |] [|[| |] [|? ?]]]; try discriminate.
  intros H. apply negb_true_iff, Z.eqb_neq in H. eauto.
Qed.

Lemma every_insert_commits_l :
  Forall (fun ops => exists ig t, ops = [OExec ig t; OCommit] /\ t <> T_OPTION)
         (cfg_inserts identity_cfg ++ cfg_inserts wallet_cfg) /\
  (forall (S : Type) (O : store_ops S) (m : ms S), ms_pend m = 0 -> db_commit O m = real_commit O m).
Proof.
  split.
  - apply Forall_forall. intros ops H. apply insert_okb_shape.
    assert (A : forallb insert_okb (cfg_inserts identity_cfg ++ cfg_inserts wallet_cfg) = true) by (vm_compute; reflexivity).
    rewrite forallb_forall in A. apply A. exact H.
  - intros S O m P. unfold db_commit. rewrite P. reflexivity.
Qed.

(* the concrete two-level store meets the contract: the hypotheses are satisfiable *)
Lemma cstore_contract : contract cstore_ops.
Proof.
  constructor; cbn; intros; try reflexivity.
  - destruct (apply_stmt (cs_view s) q); reflexivity.
  - destruct (apply_stmt (cs_view s) q); reflexivity.
  - destruct (apply_stmt (cs_view s) q); reflexivity.
Qed.

Lemma fresh_store_fresh : fresh cstore_ops fresh_store.
Proof. split; reflexivity. Qed.

Section Statements.
Context {S : Type}.
Variable O : store_ops S.
Hypothesis K : contract O.
Variable cfg : dbcfg.
Hypothesis Ok : cfg_okb cfg = true.

Let W : cfg_wf cfg := cfg_okb_wf cfg Ok.

Lemma reopen_ok_l : forall s0 h,
  fresh O s0 -> only_calls h ->
  let m := run_history O cfg prepare_pinned (mkMs s0 0 [] []) h in
  exists tr m',
    open O cfg prepare_pinned m = (tr, m', Done) /\
    version_row (s_view O (ms_st m')) = Some (cfg_latest cfg) /\
    (forall td, In td (schema_tables cfg) -> find_table (s_view O (ms_st m')) (t_id td) = Some td) /\
    s_durable O (ms_st m') = s_view O (ms_st m') /\
    data_rows (s_view O (ms_st m')) = data_rows (s_view O (ms_st m)).
Proof.
  rewrite prepare_pinned_false. intros s0 h F C m.
  destruct (history_reopen_l O K cfg W s0 h F C) as [tr [m' [E [A1 [A2 [A3 [A4 _]]]]]]].
  exists tr, m'. auto.
Qed.

Lemma acked_durable_l : forall s0 h,
  fresh O s0 -> only_calls h ->
  let m := run_history O cfg prepare_pinned (mkMs s0 0 [] []) h in
  exists tr m',
    open O cfg prepare_pinned m = (tr, m', Done) /\
    Forall (ack_stored cfg (s_view O (ms_st m'))) (ms_acks m) /\
    (key_consistent cfg (all_calls h) -> Forall (ack_present cfg (s_view O (ms_st m'))) (ms_acks m)).
Proof.
  rewrite prepare_pinned_false. intros s0 h F C m.
  destruct (history_reopen_l O K cfg W s0 h F C) as [tr [m' [E [_ [_ [_ [_ [A5 [A6 [A7 A8]]]]]]]]]].
  exists tr, m'. split; [exact E|]. split; [exact A5|].
  intros KC. apply Forall_forall. intros c Hc. rewrite Forall_forall in A5.
  apply (ack_present_of_stored cfg W _ (ms_started (run_history O cfg false (mkMs s0 0 [] []) h))); auto.
  intros c1 c2 t td H1 H2. apply KC; apply A8; assumption.
Qed.

Lemma no_partial_rows_l : forall s0 h,
  fresh O s0 -> only_calls h ->
  let m := run_history O cfg prepare_pinned (mkMs s0 0 [] []) h in
  exists tr m',
    open O cfg prepare_pinned m = (tr, m', Done) /\
    rows_started cfg (ms_started m) (s_view O (ms_st m')) /\
    incl (ms_acks m) (ms_started m) /\ incl (ms_started m) (all_calls h).
Proof.
  rewrite prepare_pinned_false. intros s0 h F C m.
  destruct (history_reopen_l O K cfg W s0 h F C) as [tr [m' [E [_ [_ [_ [_ [_ [A6 [A7 A8]]]]]]]]]].
  exists tr, m'. auto.
Qed.

Lemma crash_prefix_exact_g : forall wl m,
  ms_pend m = 0 -> s_durable O (ms_st m) = s_view O (ms_st m) ->
  exists tr m',
    run_actions O cfg m (map (fun c => ACall (fst c) (snd c)) wl) = (tr, m') /\
    s_view O (ms_st m') = effect cfg (s_view O (ms_st m)) wl /\
    ms_acks m' = ms_acks m ++ returned cfg (s_view O (ms_st m)) wl /\
    Forall (fun x => exists a j s, (a <= j)%nat /\ (j <= s)%nat /\ (s <= a + 1)%nat /\ (s <= length wl)%nat /\
              s_durable O (ms_st x) = effect cfg (s_durable O (ms_st m)) (firstn j wl) /\
              ms_acks x = ms_acks m ++ returned cfg (s_durable O (ms_st m)) (firstn a wl) /\
              ms_started x = ms_started m ++ firstn s wl) tr.
Proof.
  intros wl m P C.
  destruct (crash_prefix_exact_l O K cfg W wl m P C) as [tr [m' [E [_ [_ [V [A [_ F]]]]]]]].
  exists tr, m'. auto.
Qed.

Lemma with_block_defers_g : forall wl m,
  exists tr m',
    run_actions O cfg m (AEnter :: map (fun c => ACall (fst c) (snd c)) wl) = (tr, m') /\
    Forall (fun x => s_durable O (ms_st x) = s_durable O (ms_st m)) tr /\
    s_durable O (ms_st m') = s_durable O (ms_st m) /\ 0 < ms_pend m'.
Proof. intros wl m. apply (with_block_defers_l O K cfg W). Qed.

Lemma with_block_exit_publishes_g : forall m,
  1 < ms_pend m ->
  exists m', run_action O cfg m (AExit XNone) = ([m'], m', Done) /\
             s_durable O (ms_st m') = s_view O (ms_st m) /\ s_view O (ms_st m') = s_view O (ms_st m) /\ ms_pend m' = 0.
Proof. intros m P. apply (exit_publishes_l O K cfg). exact P. Qed.

End Statements.
