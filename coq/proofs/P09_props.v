(* C09 - the statements of props/C09.v in their final form. *)
From Coq Require Import ZArith List Bool Lia ZifyBool.
From IPV8V Require Import gen.G09_rules model.M09_reclaim spec.S09_reclaim proofs.P09_alist proofs.P09_sweep
  proofs.P09_inv proofs.P09_ext proofs.P09_special proofs.P09_remove proofs.P09_build proofs.P09_main.
Import ListNotations.
Open Scope Z_scope.

Lemma rules_meet_spec_l st tnow :
  (forall c, circ_rule st tnow c = circuit_verdict st tnow c)
  /\ (forall r, relay_rule st tnow r = relay_verdict st tnow r)
  /\ (forall e, exit_rule st tnow e = exit_verdict st tnow e).
Proof.
  split; [|split]; intros; [apply circ_rule_spec | apply relay_rule_spec | apply exit_rule_spec].
Qed.

Lemma sweep_schedules_iff_l st s cid dd rn :
  (In (DRemove KCirc cid dd rn) (sweep_spec st s) <->
     exists c b, In (cid, c) (circuits s) /\ circuit_verdict st (now s) c = Some b /\ dd = (if b then 1 else 0) /\ rn = false)
  /\ (In (DRemove KRelay cid dd rn) (sweep_spec st s) <->
     exists r b, In (cid, r) (relays s) /\ relay_verdict st (now s) r = Some b /\ dd = (if b then 1 else 0) /\ rn = false)
  /\ (In (DRemove KExit cid dd rn) (sweep_spec st s) <->
     exists e b, In (cid, e) (exits s) /\ exit_verdict st (now s) e = Some b /\ dd = (if b then 1 else 0) /\ rn = false).
Proof.
  split; [apply sweep_schedules_circuit_l | split; [apply sweep_schedules_relay_l | apply sweep_schedules_exit_l]].
Qed.

Section FromInit.
Variable st : settings.
Hypothesis Hst : settings_ok st.

Lemma reach_inv t0 tr : timely st (init_node t0) tr = true -> inv st (fst (run st (init_node t0) tr)).
Proof. intro Ht. apply run_inv; [exact Hst | exact Ht | apply inv_init]. Qed.

Lemma relay_reclaim_l t0 tr t cid r :
  timely st (init_node t0) tr = true ->
  let s := fst (run st (init_node t0) tr) in
  on_time st s t = true -> aget cid (relays s) = Some r -> t <= la (r_ro r) + B_entry st.
Proof. intros Ht s Hon H. eapply relay_bound_l; eauto. apply reach_inv; exact Ht. Qed.

Lemma exit_reclaim_l t0 tr t cid e :
  timely st (init_node t0) tr = true ->
  let s := fst (run st (init_node t0) tr) in
  on_time st s t = true -> aget cid (exits s) = Some e -> t <= la (e_ro e) + B_entry st.
Proof. intros Ht s Hon H. eapply exit_bound_l; eauto. apply reach_inv; exact Ht. Qed.

Lemma circuit_reclaim_l t0 tr t cid c :
  timely st (init_node t0) tr = true ->
  let s := fst (run st (init_node t0) tr) in
  on_time st s t = true -> aget cid (circuits s) = Some c -> t <= circuit_deadline st c.
Proof. intros Ht s Hon H. eapply circuit_bound_l; eauto. apply reach_inv; exact Ht. Qed.

(* the same, read as "nothing is left": an id whose entries (if any) were last active at or before
   t_quiet is in none of the three tables once the bound has passed *)
Lemma node_reclaimed_l t0 tr t t_quiet cid :
  timely st (init_node t0) tr = true ->
  let s := fst (run st (init_node t0) tr) in
  on_time st s t = true ->
  (forall r, aget cid (relays s) = Some r -> la (r_ro r) <= t_quiet) ->
  (forall e, aget cid (exits s) = Some e -> la (e_ro e) <= t_quiet) ->
  (forall c, aget cid (circuits s) = Some c -> circuit_deadline st c <= t_quiet + B_entry st) ->
  t_quiet + B_entry st < t ->
  holds_id s cid = false.
Proof.
  intros Ht s Hon Hr He Hc Hlt. unfold holds_id.
  destruct (aget cid (circuits s)) as [c|] eqn:Ec.
  - pose proof (circuit_reclaim_l t0 tr t cid c Ht Hon Ec). specialize (Hc _ eq_refl). lia.
  - destruct (aget cid (relays s)) as [r|] eqn:Er.
    + pose proof (relay_reclaim_l t0 tr t cid r Ht Hon Er). specialize (Hr _ eq_refl). lia.
    + destruct (aget cid (exits s)) as [e|] eqn:Ee.
      * pose proof (exit_reclaim_l t0 tr t cid e Ht Hon Ee). specialize (He _ eq_refl). lia.
      * unfold ahas. rewrite Ec, Er, Ee. reflexivity.
Qed.

End FromInit.
