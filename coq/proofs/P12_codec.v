(* C12x - snapshot / load_snapshot over the `address` packer of the C02 wire model.  The round trip is
   derived from C02's theorem (P02_roundtrip.pack_unpack_fmt_l = props/C02.pack_unpack_fmt), not from a
   codec of our own: IPv4, IPv6 and host-name records, at any record boundary, the last one ending
   exactly at the end of the buffer. *)
From Coq Require Import ZArith List Bool Lia Arith.
From IPV8V Require Import lib.PyErr lib.Bytes lib.BE model.M02_wire proofs.P02_prims proofs.P02_roundtrip
  model.M12_network spec.S12_graph proofs.P12_base proofs.P12_inv proofs.P12_queries proofs.P12_snapshot.
Import ListNotations.
Open Scope Z_scope.

(* ------------------------------------------------------------------ one record *)
Lemma pack_address_eq a : pack_address a = addr_pack false a.
Proof. reflexivity. Qed.

(* C02: a packed address unpacks to itself at any offset, whatever follows *)
Lemma record_roundtrip a bs (pre suf : bytes) :
  packable a -> pack_address a = Ok bs ->
  unpack_address (pre ++ bs ++ suf) (length pre) = Ok (a, (length pre + length bs)%nat).
Proof.
  intros Hok Hp. unfold unpack_address.
  rewrite (pack_unpack_fmt_l wire_keys (FAddr false) (VAddr a) bs pre suf); [reflexivity|reflexivity|exact Hok|exact Hp|left; reflexivity].
Qed.

Lemma packable_packs a : packable a -> exists bs, pack_address a = Ok bs /\ (5 <= length bs)%nat.
Proof.
  unfold packable. rewrite pack_address_eq. destruct a as [ip port|ip port|host port]; cbn [addr_ok addr_pack negb andb]; intros H.
  - rewrite H. eexists. split; [reflexivity|]. apply andb_true_iff in H as [H _]. apply andb_true_iff in H as [H _].
    apply Nat.eqb_eq in H. cbn [length]. rewrite app_length, be_encode_length. lia.
  - rewrite H. eexists. split; [reflexivity|]. apply andb_true_iff in H as [H _]. apply andb_true_iff in H as [H _].
    apply Nat.eqb_eq in H. cbn [length]. rewrite app_length, be_encode_length. lia.
  - rewrite H. eexists. split; [reflexivity|]. cbn [length]. rewrite !app_length, !be_encode_length. lia.
Qed.

(* ------------------------------------------------------------------ a whole snapshot *)
Lemma snapshot_is_packed n : snapshot n = packed (snapshot_addrs n).
Proof. reflexivity. Qed.

Lemma packed_cons a l bs :
  packed (a :: l) = Ok bs -> exists ba bl, pack_address a = Ok ba /\ packed l = Ok bl /\ bs = ba ++ bl.
Proof.
  unfold packed. cbn [map concat_res]. destruct (pack_address a) as [ba|]; cbn [bind]; [|discriminate].
  destruct (concat_res (map pack_address l)) as [bl|]; cbn [bind]; [|discriminate].
  intros H. inversion H. eauto.
Qed.

Lemma packed_ok l : Forall packable l -> exists bs, packed l = Ok bs.
Proof.
  induction l as [|a l IH]; intros H; [exists []; reflexivity|]. inversion H; subst.
  destruct (packable_packs a H2) as (ba & Ea & _). destruct (IH H3) as (bl & El).
  exists (ba ++ bl). unfold packed in *. cbn [map concat_res]. rewrite Ea, El. reflexivity.
Qed.

Definition loaded (l : list addr) (all : list (addr * walk)) : list (addr * walk) :=
  fold_left (fun al a => d_set addr_eqb a blank al) l all.
Definition forgotten (l : list addr) (c : list (key * list addr)) : list (key * list addr) :=
  fold_left (fun c a => forget_intro a c) l c.

(* loading the concatenation of packed records, starting at a record boundary, reads back exactly the
   records, one per iteration, and stops at the end of the buffer without an exception *)
Lemma load_packed l : forall bs (pre : bytes) fuel all c,
  Forall packable l -> packed l = Ok bs -> (length l <= fuel)%nat ->
  load_loop fuel (pre ++ bs) (length pre) all c = (loaded l all, forgotten l c, false).
Proof.
  induction l as [|a l IH]; intros bs pre fuel all c Hok Hp Hf.
  - inversion Hp; subst. rewrite app_nil_r. destruct fuel; cbn [load_loop]; rewrite Nat.ltb_irrefl; reflexivity.
  - inversion Hok; subst. apply packed_cons in Hp as (ba & bl & Ea & El & ->).
    destruct (packable_packs a H1) as (ba' & Ea' & Hlen). rewrite Ea in Ea'. inversion Ea'; subst ba'.
    destruct fuel as [|f]; [simpl in Hf; lia|]. cbn [load_loop].
    assert (L : (length pre <? length (pre ++ ba ++ bl))%nat = true).
    { apply Nat.ltb_lt. rewrite !app_length. lia. }
    rewrite L. rewrite (record_roundtrip a ba pre bl H1 Ea).
    replace (pre ++ ba ++ bl) with ((pre ++ ba) ++ bl) by (rewrite app_assoc; reflexivity).
    replace (length pre + length ba)%nat with (length (pre ++ ba)) by (rewrite app_length; reflexivity).
    rewrite (IH bl (pre ++ ba) f _ _ H2 El); [reflexivity|simpl in Hf; lia].
Qed.

Lemma packed_length l bs : Forall packable l -> packed l = Ok bs -> (length l <= length bs)%nat.
Proof.
  revert bs. induction l as [|a l IH]; intros bs Hok Hp; [simpl; lia|].
  inversion Hok; subst. apply packed_cons in Hp as (ba & bl & Ea & El & ->).
  destruct (packable_packs a H1) as (ba' & Ea' & Hlen). rewrite Ea in Ea'. inversion Ea'; subst ba'.
  specialize (IH bl H2 El). rewrite app_length. simpl. lia.
Qed.

Lemma load_snapshot_packed n l bs :
  Forall packable l -> packed l = Ok bs ->
  all_addrs (load_snapshot n bs) = loaded l (all_addrs n) /\
  intro_cache (load_snapshot n bs) = forgotten l (intro_cache n).
Proof.
  intros Hok Hp. unfold load_snapshot.
  pose proof (load_packed l bs [] (length bs) (all_addrs n) (intro_cache n) Hok Hp (packed_length l bs Hok Hp)) as E.
  cbn [app length] in E. rewrite E. split; reflexivity.
Qed.

(* ------------------------------------------------------------------ what is in _all_addresses afterwards *)
Lemma d_mem_keys a (all : list (addr * walk)) : d_mem addr_eqb a all = mem_addr a (map fst all).
Proof.
  destruct (mem_addr a (map fst all)) eqn:M.
  - apply (d_mem_In addr_eqb aeq). apply mem_addr_In. assumption.
  - apply (d_mem_false addr_eqb aeq). apply mem_addr_false. assumption.
Qed.

Lemma keys_d_set_exact a w (all : list (addr * walk)) :
  map fst (d_set addr_eqb a w all) = add_key (map fst all) a.
Proof.
  unfold d_set, add_key. rewrite <- d_mem_keys. destruct (d_mem addr_eqb a all).
  - rewrite map_map. apply map_ext. intros [k v]. cbn [fst]. destruct (addr_eqb k a); reflexivity.
  - rewrite map_app. reflexivity.
Qed.

Lemma keys_loaded_exact l : forall all, map fst (loaded l all) = fold_left add_key l (map fst all).
Proof.
  unfold loaded. induction l as [|a l IH]; intros all; simpl; [reflexivity|].
  rewrite IH, keys_d_set_exact. reflexivity.
Qed.

Lemma loaded_entries l : forall all a w, In (a, w) (loaded l all) -> w = blank \/ In (a, w) all.
Proof.
  unfold loaded. induction l as [|x l IH]; intros all a w H; simpl in H; [auto|].
  apply IH in H as [H|H]; [auto|]. apply (In_d_set addr_eqb aeq) in H as [[_ H]|[_ H]]; auto.
Qed.

Lemma In_fold_add_key l : forall acc x, In x (fold_left add_key l acc) <-> In x acc \/ In x l.
Proof.
  induction l as [|a l IH]; intros acc x; simpl; [tauto|]. rewrite IH. unfold add_key.
  destruct (mem_addr a acc) eqn:M.
  - apply mem_addr_In in M. split; [tauto|]. intros [H|[H|H]]; subst; auto.
  - rewrite in_app_iff. simpl. tauto.
Qed.

(* ------------------------------------------------------------------ truncated snapshots *)
Lemma take_short n off (d : bytes) : (length d < off + n)%nat -> take n off d = Raise StructError.
Proof.
  intros H. unfold take. assert (E : (off + n <=? length d)%nat = false) by (apply Nat.leb_gt; lia).
  rewrite E. reflexivity.
Qed.

Lemma take_cut n (pre bs : bytes) j :
  (n <= j)%nat -> (j <= length bs)%nat -> take n (length pre) (pre ++ firstn j bs) = Ok (firstn n bs).
Proof.
  intros H1 H2. unfold take. rewrite app_length, firstn_length_le by assumption.
  assert (E : (length pre + n <=? length pre + j)%nat = true) by (apply Nat.leb_le; lia). rewrite E.
  rewrite skipn_len_app by reflexivity. rewrite firstn_firstn. rewrite Nat.min_l by assumption. reflexivity.
Qed.

Lemma au_v4_short d off e :
  take 1 off d = Ok [1] -> take 6 (off + 1) d = Raise e -> addr_unpack false d off = Raise e.
Proof.
  intros H1 H2. unfold addr_unpack. rewrite H1. cbn [bind]. change (be_decode [1] =? 1) with true.
  cbn match. rewrite H2. reflexivity.
Qed.

Lemma au_v6_short d off e :
  take 1 off d = Ok [3] -> take 18 (off + 1) d = Raise e -> addr_unpack false d off = Raise e.
Proof.
  intros H1 H2. unfold addr_unpack. rewrite H1. cbn [bind]. change (be_decode [3] =? 1) with false.
  change (be_decode [3] =? 3) with true. cbn match. rewrite H2. reflexivity.
Qed.

Lemma au_dom_short_len d off e :
  take 1 off d = Ok [2] -> take 2 (off + 1) d = Raise e -> addr_unpack false d off = Raise e.
Proof.
  intros H1 H2. unfold addr_unpack. rewrite H1. cbn [bind]. change (be_decode [2] =? 1) with false.
  change (be_decode [2] =? 3) with false. change (negb false && (be_decode [2] =? 2)) with true.
  cbn match. rewrite H2. reflexivity.
Qed.

Lemma au_dom_short_port d off lb e :
  take 1 off d = Ok [2] -> take 2 (off + 1) d = Ok lb ->
  take 2 (off + 3 + Z.to_nat (be_decode lb)) d = Raise e ->
  exists e', addr_unpack false d off = Raise e'.
Proof.
  intros H1 H2 H3. unfold addr_unpack. rewrite H1. cbn [bind]. change (be_decode [2] =? 1) with false.
  change (be_decode [2] =? 3) with false. change (negb false && (be_decode [2] =? 2)) with true.
  cbn match. rewrite H2. cbn [bind].
  destruct (negb (utf8_valid _)); [eexists; reflexivity|]. rewrite H3. eexists. reflexivity.
Qed.

Lemma unpack_address_raise d off e : addr_unpack false d off = Raise e -> unpack_address d off = Raise e.
Proof. intros H. unfold unpack_address. cbn [unpack]. rewrite H. reflexivity. Qed.

(* a record cut anywhere inside it does not unpack: the load stops there *)
Lemma record_cut_raises a ba (pre : bytes) j :
  packable a -> pack_address a = Ok ba -> (0 < j < length ba)%nat ->
  exists e, unpack_address (pre ++ firstn j ba) (length pre) = Raise e.
Proof.
  unfold packable. rewrite pack_address_eq. intros Hok Hp [Hj1 Hj2].
  assert (LD : length (pre ++ firstn j ba) = (length pre + j)%nat).
  { rewrite app_length, firstn_length_le by lia. reflexivity. }
  destruct a as [ip port|ip port|host port]; cbn [addr_ok addr_pack negb andb] in Hok, Hp; rewrite Hok in Hp;
    apply Ok_inj in Hp; subst ba.
  - assert (T1 : take 1 (length pre) (pre ++ firstn j (1 :: ip ++ be_encode 2 port)) = Ok [1])
      by (rewrite take_cut by lia; reflexivity).
    apply andb_true_iff in Hok as [Hok _]. apply andb_true_iff in Hok as [Hok _]. apply Nat.eqb_eq in Hok.
    cbn [length] in Hj2. rewrite app_length, be_encode_length in Hj2.
    eexists. apply unpack_address_raise. apply au_v4_short; [exact T1|]. apply take_short. lia.
  - assert (T1 : take 1 (length pre) (pre ++ firstn j (3 :: ip ++ be_encode 2 port)) = Ok [3])
      by (rewrite take_cut by lia; reflexivity).
    apply andb_true_iff in Hok as [Hok _]. apply andb_true_iff in Hok as [Hok _]. apply Nat.eqb_eq in Hok.
    cbn [length] in Hj2. rewrite app_length, be_encode_length in Hj2.
    eexists. apply unpack_address_raise. apply au_v6_short; [exact T1|]. apply take_short. lia.
  - set (rec := 2 :: be_encode 2 (Z.of_nat (length host)) ++ host ++ be_encode 2 port) in *.
    assert (T1 : take 1 (length pre) (pre ++ firstn j rec) = Ok [2]) by (rewrite take_cut by lia; reflexivity).
    assert (LR : length rec = (5 + length host)%nat).
    { unfold rec. cbn [length]. rewrite !app_length, !be_encode_length. lia. }
    destruct (le_lt_dec 3 j) as [J|J].
    + (* the length prefix is complete: the port field would end past the buffer *)
      assert (T2 : take 2 (length pre + 1) (pre ++ firstn j rec) = Ok (be_encode 2 (Z.of_nat (length host)))).
      { unfold take. rewrite LD.
        assert (E : (length pre + 1 + 2 <=? length pre + j)%nat = true) by (apply Nat.leb_le; lia). rewrite E.
        destruct j as [|j']; [lia|]. unfold rec. rewrite firstn_cons.
        replace (pre ++ 2 :: firstn j' (be_encode 2 (Z.of_nat (length host)) ++ host ++ be_encode 2 port))
          with ((pre ++ [2]) ++ firstn j' (be_encode 2 (Z.of_nat (length host)) ++ host ++ be_encode 2 port))
          by (rewrite <- app_assoc; reflexivity).
        replace (length pre + 1)%nat with (length (pre ++ [2])) by (rewrite app_length; simpl; lia).
        rewrite skipn_len_app by reflexivity. rewrite firstn_firstn, Nat.min_l by lia.
        rewrite firstn_len_app by (rewrite be_encode_length; reflexivity). reflexivity. }
      apply andb_true_iff in Hok as [Hok _]. apply andb_true_iff in Hok as [Hok _]. apply andb_true_iff in Hok as [Hok _].
      apply Z.ltb_lt in Hok.
      destruct (au_dom_short_port (pre ++ firstn j rec) (length pre) _ StructError T1 T2) as (e' & E').
      { rewrite be_decode_encode by (cbn; lia). rewrite Nat2Z.id. apply take_short. lia. }
      exists e'. apply unpack_address_raise. exact E'.
    + eexists. apply unpack_address_raise. apply au_dom_short_len; [exact T1|]. apply take_short. lia.
Qed.

Lemma load_truncated l a bs ba j n :
  Forall packable l -> packed l = Ok bs -> packable a -> pack_address a = Ok ba -> (j < length ba)%nat ->
  all_addrs (load_snapshot n (bs ++ firstn j ba)) = loaded l (all_addrs n) /\
  intro_cache (load_snapshot n (bs ++ firstn j ba)) = forgotten l (intro_cache n).
Proof.
  intros Hok Hp Ha Hpa Hj.
  (* generalise over the position: the complete records are read, then the cut one raises *)
  assert (G : forall l bs (pre : bytes) fuel all c,
            Forall packable l -> packed l = Ok bs -> (length l < fuel)%nat ->
            load_loop fuel (pre ++ bs ++ firstn j ba) (length pre) all c = (loaded l all, forgotten l c, false)).
  { clear l bs Hok Hp. induction l as [|x l IH]; intros bs pre fuel all c Hok Hp Hf.
    - inversion Hp; subst. cbn [app]. destruct fuel as [|f]; [lia|]. cbn [load_loop].
      destruct j as [|j'].
      + cbn [firstn]. rewrite app_nil_r, Nat.ltb_irrefl. reflexivity.
      + assert (L : (length pre <? length (pre ++ firstn (S j') ba))%nat = true).
        { apply Nat.ltb_lt. rewrite app_length, firstn_length_le by lia. lia. }
        rewrite L. destruct (record_cut_raises a ba pre (S j') Ha Hpa ltac:(lia)) as (e & E). rewrite E. reflexivity.
    - inversion Hok; subst. apply packed_cons in Hp as (bx & bl & Ex & El & ->).
      destruct (packable_packs x H1) as (bx' & Ex' & Hlen). rewrite Ex in Ex'. inversion Ex'; subst bx'.
      destruct fuel as [|f]; [simpl in Hf; lia|]. cbn [load_loop].
      assert (L : (length pre <? length (pre ++ (bx ++ bl) ++ firstn j ba))%nat = true).
      { apply Nat.ltb_lt. rewrite !app_length. lia. }
      rewrite L. rewrite <- (app_assoc bx bl). rewrite (record_roundtrip x bx pre (bl ++ firstn j ba) H1 Ex).
      replace (pre ++ bx ++ bl ++ firstn j ba) with ((pre ++ bx) ++ bl ++ firstn j ba) by (rewrite <- app_assoc; reflexivity).
      replace (length pre + length bx)%nat with (length (pre ++ bx)) by (rewrite app_length; reflexivity).
      rewrite (IH bl (pre ++ bx) f _ _ H2 El); [reflexivity|simpl in Hf; lia]. }
  unfold load_snapshot.
  assert (F : (length l < length (bs ++ firstn j ba))%nat \/ j = 0%nat).
  { destruct j; [right; reflexivity|left]. rewrite app_length, firstn_length_le by lia.
    pose proof (packed_length l bs Hok Hp). lia. }
  destruct F as [F|F].
  - pose proof (G l bs [] (length (bs ++ firstn j ba)) (all_addrs n) (intro_cache n) Hok Hp F) as E.
    cbn [app length] in E. rewrite E. split; reflexivity.
  - subst j. cbn [firstn]. rewrite app_nil_r. apply load_snapshot_packed; assumption.
Qed.

(* ------------------------------------------------------------------ the theorems of props/C12x.v *)
Theorem record_boundary_exact_l a bs (pre suf : bytes) :
  packable a -> pack_address a = Ok bs ->
  unpack_address (pre ++ bs ++ suf) (length pre) = Ok (a, (length pre + length bs)%nat).
Proof. exact (record_roundtrip a bs pre suf). Qed.

Theorem snapshot_never_raises_l ipc intc svcc bla blm ops :
  Forall op_ok ops -> exists bs, snapshot (run (init_net ipc intc svcc bla blm) ops) = Ok bs.
Proof. intros Ho. rewrite snapshot_is_packed. apply packed_ok. apply snapshot_addrs_packable. assumption. Qed.

Theorem packed_loads_in_order_l l n0 bs :
  Forall packable l -> packed l = Ok bs ->
  map fst (all_addrs (load_snapshot n0 bs)) = fold_left add_key l (map fst (all_addrs n0)) /\
  forall a w, In (a, w) (all_addrs (load_snapshot n0 bs)) -> w = blank \/ In (a, w) (all_addrs n0).
Proof.
  intros Hok Hp. destruct (load_snapshot_packed n0 l bs Hok Hp) as [E _]. rewrite E. split.
  - apply keys_loaded_exact.
  - apply loaded_entries.
Qed.

Theorem snapshot_roundtrip_l ipc intc svcc bla blm ops ipc' intc' svcc' bla' blm' bs :
  Forall op_ok ops ->
  let n := run (init_net ipc intc svcc bla blm) ops in
  snapshot n = Ok bs ->
  let m := load_snapshot (init_net ipc' intc' svcc' bla' blm') bs in
  map fst (all_addrs m) = uniq (spec_snapshot_addrs (abs n)) /\
  (forall a w, In (a, w) (all_addrs m) -> w = blank) /\
  (forall x, In x (snd (get_walkable_addresses m None false)) <-> In x (spec_snapshot_addrs (abs n))).
Proof.
  intros Ho n Hs m. rewrite <- snapshot_addrs_agree. rewrite snapshot_is_packed in Hs.
  pose proof (snapshot_addrs_packable ipc intc svcc bla blm ops Ho) as Hok. fold n in Hok.
  destruct (packed_loads_in_order_l (snapshot_addrs n) (init_net ipc' intc' svcc' bla' blm') bs Hok Hs) as [K B].
  fold m in K, B. cbn [all_addrs init_net map] in K, B. split; [exact K|]. split.
  - intros a w H. destruct (B a w H) as [E|[]]. exact E.
  - intros x. unfold get_walkable_addresses. cbn [snd].
    assert (V : verified m = []) by (unfold m, load_snapshot; destruct (load_loop _ _ _ _ _) as [[? ?] ?]; reflexivity).
    rewrite V. unfold addrs_of. cbn [flat_map]. rewrite filter_In. cbn [mem_addr existsb negb]. rewrite K.
    unfold uniq. rewrite In_fold_add_key. cbn [In]. split; [intros [[[]|H] _]; exact H|intros H; split; [right; exact H|reflexivity]].
Qed.

Theorem truncated_snapshot_l l a bs ba j n :
  Forall packable l -> packed l = Ok bs -> packable a -> pack_address a = Ok ba -> (j < length ba)%nat ->
  all_addrs (load_snapshot n (bs ++ firstn j ba)) = all_addrs (load_snapshot n bs) /\
  intro_cache (load_snapshot n (bs ++ firstn j ba)) = intro_cache (load_snapshot n bs).
Proof.
  intros Hok Hp Ha Hpa Hj. destruct (load_truncated l a bs ba j n Hok Hp Ha Hpa Hj) as [E1 E2].
  destruct (load_snapshot_packed n l bs Hok Hp) as [F1 F2]. rewrite E1, E2, F1, F2. split; reflexivity.
Qed.
