(* C18 - lemmas about the arithmetic translated from value.py (gen/G18_fp2.v) against the
   intended semantics spec/S18_field.v. *)
From Coq Require Import ZArith List Bool Lia ZifyBool Zdiv Znumtheory Setoid Morphisms.
From IPV8V Require Import lib.PyErr model.M18_base gen.G18_fp2 model.M18_fexpr spec.S18_field.
Import ListNotations.
Open Scope Z_scope.

(* ------------------------------------------------------------------ congruences *)
Lemma cg_iff p a b : cg p a b <-> a mod p = b mod p.
Proof. reflexivity. Qed.
Global Instance cg_equiv p : Equivalence (cg p).
Proof. split; red; unfold cg; intros; congruence. Qed.
Global Instance cg_add p : Proper (cg p ==> cg p ==> cg p) Z.add.
Proof. exact (Zplus_eqm p). Qed.
Global Instance cg_sub p : Proper (cg p ==> cg p ==> cg p) Z.sub.
Proof. exact (Zminus_eqm p). Qed.
Global Instance cg_mul p : Proper (cg p ==> cg p ==> cg p) Z.mul.
Proof. exact (Zmult_eqm p). Qed.
Global Instance cg_opp p : Proper (cg p ==> cg p) Z.opp.
Proof. exact (Zopp_eqm p). Qed.
Lemma cg_mod p a : cg p (a mod p) a.
Proof. exact (Zmod_eqm p a). Qed.
Lemma cg_of_eq p a b : a = b -> cg p a b.
Proof. intros ->; reflexivity. Qed.
Lemma cg_eqb p a b : (a mod p =? b mod p) = true <-> cg p a b.
Proof. unfold cg. apply Z.eqb_eq. Qed.
Global Opaque cg.

(* a goal `cg p L R` where L and R are equal polynomials once every `_ mod p` is dropped *)
Ltac cgring := rewrite ?cg_mod; apply cg_of_eq; ring.

(* ------------------------------------------------------------------ R_p *)
Global Instance req_equiv p : Equivalence (req p).
Proof.
  split; red; unfold req.
  - intros; split; reflexivity.
  - intros x y [H1 H2]; split; symmetry; assumption.
  - intros x y z [H1 H2] [H3 H4]; split; etransitivity; eassumption.
Qed.

Global Instance rmul_proper p : Proper (req p ==> req p ==> req p) rmul.
Proof.
  intros [a b] [a' b'] [H1 H2] [c d] [c' d'] [H3 H4]. unfold req, rmul, red3 in *; cbn [fst snd] in *.
  split; rewrite H1, H2, H3, H4; reflexivity.
Qed.
Global Instance radd_proper p : Proper (req p ==> req p ==> req p) radd.
Proof.
  intros [a b] [a' b'] [H1 H2] [c d] [c' d'] [H3 H4]. unfold req, radd in *; cbn [fst snd] in *.
  split; rewrite ?H1, ?H2, ?H3, ?H4; reflexivity.
Qed.
Global Instance rsub_proper p : Proper (req p ==> req p ==> req p) rsub.
Proof.
  intros [a b] [a' b'] [H1 H2] [c d] [c' d'] [H3 H4]. unfold req, rsub in *; cbn [fst snd] in *.
  split; rewrite ?H1, ?H2, ?H3, ?H4; reflexivity.
Qed.
Global Instance rscale_proper p k : Proper (req p ==> req p) (rscale k).
Proof.
  intros [a b] [a' b'] [H1 H2]. unfold req, rscale in *; cbn [fst snd] in *.
  split; rewrite ?H1, ?H2; reflexivity.
Qed.

Ltac r2ring := unfold rmul, radd, rsub, rscale, red3, rone, rzero; cbn [fst snd]; f_equal; ring.

(* Z[x]/(x^2+x+1) is a commutative ring already over Z: these are equalities, not congruences *)
Lemma rmul_comm s t : rmul s t = rmul t s.
Proof. destruct s, t; r2ring. Qed.
Lemma rmul_assoc s t u : rmul (rmul s t) u = rmul s (rmul t u).
Proof. destruct s, t, u; r2ring. Qed.
Lemma rmul_one_l s : rmul rone s = s.
Proof. destruct s; r2ring. Qed.
Lemma rmul_one_r s : rmul s rone = s.
Proof. destruct s; r2ring. Qed.
Lemma rmul_zero_l s : rmul rzero s = rzero.
Proof. destruct s; r2ring. Qed.
Lemma radd_comm s t : radd s t = radd t s.
Proof. destruct s, t; r2ring. Qed.
Lemma radd_assoc s t u : radd (radd s t) u = radd s (radd t u).
Proof. destruct s, t, u; r2ring. Qed.
Lemma rmul_add_distr_r s t u : rmul (radd s t) u = radd (rmul s u) (rmul t u).
Proof. destruct s, t, u; r2ring. Qed.
Lemma rmul_sub_distr_r s t u : rmul (rsub s t) u = rsub (rmul s u) (rmul t u).
Proof. destruct s, t, u; r2ring. Qed.
Lemma rmul_rscale k s t : rmul (rscale k s) t = rscale k (rmul s t).
Proof. destruct s, t; r2ring. Qed.

Lemma reqb_req p s t : reqb p s t = true <-> req p s t.
Proof.
  unfold reqb, req. rewrite andb_true_iff, !cg_eqb. reflexivity.
Qed.

(* ------------------------------------------------------------------ constructor *)
Lemma fp2_init_ok m a b c aC bC cC : m <> 0 ->
  fp2_init m a b c aC bC cC = Ok (MkFP2 m (a mod m) (b mod m) (c mod m) (aC mod m) (bC mod m) (cC mod m)).
Proof.
  intros Hm. unfold fp2_init. destruct (m =? 0) eqn:E; [lia|]. reflexivity.
Qed.

Lemma fp2_init_zero a b c aC bC cC : fp2_init 0 a b c aC bC cC = Raise ZeroDivisionError.
Proof. reflexivity. Qed.

Lemma represents_init p a b c aC bC cC n d : p <> 0 ->
  req p (red3 a b c) n -> req p (red3 aC bC cC) d ->
  represents p (MkFP2 p (a mod p) (b mod p) (c mod p) (aC mod p) (bC mod p) (cC mod p)) (n, d).
Proof.
  intros Hp [Hn1 Hn2] [Hd1 Hd2]. unfold represents, num, den, req, red3 in *; cbn [fst snd fmod fa fb fc faC fbC fcC] in *.
  split; [reflexivity|]. split; split; rewrite ?cg_mod; assumption.
Qed.

(* ------------------------------------------------------------------ + - * // inverse *)
Ltac op_correct Hp Hx Hy :=
  rewrite Hx, Hy, Z.eqb_refl; cbv zeta; rewrite (fp2_init_ok _ _ _ _ _ _ _ Hp);
  eexists; split; [reflexivity|];
  apply represents_init; [exact Hp| |];
  unfold denote, num, den, fr_add, fr_sub, fr_mul, fr_div, req, rmul, radd, rsub, red3; cbn [fst snd];
  split; apply cg_of_eq; ring.

Lemma fp2_add_correct_l p x y : p <> 0 -> fmod x = p -> fmod y = p ->
  exists r, fp2_add x y = Ok r /\ represents p r (fr_add (denote x) (denote y)).
Proof. intros Hp Hx Hy. unfold fp2_add. op_correct Hp Hx Hy. Qed.

Lemma fp2_sub_correct_l p x y : p <> 0 -> fmod x = p -> fmod y = p ->
  exists r, fp2_sub x y = Ok r /\ represents p r (fr_sub (denote x) (denote y)).
Proof. intros Hp Hx Hy. unfold fp2_sub. op_correct Hp Hx Hy. Qed.

Lemma fp2_mul_correct_l p x y : p <> 0 -> fmod x = p -> fmod y = p ->
  exists r, fp2_mul x y = Ok r /\ represents p r (fr_mul (denote x) (denote y)).
Proof. intros Hp Hx Hy. unfold fp2_mul. op_correct Hp Hx Hy. Qed.

Lemma fp2_div_correct_l p x y : p <> 0 -> fmod x = p -> fmod y = p ->
  exists r, fp2_floordiv x y = Ok r /\ represents p r (fr_div (denote x) (denote y)).
Proof. intros Hp Hx Hy. unfold fp2_floordiv. op_correct Hp Hx Hy. Qed.

Lemma fp2_inverse_correct_l p x : p <> 0 -> fmod x = p ->
  exists r, fp2_inverse x = Ok r /\ represents p r (fr_inv (denote x)).
Proof.
  intros Hp Hx. unfold fp2_inverse. rewrite Hx, (fp2_init_ok _ _ _ _ _ _ _ Hp).
  eexists; split; [reflexivity|]. apply represents_init; [exact Hp| |]; unfold denote, fr_inv, num, den; cbn [fst snd]; reflexivity.
Qed.

(* the binary operators raise exactly when Python does: different moduli, or modulus 0 *)
Lemma fp2_ops_raise x y :
  (fmod x <> fmod y ->
     fp2_add x y = Raise AssertionError /\ fp2_sub x y = Raise AssertionError /\
     fp2_mul x y = Raise AssertionError /\ fp2_floordiv x y = Raise AssertionError) /\
  (fmod x = 0 -> fmod y = 0 ->
     fp2_add x y = Raise ZeroDivisionError /\ fp2_sub x y = Raise ZeroDivisionError /\
     fp2_mul x y = Raise ZeroDivisionError /\ fp2_floordiv x y = Raise ZeroDivisionError).
Proof.
  split.
  - intros H. unfold fp2_add, fp2_sub, fp2_mul, fp2_floordiv.
    destruct (fmod x =? fmod y) eqn:E; [lia|]. auto.
  - intros Hx Hy. unfold fp2_add, fp2_sub, fp2_mul, fp2_floordiv. rewrite Hx, Hy. cbn. auto.
Qed.

(* ------------------------------------------------------------------ _modinv (extended Euclid) *)
Lemma modinv_loop_step f a b x1 x2 : 0 < b ->
  modinv_loop (S f) a b x1 x2 = modinv_loop f b (a mod b) x2 (x1 - a / b * x2).
Proof.
  intros Hb. cbn [modinv_loop]. destruct (b >? 0) eqn:E1; [|lia]. destruct (b =? 0) eqn:E2; [lia|].
  reflexivity.
Qed.

Lemma modinv_loop_done f a b x1 x2 : b <= 0 ->
  modinv_loop (S f) a b x1 x2 = Ok (a, b, x1, x2).
Proof. intros Hb. cbn [modinv_loop]. destruct (b >? 0) eqn:E1; [lia|]. reflexivity. Qed.

Definition euclid_inv (e m a b x1 x2 : Z) : Prop :=
  cg m (x1 * e) a /\ cg m (x2 * e) b /\ Z.gcd a b = Z.gcd e m /\ 0 <= a /\ 0 <= b.

Lemma euclid_inv_step e m a b x1 x2 : 0 < b ->
  euclid_inv e m a b x1 x2 -> euclid_inv e m b (a mod b) x2 (x1 - a / b * x2).
Proof.
  intros Hb (H1 & H2 & H3 & H4 & H5). unfold euclid_inv. split; [exact H2|]. split.
  - rewrite Z.mul_sub_distr_r, <- Z.mul_assoc, H1, H2. apply cg_of_eq. rewrite (Z.mod_eq a b) by lia. ring.
  - split; [|split; [lia|apply Z.mod_pos_bound; lia]].
    rewrite Z.gcd_comm, Z.gcd_mod by lia. rewrite Z.gcd_comm. exact H3.
Qed.

Lemma modinv_loop_spec e m : forall n k a b x1 x2,
  0 <= b < 2 ^ Z.of_nat n -> euclid_inv e m a b x1 x2 ->
  exists a' x1' x2', modinv_loop (S (2 * n) + k) a b x1 x2 = Ok (a', 0, x1', x2') /\ euclid_inv e m a' 0 x1' x2'.
Proof.
  induction n as [|n IH]; intros k a b x1 x2 Hb Hinv.
  - assert (b = 0) by (change (2 ^ Z.of_nat 0) with 1 in Hb; lia). subst b.
    exists a, x1, x2. split; [|exact Hinv]. apply modinv_loop_done. lia.
  - destruct (Z.eq_dec b 0) as [->|Hb0].
    { exists a, x1, x2. split; [|exact Hinv]. apply modinv_loop_done. lia. }
    replace (S (2 * S n) + k)%nat with (S (S (S (2 * n) + k))) by lia.
    rewrite modinv_loop_step by lia.
    assert (Hbpos : 0 < b) by lia.
    pose proof (euclid_inv_step _ _ _ _ _ _ Hbpos Hinv) as Hinv1.
    pose proof (Z.mod_pos_bound a b ltac:(lia)) as Hr.
    destruct (Z.eq_dec (a mod b) 0) as [Hr0|Hr0].
    { rewrite Hr0 in *. eexists _, _, _. split; [apply modinv_loop_done; lia|exact Hinv1]. }
    rewrite modinv_loop_step by lia.
    assert (Hrpos : 0 < a mod b) by lia.
    pose proof (euclid_inv_step _ _ _ _ _ _ Hrpos Hinv1) as Hinv2.
    apply IH; [|exact Hinv2].
    pose proof (Z.mod_pos_bound b (a mod b) ltac:(lia)) as Hr2.
    pose proof (Z.div_mod b (a mod b) ltac:(lia)) as Hdm.
    assert (1 <= b / (a mod b)) by (apply Z.div_le_lower_bound; lia).
    rewrite Nat2Z.inj_succ, Z.pow_succ_r in Hb by lia. nia.
Qed.

Lemma modinv_spec e m : 0 < m -> 0 <= e ->
  exists x, modinv e m = Ok x /\ 0 <= x < m /\ cg m (x * e) (Z.gcd e m).
Proof.
  intros Hm He. unfold modinv. cbv zeta.
  change (let '(x1, x2) := (1, 0) in ?f) with (let x1 := 1 in let x2 := 0 in f).
  cbv zeta. unfold modinv_fuel.
  set (n := Z.to_nat (Z.log2_up m)).
  rewrite modinv_loop_step by lia.
  assert (Hinv0 : euclid_inv e m e m 1 0).
  { unfold euclid_inv. split; [apply cg_of_eq; ring|]. split; [|split; [reflexivity|lia]].
    rewrite Z.mul_0_l. apply cg_iff. rewrite Z.mod_0_l, Z.mod_same by lia. reflexivity. }
  pose proof (euclid_inv_step _ _ _ _ _ _ Hm Hinv0) as Hinv1.
  assert (Hb : 0 <= e mod m < 2 ^ Z.of_nat n).
  { pose proof (Z.mod_pos_bound e m Hm). pose proof (Z.log2_log2_up_spec m Hm).
    unfold n. rewrite Z2Nat.id by apply Z.log2_up_nonneg. lia. }
  destruct (modinv_loop_spec e m n 1%nat _ _ _ _ Hb Hinv1) as (a' & x1' & x2' & Hrun & Hinv).
  replace (S (S (2 * n))) with (S (2 * n) + 1)%nat by lia.
  rewrite Hrun. cbn [bind]. destruct (m =? 0) eqn:E; [lia|].
  exists (x1' mod m). split; [reflexivity|]. split; [apply Z.mod_pos_bound; lia|].
  destruct Hinv as (H1 & _ & H3 & H4 & _).
  rewrite cg_mod, H1. apply cg_of_eq. rewrite <- H3, Z.gcd_0_r. lia.
Qed.

Lemma modinv_zero m : 0 < m -> modinv 0 m = Ok 0.
Proof.
  intros Hm. unfold modinv. cbv zeta.
  change (let '(x1, x2) := (1, 0) in ?f) with (let x1 := 1 in let x2 := 0 in f).
  cbv zeta. unfold modinv_fuel. rewrite modinv_loop_step by lia.
  rewrite Z.mod_0_l by lia. rewrite modinv_loop_done by lia. cbn [bind].
  destruct (m =? 0) eqn:E; [lia|]. rewrite Z.mod_0_l by lia. reflexivity.
Qed.

Lemma modinv_correct_l e m : 1 < m -> 0 <= e -> Z.gcd e m = 1 ->
  exists x, modinv e m = Ok x /\ 0 < x < m /\ (x * e) mod m = 1.
Proof.
  intros Hm He Hg. destruct (modinv_spec e m ltac:(lia) He) as (x & Hx & Hr & Hc).
  rewrite Hg in Hc. apply cg_iff in Hc. rewrite (Z.mod_small 1 m) in Hc by lia.
  exists x. split; [exact Hx|]. split; [|exact Hc].
  assert (x <> 0) by (intros ->; rewrite Z.mul_0_l, Z.mod_0_l in Hc; lia). lia.
Qed.

(* ------------------------------------------------------------------ normalize *)
Definition normalized (p mp : Z) (v : fp2) : fp2 :=
  if mp >? 0 then
    MkFP2 p ((fa v * mp) mod p mod p) ((fb v * mp) mod p mod p) ((fc v * mp) mod p mod p)
          (1 mod p) ((fbC v * mp) mod p mod p) ((fcC v * mp) mod p mod p)
  else MkFP2 p (fa v mod p) (fb v mod p) (fc v mod p) (faC v mod p) (fbC v mod p) (fcC v mod p).

Lemma fp2_normalize_unfold p v mp : p <> 0 -> fmod v = p -> modinv (faC v mod p) p = Ok mp ->
  fp2_normalize v = Ok (normalized p mp v).
Proof.
  intros Hp Hv Hm. unfold fp2_normalize, normalized. rewrite Hv.
  destruct (p =? 0) eqn:E; [lia|]. cbn [bind]. rewrite Hm. cbn [bind].
  destruct (mp >? 0); rewrite fp2_init_ok by exact Hp; reflexivity.
Qed.

Lemma prime_gt1 p : prime p -> 1 < p.
Proof. intros [H _]. exact H. Qed.

Lemma prime_gcd1 p a : prime p -> a mod p <> 0 -> Z.gcd (a mod p) p = 1.
Proof.
  intros Hp Ha. pose proof (prime_gt1 p Hp). pose proof (Z.mod_pos_bound a p ltac:(lia)).
  apply Zgcd_1_rel_prime. apply rel_prime_le_prime; [exact Hp|lia].
Qed.

(* the inverse found by normalize, for a prime modulus *)
Lemma normalize_mp p a : prime p ->
  exists mp, modinv (a mod p) p = Ok mp /\ 0 <= mp < p /\
    ((a mod p = 0 /\ mp = 0) \/ (a mod p <> 0 /\ 0 < mp /\ cg p (mp * a) 1)).
Proof.
  intros Hp. pose proof (prime_gt1 p Hp) as H1.
  destruct (Z.eq_dec (a mod p) 0) as [E|E].
  - rewrite E. exists 0. split; [apply modinv_zero; lia|]. split; [lia|]. left; auto.
  - pose proof (Z.mod_pos_bound a p ltac:(lia)).
    destruct (modinv_correct_l (a mod p) p H1 ltac:(lia) (prime_gcd1 p a Hp E)) as (x & Hx & Hr & Hc).
    exists x. split; [exact Hx|]. split; [lia|]. right. split; [exact E|]. split; [lia|].
    apply cg_iff. rewrite (Z.mod_small 1 p) by lia. rewrite <- Hc.
    rewrite Zmult_mod_idemp_r. reflexivity.
Qed.

(* normalize keeps the value: numerator and denominator are scaled by the same unit *)
Lemma normalize_equiv_l p v : prime p -> fmod v = p ->
  exists r k, fp2_normalize v = Ok r /\ represents p r (rscale k (num v), rscale k (den v)) /\
              fr_eq p (denote r) (denote v) /\ (faC v mod p <> 0 -> faC r = 1).
Proof.
  intros Hp Hv. pose proof (prime_gt1 p Hp) as H1.
  destruct (normalize_mp p (faC v) Hp) as (mp & Hm & Hr & Hcase).
  rewrite (fp2_normalize_unfold p v mp ltac:(lia) Hv Hm).
  assert (Hscale : forall k, fr_eq p (rscale k (num v), rscale k (den v)) (denote v)).
  { intros k. unfold fr_eq, denote; cbn [fst snd]. rewrite rmul_rscale, (rmul_comm (num v) (rscale k (den v))), rmul_rscale, (rmul_comm (den v)). reflexivity. }
  assert (Hfr : forall r k, represents p r (rscale k (num v), rscale k (den v)) -> fr_eq p (denote r) (denote v)).
  { intros r k (_ & Hn & Hd). unfold fr_eq, denote in *; cbn [fst snd] in *. rewrite Hn, Hd. apply Hscale. }
  destruct Hcase as [[E ->]|(E & Hpos & Hinv)].
  - exists (normalized p 0 v), 1. unfold normalized. replace (0 >? 0) with false by reflexivity.
    assert (Hrep : represents p (MkFP2 p (fa v mod p) (fb v mod p) (fc v mod p) (faC v mod p) (fbC v mod p) (fcC v mod p))
                     (rscale 1 (num v), rscale 1 (den v))).
    { apply represents_init; [lia| |]; unfold num, den, rscale, red3, req; cbn [fst snd]; split; apply cg_of_eq; ring. }
    split; [reflexivity|]. split; [exact Hrep|]. split; [exact (Hfr _ _ Hrep)|]. intros; contradiction.
  - exists (normalized p mp v), mp. unfold normalized. destruct (mp >? 0) eqn:E2; [|lia].
    assert (Hrep : represents p (MkFP2 p ((fa v * mp) mod p mod p) ((fb v * mp) mod p mod p) ((fc v * mp) mod p mod p)
                          (1 mod p) ((fbC v * mp) mod p mod p) ((fcC v * mp) mod p mod p))
                     (rscale mp (num v), rscale mp (den v))).
    { apply represents_init; [lia| |]; unfold num, den, rscale, red3, req; cbn [fst snd]; split;
        rewrite ?cg_mod; try (apply cg_of_eq; ring).
      rewrite Z.mul_sub_distr_l, Hinv. apply cg_of_eq; ring. }
    split; [reflexivity|]. split; [exact Hrep|]. split; [exact (Hfr _ _ Hrep)|].
    intros _. cbn [faC]. apply Z.mod_small; lia.
Qed.

(* ------------------------------------------------------------------ == *)
Lemma fp2_floordiv_fields p x y : p <> 0 -> fmod x = p -> fmod y = p ->
  exists q, fp2_floordiv x y = Ok q /\ fmod q = p /\ fc q = 0 /\ fcC q = 0 /\
    cg p (fa q) (fst (rmul (num x) (den y))) /\ cg p (fb q) (snd (rmul (num x) (den y))) /\
    cg p (faC q) (fst (rmul (den x) (num y))) /\ cg p (fbC q) (snd (rmul (den x) (num y))).
Proof.
  intros Hp Hx Hy. unfold fp2_floordiv. rewrite Hx, Hy, Z.eqb_refl. cbv zeta.
  rewrite (fp2_init_ok _ _ _ _ _ _ _ Hp). eexists; split; [reflexivity|].
  cbn [fmod fa fb fc faC fbC fcC]. rewrite Z.mod_0_l by exact Hp.
  split; [reflexivity|]. split; [reflexivity|]. split; [reflexivity|].
  unfold num, den, rmul, red3; cbn [fst snd].
  split; [|split; [|split]]; rewrite cg_mod; apply cg_of_eq; ring.
Qed.

(* The code's equality decides exactly equality of fractions (cross-multiplication in R_p),
   for every prime modulus. *)
Lemma fp2_eq_correct_l p x y : prime p -> fmod x = p -> fmod y = p ->
  fp2_eq x y = Ok (fr_eqb p (denote x) (denote y)).
Proof.
  intros Hp Hx Hy. pose proof (prime_gt1 p Hp) as H1.
  unfold fp2_eq. replace (negb true) with false by reflexivity.
  destruct (fp2_floordiv_fields p x y ltac:(lia) Hx Hy) as (q & Hq & Hqm & Hc & HcC & Ha & Hb & HaC & HbC).
  rewrite Hq. cbn [bind].
  destruct (normalize_mp p (faC q) Hp) as (mp & Hm & Hr & Hcase).
  rewrite (fp2_normalize_unfold p q mp ltac:(lia) Hqm Hm). cbn [bind]. f_equal.
  unfold fr_eqb, reqb, denote; cbn [fst snd].
  rewrite (rmul_comm (num y) (den x)).
  set (N := rmul (num x) (den y)) in *. set (D := rmul (den x) (num y)) in *.
  apply eq_true_iff_eq. rewrite !andb_true_iff, !cg_eqb. rewrite <- Ha, <- Hb, <- HaC, <- HbC.
  unfold normalized.
  destruct Hcase as [[E ->]|(E & Hpos & Hinv)].
  - replace (0 >? 0) with false by reflexivity. cbn [fa fb fc faC fbC fcC].
    rewrite !Z.eqb_eq, Hc, HcC, <- !cg_iff. intuition.
  - destruct (mp >? 0) eqn:E2; [|lia]. cbn [fa fb fc faC fbC fcC].
    rewrite !Z.eqb_eq, Hc, HcC, <- !cg_iff, !cg_mod. split.
    + intros [[H2 H3] _]. split.
      * transitivity (fa q * mp * faC q); [|rewrite H2; apply cg_of_eq; ring].
        transitivity (fa q * (mp * faC q)); [rewrite Hinv; apply cg_of_eq; ring|apply cg_of_eq; ring].
      * transitivity (fb q * (mp * faC q)); [rewrite Hinv; apply cg_of_eq; ring|].
        transitivity (fb q * mp * faC q); [apply cg_of_eq; ring|]. rewrite H3.
        transitivity (fbC q * (mp * faC q)); [apply cg_of_eq; ring|rewrite Hinv; apply cg_of_eq; ring].
    + intros [H2 H3]. split; [split|reflexivity].
      * rewrite H2, <- Hinv. apply cg_of_eq; ring.
      * rewrite H3. reflexivity.
Qed.

(* ------------------------------------------------------------------ expressions *)
Definition freq (p : Z) (f g : frac) : Prop := req p (fst f) (fst g) /\ req p (snd f) (snd g).

Global Instance freq_equiv p : Equivalence (freq p).
Proof.
  split; red; unfold freq.
  - intros; split; reflexivity.
  - intros x y [H1 H2]; split; symmetry; assumption.
  - intros x y z [H1 H2] [H3 H4]; split; etransitivity; eassumption.
Qed.

Lemma represents_freq p v f : represents p v f <-> fmod v = p /\ freq p (denote v) f.
Proof. unfold represents, freq, denote; cbn [fst snd]. tauto. Qed.

Lemma represents_freq_r p v f : represents p v f -> freq p (denote v) f.
Proof. intros H. apply represents_freq in H. exact (proj2 H). Qed.

Lemma represents_trans p v f g : represents p v f -> freq p f g -> represents p v g.
Proof.
  rewrite !represents_freq. intros [H1 H2] H3. split; [exact H1|]. etransitivity; eassumption.
Qed.

Global Instance fr_add_proper p : Proper (freq p ==> freq p ==> freq p) fr_add.
Proof. intros f f' [H1 H2] g g' [H3 H4]. unfold fr_add, freq; cbn [fst snd]. rewrite H1, H2, H3, H4. split; reflexivity. Qed.
Global Instance fr_sub_proper p : Proper (freq p ==> freq p ==> freq p) fr_sub.
Proof. intros f f' [H1 H2] g g' [H3 H4]. unfold fr_sub, freq; cbn [fst snd]. rewrite H1, H2, H3, H4. split; reflexivity. Qed.
Global Instance fr_mul_proper p : Proper (freq p ==> freq p ==> freq p) fr_mul.
Proof. intros f f' [H1 H2] g g' [H3 H4]. unfold fr_mul, freq; cbn [fst snd]. rewrite H1, H2, H3, H4. split; reflexivity. Qed.
Global Instance fr_div_proper p : Proper (freq p ==> freq p ==> freq p) fr_div.
Proof. intros f f' [H1 H2] g g' [H3 H4]. unfold fr_div, freq; cbn [fst snd]. rewrite H1, H2, H3, H4. split; reflexivity. Qed.
Global Instance fr_inv_proper p : Proper (freq p ==> freq p) fr_inv.
Proof. intros f f' [H1 H2]. unfold fr_inv, freq; cbn [fst snd]. split; assumption. Qed.
Global Instance fr_eq_proper p : Proper (freq p ==> freq p ==> iff) (fr_eq p).
Proof. intros f f' [H1 H2] g g' [H3 H4]. unfold fr_eq. rewrite H1, H2, H3, H4. reflexivity. Qed.

Lemma fr_eqb_eq p f g : fr_eqb p f g = true <-> fr_eq p f g.
Proof. unfold fr_eqb, fr_eq. apply reqb_req. Qed.

Lemma fr_eqb_freq p f f' g g' : freq p f f' -> freq p g g' -> fr_eqb p f g = fr_eqb p f' g'.
Proof.
  intros Hf Hg. apply eq_true_iff_eq. rewrite !fr_eqb_eq. rewrite Hf, Hg. reflexivity.
Qed.

Lemma feval_represents_l p env e : p <> 0 -> Forall (fun v => fmod v = p) env ->
  fvars_ok (length env) e = true ->
  exists r, feval p env e = Ok r /\ represents p r (fsem (map denote env) e).
Proof.
  intros Hp Henv. induction e as [i|a|a IHa b IHb|a IHa b IHb|a IHa b IHb|a IHa b IHb|a IHa];
    cbn [fvars_ok feval fsem]; intros Hv.
  - apply Nat.ltb_lt in Hv. destruct (nth_error env i) as [v|] eqn:E.
    + exists v. split; [reflexivity|]. rewrite Forall_forall in Henv.
      pose proof (Henv v (nth_error_In _ _ E)) as Hm.
      apply represents_freq. split; [exact Hm|].
      erewrite nth_indep by (rewrite map_length; exact Hv).
      rewrite (map_nth denote env v i). rewrite (nth_error_nth env i v E). reflexivity.
    + apply nth_error_None in E. lia.
  - rewrite fp2_init_ok by exact Hp. eexists; split; [reflexivity|].
    apply represents_init; [exact Hp| |]; unfold red3, rone, req; cbn [fst snd]; split; apply cg_of_eq; ring.
  - apply andb_true_iff in Hv as [Hva Hvb].
    destruct (IHa Hva) as (x & Hx & Rx). destruct (IHb Hvb) as (y & Hy & Ry). rewrite Hx, Hy. cbn [bind].
    destruct (fp2_add_correct_l p x y Hp (proj1 Rx) (proj1 Ry)) as (r & Hr & Rr).
    exists r. split; [exact Hr|]. eapply represents_trans; [exact Rr|].
    rewrite (represents_freq_r _ _ _ Rx), (represents_freq_r _ _ _ Ry). reflexivity.
  - apply andb_true_iff in Hv as [Hva Hvb].
    destruct (IHa Hva) as (x & Hx & Rx). destruct (IHb Hvb) as (y & Hy & Ry). rewrite Hx, Hy. cbn [bind].
    destruct (fp2_sub_correct_l p x y Hp (proj1 Rx) (proj1 Ry)) as (r & Hr & Rr).
    exists r. split; [exact Hr|]. eapply represents_trans; [exact Rr|].
    rewrite (represents_freq_r _ _ _ Rx), (represents_freq_r _ _ _ Ry). reflexivity.
  - apply andb_true_iff in Hv as [Hva Hvb].
    destruct (IHa Hva) as (x & Hx & Rx). destruct (IHb Hvb) as (y & Hy & Ry). rewrite Hx, Hy. cbn [bind].
    destruct (fp2_mul_correct_l p x y Hp (proj1 Rx) (proj1 Ry)) as (r & Hr & Rr).
    exists r. split; [exact Hr|]. eapply represents_trans; [exact Rr|].
    rewrite (represents_freq_r _ _ _ Rx), (represents_freq_r _ _ _ Ry). reflexivity.
  - apply andb_true_iff in Hv as [Hva Hvb].
    destruct (IHa Hva) as (x & Hx & Rx). destruct (IHb Hvb) as (y & Hy & Ry). rewrite Hx, Hy. cbn [bind].
    destruct (fp2_div_correct_l p x y Hp (proj1 Rx) (proj1 Ry)) as (r & Hr & Rr).
    exists r. split; [exact Hr|]. eapply represents_trans; [exact Rr|].
    rewrite (represents_freq_r _ _ _ Rx), (represents_freq_r _ _ _ Ry). reflexivity.
  - destruct (IHa Hv) as (x & Hx & Rx). rewrite Hx. cbn [bind].
    destruct (fp2_inverse_correct_l p x Hp (proj1 Rx)) as (r & Hr & Rr).
    exists r. split; [exact Hr|]. eapply represents_trans; [exact Rr|].
    rewrite (represents_freq_r _ _ _ Rx). reflexivity.
Qed.

(* Every comparison of two arithmetic expressions is decided by the code exactly as by the
   textbook fraction semantics. *)
Lemma feq_sound_l p env e1 e2 : prime p -> Forall (fun v => fmod v = p) env ->
  fvars_ok (length env) e1 = true -> fvars_ok (length env) e2 = true ->
  feq p env e1 e2 = Ok (fr_eqb p (fsem (map denote env) e1) (fsem (map denote env) e2)).
Proof.
  intros Hp Henv H1 H2. pose proof (prime_gt1 p Hp) as Hgt.
  destruct (feval_represents_l p env e1 ltac:(lia) Henv H1) as (x & Hx & Rx).
  destruct (feval_represents_l p env e2 ltac:(lia) Henv H2) as (y & Hy & Ry).
  unfold feq. rewrite Hx, Hy. cbn [bind].
  rewrite (fp2_eq_correct_l p x y Hp (proj1 Rx) (proj1 Ry)). f_equal.
  apply fr_eqb_freq; apply represents_freq_r; assumption.
Qed.

(* ------------------------------------------------------------------ the field laws *)
Definition V0 := FVar 0. Definition V1 := FVar 1. Definition V2 := FVar 2.

Definition law_list : list (fexpr * fexpr) :=
  [ (FAdd V0 V1, FAdd V1 V0);                                   (* + commutative *)
    (FAdd (FAdd V0 V1) V2, FAdd V0 (FAdd V1 V2));               (* + associative *)
    (FMul V0 V1, FMul V1 V0);                                   (* * commutative *)
    (FMul (FMul V0 V1) V2, FMul V0 (FMul V1 V2));               (* * associative *)
    (FMul V0 (FAdd V1 V2), FAdd (FMul V0 V1) (FMul V0 V2));     (* distributive *)
    (FAdd V0 (FInt 0), V0);                                     (* 0 neutral *)
    (FMul V0 (FInt 1), V0);                                     (* 1 neutral *)
    (FAdd V0 (FSub (FInt 0) V0), FInt 0);                       (* additive inverse *)
    (FSub V0 V1, FAdd V0 (FMul (FInt (-1)) V1));                (* - is + of the negation *)
    (FMul V0 (FInv V0), FInt 1);                                (* multiplicative inverse *)
    (FDiv V0 V1, FMul V0 (FInv V1));                            (* // is * by the inverse *)
    (FMul (FDiv V0 V1) V1, V0) ].                               (* (x // y) * y == x *)

Ltac fr_law :=
  unfold fr_eq, fr_add, fr_sub, fr_mul, fr_div, fr_inv, fr_one, fr_zero, req, rmul, radd, rsub, red3, rone, rzero;
  cbn [fst snd]; split; apply cg_of_eq; ring.

Lemma law_list_sem p (f0 f1 f2 : frac) :
  Forall (fun l => fr_eq p (fsem [f0; f1; f2] (fst l)) (fsem [f0; f1; f2] (snd l))) law_list.
Proof.
  destruct f0 as [[a0 b0] [c0 d0]], f1 as [[a1 b1] [c1 d1]], f2 as [[a2 b2] [c2 d2]].
  unfold law_list, V0, V1, V2.
  repeat (apply Forall_cons; [cbn [fst snd fsem nth]; fr_law|]). apply Forall_nil.
Qed.

Lemma fp2_laws_l p x y z : prime p -> fmod x = p -> fmod y = p -> fmod z = p ->
  Forall (fun l => feq p [x; y; z] (fst l) (snd l) = Ok true) law_list.
Proof.
  intros Hp Hx Hy Hz.
  assert (Henv : Forall (fun v => fmod v = p) [x; y; z]) by (repeat constructor; assumption).
  pose proof (law_list_sem p (denote x) (denote y) (denote z)) as Hsem.
  rewrite Forall_forall in Hsem. apply Forall_forall. intros l Hl.
  assert (Hvars : fvars_ok 3 (fst l) = true /\ fvars_ok 3 (snd l) = true).
  { revert l Hl. apply Forall_forall. unfold law_list. repeat constructor. }
  rewrite (feq_sound_l p [x; y; z] (fst l) (snd l) Hp Henv (proj1 Hvars) (proj2 Hvars)).
  f_equal. apply fr_eqb_eq. exact (Hsem l Hl).
Qed.

(* ------------------------------------------------------------------ intpow (square and multiply) *)
Lemma rpow_nat_double s k : rpow_nat s (2 * k) = rpow_nat (rmul s s) k.
Proof.
  induction k as [|k IH]; [reflexivity|].
  replace (2 * S k)%nat with (S (S (2 * k))) by lia. cbn [rpow_nat]. rewrite IH, rmul_assoc. reflexivity.
Qed.

Lemma rpow_even s q : 0 <= q -> rpow_nat s (Z.to_nat (2 * q)) = rpow_nat (rmul s s) (Z.to_nat q).
Proof. intros Hq. replace (Z.to_nat (2 * q)) with (2 * Z.to_nat q)%nat by lia. apply rpow_nat_double. Qed.

Lemma rpow_odd s q : 0 <= q -> rpow_nat s (Z.to_nat (2 * q + 1)) = rmul s (rpow_nat (rmul s s) (Z.to_nat q)).
Proof.
  intros Hq. replace (Z.to_nat (2 * q + 1)) with (S (2 * Z.to_nat q)) by lia.
  cbn [rpow_nat]. rewrite rpow_nat_double. reflexivity.
Qed.

Lemma fp2_intpow_loop_done f R U n : n <= 0 -> fp2_intpow_loop (S f) R U n = Ok (R, U, n).
Proof. intros H. cbn [fp2_intpow_loop]. destruct (n >? 0) eqn:E; [lia|reflexivity]. Qed.

Lemma fp2_intpow_loop_spec p : p <> 0 -> forall f n R U fR fU,
  0 <= n < 2 ^ Z.of_nat f -> represents p R fR -> represents p U fU ->
  exists R' U', fp2_intpow_loop (S f) R U n = Ok (R', U', 0) /\
                represents p R' (fr_mul fR (fr_pow_nat fU (Z.to_nat n))).
Proof.
  intros Hp. induction f as [|f IH]; intros n R U fR fU Hn HR HU.
  - assert (n = 0) by (change (2 ^ Z.of_nat 0) with 1 in Hn; lia). subst n.
    exists R, U. split; [apply fp2_intpow_loop_done; lia|].
    destruct fR as [a b]. unfold fr_mul, fr_pow_nat; cbn [fst snd Z.to_nat rpow_nat]. rewrite !rmul_one_r. exact HR.
  - destruct (Z.eq_dec n 0) as [->|Hn0].
    { exists R, U. split; [apply fp2_intpow_loop_done; lia|].
      destruct fR as [a b]. unfold fr_mul, fr_pow_nat; cbn [fst snd Z.to_nat rpow_nat]. rewrite !rmul_one_r. exact HR. }
    assert (Hh : 0 <= n / 2 < 2 ^ Z.of_nat f).
    { rewrite Nat2Z.inj_succ, Z.pow_succ_r in Hn by lia. split; [apply Z.div_pos; lia|].
      apply Z.div_lt_upper_bound; lia. }
    destruct (fp2_mul_correct_l p U U Hp (proj1 HU) (proj1 HU)) as (U2 & HU2 & RU2).
    assert (RU2' : represents p U2 (fr_mul fU fU)).
    { eapply represents_trans; [exact RU2|]. rewrite (represents_freq_r _ _ _ HU). reflexivity. }
    pose proof (Z.div_mod n 2 ltac:(lia)) as Hdm. pose proof (Z.mod_pos_bound n 2 ltac:(lia)) as Hmb.
    remember (S f) as f1. cbn [fp2_intpow_loop]. subst f1.
    destruct (n >? 0) eqn:E1; [|lia].
    destruct (n mod 2 =? 1) eqn:E2.
    + destruct (fp2_mul_correct_l p R U Hp (proj1 HR) (proj1 HU)) as (R2 & HR2 & RR2).
      assert (RR2' : represents p R2 (fr_mul fR fU)).
      { eapply represents_trans; [exact RR2|]. rewrite (represents_freq_r _ _ _ HR), (represents_freq_r _ _ _ HU). reflexivity. }
      rewrite HR2. cbn [bind]. rewrite HU2. cbn [bind]. cbv zeta.
      destruct (IH (n / 2) R2 U2 _ _ Hh RR2' RU2') as (R' & U' & Hrun & Hrep).
      exists R', U'. split; [exact Hrun|].
      replace n with (2 * (n / 2) + 1) at 1 by lia.
      destruct fR as [a b], fU as [c d]. unfold fr_mul, fr_pow_nat in *; cbn [fst snd] in *.
      rewrite !rpow_odd by lia. rewrite <- !rmul_assoc. exact Hrep.
    + rewrite HU2. cbn [bind]. cbv zeta.
      destruct (IH (n / 2) R U2 _ _ Hh HR RU2') as (R' & U' & Hrun & Hrep).
      exists R', U'. split; [exact Hrun|].
      replace n with (2 * (n / 2)) at 1 by lia.
      destruct fR as [a b], fU as [c d]. unfold fr_mul, fr_pow_nat in *; cbn [fst snd] in *.
      rewrite !rpow_even by lia. exact Hrep.
Qed.

Lemma pow_fuel_enough n : 0 <= n -> exists f, pow_fuel n = S f /\ n < 2 ^ Z.of_nat f.
Proof.
  intros Hn. unfold pow_fuel. eexists; split; [reflexivity|].
  rewrite Nat2Z.inj_succ, Z2Nat.id by apply Z.log2_nonneg.
  destruct (Z.eq_dec n 0) as [->|H0]; [reflexivity|]. apply Z.log2_spec. lia.
Qed.

(* non-negative powers: numerator and denominator are exactly the k-th powers in R_p *)
Lemma fp2_intpow_nonneg_l p x k : p <> 0 -> fmod x = p -> 0 <= k ->
  exists r, fp2_intpow x k = Ok r /\ represents p r (fr_pow_nat (denote x) (Z.to_nat k)).
Proof.
  intros Hp Hx Hk. unfold fp2_intpow. destruct (k <? 0) eqn:E; [lia|]. cbv zeta.
  rewrite Hx, fp2_init_ok by exact Hp. cbn [bind].
  destruct (pow_fuel_enough k Hk) as (f & Hf & Hlt). rewrite Hf.
  assert (R1 : represents p (MkFP2 p (1 mod p) (0 mod p) (0 mod p) (1 mod p) (0 mod p) (0 mod p)) fr_one).
  { apply represents_init; [exact Hp| |]; unfold red3, rone, req; cbn [fst snd]; split; apply cg_of_eq; ring. }
  assert (Rx : represents p x (denote x)) by (apply represents_freq; split; [exact Hx|reflexivity]).
  destruct (fp2_intpow_loop_spec p Hp f k _ x _ _ ltac:(lia) R1 Rx) as (R' & U' & Hrun & Hrep).
  rewrite Hrun. cbn [bind]. exists R'. split; [reflexivity|].
  unfold fr_mul, fr_one, fr_pow_nat in *; cbn [fst snd] in *. rewrite !rmul_one_l in Hrep. exact Hrep.
Qed.

(* all integer powers, prime modulus: the result is the power as a fraction *)
Lemma fp2_intpow_is_power_l p x k : prime p -> fmod x = p ->
  exists r, fp2_intpow x k = Ok r /\ fmod r = p /\ fr_eq p (denote r) (fr_pow (denote x) k).
Proof.
  intros Hp Hx. pose proof (prime_gt1 p Hp) as Hgt. unfold fr_pow.
  destruct (k <? 0) eqn:E.
  - assert (Hk : 0 <= - k) by lia.
    destruct (pow_fuel_enough (- k) Hk) as (f & Hf & Hlt).
    unfold fp2_intpow. rewrite E. cbv zeta. rewrite Hx, fp2_init_ok by lia. cbn [bind]. rewrite Hf.
    assert (R1 : represents p (MkFP2 p (1 mod p) (0 mod p) (0 mod p) (1 mod p) (0 mod p) (0 mod p)) fr_one).
    { apply represents_init; [lia| |]; unfold red3, rone, req; cbn [fst snd]; split; apply cg_of_eq; ring. }
    assert (Rx : represents p x (denote x)) by (apply represents_freq; split; [exact Hx|reflexivity]).
    destruct (fp2_intpow_loop_spec p ltac:(lia) f (- k) _ x _ _ ltac:(lia) R1 Rx) as (R' & U' & Hrun & Hrep).
    rewrite Hrun. cbn [bind].
    assert (Hrep' : represents p R' (fr_pow_nat (denote x) (Z.to_nat (- k)))).
    { unfold fr_mul, fr_one, fr_pow_nat in *; cbn [fst snd] in *. rewrite !rmul_one_l in Hrep. exact Hrep. }
    destruct (fp2_inverse_correct_l p R' ltac:(lia) (proj1 Hrep')) as (I & HI & RI). rewrite HI. cbn [bind].
    destruct (normalize_equiv_l p I Hp (proj1 RI)) as (r & c & Hr & Rr & Heq & _).
    exists r. split; [exact Hr|]. split; [exact (proj1 Rr)|].
    assert (HfI : freq p (denote I) (fr_inv (fr_pow_nat (denote x) (Z.to_nat (- k))))).
    { rewrite (represents_freq_r _ _ _ RI). rewrite (represents_freq_r _ _ _ Hrep'). reflexivity. }
    rewrite <- HfI. exact Heq.
  - destruct (fp2_intpow_nonneg_l p x k ltac:(lia) Hx ltac:(lia)) as (r & Hr & Rr).
    exists r. split; [exact Hr|]. split; [exact (proj1 Rr)|].
    rewrite (represents_freq_r _ _ _ Rr). unfold fr_eq. rewrite rmul_comm. reflexivity.
Qed.
