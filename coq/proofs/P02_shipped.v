From Coq Require Import ZArith List Bool.
From IPV8V Require Import lib.PyErr lib.Bytes lib.BE model.M02_wire gen.G02_registry spec.S02_documented
  proofs.P02_prims proofs.P02_roundtrip.
Import ListNotations.

Definition rfmt_wf (r : rfmt) : bool :=
  match r with RF f => wf_fmt f | RPayload => true | RPayloadList lw => lw_ok lw end.

Lemma registry_documented_l : registry_default = documented /\ registry_overlay = documented_overlay.
Proof. split; reflexivity. Qed.

Lemma registry_wf_l : forallb (fun e => rfmt_wf (snd e)) (registry_default ++ registry_overlay) = true.
Proof. vm_compute. reflexivity. Qed.

Lemma shipped_wf_b : forallb (fun d => wf_msg (msg_of_list (snd d))) msgdefs = true.
Proof. vm_compute. reflexivity. Qed.

Lemma shipped_wf_l : forall name fs, In (name, fs) msgdefs -> wf_msg (msg_of_list fs) = true.
Proof.
  intros name fs H. pose proof shipped_wf_b as B. rewrite forallb_forall in B. apply (B (name, fs) H).
Qed.

Lemma shipped_roundtrip_l : forall key_ok name fs vs bs (pre suf : bytes),
  In (name, fs) msgdefs ->
  msg_ok key_ok (msg_of_list fs) vs = true -> pack_msg key_ok (msg_of_list fs) vs = Ok bs ->
  (msg_greedy (msg_of_list fs) = false \/ suf = []) ->
  unpack_msg key_ok (msg_of_list fs) (pre ++ bs ++ suf) (length pre) = Ok (vs, (length pre + length bs)%nat).
Proof.
  intros key_ok name fs vs bs pre suf Hin. apply msg_roundtrip_l. eapply shipped_wf_l. exact Hin.
Qed.

Lemma reencode_identical_l : forall key_ok m vs bs (pre suf : bytes) vs' o,
  wf_msg m = true -> msg_ok key_ok m vs = true -> pack_msg key_ok m vs = Ok bs ->
  (msg_greedy m = false \/ suf = []) ->
  unpack_msg key_ok m (pre ++ bs ++ suf) (length pre) = Ok (vs', o) ->
  pack_msg key_ok m vs' = Ok bs /\ o = (length pre + length bs)%nat.
Proof.
  intros key_ok m vs bs pre suf vs' o Hwf Hok Hp Hg Hu.
  rewrite (msg_roundtrip_l key_ok m vs bs pre suf Hwf Hok Hp Hg) in Hu. inversion Hu; subst. split; [exact Hp|reflexivity].
Qed.
