(* C04: a cell travelling through a list of relays, in both directions; what is on every link. *)
From Coq Require Import ZArith List Bool Lia ZifyBool Arith.
From IPV8V Require Import lib.PyErr lib.Bytes lib.BE model.M02_wire model.M03_recv model.M04_onion
  spec.S04_onion_spec proofs.P02_prims proofs.P04_base proofs.P04_node.
Import ListNotations.
Open Scope Z_scope.

Lemma cell_body_to_bin pfx c : length pfx = 22%nat -> cell_body (cell_to_bin pfx c) = cl_msg c.
Proof.
  intros Hp. unfold cell_body, cell_to_bin. rewrite to_bin_shape.
  replace ((pfx ++ [0]) ++ be_encode 4 (cl_cid c) ++ [b2z (cl_plain c)] ++ [b2z (cl_early c)] ++ cl_msg c)
    with (((pfx ++ [0]) ++ be_encode 4 (cl_cid c) ++ [b2z (cl_plain c)] ++ [b2z (cl_early c)]) ++ cl_msg c)
    by (rewrite <- !app_assoc; reflexivity).
  apply skipn_len_app. rewrite !app_length, be_encode_length, Hp. reflexivity.
Qed.

Section Chain.
Variables key nonce : Type.
Variable enc : key -> dir -> nonce -> bytes -> bytes.
Variable dec : key -> dir -> bytes -> option bytes.
Notation relay_spec := (relay_spec key).
Notation through := (through enc dec).
Notation enc_layers := (enc_layers enc).

Lemma last_sender_cons (r : relay_spec) tl src : last_sender (r :: tl) src = last_sender tl (rs_addr r).
Proof.
  unfold last_sender. cbn [rev]. destruct (rev tl) as [|x l] eqn:E; reflexivity.
Qed.

(* ---- towards the exit ---- *)
(* datagrams on the links: into the first relay, then out of each relay *)
Fixpoint fwd_pkts (pfx : bytes) (early : bool) (rs : list relay_spec) (cid : Z) (nl : list nonce) (bx : bytes)
  : list bytes :=
  cell_to_bin pfx (mkCell cid (enc_layers FORWARD (map rs_key rs) nl bx) false early) ::
  match rs, nl with
  | r :: tl, _ :: nl' => fwd_pkts pfx early tl (rs_out r) nl' bx
  | _, _ => []
  end.

Lemma fwd_pkts_hd pfx early bx (rs : list relay_spec) cid nl :
  hd [] (fwd_pkts pfx early rs cid nl bx)
  = cell_to_bin pfx (mkCell cid (enc_layers FORWARD (map rs_key rs) nl bx) false early).
Proof. destruct rs; reflexivity. Qed.

Lemma fwd_pkts_split pfx early bx (rs : list relay_spec) cid nl :
  fwd_pkts pfx early rs cid nl bx = hd [] (fwd_pkts pfx early rs cid nl bx) :: List.tl (fwd_pkts pfx early rs cid nl bx).
Proof. destruct rs; reflexivity. Qed.

Lemma fwd_through pfx early last_addr last_cid bx rnd : forall (rs : list relay_spec) cid src nl nss,
  aead_correct enc dec -> length pfx = 22%nat -> cid_ok cid ->
  fwd_chain pfx early rs cid last_addr last_cid -> length nl = length rs ->
  through rs src (first_addr rs last_addr) (hd [] (fwd_pkts pfx early rs cid nl bx)) rnd nss
  = Some (last_sender rs src, last_addr, cell_to_bin pfx (mkCell last_cid bx false early),
          List.tl (fwd_pkts pfx early rs cid nl bx)).
Proof.
  induction rs as [|r rtl IH]; intros cid src nl nss C Hp Hc Hch Hl.
  - destruct nl; [|discriminate]. cbn in Hch. subst. reflexivity.
  - destruct nl as [|n nl]; [discriminate|]. cbn [fwd_chain] in Hch. destruct Hch as (Hin & Hr & Hch).
    destruct Hr as (Hpf & Hci & Hco & pk & cnt & Ha & He). subst cid.
    cbn [S04_onion_spec.through first_addr fwd_pkts hd List.tl map enc_layers]. rewrite addr_eqb_refl.
    rewrite <- Hpf.
    rewrite (relay_forward_step key nonce enc dec (rs_node r) src (rs_in r) (rs_out r) pk
               (first_addr rtl last_addr) (rs_key r) cnt _ early n rnd (nss O) C)
      by (try rewrite Hpf; assumption).
    rewrite Hpf. rewrite <- (fwd_pkts_hd pfx early bx rtl (rs_out r) nl).
    rewrite (IH (rs_out r) (rs_addr r) nl (fun i => nss (S i)) C Hp Hco Hch ltac:(simpl in Hl; lia)).
    rewrite last_sender_cons, <- fwd_pkts_split. reflexivity.
Qed.

Lemma fwd_pkts_nth pfx early bx : forall (rs : list relay_spec) cid nl i,
  length pfx = 22%nat -> length nl = length rs -> (i <= length rs)%nat ->
  cell_body (nth i (fwd_pkts pfx early rs cid nl bx) []) =
  enc_layers FORWARD (skipn i (map rs_key rs)) (skipn i nl) bx.
Proof.
  induction rs as [|r rtl IH]; intros cid nl i Hp Hl Hi.
  - destruct i; [|simpl in Hi; lia]. destruct nl; [|discriminate]. cbn. apply cell_body_to_bin. exact Hp.
  - destruct nl as [|n nl]; [discriminate|]. destruct i as [|i].
    + cbn [fwd_pkts nth skipn]. rewrite cell_body_to_bin by exact Hp. reflexivity.
    + cbn [fwd_pkts nth skipn map]. apply IH; [exact Hp | simpl in Hl; lia | simpl in Hi; lia].
Qed.

Lemma fwd_pkts_length pfx early bx : forall (rs : list relay_spec) cid nl,
  length nl = length rs -> length (fwd_pkts pfx early rs cid nl bx) = S (length rs).
Proof.
  induction rs as [|r rtl IH]; intros cid nl Hl.
  - destruct nl; [reflexivity|discriminate].
  - destruct nl as [|n nl]; [discriminate|]. cbn [fwd_pkts length]. rewrite IH by (simpl in Hl; lia). reflexivity.
Qed.

(* ---- back to the originator; relays in travel order ---- *)
Fixpoint wrap_bwd (rs : list relay_spec) (nss : nat -> nat -> nonce) (b : bytes) : bytes :=
  match rs with
  | [] => b
  | r :: tl => wrap_bwd tl (fun i => nss (S i)) (enc (rs_key r) BACKWARD (nss O O) b)
  end.

Fixpoint bwd_nonces (rs : list relay_spec) (nss : nat -> nat -> nonce) : list nonce :=
  match rs with
  | [] => []
  | _ :: tl => nss O O :: bwd_nonces tl (fun i => nss (S i))
  end.

Fixpoint bwd_pkts (pfx : bytes) (early : bool) (rs : list relay_spec) (cid : Z) (nss : nat -> nat -> nonce) (b : bytes)
  : list bytes :=
  cell_to_bin pfx (mkCell cid b false early) ::
  match rs with
  | r :: tl => bwd_pkts pfx early tl (rs_in r) (fun i => nss (S i)) (enc (rs_key r) BACKWARD (nss O O) b)
  | [] => []
  end.

Lemma bwd_pkts_hd pfx early (rs : list relay_spec) cid nss b :
  hd [] (bwd_pkts pfx early rs cid nss b) = cell_to_bin pfx (mkCell cid b false early).
Proof. destruct rs; reflexivity. Qed.

Lemma bwd_pkts_split pfx early (rs : list relay_spec) cid nss b :
  bwd_pkts pfx early rs cid nss b = hd [] (bwd_pkts pfx early rs cid nss b) :: List.tl (bwd_pkts pfx early rs cid nss b).
Proof. destruct rs; reflexivity. Qed.

Lemma bwd_through pfx early last_addr last_cid rnd : forall (rs : list relay_spec) cid src nss b,
  length pfx = 22%nat -> cid_ok cid ->
  bwd_chain pfx early rs cid last_addr last_cid ->
  through rs src (first_addr rs last_addr) (hd [] (bwd_pkts pfx early rs cid nss b)) rnd nss
  = Some (last_sender rs src, last_addr, cell_to_bin pfx (mkCell last_cid (wrap_bwd rs nss b) false early),
          List.tl (bwd_pkts pfx early rs cid nss b)).
Proof.
  induction rs as [|r rtl IH]; intros cid src nss b Hp Hc Hch.
  - cbn in Hch. subst. reflexivity.
  - cbn [bwd_chain] in Hch. destruct Hch as (Hin & Hr & Hch).
    destruct Hr as (Hpf & Hci & Hco & pk & cnt & Ha & He). subst cid.
    cbn [S04_onion_spec.through first_addr bwd_pkts hd List.tl wrap_bwd]. rewrite addr_eqb_refl.
    rewrite <- Hpf.
    rewrite (relay_backward_step key nonce enc dec (rs_node r) src (rs_out r) (rs_in r) pk
               (first_addr rtl last_addr) (rs_key r) cnt b early rnd (nss O))
      by (try rewrite Hpf; assumption).
    rewrite Hpf.
    rewrite <- (bwd_pkts_hd pfx early rtl (rs_in r) (fun i => nss (S i)) (enc (rs_key r) BACKWARD (nss O O) b)).
    rewrite (IH (rs_in r) (rs_addr r) (fun i => nss (S i)) _ Hp Hci Hch).
    rewrite last_sender_cons, <- bwd_pkts_split. reflexivity.
Qed.

Lemma bwd_nonces_length : forall (rs : list relay_spec) nss, length (bwd_nonces rs nss) = length rs.
Proof. induction rs; intros; simpl; auto. Qed.

Lemma wrap_bwd_layers : forall (rs : list relay_spec) nss b,
  wrap_bwd rs nss b = enc_layers BACKWARD (rev (map rs_key rs)) (rev (bwd_nonces rs nss)) b.
Proof.
  induction rs as [|r rtl IH]; intros nss b; [reflexivity|].
  cbn [wrap_bwd map rev bwd_nonces]. rewrite IH.
  rewrite (enc_layers_app key nonce enc) by (rewrite !rev_length, map_length, bwd_nonces_length; reflexivity).
  reflexivity.
Qed.

Lemma bwd_nonces_firstn : forall (rs : list relay_spec) nss j,
  bwd_nonces (firstn j rs) nss = firstn j (bwd_nonces rs nss).
Proof.
  induction rs as [|r rtl IH]; intros nss j; destruct j; try reflexivity.
  cbn [firstn bwd_nonces]. rewrite IH. reflexivity.
Qed.

Lemma bwd_pkts_nth pfx early : forall (rs : list relay_spec) cid nss b j,
  length pfx = 22%nat -> (j <= length rs)%nat ->
  cell_body (nth j (bwd_pkts pfx early rs cid nss b) []) = wrap_bwd (firstn j rs) nss b.
Proof.
  induction rs as [|r rtl IH]; intros cid nss b j Hp Hj.
  - destruct j; [|simpl in Hj; lia]. cbn. apply cell_body_to_bin. exact Hp.
  - destruct j as [|j].
    + cbn [bwd_pkts nth firstn wrap_bwd]. apply cell_body_to_bin. exact Hp.
    + cbn [bwd_pkts nth firstn wrap_bwd]. apply IH; [exact Hp | simpl in Hj; lia].
Qed.

Lemma bwd_pkts_length pfx early : forall (rs : list relay_spec) cid nss b,
  length (bwd_pkts pfx early rs cid nss b) = S (length rs).
Proof. induction rs as [|r rtl IH]; intros; cbn [bwd_pkts length]; [reflexivity | rewrite IH; reflexivity]. Qed.

End Chain.
