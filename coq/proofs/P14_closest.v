(* C14 - closest_nodes returns exactly the k live nodes nearest to the target, nearest first. *)
From Coq Require Import ZArith List Bool Arith Lia Permutation Sorted.
From IPV8V Require Import lib.PyErr model.M14_routing proofs.P14_bits proofs.P14_trie proofs.P14_bucket
  proofs.P14_table.
Import ListNotations.
Open Scope Z_scope.

(* ------------------------------------------------------------------ generic list facts *)
Lemma NoDup_map_inj_on {B C} (f : B -> C) l :
  (forall a b, In a l -> In b l -> f a = f b -> a = b) -> NoDup l -> NoDup (map f l).
Proof.
  induction l as [|x l IH]; intros Inj N; cbn; [constructor|]. inversion N as [|? ? Hx N']; subst.
  constructor.
  - rewrite in_map_iff. intros (y & E & Hy). apply Inj in E; [|right; exact Hy|left; reflexivity]. subst. contradiction.
  - apply IH; auto. intros a b Ha Hb. apply Inj; right; assumption.
Qed.

Lemma NoDup_of_map {B C} (f : B -> C) l : NoDup (map f l) -> NoDup l.
Proof.
  induction l as [|x l IH]; cbn; intros N; [constructor|]. inversion N; subst. constructor; auto.
  intros H. apply (in_map f) in H. contradiction.
Qed.

Lemma same_id_same_node (U : list node) a b :
  NoDup (map nid U) -> In a U -> In b U -> nid a = nid b -> a = b.
Proof.
  induction U as [|x U IH]; intros N Ha Hb E; [destruct Ha|]. cbn in N. inversion N as [|? ? Hx N']; subst.
  destruct Ha as [->|Ha], Hb as [->|Hb]; auto.
  - exfalso. apply Hx. rewrite E. apply in_map. exact Hb.
  - exfalso. apply Hx. rewrite <- E. apply in_map. exact Ha.
Qed.

Lemma in_by_id (U l : list node) n :
  NoDup (map nid U) -> incl l U -> In n U -> In (nid n) (map nid l) -> In n l.
Proof.
  intros N I Hn Hi. apply in_map_iff in Hi as (m & E & Hm).
  assert (m = n) by (eapply same_id_same_node; eauto). subst. exact Hm.
Qed.

Lemma in_firstn {B} k : forall (l : list B) y, In y (firstn k l) -> In y l.
Proof.
  induction k as [|k IH]; intros l y H; [destruct H|]. destruct l as [|x l]; [destruct H|].
  cbn in H. destruct H as [->|H]; [left; reflexivity | right; apply IH; exact H].
Qed.

Lemma ss_app_inv {B} (R : B -> B -> Prop) l1 : forall l2,
  StronglySorted R (l1 ++ l2) -> forall a b, In a l1 -> In b l2 -> R a b.
Proof.
  induction l1 as [|x l1 IH]; intros l2 S a b Ha Hb; [destruct Ha|].
  cbn in S. apply StronglySorted_inv in S as [S F]. destruct Ha as [->|Ha].
  - rewrite Forall_forall in F. apply F. apply in_app_iff. auto.
  - eapply IH; eauto.
Qed.

Lemma ss_firstn {B} (R : B -> B -> Prop) l : forall k, StronglySorted R l -> StronglySorted R (firstn k l).
Proof.
  induction l as [|x l IH]; intros k S; [rewrite firstn_nil; constructor|].
  destruct k; cbn; [constructor|]. apply StronglySorted_inv in S as [S F]. constructor; [auto|].
  apply Forall_forall. intros y Hy. rewrite Forall_forall in F. apply F. eapply in_firstn. exact Hy.
Qed.

(* ------------------------------------------------------------------ union *)
Lemma union_spec new : forall acc,
  (forall n, In n (union acc new) -> In n acc \/ In n new) /\
  (forall i, In i (map nid (union acc new)) <-> In i (map nid acc) \/ In i (map nid new)) /\
  (NoDup (map nid acc) -> NoDup (map nid (union acc new))).
Proof.
  unfold union. induction new as [|x new IH]; intros acc; cbn [fold_left].
  - split; [auto|]. split; [|auto]. intros i. cbn. tauto.
  - destruct (has_id (nid x) acc) eqn:Hx.
    + destruct (IH acc) as (A & B & C). split; [|split; [|exact C]].
      * intros n Hn. apply A in Hn. cbn. tauto.
      * intros i. rewrite B. cbn. apply has_id_true in Hx. split; [tauto|].
        intros [H|[<-|H]]; auto.
    + destruct (IH (acc ++ [x])) as (A & B & C). split; [|split].
      * intros n Hn. apply A in Hn. rewrite in_app_iff in Hn. cbn in *. tauto.
      * intros i. rewrite B. rewrite map_app, in_app_iff. cbn. tauto.
      * intros N. apply C. rewrite map_app. cbn. apply NoDup_app_disj; [exact N | constructor; [cbn; tauto|constructor] |].
        intros i Hi [<-|[]]. apply has_id_false in Hx. contradiction.
Qed.

(* ------------------------------------------------------------------ sorting by distance *)
Section Sorting.
Variable target : bits.
Definition key (n : node) : Z := dist (nid n) target.
Definition dle (a b : node) : Prop := key a <= key b.
Definition dlt (a b : node) : Prop := key a < key b.

(* the undecorated insertion sort the keyed one is equal to *)
Fixpoint insert_by (x : node) (l : list node) : list node :=
  match l with
  | [] => [x]
  | h :: tl => if key x <=? key h then x :: h :: tl else h :: insert_by x tl
  end.

Definition dec (n : node) : Z * node := (key n, n).

Lemma insert_key_dec x l : insert_key (dec x) (map dec l) = map dec (insert_by x l).
Proof.
  induction l as [|h l IH]; cbn [insert_key insert_by map]; [reflexivity|].
  cbn [dec fst]. destruct (key x <=? key h); [reflexivity|]. cbn [map]. rewrite <- IH. reflexivity.
Qed.

Lemma sort_undecorated l : sort_by_dist target l = fold_right insert_by [] l.
Proof.
  change (sort_by_dist target l) with (map snd (fold_right insert_key [] (map dec l))).
  assert (E : fold_right insert_key [] (map dec l) = map dec (fold_right insert_by [] l)).
  { induction l as [|x l IH]; [reflexivity|]. cbn [map fold_right]. rewrite IH. apply insert_key_dec. }
  rewrite E, map_map. cbn [dec snd]. apply map_id.
Qed.

Lemma insert_perm x l : Permutation (insert_by x l) (x :: l).
Proof.
  induction l as [|h l IH]; cbn [insert_by]; [reflexivity|].
  destruct (key x <=? key h); [reflexivity|].
  etransitivity; [apply perm_skip; exact IH | apply perm_swap].
Qed.

Lemma sort_cons x l : sort_by_dist target (x :: l) = insert_by x (sort_by_dist target l).
Proof. rewrite !sort_undecorated. reflexivity. Qed.

Lemma sort_perm l : Permutation (sort_by_dist target l) l.
Proof.
  induction l as [|x l IH]; [reflexivity|]. rewrite sort_cons.
  etransitivity; [apply insert_perm | apply perm_skip; exact IH].
Qed.

Lemma insert_sorted x l : StronglySorted dle l -> StronglySorted dle (insert_by x l).
Proof.
  induction 1 as [|h l S IH F]; cbn [insert_by]; [repeat constructor|].
  destruct (key x <=? key h) eqn:E.
  - apply Z.leb_le in E. constructor; [constructor; assumption|]. constructor; [exact E|].
    eapply Forall_impl; [|exact F]. unfold dle, key in *. intros y Hy. lia.
  - apply Z.leb_gt in E. constructor; [exact IH|]. apply Forall_forall. intros y Hy.
    apply (Permutation_in _ (insert_perm x l)) in Hy. destruct Hy as [<-|Hy].
    + unfold dle, key in *. lia.
    + rewrite Forall_forall in F. apply F. exact Hy.
Qed.

Lemma sort_sorted l : StronglySorted dle (sort_by_dist target l).
Proof. induction l as [|x l IH]; [constructor|]. rewrite sort_cons. apply insert_sorted. exact IH. Qed.

Lemma ss_strict l : StronglySorted dle l -> NoDup (map key l) -> StronglySorted dlt l.
Proof.
  induction 1 as [|h l S IH F]; intros N; [constructor|]. cbn in N. inversion N as [|? ? Hh N']; subst.
  constructor; [auto|]. apply Forall_forall. intros y Hy. rewrite Forall_forall in F. specialize (F y Hy).
  assert (key h <> key y) by (intros E; apply Hh; rewrite E; apply in_map; exact Hy).
  unfold dle, dlt in *. lia.
Qed.

End Sorting.

(* ------------------------------------------------------------------ the walk *)
Section ClosestFacts.
Variable W : nat.
Variable cap : nat.
Variable me : bits.
Notation wf := (wf W cap me).

Variable t : trie bucket.
Variable target : bits.
Variable excl : option bits.
Variable kk : nat.                        (* max_nodes *)
Hypothesis Hwf : wf [] t.
Hypothesis Htarget : length target = W.

Let U := all_nodes t.
Let lv := filter (live excl) U.           (* the live nodes of the table (minus exclude_node) *)

Variable pk : bits.                       (* key of the bucket that owns the target *)
Variable pb : bucket.
Hypothesis Hleaf : tfind t pk = leaf pb.
Hypothesis Hpk : starts_with pk target = true.

Definition S (j : nat) : list node := filter (live excl) (all_nodes (tfind t (firstn j pk))).

Lemma tfind_prefix_nonempty j : tfind t (firstn j pk) <> Empty.
Proof.
  intros E. rewrite <- (firstn_skipn j pk) in Hleaf. rewrite tfind_app, E, tfind_Empty in Hleaf. discriminate.
Qed.

Lemma S_iff j n :
  In n (S j) <-> In n U /\ live excl n = true /\ starts_with (firstn j pk) (nid n) = true.
Proof.
  unfold S. rewrite filter_In. split.
  - intros [Hn L]. assert (HU : In n U) by (eapply all_nodes_tfind; eauto).
    split; [exact HU|]. split; [exact L|].
    apply (under_iff W cap me (firstn j pk) [] t n Hwf (tfind_prefix_nonempty j) HU). exact Hn.
  - intros (HU & L & St). split; [|exact L].
    apply (under_iff W cap me (firstn j pk) [] t n Hwf (tfind_prefix_nonempty j) HU). exact St.
Qed.

Lemma S_mono i j : (i <= j)%nat -> incl (S j) (S i).
Proof.
  intros Le n Hn. apply S_iff in Hn as (HU & L & St). apply S_iff. split; [exact HU|]. split; [exact L|].
  eapply starts_with_trans; [apply (starts_with_firstn_mono i j pk Le) | exact St].
Qed.

Lemma S_in_U j : incl (S j) U.
Proof. intros n Hn. apply S_iff in Hn. tauto. Qed.

Lemma S_zero n : In n (S 0) <-> In n lv.
Proof. unfold S, lv, U. cbn [firstn tfind]. reflexivity. Qed.

Lemma NoDup_U : NoDup (map nid U).
Proof. apply (wf_NoDup W cap me t [] Hwf). Qed.

Lemma walk_spec i : forall acc,
  NoDup (map nid acc) -> incl acc (S i) ->
  exists j r, (j <= i)%nat /\ walk t pk excl kk i acc = Ok r /\ NoDup (map nid r) /\
              (forall n, In n r <-> In n (S j)) /\ (j = 0%nat \/ (kk < length r)%nat).
Proof.
  induction i as [|i IH]; intros acc N I.
  - cbn [walk]. rewrite under_ok. cbn [bind].
    fold (all_nodes (tfind t (firstn 0 pk))). fold (S 0).
    destruct (union_spec (S 0) acc) as (A & B & C).
    assert (Eq : forall n, In n (union acc (S 0)) <-> In n (S 0)).
    { intros n. split.
      - intros H. apply A in H as [H|H]; auto.
      - intros H. apply (in_by_id U); [apply NoDup_U | | apply (S_in_U 0); exact H | apply B; right; apply in_map; exact H].
        intros m Hm. apply A in Hm as [Hm|Hm]; apply (S_in_U 0); auto. }
    exists 0%nat, (union acc (S 0)). split; [lia|]. split; [destruct (kk <? _)%nat; reflexivity|]. auto.
  - cbn [walk]. rewrite under_ok. cbn [bind].
    fold (all_nodes (tfind t (firstn (Datatypes.S i) pk))). fold (S (Datatypes.S i)).
    destruct (union_spec (S (Datatypes.S i)) acc) as (A & B & C).
    assert (Eq : forall n, In n (union acc (S (Datatypes.S i))) <-> In n (S (Datatypes.S i))).
    { intros n. split.
      - intros H. apply A in H as [H|H]; auto.
      - intros H. apply (in_by_id U); [apply NoDup_U | | apply (S_in_U (Datatypes.S i)); exact H | apply B; right; apply in_map; exact H].
        intros m Hm. apply A in Hm as [Hm|Hm]; apply (S_in_U (Datatypes.S i)); auto. }
    destruct (kk <? length (union acc (S (Datatypes.S i))))%nat eqn:Lt.
    + apply Nat.ltb_lt in Lt. exists (Datatypes.S i), (union acc (S (Datatypes.S i))). split; [lia|]. auto.
    + destruct (IH (union acc (S (Datatypes.S i)))) as (j & r & Le & E & Nr & Hr & Hj); [auto | |].
      * intros n Hn. apply Eq in Hn. eapply S_mono; [|exact Hn]. lia.
      * exists j, r. split; [lia|]. auto.
Qed.

(* ------------------------------------------------------------------ the result *)
Definition is_k_closest (res : list node) : Prop :=
  StronglySorted (dlt target) res /\
  (forall n, In n res -> In n lv) /\
  length res = Nat.min kk (length lv) /\
  (forall n m, In n res -> In m lv -> ~ In m res -> dlt target n m).

Lemma lv_len n : In n lv -> length (nid n) = W.
Proof.
  unfold lv. rewrite filter_In. intros [H _]. apply (wf_all_nodes W cap me t [] n Hwf H).
Qed.

Lemma key_inj_on l :
  incl l lv -> NoDup (map nid l) -> NoDup (map (key target) l).
Proof.
  intros I N. apply NoDup_map_inj_on; [|eapply NoDup_of_map; exact N].
  intros a b Ha Hb E. unfold key in E. apply dist_inj in E.
  - eapply (same_id_same_node U); [apply NoDup_U | | | exact E].
    + apply I in Ha. unfold lv in Ha. apply filter_In in Ha. tauto.
    + apply I in Hb. unfold lv in Hb. apply filter_In in Hb. tauto.
  - rewrite Htarget. apply lv_len. auto.
  - rewrite Htarget. apply lv_len. auto.
Qed.

Lemma closest_from_walk j r :
  NoDup (map nid r) -> (forall n, In n r <-> In n (S j)) -> (j = 0%nat \/ (kk < length r)%nat) ->
  is_k_closest (firstn kk (sort_by_dist target r)).
Proof.
  intros Nr Hr Hj.
  set (sr := sort_by_dist target r).
  pose proof (sort_perm target r) as P. fold sr in P.
  assert (Isub : incl r lv).
  { intros n Hn. apply Hr in Hn. apply (S_mono 0 j) in Hn; [|lia]. apply S_zero. exact Hn. }
  assert (Isr : incl sr lv) by (intros n Hn; apply Isub; eapply Permutation_in; eauto).
  assert (Nsr : NoDup (map nid sr)).
  { eapply Permutation_NoDup; [|exact Nr]. apply Permutation_map. symmetry. exact P. }
  assert (SS : StronglySorted (dlt target) sr).
  { apply ss_strict; [apply sort_sorted | apply key_inj_on; assumption]. }
  split; [apply ss_firstn; exact SS|].
  split; [intros n Hn; apply Isr; eapply in_firstn; eauto|].
  split.
  - rewrite firstn_length. rewrite (Permutation_length P).
    destruct Hj as [->|Lt].
    + assert (PL : Permutation r lv).
      { apply NoDup_Permutation.
        - eapply NoDup_of_map; exact Nr.
        - unfold lv. apply NoDup_filter. eapply NoDup_of_map. apply NoDup_U.
        - intros n. rewrite Hr. apply S_zero. }
      rewrite (Permutation_length PL). reflexivity.
    + assert (length r <= length lv)%nat.
      { apply NoDup_incl_length; [eapply NoDup_of_map; exact Nr | exact Isub]. }
      lia.
  - intros n m Hn Hm Hnm.
    assert (Hn' : In n sr) by (eapply in_firstn; eauto).
    destruct (in_dec (fun a b => list_eq_dec bool_dec a b) (nid m) (map nid r)) as [Hin|Hout].
    + (* m was collected but cut off: it comes later in the sorted list *)
      assert (Hmr : In m r).
      { apply (in_by_id U); [apply NoDup_U | | | exact Hin].
        - intros x Hx. apply Isub in Hx. unfold lv in Hx. apply filter_In in Hx. tauto.
        - unfold lv in Hm. apply filter_In in Hm. tauto. }
      assert (Hms : In m sr) by (eapply Permutation_in; [symmetry; exact P | exact Hmr]).
      rewrite <- (firstn_skipn kk sr) in Hms, SS. apply in_app_iff in Hms as [Hms|Hms]; [contradiction|].
      eapply ss_app_inv; eauto.
    + (* m lies outside the sub-tree that was collected: it shares fewer leading bits with the target *)
      assert (Hnr : In n r) by (eapply Permutation_in; [exact P | exact Hn']).
      apply Hr in Hnr. apply S_iff in Hnr as (HnU & _ & Sn).
      assert (Sm : starts_with (firstn j pk) (nid m) = false).
      { destruct (starts_with (firstn j pk) (nid m)) eqn:E; [|reflexivity]. exfalso. apply Hout.
        apply in_map. apply Hr. apply S_iff. unfold lv in Hm. apply filter_In in Hm. tauto. }
      unfold dlt, key. apply (xor_order_by_common_prefix (firstn j pk)); auto.
      * eapply starts_with_trans; [apply starts_with_firstn | exact Hpk].
      * rewrite Htarget. apply (wf_all_nodes W cap me t [] n Hwf HnU).
      * rewrite Htarget. apply lv_len. exact Hm.
Qed.

End ClosestFacts.

(* closest_nodes on a valid table: no exception, and the result is the k-closest list *)
Lemma closest_ok W cap me t target kk excl :
  wf W cap me [] t -> length target = W ->
  exists res, closest (mkRT me t) target kk excl = Ok res /\ is_k_closest t target excl kk res.
Proof.
  intros Hwf Ht.
  destruct (find_bucket_wf W cap me t target Hwf Ht) as (k & b & E & Sk & Fk & _).
  assert (Pfx : match lpi t target with Some (p, _) => p | None => [] end = k).
  { unfold find_bucket in E. destruct (lpi t target) as [[p a]|].
    - injection E as -> _. reflexivity.
    - destruct (tget t []); cbn in E; [|discriminate]. injection E as <- _. reflexivity. }
  unfold closest. cbn [tr]. rewrite Pfx.
  destruct (walk_spec W cap me t target excl kk Hwf Ht k b Fk Sk (length k) []) as (j & r & _ & Ew & Nr & Hr & Hj).
  - constructor.
  - intros n [].
  - rewrite Ew. cbn [bind]. eexists. split; [reflexivity|].
    eapply closest_from_walk; eauto.
Qed.

(* the k-closest list is unique: two answers meeting the specification are equal *)
Lemma ss_lt_unique target (l1 : list node) : forall l2,
  StronglySorted (dlt target) l1 -> StronglySorted (dlt target) l2 ->
  (forall n, In n l1 <-> In n l2) -> l1 = l2.
Proof.
  induction l1 as [|x l1 IH]; intros l2 S1 S2 Eq.
  - destruct l2 as [|y l2]; [reflexivity|]. exfalso. apply (Eq y). left. reflexivity.
  - destruct l2 as [|y l2]; [exfalso; apply (Eq x); left; reflexivity|].
    apply StronglySorted_inv in S1 as [S1 F1]. apply StronglySorted_inv in S2 as [S2 F2].
    rewrite Forall_forall in F1, F2.
    assert (x = y).
    { destruct (proj1 (Eq x) (or_introl eq_refl)) as [->|Hx]; [reflexivity|].
      destruct (proj2 (Eq y) (or_introl eq_refl)) as [->|Hy]; [reflexivity|].
      specialize (F1 _ Hy). specialize (F2 _ Hx). unfold dlt in *. lia. }
    subst y. f_equal. apply IH; auto. intros n. split; intros Hn.
    + destruct (proj1 (Eq n) (or_intror Hn)) as [<-|H]; [|exact H].
      specialize (F1 _ Hn). unfold dlt in F1. lia.
    + destruct (proj2 (Eq n) (or_intror Hn)) as [<-|H]; [|exact H].
      specialize (F2 _ Hn). unfold dlt in F2. lia.
Qed.
