(* C13 - lemmas about the NAT network model (any well-formed network, any cone type). *)
From Coq Require Import ZArith List Bool Lia ZifyBool.
From IPV8V Require Import lib.PyErr gen.G13_lan model.M13_nat proofs.P13_proto.
Import ListNotations.
Open Scope Z_scope.

(* ------------------------------------------------------------------------------------------ list plumbing *)
Lemma find_map_inv {A} (P : A -> bool) (f : A -> A) l :
  (forall x, P (f x) = P x) -> find P (map f l) = option_map f (find P l).
Proof.
  intros H. induction l as [|x tl IH]; cbn [map find option_map]; [reflexivity|].
  rewrite H. destruct (P x); [reflexivity | exact IH].
Qed.
Lemma find_app {A} (P : A -> bool) (l r : list A) :
  find P (l ++ r) = match find P l with Some x => Some x | None => find P r end.
Proof. induction l as [|x tl IH]; cbn [app find]; [reflexivity|]. destruct (P x); [reflexivity | exact IH]. Qed.
Lemma find_none_all {A} (P : A -> bool) (l : list A) : (forall x, In x l -> P x = false) -> find P l = None.
Proof.
  induction l as [|x tl IH]; intros H; cbn [find]; [reflexivity|].
  rewrite (H x (or_introl eq_refl)). apply IH. intros y Hy. apply H. right. exact Hy.
Qed.
Lemma existsb_impl {A} (P Q : A -> bool) l : (forall x, P x = true -> Q x = true) -> existsb P l = true -> existsb Q l = true.
Proof.
  intros H. rewrite !existsb_exists. intros (x & Hin & Hp). exists x. split; [exact Hin | apply H; exact Hp].
Qed.

(* ------------------------------------------------------------------------------------------ well-formed networks *)
Record site_wf (s : site) : Prop := {
  sw_lookup : forall a p, In (a, p) (s_maps s) -> map_lookup a (s_maps s) = Some p;
  sw_rev : forall a p, In (a, p) (s_maps s) -> map_rev p (s_maps s) = Some a;
  sw_next : forall a p, In (a, p) (s_maps s) -> p < s_next s
}.

Definition by_pub (pub : Z) (s : site) : bool := negb (is_open (s_type s)) && (s_pub s =? pub).
Definition by_lan (sid : Z) (lan : addr) (h : host) : bool := (h_site h =? sid) && addr_eqb (h_lan h) lan.

Record net_wf (n : net) : Prop := {
  wf_site_id : forall s, In s (sites n) -> find_site n (s_id s) = Some s;                 (* site ids are unique *)
  wf_site_pub : forall s, In s (sites n) -> is_open (s_type s) = false ->
                find (by_pub (s_pub s)) (sites n) = Some s;                                (* NAT boxes have distinct public IPs *)
  wf_host_id : forall h, In h (hosts n) -> find_host n (h_id h) = Some h;                 (* host ids are unique *)
  wf_host_lan : forall h, In h (hosts n) -> find (by_lan (h_site h) (h_lan h)) (hosts n) = Some h;
                                                                                           (* LAN addresses are unique per site *)
  wf_open_apart : forall h s, In h (hosts n) -> In s (sites n) -> is_open (s_type s) = false ->
                  is_open (site_type n (h_site h)) = true -> fst (h_lan h) <> s_pub s;     (* no public host on a NAT's IP *)
  wf_sites : forall s, In s (sites n) -> site_wf s
}.

(* a site after one more outbound packet: same identity, mappings extended at the end, more filter entries *)
Record extends (s s' : site) : Prop := {
  ex_id : s_id s' = s_id s;
  ex_type : s_type s' = s_type s;
  ex_pub : s_pub s' = s_pub s;
  ex_maps : exists more, s_maps s' = s_maps s ++ more;
  ex_filt : forall e, In e (s_filt s) -> In e (s_filt s')
}.

Lemma extends_refl s : extends s s.
Proof. constructor; auto. exists []. rewrite app_nil_r. reflexivity. Qed.

Definition upd (s' : site) (x : site) : site := if s_id x =? s_id s' then s' else x.
Lemma set_site_sites n s' : sites (set_site n s') = map (upd s') (sites n).
Proof. reflexivity. Qed.
Lemma set_site_hosts n s' : hosts (set_site n s') = hosts n.
Proof. reflexivity. Qed.

Lemma upd_keeps n s s' x : net_wf n -> In s (sites n) -> extends s s' -> In x (sites n) ->
  s_id (upd s' x) = s_id x /\ s_type (upd s' x) = s_type x /\ s_pub (upd s' x) = s_pub x /\ extends x (upd s' x).
Proof.
  intros W Hs E Hx. unfold upd. destruct (s_id x =? s_id s') eqn:Eid;
    [|split; [reflexivity|split; [reflexivity|split; [reflexivity|apply extends_refl]]]].
  assert (x = s).
  { pose proof (wf_site_id n W x Hx) as F1. pose proof (wf_site_id n W s Hs) as F2.
    rewrite (ex_id _ _ E) in Eid. replace (s_id x) with (s_id s) in F1 by lia. congruence. }
  subst x. split; [apply (ex_id _ _ E)|]. split; [apply (ex_type _ _ E)|]. split; [apply (ex_pub _ _ E)|]. exact E.
Qed.

Record same_ident (s s' : site) : Prop := {
  si_id : s_id s' = s_id s;
  si_type : s_type s' = s_type s;
  si_pub : s_pub s' = s_pub s
}.
Lemma extends_ident s s' : extends s s' -> same_ident s s'.
Proof. intros E. constructor; [apply (ex_id _ _ E) | apply (ex_type _ _ E) | apply (ex_pub _ _ E)]. Qed.

Lemma upd_ident n s s' x : net_wf n -> In s (sites n) -> same_ident s s' -> In x (sites n) ->
  s_id (upd s' x) = s_id x /\ s_type (upd s' x) = s_type x /\ s_pub (upd s' x) = s_pub x.
Proof.
  intros W Hs E Hx. unfold upd. destruct (s_id x =? s_id s') eqn:Eid; [|repeat split; reflexivity].
  assert (x = s).
  { pose proof (wf_site_id n W x Hx) as F1. pose proof (wf_site_id n W s Hs) as F2.
    rewrite (si_id _ _ E) in Eid. replace (s_id x) with (s_id s) in F1 by lia. congruence. }
  subst x. split; [apply (si_id _ _ E)|]. split; [apply (si_type _ _ E) | apply (si_pub _ _ E)].
Qed.

Lemma find_site_set n s s' k : net_wf n -> In s (sites n) -> same_ident s s' ->
  find_site (set_site n s') k = option_map (upd s') (find_site n k).
Proof.
  intros W Hs E. unfold find_site. rewrite set_site_sites.
  assert (G : forall l, (forall x, In x l -> In x (sites n)) ->
              find (fun x => s_id x =? k) (map (upd s') l) = option_map (upd s') (find (fun x => s_id x =? k) l)).
  { induction l as [|x tl IH]; intros Hl; cbn [map find option_map]; [reflexivity|].
    destruct (upd_ident n s s' x W Hs E (Hl x (or_introl eq_refl))) as (Ei & _ & _).
    rewrite Ei. destruct (s_id x =? k); [reflexivity|]. apply IH. intros y Hy. apply Hl. right. exact Hy. }
  apply G. auto.
Qed.

Lemma find_pub_set n s s' pub : net_wf n -> In s (sites n) -> same_ident s s' ->
  find (by_pub pub) (sites (set_site n s')) = option_map (upd s') (find (by_pub pub) (sites n)).
Proof.
  intros W Hs E. rewrite set_site_sites.
  assert (G : forall l, (forall x, In x l -> In x (sites n)) ->
              find (by_pub pub) (map (upd s') l) = option_map (upd s') (find (by_pub pub) l)).
  { induction l as [|x tl IH]; intros Hl; cbn [map find option_map]; [reflexivity|].
    destruct (upd_ident n s s' x W Hs E (Hl x (or_introl eq_refl))) as (_ & Et & Ep).
    unfold by_pub at 1 3. rewrite Et, Ep. fold (by_pub pub x). destruct (by_pub pub x); [reflexivity|].
    apply IH. intros y Hy. apply Hl. right. exact Hy. }
  apply G. auto.
Qed.

Lemma site_type_set n s s' k : net_wf n -> In s (sites n) -> same_ident s s' ->
  site_type (set_site n s') k = site_type n k.
Proof.
  intros W Hs E. unfold site_type. rewrite (find_site_set n s s' k W Hs E).
  destruct (find_site n k) as [x|] eqn:F; cbn [option_map]; [|reflexivity].
  pose proof (find_some _ _ F) as [Hx _].
  destruct (upd_ident n s s' x W Hs E Hx) as (_ & Et & _). exact Et.
Qed.

Lemma in_set_site n s s' t : net_wf n -> In s (sites n) -> same_ident s s' ->
  In t (sites (set_site n s')) -> exists x, In x (sites n) /\ t = upd s' x.
Proof.
  intros W Hs E Ht. rewrite set_site_sites in Ht. apply in_map_iff in Ht. destruct Ht as (x & Hx & Hin).
  exists x. split; [exact Hin | symmetry; exact Hx].
Qed.

Lemma set_site_wf n s s' : net_wf n -> In s (sites n) -> same_ident s s' -> site_wf s' -> net_wf (set_site n s').
Proof.
  intros W Hs E Ws'. constructor.
  - intros t Ht. destruct (in_set_site n s s' t W Hs E Ht) as (x & Hx & ->).
    destruct (upd_ident n s s' x W Hs E Hx) as (Ei & _ & _). rewrite Ei.
    rewrite (find_site_set n s s' _ W Hs E), (wf_site_id n W x Hx). reflexivity.
  - intros t Ht Ho. destruct (in_set_site n s s' t W Hs E Ht) as (x & Hx & ->).
    destruct (upd_ident n s s' x W Hs E Hx) as (_ & Et & Ep). rewrite Ep.
    rewrite (find_pub_set n s s' _ W Hs E). rewrite Et in Ho. rewrite (wf_site_pub n W x Hx Ho). reflexivity.
  - intros h Hh. rewrite set_site_hosts in Hh. unfold find_host. rewrite set_site_hosts. exact (wf_host_id n W h Hh).
  - intros h Hh. rewrite set_site_hosts in *. exact (wf_host_lan n W h Hh).
  - intros h t Hh Ht Ho Hop. rewrite set_site_hosts in Hh.
    destruct (in_set_site n s s' t W Hs E Ht) as (x & Hx & ->).
    destruct (upd_ident n s s' x W Hs E Hx) as (_ & Et & Ep). rewrite Ep. rewrite Et in Ho.
    rewrite (site_type_set n s s' _ W Hs E) in Hop. exact (wf_open_apart n W h x Hh Hx Ho Hop).
  - intros t Ht. destruct (in_set_site n s s' t W Hs E Ht) as (x & Hx & ->).
    unfold upd. destruct (s_id x =? s_id s'); [exact Ws' | exact (wf_sites n W x Hx)].
Qed.

(* ------------------------------------------------------------------------------------------ one outbound packet *)
Lemma filt_add_has e f : existsb (fun x => (fst x =? fst e) && addr_eqb (snd x) (snd e)) (filt_add e f) = true.
Proof.
  unfold filt_add. destruct (existsb (fun x => (fst x =? fst e) && addr_eqb (snd x) (snd e)) f) eqn:E; [exact E|].
  rewrite existsb_app. cbn [existsb]. rewrite Z.eqb_refl, addr_eqb_refl. cbn. apply orb_true_r.
Qed.
Lemma filt_add_keeps e f x : In x f -> In x (filt_add e f).
Proof. unfold filt_add. destruct (existsb _ f); [auto|]. intros H. apply in_or_app. left. exact H. Qed.

(* the site record after host (lan) sent a packet through it to dst *)
Definition site_after (s : site) (lan dst : addr) : site :=
  let '(ext, maps', next') :=
    match map_lookup lan (s_maps s) with
    | Some p => (p, s_maps s, s_next s)
    | None => (s_next s, s_maps s ++ [(lan, s_next s)], s_next s + 1)
    end in
  mkSite (s_id s) (s_type s) (s_pub s) maps' next' (filt_add (ext, dst) (s_filt s)).
Definition ext_after (s : site) (lan : addr) : Z :=
  match map_lookup lan (s_maps s) with Some p => p | None => s_next s end.

Lemma map_lookup_in a m p : map_lookup a m = Some p -> In (a, p) m.
Proof.
  unfold map_lookup. destruct (find (fun e => addr_eqb (fst e) a) m) as [e|] eqn:F; [|discriminate].
  intros H. inversion H. pose proof (find_some _ _ F) as [Hin He]. apply addr_eqb_eq in He.
  destruct e as [a' p']. cbn in *. subst. exact Hin.
Qed.

Lemma site_after_extends s lan dst : extends s (site_after s lan dst).
Proof.
  unfold site_after. destruct (map_lookup lan (s_maps s)); constructor; cbn; auto.
  - exists []. rewrite app_nil_r. reflexivity.
  - intros e. apply filt_add_keeps.
  - eauto.
  - intros e. apply filt_add_keeps.
Qed.

Lemma site_after_maps s lan dst : In (lan, ext_after s lan) (s_maps (site_after s lan dst)).
Proof.
  unfold site_after, ext_after. destruct (map_lookup lan (s_maps s)) eqn:L; cbn.
  - apply map_lookup_in. exact L.
  - apply in_or_app. right. left. reflexivity.
Qed.

Lemma site_after_filt s lan dst :
  existsb (fun x => (fst x =? ext_after s lan) && addr_eqb (snd x) dst) (s_filt (site_after s lan dst)) = true.
Proof.
  unfold site_after, ext_after. destruct (map_lookup lan (s_maps s)); cbn; apply (filt_add_has (_, dst)).
Qed.

Lemma site_after_wf s lan dst : site_wf s -> site_wf (site_after s lan dst).
Proof.
  intros [Wl Wr Wn]. unfold site_after. destruct (map_lookup lan (s_maps s)) eqn:L.
  - constructor; cbn; assumption.
  - assert (Hnone : forall x, In x (s_maps s) -> addr_eqb (fst x) lan = false).
    { unfold map_lookup in L. destruct (find (fun e => addr_eqb (fst e) lan) (s_maps s)) eqn:F; [discriminate|].
      intros x Hx. exact (find_none _ _ F x Hx). }
    constructor; cbn [s_maps s_next]; intros a p Hin; apply in_app_or in Hin.
    + unfold map_lookup. rewrite find_app. destruct Hin as [Hin|[Hin|[]]].
      * pose proof (Wl a p Hin) as Hl. unfold map_lookup in Hl.
        destruct (find (fun e => addr_eqb (fst e) a) (s_maps s)); [exact Hl | discriminate].
      * inversion Hin; subst a p.
        rewrite (find_none_all _ _ Hnone). cbn [find fst]. rewrite addr_eqb_refl. reflexivity.
    + unfold map_rev. rewrite find_app. destruct Hin as [Hin|[Hin|[]]].
      * pose proof (Wr a p Hin) as Hr. unfold map_rev in Hr.
        destruct (find (fun e => snd e =? p) (s_maps s)); [exact Hr | discriminate].
      * inversion Hin; subst a p.
        rewrite find_none_all; [cbn [find snd]; rewrite Z.eqb_refl; reflexivity|].
        intros [a' p'] Hx. cbn. pose proof (Wn a' p' Hx). lia.
    + destruct Hin as [Hin|[Hin|[]]]; [pose proof (Wn a p Hin); lia | inversion Hin; lia].
Qed.

(* route, unfolded for a NATted sender whose packet leaves the site *)
Lemma route_outbound n hid h s dst :
  find_host n hid = Some h -> find_site n (h_site h) = Some s -> is_open (s_type s) = false ->
  find (by_lan (s_id s) dst) (hosts n) = None -> in_lan_subnets (fst dst) = false ->
  route n hid dst =
  (set_site n (site_after s (h_lan h) dst),
   internet (set_site n (site_after s (h_lan h) dst)) (s_pub s, ext_after s (h_lan h)) dst).
Proof.
  intros Hh Hs Ho Hl Hp. unfold route. rewrite Hh, Hs, Ho.
  change (fun h2 : host => (h_site h2 =? s_id s) && addr_eqb (h_lan h2) dst) with (by_lan (s_id s) dst).
  rewrite Hl, Hp. unfold site_after, ext_after. destruct (map_lookup (h_lan h) (s_maps s)); reflexivity.
Qed.

(* every send keeps the network well formed and only extends sites *)
Definition net_extends (n n' : net) : Prop :=
  hosts n' = hosts n /\
  (n' = n \/ exists s s', In s (sites n) /\ extends s s' /\ site_wf s' /\ n' = set_site n s').

Lemma route_extends n hid dst n' oc : net_wf n -> route n hid dst = (n', oc) -> net_extends n n'.
Proof.
  intros W H. unfold route in H.
  destruct (find_host n hid) as [h|]; [|inversion H; split; auto].
  destruct (find_site n (h_site h)) as [s|] eqn:Fs; [|inversion H; split; auto].
  destruct (is_open (s_type s)); [inversion H; split; auto|].
  destruct (find _ (hosts n)); [inversion H; split; auto|].
  destruct (in_lan_subnets (fst dst)); [inversion H; split; auto|].
  pose proof (find_some _ _ Fs) as [Hin _].
  assert (E : n' = set_site n (site_after s (h_lan h) dst)).
  { unfold site_after. destruct (map_lookup (h_lan h) (s_maps s)); inversion H; reflexivity. }
  split; [rewrite E; reflexivity|]. right. exists s, (site_after s (h_lan h) dst).
  split; [exact Hin|]. split; [apply site_after_extends|]. split; [|exact E].
  apply site_after_wf. exact (wf_sites n W s Hin).
Qed.

Lemma net_extends_wf n n' : net_wf n -> net_extends n n' -> net_wf n'.
Proof.
  intros W [_ [->|(s & s' & Hs & E & Ws & ->)]]; [exact W|]. apply set_site_wf with (s := s); [assumption | assumption | apply extends_ident; assumption | assumption].
Qed.

Lemma route_wf n hid dst n' oc : net_wf n -> route n hid dst = (n', oc) -> net_wf n'.
Proof. intros W H. eapply net_extends_wf; [exact W | eapply route_extends; eassumption]. Qed.

(* ------------------------------------------------------------------------------------------ inbound packets *)
(* what `internet` does for a packet addressed to a mapped port of a NAT box *)
Lemma internet_inbound n s h src ext :
  net_wf n -> In s (sites n) -> is_open (s_type s) = false -> In h (hosts n) -> h_site h = s_id s ->
  In (h_lan h, ext) (s_maps s) -> fst src <> s_pub s ->
  internet n src (s_pub s, ext) =
  if filter_ok (s_type s) (s_filt s) ext src then Deliver (h_id h) src else Drop Filtered.
Proof.
  intros W Hs Ho Hh Hsite Hmap Hsrc. unfold internet. cbn [fst snd].
  rewrite find_none_all.
  2:{ intros h0 Hh0. destruct (is_open (site_type n (h_site h0))) eqn:Eo; [|reflexivity]. cbn [andb].
      apply addr_eqb_neq. intros Eq. apply (wf_open_apart n W h0 s Hh0 Hs Ho Eo). rewrite Eq. reflexivity. }
  change (fun s0 : site => negb (is_open (s_type s0)) && (s_pub s0 =? s_pub s)) with (by_pub (s_pub s)).
  rewrite (wf_site_pub n W s Hs Ho).
  replace (fst src =? s_pub s) with false by lia.
  rewrite (sw_rev s (wf_sites n W s Hs) _ _ Hmap).
  destruct (filter_ok (s_type s) (s_filt s) ext src); [|reflexivity].
  change (fun h0 : host => (h_site h0 =? s_id s) && addr_eqb (h_lan h0) (h_lan h)) with (by_lan (s_id s) (h_lan h)).
  rewrite <- Hsite. rewrite (wf_host_lan n W h Hh). reflexivity.
Qed.

Lemma filter_ok_mono t f f' port src :
  (forall e, In e f -> In e f') -> filter_ok t f port src = true -> filter_ok t f' port src = true.
Proof.
  intros Hsub. destruct t; cbn [filter_ok]; auto; rewrite !existsb_exists;
    intros (e & Hin & He); exists e; (split; [apply Hsub; exact Hin | exact He]).
Qed.

(* a pinhole stays open: later traffic of anybody never closes it, and the external address of a host
   never changes (endpoint-independent mapping) *)
Definition pinhole (n : net) (hid : Z) (pub ext : Z) (src : addr) : Prop :=
  exists s h, In s (sites n) /\ is_open (s_type s) = false /\ s_pub s = pub /\
              In h (hosts n) /\ h_id h = hid /\ h_site h = s_id s /\ In (h_lan h, ext) (s_maps s) /\
              fst src <> pub /\ filter_ok (s_type s) (s_filt s) ext src = true.

Lemma pinhole_delivers n hid pub ext src : net_wf n -> pinhole n hid pub ext src ->
  internet n src (pub, ext) = Deliver hid src.
Proof.
  intros W (s & h & Hs & Ho & Hp & Hh & Hid & Hsite & Hmap & Hsrc & Hf). subst pub hid.
  rewrite (internet_inbound n s h src ext W Hs Ho Hh Hsite Hmap Hsrc), Hf. reflexivity.
Qed.

Lemma pinhole_extends n n' hid pub ext src : net_wf n -> net_extends n n' ->
  pinhole n hid pub ext src -> pinhole n' hid pub ext src.
Proof.
  intros W [Hhosts [->|(s0 & s0' & Hs0 & E & Ws0 & ->)]] P; [exact P|].
  destruct P as (s & h & Hs & Ho & Hp & Hh & Hid & Hsite & Hmap & Hsrc & Hf).
  destruct (upd_keeps n s0 s0' s W Hs0 E Hs) as (Ei & Et & Epub & Ex).
  exists (upd s0' s), h. rewrite set_site_sites, set_site_hosts, Ei, Et, Epub.
  split; [apply in_map; exact Hs|]. repeat (split; [assumption|]).
  split.
  - destruct (ex_maps _ _ Ex) as (more & ->). apply in_or_app. left. exact Hmap.
  - split; [assumption|]. eapply filter_ok_mono; [exact (ex_filt _ _ Ex) | exact Hf].
Qed.

(* sends, iterated *)
Fixpoint routes (n : net) (l : list (Z * addr)) : net :=
  match l with [] => n | (h, d) :: tl => routes (fst (route n h d)) tl end.

Lemma routes_wf l : forall n, net_wf n -> net_wf (routes n l).
Proof.
  induction l as [|[h d] tl IH]; intros n W; cbn [routes]; [exact W|].
  apply IH. destruct (route n h d) as [n' oc] eqn:R. cbn [fst]. eapply route_wf; eassumption.
Qed.
Lemma pinhole_stable l : forall n hid pub ext src, net_wf n -> pinhole n hid pub ext src ->
  pinhole (routes n l) hid pub ext src.
Proof.
  induction l as [|[h d] tl IH]; intros n hid pub ext src W P; cbn [routes]; [exact P|].
  destruct (route n h d) as [n' oc] eqn:R. cbn [fst].
  apply IH; [eapply route_wf; eassumption|].
  eapply pinhole_extends; [exact W | eapply route_extends; eassumption | exact P].
Qed.

(* The puncture lemma: once a host behind a cone NAT of any of the three kinds has sent a datagram to a
   public address `dst`, datagrams from exactly `dst` to the host's external address are delivered to it -
   immediately and after any further traffic. *)
Lemma punctured_pair_passes_l : forall n hid h s dst n1 oc,
  net_wf n -> find_host n hid = Some h -> find_site n (h_site h) = Some s -> is_open (s_type s) = false ->
  find (by_lan (s_id s) dst) (hosts n) = None -> in_lan_subnets (fst dst) = false -> fst dst <> s_pub s ->
  route n hid dst = (n1, oc) ->
  exists ext,
    external n1 hid = Some (s_pub s, ext) /\
    forall later, internet (routes n1 later) dst (s_pub s, ext) = Deliver hid dst.
Proof.
  intros n hid h s dst n1 oc W Hh Hs Ho Hl Hp Hd R.
  rewrite (route_outbound n hid h s dst Hh Hs Ho Hl Hp) in R. inversion R; subst n1; clear R H1.
  set (s' := site_after s (h_lan h) dst). set (ext := ext_after s (h_lan h)).
  pose proof (find_some _ _ Hs) as [Hsin Hsid]. pose proof (find_some _ _ Hh) as [Hhin Hhid].
  pose proof (site_after_extends s (h_lan h) dst) as E. fold s' in E.
  assert (Ws' : site_wf s') by (apply site_after_wf; exact (wf_sites n W s Hsin)).
  assert (W1 : net_wf (set_site n s')) by (apply set_site_wf with (s := s); [assumption | assumption | apply extends_ident; assumption | assumption]).
  assert (Hu : upd s' s = s') by (unfold upd; rewrite (ex_id _ _ E), Z.eqb_refl; reflexivity).
  exists ext. split.
  - unfold external. unfold find_host. rewrite set_site_hosts. fold (find_host n hid). rewrite Hh.
    rewrite (find_site_set n s s' _ W Hsin (extends_ident _ _ E)), Hs. cbn [option_map]. rewrite Hu.
    rewrite (ex_type _ _ E), Ho.
    rewrite (sw_lookup s' Ws' _ _ (site_after_maps s (h_lan h) dst)). rewrite (ex_pub _ _ E). reflexivity.
  - intros later. apply pinhole_delivers; [apply routes_wf; exact W1|]. apply pinhole_stable; [exact W1|].
    exists s', h. rewrite set_site_sites, set_site_hosts.
    split; [apply in_map_iff; exists s; split; [exact Hu | exact Hsin]|].
    rewrite (ex_type _ _ E), (ex_pub _ _ E), (ex_id _ _ E).
    repeat (split; [first [assumption | reflexivity | lia]|]).
    split; [apply site_after_maps|]. split; [exact Hd|].
    pose proof (site_after_filt s (h_lan h) dst) as F. fold s' ext in F.
    destruct (s_type s); cbn [filter_ok]; auto.
    eapply existsb_impl; [|exact F]. intros [xp xa] Hx. cbn [fst snd] in *.
    apply andb_true_iff in Hx. destruct Hx as [H1 H2].
    apply addr_eqb_eq in H2. subst xa. apply andb_true_iff. split; [exact H1 | apply Z.eqb_refl].
Qed.

(* the external address of a host never changes once allocated (endpoint-independent mapping) *)
Lemma external_stable_l : forall n hid x h d n' oc,
  net_wf n -> external n hid = Some x -> route n h d = (n', oc) -> external n' hid = Some x.
Proof.
  intros n hid x h0 d n' oc W Hx R.
  destruct (route_extends n h0 d n' oc W R) as [Hhosts [->|(s & s' & Hs & E & Ws & ->)]]; [exact Hx|].
  unfold external in *. unfold find_host in *. rewrite set_site_hosts.
  destruct (find (fun h => h_id h =? hid) (hosts n)) as [h|]; [|discriminate].
  rewrite (find_site_set n s s' _ W Hs (extends_ident _ _ E)).
  destruct (find_site n (h_site h)) as [t|] eqn:Ft; [|discriminate]. cbn [option_map].
  pose proof (find_some _ _ Ft) as [Htin _].
  destruct (upd_keeps n s s' t W Hs E Htin) as (_ & Et & Ep & Ex). rewrite Et, Ep.
  destruct (is_open (s_type t)); [exact Hx|].
  destruct (ex_maps _ _ Ex) as (more & ->).
  unfold map_lookup in *. rewrite find_app.
  destruct (find (fun e => addr_eqb (fst e) (h_lan h)) (s_maps t)); [exact Hx | discriminate].
Qed.

(* the simulator really filters: a restricted NAT drops what was not solicited *)
Lemma unsolicited_is_filtered_l : forall n s h src ext,
  net_wf n -> In s (sites n) -> In h (hosts n) -> h_site h = s_id s -> In (h_lan h, ext) (s_maps s) ->
  fst src <> s_pub s ->
  (s_type s = AddrRestricted /\ (forall e, In e (s_filt s) -> fst e = ext -> fst (snd e) <> fst src)
   \/ s_type s = PortRestricted /\ (forall e, In e (s_filt s) -> fst e = ext -> snd e <> src)) ->
  internet n src (s_pub s, ext) = Drop Filtered.
Proof.
  intros n s h src ext W Hs Hh Hsite Hmap Hsrc Ht.
  assert (Ho : is_open (s_type s) = false) by (destruct Ht as [[-> _]|[-> _]]; reflexivity).
  rewrite (internet_inbound n s h src ext W Hs Ho Hh Hsite Hmap Hsrc).
  replace (filter_ok (s_type s) (s_filt s) ext src) with false; [reflexivity|].
  symmetry. destruct Ht as [[-> Hf]|[-> Hf]]; cbn [filter_ok].
  - match goal with |- ?X = false => destruct X eqn:Ex; [|reflexivity] end. apply existsb_exists in Ex.
    destruct Ex as (e & Hin & He). apply andb_true_iff in He. destruct He as [H1 H2].
    apply Z.eqb_eq in H1. apply Z.eqb_eq in H2. exfalso. exact (Hf e Hin H1 H2).
  - match goal with |- ?X = false => destruct X eqn:Ex; [|reflexivity] end. apply existsb_exists in Ex.
    destruct Ex as (e & Hin & He). apply andb_true_iff in He. destruct He as [H1 H2].
    apply addr_eqb_eq in H2. apply Z.eqb_eq in H1. exfalso. exact (Hf e Hin H1 H2).
Qed.

(* hosts of one NAT site reach each other directly, LAN address to LAN address, whatever the NAT type *)
Lemma lan_delivery_l : forall n hid h s h2,
  net_wf n -> find_host n hid = Some h -> find_site n (h_site h) = Some s -> is_open (s_type s) = false ->
  In h2 (hosts n) -> h_site h2 = h_site h ->
  route n hid (h_lan h2) = (n, Deliver (h_id h2) (h_lan h)).
Proof.
  intros n hid h s h2 W Hh Hs Ho Hin Hsite. unfold route. rewrite Hh, Hs, Ho.
  pose proof (find_some _ _ Hs) as [_ Hsid].
  change (fun h0 : host => (h_site h0 =? s_id s) && addr_eqb (h_lan h0) (h_lan h2)) with (by_lan (s_id s) (h_lan h2)).
  replace (s_id s) with (h_site h2) by lia. rewrite (wf_host_lan n W h2 Hin). reflexivity.
Qed.

(* ------------------------------------------------------------------------------------------ losing a mapping *)
Lemma find_filter {A} (P Q : A -> bool) l x : find P l = Some x -> Q x = true -> find P (filter Q l) = Some x.
Proof.
  induction l as [|y tl IH]; cbn [find filter]; [discriminate|].
  destruct (P y) eqn:Py.
  - intros E Hq. inversion E; subst y. rewrite Hq. cbn [find]. rewrite Py. reflexivity.
  - intros E Hq. destruct (Q y); [cbn [find]; rewrite Py|]; apply IH; assumption.
Qed.

Lemma filter_maps_wf (m : list (addr * Z)) (next : Z) (Q : addr * Z -> bool) :
  (forall a p, In (a, p) m -> map_lookup a m = Some p) ->
  (forall a p, In (a, p) m -> map_rev p m = Some a) ->
  (forall a p, In (a, p) m -> p < next) ->
  (forall a p, In (a, p) (filter Q m) -> map_lookup a (filter Q m) = Some p)
  /\ (forall a p, In (a, p) (filter Q m) -> map_rev p (filter Q m) = Some a)
  /\ (forall a p, In (a, p) (filter Q m) -> p < next).
Proof.
  intros Wl Wr Wn. split; [|split]; intros a p Hin; apply filter_In in Hin; destruct Hin as [Hin Hq].
  - specialize (Wl a p Hin). unfold map_lookup in *.
    destruct (find (fun e => addr_eqb (fst e) a) m) as [e|] eqn:F; [|discriminate]. inversion Wl.
    pose proof (find_some _ _ F) as [_ He]. apply addr_eqb_eq in He.
    assert (e = (a, p)) by (destruct e; cbn in *; subst; reflexivity). subst e.
    rewrite (find_filter _ Q _ _ F Hq). reflexivity.
  - specialize (Wr a p Hin). unfold map_rev in *.
    destruct (find (fun e => snd e =? p) m) as [e|] eqn:F; [|discriminate]. inversion Wr.
    pose proof (find_some _ _ F) as [_ He]. apply Z.eqb_eq in He.
    assert (e = (a, p)) by (destruct e; cbn in *; subst; reflexivity). subst e.
    rewrite (find_filter _ Q _ _ F Hq). reflexivity.
  - exact (Wn a p Hin).
Qed.

Lemma rebind_wf n hid : net_wf n -> net_wf (rebind n hid).
Proof.
  intros W. unfold rebind. destruct (find_host n hid) as [h|]; [|exact W].
  destruct (find_site n (h_site h)) as [s|] eqn:Fs; [|exact W].
  destruct (map_lookup (h_lan h) (s_maps s)) as [p|]; [|exact W].
  pose proof (find_some _ _ Fs) as [Hin _].
  apply set_site_wf with (s := s); [exact W | exact Hin | constructor; reflexivity |].
  destruct (wf_sites n W s Hin) as [Wl Wr Wn].
  destruct (filter_maps_wf (s_maps s) (s_next s) (fun e => negb (addr_eqb (fst e) (h_lan h))) Wl Wr Wn) as (A & B & C).
  constructor; cbn [s_maps s_next]; assumption.
Qed.

(* ------------------------------------------------------------------------------------------ a decidable check *)
(* a decidable sufficient condition for net_wf on networks whose NAT tables are still empty; used to show
   that every scenario network is well formed (and so stays well formed, by route_wf) *)
Fixpoint distinct {A} (same : A -> A -> bool) (l : list A) : bool :=
  match l with
  | [] => true
  | x :: tl => forallb (fun y => negb (same x y)) tl && distinct same tl
  end.

Lemma distinct_find {A} (same : A -> A -> bool) (l : list A) :
  (forall a b, same a b = same b a) -> distinct same l = true ->
  forall x, In x l -> same x x = true -> find (same x) l = Some x.
Proof.
  intros Sym. induction l as [|x0 tl IH]; intros D x Hin Hr; [destruct Hin|].
  cbn [distinct] in D. apply andb_true_iff in D. destruct D as [D0 D1]. cbn [find].
  destruct Hin as [->|Hin]; [rewrite Hr; reflexivity|].
  rewrite forallb_forall in D0. specialize (D0 x Hin). rewrite Sym in D0.
  destruct (same x x0); [discriminate D0|]. apply IH; assumption.
Qed.

Lemma find_ext {A} (P Q : A -> bool) l : (forall x, P x = Q x) -> find P l = find Q l.
Proof. intros H. induction l as [|x tl IH]; cbn [find]; [reflexivity|]. rewrite H, IH. reflexivity. Qed.

Definition same_site_id (a b : site) : bool := s_id b =? s_id a.
Definition same_pub (a b : site) : bool :=
  negb (is_open (s_type a)) && negb (is_open (s_type b)) && (s_pub b =? s_pub a).
Definition same_host_id (a b : host) : bool := h_id b =? h_id a.
Definition same_lan (a b : host) : bool := by_lan (h_site a) (h_lan a) b.

Definition net_wfb (n : net) : bool :=
  distinct same_site_id (sites n) && distinct same_pub (sites n)
  && distinct same_host_id (hosts n) && distinct same_lan (hosts n)
  && forallb (fun h => forallb (fun s => is_open (s_type s) || negb (is_open (site_type n (h_site h)))
                                         || negb (fst (h_lan h) =? s_pub s)) (sites n)) (hosts n)
  && forallb (fun s => match s_maps s with [] => true | _ => false end) (sites n).

Lemma net_wfb_sound n : net_wfb n = true -> net_wf n.
Proof.
  unfold net_wfb. rewrite !andb_true_iff. intros [[[[[D1 D2] D3] D4] A] M]. constructor.
  - intros s Hs. unfold find_site.
    rewrite (find_ext _ (same_site_id s)) by reflexivity.
    apply distinct_find; auto.
    + intros a b. unfold same_site_id. rewrite Z.eqb_sym. reflexivity.
    + unfold same_site_id. apply Z.eqb_refl.
  - intros s Hs Ho.
    rewrite (find_ext _ (same_pub s)).
    + apply distinct_find; auto.
      * intros a b. unfold same_pub. rewrite (Z.eqb_sym (s_pub b)).
        destruct (is_open (s_type a)), (is_open (s_type b)); reflexivity.
      * unfold same_pub. rewrite Ho, Z.eqb_refl. reflexivity.
    + intros x. unfold by_pub, same_pub. rewrite Ho. reflexivity.
  - intros h Hh. unfold find_host.
    rewrite (find_ext _ (same_host_id h)) by reflexivity.
    apply distinct_find; auto.
    + intros a b. unfold same_host_id. rewrite Z.eqb_sym. reflexivity.
    + unfold same_host_id. apply Z.eqb_refl.
  - intros h Hh. change (by_lan (h_site h) (h_lan h)) with (same_lan h).
    apply distinct_find; auto.
    + intros a b. unfold same_lan, by_lan. rewrite (Z.eqb_sym (h_site b)).
      destruct (addr_eqb (h_lan b) (h_lan a)) eqn:E1, (addr_eqb (h_lan a) (h_lan b)) eqn:E2; try reflexivity.
      * apply addr_eqb_eq in E1. rewrite E1, addr_eqb_refl in E2. discriminate.
      * apply addr_eqb_eq in E2. rewrite E2, addr_eqb_refl in E1. discriminate.
    + unfold same_lan, by_lan. rewrite Z.eqb_refl, addr_eqb_refl. reflexivity.
  - intros h s Hh Hs Ho Hop. rewrite forallb_forall in A. specialize (A h Hh).
    rewrite forallb_forall in A. specialize (A s Hs). rewrite Ho, Hop in A. cbn in A.
    apply negb_true_iff in A. lia.
  - intros s Hs. rewrite forallb_forall in M. specialize (M s Hs).
    destruct (s_maps s) eqn:E; [|discriminate]. constructor; rewrite E; intros a p [].
Qed.
