(* C19x - the symbolic exploration of an upgrade is sound for every concrete file:
   1. boolean equalities reflect equality;
   2. a symbolic statement step that stays inside the modelled fragment is matched by the concrete step on
      every concretisation (rows of the source tables with the assumed width and distinctness);
   3. hence the transaction machine over symbolic contents simulates the one over concrete rows;
   4. hence a closed, classified set of symbolic contents bounds what any kill history can publish. *)
From Coq Require Import ZArith List Bool Lia Arith.
From IPV8V Require Import lib.PyErr lib.Bytes model.M19_sqltx gen.G19x_upgrade spec.S19x_legacy.
Import ListNotations.
Open Scope Z_scope.

(* ---------------------------------------------------------------- 1. reflections *)
Lemma zl_eqb_eq a b : zl_eqb a b = true -> a = b.
Proof.
  revert b; induction a as [|x a IH]; intros [|y b] H; cbn in H; try discriminate; [reflexivity|].
  apply andb_true_iff in H as [H1 H2]. apply Z.eqb_eq in H1. f_equal; auto.
Qed.

Lemma nl_eqb_eq a b : nl_eqb a b = true -> a = b.
Proof.
  revert b; induction a as [|x a IH]; intros [|y b] H; cbn in H; try discriminate; [reflexivity|].
  apply andb_true_iff in H as [H1 H2]. apply Nat.eqb_eq in H1. f_equal; auto.
Qed.

Lemma rows_eqb_eq a b : rows_eqb a b = true -> a = b.
Proof.
  revert b; induction a as [|x a IH]; intros [|y b] H; cbn in H; try discriminate; [reflexivity|].
  apply andb_true_iff in H as [H1 H2]. apply zl_eqb_eq in H1. f_equal; auto.
Qed.

Lemma content_eqb_eq a b : content_eqb a b = true -> a = b.
Proof.
  destruct a, b; cbn; intros H; try discriminate.
  - apply rows_eqb_eq in H. congruence.
  - apply andb_true_iff in H as [H1 H2]. apply Z.eqb_eq in H1. apply zl_eqb_eq in H2. congruence.
Qed.

Lemma tab_eqb_eq a b : tab_eqb a b = true -> a = b.
Proof.
  unfold tab_eqb. intros H. apply andb_true_iff in H as [H H4]. apply andb_true_iff in H as [H H3].
  apply andb_true_iff in H as [H1 H2]. apply Z.eqb_eq in H1. apply nl_eqb_eq in H2. apply Nat.eqb_eq in H3.
  apply content_eqb_eq in H4. destruct a, b; cbn in *; congruence.
Qed.

Lemma state_eqb_eq a b : state_eqb a b = true -> a = b.
Proof.
  revert b; induction a as [|x a IH]; intros [|y b] H; cbn in H; try discriminate; [reflexivity|].
  apply andb_true_iff in H as [H1 H2]. apply tab_eqb_eq in H1. f_equal; auto.
Qed.

Lemma mem_exact_In d l : mem_exact d l = true -> In d l.
Proof.
  unfold mem_exact. intros H. apply existsb_exists in H as [x [Hx E]]. apply state_eqb_eq in E. subst. exact Hx.
Qed.

Lemma in_nat_In i l : in_nat i l = true <-> In i l.
Proof.
  unfold in_nat. rewrite existsb_exists. split.
  - intros [x [Hx E]]. apply Nat.eqb_eq in E. subst. exact Hx.
  - intros H. exists i. split; [exact H|apply Nat.eqb_refl].
Qed.

(* ---------------------------------------------------------------- 2. concretisation *)
Section Conc.
Variable srcs : list source.
Variable env : Z -> list xrow.
Hypothesis WF : wf_env srcs env.

Definition conc_tab (x : xtab content) : xtab (list xrow) :=
  mkXT (xt_id x) (xt_pk x) (xt_ncols x) (conc_rows env (xt_rows x)).

Lemma conc_map d : conc env d = map conc_tab d.
Proof. reflexivity. Qed.

Lemma find_tab_conc d t : find_tab (conc env d) t = option_map conc_tab (find_tab d t).
Proof.
  unfold find_tab. induction d as [|x d IH]; cbn; [reflexivity|].
  destruct (xt_id x =? t); [reflexivity|exact IH].
Qed.

Lemma remove_tab_conc d t : remove_tab (conc env d) t = conc env (remove_tab d t).
Proof.
  unfold remove_tab. induction d as [|x d IH]; cbn; [reflexivity|].
  destruct (xt_id x =? t); cbn; [exact IH|]. f_equal. exact IH.
Qed.

Lemma replace_tab_conc d t n : replace_tab (conc env d) t (conc_tab n) = conc env (replace_tab d t n).
Proof.
  unfold replace_tab. induction d as [|x d IH]; cbn; [reflexivity|].
  f_equal; [|exact IH]. destruct (xt_id x =? t); reflexivity.
Qed.

Lemma conc_app d x : conc env (d ++ [x]) = conc env d ++ [conc_tab x].
Proof. unfold conc. rewrite map_app. reflexivity. Qed.

Lemma find_src_In s sc : find_src srcs s = Some sc -> In sc srcs /\ src_id sc = s.
Proof.
  unfold find_src. intros H. apply find_some in H as [H1 H2]. apply Z.eqb_eq in H2. auto.
Qed.

Lemma wf_src s sc : find_src srcs s = Some sc ->
  NoDup (map (xkey (src_pk sc)) (env s)) /\ Forall (fun r => length r = src_ncols sc) (env s).
Proof.
  intros H. apply find_src_In in H as [H1 H2]. unfold wf_env in WF. rewrite Forall_forall in WF.
  specialize (WF _ H1). rewrite H2 in WF. exact WF.
Qed.

(* keys *)
Lemma map_nth_eq (pk : list nat) (a b : xrow) :
  map (fun i => nth i a NULLV) pk = map (fun i => nth i b NULLV) pk ->
  forall i, In i pk -> nth i a NULLV = nth i b NULLV.
Proof.
  induction pk as [|j pk IH]; cbn; intros H i Hi; [contradiction|].
  inversion H. destruct Hi as [Hi|Hi]; [subst; assumption|auto].
Qed.

Lemma xkey_finer opk pk a b :
  (forall i, In i opk -> In i pk) -> xkey pk a = xkey pk b -> xkey opk a = xkey opk b.
Proof.
  intros S H. unfold xkey in *. apply map_ext_in. intros i Hi. apply (map_nth_eq pk a b H). auto.
Qed.

Lemma xkey_app opk (r ext : xrow) :
  (forall i, In i opk -> (i < length r)%nat) -> xkey opk (r ++ ext) = xkey opk r.
Proof.
  intros H. unfold xkey. apply map_ext_in. intros i Hi. apply app_nth1. auto.
Qed.

Lemma NoDup_map_finer {A B C} (f : A -> B) (g : A -> C) l :
  (forall a b, In a l -> In b l -> g a = g b -> f a = f b) -> NoDup (map f l) -> NoDup (map g l).
Proof.
  induction l as [|x l IH]; cbn; intros H N; [constructor|].
  inversion N as [|? ? Nx Nl]; subst. constructor.
  - intros Hin. apply in_map_iff in Hin as [y [Ey Hy]]. apply Nx.
    rewrite (H x y (or_introl eq_refl) (or_intror Hy) (eq_sym Ey)). apply in_map. exact Hy.
  - apply IH; [|exact Nl]. intros a b Ha Hb. apply H; right; assumption.
Qed.

Lemma has_xkey_false pk k acc : ~ In k (map (xkey pk) acc) -> has_xkey pk k acc = false.
Proof.
  intros H. unfold has_xkey. destruct (existsb _ acc) eqn:E; [|reflexivity].
  exfalso. apply existsb_exists in E as [r [Hr Er]]. apply bytes_eqb_eq in Er. apply H.
  rewrite <- Er. apply in_map. exact Hr.
Qed.

Lemma ins_all_nodup pk ig : forall l acc,
  NoDup (map (xkey pk) (acc ++ l)) -> ins_all pk ig l acc = Some (acc ++ l).
Proof.
  induction l as [|r l IH]; intros acc N; cbn [ins_all].
  - rewrite app_nil_r. reflexivity.
  - rewrite has_xkey_false.
    + replace (acc ++ r :: l) with ((acc ++ [r]) ++ l) by (rewrite <- app_assoc; reflexivity).
      apply IH. rewrite <- app_assoc. exact N.
    + rewrite map_app in N. cbn [map] in N. apply NoDup_remove_2 in N.
      intros Hin. apply N. apply in_or_app. left. exact Hin.
Qed.

Lemma sym_rows_nodup s sc ext pk :
  find_src srcs s = Some sc ->
  subset_nat (src_pk sc) pk = true -> forallb (fun i => (i <? src_ncols sc)%nat) (src_pk sc) = true ->
  NoDup (map (xkey pk) (map (fun r => r ++ ext) (env s))).
Proof.
  intros Hs Sub Lt. destruct (wf_src s sc Hs) as [N L]. rewrite map_map.
  eapply NoDup_map_finer; [|exact N].
  intros a b Ha Hb E. rewrite Forall_forall in L.
  assert (Hlt : forall r, In r (env s) -> forall i, In i (src_pk sc) -> (i < length r)%nat).
  { intros r Hr i Hi. rewrite (L r Hr). rewrite forallb_forall in Lt. apply Nat.ltb_lt. apply Lt. exact Hi. }
  rewrite <- (xkey_app (src_pk sc) a ext (Hlt a Ha)), <- (xkey_app (src_pk sc) b ext (Hlt b Hb)).
  eapply xkey_finer; [|exact E]. intros i Hi. unfold subset_nat in Sub. rewrite forallb_forall in Sub.
  apply in_nat_In. apply Sub. exact Hi.
Qed.

Lemma set_nth_app_r : forall (r ext : xrow) col v,
  (length r <= col)%nat -> set_nth col v (r ++ ext) = r ++ set_nth (col - length r) v ext.
Proof.
  induction r as [|x r IH]; intros ext col v H; cbn [length app].
  - rewrite Nat.sub_0_r. reflexivity.
  - destruct col as [|col]; [cbn in H; lia|]. cbn [set_nth]. cbn [length] in H.
    rewrite IH by lia. reflexivity.
Qed.

(* the step *)
Lemma apply_sound d q r d' :
  apply_s srcs d q = (r, d') -> r <> XUnknown -> apply_c (conc env d) q = (r, conc env d').
Proof.
  destruct q as [id pk n|a b|a|ig t row|t col v|ig dst src|t n|t col v|t col v wcol wv];
    cbn [apply_s apply_c]; rewrite ?find_tab_conc.
  - (* create *)
    destruct (find_tab d id); cbn [option_map]; intros E _; inversion E; subst; [reflexivity|].
    rewrite conc_app. reflexivity.
  - (* rename *)
    destruct (find_tab d a) as [ta|]; cbn [option_map]; [|intros E _; inversion E; reflexivity].
    destruct (find_tab d b); cbn [option_map]; intros E _; inversion E; subst; [reflexivity|].
    rewrite <- replace_tab_conc. reflexivity.
  - (* drop *)
    destruct (find_tab d a); cbn [option_map]; intros E _; inversion E; subst; [|reflexivity].
    rewrite remove_tab_conc. reflexivity.
  - (* insert *)
    destruct (find_tab d t) as [tb|]; cbn [option_map]; [|intros E _; inversion E; reflexivity].
    destruct (xt_rows tb) as [rows|s ext] eqn:Er; [|intros E U; inversion E; subst; congruence].
    cbn [conc_tab xt_ncols xt_pk xt_rows]. rewrite Er. cbn [conc_rows].
    destruct (negb (length row =? xt_ncols tb)%nat); [intros E _; inversion E; reflexivity|].
    destruct (has_xkey (xt_pk tb) (xkey (xt_pk tb) row) rows); intros E _; inversion E; subst; [reflexivity|].
    rewrite <- replace_tab_conc. reflexivity.
  - (* delete *)
    destruct (find_tab d t) as [tb|]; cbn [option_map]; [|intros E _; inversion E; reflexivity].
    destruct (xt_rows tb) as [rows|s ext] eqn:Er; [|intros E U; inversion E; subst; congruence].
    cbn [conc_tab xt_ncols xt_pk xt_rows]. rewrite Er. cbn [conc_rows].
    intros E _; inversion E; subst. rewrite <- replace_tab_conc. reflexivity.
  - (* insert .. select *)
    destruct (find_tab d dst) as [td|]; cbn [option_map]; [|intros E _; inversion E; reflexivity].
    destruct (find_tab d src) as [ts|]; cbn [option_map]; [|intros E _; inversion E; reflexivity].
    cbn [conc_tab xt_ncols xt_pk xt_rows].
    destruct (negb (xt_ncols td =? xt_ncols ts)%nat); [intros E _; inversion E; reflexivity|].
    destruct (xt_rows td) as [acc|s0 e0] eqn:Ed; [|intros E U; inversion E; subst; congruence].
    assert (Hrows : forall rows, xt_rows ts = CRows rows ->
              match ins_all (xt_pk td) ig rows acc with
              | Some r0 => (XOk, replace_tab d dst (set_rows td (CRows r0)))
              | None => (XErr, d)
              end = (r, d') -> r <> XUnknown ->
              match ins_all (xt_pk td) ig (conc_rows env (xt_rows ts)) acc with
              | Some rows0 => (XOk, replace_tab (conc env d) dst (set_rows (conc_tab td) rows0))
              | None => (XErr, conc env d)
              end = (r, conc env d')).
    { intros rows Es. rewrite Es. cbn [conc_rows].
      destruct (ins_all (xt_pk td) ig rows acc); intros E _; inversion E; subst; [|reflexivity].
      rewrite <- replace_tab_conc. unfold conc_tab, set_rows. cbn. reflexivity. }
    cbn [conc_rows].
    destruct acc as [|a0 acc]; destruct (xt_rows ts) as [rows|s ext] eqn:Es.
    + apply (Hrows rows eq_refl).
    + destruct (find_src srcs s) as [sc|] eqn:Hs; [|intros E U; inversion E; subst; congruence].
      destruct (subset_nat (src_pk sc) (xt_pk td) && forallb (fun i => (i <? src_ncols sc)%nat) (src_pk sc)) eqn:Hc;
        [|intros E U; inversion E; subst; congruence].
      apply andb_true_iff in Hc as [Hc1 Hc2].
      intros E _; inversion E; subst. cbn [conc_rows].
      rewrite (ins_all_nodup (xt_pk td) ig _ []); [|cbn [app]; eapply sym_rows_nodup; eauto].
      cbn [app]. rewrite <- replace_tab_conc. unfold conc_tab, set_rows. cbn. reflexivity.
    + apply (Hrows rows eq_refl).
    + intros E U; inversion E; subst; congruence.
  - (* add column *)
    destruct (find_tab d t) as [tb|]; cbn [option_map]; [|intros E _; inversion E; reflexivity].
    cbn [conc_tab xt_ncols xt_pk xt_rows].
    destruct (xt_ncols tb =? n)%nat; intros E _; inversion E; subst; [|reflexivity].
    rewrite <- replace_tab_conc. f_equal. f_equal. unfold conc_tab. cbn [xt_id xt_pk xt_ncols xt_rows]. f_equal.
    destruct (xt_rows tb) as [rows|s ext]; cbn [conc_rows]; [reflexivity|].
    rewrite map_map. apply map_ext. intros r. rewrite app_assoc. reflexivity.
  - (* update column *)
    destruct (find_tab d t) as [tb|]; cbn [option_map]; [|intros E _; inversion E; reflexivity].
    cbn [conc_tab xt_ncols xt_pk xt_rows].
    destruct (in_nat col (xt_pk tb) || negb (col <? xt_ncols tb)%nat); [intros E U; inversion E; subst; congruence|].
    destruct (xt_rows tb) as [rows|s ext] eqn:Er.
    + intros E _; inversion E; subst. rewrite <- replace_tab_conc. unfold conc_tab, set_rows. cbn. reflexivity.
    + destruct (find_src srcs s) as [sc|] eqn:Hs; [|intros E U; inversion E; subst; congruence].
      destruct ((src_ncols sc <=? col)%nat && (src_ncols sc + length ext =? xt_ncols tb)%nat) eqn:Hc;
        [|intros E U; inversion E; subst; congruence].
      apply andb_true_iff in Hc as [Hc1 _]. apply Nat.leb_le in Hc1.
      intros E _; inversion E; subst. rewrite <- replace_tab_conc. unfold conc_tab, set_rows.
      cbn [xt_id xt_pk xt_ncols xt_rows]. cbn [conc_rows]. f_equal. f_equal. f_equal.
      rewrite map_map. destruct (wf_src s sc Hs) as [_ L]. rewrite Forall_forall in L.
      apply map_ext_in. intros r Hr. rewrite set_nth_app_r; rewrite (L r Hr); [reflexivity|exact Hc1].
  - (* update where *)
    destruct (find_tab d t) as [tb|]; cbn [option_map]; [|intros E _; inversion E; reflexivity].
    cbn [conc_tab xt_ncols xt_pk xt_rows].
    destruct (in_nat col (xt_pk tb) || negb (col <? xt_ncols tb)%nat); [intros E U; inversion E; subst; congruence|].
    destruct (xt_rows tb) as [rows|s ext] eqn:Er; [|intros E U; inversion E; subst; congruence].
    intros E _; inversion E; subst. rewrite <- replace_tab_conc. unfold conc_tab, set_rows. cbn. reflexivity.
Qed.

Lemma version_sound d v : version_s d = Some v -> version_c (conc env d) = Some v.
Proof.
  unfold version_s, version_c. rewrite find_tab_conc. destruct (find_tab d X_OPTION) as [tb|]; cbn [option_map]; [|auto].
  destruct (xt_rows tb) as [rows|s ext] eqn:Er; [|discriminate]. cbn [conc_tab xt_rows]. rewrite Er. auto.
Qed.

End Conc.

(* ---------------------------------------------------------------- 3. simulation of the machine *)
Section Sim.
Context {D1 D2 : Type}.
Variable app1 : D1 -> xstmt -> xres * D1.
Variable app2 : D2 -> xstmt -> xres * D2.
Variable ver1 : D1 -> option Z.
Variable ver2 : D2 -> option Z.
Variable g : D1 -> D2.
Hypothesis Happ : forall d q r d', app1 d q = (r, d') -> r <> XUnknown -> app2 (g d) q = (r, g d').
Hypothesis Hver : forall d v, ver1 d = Some v -> ver2 (g d) = Some v.

Definition gc (c : conn (D:=D1)) : conn (D:=D2) := mkConn (g (c_dur c)) (g (c_view c)) (c_intx c).

Lemma sim_exec c s r c' :
  sqlite_exec app1 c s = (r, c') -> r <> XUnknown -> sqlite_exec app2 (gc c) s = (r, gc c').
Proof.
  destruct s as [| |q]; cbn [sqlite_exec gc c_intx c_dur c_view].
  - destruct (c_intx c); intros E _; inversion E; subst; reflexivity.
  - destruct (c_intx c); intros E _; inversion E; subst; reflexivity.
  - destruct (app1 (c_view c) q) as [r1 v] eqn:Ea. intros E U.
    assert (U1 : r1 <> XUnknown).
    { destruct r1; try discriminate. inversion E; subst. exact U. }
    rewrite (Happ _ _ _ _ Ea U1).
    destruct r1; [|inversion E; subst; reflexivity|congruence].
    destruct (c_intx c); inversion E; subst; reflexivity.
Qed.

Lemma sim_sqls : forall l c tr c' o,
  run_sqls app1 c l = (tr, c', o) -> o <> OUnknown -> run_sqls app2 (gc c) l = (map gc tr, gc c', o).
Proof.
  induction l as [|s l IH]; intros c tr c' o E U; cbn [run_sqls] in *.
  - inversion E; subst. reflexivity.
  - destruct (sqlite_exec app1 c s) as [r c1] eqn:Ex.
    destruct r.
    + rewrite (sim_exec _ _ _ _ Ex ltac:(discriminate)).
      destruct (run_sqls app1 c1 l) as [[tr2 c2] o2] eqn:E2. inversion E; subst.
      rewrite (IH _ _ _ _ E2 U). reflexivity.
    + rewrite (sim_exec _ _ _ _ Ex ltac:(discriminate)). inversion E; subst. reflexivity.
    + inversion E; subst. congruence.
Qed.

Lemma sim_prog : forall ops c tr c' o,
  run_prog app1 c ops = (tr, c', o) -> o <> OUnknown -> run_prog app2 (gc c) ops = (map gc tr, gc c', o).
Proof.
  induction ops as [|op ops IH]; intros c tr c' o E U; cbn [run_prog] in *.
  - inversion E; subst. reflexivity.
  - unfold run_pyop in *. destruct (run_sqls app1 c (expand (c_intx c) op)) as [[tr1 c1] o1] eqn:E1.
    cbn [gc c_intx].
    destruct o1.
    + rewrite (sim_sqls _ _ _ _ _ E1 ltac:(discriminate)).
      destruct (run_prog app1 c1 ops) as [[tr2 c2] o2] eqn:E2. inversion E; subst.
      rewrite (IH _ _ _ _ E2 U). rewrite map_app. reflexivity.
    + rewrite (sim_sqls _ _ _ _ _ E1 ltac:(discriminate)). inversion E; subst. reflexivity.
    + inversion E; subst. congruence.
Qed.

Variable cfg : ucfg.

Lemma sim_open c tr c' o :
  xopen app1 ver1 cfg c = (tr, c', o) -> o <> OUnknown -> xopen app2 ver2 cfg (gc c) = (map gc tr, gc c', o).
Proof.
  unfold xopen. cbn [gc c_view]. destruct (ver1 (c_view c)) as [v0|] eqn:Ev; [|intros E U; inversion E; subst; congruence].
  rewrite (Hver _ _ Ev).
  destruct (v0 =? 0); [apply sim_prog|].
  destruct ((v0 <? 1) || (u_latest cfg <? v0)); [intros E U; inversion E; subst; congruence|].
  apply sim_prog.
Qed.

Lemma sim_process c snaps cf o :
  xprocess app1 ver1 cfg c [] = (snaps, cf, o) -> o <> OUnknown ->
  xprocess app2 ver2 cfg (gc c) [] = (map gc snaps, gc cf, o).
Proof.
  unfold xprocess. destruct (xopen app1 ver1 cfg c) as [[tr0 c1] o1] eqn:Eo. intros E U.
  assert (U1 : o1 <> OUnknown) by (destruct o1; inversion E; subst; congruence).
  rewrite (sim_open _ _ _ _ Eo U1).
  destruct o1; cbn [run_calls] in *; inversion E; subst; cbn [map]; rewrite ?map_app; reflexivity.
Qed.

End Sim.

(* ---------------------------------------------------------------- 4. what any kill history can publish *)
Section Main.
Variable srcs : list source.
Variable cfg : ucfg.
Variable start : xstate content.
Variable targets : list (xstate content).
Variable final : xstate content.
Variable R : list (xstate content).          (* in props/C19x.v: `reach srcs cfg start`, computed *)
Hypothesis Closed : closed_check srcs cfg start R = true.
Hypothesis Class : class_check srcs cfg targets final R = true.
Variable env : Z -> list xrow.
Hypothesis WF : wf_env srcs env.

(* open-only histories: every process is killed at its k-th instant (beyond the end: it ran to its end) *)
Definition kills (ks : list nat) : list (list (nat * xrow) * nat) := map (fun k => ([], k)) ks.

Lemma closed_R :
  In start R /\
  forall d, In d R -> exists snaps df, sym_open srcs cfg d = Some (snaps, df) /\
                                       (forall x, In x snaps -> In x R) /\ In df R.
Proof.
  pose proof Closed as C. unfold closed_check in C. apply andb_true_iff in C as [C1 C2]. split; [apply mem_exact_In; exact C1|].
  intros d Hd. rewrite forallb_forall in C2. specialize (C2 d Hd).
  destruct (sym_open srcs cfg d) as [[snaps df]|]; [|discriminate].
  apply andb_true_iff in C2 as [A B]. exists snaps, df. split; [reflexivity|]. split; [|apply mem_exact_In; exact B].
  intros x Hx. rewrite forallb_forall in A. apply mem_exact_In. apply A. exact Hx.
Qed.

Lemma sym_open_conc d snaps df :
  sym_open srcs cfg d = Some (snaps, df) ->
  exists csnaps cf,
    xprocess apply_c version_c cfg (fresh_conn (conc env d)) [] = (csnaps, cf, ODone) /\
    map c_dur csnaps = map (conc env) snaps /\ cf = fresh_conn (conc env df).
Proof.
  unfold sym_open. destruct (xprocess (apply_s srcs) version_s cfg (fresh_conn d) []) as [[ss cf] o] eqn:E.
  destruct o; try discriminate. destruct (c_intx cf) eqn:Ei; [discriminate|]. intros H. inversion H; subst.
  pose proof (sim_process (apply_s srcs) apply_c version_s version_c (conc env)
                (apply_sound srcs env WF) (version_sound env) cfg _ _ _ _ E ltac:(discriminate)) as S.
  exists (map (gc (conc env)) ss), (gc (conc env) cf). split; [exact S|]. split.
  - rewrite !map_map. reflexivity.
  - (* after a completed open nothing is pending: view = published *)
    assert (V : c_view cf = c_dur cf).
    { clear - E Ei.
      assert (G : forall (c : conn (D:=xstate content)) s r c', sqlite_exec (apply_s srcs) c s = (r, c') ->
                  (c_intx c = false -> c_view c = c_dur c) -> (c_intx c' = false -> c_view c' = c_dur c')).
      { intros c s r c' Ex Hc. destruct s as [| |q]; cbn [sqlite_exec] in Ex.
        - destruct (c_intx c) eqn:I; inversion Ex; subst; cbn [c_intx c_view c_dur]; intros H; try congruence; auto.
        - destruct (c_intx c) eqn:I; inversion Ex; subst; cbn [c_intx c_view c_dur]; intros H; try congruence; auto.
        - destruct (apply_s srcs (c_view c) q) as [r1 v]. destruct r1; try (inversion Ex; subst; exact Hc).
          destruct (c_intx c) eqn:I; inversion Ex; subst; cbn [c_intx c_view c_dur]; intros H; try congruence; auto. }
      assert (G2 : forall l (c : conn (D:=xstate content)) tr c' o, run_sqls (apply_s srcs) c l = (tr, c', o) ->
                  (c_intx c = false -> c_view c = c_dur c) -> (c_intx c' = false -> c_view c' = c_dur c')).
      { induction l as [|s l IH]; intros c tr c' o Er Hc; cbn [run_sqls] in Er; [inversion Er; subst; exact Hc|].
        destruct (sqlite_exec (apply_s srcs) c s) as [r c1] eqn:Ex.
        destruct r; try (inversion Er; subst; exact Hc).
        destruct (run_sqls (apply_s srcs) c1 l) as [[tr2 c2] o2] eqn:E2. inversion Er; subst.
        eapply IH; [exact E2|]. eapply G; eauto. }
      assert (G3 : forall ops (c : conn (D:=xstate content)) tr c' o, run_prog (apply_s srcs) c ops = (tr, c', o) ->
                  (c_intx c = false -> c_view c = c_dur c) -> (c_intx c' = false -> c_view c' = c_dur c')).
      { induction ops as [|op ops IH]; intros c tr c' o Er Hc; cbn [run_prog] in Er; [inversion Er; subst; exact Hc|].
        unfold run_pyop in Er. destruct (run_sqls (apply_s srcs) c (expand (c_intx c) op)) as [[tr1 c1] o1] eqn:E1.
        pose proof (G2 _ _ _ _ _ E1 Hc) as H1.
        destruct o1; try (inversion Er; subst; exact H1).
        destruct (run_prog (apply_s srcs) c1 ops) as [[tr2 c2] o2] eqn:E2. inversion Er; subst.
        eapply IH; eauto. }
      unfold xprocess, xopen in E. cbn [fresh_conn c_view] in E.
      destruct (version_s d) as [v0|]; [|inversion E].
      destruct (v0 =? 0).
      { destruct (run_prog (apply_s srcs) (fresh_conn d) (u_fresh cfg)) as [[tr0 c1] o1] eqn:Ep.
        destruct o1; inversion E; subst.
        eapply G3; [exact Ep| |exact Ei]. intros _. reflexivity. }
      destruct ((v0 <? 1) || (u_latest cfg <? v0)); [inversion E|].
      destruct (run_prog (apply_s srcs) (fresh_conn d) (upgrades_from cfg v0 ++ u_tail cfg))
        as [[tr0 c1] o1] eqn:Ep.
      destruct o1; inversion E; subst.
      eapply G3; [exact Ep| |exact Ei]. intros _. reflexivity. }
    unfold gc, fresh_conn. rewrite V, Ei. reflexivity.
Qed.

(* the invariant of every kill history *)
Theorem history_in_reach : forall ks,
  exists d, In d R /\
    xhistory apply_c version_c cfg (fresh_conn (conc env start)) (kills ks) = fresh_conn (conc env d).
Proof.
  destruct closed_R as [Hs Hc].
  assert (G : forall ks d, In d R -> exists d', In d' R /\
               xhistory apply_c version_c cfg (fresh_conn (conc env d)) (kills ks) = fresh_conn (conc env d')).
  { induction ks as [|k ks IH]; intros d Hd; cbn [kills map xhistory].
    - exists d. auto.
    - destruct (Hc d Hd) as [snaps [df [Eo [Hsn Hdf]]]].
      destruct (sym_open_conc d snaps df Eo) as [csnaps [cf [Ep [Em Ef]]]].
      fold (kills ks). rewrite Ep.
      (* the published content at the k-th instant is the concretisation of a member of R *)
      assert (Hk : exists d1, In d1 R /\ crash (nth k csnaps cf) = fresh_conn (conc env d1)).
      { destruct (nth_in_or_default k csnaps cf) as [Hin|Hdflt].
        - assert (Hd1 : In (c_dur (nth k csnaps cf)) (map (conc env) snaps)).
          { rewrite <- Em. apply in_map. exact Hin. }
          apply in_map_iff in Hd1 as [d1 [E1 H1]]. exists d1. split; [apply Hsn; exact H1|].
          unfold crash, fresh_conn. rewrite <- E1. reflexivity.
        - rewrite Hdflt, Ef. exists df. split; [exact Hdf|]. reflexivity. }
      destruct Hk as [d1 [H1 E1]]. rewrite E1. apply IH. exact H1. }
  intros ks. apply G. exact Hs.
Qed.

Lemma class_R d : In d R ->
  (exists t, In t targets /\ same_state d t = true) /\
  exists snaps df, sym_open srcs cfg d = Some (snaps, df) /\ same_state df final = true.
Proof.
  intros Hd. pose proof Class as C. unfold class_check in C. rewrite forallb_forall in C. specialize (C d Hd).
  apply andb_true_iff in C as [A B]. split.
  - apply existsb_exists in A as [t [Ht E]]. eauto.
  - destruct (sym_open srcs cfg d) as [[snaps df]|]; [|discriminate]. eauto.
Qed.

(* same tables, whatever their order *)
Lemma sub_state_find a b : sub_state a b = true ->
  forall t x, find_tab a t = Some x -> find_tab b t = Some x.
Proof.
  intros S t x F. unfold find_tab in F. apply find_some in F as [Hin Hid]. apply Z.eqb_eq in Hid.
  unfold sub_state in S. rewrite forallb_forall in S. specialize (S x Hin). rewrite Hid in S.
  destruct (find_tab b t) as [y|]; [|discriminate]. apply tab_eqb_eq in S. congruence.
Qed.

Lemma same_state_find a b : same_state a b = true -> forall t, find_tab a t = find_tab b t.
Proof.
  unfold same_state. intros H t. apply andb_true_iff in H as [H1 H2].
  destruct (find_tab a t) as [x|] eqn:Fa.
  - symmetry. eapply sub_state_find; eauto.
  - destruct (find_tab b t) as [y|] eqn:Fb; [|reflexivity].
    rewrite (sub_state_find _ _ H2 _ _ Fb) in Fa. discriminate.
Qed.

(* the statement of props/C19x.v, for any configuration that passes the check *)
Theorem upgrade_kill_safe : forall ks,
  let c := xhistory apply_c version_c cfg (fresh_conn (conc env start)) (kills ks) in
  (* nothing pending, and table by table the published content is one of the targets *)
  c_intx c = false /\ c_view c = c_dur c /\
  (exists t, In t targets /\ forall id, find_tab (c_dur c) id = find_tab (conc env t) id) /\
  (* the next open succeeds and ends, table by table, in `final`, published *)
  exists tr cf, xopen apply_c version_c cfg c = (tr, cf, ODone) /\
                c_intx cf = false /\ forall id, find_tab (c_dur cf) id = find_tab (conc env final) id.
Proof.
  intros ks. destruct (history_in_reach ks) as [d [Hd E]]. cbn zeta. rewrite E.
  destruct (class_R d Hd) as [[t [Ht St]] [snaps [df [Eo Sf]]]].
  split; [reflexivity|]. split; [reflexivity|]. split.
  - exists t. split; [exact Ht|]. intros id. cbn [fresh_conn c_dur].
    rewrite !find_tab_conc, (same_state_find _ _ St). reflexivity.
  - destruct (sym_open_conc d snaps df Eo) as [csnaps [cf [Ep [_ Ef]]]].
    unfold xprocess in Ep. destruct (xopen apply_c version_c cfg (fresh_conn (conc env d))) as [[tr0 c1] o1] eqn:Ex.
    destruct o1; cbn [run_calls] in Ep; inversion Ep; subst.
    exists tr0, (fresh_conn (conc env df)). split; [congruence|]. split; [reflexivity|].
    intros id. cbn [fresh_conn c_dur]. rewrite !find_tab_conc, (same_state_find _ _ Sf). reflexivity.
Qed.

End Main.
