(* C14 - from the structural invariant to the statements of spec/S14_kademlia.v; uniqueness of the
   k-closest answer; refresh identifiers; the pinned-tree defects kept visible. *)
From Coq Require Import ZArith List Bool Arith Lia Permutation Sorted.
From IPV8V Require Import lib.PyErr model.M14_routing spec.S14_kademlia
  proofs.P14_bits proofs.P14_trie proofs.P14_bucket proofs.P14_table proofs.P14_closest proofs.P14_split.
Import ListNotations.
Open Scope Z_scope.

Lemma is_prefix_iff p l : is_prefix p l <-> starts_with p l = true.
Proof. unfold is_prefix. symmetry. apply starts_with_iff. Qed.

(* ------------------------------------------------------------------ tree_valid *)
Lemma valid_of_inv W cap me rt : inv W cap me rt -> valid_table W cap rt.
Proof.
  destruct rt as [o t]. intros [Eo H]. cbn in Eo, H. subst o. constructor; unfold bucket_at, table_nodes; cbn [tr own].
  - intros k1 b1 k2 b2 G1 G2 P. apply is_prefix_iff in P. eapply wf_prefix_free; eauto.
  - intros i L. destruct (wf_owner W cap me t i H L) as (k & b & E & G & S & U).
    exists k, b. split; [exact G|]. split; [apply is_prefix_iff; exact S|]. split; [exact E|].
    intros k' b' G' P'. apply is_prefix_iff in P'. eauto.
  - intros k b G. destruct (wf_bucket_at W cap me k [] t b H G) as (_ & (P & L & _) & _). auto.
  - intros k b n G Hn. destruct (wf_bucket_at W cap me k [] t b H G) as (_ & (_ & _ & _ & _ & F) & _).
    rewrite Forall_forall in F. destruct (F (nid n) (in_map nid _ _ Hn)) as [L S].
    split; [exact L|]. apply is_prefix_iff. exact S.
  - intros k b G. destruct (wf_bucket_at W cap me k [] t b H G) as (_ & (_ & _ & C & _) & _). exact C.
  - eapply wf_NoDup; eauto.
  - intros k b G. destruct (wf_bucket_at W cap me k [] t b H G) as (_ & _ & [->|(q & x & -> & S)]); [left; reflexivity|].
    right. exists q, x. split; [reflexivity|]. apply is_prefix_iff. exact S.
Qed.

Lemma run_app W cap ops1 : forall ops2 rt rt1,
  run W cap rt ops1 = Ok rt1 -> run W cap rt (ops1 ++ ops2) = run W cap rt1 ops2.
Proof.
  induction ops1 as [|o ops1 IH]; intros ops2 rt rt1 E; cbn [run app] in *.
  - injection E as ->. reflexivity.
  - destruct (step W cap rt o) as [rt'|]; cbn [bind] in *; [|discriminate]. eauto.
Qed.

Lemma reachable_inv W cap me rt : (0 < cap)%nat -> reachable W cap me rt -> inv W cap me rt.
Proof.
  intros Hc (ops & F & E).
  destruct (run_ok W cap me Hc ops (rt_init me) (inv_init W cap me) F) as (rt' & E' & I).
  congruence.
Qed.

Lemma tree_valid_l W cap me ops :
  (0 < cap)%nat -> Forall (op_ok W) ops ->
  exists rt, run W cap (rt_init me) ops = Ok rt /\ own rt = me /\ valid_table W cap rt.
Proof.
  intros Hc F. destruct (run_ok W cap me Hc ops (rt_init me) (inv_init W cap me) F) as (rt & E & I).
  exists rt. split; [exact E|]. split; [apply I | eapply valid_of_inv; eauto].
Qed.

Lemma own_path_l W cap me rt k b :
  (0 < cap)%nat -> reachable W cap me rt -> bucket_at rt k b ->
  k = [] \/ exists q x, k = q ++ [x] /\ is_prefix q me.
Proof.
  intros Hc R G. pose proof (reachable_inv _ _ _ _ Hc R) as I.
  destruct (vt_own_path _ _ _ (valid_of_inv _ _ _ _ I) k b G) as [->|(q & x & -> & P)]; [auto|].
  right. exists q, x. destruct I as [Eo _]. rewrite Eo in P. auto.
Qed.

(* a single step from any valid state: add never raises, never runs out of fuel *)
Lemma add_total_l W cap me rt n :
  (0 < cap)%nat -> reachable W cap me rt -> length (nid n) = W ->
  exists rt' r, rt_add W cap rt n = Ok (rt', r) /\ reachable W cap me rt'.
Proof.
  intros Hc R L. pose proof (reachable_inv _ _ _ _ Hc R) as [Eo H].
  destruct rt as [o t]. cbn in Eo, H. subst o.
  destruct (rt_add_ok W cap me Hc t n H L) as (t' & r & E & _).
  exists (mkRT me t'), r. split; [exact E|].
  destruct R as (ops & F & Er). exists (ops ++ [Add n]). split.
  - apply Forall_app. split; [exact F|]. constructor; [exact L|constructor].
  - rewrite (run_app _ _ _ _ _ _ Er). cbn [run step]. rewrite E. reflexivity.
Qed.

(* a split of any bucket of a reachable table keeps every node, in order *)
Lemma split_keeps_all_nodes_l W cap me rt k b b0 b1 :
  (0 < cap)%nat -> reachable W cap me rt -> bucket_at rt k b -> (length k < W)%nat ->
  bsplit cap b = Some (b0, b1) ->
  b0 = mkBucket (k ++ [false]) (filter (fun n => starts_with (k ++ [false]) (nid n)) (bnodes b)) /\
  b1 = mkBucket (k ++ [true]) (filter (fun n => negb (starts_with (k ++ [false]) (nid n))) (bnodes b)).
Proof.
  intros Hc R G L Sp. pose proof (reachable_inv _ _ _ _ Hc R) as [_ H].
  destruct (wf_bucket_at W cap me k [] (tr rt) b H G) as (_ & OK & _).
  exact (bsplit_partition W cap k b b0 b1 OK L Sp).
Qed.

(* ------------------------------------------------------------------ closest_exact *)
Lemma live_eligible excl n : live excl n = true <-> eligible excl n.
Proof.
  unfold live, eligible, is_bad. rewrite andb_true_iff, negb_true_iff, Z.leb_gt.
  destruct excl as [e|].
  - rewrite negb_true_iff, bits_eqb_neq. intuition lia.
  - intuition lia.
Qed.

Lemma k_closest_of W cap me t target excl kk res :
  wf W cap me [] t ->
  is_k_closest t target excl kk res -> k_closest (mkRT me t) target excl kk res.
Proof.
  intros Hwf (S & M & C & Nr). constructor; unfold table_nodes; cbn [tr].
  - exact S.
  - intros n Hn. apply M, filter_In in Hn as [H1 H2]. split; [exact H1 | apply live_eligible; exact H2].
  - intros elig Ne He. rewrite C. f_equal. apply Permutation_length. apply NoDup_Permutation.
    + apply NoDup_filter. eapply NoDup_of_map. eapply wf_NoDup; eauto.
    + exact Ne.
    + intros n. rewrite He, filter_In, live_eligible. reflexivity.
  - intros n m Hn Hm Em Hnm. apply Nr; auto. apply filter_In. split; [exact Hm | apply live_eligible; exact Em].
Qed.

Lemma closest_exact_l W cap me rt target kk excl :
  (0 < cap)%nat -> reachable W cap me rt -> length target = W ->
  exists res, closest rt target kk excl = Ok res /\ k_closest rt target excl kk res.
Proof.
  intros Hc R L. pose proof (reachable_inv _ _ _ _ Hc R) as [Eo H].
  destruct rt as [o t]. cbn in Eo, H. subst o.
  destruct (closest_ok W cap me t target kk excl H L) as (res & E & K).
  exists res. split; [exact E|]. eapply k_closest_of; eauto.
Qed.

(* the specification determines the answer *)
Definition node_eq_dec (a b : node) : {a = b} + {a <> b}.
Proof. decide equality; try apply Z.eq_dec; apply (list_eq_dec bool_dec). Defined.

Lemma incl_or_witness (l1 l2 : list node) : incl l1 l2 \/ exists n, In n l1 /\ ~ In n l2.
Proof.
  induction l1 as [|x l1 IH]; [left; intros n []|].
  destruct (in_dec node_eq_dec x l2) as [Hx|Hx]; [|right; exists x; split; [left; reflexivity | exact Hx]].
  destruct IH as [I|(n & Hn & Hn')]; [left | right; exists n; split; [right|]; auto].
  intros n [<-|Hn]; auto.
Qed.

Lemma ss_lt_NoDup target l : StronglySorted (dlt target) l -> NoDup l.
Proof.
  induction 1 as [|x l S IH F]; constructor; [|exact IH].
  intros Hx. rewrite Forall_forall in F. specialize (F x Hx). unfold dlt in F. lia.
Qed.

Lemma k_closest_incl rt target excl k r1 r2 :
  NoDup (map nid (table_nodes rt)) ->
  k_closest rt target excl k r1 -> k_closest rt target excl k r2 -> incl r2 r1.
Proof.
  intros N K1 K2.
  set (elig := filter (live excl) (table_nodes rt)).
  assert (Ne : NoDup elig) by (apply NoDup_filter; eapply NoDup_of_map; exact N).
  assert (He : forall n, In n elig <-> In n (table_nodes rt) /\ eligible excl n).
  { intros n. unfold elig. rewrite filter_In, live_eligible. reflexivity. }
  pose proof (kc_count _ _ _ _ _ K1 elig Ne He) as L1. pose proof (kc_count _ _ _ _ _ K2 elig Ne He) as L2.
  pose proof (ss_lt_NoDup _ _ (kc_sorted _ _ _ _ _ K1)) as N1.
  pose proof (ss_lt_NoDup _ _ (kc_sorted _ _ _ _ _ K2)) as N2.
  destruct (incl_or_witness r2 r1) as [I|(m & Hm & Hm')]; [exact I|exfalso].
  destruct (incl_or_witness r1 r2) as [I|(n & Hn & Hn')].
  - apply Hm'. assert (Le : (length r2 <= length r1)%nat) by lia.
    exact (@NoDup_length_incl _ r1 r2 N1 Le I m Hm).
  - destruct (kc_members _ _ _ _ _ K1 n Hn) as [Tn En]. destruct (kc_members _ _ _ _ _ K2 m Hm) as [Tm Em].
    pose proof (kc_nearest _ _ _ _ _ K1 n m Hn Tm Em Hm').
    pose proof (kc_nearest _ _ _ _ _ K2 m n Hm Tn En Hn'). lia.
Qed.

Lemma k_closest_unique_l rt target excl k r1 r2 :
  NoDup (map nid (table_nodes rt)) ->
  k_closest rt target excl k r1 -> k_closest rt target excl k r2 -> r1 = r2.
Proof.
  intros N K1 K2. apply (ss_lt_unique target).
  - exact (kc_sorted _ _ _ _ _ K1).
  - exact (kc_sorted _ _ _ _ _ K2).
  - intros n. split; intros Hn; [eapply (k_closest_incl rt target excl k r2 r1) | eapply (k_closest_incl rt target excl k r1 r2)]; eauto.
Qed.

(* functional reading: the first k of the eligible nodes sorted by distance *)
Lemma sorted_prefix_is_k_closest W cap me t target excl kk :
  wf W cap me [] t -> length target = W ->
  is_k_closest t target excl kk (firstn kk (sort_by_dist target (filter (live excl) (all_nodes t)))).
Proof.
  intros H L. destruct (find_bucket_wf W cap me t target H L) as (k & b & _ & Sk & Fk & _).
  apply (closest_from_walk W cap me t target excl kk H L k b Fk Sk 0%nat).
  - apply filter_ids_NoDup. eapply wf_NoDup; eauto.
  - intros n. symmetry. apply S_zero.
  - left. reflexivity.
Qed.

Lemma closest_functional_l W cap me rt target kk excl :
  (0 < cap)%nat -> reachable W cap me rt -> length target = W ->
  closest rt target kk excl = Ok (firstn kk (sort_by_dist target (filter (live excl) (table_nodes rt)))).
Proof.
  intros Hc R L. pose proof (reachable_inv _ _ _ _ Hc R) as [Eo H].
  destruct rt as [o t]. cbn in Eo, H. subst o.
  destruct (closest_ok W cap me t target kk excl H L) as (res & E & K). rewrite E. f_equal.
  apply (k_closest_unique_l (mkRT me t) target excl kk).
  - unfold table_nodes. cbn [tr]. eapply wf_NoDup; eauto.
  - eapply k_closest_of; eauto.
  - eapply k_closest_of; eauto. apply (sorted_prefix_is_k_closest W cap me); auto.
Qed.

(* ------------------------------------------------------------------ refresh identifiers *)
Lemma gen_id_owned_l W b r :
  (length (bprefix b) <= W)%nat -> owns b (gen_id W b r) = true /\ length (gen_id W b r) = W.
Proof.
  intros L. unfold owns, gen_id. split; [apply starts_with_app|].
  rewrite app_length, Z_to_bits_length. lia.
Qed.

(* the suffix really is the drawn number: different draws give different identifiers *)
Lemma gen_id_suffix_l W b r :
  0 <= r < 2 ^ Z.of_nat (W - length (bprefix b)) ->
  bval (skipn (length (bprefix b)) (gen_id W b r)) = r.
Proof.
  intros Hr. unfold gen_id. rewrite skipn_app, skipn_all, Nat.sub_diag. cbn [skipn app].
  apply bval_Z_to_bits. exact Hr.
Qed.

(* the pinned tree drew from [0, 2^(W-len)] and formatted the draw alone over W bits *)
Lemma gen_id_pinned_refuted_l :
  exists b r, (length (bprefix b) <= 160)%nat /\ 0 <= r <= 2 ^ (160 - Z.of_nat (length (bprefix b))) /\
              owns b (gen_id_pinned 160 b r) = false.
Proof.
  exists (mkBucket [true; false; true; true] []), 5. split; [cbn; lia|]. split; [cbn; lia|]. vm_compute. reflexivity.
Qed.

(* the pinned tree's __delitem__ raised KeyError when it removed the last key of the trie *)
Lemma tdel_pinned_refuted_l :
  exists (t : trie Z) k v, tget t k = Ok v /\ tdel_pinned t k = Raise KeyError.
Proof. exists (tset empty_root [false] 7), [false], 7. split; reflexivity. Qed.

(* ------------------------------------------------------------------ trie statements in their final form *)
Lemma trie_set_get_l (A : Type) (t : trie A) k v k' :
  tget (tset t k v) k' = if bits_eqb k' k then Ok v else tget t k'.
Proof.
  destruct (bits_eqb k' k) eqn:E.
  - apply bits_eqb_eq in E. subst. apply tget_tset_same.
  - apply bits_eqb_neq in E. apply tget_tset_other. exact E.
Qed.

Lemma trie_stays_pruned_l (A : Type) (t : trie A) k :
  compact t -> (forall v, compact (tset t k v)) /\ (forall t', tdel t k = Ok t' -> compact t').
Proof. intros C. split; [intros v; apply compact_tset; exact C | intros t'; apply compact_tdel; exact C]. Qed.

Lemma trie_suffixes_exact_l (A : Type) (t : trie A) p :
  NoDup (suffixes t p) /\ (forall s, In s (suffixes t p) <-> exists v, tget t (p ++ s) = Ok v) /\
  under t p = Ok (tvalues (tfind t p)).
Proof. split; [apply NoDup_suffixes|]. split; [intros s; apply in_suffixes | apply under_ok]. Qed.

(* ------------------------------------------------------------------ a concrete history (non-vacuity examples
   of props/C14.v): 4-bit identifiers, capacity 2, own id 0110 *)
Definition ex_id (z : Z) : bits := Z_to_bits 4 z.
Definition ex_node (z rtt failed : Z) : node := mkNode (ex_id z) z z rtt failed.
Definition ex_ops : list op :=
  [Add (ex_node 6 10 0); Add (ex_node 7 10 0); Add (ex_node 4 10 0); Add (ex_node 12 10 0);
   Add (ex_node 13 10 2); Add (ex_node 14 3 0); Touch (ex_id 7) 50 3; Add (ex_node 5 10 0);
   RemoveBad; Add (ex_node 7 1 0)].
Definition ex_table : list (bits * list Z) :=
  match run 4 2 (rt_init (ex_id 6)) ex_ops with
  | Ok rt => map (fun kb : bits * bucket => (fst kb, map ntag (bnodes (snd kb)))) (titems (tr rt))
  | Raise _ => []
  end.
Definition ex_closest (target k : Z) (excl : option Z) : list Z :=
  match run 4 2 (rt_init (ex_id 6)) ex_ops with
  | Ok rt => match closest rt (ex_id target) (Z.to_nat k) (option_map ex_id excl) with Ok l => map ntag l | Raise _ => [] end
  | Raise _ => []
  end.
