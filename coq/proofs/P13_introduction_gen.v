(* C13 (translated handlers) - the generated handlers compute exactly what the hand model computes.

   Method: the interpreter returns a decision tree (M13_intro_gen.T); for an arbitrary node state the tree of a
   handler is computed by `lazy` (the primitives of M13_nat stay folded, so the state is symbolic data), `run`
   then turns it into nested conditionals over the actual tests, which are case-split one by one - the same
   tests occur in the hand model's `handle`, so each leaf closes by reflexivity up to arithmetic. *)
From Coq Require Import ZArith List Bool String Lia ZifyBool.
From IPV8V Require Import lib.PyErr gen.G13_lan model.M13_nat model.M13_py gen.G13_introduction model.M13_intro_gen.
Import ListNotations.
Open Scope Z_scope.

Ltac norm :=
  lazy -[add_verified discover find has_addr pick_sel filter walkable is_new_style in_lan_subnets touch put_peer
         Z.eqb Z.ltb Z.leb Z.add Z.sub Z.modulo Z.of_nat Z.to_nat List.length map addr_eqb].

Ltac head_scrut t :=
  lazymatch t with
  | match ?x with _ => _ end => head_scrut x
  | negb ?x => head_scrut x
  | _ => t
  end.

Ltac fold_ground x :=
  let v := eval vm_compute in x in
  lazymatch v with
  | true => change x with true
  | false => change x with false
  end.

(* one case split on the first test the run of the tree is waiting for *)
Ltac split_head :=
  lazymatch goal with
  | |- ?L = _ =>
      lazymatch L with
      | Ok _ => fail "done"
      | Raise _ => fail "done"
      | _ => let x := head_scrut L in first [ fold_ground x | destruct x eqn:? ]
      end
  end.

(* at a leaf all tests are decided; what is left of stuck matches are projections of opaque results (records,
   pairs): destructing those loses nothing *)
Ltac leaf :=
  try reflexivity;
  try (exfalso; rewrite ?map_length in *; lia);
  rewrite ?Z.mod_mod by lia; rewrite ?Z.mod_small by lia;
  try reflexivity;
  repeat (match goal with |- context [match ?X with _ => _ end] => destruct X end; lazy beta iota zeta);
  try reflexivity;
  repeat match goal with
         | |- Ok _ = Ok _ => f_equal
         | |- (_, _) = (_, _) => f_equal
         | |- mkNode _ _ _ _ _ _ _ = mkNode _ _ _ _ _ _ _ => f_equal
         | |- set_gt _ _ = set_gt _ _ => f_equal
         end;
  try reflexivity; try lia.

Ltac crunch := norm; repeat (split_head; norm); leaf.

Definition node_ok (n : node) : Prop := Z.of_nat (List.length (n_peers n)) <= MAX_PEERS.
Definition msg_ok (m : msg) : Prop :=
  match m with
  | IntroReq _ _ _ _ _ _ i | IntroResp _ _ _ _ _ _ _ _ _ i | PunctReq _ _ _ i | Punct _ _ _ _ i => 0 <= i < 65536
  end.

Lemma refines_punct_req : forall n src new lanw wanw ident, 0 <= ident < 65536 ->
  handle_g n src (PunctReq new lanw wanw ident) = Ok (handle n src (PunctReq new lanw wanw ident)).
Proof.
  intros [k [lani lanp] [wani wanp] g sel ps ads] [si sp] new [li lp] [wi wp] ident Hi.
  destruct new; crunch.
Qed.

Lemma touch_spec n key src p known : touch n key src = (p, known) -> p_key p = key /\ p_v4 p = src.
Proof.
  unfold touch. destruct (find_peer key (n_peers n)) as [q|] eqn:F; intros H; inversion H; subst; cbn; [|tauto].
  split; [|reflexivity]. unfold find_peer in F. apply find_some in F. destruct F as [_ F]. lia.
Qed.

Ltac use_touch Et :=
  let Hk := fresh in let Hv := fresh in
  destruct (touch_spec _ _ _ _ _ Et) as [Hk Hv]; cbn [p_key p_v4] in Hk, Hv; inversion Hv; subst.

Lemma refines_punct : forall n src new key slan swan ident, 0 <= ident < 65536 ->
  handle_g n src (Punct new key slan swan ident) = Ok (handle n src (Punct new key slan swan ident)).
Proof.
  intros [k [lani lanp] [wani wanp] g sel ps ads] [si sp] new key [li lp] [wi wp] ident Hi.
  unfold handle_g, handle. cbn [payload_of sender_of].
  destruct (touch _ key (si, sp)) as [[pk [pvi pvp] pl pn] known] eqn:Et. use_touch Et.
  destruct new, known; crunch.
Qed.

Lemma refines_intro_resp : forall n src new key dest slan swan ilan iwan sup inew ident, 0 <= ident < 65536 ->
  handle_g n src (IntroResp new key dest slan swan ilan iwan sup inew ident)
  = Ok (handle n src (IntroResp new key dest slan swan ilan iwan sup inew ident)).
Proof.
  intros [k [lani lanp] [wani wanp] g sel ps ads] [si sp] new key [di dp] [li lp] [wi wp] [ili ilp] [iwi iwp]
         sup inew ident Hi.
  unfold handle_g, handle. cbn [payload_of sender_of].
  destruct (touch _ key (si, sp)) as [[pk [pvi pvp] pl pn] known] eqn:Et. use_touch Et.
  destruct new, sup, pn; crunch.
Qed.

Lemma refines_intro_req : forall n src new key dest slan swan sup ident, node_ok n -> 0 <= ident < 65536 ->
  handle_g n src (IntroReq new key dest slan swan sup ident)
  = Ok (handle n src (IntroReq new key dest slan swan sup ident)).
Proof.
  intros [k [lani lanp] [wani wanp] g sel ps ads] [si sp] new key [di dp] [li lp] [wi wp] sup ident Hn Hi.
  unfold node_ok, MAX_PEERS in Hn. cbn [n_peers] in Hn.
  unfold handle_g, handle. cbn [payload_of sender_of].
  destruct (touch _ key (si, sp)) as [[pk [pvi pvp] pl pn] known] eqn:Et. use_touch Et.
  destruct new, sup, pn; crunch.
Qed.

Lemma gen_refines_hand_model_l : forall n src m,
  node_ok n -> msg_ok m -> handle_g n src m = Ok (handle n src m).
Proof.
  intros n src m Hn Hm. destruct m; cbn [msg_ok] in Hm.
  - apply refines_intro_req; assumption.
  - apply refines_intro_resp; assumption.
  - apply refines_punct_req; assumption.
  - apply refines_punct; assumption.
Qed.

(* ------------------------------------------------------------------------------------------ emitting requests *)
Lemma refines_create_request : forall n dst new,
  create_introduction_request_g n dst new = Ok (make_request n dst new).
Proof.
  intros [k [lani lanp] [wani wanp] g sel ps ads] [di dp] new. destruct new; crunch.
Qed.

Lemma refines_walk_to : forall n dst,
  walk_to_g n dst = Ok (let '(n', m) := make_request n dst (is_new_style n dst) in (n', [(dst, m)])).
Proof.
  intros [k [lani lanp] [wani wanp] g sel ps ads] [di dp]. crunch.
Qed.

Lemma refines_send_introduction_request : forall n p,
  send_introduction_request_g n p
  = Ok (let '(n', m) := make_request n (p_v4 p) (p_new p) in (n', [(p_v4 p, m)])).
Proof.
  intros [k [lani lanp] [wani wanp] g sel ps ads] [pk [pvi pvp] pl pn]. destruct pn; crunch.
Qed.

Lemma flat_addrs l : flat_map (fun v => match as_addr v with Some a => [a] | None => [] end) (map (VAddr APlain) l) = l.
Proof. induction l as [|a tl IH]; cbn; [reflexivity | rewrite IH; reflexivity]. Qed.
Lemma flat_keys l : flat_map (fun v => match v with VPeer p => [p_key p] | _ => [] end) (map VPeer l) = map p_key l.
Proof. induction l as [|a tl IH]; cbn; [reflexivity | rewrite IH; reflexivity]. Qed.

Lemma refines_walkable : forall n, walkable_g n = Ok (walkable n).
Proof.
  intros [k [lani lanp] [wani wanp] g sel ps ads]. norm. rewrite flat_addrs. reflexivity.
Qed.
Lemma refines_get_peers : forall n, peers_g n = Ok (map p_key (n_peers n)).
Proof.
  intros [k [lani lanp] [wani wanp] g sel ps ads]. norm. rewrite flat_keys. reflexivity.
Qed.

(* ------------------------------------------------------------------------------------------ worlds *)
Lemma deliver_one_refines : forall w,
  match w_queue w with
  | [] => True
  | (hid, _, m) :: _ => msg_ok m /\ (forall n, find_node w hid = Some n -> node_ok n)
  end ->
  deliver_one_g w = deliver_one w.
Proof.
  intros w H. unfold deliver_one_g, deliver_one. destruct (w_queue w) as [|[[hid src] m] tl]; [reflexivity|].
  destruct H as [Hm Hn].
  match goal with |- context [find_node ?w1 hid] => change (find_node w1 hid) with (find_node w hid) end.
  destruct (find_node w hid) as [n|] eqn:F; [|reflexivity].
  rewrite (gen_refines_hand_model_l n src m (Hn n eq_refl) Hm). destruct (handle n src m). reflexivity.
Qed.

Lemma walk_refines : forall w h dst style,
  step_op_g w (OpWalk h dst style) = step_op w (OpWalk h dst style).
Proof.
  intros w h dst style. cbn [step_op_g step_op]. unfold walk1. destruct (find_node w h) as [n|]; [|reflexivity].
  destruct style as [b|].
  - rewrite refines_create_request. cbn [bind emit_g]. destruct (make_request n dst b). reflexivity.
  - rewrite refines_walk_to. destruct (make_request n dst (is_new_style n dst)). reflexivity.
Qed.

Lemma ask_refines : forall w h key, step_op_g w (OpAsk h key) = step_op w (OpAsk h key).
Proof.
  intros w h key. cbn [step_op_g step_op]. destruct (find_node w h) as [n|] eqn:F; [|reflexivity].
  destruct (find_peer key (n_peers n)) as [p|]; [|reflexivity].
  rewrite refines_send_introduction_request. unfold walk1. rewrite F.
  destruct (make_request n (p_v4 p) (p_new p)). reflexivity.
Qed.

Lemma walkall_refines : forall w h, step_op_g w (OpWalkAll h) = step_op w (OpWalkAll h).
Proof.
  intros w h. cbn [step_op_g step_op]. destruct (find_node w h) as [n|]; [|reflexivity].
  rewrite refines_walkable. generalize (walkable n). intros l. revert w.
  induction l as [|a tl IH]; intros w; cbn [fold_left]; [reflexivity|].
  rewrite <- IH. f_equal. unfold walk1. destruct (find_node w h) as [n'|]; [|reflexivity].
  rewrite refines_walk_to. destruct (make_request n' a (is_new_style n' a)). reflexivity.
Qed.
