(* C12 - blacklists are respected; the snapshot codec round-trips into a fresh graph. *)
From Coq Require Import ZArith List Bool Lia Arith.
From IPV8V Require Import lib.PyErr lib.Bytes lib.BE model.M12_network spec.S12_graph
  proofs.P12_base proofs.P12_inv proofs.P12_queries.
Import ListNotations.
Open Scope Z_scope.

(* ------------------------------------------------------------------ the blacklists never change *)
Definition blp (n : net) : list addr * list key := (bl_addr n, bl_mid n).

Lemma blp_verify n i : blp (verify n i) = blp n.
Proof. unfold verify. destruct (in_verified n (hkey (heap n) i)); reflexivity. Qed.

Lemma blp_add_verified_peer n i : blp (add_verified_peer n i) = blp n.
Proof.
  unfold add_verified_peer. destruct (blacklisted _ _ _); [reflexivity|].
  destruct (d_get _ _ _); [reflexivity|]. destruct (existsb _ _); rewrite blp_verify; reflexivity.
Qed.

Lemma blp_discover_address n i a s ns : blp (discover_address n i a s ns) = blp n.
Proof.
  unfold discover_address. destruct (mem_addr a (bl_addr n)); [apply blp_add_verified_peer|].
  destruct (negb _ || negb _); rewrite blp_add_verified_peer; reflexivity.
Qed.

Lemma blp_step n o : blp (fst (step n o)) = blp n.
Proof.
  destruct o; cbn [step]; try reflexivity.
  - unfold alloc. cbn [fst]. rewrite blp_add_verified_peer. reflexivity.
  - unfold alloc. cbn [fst]. rewrite blp_discover_address. reflexivity.
  - unfold get_verified_by_address. fold (ip_pick n a hint). destruct (ip_pick n a hint); reflexivity.
  - destruct s; reflexivity.
  - unfold get_introductions_from. destruct (d_get Z.eqb k (intro_cache n)); reflexivity.
  - unfold load_snapshot. destruct (load_loop _ _ _ _) as [[? ?] ?]. reflexivity.
Qed.

Lemma blp_run ops : forall n, blp (run n ops) = blp n.
Proof. induction ops as [|o ops IH]; intros n; simpl; [reflexivity|]. rewrite IH. apply blp_step. Qed.

Theorem blacklist_respected_l ipc intc svcc bla blm ops :
  let n := run (init_net ipc intc svcc bla blm) ops in
  forall p, In p (g_peers (abs n)) ->
    ~ In (p_key p) blm /\ forall a, In a (p_addrs p) -> ~ In a bla.
Proof.
  intros n p Hp. assert (H : Inv n) by apply Inv_reachable.
  assert (EB : blp n = (bla, blm)) by (unfold n; rewrite blp_run; reflexivity).
  assert (E1 : bl_addr n = bla) by (exact (f_equal fst EB)).
  assert (E2 : bl_mid n = blm) by (exact (f_equal snd EB)).
  unfold abs in Hp. cbn [g_peers] in Hp. apply in_map_iff in Hp as (i & E & Hi). subst p.
  pose proof (inv_bl n H i Hi) as B. unfold blacklisted in B. rewrite E1, E2 in B.
  apply orb_false_iff in B as [B1 B2]. unfold p_key, p_addrs. cbn [fst snd]. split.
  - apply mem_z_false. exact B1.
  - intros a Ha. apply mem_addr_false. exact (proj1 (existsb_false_iff _ _) B2 a Ha).
Qed.

(* ------------------------------------------------------------------ the address codec *)
Lemma firstn_len_app {A} (l x : list A) n : length l = n -> firstn n (l ++ x) = l.
Proof.
  intros E. subst n. induction l as [|y l IH]; simpl; [destruct x; reflexivity|]. rewrite IH. reflexivity.
Qed.

Lemma skipn_len_app {A} (l x : list A) n : length l = n -> skipn n (l ++ x) = x.
Proof. intros E. subst n. induction l as [|y l IH]; simpl; [reflexivity|]. exact IH. Qed.

Lemma pack_addr_length a : length (pack_addr a) = match a with A4 _ _ => 7%nat | A6 _ _ => 19%nat end.
Proof. destruct a; cbn [pack_addr length]; rewrite app_length, !be_encode_length; reflexivity. Qed.

Lemma unpack_pack a rest : addr_ok a ->
  unpack_addr (pack_addr a ++ rest) = Some (a, length (pack_addr a)).
Proof.
  intros Hok. rewrite pack_addr_length. destruct a as [ip port|ip port]; cbn [addr_ok] in Hok; destruct Hok as [Hi Hp].
  - cbn [pack_addr app]. rewrite <- app_assoc. cbn [unpack_addr].
    assert (L : (6 <=? length (be_encode 4 ip ++ be_encode 2 port ++ rest))%nat = true).
    { apply Nat.leb_le. rewrite !app_length, !be_encode_length. lia. }
    rewrite L. rewrite (firstn_len_app (be_encode 4 ip)) by apply be_encode_length.
    rewrite (skipn_len_app (be_encode 4 ip)) by apply be_encode_length.
    rewrite (firstn_len_app (be_encode 2 port)) by apply be_encode_length.
    rewrite !be_decode_encode by (cbn; lia). reflexivity.
  - cbn [pack_addr app]. rewrite <- app_assoc. cbn [unpack_addr].
    assert (L : (18 <=? length (be_encode 16 ip ++ be_encode 2 port ++ rest))%nat = true).
    { apply Nat.leb_le. rewrite !app_length, !be_encode_length. lia. }
    rewrite L. rewrite (firstn_len_app (be_encode 16 ip)) by apply be_encode_length.
    rewrite (skipn_len_app (be_encode 16 ip)) by apply be_encode_length.
    rewrite (firstn_len_app (be_encode 2 port)) by apply be_encode_length.
    rewrite !be_decode_encode by (cbn; lia). reflexivity.
Qed.

Lemma load_loop_step f d all c a used :
  d <> [] -> unpack_addr d = Some (a, used) ->
  load_loop (S f) d all c
  = load_loop f (skipn used d) (d_set addr_eqb a (mkWalk None None false) all) (forget_intro a c).
Proof. intros Hd Hu. destruct d as [|b d]; [contradiction|]. cbn [load_loop]. rewrite Hu. reflexivity. Qed.

Definition loaded (l : list addr) (all : list (addr * walk)) : list (addr * walk) :=
  fold_left (fun al a => d_set addr_eqb a (mkWalk None None false) al) l all.
Definition forgotten (l : list addr) (c : list (key * list addr)) : list (key * list addr) :=
  fold_left (fun c a => forget_intro a c) l c.

Lemma load_concat l : forall fuel all c,
  Forall addr_ok l -> (length l <= fuel)%nat ->
  load_loop fuel (concat (map pack_addr l)) all c = (loaded l all, forgotten l c, false).
Proof.
  induction l as [|a l IH]; intros fuel all c Hok Hf.
  - cbn. destruct fuel; reflexivity.
  - inversion Hok; subst. destruct fuel as [|f]; [simpl in Hf; lia|].
    cbn [map concat].
    rewrite (load_loop_step f _ all c a (length (pack_addr a))).
    + rewrite skipn_len_app by reflexivity. rewrite IH; [reflexivity|assumption|simpl in Hf; lia].
    + destruct a; cbn [pack_addr app]; discriminate.
    + apply unpack_pack. assumption.
Qed.

Lemma concat_pack_length l : (length l <= length (concat (map pack_addr l)))%nat.
Proof.
  induction l as [|a l IH]; simpl; [lia|]. rewrite app_length, pack_addr_length. destruct a; lia.
Qed.

Lemma keys_loaded l : forall all x, In x (map fst (loaded l all)) <-> In x l \/ In x (map fst all).
Proof.
  unfold loaded. induction l as [|a l IH]; intros all x; simpl.
  - split; [auto|]. intros [[]|H]. assumption.
  - rewrite IH. rewrite (keys_d_set addr_eqb aeq). split.
    + intros [H|[H|H]]; auto.
    + intros [[H|H]|H]; auto.
Qed.

(* the walkable addresses of a fresh Network after loading the snapshot made of `l` *)
Definition reload (ipc intc svcc : Z) (bla : list addr) (blm : list key) (l : list addr) : list addr :=
  snd (get_walkable_addresses
         (load_snapshot (init_net ipc intc svcc bla blm) (concat (map pack_addr l))) None false).

Lemma reload_exact ipc intc svcc bla blm l x :
  Forall addr_ok l -> In x (reload ipc intc svcc bla blm l) <-> In x l.
Proof.
  intros Hok. unfold reload, load_snapshot. cbn [all_addrs intro_cache init_net].
  rewrite (load_concat l _ [] [] Hok (concat_pack_length l)).
  unfold get_walkable_addresses. cbn [snd verified set_all set_intro_cache init_net all_addrs].
  unfold addrs_of. cbn [flat_map]. rewrite filter_In. cbn [mem_addr existsb negb].
  rewrite keys_loaded. cbn [map In].
  split; [intros [[H|[]] _]; assumption|intros H; split; [left; assumption|reflexivity]].
Qed.

(* load_snapshot always terminates by itself: the fuel (one unit per byte) never runs out *)
Lemma load_loop_total fuel : forall d all c, (length d <= fuel)%nat -> snd (load_loop fuel d all c) = false.
Proof.
  induction fuel as [|f IH]; intros d all c Hf; destruct d as [|b d]; cbn [load_loop snd]; try reflexivity.
  - simpl in Hf. lia.
  - destruct (unpack_addr (b :: d)) as [[a used]|] eqn:U; [|reflexivity].
    apply IH. rewrite skipn_length.
    assert (1 <= used)%nat.
    { unfold unpack_addr in U. destruct b as [|pb|pb]; try discriminate.
      destruct pb as [pb|pb|]; try discriminate.
      - destruct pb; try discriminate. destruct (18 <=? length d)%nat; inversion U. lia.
      - destruct (6 <=? length d)%nat; inversion U. lia. }
    cbn [length] in Hf |- *. lia.
Qed.

Theorem load_snapshot_total_l n d :
  snd (load_loop (length d) d (all_addrs n) (intro_cache n)) = false.
Proof. apply load_loop_total. lia. Qed.

(* ------------------------------------------------------------------ well-formed addresses in the heap *)
Definition heap_ok (h : list obj) : Prop := Forall (fun o => am_ok (snd o)) h.

Lemma heap_ok_get h i : heap_ok h -> am_ok (haddrs h i).
Proof.
  intros H. unfold haddrs, hget. destruct (nth_in_or_default i h null_obj) as [Hin|E].
  - exact (proj1 (Forall_forall _ _) H _ Hin).
  - rewrite E. cbn. split; exact I.
Qed.

Lemma am_ok_update m m' : am_ok m -> am_ok m' -> am_ok (am_update m m').
Proof.
  unfold am_ok, am_update. intros [H1 H2] [H3 H4]. cbn [am4 am6].
  split; [destruct (am4 m')|destruct (am6 m')]; assumption.
Qed.

Lemma heap_ok_hset h j o : heap_ok h -> am_ok (snd o) -> heap_ok (hset h j o).
Proof.
  unfold heap_ok. revert j. induction h as [|x h IH]; intros [|j] H Ho; simpl; try assumption.
  - inversion H; subst. constructor; assumption.
  - inversion H; subst. constructor; [assumption|]. apply IH; assumption.
Qed.

Lemma heap_ok_add_verified_peer n i : heap_ok (heap n) -> heap_ok (heap (add_verified_peer n i)).
Proof.
  intros H. unfold add_verified_peer. destruct (blacklisted _ _ _); [assumption|].
  destruct (d_get _ _ _) as [j|].
  - cbn [heap set_heap]. apply heap_ok_hset; [assumption|]. cbn [snd].
    apply am_ok_update; apply heap_ok_get; assumption.
  - destruct (existsb _ _); rewrite verify_heap; assumption.
Qed.

Lemma heap_ok_step n o : op_ok o -> heap_ok (heap n) -> heap_ok (heap (fst (step n o))).
Proof.
  intros Ho H. destruct o; cbn [step op_ok] in *; try assumption.
  - unfold alloc. cbn [fst]. apply heap_ok_add_verified_peer. cbn [heap set_heap].
    apply Forall_app. split; [assumption|]. constructor; [exact Ho|constructor].
  - unfold alloc. cbn [fst].
    assert (H1 : heap_ok (heap (set_heap n (heap n ++ [(k, am)])))).
    { cbn [heap set_heap]. apply Forall_app. split; [assumption|]. constructor; [exact Ho|constructor]. }
    unfold discover_address. destruct (mem_addr a _); [apply heap_ok_add_verified_peer; assumption|].
    destruct (negb _ || negb _); apply heap_ok_add_verified_peer; assumption.
  - unfold alloc. cbn [fst]. unfold discover_services. cbn [heap set_heap set_services set_svc_cache].
    apply Forall_app. split; [assumption|]. constructor; [exact Ho|constructor].
  - unfold get_verified_by_address. fold (ip_pick n a hint). destruct (ip_pick n a hint); assumption.
  - destruct s; assumption.
  - unfold get_introductions_from. destruct (d_get Z.eqb k (intro_cache n)); assumption.
  - unfold load_snapshot. destruct (load_loop _ _ _ _) as [[? ?] ?]. assumption.
Qed.

Lemma heap_ok_run ops : forall n, Forall op_ok ops -> heap_ok (heap n) -> heap_ok (heap (run n ops)).
Proof.
  induction ops as [|o ops IH]; intros n Ho H; simpl; [assumption|]. inversion Ho; subst.
  apply IH; [assumption|]. apply heap_ok_step; assumption.
Qed.

Lemma addr_ok_preferred m : am_ok m -> addr_ok (am_preferred m).
Proof.
  unfold am_ok, am_preferred. intros [H1 H2]. destruct (am6 m) as [[i p]|]; [assumption|].
  destruct (am4 m) as [[i p]|]; [assumption|]. cbn. lia.
Qed.

(* ------------------------------------------------------------------ the round trip *)
Theorem snapshot_roundtrip_l ipc intc svcc bla blm ops ipc' intc' svcc' bla' blm' :
  Forall op_ok ops ->
  let n := run (init_net ipc intc svcc bla blm) ops in
  snapshot n = concat (map pack_addr (snapshot_addrs n)) /\
  forall x, In x (reload ipc' intc' svcc' bla' blm' (snapshot_addrs n)) <-> In x (spec_snapshot_addrs (abs n)).
Proof.
  intros Ho n. split; [reflexivity|]. intros x.
  rewrite <- snapshot_addrs_agree. apply reload_exact.
  assert (HH : heap_ok (heap n)) by (apply heap_ok_run; [assumption|constructor]).
  unfold snapshot_addrs. apply Forall_forall. intros a Ha. apply filter_In in Ha as [Ha _].
  apply in_map_iff in Ha as (i & E & _). subst a. apply addr_ok_preferred. apply heap_ok_get. assumption.
Qed.

(* the records may come in any order (the implementation iterates a set) and with repetitions *)
Theorem snapshot_roundtrip_any_order_l ipc intc svcc bla blm ops ipc' intc' svcc' bla' blm' l :
  Forall op_ok ops ->
  let n := run (init_net ipc intc svcc bla blm) ops in
  (forall x, In x l <-> In x (snapshot_addrs n)) ->
  forall x, In x (reload ipc' intc' svcc' bla' blm' l) <-> In x (spec_snapshot_addrs (abs n)).
Proof.
  intros Ho n El x.
  destruct (snapshot_roundtrip_l ipc intc svcc bla blm ops ipc' intc' svcc' bla' blm' Ho) as [_ R].
  fold n in R. rewrite <- R.
  assert (Hok : Forall addr_ok (snapshot_addrs n)).
  { assert (HH : heap_ok (heap n)) by (apply heap_ok_run; [assumption|constructor]).
    unfold snapshot_addrs. apply Forall_forall. intros a Ha. apply filter_In in Ha as [Ha _].
    apply in_map_iff in Ha as (i & E & _). subst a. apply addr_ok_preferred. apply heap_ok_get. assumption. }
  assert (Hokl : Forall addr_ok l).
  { apply Forall_forall. intros a Ha. apply El in Ha. exact (proj1 (Forall_forall _ _) Hok a Ha). }
  rewrite !reload_exact by assumption. apply El.
Qed.
