(* C12 - blacklists are respected; load_snapshot is total; addresses in the heap stay packable. *)
From Coq Require Import ZArith List Bool Lia Arith.
From IPV8V Require Import lib.PyErr lib.Bytes lib.BE model.M02_wire model.M12_network spec.S12_graph
  proofs.P12_base proofs.P12_inv proofs.P12_queries.
Import ListNotations.
Open Scope Z_scope.

(* ------------------------------------------------------------------ the blacklists never change *)
Definition blp (n : net) : list addr * list key := (bl_addr n, bl_mid n).

Lemma blp_verify n i : blp (verify n i) = blp n.
Proof. unfold verify. destruct (in_verified n (hkey (heap n) i)); reflexivity. Qed.

Lemma blp_add_verified_peer n i : blp (add_verified_peer n i) = blp n.
Proof.
  unfold add_verified_peer. destruct (blacklisted _ _ _); [reflexivity|].
  destruct (d_get _ _ _); [reflexivity|]. destruct (existsb _ _); rewrite blp_verify; reflexivity.
Qed.

Lemma blp_discover_address n i a s ns : blp (discover_address n i a s ns) = blp n.
Proof.
  unfold discover_address. destruct (mem_addr a (bl_addr n)); [apply blp_add_verified_peer|].
  destruct (negb _ || negb _); rewrite blp_add_verified_peer; reflexivity.
Qed.

Lemma blp_step n o : blp (fst (step n o)) = blp n.
Proof.
  destruct o; cbn [step]; try reflexivity.
  - unfold alloc. cbn [fst]. rewrite blp_add_verified_peer. reflexivity.
  - unfold alloc. cbn [fst]. rewrite blp_discover_address. reflexivity.
  - unfold get_verified_by_address. fold (ip_pick n a hint). destruct (ip_pick n a hint); reflexivity.
  - destruct s; reflexivity.
  - unfold get_introductions_from. destruct (d_get Z.eqb k (intro_cache n)); reflexivity.
  - unfold load_snapshot. destruct (load_loop _ _ _ _ _) as [[? ?] ?]. reflexivity.
Qed.

Lemma blp_run ops : forall n, blp (run n ops) = blp n.
Proof. induction ops as [|o ops IH]; intros n; simpl; [reflexivity|]. rewrite IH. apply blp_step. Qed.

Theorem blacklist_respected_l ipc intc svcc bla blm ops :
  let n := run (init_net ipc intc svcc bla blm) ops in
  forall p, In p (g_peers (abs n)) ->
    ~ In (p_key p) blm /\ forall a, In a (p_addrs p) -> ~ In a bla.
Proof.
  intros n p Hp. assert (H : Inv n) by apply Inv_reachable.
  assert (EB : blp n = (bla, blm)) by (unfold n; rewrite blp_run; reflexivity).
  assert (E1 : bl_addr n = bla) by (exact (f_equal fst EB)).
  assert (E2 : bl_mid n = blm) by (exact (f_equal snd EB)).
  unfold abs in Hp. cbn [g_peers] in Hp. apply in_map_iff in Hp as (i & E & Hi). subst p.
  pose proof (inv_bl n H i Hi) as B. unfold blacklisted in B. rewrite E1, E2 in B.
  apply orb_false_iff in B as [B1 B2]. unfold p_key, p_addrs. cbn [fst snd]. split.
  - apply mem_z_false. exact B1.
  - intros a Ha. apply mem_addr_false. exact (proj1 (existsb_false_iff _ _) B2 a Ha).
Qed.

(* ------------------------------------------------------------------ load_snapshot is total *)
(* a successful unpack of an address record moves the offset forward *)
Lemma unpack_address_advances d off a o : unpack_address d off = Ok (a, o) -> (off < o)%nat.
Proof.
  unfold unpack_address. cbn [unpack]. unfold addr_unpack, bind.
  destruct (take 1 off d) as [t|]; [|discriminate].
  destruct (be_decode t =? 1).
  { destruct (take 6 (off + 1) d); [|discriminate]. intros H. inversion H. lia. }
  destruct (be_decode t =? 3).
  { destruct (take 18 (off + 1) d); [|discriminate]. intros H. inversion H. lia. }
  destruct (negb false && (be_decode t =? 2)); [|discriminate].
  destruct (take 2 (off + 1) d) as [l|]; [|discriminate].
  destruct (negb (utf8_valid (firstn (Z.to_nat (be_decode l)) (skipn (off + 3) d)))); [discriminate|].
  destruct (take 2 (off + 3 + Z.to_nat (be_decode l)) d); [|discriminate].
  intros H. inversion H. lia.
Qed.

(* load_snapshot always terminates by itself: the fuel (one unit per byte) never runs out *)
Lemma load_loop_total fuel : forall d off all c,
  (length d - off <= fuel)%nat -> snd (load_loop fuel d off all c) = false.
Proof.
  induction fuel as [|f IH]; intros d off all c Hf; cbn [load_loop];
    destruct (off <? length d)%nat eqn:L; cbn [snd]; try reflexivity.
  - apply Nat.ltb_lt in L. lia.
  - destruct (unpack_address d off) as [[a o]|e] eqn:U; [|reflexivity].
    apply IH. apply unpack_address_advances in U. apply Nat.ltb_lt in L. lia.
Qed.

Theorem load_snapshot_total_l n d :
  snd (load_loop (length d) d 0 (all_addrs n) (intro_cache n)) = false.
Proof. apply load_loop_total. lia. Qed.

(* ------------------------------------------------------------------ packable addresses in the heap *)
Definition heap_ok (h : list obj) : Prop := Forall (fun o => am_ok (snd o)) h.

Lemma heap_ok_get h i : heap_ok h -> am_ok (haddrs h i).
Proof.
  intros H. unfold haddrs, hget. destruct (nth_in_or_default i h null_obj) as [Hin|E].
  - exact (proj1 (Forall_forall _ _) H _ Hin).
  - rewrite E. cbn. repeat split.
Qed.

Lemma am_ok_update m m' : am_ok m -> am_ok m' -> am_ok (am_update m m').
Proof.
  unfold am_ok, am_update, opt_or. intros (H1 & H2 & H3) (H4 & H5 & H6). cbn [am4 am6 amd].
  repeat split; [destruct (am4 m')|destruct (am6 m')|destruct (amd m')]; assumption.
Qed.

Lemma heap_ok_hset h j o : heap_ok h -> am_ok (snd o) -> heap_ok (hset h j o).
Proof.
  unfold heap_ok. revert j. induction h as [|x h IH]; intros [|j] H Ho; simpl; try assumption.
  - inversion H; subst. constructor; assumption.
  - inversion H; subst. constructor; [assumption|]. apply IH; assumption.
Qed.

Lemma heap_ok_add_verified_peer n i : heap_ok (heap n) -> heap_ok (heap (add_verified_peer n i)).
Proof.
  intros H. unfold add_verified_peer. destruct (blacklisted _ _ _); [assumption|].
  destruct (d_get _ _ _) as [j|].
  - cbn [heap set_heap]. apply heap_ok_hset; [assumption|]. cbn [snd].
    apply am_ok_update; apply heap_ok_get; assumption.
  - destruct (existsb _ _); rewrite verify_heap; assumption.
Qed.

Lemma heap_ok_step n o : op_ok o -> heap_ok (heap n) -> heap_ok (heap (fst (step n o))).
Proof.
  intros Ho H. destruct o; cbn [step op_ok] in *; try assumption.
  - unfold alloc. cbn [fst]. apply heap_ok_add_verified_peer. cbn [heap set_heap].
    apply Forall_app. split; [assumption|]. constructor; [exact Ho|constructor].
  - unfold alloc. cbn [fst].
    assert (H1 : heap_ok (heap (set_heap n (heap n ++ [(k, am)])))).
    { cbn [heap set_heap]. apply Forall_app. split; [assumption|]. constructor; [exact Ho|constructor]. }
    unfold discover_address. destruct (mem_addr a _); [apply heap_ok_add_verified_peer; assumption|].
    destruct (negb _ || negb _); apply heap_ok_add_verified_peer; assumption.
  - unfold alloc. cbn [fst]. unfold discover_services. cbn [heap set_heap set_services set_svc_cache].
    apply Forall_app. split; [assumption|]. constructor; [exact Ho|constructor].
  - unfold get_verified_by_address. fold (ip_pick n a hint). destruct (ip_pick n a hint); assumption.
  - destruct s; assumption.
  - unfold get_introductions_from. destruct (d_get Z.eqb k (intro_cache n)); assumption.
  - unfold load_snapshot. destruct (load_loop _ _ _ _ _) as [[? ?] ?]. assumption.
Qed.

Lemma heap_ok_run ops : forall n, Forall op_ok ops -> heap_ok (heap n) -> heap_ok (heap (run n ops)).
Proof.
  induction ops as [|o ops IH]; intros n Ho H; simpl; [assumption|]. inversion Ho; subst.
  apply IH; [assumption|]. apply heap_ok_step; assumption.
Qed.

Lemma packable_preferred m : am_ok m -> packable (am_preferred m).
Proof.
  unfold am_ok, am_preferred, opt_packable. intros (H1 & H2 & H3).
  destruct (am6 m); [assumption|]. destruct (am4 m); [assumption|]. destruct (amd m); [assumption|].
  reflexivity.
Qed.

(* every address a snapshot of a reachable graph holds can be packed *)
Lemma snapshot_addrs_packable ipc intc svcc bla blm ops :
  Forall op_ok ops -> Forall packable (snapshot_addrs (run (init_net ipc intc svcc bla blm) ops)).
Proof.
  intros Ho. set (n := run (init_net ipc intc svcc bla blm) ops).
  assert (HH : heap_ok (heap n)) by (apply heap_ok_run; [assumption|constructor]).
  unfold snapshot_addrs. apply Forall_forall. intros a Ha. apply filter_In in Ha as [Ha _].
  apply in_map_iff in Ha as (i & E & _). subst a. apply packable_preferred. apply heap_ok_get. assumption.
Qed.
