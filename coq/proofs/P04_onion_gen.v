From Coq Require Import ZArith List Bool Lia.
From IPV8V Require Import lib.PyErr lib.Bytes lib.BE model.M02_wire model.M03_recv model.M04_onion model.M05_isolation model.M04_gen_rt gen.G04_onion model.M04_harness model.M04_onion_gen spec.S04_onion_spec
  proofs.P04_base proofs.P04_props proofs.P04_ping.
Import ListNotations.
Open Scope Z_scope.

Section P.
Variables key nonce secret : Type.
Variable O : oracles key nonce secret.
Notation enc := (o_enc O).

Local Arguments encrypt_cell : simpl never.
Local Arguments circuit_hop : simpl never.
Local Arguments cell_to_bin : simpl never.
Local Arguments g_PythonCryptoEndpoint_outgoing_crypto : simpl never.
Local Arguments outgoing_crypto : simpl never.

Ltac gunf := repeat progress unfold bindG, retG, liftG, getG, modG, emitG, tryG, raiseG, cellG, cell_updG, andG, orG, tab_get, tab_item, circuits, relays, exits, encrypt_cellG, deref.
Ltac gcbn := cbn [g_c g_cell g_ns g_out fst snd is_some nonempty negb andb orb existsb exn_eqb].
Ltac inner_case :=
  match goal with
  | |- context [match ?x with _ => _ end] =>
      lazymatch x with
      | context [match _ with _ => _ end] => fail
      | _ => destruct x eqn:?
      end
  end.

Lemma encrypt_cell_plain c d hops ns c' : encrypt_cell enc c d hops ns = Ok c' -> cl_plain c' = cl_plain c.
Proof.
  unfold encrypt_cell. destruct (cl_plain c) eqn:E; [intros H; inversion H; subst; exact E|].
  destruct (encrypt_hops enc d (rev hops) ns (cl_msg c)); cbn; intros H; inversion H; subst. exact E.
Qed.

Local Arguments assoc : simpl never.
Local Arguments upd : simpl never.
Local Arguments del : simpl never.
Lemma g_outgoing_crypto_run s :
  match outgoing_crypto enc (cn_tab (g_c s)) (g_cell s) (g_ns s) with
  | Ok (Some c') => exists ns', g_PythonCryptoEndpoint_outgoing_crypto O tt s = (mkG (g_c s) ns' c' (g_out s), Ok (Some tt))
  | Ok None => exists ns' c', g_PythonCryptoEndpoint_outgoing_crypto O tt s = (mkG (g_c s) ns' c' (g_out s), Ok None)
  | Raise e => exists s', g_PythonCryptoEndpoint_outgoing_crypto O tt s = (s', Raise e)
  end.
Proof.
  destruct s as [c ns cl out].
  unfold g_PythonCryptoEndpoint_outgoing_crypto, outgoing_crypto. gunf. cbn.
  destruct (assoc (cl_cid cl) (n_circuits (cn_tab c))) as [ci|] eqn:Eci; cbn.
  - destruct (c_hs ci) as [hk|] eqn:Ehs; cbn.
    + destruct (circuit_hop ci) as [h0|e] eqn:Eh; cbn.
      * destruct (encrypt_cell enc cl _ _ ns) as [c1|e1] eqn:E1; cbn.
        -- rewrite (encrypt_cell_plain _ _ _ _ _ E1).
           replace (shiftn 1 ns) with (shift ns) by reflexivity.
           destruct (encrypt_cell enc c1 FORWARD (c_hops ci) _) as [c2|e2] eqn:E2; cbn.
           ++ eauto.
           ++ destruct e2; cbn; eauto.
        -- destruct e1; cbn; eauto.
      * destruct e; cbn; eauto.
    + destruct (encrypt_cell enc cl FORWARD (c_hops ci) ns) as [c2|e2] eqn:E2; cbn.
      * eauto.
      * destruct e2; cbn; eauto.
  - destruct (assoc (cl_cid cl) (n_exits (cn_tab c))) as [es|] eqn:Ees; cbn.
    + destruct (encrypt_cell enc cl BACKWARD [es_hop es] ns) as [c2|e2] eqn:E2; cbn.
      * eauto.
      * destruct e2; cbn; eauto.
    + destruct (assoc (cl_cid cl) (n_relays (cn_tab c))) as [r|] eqn:Er; cbn.
      * destruct (rr_rdv r); cbn.
        -- destruct (encrypt_cell enc cl BACKWARD [rr_hop r] ns) as [c2|e2] eqn:E2; cbn.
           ++ eauto.
           ++ destruct e2; cbn; eauto.
        -- destruct (assoc (rr_cid r) (n_relays (cn_tab c))) as [r2|] eqn:Er2; cbn.
           ++ destruct (encrypt_cell enc cl (rr_dir r2) [rr_hop r2] ns) as [c2|e2] eqn:E2; cbn.
              ** eauto.
              ** destruct e2; cbn; eauto.
           ++ eauto.
      * eauto.
Qed.

Lemma upd_same {A} k (v : A) l : assoc k l = Some v -> upd k v l = l.
Proof.
  induction l as [|[k' v'] tl IH]; unfold assoc, upd; fold (@assoc A); fold (@upd A); [discriminate|].
  destruct (k =? k') eqn:E; intros H.
  - inversion H; subst. apply Z.eqb_eq in E. subst. reflexivity.
  - rewrite IH by exact H. reflexivity.
Qed.
Lemma set_tab_id (c : cnode key) : set_tab c (cn_tab c) = c.
Proof. destruct c; reflexivity. Qed.
Lemma set_circuits_id (t : node key) : set_circuits t (n_circuits t) = t.
Proof. destruct t; reflexivity. Qed.

Ltac use_outgoing :=
  match goal with
  | |- context [g_PythonCryptoEndpoint_outgoing_crypto O tt ?S] =>
      let H := fresh "H" in pose proof (g_outgoing_crypto_run S) as H; cbn [g_c g_cell g_ns g_out cn_tab set_tab] in H
  end.

Ltac fin_send :=
  use_outgoing; unfold put_circuit, circ_set_early, set_early in *; cbn in *;
  match goal with
  | H : match outgoing_crypto enc ?t ?c ?n with _ => _ end |- _ =>
      destruct (outgoing_crypto enc t c n) as [[c2|]|e] eqn:Eo; cbn;
      [destruct H as (ns' & H) | destruct H as (ns' & c' & H) | destruct H as (s' & H)];
      rewrite H; cbn; rewrite ?app_nil_r, ?set_tab_id; try (destruct (assoc _ (n_relays _)); cbn); eauto
  end.

Lemma g_ep_send_cell_run target s :
  match ep_send_cell enc (cn_tab (g_c s)) target (g_cell s) (g_ns s) with
  | Ok (t, acts) => exists ns' c', g_PythonCryptoEndpoint_send_cell O target tt s
                                   = (mkG (set_tab (g_c s) t) ns' c' (g_out s ++ map CData acts), Ok tt)
  | Raise e => exists s', g_PythonCryptoEndpoint_send_cell O target tt s = (s', Raise e)
  end.
Proof.
  destruct s as [c ns cl out].
  unfold g_PythonCryptoEndpoint_send_cell, ep_send_cell. gunf. cbn.
  destruct (assoc (cl_cid cl) (n_circuits (cn_tab c))) as [ci|] eqn:Eci; cbn.
  - destruct (idx (cl_msg cl) 0) as [m0|e] eqn:Em; cbn; [|eauto].
    destruct ((m0 =? 4) || (c_early ci <? n_max_early (cn_tab c))) eqn:E4.
    + assert (Hc : cl_early (set_early ((m0 =? 4) || (c_early ci <? n_max_early (cn_tab c))) cl) = true) by (cbn; exact E4).
      destruct (m0 =? 4); cbn in *; try rewrite E4; cbn; fin_send.
    + destruct (m0 =? 4); cbn in *; [discriminate|]. rewrite E4. cbn. rewrite (upd_same _ _ _ Eci), set_circuits_id.
      fin_send.
  - fin_send.
Qed.

Lemma slice_skipn (l : bytes) k : 0 <= k -> slice l (Some k) None = skipn (Z.to_nat k) l.
Proof.
  intros Hk. unfold slice, clamp, blen. cbv zeta. assert (E : (k <? 0) = false) by lia. repeat (rewrite E; cbv beta iota).
  destruct (Z.of_nat (length l) <? k) eqn:E2.
  - replace (Z.of_nat (length l) - Z.of_nat (length l)) with 0 by lia. cbn.
    symmetry. apply skipn_all2. lia.
  - apply firstn_all2. rewrite skipn_length. lia.
Qed.

Local Arguments g_PythonCryptoEndpoint_send_cell : simpl never.
Local Arguments ep_send_cell : simpl never.
Local Arguments pack_msg : simpl never.
Local Arguments slice : simpl never.

Definition sim {A} (m : GM key nonce A) (s : gst key nonce) (h : res (node key * list action)) : Prop :=
  match h with
  | Ok (t, acts) => exists ns' c' a, m s = (mkG (set_tab (g_c s) t) ns' c' (g_out s ++ map CData acts), Ok a)
  | Raise e => exists s', m s = (s', Raise e)
  end.

Lemma g_send_cell_run target mid m cid vals s :
  sim (g_TunnelCommunity_send_cell O target (mkP mid m (VInt cid :: vals))) s
      (send_cell enc (cn_tab (g_c s)) target cid mid m vals (g_ns s)).
Proof.
  destruct s as [c ns cl out].
  unfold sim, g_TunnelCommunity_send_cell, send_cell. gunf. cbn.
  destruct (pack_msg no_keys m (VInt cid :: vals)) as [packed|e] eqn:Ep; cbn; [|eauto].
  unfold pack_u8. destruct ((mid <? 0) || (255 <? mid)); cbn; [eauto|].
  rewrite slice_skipn by lia. change (Z.to_nat 4) with 4%nat.
  match goal with |- context [g_PythonCryptoEndpoint_send_cell O target tt ?S] =>
    pose proof (g_ep_send_cell_run target S) as H; cbn [g_c g_cell g_ns g_out] in H end.
  unfold set_plain in *. cbn in H. rewrite orb_false_r in H. unfold NO_CRYPTO.
  destruct (ep_send_cell enc (cn_tab c) target _ ns) as [[t acts]|e]; cbn.
  - destruct H as (ns' & c' & H). rewrite orb_false_r. rewrite H. eauto.
  - destruct H as (s' & H). rewrite orb_false_r. rewrite H. eauto.
Qed.

Local Arguments g_TunnelCommunity_send_cell : simpl never.
Local Arguments send_cell : simpl never.

Lemma g_send_data_run target cid dest org data s :
  sim (g_TunnelCommunity_send_data O target cid dest org data) s
      (send_data enc (cn_tab (g_c s)) target cid dest org data (g_ns s)).
Proof. apply g_send_cell_run. Qed.

Lemma g_tunnel_data_run k es source data s :
  sim (g_TunnelExitSocket_tunnel_data O (k, es) source data) s
      (tunnel_data enc (cn_tab (g_c s)) es source data (g_ns s)).
Proof.
  unfold g_TunnelExitSocket_tunnel_data, tunnel_data. cbn [snd].
  pose proof (g_send_data_run (h_addr (es_hop es)) (es_cid es) null_addr source data s) as H.
  unfold sim in *. gunf.
  destruct (send_data enc (cn_tab (g_c s)) (h_addr (es_hop es)) (es_cid es) null_addr source data (g_ns s)) as [[t acts]|e].
  - destruct H as (ns' & c' & a & H). rewrite H. eauto.
  - destruct H as (s' & H). rewrite H. eauto.
Qed.


Ltac norm := unfold has; cbn; repeat (match goal with H : ?x = _ |- context [?x] => rewrite H end; unfold has; cbn).

Lemma g_exit_data_run cid sock dest data s :
  sim (g_TunnelCommunity_exit_data O cid sock dest data) s (Ok (exit_data (cn_tab (g_c s)) cid sock dest data)).
Proof.
  destruct s as [c ns cl out].
  unfold sim, g_TunnelCommunity_exit_data, exit_data. gunf. cbn. rewrite has_assoc.
  destruct (assoc cid (n_exits (cn_tab c))) as [es|] eqn:Ee; norm.
  - destruct (es_enabled es) eqn:En; norm.
    + rewrite set_tab_id. eauto.
    + destruct (ip_eqb sock (h_addr (es_hop es))) eqn:Ei; norm.
      * rewrite assoc_upd_same. cbn. unfold put_exit, set_enabled, es_set_enabled. eauto.
      * rewrite set_tab_id, app_nil_r. eauto.
  - rewrite set_tab_id, app_nil_r. eauto.
Qed.

Local Arguments g_TunnelCommunity_exit_data : simpl never.
Local Arguments exit_data : simpl never.
Local Arguments unpack_msg : simpl never.
Local Arguments could_be_ipv8 : simpl never.
Local Arguments fmt_ping : simpl never.
Local Arguments fmt_data : simpl never.
Local Arguments fmt_test_request : simpl never.
Local Arguments fmt_test_response : simpl never.
Local Arguments is_null : simpl never.
Local Arguments addr_eqb : simpl never.
Local Arguments idx : simpl never.
Local Arguments bytes_eqb : simpl never.

(* a decoded value list either has the shape of the payload class or both sides raise TypeError *)
Ltac shape vs :=
  repeat (let v := fresh "v" in destruct vs as [|v vs]; cbn; [eauto|]; destruct v; cbn; try solve [eauto]);
  try (destruct vs; cbn; [|solve [eauto]]).

Ltac fin := cbn; rewrite ?set_tab_id, ?app_nil_r; eauto.
Ltac use_exit_data :=
  match goal with
  | |- context [g_TunnelCommunity_exit_data O ?a ?b ?c ?d ?S] =>
      let H := fresh "H" in
      pose proof (g_exit_data_run a b c d S) as H; unfold sim in H; cbn [g_c g_cell g_ns g_out] in H;
      destruct (exit_data (cn_tab _) a b c d) as [t acts]; destruct H as (ns' & c' & u & H); rewrite H; cbn; eauto
  end.

Lemma g_on_data_run sock data o s :
  sim (g_TunnelCommunity_on_data O sock data o) s (on_data (cn_tab (g_c s)) sock data).
Proof.
  destruct s as [c ns cl out].
  unfold sim, g_TunnelCommunity_on_data, on_data. gunf. change g_fmt_DataPayload with fmt_data.
  destruct (unpack_msg no_keys fmt_data data 23) as [[vs off]|e] eqn:Eu; cbn; [|eauto].
  unfold g_as_DataPayload.
  shape vs.
  destruct (assoc z (n_circuits (cn_tab c))) as [ci|] eqn:Eci; norm.
  - destruct (circuit_hop ci) as [h0|e] eqn:Eh; norm; [|eauto].
    destruct (addr_eqb sock (h_addr h0)) eqn:Ea; norm.
    + destruct (could_be_ipv8 b) eqn:Ecb; norm; [|fin].
      unfold is_e2e. destruct (c_ctype ci); norm; try solve [fin].
      * destruct (bytes_eqb (n_prefix (cn_tab c)) (slice b None (Some 22))) eqn:Ep; norm.
        -- destruct (idx b 22) as [m|e] eqn:Em; norm; [|eauto].
           destruct (existsb (Z.eqb m) (n_data_ids (cn_tab c))) eqn:Ex; norm; fin.
        -- destruct (n_tunnel_ep (cn_tab c)) eqn:Et; norm; fin.
      * destruct (bytes_eqb (n_prefix (cn_tab c)) (slice b None (Some 22))) eqn:Ep; norm.
        -- destruct (idx b 22) as [m|e] eqn:Em; norm; [|eauto].
           destruct (existsb (Z.eqb m) (n_data_ids (cn_tab c))) eqn:Ex; norm; fin.
        -- destruct (n_tunnel_ep (cn_tab c)) eqn:Et; norm; fin.
    + destruct (is_null a) eqn:En; norm; [fin|use_exit_data].
  - destruct (is_null a) eqn:En; norm; [fin|use_exit_data].
Qed.

Ltac use_send_cell :=
  lazymatch goal with
  | |- context [g_TunnelCommunity_send_cell O ?tg ?P ?S] =>
      let P' := eval cbv beta delta [g_mk_PongPayload g_mk_PingPayload g_mk_DataPayload g_mk_TestResponsePayload g_mk_TestRequestPayload] in P in
      lazymatch P' with
      | mkP ?mid ?m (VInt ?cid :: ?vals) =>
          let H := fresh "H" in
          pose proof (g_send_cell_run tg mid m cid vals S) as H
      end
  end.

Lemma g_on_ping_run src data o s :
  sim (g_W_TunnelCommunity_on_ping O src data o) s (on_ping enc (cn_tab (g_c s)) src data (g_ns s)).
Proof.
  destruct s as [c ns cl out].
  unfold sim, g_W_TunnelCommunity_on_ping, g_TunnelCommunity_on_ping, on_ping. gunf. change g_fmt_PingPayload with fmt_ping.
  destruct (unpack_msg no_keys fmt_ping data 23) as [[vs off]|e] eqn:Eu; cbn; [|eauto].
  unfold g_as_PingPayload.
  shape vs.
  unfold known_cid. rewrite !has_assoc.
  destruct (assoc z (n_circuits (cn_tab c))) as [ci|] eqn:Eci;
  destruct (assoc z (n_exits (cn_tab c))) as [es|] eqn:Ees;
  destruct (assoc z (n_relays (cn_tab c))) as [rr|] eqn:Err; norm; try solve [fin].
  all: use_send_cell; unfold g_mk_PongPayload; unfold sim in H; cbn [p_mid p_fmt p_vals tl g_c g_cell g_ns g_out] in H;
    change g_fmt_PongPayload with fmt_ping in *;
    destruct (send_cell enc (cn_tab c) src z 7 fmt_ping [VInt z0] ns) as [[t acts]|e];
    [destruct H as (ns' & c' & u & H)|destruct H as (s' & H)]; rewrite H; cbn; eauto.
Qed.

Lemma g_on_pong_run src data o s :
  (forall i, o_has_cache O 1 i = true) ->
  sim (g_W_TunnelCommunity_on_pong O src data o) s (on_pong (cn_tab (g_c s)) src data).
Proof.
  intros Hc. destruct s as [c ns cl out].
  unfold sim, g_W_TunnelCommunity_on_pong, g_TunnelCommunity_on_pong, on_pong. gunf. change g_fmt_PongPayload with fmt_ping.
  destruct (unpack_msg no_keys fmt_ping data 23) as [[vs off]|e] eqn:Eu; cbn; [|eauto].
  unfold g_as_PongPayload.
  shape vs. rewrite Hc. norm.
  destruct (assoc z (n_circuits (cn_tab c))); fin.
Qed.

(* a pong without an outstanding ping (PingRequestCache) changes nothing *)
Lemma g_on_pong_unexpected src data o s :
  (forall i, o_has_cache O 1 i = false) ->
  sim (g_W_TunnelCommunity_on_pong O src data o) s
      (match on_pong (cn_tab (g_c s)) src data with Ok _ => Ok (cn_tab (g_c s), []) | Raise e => Raise e end).
Proof.
  intros Hc. destruct s as [c ns cl out].
  unfold sim, g_W_TunnelCommunity_on_pong, g_TunnelCommunity_on_pong, on_pong. gunf. change g_fmt_PongPayload with fmt_ping.
  destruct (unpack_msg no_keys fmt_ping data 23) as [[vs off]|e] eqn:Eu; cbn; [|eauto].
  unfold g_as_PongPayload.
  shape vs. rewrite Hc. fin.
Qed.

Lemma g_on_test_request_run src data cid s :
  sim (g_TunnelCommunity_on_test_request O src data (Some cid)) s
      (on_test_request enc (cn_tab (g_c s)) src data cid (o_rnd O) (g_ns s)).
Proof.
  destruct s as [c ns cl out].
  unfold sim, g_TunnelCommunity_on_test_request, on_test_request. gunf. change g_fmt_TestRequestPayload with fmt_test_request.
  unfold PEER_FLAG_SPEED_TEST. cbn.
  destruct (existsb (Z.eqb 8) (n_flags (cn_tab c))) eqn:Ef; norm; [|fin].
  destruct (unpack_msg no_keys fmt_test_request data 23) as [[vs off]|e] eqn:Eu; cbn; [|eauto].
  unfold g_as_TestRequestPayload.
  shape vs.
  destruct (assoc cid (n_exits (cn_tab c))) as [es|] eqn:Ees; norm.
  2: destruct (assoc cid (n_circuits (cn_tab c))) as [ci|] eqn:Eci; norm; [|fin].
  2: destruct (c_ctype ci) eqn:Ect; norm; try solve [fin].
  all: repeat (match goal with |- context [match ?x with _ => _ end] =>
                 lazymatch x with assoc _ _ => destruct x eqn:? end end; norm).
  all: use_send_cell; unfold g_mk_TestResponsePayload; unfold sim in H; cbn [p_mid p_fmt p_vals tl g_c g_cell g_ns g_out] in H;
    change g_fmt_TestResponsePayload with fmt_test_response in *;
    destruct (send_cell enc (cn_tab c) src cid 20 fmt_test_response [VInt z0; VBytes (o_rnd O z1)] ns) as [[t acts]|e];
    [destruct H as (ns' & c' & u & H)|destruct H as (s' & H)]; rewrite H; cbn; eauto.
Qed.

(* ---- the pipeline with the generated handlers is the pipeline of the hand model ---- *)
Lemma data_acts_map acts : data_acts (map CData acts) = acts.
Proof. induction acts as [|a tl IH]; cbn; [reflexivity|]. unfold data_acts in IH. rewrite IH. reflexivity. Qed.

Lemma sim_run {A} (m : GM key nonce A) (nd : node key) ns h :
  sim m (start (wrap nd) ns) h -> g_run nd ns m = h.
Proof.
  unfold sim, g_run. destruct h as [[t acts]|e].
  - intros (ns' & c' & a & H). rewrite H. cbn. rewrite data_acts_map. reflexivity.
  - intros (s' & H). rewrite H. reflexivity.
Qed.

Variable dec : key -> dir -> bytes -> option bytes.
(* PingRequestCache: the hand model's GotPong is "on_pong ran for an expected pong" *)
Hypothesis ping_expected : forall i, o_has_cache O 1 i = true.

Lemma g_pfc_eq nd src data cid ns :
  g_on_packet_from_circuit O nd src data cid ns = on_packet_from_circuit enc nd src data cid (o_rnd O) ns.
Proof.
  unfold g_on_packet_from_circuit, on_packet_from_circuit.
  rewrite (sim_run _ nd ns _ (g_on_data_run src data (Some cid) (start (wrap nd) ns))).
  rewrite (sim_run _ nd ns _ (g_on_ping_run src data (Some cid) (start (wrap nd) ns))).
  rewrite (sim_run _ nd ns _ (g_on_pong_run src data (Some cid) (start (wrap nd) ns) ping_expected)).
  rewrite (sim_run _ nd ns _ (g_on_test_request_run src data cid (start (wrap nd) ns))).
  reflexivity.
Qed.

Lemma g_on_cell_eq nd src data ns : g_on_cell O nd src data ns = on_cell enc nd src data (o_rnd O) ns.
Proof.
  unfold g_on_cell, on_cell. destruct (from_bin data) as [c|e]; [|reflexivity]. cbn [bind].
  destruct (if cl_plain c then _ else _) as [[|]|e]; try reflexivity. cbn [bind].
  destruct (unwrap (n_prefix nd) c); [|reflexivity]. cbn [bind]. apply g_pfc_eq.
Qed.

Lemma g_process_cell_eq nd src data ns :
  g_process_cell O dec nd src data ns = process_cell enc dec nd src data (o_rnd O) ns.
Proof.
  unfold g_process_cell, process_cell, g_community_on_cell_packet, community_on_cell_packet.
  destruct (blen data <? 29); [reflexivity|].
  destruct (from_bin data) as [c|e]; [|reflexivity]. cbn [bind].
  destruct (has (cl_cid c) (n_relays nd)); [reflexivity|].
  destruct (incoming_crypto dec nd c) as [[c1|]|e]; try reflexivity. cbn [bind].
  destruct ((length (cl_msg c1) =? 0)%nat); [reflexivity|].
  destruct (idx (cl_msg c1) 0) as [m0|e]; [|reflexivity]. cbn [bind].
  destruct ((negb (cl_early c1) && (m0 =? 4)) || (n_max_early nd <=? 0)); [reflexivity|].
  destruct (cl_plain c1 && negb (NO_CRYPTO m0)); [reflexivity|].
  destruct (negb _ || _); [reflexivity|]. rewrite g_on_cell_eq. reflexivity.
Qed.

Lemma g_on_packet_eq nd src data ns : g_on_packet O dec nd src data ns = on_packet enc dec nd src data (o_rnd O) ns.
Proof.
  unfold g_on_packet, on_packet. destruct (negb _); [reflexivity|]. destruct (22 <? blen data); [|reflexivity].
  destruct (idx data 22) as [b|e]; [|reflexivity]. cbn [bind]. destruct (b =? 0); [apply g_process_cell_eq|reflexivity].
Qed.

Lemma g_expand_eq : forall fuel ns nd acts, g_expand O fuel ns nd acts = expand enc fuel (o_rnd O) ns nd acts.
Proof.
  induction fuel as [|f IHf]; intros ns nd acts; revert nd; induction acts as [|a tl IHa]; intros nd.
  - reflexivity.
  - destruct a; cbn; rewrite IHa; reflexivity.
  - reflexivity.
  - destruct a; try (cbn; rewrite IHa; reflexivity).
    change (g_expand O (S f) ns nd (Reinject origin data cid :: tl)) with
      (do (nd1, a1) <- g_on_packet_from_circuit O nd origin data cid ns;
       do (nd1', a1') <- g_expand O f ns nd1 a1;
       do (nd2, a2) <- g_expand O (S f) ns nd1' tl;
       Ok (nd2, Reinject origin data cid :: a1' ++ a2)).
    change (expand enc (S f) (o_rnd O) ns nd (Reinject origin data cid :: tl)) with
      (do (nd1, a1) <- on_packet_from_circuit enc nd origin data cid (o_rnd O) ns;
       do (nd1', a1') <- expand enc f (o_rnd O) ns nd1 a1;
       do (nd2, a2) <- expand enc (S f) (o_rnd O) ns nd1' tl;
       Ok (nd2, Reinject origin data cid :: a1' ++ a2)).
    rewrite g_pfc_eq. destruct (on_packet_from_circuit enc nd origin data cid (o_rnd O) ns) as [[nd1 a1]|e]; [|reflexivity].
    cbn [bind]. rewrite IHf. destruct (expand enc f (o_rnd O) ns nd1 a1) as [[nd1' a1']|e]; [|reflexivity].
    cbn [bind]. rewrite IHa. reflexivity.
Qed.

Lemma g_on_packet_rec_eq nd src data ns :
  g_on_packet_rec O dec nd src data ns = on_packet_rec enc dec nd src data (o_rnd O) ns.
Proof.
  unfold g_on_packet_rec, on_packet_rec. rewrite g_on_packet_eq.
  destruct (on_packet enc dec nd src data (o_rnd O) ns) as [[nd1 a1]|e]; [|reflexivity]. cbn [bind]. apply g_expand_eq.
Qed.

Lemma g_community_eq nd src data ns :
  g_community_on_cell_packet O nd src data ns = community_on_cell_packet enc nd src data (o_rnd O) ns.
Proof. unfold g_community_on_cell_packet, community_on_cell_packet. rewrite g_on_cell_eq. reflexivity. Qed.

(* ---- handler by handler, as runs on a node of the data-plane model ---- *)
Lemma gr_on_data nd ns src data o : g_run nd ns (g_TunnelCommunity_on_data O src data o) = on_data nd src data.
Proof. apply sim_run. apply (g_on_data_run src data o (start (wrap nd) ns)). Qed.
Lemma gr_exit_data nd ns cid sock dest data :
  g_run nd ns (g_TunnelCommunity_exit_data O cid sock dest data) = Ok (exit_data nd cid sock dest data).
Proof. apply sim_run. apply (g_exit_data_run cid sock dest data (start (wrap nd) ns)). Qed.
Lemma gr_on_ping nd ns src data o : g_run nd ns (g_W_TunnelCommunity_on_ping O src data o) = on_ping enc nd src data ns.
Proof. apply sim_run. apply (g_on_ping_run src data o (start (wrap nd) ns)). Qed.
Lemma gr_on_pong nd ns src data o : g_run nd ns (g_W_TunnelCommunity_on_pong O src data o) = on_pong nd src data.
Proof. apply sim_run. apply (g_on_pong_run src data o (start (wrap nd) ns) ping_expected). Qed.
Lemma gr_on_pong_unexpected nd ns src data o :
  (forall i, o_has_cache O 1 i = false) ->
  g_run nd ns (g_W_TunnelCommunity_on_pong O src data o) =
  match on_pong nd src data with Ok _ => Ok (nd, []) | Raise e => Raise e end.
Proof. intros H. apply sim_run. apply (g_on_pong_unexpected src data o (start (wrap nd) ns) H). Qed.
Lemma gr_on_test_request nd ns src data cid :
  g_run nd ns (g_TunnelCommunity_on_test_request O src data (Some cid)) = on_test_request enc nd src data cid (o_rnd O) ns.
Proof. apply sim_run. apply (g_on_test_request_run src data cid (start (wrap nd) ns)). Qed.
Lemma gr_send_cell nd ns target mid m cid vals :
  g_run nd ns (g_TunnelCommunity_send_cell O target (mkP mid m (VInt cid :: vals))) = send_cell enc nd target cid mid m vals ns.
Proof. apply sim_run. apply (g_send_cell_run target mid m cid vals (start (wrap nd) ns)). Qed.
Lemma gr_send_data nd ns target cid dest org data :
  g_run nd ns (g_TunnelCommunity_send_data O target cid dest org data) = send_data enc nd target cid dest org data ns.
Proof. apply sim_run. apply (g_send_data_run target cid dest org data (start (wrap nd) ns)). Qed.
Lemma gr_tunnel_data nd ns k es source data :
  g_run nd ns (g_TunnelExitSocket_tunnel_data O (k, es) source data) = tunnel_data enc nd es source data ns.
Proof. apply sim_run. apply (g_tunnel_data_run k es source data (start (wrap nd) ns)). Qed.
Lemma gr_ep_send_cell nd ns target c :
  g_run nd ns (fun s => g_PythonCryptoEndpoint_send_cell O target tt (mkG (g_c s) (g_ns s) c (g_out s))) = ep_send_cell enc nd target c ns.
Proof.
  unfold g_run. cbn [start g_c g_ns g_out].
  pose proof (g_ep_send_cell_run target (mkG (wrap nd) ns c [])) as H. cbn [g_c g_ns g_cell g_out wrap cn_tab] in H.
  destruct (ep_send_cell enc nd target c ns) as [[t acts]|e].
  - destruct H as (ns' & c' & H). rewrite H. cbn. rewrite data_acts_map. reflexivity.
  - destruct H as (s' & H). rewrite H. reflexivity.
Qed.

Lemma gr_send_side nd ns :
  (forall target mid m cid vals,
     g_run nd ns (g_TunnelCommunity_send_cell O target (mkP mid m (VInt cid :: vals))) = send_cell enc nd target cid mid m vals ns) /\
  (forall target c,
     g_run nd ns (fun s => g_PythonCryptoEndpoint_send_cell O target tt (mkG (g_c s) (g_ns s) c (g_out s))) = ep_send_cell enc nd target c ns) /\
  (forall target cid dest org data,
     g_run nd ns (g_TunnelCommunity_send_data O target cid dest org data) = send_data enc nd target cid dest org data ns) /\
  (forall k es source data,
     g_run nd ns (g_TunnelExitSocket_tunnel_data O (k, es) source data) = tunnel_data enc nd es source data ns).
Proof.
  split; [intros; apply gr_send_cell|]. split; [intros; apply gr_ep_send_cell|].
  split; [intros; apply gr_send_data|intros; apply gr_tunnel_data].
Qed.

(* ---- theorems of C04 restated on the generated code ---- *)
Lemma gen_outside_control_message_dropped_l (p : path key) source data nsx nss nso :
  aead_correct enc dec -> backward_ready p -> c_hs (p_circ p) = None ->
  addr_ok false source = true -> bytes_okb data = true ->
  existsb (Z.eqb 1) (n_handlers (p_origin p)) = true ->
  could_be_ipv8 data = true -> is_e2e (c_ctype (p_circ p)) = false ->
  bytes_eqb (p_pfx p) (slice data None (Some 22)) = true -> n_data_ids (p_origin p) = [] ->
  let a1 := first_addr (p_relays p) (p_xaddr p) in
  let prev := last_sender (p_relays p) (p_oaddr p) in
  exists (links : list bytes),
    g_run (p_exit p) nsx (g_TunnelExitSocket_tunnel_data O (p_xcid p, p_xsock p) source data) = Ok (p_exit p, [Send prev (hd [] links)])
    /\ through enc dec (rev (p_relays p)) (p_xaddr p) prev (hd [] links) (o_rnd O) nss
       = Some (a1, p_oaddr p, nth (length (p_relays p)) links [], tl links)
    /\ g_on_packet_rec O dec (p_origin p) a1 (nth (length (p_relays p)) links []) nso = Ok (p_origin p, []).
Proof.
  intros H1 H2 H3 H4 H5 H6 H7 H8 H9 H10. cbv zeta.
  destruct (outside_control_message_dropped_l key nonce enc dec p source data nsx (o_rnd O) nss nso H1 H2 H3 H4 H5 H6 H7 H8 H9 H10)
    as (links & E1 & E2 & E3).
  exists links. rewrite gr_tunnel_data. split; [exact E1|]. split; [exact E2|].
  rewrite g_on_packet_rec_eq. unfold on_packet_rec. rewrite E3. cbn [bind]. generalize (length (nth (length (p_relays p)) links [])). intros f; destruct f; reflexivity.
Qed.

Lemma gen_ping_answered_l nd src cid (es : exit_sock key) k ident early ns :
  length (n_prefix nd) = 22%nat -> cid_ok cid -> 0 <= ident < 65536 ->
  existsb (Z.eqb 6) (n_handlers nd) = true ->
  assoc cid (n_circuits nd) = None -> assoc cid (n_exits nd) = Some es -> h_keys (es_hop es) = Some k ->
  g_community_on_cell_packet O nd src (cell_to_bin (n_prefix nd) (mkCell cid (6 :: be_encode 2 ident) false early)) ns
  = Ok (nd, [Send src (cell_to_bin (n_prefix nd) (mkCell cid (enc k BACKWARD (ns 0%nat) (7 :: be_encode 2 ident)) false false))]).
Proof. intros. rewrite g_community_eq. eapply ping_answered_l; eauto. Qed.
End P.
