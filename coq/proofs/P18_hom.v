(* C18 - the homomorphic encryption of boneh.py over an abstract abelian group: power laws,
   decode . encode, the homomorphism used by the bit-pair challenge, and the toy instance Z_6. *)
From Coq Require Import ZArith List Bool Lia ZifyBool.
From IPV8V Require Import lib.PyErr model.M18_hom.
Import ListNotations.
Open Scope Z_scope.

Section BGNProofs.
  Variable G : Type.
  Variable gmul : G -> G -> G.
  Variable gone : G.
  Variable ginv : G -> G.
  Variable geqb : G -> G -> bool.
  Hypothesis geqb_eq : forall a b, geqb a b = true <-> a = b.
  Hypothesis gmul_assoc : forall a b c, gmul a (gmul b c) = gmul (gmul a b) c.
  Hypothesis gmul_comm : forall a b, gmul a b = gmul b a.
  Hypothesis gmul_one_l : forall a, gmul gone a = a.
  Hypothesis gmul_inv_l : forall a, gmul (ginv a) a = gone.

  Local Notation "a ** b" := (gmul a b) (at level 40, left associativity).
  Local Notation pw := (gpow G gmul gone ginv).

  Lemma gmul_one_r a : a ** gone = a.
  Proof. rewrite gmul_comm. apply gmul_one_l. Qed.
  Lemma gmul_inv_r a : a ** ginv a = gone.
  Proof. rewrite gmul_comm. apply gmul_inv_l. Qed.

  Lemma gmul_cancel_l a b c : a ** b = a ** c -> b = c.
  Proof.
    intros H. rewrite <- (gmul_one_l b), <- (gmul_one_l c), <- (gmul_inv_l a), <- !gmul_assoc, H. reflexivity.
  Qed.

  Lemma ginv_unique a x : x ** a = gone -> x = ginv a.
  Proof.
    intros H. apply (gmul_cancel_l a). rewrite gmul_inv_r, gmul_comm. exact H.
  Qed.

  Lemma ginv_mul a b : ginv (a ** b) = ginv a ** ginv b.
  Proof.
    symmetry. apply ginv_unique.
    rewrite <- gmul_assoc, (gmul_comm (ginv b)), <- gmul_assoc, (gmul_assoc (ginv a) a), gmul_inv_l, gmul_one_l.
    rewrite gmul_comm. apply gmul_inv_l.
  Qed.

  Lemma ginv_one : ginv gone = gone.
  Proof. symmetry. apply ginv_unique. apply gmul_one_l. Qed.

  Lemma ginv_inv a : ginv (ginv a) = a.
  Proof. symmetry. apply ginv_unique. apply gmul_inv_r. Qed.

  (* ---- powers ---- *)
  Lemma ip_succ p x : Pos.iter_op gmul (Pos.succ p) x = x ** Pos.iter_op gmul p x.
  Proof. apply Pos.iter_op_succ. exact gmul_assoc. Qed.

  Lemma gpow_succ x k : pw x (Z.succ k) = x ** pw x k.
  Proof.
    destruct k as [|p|p].
    - cbn. symmetry. apply gmul_one_r.
    - rewrite <- Pos2Z.inj_succ. cbn [gpow]. apply ip_succ.
    - destruct (Pos.eq_dec p 1) as [->|Hp].
      + cbn. symmetry. apply gmul_inv_r.
      + destruct (Pos.succ_pred_or p) as [E|E]; [contradiction|].
        rewrite <- E at 2. replace (Z.succ (Z.neg p)) with (Z.neg (Pos.pred p)) by lia.
        cbn [gpow]. rewrite ip_succ, ginv_mul, gmul_assoc, gmul_inv_r, gmul_one_l. reflexivity.
  Qed.

  Lemma gpow_pred x k : pw x (Z.pred k) = ginv x ** pw x k.
  Proof.
    rewrite <- (Z.succ_pred k) at 2. rewrite gpow_succ, gmul_assoc, gmul_inv_l, gmul_one_l. reflexivity.
  Qed.

  Lemma gpow_0 x : pw x 0 = gone.
  Proof. reflexivity. Qed.
  Lemma gpow_1 x : pw x 1 = x.
  Proof. reflexivity. Qed.

  Lemma gpow_add x a b : pw x (a + b) = pw x a ** pw x b.
  Proof.
    revert b. apply Z.peano_ind.
    - rewrite Z.add_0_r, gpow_0, gmul_one_r. reflexivity.
    - intros b IH. rewrite Z.add_succ_r, !gpow_succ, IH.
      rewrite gmul_assoc, (gmul_comm x), <- gmul_assoc. reflexivity.
    - intros b IH. rewrite Z.add_pred_r, !gpow_pred, IH.
      rewrite gmul_assoc, (gmul_comm (ginv x)), <- gmul_assoc. reflexivity.
  Qed.

  Lemma gpow_neg x k : pw x (- k) = ginv (pw x k).
  Proof.
    apply ginv_unique. rewrite <- gpow_add. replace (- k + k) with 0 by lia. reflexivity.
  Qed.

  Lemma gpow_sub x a b : pw x (a - b) = pw x a ** ginv (pw x b).
  Proof. unfold Z.sub. rewrite gpow_add, gpow_neg. reflexivity. Qed.

  Lemma gpow_mul_base x y k : pw (x ** y) k = pw x k ** pw y k.
  Proof.
    revert k. apply Z.peano_ind.
    - rewrite !gpow_0, gmul_one_l. reflexivity.
    - intros k IH. rewrite !gpow_succ, IH.
      rewrite <- !gmul_assoc. f_equal. rewrite !gmul_assoc. f_equal. apply gmul_comm.
    - intros k IH. rewrite !gpow_pred, IH, ginv_mul.
      rewrite <- !gmul_assoc. f_equal. rewrite !gmul_assoc. f_equal. apply gmul_comm.
  Qed.

  Lemma gpow_one k : pw gone k = gone.
  Proof.
    revert k. apply Z.peano_ind.
    - reflexivity.
    - intros k IH. rewrite gpow_succ, IH. apply gmul_one_l.
    - intros k IH. rewrite gpow_pred, IH, ginv_one. apply gmul_one_l.
  Qed.

  Lemma gpow_inv_base x k : pw (ginv x) k = ginv (pw x k).
  Proof.
    apply ginv_unique. rewrite <- gpow_mul_base, gmul_inv_l. apply gpow_one.
  Qed.

  Lemma gpow_gpow x a b : pw (pw x a) b = pw x (a * b).
  Proof.
    revert b. apply Z.peano_ind.
    - rewrite Z.mul_0_r. reflexivity.
    - intros b IH. rewrite gpow_succ, IH, Z.mul_succ_r, gpow_add. apply gmul_comm.
    - intros b IH. rewrite gpow_pred, IH, Z.mul_pred_r, gpow_sub. apply gmul_comm.
  Qed.

  (* ---- the cryptosystem ---- *)
  Variable g h : G.
  Variable t1 t2 : Z.
  Hypothesis t2_pos : 0 < t2.
  Hypothesis h_order : pw h t1 = gone.                         (* h = u^t2 has order dividing t1 *)
  Hypothesis g_n : pw g (t1 * t2) = gone.                      (* g lives in the order-n subgroup, n = t1*t2 *)
  Hypothesis g_t1_order : forall m, 0 < m < t2 -> pw (pw g t1) m <> gone.   (* g^t1 has order exactly t2 *)

  Local Notation enc := (encode G gmul gone ginv g h).
  Local Notation dec := (decode G gmul gone ginv geqb g t1).

  Lemma gt_pow_one_iff k : pw (pw g t1) k = gone <-> k mod t2 = 0.
  Proof.
    pose proof (Z.div_mod k t2 ltac:(lia)) as Hk. pose proof (Z.mod_pos_bound k t2 t2_pos) as Hb.
    assert (E : pw (pw g t1) k = pw (pw g t1) (k mod t2)).
    { assert (Hq : pw (pw g t1) (t2 * (k / t2)) = gone).
      { rewrite <- gpow_gpow. rewrite (gpow_gpow g t1 t2), g_n. apply gpow_one. }
      rewrite Hk at 1. rewrite gpow_add, Hq. apply gmul_one_l. }
    rewrite E. split.
    - intros H. destruct (Z.eq_dec (k mod t2) 0) as [H0|H0]; [exact H0|].
      exfalso. apply (g_t1_order (k mod t2)); [lia|exact H].
    - intros ->. reflexivity.
  Qed.

  Lemma gt_pow_eq_iff a b : pw (pw g t1) a = pw (pw g t1) b <-> (a - b) mod t2 = 0.
  Proof.
    rewrite <- gt_pow_one_iff, gpow_sub. split.
    - intros ->. apply gmul_inv_r.
    - intros H. apply (gmul_cancel_l (ginv (pw (pw g t1) b))).
      rewrite gmul_inv_l, gmul_comm. exact H.
  Qed.

  Lemma encode_t1 m r : pw (enc m r) t1 = pw (pw g t1) m.
  Proof.
    unfold encode. rewrite gpow_mul_base, !gpow_gpow, (Z.mul_comm r), <- (gpow_gpow h), h_order, gpow_one, gmul_one_r.
    f_equal. apply Z.mul_comm.
  Qed.

  (* encodings multiply to the encoding of the sum: the homomorphism the challenge relies on *)
  Lemma encode_mul_l a r b s : enc a r ** enc b s = enc (a + b) (r + s).
  Proof.
    unfold encode. rewrite !gpow_add. rewrite <- !gmul_assoc. f_equal.
    rewrite !gmul_assoc. f_equal. apply gmul_comm.
  Qed.

  Lemma find_ext {A} (f f' : A -> bool) l : (forall x, f x = f' x) -> find f l = find f' l.
  Proof. intros H. induction l as [|x l IH]; [reflexivity|]. cbn. rewrite H, IH. reflexivity. Qed.

  (* what decode computes on any encoding: the first candidate congruent to the message mod t2 *)
  Lemma decode_spec_l ms m r : dec ms (enc m r) = find (fun m' => (m - m') mod t2 =? 0) ms.
  Proof.
    unfold decode. cbv zeta. apply find_ext. intros m'. rewrite encode_t1.
    apply eq_true_iff_eq. rewrite geqb_eq, gt_pow_eq_iff, Z.eqb_eq. reflexivity.
  Qed.

  Lemma decode_encode_l ms m r : Forall (fun x => 0 <= x < t2) ms -> In m ms -> dec ms (enc m r) = Some m.
  Proof.
    intros Hms Hin. rewrite decode_spec_l. induction ms as [|x ms IH]; [contradiction|].
    inversion Hms as [|? ? Hx Hrest]; subst. cbn [find].
    destruct ((m - x) mod t2 =? 0) eqn:E.
    - f_equal. assert (Hm : 0 <= m < t2).
      { destruct Hin as [->|Hin]; [exact Hx|]. rewrite Forall_forall in Hrest. exact (Hrest m Hin). }
      apply Z.eqb_eq in E. apply Z.mod_divide in E; [|lia]. destruct E as [q Hq].
      assert (q = 0) by nia. subst q. lia.
    - destruct Hin as [->|Hin].
      + rewrite Z.sub_diag, Z.mod_0_l in E by lia. discriminate.
      + exact (IH Hrest Hin).
  Qed.

  Lemma decode_none_l ms m r : Forall (fun x => (m - x) mod t2 <> 0) ms -> dec ms (enc m r) = None.
  Proof.
    intros H. rewrite decode_spec_l. induction H as [|x ms Hx _ IH]; [reflexivity|].
    cbn [find]. destruct ((m - x) mod t2 =? 0) eqn:E; [lia|exact IH].
  Qed.

  (* the product of two encodings decodes to the sum *)
  Lemma decode_product_l ms a r b s : Forall (fun x => 0 <= x < t2) ms -> In (a + b) ms ->
    dec ms (enc a r ** enc b s) = Some (a + b).
  Proof. intros. rewrite encode_mul_l. apply decode_encode_l; assumption. Qed.

  (* the response to a challenge on any encoding: the class of the message modulo t2, 3 if none of 0,1,2 *)
  Lemma challenge_response_spec_l m r : 2 < t2 ->
    challenge_response G gmul gone ginv geqb g t1 (enc m r) =
      if m mod t2 =? 0 then 0 else if m mod t2 =? 1 then 1 else if m mod t2 =? 2 then 2 else 3.
  Proof.
    intros Ht. unfold challenge_response. rewrite decode_spec_l. cbn [find].
    pose proof (Z.mod_pos_bound m t2 t2_pos) as Hb. pose proof (Z.div_mod m t2 ltac:(lia)) as Hdm.
    assert (Hk : forall k, 0 <= k < t2 -> ((m - k) mod t2 =? 0) = (m mod t2 =? k)).
    { intros k Hk. apply eq_true_iff_eq. rewrite !Z.eqb_eq. split.
      - intros H. apply Z.mod_divide in H; [|lia]. destruct H as [q Hq].
        remember (m / t2) as d eqn:Hd. remember (m mod t2) as rr eqn:Hrr. clear Hd Hrr.
        assert (Hrk : rr - k = (q - d) * t2) by lia. assert (q - d = 0) by nia. lia.
      - intros H. apply Z.mod_divide; [lia|]. exists (m / t2).
        remember (m / t2) as d eqn:Hd. remember (m mod t2) as rr eqn:Hrr. clear Hd Hrr. lia. }
    rewrite !Hk by lia. replace (m - 0) with m by lia.
    destruct (m mod t2 =? 0) eqn:E0; [reflexivity|].
    destruct (m mod t2 =? 1) eqn:E1; [reflexivity|].
    destruct (m mod t2 =? 2) eqn:E2; reflexivity.
  Qed.
End BGNProofs.

(* ---- the toy instance satisfies every hypothesis ------------------------------------------------- *)
Lemma z6_eqb_eq a b : z6_eqb a b = true <-> a = b.
Proof. destruct a, b; cbv; split; intro H; try reflexivity; try discriminate. Qed.
Lemma z6_assoc a b c : z6_mul a (z6_mul b c) = z6_mul (z6_mul a b) c.
Proof. destruct a, b, c; reflexivity. Qed.
Lemma z6_comm a b : z6_mul a b = z6_mul b a.
Proof. destruct a, b; reflexivity. Qed.
Lemma z6_one_l a : z6_mul A0 a = a.
Proof. destruct a; reflexivity. Qed.
Lemma z6_inv_l a : z6_mul (z6_inv a) a = A0.
Proof. destruct a; reflexivity. Qed.
Lemma z6_h_order : gpow z6 z6_mul A0 z6_inv A3 2 = A0.
Proof. reflexivity. Qed.
Lemma z6_g_n : gpow z6 z6_mul A0 z6_inv A1 (2 * 3) = A0.
Proof. reflexivity. Qed.
Lemma z6_g_order m : 0 < m < 3 -> gpow z6 z6_mul A0 z6_inv (gpow z6 z6_mul A0 z6_inv A1 2) m <> A0.
Proof. intros H. assert (m = 1 \/ m = 2) as [-> | ->] by lia; cbv; discriminate. Qed.
