(* C09 - the two halves of a remove_* task and the invariant. *)
From Coq Require Import ZArith List Bool Lia ZifyBool.
From IPV8V Require Import gen.G09_rules model.M09_reclaim spec.S09_reclaim proofs.P09_alist proofs.P09_sweep
  proofs.P09_inv proofs.P09_ext proofs.P09_special.
Import ListNotations.
Open Scope Z_scope.

Lemma rkind_eq_dec (a b : rkind) : {a = b} + {a <> b}.
Proof. decide equality. Qed.
Lemma deferred_eq_dec (a b : deferred) : {a = b} + {a <> b}.
Proof. decide equality; try apply Z.eq_dec; try apply Bool.bool_dec; apply rkind_eq_dec. Qed.

Section Remove.
Variable st : settings.
Hypothesis Hst : settings_ok st.

(* ---------------------------------------------------------------- an entry leaves its table *)
(* s' is s without the entry (k, cid) (if it was there); witnesses that concern other entries survive *)
Record deleted (k : rkind) (cid : Z) (s s' : node) : Prop := mkDeleted {
  d_now : now s' = now s;
  d_sweep : last_sweep s' = last_sweep s;
  d_starts : forall x, relevant x -> In x (starts s) ->
                       (forall dd rn, x <> DRemove k cid dd rn) -> In x (starts s');
  d_starts' : forall x, relevant x -> In x (starts s') -> In x (starts s);
  d_sleep : forall due k' cid', In (due, k', cid') (sleeping s) -> (k', cid') <> (k, cid) ->
                                In (due, k', cid') (sleeping s');
  d_circ : forall c x, aget c (circuits s') = Some x -> aget c (circuits s) = Some x /\ (k = KCirc -> c <> cid);
  d_rel : forall c x, aget c (relays s') = Some x -> aget c (relays s) = Some x /\ (k = KRelay -> c <> cid);
  d_exit : forall c x, aget c (exits s') = Some x -> aget c (exits s) = Some x /\ (k = KExit -> c <> cid);
  d_retries : forall c rt, aget c (retries s') = Some rt -> aget c (retries s) = Some rt;
  d_retries' : forall c, (k = KCirc /\ c = cid) \/ aget c (retries s') = aget c (retries s)
}.

Lemma scheduled_deleted k cid k' cid' T s s' :
  deleted k cid s s' -> (k', cid') <> (k, cid) -> scheduled st k' cid' T s -> scheduled st k' cid' T s'.
Proof.
  intros D Hne [(dd & rn & Hin & Hle)|(due & Hin & Hle)]; [left | right].
  - exists dd, rn. split; [|rewrite (d_now _ _ _ _ D); exact Hle].
    apply (d_starts _ _ _ _ D); [exact I | exact Hin|]. intros dd' rn' E. inversion E; subst. apply Hne; reflexivity.
  - exists due. split; [|exact Hle]. apply (d_sleep _ _ _ _ D); assumption.
Qed.

Lemma entry_ok_deleted k cid k' cid' r s s' :
  deleted k cid s s' -> (k', cid') <> (k, cid) -> entry_ok st k' cid' r s -> entry_ok st k' cid' r s'.
Proof.
  intros D Hne [H|H]; [left; eapply scheduled_deleted; eauto | right; rewrite (d_sweep _ _ _ _ D); exact H].
Qed.

Lemma inv_deleted w k cid s s' : deleted k cid s s' -> inv_gen st w s -> inv_gen st w s'.
Proof.
  intros D (Hside & Hrel & Hex & Hrt & Hdr & Hc).
  split; [|split; [|split; [|split; [|split]]]].
  - destruct Hside as [H1 H2]. split; [rewrite (d_sweep _ _ _ _ D), (d_now _ _ _ _ D); exact H1|].
    intros c x H. destruct (d_circ _ _ _ _ D _ _ H) as [H' _]. rewrite (d_now _ _ _ _ D). exact (H2 _ _ H').
  - intros c r H. destruct (d_rel _ _ _ _ D _ _ H) as [H' Hn].
    eapply entry_ok_deleted; [exact D | | exact (Hrel _ _ H')].
    intro E; inversion E; subst. apply Hn; reflexivity.
  - intros c e H. destruct (d_exit _ _ _ _ D _ _ H) as [H' Hn].
    eapply entry_ok_deleted; [exact D | | exact (Hex _ _ H')].
    intro E; inversion E; subst. apply Hn; reflexivity.
  - intros c rt x H1 H2. destruct (d_circ _ _ _ _ D _ _ H2) as [H2' _].
    exact (Hrt _ _ _ (d_retries _ _ _ _ D _ _ H1) H2').
  - intros c tries ini H. apply (d_starts' _ _ _ _ D (DRetry c tries ini) I) in H. destruct (Hdr _ _ _ H) as (D1 & D2 & D3).
    split; [exact D1|]. split; [exact D2|]. intros x Hx. destruct (d_circ _ _ _ _ D _ _ Hx) as [Hx' _].
    specialize (D3 _ Hx'). unfold dretry_ok in *. rewrite (d_now _ _ _ _ D). exact D3.
  - intros c x H. destruct (d_circ _ _ _ _ D _ _ H) as [H' Hn]. specialize (Hc _ _ H').
    assert (Hne : (KCirc, c) <> (k, cid)) by (intro E; inversion E; subst; apply Hn; reflexivity).
    unfold circ_ok in *. destruct (c_closing x).
    + destruct Hc as (due & Hin & Hle). exists due. split; [|exact Hle]. apply (d_sleep _ _ _ _ D); assumption.
    + destruct (c_goal x <=? c_hops x).
      * destruct Hc as [Hc|Hc]; [left; exact Hc | right; eapply entry_ok_deleted; eauto].
      * destruct Hc as [Hc|[(tries & ini & Hin)|Hc]]; [left | right; left | right; right].
        -- destruct (d_retries' _ _ _ _ D c) as [[Ek Ec]|Er].
           ++ subst. exfalso. apply Hn; reflexivity.
           ++ unfold ahas in *. rewrite Er. exact Hc.
        -- exists tries, ini. apply (d_starts _ _ _ _ D); [exact I | exact Hin | intros; discriminate].
        -- eapply scheduled_deleted; eauto.
Qed.

(* a state in which only the evidence about (k, cid) may have been lost; deleting the entry repairs it *)
Record predel (k : rkind) (cid : Z) (s s0 : node) : Prop := mkPredel {
  p_now : now s0 = now s;
  p_sweep : last_sweep s0 = last_sweep s;
  p_starts : forall x, relevant x -> In x (starts s) ->
                       (forall dd rn, x <> DRemove k cid dd rn) -> In x (starts s0);
  p_starts' : forall x, relevant x -> In x (starts s0) -> In x (starts s);
  p_sleep : forall due k' cid', In (due, k', cid') (sleeping s) -> (k', cid') <> (k, cid) ->
                                In (due, k', cid') (sleeping s0);
  p_circ : forall c x, aget c (circuits s0) = Some x -> (k = KCirc /\ c = cid) \/ aget c (circuits s) = Some x;
  p_rel : relays s0 = relays s;
  p_exit : exits s0 = exits s;
  p_retries : forall c rt, aget c (retries s0) = Some rt -> aget c (retries s) = Some rt;
  p_retries' : forall c, (k = KCirc /\ c = cid) \/ aget c (retries s0) = aget c (retries s)
}.

Lemma finish_predel k cid s s0 : predel k cid s s0 -> deleted k cid s (fst (finish_remove s0 k cid)).
Proof.
  intros [n w s1 s1' l c r e t t']. destruct k; simpl.
  - constructor; simpl; auto.
    + intros c0 x H. rewrite aget_adel in H. destruct (c0 =? cid) eqn:E; [discriminate|].
      destruct (c _ _ H) as [[_ Ec]|Hc]; [lia|]. split; [exact Hc | intros _; lia].
    + intros c0 x H. rewrite r in H. split; [exact H | intro; discriminate].
    + intros c0 x H. rewrite e in H. split; [exact H | intro; discriminate].
  - constructor; simpl; auto.
    + intros c0 x H. destruct (c _ _ H) as [[Ek _]|Hc]; [discriminate|]. split; [exact Hc | intro; discriminate].
    + intros c0 x H. rewrite aget_adel in H. destruct (c0 =? cid) eqn:E; [discriminate|]. rewrite r in H.
      split; [exact H | intros _; lia].
    + intros c0 x H. rewrite e in H. split; [exact H | intro; discriminate].
  - destruct (aget cid (exits s0)) as [ex|] eqn:Ee; simpl.
    + constructor; simpl; auto.
      * intros x R Hin Hne. apply filter_In. split; [apply s1; assumption|].
        destruct x; simpl in R; try contradiction; reflexivity.
      * intros x R Hin. apply filter_In in Hin. apply s1'; [exact R | apply Hin].
      * intros c0 x H. destruct (c _ _ H) as [[Ek _]|Hc]; [discriminate|]. split; [exact Hc | intro; discriminate].
      * intros c0 x H. rewrite r in H. split; [exact H | intro; discriminate].
      * intros c0 x H. rewrite aget_adel in H. destruct (c0 =? cid) eqn:E; [discriminate|]. rewrite e in H.
        split; [exact H | intros _; lia].
    + constructor; simpl; auto.
      * intros c0 x H. destruct (c _ _ H) as [[Ek _]|Hc]; [discriminate|]. split; [exact Hc | intro; discriminate].
      * intros c0 x H. rewrite r in H. split; [exact H | intro; discriminate].
      * intros c0 x H. split; [rewrite <- e; exact H|]. intros _ E. subst. congruence.
Qed.

(* ---------------------------------------------------------------- EWake *)
Lemma inv_wake w s i due k cid :
  nth_error (sleeping s) i = Some (due, k, cid) -> inv_gen st w s ->
  inv_gen st w (fst (finish_remove (set_sleeping (remove_nth i (sleeping s)) s) k cid)).
Proof.
  intros Hn Hi. eapply inv_deleted; [|exact Hi]. apply finish_predel.
  constructor; simpl; auto.
  intros due' k' cid' Hin Hne. eapply in_remove_nth_other; eauto.
  intro E; inversion E; subst. apply Hne; reflexivity.
Qed.

(* ---------------------------------------------------------------- bounds used when a circuit closes *)
Lemma mul_le_nht a b : a <= b -> s_next_hop_timeout st * a <= s_next_hop_timeout st * b.
Proof. intro H. destruct Hst as (_ & _ & _ & Hn & _). apply Z.mul_le_mono_nonneg_l; lia. Qed.

Lemma retry_due_bound c rt :
  retry_ok st c rt -> c_hops c < c_goal c ->
  rt_due rt <= creation (c_ro c) + build_bound st (c_goal c).
Proof.
  intros (H1 & H2 & H3) Hh. unfold build_bound.
  pose proof (mul_le_nht (tries0 st - rt_tries rt) (tries0 st + c_goal c - 1)). lia.
Qed.

Lemma dretry_bound s c tries :
  dretry_ok st s c tries -> 1 <= tries -> 0 <= c_hops c -> c_hops c < c_goal c ->
  now s <= creation (c_ro c) + build_bound st (c_goal c).
Proof.
  unfold dretry_ok, build_bound. intros H1 H2 H3 H4.
  pose proof (mul_le_nht (tries0 st - tries + 1) (tries0 st + c_goal c - 1)).
  destruct Hst as (_ & _ & _ & Hn & _). lia.
Qed.

(* a non-closing circuit that satisfies its clause is, at any properly timed moment, within the part
   of its deadline that precedes the removal delay *)
Lemma open_circuit_within s cid c :
  tfacts st s -> side_inv s -> retries_inv st s -> dretries_inv st s ->
  aget cid (circuits s) = Some c -> c_closing c = false -> circ_ok st None s cid c ->
  now s + s_remove_delay st <= circuit_deadline st c
  \/ exists due, In (due, KCirc, cid) (sleeping s) /\ due <= circuit_deadline st c.
Proof.
  intros (T1 & T2 & T3) [S1 S2] Hrt Hdr Hc Hcl Hok. unfold circ_ok in Hok. rewrite Hcl in Hok.
  destruct (S2 _ _ Hc) as [Hh Hla]. unfold circuit_deadline.
  destruct Hst as (Hmi & Hsw & Hd & Hn & Hct).
  destruct (c_goal c <=? c_hops c) eqn:Erd.
  - destruct Hok as [[]|[[(dd & rn & Hin & Hle)|(due & Hin & Hle)]|Hls]].
    + left. unfold B_entry in Hle. lia.
    + right. exists due. split; [exact Hin|]. unfold B_entry in Hle. lia.
    + left. lia.
  - assert (Hlt : c_hops c < c_goal c) by lia.
    destruct Hok as [Hr|[(tries & ini & Hin)|[(dd & rn & Hin & Hle)|(due & Hin & Hle)]]].
    + apply ahas_aget in Hr. destruct Hr as (rt & Hr).
      pose proof (retry_due_bound c rt (Hrt _ _ _ Hr Hc) Hlt). specialize (T3 _ _ Hr). left. lia.
    + destruct (Hdr _ _ _ Hin) as (D1 & D2 & D3).
      pose proof (dretry_bound s c tries (D3 _ Hc) D1 Hh Hlt). left. lia.
    + left. lia.
    + right. exists due. split; [exact Hin | lia].
Qed.

(* ---------------------------------------------------------------- ERun of a remove_* task *)
Lemma scheduled_started s s' i k cid dd rn k' cid' T :
  nth_error (starts s) i = Some (DRemove k cid dd rn) ->
  now s' = now s -> starts s' = remove_nth i (starts s) ->
  (forall x, In x (sleeping s) -> In x (sleeping s')) ->
  In (now s + s_remove_delay st, k, cid) (sleeping s') ->
  scheduled st k' cid' T s -> scheduled st k' cid' T s'.
Proof.
  intros Hn En Es Hsl Hnew [(dd' & rn' & Hin & Hle)|(due & Hin & Hle)].
  - destruct (deferred_eq_dec (DRemove k' cid' dd' rn') (DRemove k cid dd rn)) as [E|E].
    + inversion E; subst. right. exists (now s + s_remove_delay st). split; [exact Hnew | exact Hle].
    + left. exists dd', rn'. rewrite Es, En. split; [|exact Hle]. eapply in_remove_nth_other; eauto.
  - right. exists due. auto.
Qed.

Lemma inv_run_remove s i k cid dd rn :
  nth_error (starts s) i = Some (DRemove k cid dd rn) -> tfacts st s -> inv st s ->
  inv st (fst (start_remove st (set_starts (remove_nth i (starts s)) s) k cid dd rn)).
Proof.
  intros Hn Tf Hi.
  set (s0 := set_starts (remove_nth i (starts s)) s).
  assert (Hrel0 : forall x, relevant x -> In x (starts s) -> (forall dd' rn', x <> DRemove k cid dd' rn') -> In x (starts s0)).
  { intros x R Hin Hne. simpl. eapply in_remove_nth_other; eauto. }
  (* the immediate-finish and the entry-absent cases go through `deleted` *)
  assert (Hfin : forall s1, predel k cid s s1 -> inv st (fst (finish_remove s1 k cid))).
  { intros s1 P. eapply inv_deleted; [apply finish_predel; exact P | exact Hi]. }
  assert (P0 : predel k cid s s0).
  { constructor; simpl; auto. intros x R Hin. eapply in_remove_nth; eauto. }
  (* the sleeping case for relay / exit entries: tables untouched *)
  assert (Hsleep : k <> KCirc ->
            inv st (set_sleeping (sleeping s0 ++ [(now s0 + s_remove_delay st, k, cid)]) s0)).
  { intro Hk. destruct Hi as (Hside & Hrel & Hex & Hrt & Hdr & Hc).
    set (s' := set_sleeping (sleeping s0 ++ [(now s0 + s_remove_delay st, k, cid)]) s0).
    assert (Hsch : forall k' cid' T, scheduled st k' cid' T s -> scheduled st k' cid' T s').
    { intros k' cid' T. eapply scheduled_started; eauto; simpl.
      - intros x H; apply in_or_app; left; exact H.
      - apply in_or_app; right; left; reflexivity. }
    assert (Hent : forall k' cid' r, entry_ok st k' cid' r s -> entry_ok st k' cid' r s').
    { intros k' cid' r [H|H]; [left; apply Hsch; exact H | right; exact H]. }
    split; [exact Hside|]. split; [|split; [|split; [|split]]].
    - intros c r H. apply Hent. apply Hrel; exact H.
    - intros c e H. apply Hent. apply Hex; exact H.
    - exact Hrt.
    - intros c tries ini H. simpl in H. apply in_remove_nth in H. exact (Hdr _ _ _ H).
    - intros c x H. specialize (Hc _ _ H). unfold circ_ok in *. destruct (c_closing x).
      + destruct Hc as (due & Hin & Hle). exists due. split; [simpl; apply in_or_app; left; exact Hin | exact Hle].
      + destruct (c_goal x <=? c_hops x).
        * destruct Hc as [[]|Hc]. right. apply Hent; exact Hc.
        * destruct Hc as [Hc|[(tries & ini & Hin)|Hc]]; [left; exact Hc | right; left | right; right; apply Hsch; exact Hc].
          exists tries, ini. simpl. eapply in_remove_nth_other; eauto. discriminate. }
  unfold start_remove. fold s0. destruct k.
  - (* circuit *)
    set (s0r := set_retries (adel cid (retries s0)) s0).
    destruct (aget cid (circuits s0r)) as [c|] eqn:Ec.
    + set (c1 := mkCirc (c_ro c) (c_goal c) (c_hops c) true (c_unver c) (c_first c) (c_early c)).
      set (s1 := set_circuits (aset cid c1 (circuits s0r)) s0r).
      assert (P1 : predel KCirc cid s s1).
      { constructor; simpl; auto.
        - intros x R Hin. eapply in_remove_nth; eauto.
        - intros c0 x H. rewrite aget_aset in H. destruct (c0 =? cid) eqn:E; [left; split; [reflexivity|lia] | right; exact H].
        - intros c0 rt H. rewrite aget_adel in H. destruct (c0 =? cid); [discriminate | exact H].
        - intros c0. rewrite aget_adel. destruct (c0 =? cid) eqn:E; [left; split; [reflexivity|lia] | right; reflexivity]. }
      cbn [fst snd]. destruct (negb rn || (0 <? s_remove_delay st)).
      * (* the circuit is closed and the task sleeps *)
        simpl. simpl in Ec.
        pose proof Hi as (Hside & Hrel & Hex & Hrt & Hdr & Hc).
        set (s' := set_sleeping (sleeping s1 ++ [(now s1 + s_remove_delay st, KCirc, cid)]) s1).
        assert (Hsch : forall k' cid' T, scheduled st k' cid' T s -> scheduled st k' cid' T s').
        { intros k' cid' T. eapply scheduled_started; eauto; simpl.
          - intros x H; apply in_or_app; left; exact H.
          - apply in_or_app; right; left; reflexivity. }
        assert (Hent : forall k' cid' r, entry_ok st k' cid' r s -> entry_ok st k' cid' r s').
        { intros k' cid' r [H|H]; [left; apply Hsch; exact H | right; exact H]. }
        split; [|split; [|split; [|split; [|split]]]].
        -- destruct Hside as [S1 S2]. split; [exact S1|]. intros c0 x H. simpl in H. rewrite aget_aset in H.
           destruct (c0 =? cid) eqn:E; [|exact (S2 _ _ H)].
           inversion H; subst x. apply Z.eqb_eq in E; subst c0. exact (S2 _ _ Ec).
        -- intros c0 r H. apply Hent. apply Hrel; exact H.
        -- intros c0 e H. apply Hent. apply Hex; exact H.
        -- intros c0 rt x H1 H2. simpl in H1, H2. rewrite aget_adel in H1. rewrite aget_aset in H2.
           destruct (c0 =? cid); [discriminate|]. exact (Hrt _ _ _ H1 H2).
        -- intros c0 tries ini H. simpl in H. apply in_remove_nth in H. destruct (Hdr _ _ _ H) as (D1 & D2 & D3).
           split; [exact D1|]. split; [exact D2|]. intros x Hx. simpl in Hx. rewrite aget_aset in Hx.
           destruct (c0 =? cid) eqn:E; [|exact (D3 _ Hx)].
           inversion Hx; subst x. apply Z.eqb_eq in E; subst c0. exact (D3 _ Ec).
        -- intros c0 x H. simpl in H. rewrite aget_aset in H. destruct (c0 =? cid) eqn:E.
           ++ inversion H; subst x. apply Z.eqb_eq in E; subst c0. unfold circ_ok. simpl c_closing. cbv iota.
              assert (Ed : circuit_deadline st c1 = circuit_deadline st c) by reflexivity. rewrite Ed.
              specialize (Hc _ _ Ec). destruct (c_closing c) eqn:Ecl.
              ** unfold circ_ok in Hc. rewrite Ecl in Hc. destruct Hc as (due & Hin & Hle).
                 exists due. split; [simpl; apply in_or_app; left; exact Hin | exact Hle].
              ** destruct (open_circuit_within s cid c Tf Hside Hrt Hdr Ec Ecl Hc) as [Hw|(due & Hin & Hle)].
                 --- exists (now s + s_remove_delay st). split; [simpl; apply in_or_app; right; left; reflexivity | exact Hw].
                 --- exists due. split; [simpl; apply in_or_app; left; exact Hin | exact Hle].
           ++ specialize (Hc _ _ H). unfold circ_ok in *. destruct (c_closing x).
              ** destruct Hc as (due & Hin & Hle). exists due. split; [simpl; apply in_or_app; left; exact Hin | exact Hle].
              ** destruct (c_goal x <=? c_hops x).
                 --- destruct Hc as [[]|Hc]. right. apply Hent; exact Hc.
                 --- destruct Hc as [Hc|[(tries & ini & Hin)|Hc]]; [left | right; left | right; right; apply Hsch; exact Hc].
                     +++ unfold ahas in *. simpl. rewrite aget_adel, E. exact Hc.
                     +++ exists tries, ini. simpl. eapply in_remove_nth_other; eauto. discriminate.
      * destruct (finish_remove s1 KCirc cid) as [s2 o2] eqn:Ef. simpl.
        pose proof (Hfin s1 P1) as G. rewrite Ef in G. exact G.
    + (* no such circuit: only the retry cache and the task disappear *)
      simpl. eapply inv_deleted; [|exact Hi]. simpl in Ec.
      constructor; simpl; auto.
      * intros x R Hin. eapply in_remove_nth; eauto.
      * intros c0 x H. split; [exact H|]. intros _ E; subst. congruence.
      * intros c0 x H; split; [exact H | intro; discriminate].
      * intros c0 x H; split; [exact H | intro; discriminate].
      * intros c0 rt H. rewrite aget_adel in H. destruct (c0 =? cid); [discriminate | exact H].
      * intros c0. rewrite aget_adel. destruct (c0 =? cid) eqn:E; [left; split; [reflexivity|lia] | right; reflexivity].
  - cbn [fst snd]. destruct (negb rn || (0 <? s_remove_delay st)).
    + simpl. apply Hsleep. discriminate.
    + destruct (finish_remove s0 KRelay cid) as [s2 o2] eqn:Ef. simpl.
      pose proof (Hfin s0 P0) as G. rewrite Ef in G. exact G.
  - cbn [fst snd]. destruct (negb rn || (0 <? s_remove_delay st)).
    + simpl. apply Hsleep. discriminate.
    + destruct (finish_remove s0 KExit cid) as [s2 o2] eqn:Ef. simpl.
      pose proof (Hfin s0 P0) as G. rewrite Ef in G. exact G.
Qed.

End Remove.
