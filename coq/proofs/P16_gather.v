(* C16 - lemmas about gather_token and its chain reaction (model M16_tokentree). *)
From Coq Require Import ZArith List Bool Arith Lia.
From IPV8V Require Import lib.PyErr lib.Bytes model.M16_tokentree.
Import ListNotations.

(* ---------------------------------------------------------------- generic list facts *)
Lemma NoDup_map_inj_in {A B} (f : A -> B) (l : list A) a b :
  NoDup (map f l) -> In a l -> In b l -> f a = f b -> a = b.
Proof.
  induction l as [|x l IH]; simpl; intros N Ha Hb E; [contradiction|].
  inversion N as [|? ? Hn N']; subst.
  destruct Ha as [Ha|Ha], Hb as [Hb|Hb]; subst; auto.
  - exfalso. apply Hn. rewrite E. apply in_map. assumption.
  - exfalso. apply Hn. rewrite <- E. apply in_map. assumption.
Qed.

Lemma NoDup_map_filter {A B} (f : A -> B) (p : A -> bool) (l : list A) :
  NoDup (map f l) -> NoDup (map f (filter p l)).
Proof.
  induction l as [|x l IH]; simpl; intros N; [constructor|].
  inversion N as [|? ? Hn N']; subst.
  destruct (p x); simpl; auto.
  constructor; auto. intros H. apply Hn.
  apply in_map_iff in H as [y [E Hy]]. apply filter_In in Hy as [Hy _].
  rewrite <- E. apply in_map. assumption.
Qed.

Lemma NoDup_snoc {A} (l : list A) a : NoDup l -> ~ In a l -> NoDup (l ++ [a]).
Proof.
  induction l as [|x l IH]; simpl; intros N H.
  - constructor; [intros []|constructor].
  - inversion N; subst. constructor.
    + intros Hi. apply in_app_or in Hi as [Hi|[Hi|[]]]; auto.
    + apply IH; auto.
Qed.

Lemma tok_eqb_eq a b : tok_eqb a b = true <-> signed a = signed b.
Proof. unfold tok_eqb. apply bytes_eqb_eq. Qed.

Lemma tok_eqb_refl a : tok_eqb a a = true.
Proof. apply tok_eqb_eq. reflexivity. Qed.

Lemma tok_eqb_false a b : tok_eqb a b = false <-> signed a <> signed b.
Proof.
  split.
  - intros H E. apply tok_eqb_eq in E. congruence.
  - intros H. destruct (tok_eqb a b) eqn:E; [|reflexivity]. apply tok_eqb_eq in E. contradiction.
Qed.

Lemma remove_first_In p l x : In x (remove_first p l) -> In x l.
Proof.
  induction l as [|y l IH]; simpl; [auto|].
  destruct (p y); simpl; intros H; auto. destruct H; auto.
Qed.

Lemma remove_first_keep p l x : In x l -> p x = false -> In x (remove_first p l).
Proof.
  induction l as [|y l IH]; simpl; [auto|]. intros [H|H] Hp.
  - subst. rewrite Hp. left. reflexivity.
  - destruct (p y); [assumption|]. right. auto.
Qed.

Lemma remove_first_length p l :
  existsb p l = true -> S (length (remove_first p l)) = length l.
Proof.
  induction l as [|y l IH]; simpl; [discriminate|].
  destruct (p y); simpl; intros H; [reflexivity|]. rewrite IH by assumption. reflexivity.
Qed.

Lemma remove_first_length_le p l : (length (remove_first p l) <= length l)%nat.
Proof. induction l as [|y l IH]; simpl; [lia|]. destruct (p y); simpl; lia. Qed.

Lemma remove_first_nodup r l :
  NoDup (map signed l) -> NoDup (map signed (remove_first (tok_eqb r) l)).
Proof.
  induction l as [|y l IH]; simpl; intros N; [constructor|].
  inversion N as [|? ? Hn N']; subst.
  destruct (tok_eqb r y); simpl; auto.
  constructor; auto. intros H. apply Hn.
  apply in_map_iff in H as [z [E Hz]]. apply remove_first_In in Hz.
  rewrite <- E. apply in_map. assumption.
Qed.

Lemma remove_first_gone r l x :
  NoDup (map signed l) -> existsb (tok_eqb r) l = true ->
  In x (remove_first (tok_eqb r) l) -> tok_eqb r x = false.
Proof.
  induction l as [|y l IH]; simpl; intros N Hex Hx; [discriminate|].
  inversion N as [|? ? Hn N']; subst.
  destruct (tok_eqb r y) eqn:E.
  - apply tok_eqb_false. intros Es. apply Hn. apply tok_eqb_eq in E. rewrite <- E, Es.
    apply in_map. assumption.
  - simpl in Hex. destruct Hx as [Hx|Hx]; [subst; assumption|]. apply IH; auto.
Qed.

Lemma existsb_tok_eqb_In r l : In r l -> existsb (tok_eqb r) l = true.
Proof. intros H. apply existsb_exists. exists r. split; [assumption|apply tok_eqb_refl]. Qed.

(* ---------------------------------------------------------------- waiting area insertion *)
Lemma u_insert_In u t c x : In x (u_insert u t c) -> In x u \/ x = t.
Proof.
  unfold u_insert. intros H.
  assert (H1 : In x (if existsb (tok_eqb t) u then u else u ++ [t])).
  { destruct (c <? length (if existsb (tok_eqb t) u then u else u ++ [t]))%nat; [|assumption].
    destruct (if existsb (tok_eqb t) u then u else u ++ [t]); simpl in *; auto. }
  destruct (existsb (tok_eqb t) u); auto.
  apply in_app_or in H1 as [H1|[H1|[]]]; auto.
Qed.

Lemma NoDup_tl {A} (l : list A) : NoDup l -> NoDup (tl l).
Proof. destruct l; simpl; intros N; [constructor|]. inversion N; assumption. Qed.

Lemma u_insert_pre_nodup u t :
  NoDup (map signed u) -> NoDup (map signed (if existsb (tok_eqb t) u then u else u ++ [t])).
Proof.
  intros N. destruct (existsb (tok_eqb t) u) eqn:E; [assumption|].
  rewrite map_app. simpl. apply NoDup_snoc; [assumption|].
  intros H. apply in_map_iff in H as [y [Ey Hy]].
  assert (existsb (tok_eqb t) u = true); [|congruence].
  apply existsb_exists. exists y. split; [assumption|]. apply tok_eqb_eq. auto.
Qed.

Lemma u_insert_nodup u t c : NoDup (map signed u) -> NoDup (map signed (u_insert u t c)).
Proof.
  intros N. unfold u_insert. pose proof (u_insert_pre_nodup u t N) as N1.
  destruct (c <? length (if existsb (tok_eqb t) u then u else u ++ [t]))%nat; [|assumption].
  destruct (if existsb (tok_eqb t) u then u else u ++ [t]); simpl in *; [constructor|].
  inversion N1; assumption.
Qed.

Section Gather.
Variable hash : bytes -> bytes.
Variable sigverify : bytes -> bytes -> bytes -> bool.
Variable pk : bytes.

Notation genesis := (genesis hash pk).
Notation thash := (thash hash).
Notation tverify := (tverify sigverify pk).
Notation keys := (keys hash).
Notation has_key := (has_key hash).
Notation find_key := (find_key hash).
Notation readyb := (readyb hash pk).
Notation merge_content := (merge_content hash).
Notation receive_content := (receive_content hash).
Notation gather := (gather hash sigverify pk).
Notation gather_top := (gather_top hash sigverify pk).
Notation gather_all := (gather_all hash sigverify pk).

(* ---------------------------------------------------------------- fields vs content *)
Lemma thash_strip t : thash (strip t) = thash t.
Proof. reflexivity. Qed.
Lemma tverify_strip t : tverify (strip t) = tverify t.
Proof. reflexivity. Qed.
Lemma signed_strip t : signed (strip t) = signed t.
Proof. reflexivity. Qed.

Lemma strip_eq_thash a b : strip a = strip b -> thash a = thash b.
Proof. intros H. rewrite <- (thash_strip a), <- (thash_strip b), H. reflexivity. Qed.
Lemma strip_eq_tverify a b : strip a = strip b -> tverify a = tverify b.
Proof. intros H. rewrite <- (tverify_strip a), <- (tverify_strip b), H. reflexivity. Qed.
Lemma strip_eq_prev a b : strip a = strip b -> t_prev a = t_prev b.
Proof. unfold strip. intros H. inversion H. reflexivity. Qed.
Lemma strip_eq_signed a b : strip a = strip b -> signed a = signed b.
Proof. intros H. rewrite <- (signed_strip a), <- (signed_strip b), H. reflexivity. Qed.

Lemma receive_content_strip t c : strip (fst (receive_content t c)) = strip t.
Proof. unfold M16_tokentree.receive_content. destruct (bytes_eqb (hash c) (t_chash t)); reflexivity. Qed.

Lemma merge_content_strip sh t : strip (merge_content sh t) = strip sh.
Proof.
  unfold M16_tokentree.merge_content. destruct (t_content sh); [reflexivity|].
  destruct (t_content t); [apply receive_content_strip|reflexivity].
Qed.

Lemma keys_strip e : keys (map strip e) = keys e.
Proof. unfold M16_tokentree.keys. rewrite map_map. reflexivity. Qed.

Lemma keys_of_strip_eq e e' : map strip e = map strip e' -> keys e = keys e'.
Proof. intros H. rewrite <- (keys_strip e), <- (keys_strip e'), H. reflexivity. Qed.

Lemma keys_app a b : keys (a ++ b) = keys a ++ keys b.
Proof. unfold M16_tokentree.keys. apply map_app. Qed.

(* ---------------------------------------------------------------- dict lookups *)
Lemma has_key_In h e : has_key h e = true <-> In h (keys e).
Proof.
  unfold M16_tokentree.has_key, M16_tokentree.keys. rewrite existsb_exists. split.
  - intros [x [Hx E]]. apply bytes_eqb_eq in E. subst. apply in_map. assumption.
  - intros H. apply in_map_iff in H as [x [E Hx]]. exists x. split; [assumption|].
    apply bytes_eqb_eq. assumption.
Qed.

Lemma find_key_Some h e x : find_key h e = Some x -> In x e /\ thash x = h.
Proof.
  unfold M16_tokentree.find_key. intros H. apply find_some in H as [H1 H2].
  apply bytes_eqb_eq in H2. auto.
Qed.

Lemma find_key_None h e : find_key h e = None -> ~ In h (keys e).
Proof.
  unfold M16_tokentree.find_key. intros H Hin. apply in_map_iff in Hin as [x [E Hx]].
  pose proof (find_none _ _ H x Hx) as Hf. simpl in Hf. rewrite E, bytes_eqb_refl in Hf. discriminate.
Qed.

Lemma find_key_In h e : In h (keys e) -> exists x, find_key h e = Some x.
Proof.
  intros H. destruct (find_key h e) eqn:E; [eauto|]. apply find_key_None in E. contradiction.
Qed.

Definition chained (e : list token) (u : token) : Prop := In (t_prev u) (keys e).
Definition ready (e : list token) (t : token) : Prop := t_prev t = genesis \/ chained e t.

Lemma readyb_iff e t : readyb e t = true <-> ready e t.
Proof.
  unfold M16_tokentree.readyb, ready, chained. rewrite orb_true_iff, bytes_eqb_eq, has_key_In. tauto.
Qed.

Lemma readyb_false e t : readyb e t = false -> ~ ready e t.
Proof. intros H R. apply readyb_iff in R. congruence. Qed.

(* shadow update: only the content of one element changes *)
Lemma update_first_strip (p : token -> bool) sh e x :
  find p e = Some x -> strip sh = strip x ->
  map strip (update_first p (fun _ => sh) e) = map strip e.
Proof.
  induction e as [|y e IH]; simpl; [discriminate|].
  destruct (p y); intros F S.
  - inversion F; subst. simpl. rewrite S. reflexivity.
  - simpl. rewrite IH by assumption. reflexivity.
Qed.

Lemma update_first_Forall (Q : token -> Prop) p sh e :
  Forall Q e -> Q sh -> Forall Q (update_first p (fun _ => sh) e).
Proof.
  induction 1 as [|y e Hy He IH]; simpl; intros Hs; [constructor|].
  destruct (p y); constructor; auto.
Qed.

(* ---------------------------------------------------------------- chain order of the dict *)
Inductive chain_ok : list token -> Prop :=
| co_nil : chain_ok []
| co_snoc : forall e t, chain_ok e -> ready e t -> chain_ok (e ++ [t]).

Lemma chain_ok_strip_eq e : chain_ok e -> forall e', map strip e' = map strip e -> chain_ok e'.
Proof.
  induction 1 as [|e t He IH Hr]; intros e' E.
  - destruct e'; [constructor|discriminate].
  - rewrite map_app in E. apply map_eq_app in E as [a [b [Ee [Ea Eb]]]]. subst e'.
    destruct b as [|t' [|? ?]]; try discriminate. simpl in Eb.
    assert (Et : strip t' = strip t) by congruence.
    constructor; [apply IH; assumption|].
    unfold ready, chained in *. rewrite (strip_eq_prev _ _ Et), (keys_of_strip_eq _ _ Ea). assumption.
Qed.

Lemma chain_ok_split e x : chain_ok e -> In x e ->
  exists e1 e2, e = e1 ++ x :: e2 /\ chain_ok e1 /\ ready e1 x.
Proof.
  induction 1 as [|e t He IH Hr]; intros Hx; [contradiction|].
  apply in_app_or in Hx as [Hx|[Hx|[]]].
  - destruct (IH Hx) as [e1 [e2 [E [C R]]]]. exists e1, (e2 ++ [t]). subst e.
    rewrite <- app_assoc. simpl. auto.
  - subst. exists e, []. auto.
Qed.

(* ---------------------------------------------------------------- the invariant kept by every step,
   including the intermediate states of a chain reaction.  P: everything offered (so far or ever). *)
Record Sound (P : list token) (tr : tree) : Prop := {
  s_elems : Forall (fun e => tverify e = true /\ In (strip e) (map strip P)) (elements tr);
  s_chain : chain_ok (elements tr);
  s_keys : NoDup (keys (elements tr));
  s_wait : Forall (fun u => tverify u = true /\ In (strip u) (map strip P) /\ t_prev u <> genesis)
                  (unchained tr);
  s_wait_nodup : NoDup (map signed (unchained tr))
}.

Lemma Sound_empty P c : Sound P (empty_tree c).
Proof. constructor; simpl; constructor. Qed.

Lemma Sound_mono P P' tr : incl P P' -> Sound P tr -> Sound P' tr.
Proof.
  intros I [A B C D E]. constructor; auto.
  - eapply Forall_impl; [|exact A]. simpl. intros a [H1 H2]. split; auto.
    apply in_map_iff in H2 as [p [E1 E2]]. rewrite <- E1. apply in_map. auto.
  - eapply Forall_impl; [|exact D]. simpl. intros a [H1 [H2 H3]]. split; [|split]; auto.
    apply in_map_iff in H2 as [p [E1 E2]]. rewrite <- E1. apply in_map. auto.
Qed.

(* what one call of gather_token guarantees, whatever the state of a surrounding chain reaction *)
Definition gpost (P : list token) (tr : tree) (t : token) (o : res (tree * option token)) : Prop :=
  exists tr' r, o = Ok (tr', r) /\ Sound P tr' /\ cap tr' = cap tr /\
    incl (keys (elements tr)) (keys (elements tr')) /\
    (forall u, In u (unchained tr') -> chained (elements tr') u ->
               In u (unchained tr) /\ chained (elements tr) u) /\
    (ready (elements tr) t ->
       (length (unchained tr') <= length (unchained tr))%nat /\
       incl (unchained tr') (unchained tr) /\
       (forall u, In u (unchained tr) -> chained (elements tr) u -> In u (unchained tr')) /\
       (forall u, In u (unchained tr) ->
                  In u (unchained tr') \/ In (thash u) (keys (elements tr'))) /\
       (tverify t = true -> In (thash t) (keys (elements tr')))) /\
    (~ ready (elements tr) t ->
       elements tr' = elements tr /\
       unchained tr' = if tverify t then u_insert (unchained tr) t (cap tr) else unchained tr) /\
    is_some r = tverify t && readyb (elements tr) t.

Definition gpre (P : list token) (t : token) : Prop :=
  tverify t = true -> In (strip t) (map strip P).

(* the loop over the collected waiters *)
Lemma wake_spec P f (g : tree -> token -> res (tree * option token)) :
  (forall tr t, (length (unchained tr) < f)%nat -> Sound P tr -> gpre P t -> gpost P tr t (g tr t)) ->
  forall ws tr,
    Sound P tr -> (length (unchained tr) <= f)%nat -> NoDup (map signed ws) ->
    (forall r, In r ws -> In r (unchained tr) /\ chained (elements tr) r) ->
    exists tr', wake_with g ws tr = Ok tr' /\ Sound P tr' /\ cap tr' = cap tr /\
      incl (keys (elements tr)) (keys (elements tr')) /\
      (length (unchained tr') <= length (unchained tr))%nat /\
      incl (unchained tr') (unchained tr) /\
      (forall u, In u (unchained tr) -> chained (elements tr) u -> ~ In u ws -> In u (unchained tr')) /\
      (forall u, In u (unchained tr') -> chained (elements tr') u ->
                 In u (unchained tr) /\ chained (elements tr) u /\ ~ In u ws) /\
      (forall u, In u (unchained tr) -> In u (unchained tr') \/ In (thash u) (keys (elements tr'))).
Proof.
  intros Hg. induction ws as [|r ws IH]; intros tr S L N Hws.
  - exists tr. simpl. split; [reflexivity|]. split; [assumption|]. split; [reflexivity|].
    split; [apply incl_refl|]. split; [lia|]. split; [apply incl_refl|].
    split; [auto|]. split; [intros u H1 H2; auto|]. auto.
  - destruct (Hws r (or_introl eq_refl)) as [Hr Hrc].
    simpl. unfold u_pop. rewrite (existsb_tok_eqb_In _ _ Hr).
    set (ur := remove_first (tok_eqb r) (unchained tr)).
    set (trr := mkTree (elements tr) ur (cap tr)).
    pose proof (remove_first_length (tok_eqb r) (unchained tr) (existsb_tok_eqb_In _ _ Hr)) as Lr.
    fold ur in Lr.
    destruct S as [S1 S2 S3 S4 S5].
    assert (Sr : Sound P trr).
    { constructor; simpl; auto.
      - apply Forall_forall. intros x Hx. apply remove_first_In in Hx.
        rewrite Forall_forall in S4. auto.
      - apply remove_first_nodup. assumption. }
    assert (Pr : gpre P r).
    { intros _. rewrite Forall_forall in S4. apply (S4 r Hr). }
    destruct (Hg trr r ltac:(simpl; lia) Sr Pr) as [tr2 [res [Eg [S' [C' [K' [E' [R' [_ _]]]]]]]]].
    rewrite Eg.
    destruct (R' (or_intror Hrc)) as [L2 [I2 [D2 [G2 H2]]]]. simpl in *.
    inversion N as [|? ? Nr N']; subst.
    (* the remaining waiters are still waiting and still chained *)
    assert (Hws' : forall r', In r' ws -> In r' (unchained tr2) /\ chained (elements tr2) r').
    { intros r' Hr'. destruct (Hws r' (or_intror Hr')) as [A B]. split.
      - apply D2; [|assumption]. apply remove_first_keep; [assumption|].
        apply tok_eqb_false. intros Es. apply Nr. rewrite Es. apply in_map. assumption.
      - unfold chained in *. apply K'. assumption. }
    destruct (IH tr2 S' ltac:(lia) N' Hws') as [tr3 [Ew [S3' [C3 [K3 [L3 [I3 [D3 [E3 G3]]]]]]]]].
    exists tr3. split; [exact Ew|]. split; [assumption|]. split; [congruence|].
    split; [eapply incl_tran; eauto|]. split; [lia|].
    split.
    { intros x Hx. apply I3, I2 in Hx. eapply remove_first_In; eauto. }
    split.
    { intros u Hu Hc Hn. apply D3.
      - apply D2; [|assumption]. apply remove_first_keep; [assumption|].
        apply tok_eqb_false. intros Es. apply Hn. left.
        exact (NoDup_map_inj_in signed (unchained tr) r u S5 Hr Hu Es).
      - unfold chained in *. apply K'. assumption.
      - intros H. apply Hn. right. assumption. }
    split.
    { intros u Hu Hc. destruct (E3 u Hu Hc) as [A [B Cn]]. destruct (E' u A B) as [A1 B1].
      split; [eapply remove_first_In; eauto|]. split; [assumption|].
      intros [H|H]; [|contradiction]. subst u.
      pose proof (remove_first_gone r (unchained tr) r S5 (existsb_tok_eqb_In _ _ Hr) A1) as F.
      rewrite tok_eqb_refl in F. discriminate. }
    { intros u Hu. destruct (tok_eqb r u) eqn:Eru.
      - assert (u = r).
        { apply tok_eqb_eq in Eru. symmetry. exact (NoDup_map_inj_in signed (unchained tr) r u S5 Hr Hu Eru). }
        subst u. right. apply K3. apply H2. rewrite Forall_forall in S4. apply (S4 r Hr).
      - pose proof (remove_first_keep _ _ _ Hu Eru) as Hur.
        destruct (G2 u Hur) as [A|A].
        + destruct (G3 u A); auto.
        + right. apply K3. assumption. }
Qed.

Lemma gather_spec P : forall f tr t,
  (length (unchained tr) < f)%nat -> Sound P tr -> gpre P t -> gpost P tr t (gather f tr t).
Proof.
  induction f as [|f IH]; intros tr t L S Pt; [lia|].
  cbn [M16_tokentree.gather]. unfold gpost.
  destruct (tverify t) eqn:Ev; cbn [negb].
  2:{ (* signature does not verify: nothing happens *)
      exists tr, None. split; [reflexivity|]. split; [assumption|]. split; [reflexivity|].
      split; [apply incl_refl|]. split; [auto|].
      split.
      { intros _. split; [lia|]. split; [apply incl_refl|]. split; [auto|]. split; [auto|discriminate]. }
      split; [auto|reflexivity]. }
  destruct (readyb (elements tr) t) eqn:Er; cbn [negb].
  2:{ (* predecessor unknown: into the waiting area *)
      pose proof (readyb_false _ _ Er) as Nr.
      destruct S as [S1 S2 S3 S4 S5].
      eexists; exists None. split; [reflexivity|]. cbn [elements unchained cap].
      split.
      { constructor; cbn [elements unchained]; auto.
        - apply Forall_forall. intros x Hx. apply u_insert_In in Hx as [Hx|Hx].
          + rewrite Forall_forall in S4. auto.
          + subst x. split; [assumption|]. split; [apply Pt; assumption|].
            intros Hg. apply Nr. left. assumption.
        - apply u_insert_nodup. assumption. }
      split; [reflexivity|]. split; [apply incl_refl|].
      split.
      { intros u Hu Hc. apply u_insert_In in Hu as [Hu|Hu]; [auto|].
        subst u. exfalso. apply Nr. right. assumption. }
      split; [intros R; contradiction|].
      split; [auto|reflexivity]. }
  pose proof (proj1 (readyb_iff _ _) Er) as R.
  destruct (find_key (thash t) (elements tr)) as [shadow|] eqn:Ef.
  - (* already an element: at most its content is completed *)
    destruct (find_key_Some _ _ _ Ef) as [Hsh Eh].
    set (sh := merge_content shadow t).
    assert (Es : map strip (update_first (fun x => bytes_eqb (thash x) (thash t)) (fun _ => sh) (elements tr))
                 = map strip (elements tr)).
    { eapply update_first_strip; [exact Ef|]. apply merge_content_strip. }
    pose proof (keys_of_strip_eq _ _ Es) as Ek.
    destruct S as [S1 S2 S3 S4 S5].
    eexists; exists (Some sh). split; [reflexivity|]. cbn [elements unchained cap].
    split.
    { constructor; cbn [elements unchained]; auto.
      - apply update_first_Forall; [assumption|].
        rewrite Forall_forall in S1. destruct (S1 _ Hsh) as [A B].
        unfold sh. rewrite (strip_eq_tverify _ _ (merge_content_strip shadow t)).
        rewrite (merge_content_strip shadow t). auto.
      - eapply chain_ok_strip_eq; eauto.
      - rewrite Ek. assumption. }
    split; [reflexivity|]. rewrite Ek. split; [apply incl_refl|].
    split; [unfold chained; rewrite Ek; auto|].
    split.
    { intros _. split; [lia|]. split; [apply incl_refl|]. split; [auto|]. split; [auto|].
      intros _. rewrite <- Eh. unfold M16_tokentree.keys. apply in_map. assumption. }
    split; [intros Nr; contradiction|reflexivity].
  - (* appended; every waiter pointing to it is woken *)
    pose proof (find_key_None _ _ Ef) as Nk.
    set (tr1 := mkTree (elements tr ++ [t]) (unchained tr) (cap tr)).
    set (ws := filter (fun l => bytes_eqb (t_prev l) (thash t)) (unchained tr)).
    destruct S as [S1 S2 S3 S4 S5].
    assert (S1' : Sound P tr1).
    { constructor; cbn [elements unchained tr1]; auto.
      - apply Forall_app. split; [assumption|]. constructor; [|constructor]. auto.
      - constructor; assumption.
      - rewrite keys_app. simpl.
        apply NoDup_snoc; assumption. }
    assert (Hws : forall r, In r ws -> In r (unchained tr1) /\ chained (elements tr1) r).
    { intros r Hr. apply filter_In in Hr as [A B]. apply bytes_eqb_eq in B. split; [exact A|].
      unfold chained. cbn [elements tr1]. rewrite keys_app, B. apply in_or_app. right. left. reflexivity. }
    destruct (wake_spec P f (gather f) (fun tr0 t0 L0 S0 P0 => IH tr0 t0 L0 S0 P0) ws tr1 S1'
                ltac:(cbn [unchained tr1]; lia) (NoDup_map_filter _ _ _ S5) Hws)
      as [tr2 [Ew [S2' [C2 [K2 [L2 [I2 [D2 [E2 G2]]]]]]]]].
    rewrite Ew. exists tr2, (Some t). split; [reflexivity|]. split; [assumption|].
    split; [exact C2|].
    assert (K1 : incl (keys (elements tr)) (keys (elements tr1))).
    { cbn [elements tr1]. rewrite keys_app. apply incl_appl, incl_refl. }
    split; [eapply incl_tran; eauto|].
    split.
    { intros u Hu Hc. destruct (E2 u Hu Hc) as [A [B Cn]]. cbn [unchained elements tr1] in *.
      split; [assumption|]. unfold chained in B. rewrite keys_app in B.
      apply in_app_or in B as [B|[B|[]]]; [assumption|].
      exfalso. apply Cn. apply filter_In. split; [assumption|]. apply bytes_eqb_eq. auto. }
    split.
    { intros _. cbn [unchained elements tr1] in *. split; [assumption|]. split; [assumption|].
      split.
      { intros u Hu Hc. apply D2; auto.
        - unfold chained. apply K1. assumption.
        - intros Hw. apply filter_In in Hw as [_ B]. apply bytes_eqb_eq in B.
          apply Nk. rewrite <- B. assumption. }
      split; [assumption|].
      intros _. apply K2. cbn [elements tr1]. rewrite keys_app. apply in_or_app. right. left. reflexivity. }
    split; [intros Nr; contradiction|reflexivity].
Qed.

(* ---------------------------------------------------------------- top level: no waiter is ready *)
Definition NoneReady (tr : tree) : Prop :=
  forall u, In u (unchained tr) -> ~ chained (elements tr) u.

Lemma gather_top_spec P tr t : Sound P tr -> gpre P t -> gpost P tr t (gather_top tr t).
Proof. intros S Pt. unfold M16_tokentree.gather_top. apply gather_spec; auto. Qed.

Lemma gather_top_NoneReady P tr t tr' r :
  Sound P tr -> gpre P t -> NoneReady tr -> gather_top tr t = Ok (tr', r) -> NoneReady tr'.
Proof.
  intros S Pt NR E. destruct (gather_top_spec P tr t S Pt) as [tr2 [r2 [E2 [_ [_ [_ [He _]]]]]]].
  rewrite E in E2. inversion E2; subst. intros u Hu Hc. destruct (He u Hu Hc) as [A B].
  exact (NR u A B).
Qed.

Lemma gpre_of_In P t : In t P -> gpre P t.
Proof. intros H _. apply in_map. assumption. Qed.

(* a whole sequence of arrivals: never fails, keeps the invariants *)
Lemma gather_all_inv P : forall arr tr,
  incl arr P -> Sound P tr -> NoneReady tr ->
  exists tr', gather_all tr arr = Ok tr' /\ Sound P tr' /\ NoneReady tr' /\ cap tr' = cap tr.
Proof.
  induction arr as [|t arr IH]; intros tr I S NR.
  - exists tr. simpl. auto.
  - assert (Pt : gpre P t) by (apply gpre_of_In, I; left; reflexivity).
    destruct (gather_top_spec P tr t S Pt) as [tr1 [r [E [S1 [C1 _]]]]].
    pose proof (gather_top_NoneReady P tr t tr1 r S Pt NR E) as NR1.
    simpl. rewrite E.
    destruct (IH tr1 ltac:(intros x Hx; apply I; right; assumption) S1 NR1) as [tr2 [E2 [S2 [NR2 C2]]]].
    exists tr2. split; [assumption|]. split; [assumption|]. split; [assumption|congruence].
Qed.

End Gather.
