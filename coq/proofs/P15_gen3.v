(* C15 extension - generated = hand model, part 3: the handlers, one step, whole runs. *)
From Coq Require Import ZArith List Bool Lia ZifyBool Arith.
From IPV8V Require Import lib.PyErr lib.Bytes lib.BE gen.G15_consts model.M15_dht_store model.M15_py gen.G15_handlers
  model.M15_store_gen proofs.P15_storage proofs.P15_codec proofs.P15_token proofs.P15_gen proofs.P15_gen2.
Import ListNotations.
Open Scope Z_scope.

Lemma maxlen_pos : 1 <= g_last_queries_maxlen.
Proof. cbv [g_last_queries_maxlen NODE_LIMIT_QUERIES]. lia. Qed.
Lemma secrets_maxlen_pos : 1 <= TOKEN_SECRETS_MAXLEN.
Proof. cbv [TOKEN_SECRETS_MAXLEN]. lia. Qed.
Lemma find_limit_nonneg : 0 <= MAX_VALUES_IN_FIND.
Proof. cbv [MAX_VALUES_IN_FIND]. lia. Qed.

(* ---- get_requesting_node ---- *)
Lemma gx_get_requesting_node_ok now known lq :
  gx_get_requesting_node now known lq =
  Ok (if known && blocked now lq then [EReturnNode false] else [ERtAdd; EStampQuery; EReturnNode true]).
Proof.
  unfold gx_get_requesting_node. rewrite (g_node_blocked_ok now lq maxlen_pos). cbn [bind pand].
  destruct known; cbn [andb bind]; [destruct (blocked now lq)|]; reflexivity.
Qed.

Definition admitted_queries (g : gstate) (nid : bytes) (now : Z) (known kept : bool) : list (bytes * list Z) :=
  let lq := if known then qget (g_queries g) nid else [] in
  qset (g_queries g) nid (if kept then py_deque_append g_last_queries_maxlen lq now else []).
Definition is_blocked (g : gstate) (nid : bytes) (now : Z) (known : bool) : bool :=
  known && blocked now (if known then qget (g_queries g) nid else []).

Lemma requesting_node_ok g nid now known kept :
  requesting_node g nid now known kept =
  Ok (if is_blocked g nid now known then (g, false)
      else (mkG (g_base g) (admitted_queries g nid now known kept), true)).
Proof.
  unfold requesting_node, is_blocked, admitted_queries. cbv zeta. rewrite gx_get_requesting_node_ok. cbn [bind].
  destruct (known && blocked now (if known then qget (g_queries g) nid else [])); reflexivity.
Qed.

Section Handlers.
Variable hash : bytes -> bytes.
Variable enc : bytes -> bytes.
Variable verify : bytes -> bytes -> bytes -> bool.
Variable siglen : bytes -> res nat.

Lemma gen_add_values_ok vals : forall s now key ma,
  gen_add_values hash verify siglen s now key vals ma = add_values hash verify siglen s now key vals ma.
Proof.
  induction vals as [|v vals IH]; intros s now key ma; cbn [gen_add_values M15_dht_store.add_values]; [reflexivity|].
  rewrite g_add_value_ok. destruct (add_value hash verify siglen s now key v ma); [apply IH | reflexivity].
Qed.

Lemma existsb_gt_lt values :
  existsb (fun value => blen value >? MAX_ENTRY_SIZE) values = existsb (fun v => MAX_ENTRY_SIZE <? blen v) values.
Proof. induction values as [|v l IH]; cbn [existsb]; [reflexivity|]. rewrite IH, Z.gtb_ltb. reflexivity. Qed.

Lemma gx_on_store_request_ok st rq token values nc :
  gx_on_store_request hash (ident hash enc rq) (secrets st) token values nc =
  Ok (if store_gate hash enc st rq token values then [EAddValues (store_max_age nc); ESendStoreResponse] else []).
Proof.
  unfold gx_on_store_request, M15_dht_store.store_gate. rewrite existsb_gt_lt.
  destruct (existsb (fun v => MAX_ENTRY_SIZE <? blen v) values); cbn [negb andb]; [reflexivity|].
  unfold py_len. rewrite Z.gtb_ltb.
  destruct (MAX_VALUES_IN_STORE <? Z.of_nat (length values)); cbn [negb andb]; [reflexivity|].
  rewrite g_check_token_ok. destruct (check_token hash enc st rq token); cbn [negb]; [|reflexivity].
  assert (Hp : 0 < 2 ^ Z.max 0 (nc - TARGET_NODES + 1)) by (apply Z.pow_pos_nonneg; lia).
  replace (Z.pow 2 (Z.max 0 (Z.add (Z.sub nc TARGET_NODES) 1)) =? 0) with false by (symmetry; apply Z.eqb_neq; lia).
  reflexivity.
Qed.

Lemma g_on_store_ok g rq nid now known kept token target values nc :
  g_on_store hash enc verify siglen g rq nid now known kept token target values nc =
  if is_blocked g nid now known then (g, GO (RStore false None))
  else let '(st', r) := on_store hash enc verify siglen (g_base g) rq now token target values nc in
       (mkG st' (admitted_queries g nid now known kept), GO r).
Proof.
  unfold g_on_store. rewrite requesting_node_ok. destruct (is_blocked g nid now known); [reflexivity|].
  cbn [g_base g_queries]. rewrite gx_on_store_request_ok. unfold M15_dht_store.on_store.
  destruct (store_gate hash enc (g_base g) rq token values).
  - cbn [exec_store]. rewrite gen_add_values_ok.
    destruct (add_values hash verify siglen (store (g_base g)) now target values (store_max_age nc)) as [s' [e|]];
      cbn [exec_store]; reflexivity.
  - cbn [exec_store]. unfold with_store. destruct (g_base g); reflexivity.
Qed.

Lemma g_on_find_ok g rq nid now known kept target offset force :
  0 <= offset -> secrets (g_base g) <> [] ->
  g_on_find hash enc g rq nid now known kept target offset force =
  if is_blocked g nid now known then (g, GNoAnswer None)
  else let '(st', r) := on_find hash enc (g_base g) rq target (Z.to_nat offset) force in
       (mkG st' (admitted_queries g nid now known kept), GO r).
Proof.
  intros Ho Hs. unfold g_on_find. rewrite requesting_node_ok. destruct (is_blocked g nid now known); [reflexivity|].
  cbn [g_base g_queries]. unfold gx_on_find_request, M15_dht_store.on_find.
  destruct force; cbn [negb bind].
  - unfold econs. cbn [exec_find]. rewrite g_generate_token_ok by exact Hs. reflexivity.
  - rewrite g_get_ok; [|exact Ho|intros n E; inversion E; apply find_limit_nonneg]. cbn [bind]. unfold econs. cbn [exec_find].
    rewrite g_generate_token_ok by exact Hs. reflexivity.
Qed.

Lemma pset_same p k : pget p k <> [] -> pset p k (pget p k) = p.
Proof.
  induction p as [|[k' l] p IH]; cbn [pget pset]; intros H; [congruence|].
  destruct (bytes_eqb k' k); [reflexivity|]. rewrite IH by exact H. reflexivity.
Qed.

Lemma g_on_store_peer_ok g rq token target :
  g_on_store_peer hash enc g rq token target =
  let '(st', r) := on_store_peer hash enc (g_base g) rq token target in (mkG st' (g_queries g), GO r).
Proof.
  unfold g_on_store_peer, gx_on_store_peer_request, M15_dht_store.on_store_peer. cbv zeta.
  rewrite g_check_token_ok. unfold econs.
  destruct (check_token hash enc (g_base g) rq token); cbn [negb].
  2:{ cbn [exec_store_peer]. destruct g as [[a b c] q]; reflexivity. }
  destruct (bytes_eqb target (hash (r_pk rq))); cbn [negb].
  2:{ cbn [exec_store_peer]. destruct g as [[a b c] q]; reflexivity. }
  replace (existsb (fun e_ => bytes_eqb e_ (r_pk rq)) (pget (peers (g_base g)) target))
    with (existsb (bytes_eqb (r_pk rq)) (pget (peers (g_base g)) target)).
  2:{ induction (pget (peers (g_base g)) target) as [|y l IH]; cbn [existsb]; [reflexivity|]. rewrite IH, bytes_eqb_sym. reflexivity. }
  destruct (existsb (bytes_eqb (r_pk rq)) (pget (peers (g_base g)) target)) eqn:Ee; cbn [negb exec_store_peer]; [|reflexivity].
  rewrite pset_same; [reflexivity|]. intro F. rewrite F in Ee. discriminate.
Qed.

(* ---- one step ---- *)
Definition admission (o : gop) : option (bytes * Z * bool * bool) :=
  match o with
  | GFind _ nid now known kept _ _ _ => Some (nid, now, known, kept)
  | GStore _ nid now known kept _ _ _ _ => Some (nid, now, known, kept)
  | _ => None
  end.
Definition gop_wf (o : gop) : Prop :=
  match o with
  | GFind _ _ _ _ _ _ offset _ => 0 <= offset
  | GGet _ start limit => 0 <= start /\ forall n, limit = Some n -> 0 <= n
  | _ => True
  end.
Definition silent (o : gop) : gout :=
  match o with GStore _ _ _ _ _ _ _ _ _ => GO (RStore false None) | _ => GNoAnswer None end.
Definition ginv (g : gstate) : Prop :=
  secrets (g_base g) <> [] /\ NoDup (map fst (store (g_base g))).

Notation gstep := (gstep hash enc verify siglen).
Notation grun := (grun hash enc verify siglen).
Notation step := (step hash enc verify siglen).
Notation run := (run hash enc verify siglen).

Lemma gstep_refines_l g o :
  ginv g -> gop_wf o ->
  gstep g o =
  match admission o with
  | Some (nid, now, known, kept) =>
      if is_blocked g nid now known then (g, silent o)
      else let '(st', r) := step (g_base g) (base_op o) in
           (mkG st' (admitted_queries g nid now known kept), GO r)
  | None => let '(st', r) := step (g_base g) (base_op o) in (mkG st' (g_queries g), GO r)
  end.
Proof.
  intros [Hs Hk] Hwf. destruct o; cbn [M15_store_gen.gstep admission base_op silent M15_dht_store.step].
  - apply g_on_find_ok; [exact Hwf | exact Hs].
  - apply g_on_store_ok.
  - apply g_on_store_peer_ok.
  - reflexivity.
  - rewrite g_clean_ok by exact Hk. reflexivity.
  - rewrite g_put_ok. reflexivity.
  - destruct Hwf as [H1 H2]. rewrite g_get_ok by assumption. destruct g; reflexivity.
  - rewrite g_post_process_ok. destruct g; reflexivity.
  - rewrite g_unserialize_ok. destruct g; reflexivity.
  - destruct g; reflexivity.
Qed.

(* a blocked sender: nothing at all happens *)
Lemma blocked_changes_nothing_l g o nid now known kept :
  admission o = Some (nid, now, known, kept) -> is_blocked g nid now known = true -> gstep g o = (g, silent o).
Proof.
  intros Ha Hb. destruct o; cbn [admission] in Ha; try discriminate; inversion Ha; subst; cbn [M15_store_gen.gstep silent].
  - unfold g_on_find. rewrite requesting_node_ok, Hb. reflexivity.
  - unfold g_on_store. rewrite requesting_node_ok, Hb. reflexivity.
Qed.

End Handlers.

(* ---- invariants and whole runs ---- *)
Lemma sset_keys s k l :
  map fst (sset s k l) = if existsb (fun e => bytes_eqb (fst e) k) s then map fst s else map fst s ++ [k].
Proof.
  induction s as [|[k' l'] s IH]; cbn [sset existsb map fst]; [reflexivity|].
  destruct (bytes_eqb k' k); cbn [orb map fst]; [reflexivity|]. rewrite IH. destruct (existsb _ s); reflexivity.
Qed.

Lemma sset_nodup s k l : NoDup (map fst s) -> NoDup (map fst (sset s k l)).
Proof.
  intros H. rewrite sset_keys. destruct (existsb (fun e => bytes_eqb (fst e) k) s) eqn:E; [exact H|].
  apply NoDup_snoc; [exact H|]. intro Hin. apply in_map_iff in Hin as [e [He Hin]].
  assert (F : existsb (fun e => bytes_eqb (fst e) k) s = true).
  { apply existsb_exists. exists e. split; [exact Hin | apply bytes_eqb_eq; exact He]. }
  congruence.
Qed.

Section Runs.
Variable hash : bytes -> bytes.
Variable enc : bytes -> bytes.
Variable verify : bytes -> bytes -> bytes -> bool.
Variable siglen : bytes -> res nat.
Notation gstep := (gstep hash enc verify siglen).
Notation grun := (grun hash enc verify siglen).
Notation step := (step hash enc verify siglen).
Notation run := (run hash enc verify siglen).

Lemma put_nodup s now key data id ma ver : NoDup (map fst s) -> NoDup (map fst (put hash s now key data id ma ver)).
Proof.
  intros H. unfold M15_dht_store.put. cbv zeta.
  destruct (index_of _ _); [destruct (nth_error _ _); [destruct (_ <=? _)|]|]; try exact H; apply sset_nodup; exact H.
Qed.

Lemma add_values_nodup vals : forall s now key ma,
  NoDup (map fst s) -> NoDup (map fst (fst (add_values hash verify siglen s now key vals ma))).
Proof.
  induction vals as [|v vals IH]; intros s now key ma H; cbn [M15_dht_store.add_values]; [exact H|].
  unfold M15_dht_store.add_value.
  destruct (unserialize verify siglen v) as [[[[d pk] ver]|]|e]; cbn [bind]; [| apply IH; exact H | exact H].
  apply IH. apply put_nodup. exact H.
Qed.

Lemma step_keys_nodup st o : NoDup (map fst (store st)) -> NoDup (map fst (store (fst (step st o)))).
Proof.
  intros H. destruct o; cbn [M15_dht_store.step fst]; try exact H.
  - unfold M15_dht_store.on_store. destruct (store_gate hash enc st rq token values); [|exact H].
    pose proof (add_values_nodup values (store st) now target (store_max_age num_closer) H) as A.
    destruct (add_values hash verify siglen (store st) now target values (store_max_age num_closer)). exact A.
  - unfold M15_dht_store.on_store_peer. destruct (negb _); [exact H|]. destruct (negb _); exact H.
  - cbn [store]. unfold clean. rewrite map_map. cbn [fst]. exact H.
  - cbn [store]. apply put_nodup. exact H.
Qed.

Lemma step_secrets_nonempty st o : secrets st <> [] -> secrets (fst (step st o)) <> [].
Proof.
  intros H. rewrite step_secrets. destruct o; try exact H.
  apply lastn_nonempty; [pose proof secrets_maxlen_pos; lia|]. destruct (secrets st); discriminate.
Qed.

Lemma gstep_base g o :
  ginv g -> gop_wf o ->
  (g_base (fst (gstep g o)) = fst (step (g_base g) (base_op o)))
  \/ (fst (gstep g o) = g /\ admission o <> None).
Proof.
  intros Hi Hw. rewrite (gstep_refines_l hash enc verify siglen g o Hi Hw).
  destruct (admission o) as [[[[nid now] known] kept]|].
  - destruct (is_blocked g nid now known); [right; split; [reflexivity | discriminate]|].
    left. destruct (step (g_base g) (base_op o)). reflexivity.
  - left. destruct (step (g_base g) (base_op o)). reflexivity.
Qed.

Lemma gstep_inv g o : ginv g -> gop_wf o -> ginv (fst (gstep g o)).
Proof.
  intros Hi Hw. destruct (gstep_base g o Hi Hw) as [E|[E _]]; [|rewrite E; exact Hi].
  destruct Hi as [H1 H2]. unfold ginv. rewrite E. split; [apply step_secrets_nonempty; exact H1 | apply step_keys_nodup; exact H2].
Qed.

Lemma grun_cons g o ops : fst (grun g (o :: ops)) = fst (grun (fst (gstep g o)) ops).
Proof.
  cbn [M15_store_gen.grun]. destruct (gstep g o) as [g1 r]. cbn [fst]. destruct (grun g1 ops). reflexivity.
Qed.

Lemma admitted_no_rotation o : admission o <> None -> rotations [base_op o] = [].
Proof. destruct o; cbn [admission]; intros H; try congruence; reflexivity. Qed.

(* the generated node is simulated by the hand model: its base state after any well-formed operations is the hand
   model's state after those of them that were not dropped by the rate limit; no rotation is ever dropped *)
Lemma grun_simulated_l ops : forall g,
  ginv g -> Forall gop_wf ops ->
  exists bops, g_base (fst (grun g ops)) = fst (run (g_base g) bops)
               /\ (forall o, In o bops -> In o (map base_op ops))
               /\ rotations bops = rotations (map base_op ops)
               /\ ginv (fst (grun g ops)).
Proof.
  induction ops as [|o ops IH]; intros g Hi Hw.
  - exists []. split; [reflexivity|]. split; [intros o []|]. split; [reflexivity | exact Hi].
  - inversion Hw as [|? ? Hwo Hwt]; subst. rewrite grun_cons.
    destruct (IH (fst (gstep g o)) (gstep_inv g o Hi Hwo) Hwt) as [bops [H1 [H2 [H3 H4]]]].
    destruct (gstep_base g o Hi Hwo) as [E|[E Ha]].
    + exists (base_op o :: bops). split; [|split; [|split]].
      * rewrite H1, E. rewrite run_cons. reflexivity.
      * intros o' [<-|Ho']; [left; reflexivity | right; apply H2; exact Ho'].
      * cbn [map]. change (base_op o :: bops) with ([base_op o] ++ bops).
        change (base_op o :: map base_op ops) with ([base_op o] ++ map base_op ops).
        unfold rotations in *. rewrite !flat_map_app. rewrite H3. reflexivity.
      * exact H4.
    + exists bops. rewrite E in *. split; [exact H1|]. split; [|split].
      * intros o' Ho'. right. apply H2. exact Ho'.
      * cbn [map]. change (base_op o :: map base_op ops) with ([base_op o] ++ map base_op ops).
        unfold rotations in *. rewrite flat_map_app. fold (rotations [base_op o]).
        rewrite (admitted_no_rotation o Ha). exact H3.
      * exact H4.
Qed.

Lemma ginit_inv s0 : ginv (ginit s0).
Proof. split; cbn; [discriminate | constructor]. Qed.

End Runs.

(* ---- the C15 statements over the generated definitions ---- *)
Section Lifted.
Variable hash : bytes -> bytes.
Variable enc : bytes -> bytes.
Variable verify : bytes -> bytes -> bytes -> bool.
Variable siglen : bytes -> res nat.
Notation gstep := (gstep hash enc verify siglen).
Notation grun := (grun hash enc verify siglen).

Lemma gen_expired_gone_l now s :
  NoDup (map fst s) ->
  exists s', g_clean now s = Ok s'
    /\ forall k v, In v (sget s' k) <-> In v (sget s k) /\ now - v_last v <= v_maxage v.
Proof. intros H. exists (clean now s). split; [apply g_clean_ok; exact H | intros k v; apply clean_exact_l]. Qed.

Lemma gen_signed_only_if_verifies_l value d pk ver :
  g_unserialize_value verify siglen value = Ok (Some (d, Some pk, ver)) ->
  exists n, siglen pk = Ok n
    /\ verify pk (slice value None (Some (- Z.of_nat n))) (slice value (Some (- Z.of_nat n)) None) = true
    /\ slice value None (Some (- Z.of_nat n)) ++ slice value (Some (- Z.of_nat n)) None = value.
Proof.
  rewrite g_unserialize_ok. intros H. apply unserialize_signed_l in H as [n [_ [H1 [H2 H3]]]]. exists n. auto.
Qed.

Lemma gen_lookup_highest_l vals res data pk :
  g_post_process_values verify siglen vals = Ok res -> In (data, Some pk) res ->
  exists value ver, In value vals /\ g_unserialize_value verify siglen value = Ok (Some (data, Some pk, ver))
    /\ forall value' d' ver', In value' vals ->
         g_unserialize_value verify siglen value' = Ok (Some (d', Some pk, ver')) -> ver' <= ver.
Proof.
  rewrite g_post_process_ok. intros H Hin.
  destruct (lookup_signed_l verify siglen vals res data pk H Hin) as [value [ver [H1 [H2 H3]]]].
  exists value, ver. split; [exact H1|]. split; [rewrite g_unserialize_ok; exact H2|].
  intros value' d' ver' Hv He. rewrite g_unserialize_ok in He. eapply H3; eauto.
Qed.

Lemma gen_lookup_shape_l vals res :
  g_post_process_values verify siglen vals = Ok res ->
  exists sg us, res = sg ++ us /\ NoDup (map snd sg) /\ (forall e, In e sg -> snd e <> None)
                /\ (forall e, In e us -> snd e = None).
Proof. rewrite g_post_process_ok. apply lookup_shape_l. Qed.

Lemma gen_put_monotone_l now s key data id ma ver :
  exists s', g_put hash now s key data id ma ver = Ok s'
    /\ forall k v, In v (sget s k) ->
         exists v', In v' (sget s' k) /\ v_id v' = v_id v /\ v_version v <= v_version v'.
Proof. exists (put hash s now key data id ma ver). split; [apply g_put_ok | intros k v; apply put_monotone_l]. Qed.

Lemma gen_store_requires_token_l g rq nid now known kept token target values nc :
  (Forall (fun v => blen v <= MAX_ENTRY_SIZE) values /\ Z.of_nat (length values) <= MAX_VALUES_IN_STORE
   /\ exists s, In s (secrets (g_base g)) /\ token = hash (ident hash enc rq ++ s))
  \/ (g_base (fst (gstep g (GStore rq nid now known kept token target values nc))) = g_base g
      /\ snd (gstep g (GStore rq nid now known kept token target values nc)) = GO (RStore false None)).
Proof.
  cbn [M15_store_gen.gstep]. rewrite g_on_store_ok.
  destruct (is_blocked g nid now known); [right; split; reflexivity|].
  destruct (store_requires_token_l hash enc verify siglen (g_base g) rq now token target values nc) as [H|H];
    [left; exact H | right]. rewrite H. split; reflexivity.
Qed.

Definition no_gput (ops : list gop) : Prop :=
  forall o, In o ops -> forall now key data id ma ver, o <> GPut now key data id ma ver.

Lemma gen_reachable_store_ok_l s0 ops k v :
  Forall gop_wf ops -> no_gput ops ->
  In v (sget (store (g_base (fst (grun (ginit s0) ops)))) k) ->
  authentic hash verify siglen v /\ 0 <= v_maxage v <= MAX_ENTRY_AGE.
Proof.
  intros Hw Hnp Hin.
  destruct (grun_simulated_l hash enc verify siglen ops (ginit s0) (ginit_inv s0) Hw) as [bops [H1 [H2 _]]].
  rewrite H1 in Hin. cbn [ginit g_base] in Hin.
  assert (Hb : no_put bops).
  { intros o Ho now key data id ma ver E. apply H2 in Ho. apply in_map_iff in Ho as [go [Hgo Hin']].
    rewrite E in Hgo. destruct go; cbn [base_op] in Hgo; try discriminate. eapply Hnp; [exact Hin' | reflexivity]. }
  assert (Hma : 0 <= MAX_ENTRY_AGE) by (cbv [MAX_ENTRY_AGE]; lia).
  destruct (reachable_store_ok_l hash enc verify siglen s0 bops k v Hb Hma Hin) as [A [B _]]. auto.
Qed.

Lemma gen_token_window_l
  (hash_inj : forall a b, hash a = hash b -> a = b) (enc_inj : forall a b, enc (hash a) = enc (hash b) -> hash a = hash b)
  g rq' nid' now' known' kept' target' off' force' g1 tok vals' ops rq vals :
  ginv g -> 0 <= off' -> Forall gop_wf ops ->
  NoDup (secrets (g_base g) ++ rotations (map base_op ops)) ->
  (forall s s', In s (secrets (g_base g) ++ rotations (map base_op ops)) ->
                In s' (secrets (g_base g) ++ rotations (map base_op ops)) -> length s = length s') ->
  ~ In 32 (r_addr rq) -> ~ In 32 (r_addr rq') ->
  gstep g (GFind rq' nid' now' known' kept' target' off' force') = (g1, GO (RFind tok vals')) ->
  store_gate hash enc (g_base (fst (grun g1 ops))) rq tok vals = true ->
  r_addr rq' = r_addr rq /\ r_pk rq' = r_pk rq
  /\ Z.of_nat (length (rotations (map base_op ops))) < Z.max 1 TOKEN_SECRETS_MAXLEN.
Proof.
  intros Hi Ho Hw Hnd Hlen Ha Ha' Hf Hg.
  cbn [M15_store_gen.gstep] in Hf. rewrite g_on_find_ok in Hf by (destruct Hi; assumption).
  destruct (is_blocked g nid' now' known'); [inversion Hf|].
  unfold M15_dht_store.on_find in Hf. inversion Hf as [[Hg1 Htok Hvals]]. clear Hf.
  assert (Hb1 : g_base g1 = g_base g) by (rewrite <- Hg1; reflexivity).
  assert (Hi1 : ginv g1) by (unfold ginv; rewrite Hb1; exact Hi).
  destruct (grun_simulated_l hash enc verify siglen ops g1 Hi1 Hw) as [bops [H1 [_ [H3 _]]]].
  rewrite H1, Hb1 in Hg. rewrite <- H3 in *.
  apply (token_window_l hash enc verify siglen hash_inj enc_inj (g_base g) rq' target' (Z.to_nat off') force' tok
           (if force' then [] else get (store (g_base g)) target' (Z.to_nat off') (Some MAX_VALUES_IN_FIND)) bops rq vals);
    try assumption; [destruct Hi; assumption|].
  unfold M15_dht_store.on_find. cbn [snd]. rewrite Htok. reflexivity.
Qed.

End Lifted.
