(* C09, path level, circuits under construction - the family of ids of one circuit and the cross-node
   invariant over it.

   Every id of the family has an upper end (the node that allocated it: the originator for its own id, the
   node asked to extend otherwise) and lower ends (the candidates it was offered to).  Per node (`ngoodF`):
   whatever the node holds under an id of the family is what the end it sits at may hold - at the upper end the
   originator's circuit, a backward route, a create-request cache; at a lower end an exit socket, a forward
   route, the created-cache, the deferred bodies of on_create / on_extend - with routing fields that follow the
   tree; activity stamps are at most Tmax = tq + 2 * depth * D; deferred handler bodies and the originator's
   retry tasks carry the time bound under which what they will send is still early enough.
   Per message (`mgoodF`): a cell for an id of level m travels between its two ends, downwards (sent by
   tq + (m-1) * D) or upwards (sent by tq + (2 * depth - m) * D); created / extended only upwards, create /
   extend / ping only downwards. *)
From Coq Require Import ZArith List Bool Lia ZifyBool.
From IPV8V Require Import gen.G09_rules model.M09_reclaim model.M09_network spec.S09_reclaim proofs.P09_alist
  proofs.P09_network_frame proofs.P09_network_node proofs.P09_network_step proofs.P09_network_path.
Import ListNotations.
Open Scope Z_scope.

Lemma inl_in n l : inl n l = true <-> In n l.
Proof. apply existsb_eqb_in. Qed.

Lemma forallb_aget' {A} (f : Z * A -> bool) l x v : forallb f l = true -> aget x l = Some v -> f (x, v) = true.
Proof. intros H Hg. apply aget_in in Hg. rewrite forallb_forall in H. apply H. exact Hg. Qed.

(* entries of an association list after an update *)
Lemma all_aset {A} (P : Z -> A -> Prop) l x v :
  (forall k a, aget k l = Some a -> P k a) -> P x v -> forall k a, aget k (aset x v l) = Some a -> P k a.
Proof.
  intros H Hv k a Hg. rewrite aget_aset in Hg. destruct (k =? x) eqn:E; [|auto].
  apply Z.eqb_eq in E. subst k. inversion Hg; subst a. exact Hv.
Qed.

Section BInv.
Variable st : settings.
Variable D : Z.
Variable F : family.
Variable O x0 : Z.
Variable h : nat.
Variable tq : Z.
Hypothesis HD : 0 <= D.
Hypothesis Hwf : fam_ok_b F O x0 h = true.

Definition IF : Z -> bool := inF F.
Definition TmaxB : Z := tq + 2 * Z.of_nat h * D.
Definition T0 : list Z := tgts0 F x0.

Lemma TmaxB_ge : tq <= TmaxB.
Proof. unfold TmaxB. assert (0 <= 2 * Z.of_nat h * D) by (apply Z.mul_nonneg_nonneg; lia). lia. Qed.

Lemma IF_some x : IF x = true <-> exists i, aget x F = Some i.
Proof. unfold IF, inF. apply ahas_aget. Qed.

Lemma IF_none x : IF x = false <-> aget x F = None.
Proof. unfold IF, inF. apply ahas_false. Qed.

(* ---------------------------------------------------------------- the family is a tree *)
Lemma fam_info x i : aget x F = Some i ->
  (1 <= f_lvl i <= h)%nat /\ ~ In (f_par i) (f_tgts i)
  /\ match f_from i with
     | None => f_lvl i = 1%nat
     | Some z => exists iz, aget z F = Some iz /\ f_lvl i = S (f_lvl iz) /\ In (f_par i) (f_tgts iz)
     end.
Proof.
  intro Hg. unfold fam_ok_b in Hwf. apply andb_true_iff in Hwf. destruct Hwf as [H1 _].
  apply andb_true_iff in H1. destruct H1 as [H1 _].
  pose proof (forallb_aget' _ _ _ _ H1 Hg) as X. unfold finfo_ok_b in X. simpl in X.
  repeat (apply andb_true_iff in X; destruct X as [X ?]).
  split; [split; [apply Nat.leb_le; exact X | apply Nat.leb_le; assumption]|]. split.
  - intro Hin. apply inl_in in Hin. rewrite Hin in H0. discriminate.
  - destruct (f_from i) as [z|]; [|apply Nat.eqb_eq; exact H].
    destruct (aget z F) as [iz|]; [|discriminate]. apply andb_true_iff in H. destruct H as [Ha Hb].
    exists iz. split; [reflexivity|]. split; [apply Nat.eqb_eq; exact Ha | apply inl_in; exact Hb].
Qed.

Lemma fam_root : exists i0, aget x0 F = Some i0 /\ f_lvl i0 = 1%nat /\ f_par i0 = O /\ f_from i0 = None
                            /\ f_tgts i0 = T0.
Proof.
  unfold fam_ok_b in Hwf. apply andb_true_iff in Hwf. destruct Hwf as [_ H]. unfold T0, tgts0.
  destruct (aget x0 F) as [i0|]; [|discriminate]. exists i0.
  repeat (apply andb_true_iff in H; destruct H as [H ?]).
  split; [reflexivity|]. split; [apply Nat.eqb_eq; exact H|]. split; [lia|].
  split; [destruct (f_from i0); [discriminate | reflexivity] | reflexivity].
Qed.

(* ---------------------------------------------------------------- what a node may hold *)
Definition circ_good (n : Z) (s : node) (x : Z) (c : circuit) : Prop :=
  n = O /\ x = x0 /\ In (c_first c) T0 /\ 0 <= c_hops c
  /\ (c_hops c = 0 -> forall u, c_unver c = Some u -> In u T0)
  /\ ((c_closing c = true /\ exists due, In (due, KCirc, x) (sleeping s) /\ due <= tq + s_remove_delay st)
      \/ (c_closing c = false /\ c_hops c < c_goal c
          /\ creation (c_ro c) + build_bound st (c_goal c) + s_remove_delay st <= tq)).

Definition relay_good (n x : Z) (ix : finfo) (r : relay) : Prop :=
  la (r_ro r) <= TmaxB
  /\ ((In n (f_tgts ix)
       /\ exists iy, aget (r_next r) F = Some iy /\ f_par iy = n /\ f_from iy = Some x /\ In (r_peer r) (f_tgts iy))
      \/ (n = f_par ix
          /\ exists z iz, f_from ix = Some z /\ r_next r = z /\ aget z F = Some iz /\ r_peer r = f_par iz)).

Definition exit_good (n : Z) (ix : finfo) (e : exitsock) : Prop :=
  In n (f_tgts ix) /\ e_peer e = f_par ix /\ la (e_ro e) <= TmaxB.

Definition cache_good (n : Z) (cc : createc) : Prop :=
  IF (cc_to cc) = true \/ IF (cc_from cc) = true ->
  exists iy iz, aget (cc_to cc) F = Some iy /\ aget (cc_from cc) F = Some iz
                /\ f_par iy = n /\ f_from iy = Some (cc_from cc) /\ In (cc_to_peer cc) (f_tgts iy)
                /\ cc_peer cc = f_par iz.

Definition start_good (n : Z) (s : node) (d : deferred) : Prop :=
  match d with
  | DCreate src x _ => forall ix, aget x F = Some ix ->
      In n (f_tgts ix) /\ src = f_par ix /\ now s <= tq + Z.of_nat (f_lvl ix) * D
  | DExtend _ x _ => forall ix, aget x F = Some ix -> In n (f_tgts ix) /\ now s <= tq + Z.of_nat (f_lvl ix) * D
  | DRetry x _ _ => IF x = true -> n = O /\ x = x0 /\ now s <= tq
  | DOpen x => IF x = true -> now s <= TmaxB
  | DRemove _ _ _ _ => True
  end.

Record ngoodF (n : Z) (s : node) : Prop := mkNGoodF {
  b_circ : forall x c, IF x = true -> aget x (circuits s) = Some c -> circ_good n s x c;
  b_rel : forall x r ix, aget x F = Some ix -> aget x (relays s) = Some r -> relay_good n x ix r;
  b_rel_out : forall x r, IF x = false -> aget x (relays s) = Some r -> IF (r_next r) = false;
  b_exit : forall x e ix, aget x F = Some ix -> aget x (exits s) = Some e -> exit_good n ix e;
  b_createds : forall x due ix, aget x F = Some ix -> aget x (createds s) = Some due -> In n (f_tgts ix);
  b_creates : forall k cc, aget k (creates s) = Some cc -> cache_good n cc;
  b_retries : forall x rt, IF x = true -> aget x (retries s) = Some rt -> n = O /\ x = x0;
  b_starts : forall d, In d (starts s) -> start_good n s d
}.

Definition alive0 (s : node) : Prop := exists c, aget x0 (circuits s) = Some c /\ c_closing c = false.

(* ---------------------------------------------------------------- events that create nothing for the family *)
Lemma ngoodF_frame_flip n s s' (touch : Z -> Prop) :
  ngoodF n s -> frame st IF touch s s' ->
  (forall x, IF x = true -> touch x -> now s <= TmaxB) ->
  (forall c c', aget x0 (circuits s) = Some c -> aget x0 (circuits s') = Some c' ->
                c_closing c = false -> c_closing c' = true -> now s <= tq) ->
  ngoodF n s'.
Proof.
  intros [C R Ro E Cd K T S] Fr Ht Ha. constructor.
  - intros x c' Hi H. destruct (f_circ _ _ _ _ _ Fr _ _ Hi H) as (c & Hc & A1 & A2 & A3 & A4 & A5 & _ & K1 & W).
    destruct (C _ _ Hi Hc) as (Hn & Hx & Hf & Hh & Hu & Hcl).
    split; [exact Hn|]. split; [exact Hx|]. split; [congruence|]. split; [lia|].
    split; [intros Hz u Eu; apply Hu; congruence|].
    destruct Hcl as [(Kc & due & Hin & Hle)|(Kc & Hlt & Hcr)].
    + left. split; [auto|]. exists due. split; [|exact Hle]. apply (f_sleep _ _ _ _ _ Fr); auto. congruence.
    + destruct (c_closing c') eqn:Kc'.
      * left. split; [reflexivity|]. exists (now s + s_remove_delay st). split; [apply W; auto|].
        assert (now s <= tq) by (subst x; eapply Ha; eauto). lia.
      * right. split; [reflexivity|]. rewrite A2, A3, A5. auto.
  - intros x r' ix Hx H. assert (Hi : IF x = true) by (apply IF_some; eauto).
    destruct (f_rel _ _ _ _ _ Fr _ _ Hi H) as (r & Hr & N & P & L).
    destruct (R _ _ _ Hx Hr) as [Hla Hrole]. split.
    + destruct L as [L|[Tx L]]; [lia | rewrite L; eauto].
    + rewrite N, P. exact Hrole.
  - intros x r' Hi H. destruct (f_rel_out _ _ _ _ _ Fr _ _ Hi H) as [(r & Hr & N)|N]; [|exact N].
    rewrite N. eauto.
  - intros x e' ix Hx H. assert (Hi : IF x = true) by (apply IF_some; eauto).
    destruct (f_exit _ _ _ _ _ Fr _ _ Hi H) as (e & He & P & L).
    destruct (E _ _ _ Hx He) as (A & B & Hla). split; [exact A|]. split; [congruence|].
    destruct L as [L|[Tx L]]; [lia | rewrite L; eauto].
  - intros x due ix Hx H. assert (Hi : IF x = true) by (apply IF_some; eauto).
    apply (Cd x due ix Hx). apply (f_createds _ _ _ _ _ Fr); auto.
  - intros k cc H. destruct (f_creates _ _ _ _ _ Fr _ _ H) as [H0|[H1 H2]]; [eauto|].
    intros [Hc|Hc]; congruence.
  - intros x rt Hi H. destruct (f_retries _ _ _ _ _ Fr _ _ Hi H) as (rt0 & H0). eauto.
  - intros d H. pose proof (f_now _ _ _ _ _ Fr) as Hn.
    destruct (f_starts _ _ _ _ _ Fr _ H) as [H0|[Hh Ho]].
    + specialize (S _ H0). destruct d; simpl in *; try rewrite Hn; auto.
    + destruct d as [k c dd rn|src x ident|src x ident|x tr ini|x]; simpl in *; auto.
      * intros ix Hx. assert (IF x = true) by (apply IF_some; eauto). congruence.
      * intros ix Hx. assert (IF x = true) by (apply IF_some; eauto). congruence.
      * intro Hi. congruence.
      * intro Hi. rewrite Hn. destruct (Ho x eq_refl Hi) as [Tx _]. eauto.
Qed.

Lemma ngoodF_frame n s s' (touch : Z -> Prop) :
  ngoodF n s -> frame st IF touch s s' ->
  (forall x, IF x = true -> touch x -> now s <= TmaxB) ->
  (alive0 s -> now s <= tq) ->
  ngoodF n s'.
Proof.
  intros G Fr Ht Ha. eapply ngoodF_frame_flip; eauto.
  intros c c' Hc _ Kc _. apply Ha. exists c. auto.
Qed.

Lemma ngoodF_set_now n s t : on_time st s t = true -> ngoodF n s -> ngoodF n (set_now t s).
Proof.
  intros Ht [C R Ro E Cd K T S]. constructor; auto.
  simpl. intros d H. unfold on_time in Ht. repeat (apply andb_true_iff in Ht; destruct Ht as [Ht ?]).
  destruct (starts s) as [|d0 tl] eqn:Es; [destruct H|].
  assert (now s = t) by lia. subst t. specialize (S _ H). destruct d; simpl in *; auto.
Qed.

(* ---------------------------------------------------------------- events that create something for it *)
Lemma bgood_defer n s d : ngoodF n s -> start_good n s d -> ngoodF n (defer d s).
Proof.
  intros [C R Ro E Cd K T S] Hd. constructor; auto.
  simpl. intros d' H. apply in_app_or in H. destruct H as [H|[H|[]]].
  - specialize (S _ H). destruct d'; simpl in *; auto.
  - subst d'. destruct d; simpl in *; auto.
Qed.

Lemma bgood_add_exit n s x e :
  ngoodF n s -> (forall ix, aget x F = Some ix -> exit_good n ix e) ->
  ngoodF n (set_exits (aset x e (exits s)) s).
Proof.
  intros [C R Ro E Cd K T S] He. constructor; auto.
  simpl. intros y e' iy Hy H. rewrite aget_aset in H. destruct (y =? x) eqn:Eq; [|eauto].
  apply Z.eqb_eq in Eq. subst y. inversion H; subst e'. auto.
Qed.

Lemma bgood_add_created n s x due :
  ngoodF n s -> (forall ix, aget x F = Some ix -> In n (f_tgts ix)) ->
  ngoodF n (set_createds (aset x due (createds s)) s).
Proof.
  intros [C R Ro E Cd K T S] He. constructor; auto.
  simpl. intros y d' iy Hy H. rewrite aget_aset in H. destruct (y =? x) eqn:Eq; [|eauto].
  apply Z.eqb_eq in Eq. subst y. auto.
Qed.

Lemma bgood_add_create n s k cc :
  ngoodF n s -> cache_good n cc -> ngoodF n (set_creates (aset k cc (creates s)) s).
Proof.
  intros [C R Ro E Cd K T S] He. constructor; auto.
  simpl. intros k' cc' H. rewrite aget_aset in H. destruct (k' =? k); [inversion H; subst; auto | eauto].
Qed.

Lemma bgood_add_relay n s x r :
  ngoodF n s -> (forall ix, aget x F = Some ix -> relay_good n x ix r) ->
  (IF x = false -> IF (r_next r) = false) ->
  ngoodF n (set_relays (aset x r (relays s)) s).
Proof.
  intros [C R Ro E Cd K T S] H1 H2. constructor; auto.
  - simpl. intros y r' iy Hy H. rewrite aget_aset in H. destruct (y =? x) eqn:Eq; [|eauto].
    apply Z.eqb_eq in Eq. subst y. inversion H; subst r'. auto.
  - simpl. intros y r' Hi H. rewrite aget_aset in H. destruct (y =? x) eqn:Eq; [|eauto].
    apply Z.eqb_eq in Eq. subst y. inversion H; subst r'. auto.
Qed.

Lemma bgood_add_retry n s x rt :
  ngoodF n s -> (IF x = true -> n = O /\ x = x0) -> ngoodF n (set_retries (aset x rt (retries s)) s).
Proof.
  intros [C R Ro E Cd K T S] He. constructor; auto.
  simpl. intros y rt' Hi H. rewrite aget_aset in H. destruct (y =? x) eqn:Eq; [|eauto].
  apply Z.eqb_eq in Eq. subst y. auto.
Qed.

Lemma bgood_set_circuit n s x c :
  ngoodF n s -> (IF x = true -> circ_good n s x c) -> ngoodF n (set_circuits (aset x c (circuits s)) s).
Proof.
  intros [C R Ro E Cd K T S] He. constructor; auto.
  simpl. intros y c' Hi H. rewrite aget_aset in H. destruct (y =? x) eqn:Eq.
  - apply Z.eqb_eq in Eq. subst y. inversion H; subst c'. apply He. exact Hi.
  - exact (C _ _ Hi H).
Qed.

(* ---------------------------------------------------------------- messages in flight *)
Definition mgoodF (m : msg) : Prop :=
  match m with
  | FCell src dst x _ mid sent => forall ix, aget x F = Some ix ->
      (src = f_par ix /\ In dst (f_tgts ix) /\ kind_dn_b mid = true
       /\ sent <= tq + (Z.of_nat (f_lvl ix) - 1) * D)
      \/ (dst = f_par ix /\ In src (f_tgts ix) /\ kind_upw_b mid = true
          /\ sent <= tq + (2 * Z.of_nat h - Z.of_nat (f_lvl ix)) * D)
  | FDestroy _ _ _ _ _ => True
  end.

Definition wgoodF (w : net) : Prop :=
  (forall n s, aget n (nodes w) = Some s -> ngoodF n s) /\ (forall m, In m (flight w) -> mgoodF m).

Lemma mgoodF_deadline src dst x early mid sent t ix :
  mgoodF (FCell src dst x early mid sent) -> aget x F = Some ix -> t <= sent + D -> t <= TmaxB.
Proof.
  intros M Hx Ht. destruct (fam_info _ _ Hx) as [Hl _]. unfold TmaxB.
  destruct (M _ Hx) as [(_ & _ & _ & Hs)|(_ & _ & _ & Hs)]; nia.
Qed.

(* ---------------------------------------------------------------- the shape check is sound *)
Lemma bnode_shape_sound n s : bnode_shape_b st F O x0 tq (n, s) = true -> ngoodF n s.
Proof.
  unfold bnode_shape_b. intro H. repeat (apply andb_true_iff in H; destruct H as [H ?]).
  rename H into Hc, H0 into Hs, H1 into Hrt, H2 into Hcr, H3 into Hcd, H4 into He, H5 into Hr.
  pose proof TmaxB_ge as TG.
  constructor.
  - intros x c Hi Hg. pose proof (forallb_aget' _ _ _ _ Hc Hg) as X. clear Hc Hs Hrt Hcr Hcd He Hr. unfold bcirc_shape_b in X.
    unfold IF in Hi. rewrite Hi in X. cbn [negb orb] in X.
    apply andb_true_iff in X. destruct X as [X Y]. repeat (apply andb_true_iff in X; destruct X as [X ?]).
    revert Y. apply Z.eqb_eq in X. apply Z.eqb_eq in H2. apply Z.leb_le in H0. intro Y.
    split; [exact X|]. split; [exact H2|]. split; [apply inl_in; assumption|]. split; [exact H0|]. split.
    + intros Hz u Eu. rewrite Eu in H. rewrite Hz in H. simpl in H. apply inl_in. exact H.
    + apply orb_true_iff in Y. destruct Y as [Y|Y].
      * left. apply andb_true_iff in Y. destruct Y as [Y1 Y2]. split; [exact Y1|].
        apply existsb_exists in Y2. destruct Y2 as ([[due k] y] & Hin & Hw).
        destruct k; try discriminate. apply andb_true_iff in Hw. destruct Hw as [Hy Hd].
        apply Z.eqb_eq in Hy. subst y. apply Z.leb_le in Hd. exists due. split; [exact Hin | exact Hd].
      * right. repeat (apply andb_true_iff in Y; destruct Y as [Y ?]).
        split; [apply negb_true_iff; exact Y|]. split; [apply Z.ltb_lt; assumption | apply Z.leb_le; assumption].
  - intros x r ix Hx Hg. pose proof (forallb_aget' _ _ _ _ Hr Hg) as X. clear Hc Hs Hrt Hcr Hcd He Hr. unfold brelay_shape_b in X.
    rewrite Hx in X. apply andb_true_iff in X. destruct X as [Hla X]. split; [lia|].
    apply orb_true_iff in X. destruct X as [X|X]; [left | right].
    + unfold fw_b in X. apply andb_true_iff in X. destruct X as [X1 X2]. split; [apply inl_in; exact X1|].
      destruct (aget (r_next r) F) as [iy|]; [|discriminate]. exists iy.
      repeat (apply andb_true_iff in X2; destruct X2 as [X2 ?]). split; [reflexivity|]. split; [lia|]. split.
      * unfold optz_is in H0. destruct (f_from iy) as [z|]; [|discriminate]. f_equal. lia.
      * apply inl_in. assumption.
    + unfold bw_b in X. apply andb_true_iff in X. destruct X as [X1 X2]. split; [lia|].
      destruct (f_from ix) as [z|]; [|discriminate]. apply andb_true_iff in X2. destruct X2 as [X2 X3].
      destruct (aget z F) as [iz|] eqn:Ez; [|discriminate]. exists z, iz. split; [reflexivity|].
      split; [lia|]. split; [exact Ez | lia].
  - intros x r Hi Hg. pose proof (forallb_aget' _ _ _ _ Hr Hg) as X. clear Hc Hs Hrt Hcr Hcd He Hr. unfold brelay_shape_b in X.
    apply IF_none in Hi. rewrite Hi in X. apply negb_true_iff in X. exact X.
  - intros x e ix Hx Hg. pose proof (forallb_aget' _ _ _ _ He Hg) as X. clear Hc Hs Hrt Hcr Hcd He Hr. unfold bexit_shape_b in X.
    rewrite Hx in X. repeat (apply andb_true_iff in X; destruct X as [X ?]).
    split; [apply inl_in; exact X|]. split; lia.
  - intros x due ix Hx Hg. pose proof (forallb_aget' _ _ _ _ Hcd Hg) as X. clear Hc Hs Hrt Hcr Hcd He Hr. unfold bcreated_shape_b in X.
    simpl in X. rewrite Hx in X. apply inl_in. exact X.
  - intros k cc Hg. pose proof (forallb_aget' _ _ _ _ Hcr Hg) as X. clear Hc Hs Hrt Hcr Hcd He Hr. unfold bcreate_shape_b, cache_b in X. simpl in X.
    intro Hor. destruct (aget (cc_to cc) F) as [iy|] eqn:Ey; destruct (aget (cc_from cc) F) as [iz|] eqn:Ez;
      try discriminate.
    + exists iy, iz. repeat (apply andb_true_iff in X; destruct X as [X ?]).
      split; [reflexivity|]. split; [reflexivity|]. split; [lia|]. split.
      * unfold optz_is in H1. destruct (f_from iy) as [z|]; [|discriminate]. f_equal. lia.
      * split; [apply inl_in; assumption | lia].
    + exfalso. destruct Hor as [Hor|Hor]; apply IF_some in Hor; destruct Hor as (i & Hi); congruence.
  - intros x rt Hi Hg. pose proof (forallb_aget' _ _ _ _ Hrt Hg) as X. clear Hc Hs Hrt Hcr Hcd He Hr. unfold bretry_shape_b in X. simpl in X.
    unfold IF in Hi. rewrite Hi in X. simpl in X. lia.
  - intros d Hin. rewrite forallb_forall in Hs. specialize (Hs _ Hin). clear Hc Hrt Hcr Hcd He Hr.
    destruct d as [k c dd rn|src x ident|src x ident|x tr ini|x]; simpl in *; auto.
    + intros ix Hx. rewrite Hx in Hs. destruct (fam_info _ _ Hx) as [Hl _].
      repeat (apply andb_true_iff in Hs; destruct Hs as [Hs ?]). split; [apply inl_in; exact Hs|]. split; [lia|]. nia.
    + intros ix Hx. rewrite Hx in Hs. destruct (fam_info _ _ Hx) as [Hl _].
      apply andb_true_iff in Hs. destruct Hs as [Hs ?]. split; [apply inl_in; exact Hs|]. nia.
    + intro Hi. unfold IF in Hi. rewrite Hi in Hs. simpl in Hs. lia.
    + intro Hi. unfold IF in Hi. rewrite Hi in Hs. simpl in Hs. lia.
Qed.

Lemma bmsg_shape_sound m : bmsg_shape_b F tq m = true -> mgoodF m.
Proof.
  destruct m as [src dst x early mid sent|]; [|intros _; exact Logic.I]. unfold bmsg_shape_b, mgoodF.
  intros H ix Hx. rewrite Hx in H. destruct (fam_info _ _ Hx) as [Hl _].
  apply andb_true_iff in H. destruct H as [Hs H].
  assert (N1 : 0 <= (Z.of_nat (f_lvl ix) - 1) * D) by (apply Z.mul_nonneg_nonneg; lia).
  assert (N2 : 0 <= (2 * Z.of_nat h - Z.of_nat (f_lvl ix)) * D) by (apply Z.mul_nonneg_nonneg; lia).
  apply orb_true_iff in H. destruct H as [H|H]; [left | right];
    repeat (apply andb_true_iff in H; destruct H as [H ?]);
    (split; [lia|]); (split; [apply inl_in; assumption|]); (split; [assumption|]); lia.
Qed.

Lemma build_shape_sound w : build_shape_b st F O x0 h tq w = true -> wgoodF w.
Proof.
  unfold build_shape_b. intro H. repeat (apply andb_true_iff in H; destruct H as [H ?]). split.
  - intros n s Hg. apply bnode_shape_sound. apply (forallb_aget' _ _ _ _ H1 Hg).
  - intros m Hin. apply bmsg_shape_sound. rewrite forallb_forall in H0. auto.
Qed.

End BInv.
